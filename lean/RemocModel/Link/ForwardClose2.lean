import RemocModel.Link.ForwardClose
set_option linter.unusedSimpArgs false
set_option linter.unusedVariables false

/-! `FCloseInv` is preserved by the remaining labels and holds in every reachable state. -/

namespace Remoc.Link

theorem fclose_recvChunk (v : Pairing) (ca cb : Cfg) (f f' : Fwd) (hi : FCloseInv cb f)
    (h : fstep v ca cb f .recvChunk = some f') : FCloseInv cb f' := by
  have hB := (fstep_links v ca cb f f' _ h).2
  have h8 := stepOrSame_closed cb f.b f'.b hB
  simp only [fstep] at h
  split at h
  · rename_i hph
    have h0 : f.ph.isDone = false := by rw [hph]; rfl
    split at h
    · rename_i a' ha
      obtain ⟨_, _, _, hcl, _⟩ := recvChunk_spec ca f.a a' ha
      unfold afterChunk at h
      split at h
      · rename_i d _
        cases hs : step cb f.b (.chunkSend d false) with
        | none => simp [hs] at h
        | some b' =>
          simp only [hs, Option.map_some, Option.some.injEq] at h; subst h
          exact fclose_running cb f _ hi h0 rfl (chunkSend_spec cb f.b b' d false hs).2.2.2.2.2.2 hcl rfl h8
      · cases hs : step cb f.b (.chunkSend [] true) with
        | none => simp [hs] at h
        | some b' =>
          simp only [hs, Option.map_some, Option.some.injEq] at h; subst h
          exact fclose_running cb f _ hi h0 rfl (chunkSend_spec cb f.b b' [] true hs).2.2.2.2.2.2 hcl rfl h8
      · cases hs : step cb f.b (.chunkSend [] true) with
        | none => simp [hs] at h
        | some b' =>
          simp only [hs, Option.map_some, Option.some.injEq] at h; subst h
          exact fclose_running cb f _ hi h0 rfl (chunkSend_spec cb f.b b' [] true hs).2.2.2.2.2.2 hcl rfl h8
      · cases hs : step cb f.b .cancel with
        | none => simp [hs] at h
        | some b' =>
          simp only [hs, Option.map_some, Option.some.injEq] at h; subst h
          exact fclose_running cb f _ hi h0 rfl (cancel_spec cb f.b b' hs).2.2.2.1 hcl rfl h8
      · obtain rfl := Option.some.inj h
        exact fclose_running cb f _ hi h0 (by rw [hph]; rfl) rfl hcl rfl h8
    · simp at h
  · simp at h

theorem fclose_emit (v : Pairing) (ca cb : Cfg) (f f' : Fwd) (hi : FCloseInv cb f)
    (h : fstep v ca cb f .emit = some f') : FCloseInv cb f' := by
  have hB := (fstep_links v ca cb f f' _ h).2
  have h8 := stepOrSame_closed cb f.b f'.b hB
  simp only [fstep] at h
  split at h
  · rename_i b' hb
    obtain ⟨x, _, hd, _⟩ := emit_spec cb f.b b' hb
    split at h
    · obtain rfl := Option.some.inj h
      exact fclose_weak cb f _ hi rfl rfl hd rfl rfl rfl rfl h8 (fun hf => hf)
    · unfold afterOp at h
      split at h
      all_goals first
        | (simp at h; done)
        | (rename_i hph
           obtain rfl := Option.some.inj h
           exact fclose_running cb f _ hi (by rw [hph]; rfl) rfl hd rfl rfl h8)
  · simp at h

theorem fclose_fail (v : Pairing) (ca cb : Cfg) (f f' : Fwd) (hi : FCloseInv cb f)
    (h : fstep v ca cb f .fail = some f') : FCloseInv cb f' := by
  simp only [fstep] at h
  cases hs : step cb f.b .fail with
  | none => simp [hs] at h
  | some b' =>
    simp only [hs, Option.map_some, Option.some.injEq] at h; subst h
    obtain ⟨_, hmr, _, _, _, _, hcl⟩ := fail_spec cb f.b b' hs
    refine fclose_finish cb f _ .errSend hi rfl rfl rfl (fun g hg => by show b'.s.closed = some g; rw [hcl]; exact hg)
      (by simp) (fun _ => Or.inr ?_) (by simp)
    show ∃ g, b'.s.closed = some g ∧ (cb.ovr = true → g = false)
    rw [hcl]
    simp only [Sender.mayRequest, Sender.open, Bool.or_eq_false_iff, Bool.and_eq_false_iff] at hmr
    cases hc : f.b.s.closed with
    | none => simp [hc] at hmr
    | some g =>
      refine ⟨g, rfl, fun hov => ?_⟩
      rcases hmr.2 with h1 | h1
      · rw [hov] at h1; simp at h1
      · cases g <;> simp_all

theorem fclose_ports (v : Pairing) (ca cb : Cfg) (f f' : Fwd) (hi : FCloseInv cb f) :
    (∀ p, fstep v ca cb f (.alloc p) = some f' → FCloseInv cb f') ∧
    (fstep v ca cb f .connect = some f' → FCloseInv cb f') := by
  constructor
  · intro p h
    simp only [fstep] at h
    split at h
    · rename_i ids ports hph
      split at h
      · split at h
        · simp at h
        · obtain rfl := Option.some.inj h
          exact fclose_running cb f _ hi (by rw [hph]; rfl) rfl rfl rfl rfl (fun _ hg => hg)
      · simp at h
    · simp at h
  · intro h
    simp only [fstep] at h
    split at h
    · rename_i ids ports hph
      split at h
      · simp at h
      · split at h
        · obtain rfl := Option.some.inj h
          exact fclose_running cb f _ hi (by rw [hph]; rfl) rfl rfl rfl rfl (fun _ hg => hg)
        · cases hs : step cb f.b (.startConnect (ports.map (·.id))) with
          | none => simp [hs] at h
          | some b' =>
            simp only [hs, Option.map_some, Option.some.injEq] at h; subst h
            exact fclose_running cb f _ hi (by rw [hph]; rfl) rfl (startConnect_spec cb f.b b' _ hs).2.2.2.2.2 rfl rfl
              (fun g hg => closed_stable cb f.b b' _ hs g hg)
    · simp at h

theorem fclose_closedEvt (v : Pairing) (ca cb : Cfg) (f f' : Fwd) (hi : FCloseInv cb f)
    (h : fstep v ca cb f .closedEvt = some f') : FCloseInv cb f' := by
  simp only [fstep] at h
  split at h
  · rename_i hph
    split at h
    · rename_i hg
      obtain rfl := Option.some.inj h
      obtain ⟨i1, i2, i3, i4, i5, i6⟩ := hi
      have houts : ((step ca f.a .close).getD f.a).outs = f.a.outs := by
        cases hs : step ca f.a .close with
        | none => rfl
        | some a' => exact (close_spec ca f.a a' hs).2.2.1
      refine ⟨?_, i2, fun _ => rfl, fun _ => hg.2, i5, ?_⟩
      · intro hp; simp only at hp; rw [hph] at hp; simp at hp
      · intro hp; simp only at hp; rw [hph] at hp; simp at hp
    · simp at h
  · simp at h

theorem fclose_lost (v : Pairing) (ca cb : Cfg) (f f' : Fwd) (hi : FCloseInv cb f) :
    (fstep v ca cb f .upLost = some f' → FCloseInv cb f') ∧ (fstep v ca cb f .downLost = some f' → FCloseInv cb f') := by
  constructor
  · intro h
    simp only [fstep] at h
    split at h
    · obtain rfl := Option.some.inj h
      exact fclose_finish cb f _ .errRecv hi rfl rfl rfl (fun _ hg => hg) (by simp) (by simp) (fun _ => Or.inl rfl)
    · cases hs : step cb f.b .cancel with
      | none => simp [hs] at h
      | some b' =>
        simp only [hs, Option.map_some, Option.some.injEq] at h; subst h
        exact fclose_finish cb f _ .errRecv hi rfl rfl rfl (fun g hg => closed_stable cb f.b b' _ hs g hg)
          (by simp) (by simp) (fun _ => Or.inl rfl)
    · simp at h
  · intro h
    simp only [fstep] at h
    split at h
    all_goals first
      | (simp at h; done)
      | (cases hs : step cb f.b .cancel with
         | none => simp [hs] at h
         | some b' =>
           simp only [hs, Option.map_some, Option.some.injEq] at h; subst h
           exact fclose_finish cb f _ .errSend hi rfl rfl rfl (fun g hg => closed_stable cb f.b b' _ hs g hg)
             (by simp) (fun _ => Or.inl rfl) (by simp))

theorem fclose_misc (v : Pairing) (ca cb : Cfg) (f f' : Fwd) (hi : FCloseInv cb f) :
    (fstep v ca cb f .dropRx = some f' → FCloseInv cb f') ∧ (fstep v ca cb f .dropTx = some f' → FCloseInv cb f') ∧
    (∀ j r, fstep v ca cb f (.connResp j r) = some f' → FCloseInv cb f') ∧
    (∀ j ok, fstep v ca cb f (.acceptDone j ok) = some f' → FCloseInv cb f') := by
  refine ⟨?_, ?_, ?_, ?_⟩
  · intro h
    simp only [fstep] at h
    split at h
    · cases hs : step ca f.a .dropReceiver with
      | none => simp [hs] at h
      | some a' =>
        simp only [hs, Option.map_some, Option.some.injEq] at h; subst h
        obtain ⟨_, _, h3, h4⟩ := dropReceiver_spec ca f.a a' hs
        exact fclose_weak cb f _ hi rfl h3 rfl h4 rfl rfl rfl (fun _ hg => hg) (finished_stable ca f.a a' _ hs)
    · simp at h
  · intro h
    simp only [fstep] at h
    split at h
    · rename_i r hph
      cases hs : step cb f.b .dropSender with
      | none => simp [hs] at h
      | some b' =>
        simp only [hs, Option.map_some, Option.some.injEq] at h; subst h
        obtain ⟨i1, i2, i3, i4, i5, i6⟩ := hi
        have hcl : ∀ g, f.b.s.closed = some g → b'.s.closed = some g :=
          fun g hg => closed_stable cb f.b b' _ hs g hg
        refine ⟨i1, fun _ => by simp only [hph]; rfl, i3, ?_, ?_, i6⟩
        · intro hsn
          have := i4 hsn
          cases hc : f.b.s.closed with
          | none => simp [hc] at this
          | some g => show b'.s.closed.isSome = true; simp [hcl g hc]
        · intro hp
          rcases i5 hp with hl | ⟨g, hg, hov⟩
          · exact Or.inl hl
          · exact Or.inr ⟨g, hcl g hg, hov⟩
    · simp at h
  · intro j r h
    simp only [fstep] at h
    split at h
    · rename_i t _
      cases ht : taskResp t r with
      | none => simp [ht] at h
      | some t' =>
        simp only [ht, Option.map_some, Option.some.injEq] at h; subst h
        exact fclose_weak cb f _ hi rfl rfl rfl rfl rfl rfl rfl (fun _ hg => hg) (fun hf => hf)
    · simp at h
  · intro j ok h
    simp only [fstep] at h
    split at h
    · rename_i t _
      cases ht : taskAccept t ok with
      | none => simp [ht] at h
      | some t' =>
        simp only [ht, Option.map_some, Option.some.injEq] at h; subst h
        exact fclose_weak cb f _ hi rfl rfl rfl rfl rfl rfl rfl (fun _ hg => hg) (fun hf => hf)
    · simp at h

theorem fclose_step (v : Pairing) (ca cb : Cfg) (f f' : Fwd) (l : FLabel) (hi : FCloseInv cb f)
    (h : fstep v ca cb f l = some f') : FCloseInv cb f' := by
  cases l with
  | up l => exact (fclose_env v ca cb f f' hi).1 l h
  | down l => exact (fclose_env v ca cb f f' hi).2 l h
  | recvAny => exact fclose_recvAny v ca cb f f' hi h
  | recvChunk => exact fclose_recvChunk v ca cb f f' hi h
  | emit => exact fclose_emit v ca cb f f' hi h
  | fail => exact fclose_fail v ca cb f f' hi h
  | alloc p => exact (fclose_ports v ca cb f f' hi).1 p h
  | connect => exact (fclose_ports v ca cb f f' hi).2 h
  | closedEvt => exact fclose_closedEvt v ca cb f f' hi h
  | upLost => exact (fclose_lost v ca cb f f' hi).1 h
  | downLost => exact (fclose_lost v ca cb f f' hi).2 h
  | dropRx => exact (fclose_misc v ca cb f f' hi).1 h
  | dropTx => exact (fclose_misc v ca cb f f' hi).2.1 h
  | connResp j r => exact (fclose_misc v ca cb f f' hi).2.2.1 j r h
  | acceptDone j ok => exact (fclose_misc v ca cb f f' hi).2.2.2 j ok h

theorem fclose_reachable (v : Pairing) (ca cb : Cfg) (f : Fwd) (h : FReachable v ca cb f) : FCloseInv cb f :=
  (freachable_induction v ca cb (FCloseInv cb) (fclose_init ca cb)
    (fun f f' l _ hi hs => fclose_step v ca cb f f' l hi hs) f h).1

end Remoc.Link
