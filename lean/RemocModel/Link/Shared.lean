import RemocModel.Link.Inv
/-
Two ports sharing the connection's bounded event queue (`Cfg::shared_send_queue`): the only
resource of the sending endpoint that ports compete for.  A frame enters the shared queue only
after its credits were taken (`emit`), the sending dispatcher forwards the head of the queue to the
wire whatever the state of any receiver, and the receiving dispatcher appends to an unbounded
per-port queue.  Hence a port whose receiver does not consume can exhaust its own credit, never a
slot of the shared queue for good.
-/
namespace Remoc.Link

structure Shared where
  /-- the two port directions -/
  p : State
  q : State
  /-- shared event queue of the sending endpoint: (port index, frame), capacity `cap` -/
  evq : List (Bool × Frame) := []
  cap : Nat

inductive SLabel where
  /-- a label of port `p` (false) or `q` (true) other than `emit` -/
  | port (which : Bool) (l : Label)
  /-- `emit` of that port: needs a free slot in the shared queue -/
  | emit (which : Bool)
  /-- the sending dispatcher forwards the head of the shared queue to the wire -/
  | fwd
deriving Repr

/-- frames a port's `emit` appended to its `chan` are routed through the shared queue instead -/
def sstep (cp cq : Cfg) (s : Shared) : SLabel → Option Shared
  | .port false l =>
    match l with
    | .emit => none
    | l => (step cp s.p l).map (fun p' => { s with p := p' })
  | .port true l =>
    match l with
    | .emit => none
    | l => (step cq s.q l).map (fun q' => { s with q := q' })
  | .emit false =>
    if s.evq.length < s.cap then
      (step cp s.p .emit).map (fun p' =>
        -- the emitted frame is the new last element of `chan`: move it to the shared queue
        match p'.chan.getLast? with
        | some f => { s with p := { p' with chan := p'.chan.dropLast }, evq := s.evq ++ [(false, f)] }
        | none => { s with p := p' })
    else none
  | .emit true =>
    if s.evq.length < s.cap then
      (step cq s.q .emit).map (fun q' =>
        match q'.chan.getLast? with
        | some f => { s with q := { q' with chan := q'.chan.dropLast }, evq := s.evq ++ [(true, f)] }
        | none => { s with q := q' })
    else none
  | .fwd =>
    match s.evq with
    | [] => none
    | (false, f) :: rest => some { s with evq := rest, p := { s.p with chan := s.p.chan ++ [f] } }
    | (true, f) :: rest => some { s with evq := rest, q := { s.q with chan := s.q.chan ++ [f] } }

end Remoc.Link
