import RemocModel.Link.Lemmas
set_option linter.unusedSimpArgs false

namespace Remoc.Link

theorem emitFrame_cost_le (c : Cfg) (x : Xfer) (held : Nat) (first : Bool) (h : x.ready held = true) :
    (emitFrame c x held first).1.cost ≤ held := by
  cases x with
  | bytes rest e fin =>
    simp only [Xfer.ready, decide_eq_true_eq] at h
    cases e <;> simp only [emitFrame, Frame.cost, List.length_take, List.length_nil] <;> omega
  | portReqs rest =>
    simp only [Xfer.ready, decide_eq_true_eq] at h
    simp only [emitFrame, Frame.cost, List.length_take]
    have : min c.chunk held / 4 * 4 ≤ min c.chunk held := Nat.div_mul_le_self _ _
    omega

theorem emitFrame_fits (c : Cfg) (x : Xfer) (held : Nat) (first : Bool) :
    (emitFrame c x held first).1.oversize c = false := by
  cases x with
  | bytes rest e fin =>
    cases e <;> simp only [emitFrame, Frame.oversize, List.length_take, List.length_nil,
      decide_eq_false_iff_not] <;> omega
  | portReqs rest =>
    simp only [emitFrame, Frame.oversize, List.length_take, decide_eq_false_iff_not]
    have : min c.chunk held / 4 * 4 ≤ min c.chunk held := Nat.div_mul_le_self _ _
    omega

/-- a call that ends with a frame not marked `last` was a non-final chunk call -/
theorem emitFrame_done_notlast (c : Cfg) (x : Xfer) (held : Nat) (first : Bool) :
    (emitFrame c x held first).2 = none → (emitFrame c x held first).1.isLast = false →
    ∃ r e, x = .bytes r e false := by
  cases x with
  | bytes rest e fin =>
    cases e <;> cases fin <;> simp [emitFrame, Frame.isLast]
  | portReqs rest =>
    simp only [emitFrame, Frame.isLast]
    split <;> simp_all

/-- the remaining call after an `emit` keeps its `fin` flag -/
theorem emitFrame_next_fin (c : Cfg) (x : Xfer) (held : Nat) (first : Bool) (r : Bytes) (e : Bool) :
    (emitFrame c x held first).2 = some (.bytes r e false) → ∃ r0 e0, x = .bytes r0 e0 false := by
  cases x with
  | bytes rest e0 fin =>
    cases e0 <;> cases fin <;> simp [emitFrame]
  | portReqs rest =>
    simp only [emitFrame]
    split <;> simp

/-- The flow-control invariant of one port direction. -/
structure Inv (c : Cfg) (st : State) : Prop where
  /-- credit conservation: every credit of the advertised receive buffer is in exactly one place -/
  cons : st.s.pool + st.s.held + costs st.chan + st.r.used + st.r.toReturn + backSum st.back = c.limit
  /-- `used` is exactly the cost of what waits in the port queue -/
  used : st.r.used = costs st.r.queue
  /-- no frame ever emitted exceeds the advertised chunk size -/
  fits : ∀ f ∈ st.emitted, f.oversize c = false
  /-- the receiving dispatcher never had to raise a flow-control protocol error -/
  noErr : st.protoErr = false
  /-- an idle sender holds no assigned credits -/
  idle : st.s.cur = none → st.s.inMsg = false → st.s.held = 0
  /-- a non-final chunk call only exists while a `ChunkSender` is alive -/
  finInMsg : ∀ r e, st.s.cur = some (.bytes r e false) → st.s.inMsg = true
  /-- FIFO: everything ever emitted was consumed, waits in the port queue, or is in flight, in order -/
  fifo : st.emitted = st.consumed ++ st.r.queue ++ st.chan
  /-- credit taken for everything emitted: what is not in the pool was granted on top of the buffer -/
  sent : costs st.emitted + st.s.pool + st.s.held = c.limit + st.granted
  /-- credits are returned only for consumed frames -/
  ret : st.returned + st.r.toReturn = costs st.consumed
  /-- every granted credit was returned by the receiver -/
  grant : st.granted + backSum st.back = st.returned

theorem fits_snoc {c : Cfg} {chan : List Frame} {g : Frame} (h : ∀ f ∈ chan, f.oversize c = false)
    (hg : g.oversize c = false) : ∀ f ∈ chan ++ [g], f.oversize c = false := by
  intro f hf
  rcases List.mem_append.mp hf with h1 | h1
  · exact h f h1
  · simp at h1; subst h1; exact hg

theorem inv_init (c : Cfg) : Inv c (init c) := by
  constructor <;> simp [init, Receiver.queue]

/-- closes the routine components of the invariant -/
macro "inv_close" : tactic =>
  `(tactic| first
    | (simp_all [Frame.cost, Back.amount, Receiver.queue]; done)
    | (simp_all [Frame.cost, Back.amount, Receiver.queue]; omega)
    | (intros; simp_all [Frame.cost, Back.amount, Receiver.queue]; done)
    | omega)

theorem inv_step (c : Cfg) (st st' : State) (l : Label) (hi : Inv c st) (h : step c st l = some st') :
    Inv c st' := by
  obtain ⟨hc, hu, hf, he, hidle, hfin, hfifo, hsent, hret, hgrant⟩ := hi
  cases l with
  | startSend d =>
    simp only [step] at h
    split at h
    · obtain rfl := Option.some.inj h
      constructor <;> inv_close
    · simp at h
  | startChunks =>
    simp only [step] at h
    split at h
    · obtain rfl := Option.some.inj h
      constructor <;> inv_close
    · simp at h
  | chunkSend d fin =>
    simp only [step] at h
    split at h
    · obtain rfl := Option.some.inj h
      constructor <;> inv_close
    · simp at h
  | startConnect ids =>
    simp only [step] at h
    split at h
    · obtain rfl := Option.some.inj h
      constructor <;> inv_close
    · simp at h
  | cancel =>
    simp only [step] at h
    split at h
    · obtain rfl := Option.some.inj h
      constructor <;> inv_close
    · simp at h
  | dropSender =>
    simp only [step] at h
    split at h
    · obtain rfl := Option.some.inj h
      constructor
      · inv_close
      · inv_close
      · exact fits_snoc hf rfl
      · inv_close
      · inv_close
      · inv_close
      · simp [hfifo]
      · inv_close
      · inv_close
      · inv_close
    · simp at h
  | giveBack =>
    simp only [step] at h
    split at h
    · split at h
      · obtain rfl := Option.some.inj h
        constructor <;> inv_close
      · simp at h
    · simp at h
  | request =>
    simp only [step] at h
    split at h
    · simp at h
    · rename_i x hx
      try simp only [] at h
      split at h
      · obtain rfl := Option.some.inj h
        constructor <;> inv_close
      · simp at h
  | fail =>
    simp only [step] at h
    split at h
    · simp at h
    · split at h
      · obtain rfl := Option.some.inj h
        constructor <;> inv_close
      · simp at h
  | emit =>
    simp only [step] at h
    split at h
    · simp at h
    · rename_i x hx
      split at h
      · rename_i hr
        have hcost := emitFrame_cost_le c x st.s.held st.s.first hr
        have hfit := emitFrame_fits c x st.s.held st.s.first
        have hnl := emitFrame_done_notlast c x st.s.held st.s.first
        have hnf := emitFrame_next_fin c x st.s.held st.s.first
        generalize (emitFrame c x st.s.held st.s.first).1 = f at h hcost hfit hnl hnf
        generalize (emitFrame c x st.s.held st.s.first).2 = x' at h hnl hnf
        try simp only [] at h
        split at h
        · obtain rfl := Option.some.inj h
          rename_i hsome
          constructor
          · inv_close
          · inv_close
          · exact fits_snoc hf hfit
          · inv_close
          · inv_close
          · intro r e hcur
            simp only [] at hcur
            obtain ⟨r0, e0, hx0⟩ := hnf r e hcur
            exact hfin r0 e0 (by rw [hx, hx0])
          · simp [hfifo]
          · simp only [costs_append, costs_cons, costs_nil]; omega
          · inv_close
          · inv_close
        · split at h
          · obtain rfl := Option.some.inj h
            constructor
            · inv_close
            · inv_close
            · exact fits_snoc hf hfit
            · inv_close
            · inv_close
            · inv_close
            · simp [hfifo]
            · simp only [costs_append, costs_cons, costs_nil]; omega
            · inv_close
            · inv_close
          · obtain rfl := Option.some.inj h
            rename_i hnone hlast
            constructor
            · inv_close
            · inv_close
            · exact fits_snoc hf hfit
            · inv_close
            · intro _ hin
              simp only [] at hin
              obtain ⟨r0, e0, hx0⟩ := hnl (by simpa using hnone) (by simpa using hlast)
              have := hfin r0 e0 (by rw [hx, hx0])
              simp_all
            · inv_close
            · simp [hfifo]
            · simp only [costs_append, costs_cons, costs_nil]; omega
            · inv_close
            · inv_close
      · simp at h
  | provide =>
    simp only [step] at h
    split at h
    · simp at h
    · rename_i b bs hb
      split at h <;>
        (obtain rfl := Option.some.inj h
         constructor <;> inv_close)
  | muxRecv =>
    simp only [step] at h
    split at h
    · simp at h
    · rename_i f fs hch
      split at h
      · obtain rfl := Option.some.inj h
        constructor <;> inv_close
      · split at h
        · -- protocol error branch: impossible under the invariant
          rename_i hbad
          exfalso
          have hfit := hf f (by rw [hfifo, hch]; simp)
          rcases hbad with h1 | h1
          · simp [hfit] at h1
          · simp [hch] at hc
            omega
        · obtain rfl := Option.some.inj h
          constructor
          · inv_close
          · simp only [Receiver.queue, costs_append, costs_cons, costs_nil]
            simp only [Receiver.queue, costs_append] at hu
            omega
          · inv_close
          · inv_close
          · inv_close
          · inv_close
          · simp [hfifo, hch, Receiver.queue]
          · inv_close
          · inv_close
          · inv_close
  | recvAny =>
    simp only [step] at h
    split at h
    · simp at h
    · split at h
      · simp at h
      · rename_i r bk f out hs
        have ha := recvAnyStep_acct c _ _ _ _ _ hs
        have hq : costs st.r.queue = f.cost + costs r.queue := by rw [ha.1]; simp
        have hst' : st'.s = st.s ∧ st'.chan = st.chan ∧ st'.r = r ∧ st'.back = st.back ++ bk ∧
            st'.protoErr = st.protoErr ∧ st'.emitted = st.emitted ∧ st'.consumed = st.consumed ++ [f] ∧
            st'.granted = st.granted ∧ st'.returned = st.returned + backSum bk := by
          (repeat' split at h) <;> (obtain rfl := Option.some.inj h; simp)
        obtain ⟨e1, e2, e3, e4, e5, e6, e7, e8, e9⟩ := hst'
        constructor
        · rw [e1, e2, e3, e4, backSum_append]; omega
        · rw [e3]; omega
        · rw [e6]; exact hf
        · rw [e5]; exact he
        · rw [e1]; exact hidle
        · rw [e1]; exact hfin
        · rw [e6, e7, e3, e2, hfifo, ha.1]; simp
        · rw [e6, e1, e8]; exact hsent
        · rw [e9, e7, e3, costs_append]; simp only [costs_cons, costs_nil]; omega
        · rw [e8, e4, e9, backSum_append]; omega
  | recvChunk =>
    simp only [step] at h
    split at h
    · simp at h
    · split at h
      · simp at h
      · split at h
        · simp at h
        · rename_i r bk f out hs
          have ha := recvChunkStep_acct c _ _ _ _ _ hs
          have hq : costs st.r.queue = optCost f + costs r.queue := by
            rw [ha.1]; cases f <;> simp [optCost]
          have hst' : st'.s = st.s ∧ st'.chan = st.chan ∧ st'.r = r ∧ st'.back = st.back ++ bk ∧
              st'.protoErr = st.protoErr ∧ st'.emitted = st.emitted ∧ st'.consumed = st.consumed ++ f.toList ∧
              st'.granted = st.granted ∧ st'.returned = st.returned + backSum bk := by
            (repeat' split at h) <;> (obtain rfl := Option.some.inj h; simp)
          obtain ⟨e1, e2, e3, e4, e5, e6, e7, e8, e9⟩ := hst'
          have hcf : costs f.toList = optCost f := by cases f <;> simp [optCost]
          constructor
          · rw [e1, e2, e3, e4, backSum_append]; omega
          · rw [e3]; omega
          · rw [e6]; exact hf
          · rw [e5]; exact he
          · rw [e1]; exact hidle
          · rw [e1]; exact hfin
          · rw [e6, e7, e3, e2, hfifo, ha.1]; simp
          · rw [e6, e1, e8]; exact hsent
          · rw [e9, e7, e3, costs_append, hcf]; omega
          · rw [e8, e4, e9, backSum_append]; omega
  | close =>
    simp only [step] at h
    split at h
    · obtain rfl := Option.some.inj h
      constructor <;> inv_close
    · simp at h
  | dropReceiver =>
    simp only [step] at h
    split at h
    · obtain rfl := Option.some.inj h
      constructor <;> inv_close
    · simp at h

theorem inv_run (c : Cfg) (st : State) (ls : List Label) (h : Inv c st) : Inv c (run c st ls) := by
  induction ls generalizing st with
  | nil => exact h
  | cons l ls ih =>
    simp only [run]
    split
    · rename_i st' hs; exact ih st' (inv_step c st st' l h hs)
    · exact ih st h

theorem inv_reachable (c : Cfg) (st : State) (h : Reachable c st) : Inv c st := by
  obtain ⟨ls, rfl⟩ := h
  exact inv_run c _ ls (inv_init c)

end Remoc.Link
