import RemocModel.Link.ForwardPorts3
set_option linter.unusedSimpArgs false
set_option linter.unusedVariables false

/-! `FPortInv` in every reachable state; consequences for the pairing as coded. -/

namespace Remoc.Link

theorem fport_rest (v : Pairing) (ca cb : Cfg) (f f' : Fwd) (hi : FPortInv v f) :
    (fstep v ca cb f .fail = some f' → FPortInv v f') ∧
    (fstep v ca cb f .closedEvt = some f' → FPortInv v f') ∧
    (fstep v ca cb f .upLost = some f' → FPortInv v f') ∧
    (fstep v ca cb f .downLost = some f' → FPortInv v f') ∧
    (fstep v ca cb f .dropRx = some f' → FPortInv v f') ∧
    (fstep v ca cb f .dropTx = some f' → FPortInv v f') := by
  refine ⟨?_, ?_, ?_, ?_, ?_, ?_⟩
  · intro h
    simp only [fstep] at h
    cases hs : step cb f.b .fail with
    | none => simp [hs] at h
    | some b' =>
      simp only [hs, Option.map_some, Option.some.injEq] at h; subst h
      exact fport_plain v f _ hi rfl rfl rfl rfl
  · intro h
    simp only [fstep] at h
    split at h
    · rename_i hph
      split at h
      · obtain rfl := Option.some.inj h
        exact fport_same v f _ hi rfl rfl rfl rfl
      · simp at h
    · simp at h
  · intro h
    simp only [fstep] at h
    split at h
    · obtain rfl := Option.some.inj h
      exact fport_plain v f _ hi rfl rfl rfl rfl
    · cases hs : step cb f.b .cancel with
      | none => simp [hs] at h
      | some b' =>
        simp only [hs, Option.map_some, Option.some.injEq] at h; subst h
        exact fport_plain v f _ hi rfl rfl rfl rfl
    · simp at h
  · intro h
    simp only [fstep] at h
    split at h
    all_goals first
      | (simp at h; done)
      | (cases hs : step cb f.b .cancel with
         | none => simp [hs] at h
         | some b' =>
           simp only [hs, Option.map_some, Option.some.injEq] at h; subst h
           exact fport_plain v f _ hi rfl rfl rfl rfl)
  · intro h
    simp only [fstep] at h
    split at h
    · cases hs : step ca f.a .dropReceiver with
      | none => simp [hs] at h
      | some a' =>
        simp only [hs, Option.map_some, Option.some.injEq] at h; subst h
        exact fport_same v f _ hi rfl rfl rfl rfl
    · simp at h
  · intro h
    simp only [fstep] at h
    split at h
    · cases hs : step cb f.b .dropSender with
      | none => simp [hs] at h
      | some b' =>
        simp only [hs, Option.map_some, Option.some.injEq] at h; subst h
        exact fport_same v f _ hi rfl rfl rfl rfl
    · simp at h

theorem fport_step (v : Pairing) (ca cb : Cfg) (f f' : Fwd) (l : FLabel) (hi : FPortInv v f)
    (h : fstep v ca cb f l = some f') : FPortInv v f' := by
  cases l with
  | up l => exact (fport_env v ca cb f f' hi).1 l h
  | down l => exact (fport_env v ca cb f f' hi).2 l h
  | recvAny => exact fport_recvAny v ca cb f f' hi h
  | recvChunk => exact fport_recvChunk v ca cb f f' hi h
  | emit => exact fport_emit v ca cb f f' hi h
  | fail => exact (fport_rest v ca cb f f' hi).1 h
  | alloc p => exact fport_alloc v ca cb f f' hi p h
  | connect => exact fport_connect v ca cb f f' hi h
  | closedEvt => exact (fport_rest v ca cb f f' hi).2.1 h
  | upLost => exact (fport_rest v ca cb f f' hi).2.2.1 h
  | downLost => exact (fport_rest v ca cb f f' hi).2.2.2.1 h
  | dropRx => exact (fport_rest v ca cb f f' hi).2.2.2.2.1 h
  | dropTx => exact (fport_rest v ca cb f f' hi).2.2.2.2.2 h
  | connResp j r => exact (fport_tasks v ca cb f f' hi).1 j r h
  | acceptDone j ok => exact (fport_tasks v ca cb f f' hi).2 j ok h

theorem fport_reachable (v : Pairing) (ca cb : Cfg) (f : Fwd) (h : FReachable v ca cb f) : FPortInv v f :=
  (freachable_induction v ca cb (FPortInv v) (fport_init v ca cb)
    (fun f f' l _ hi hs => fport_step v ca cb f f' l hi hs) f h).1

/-! ### the pairing as coded -/

/-- `pairFrom k ids ports`: element `n` is (request `n`, connect `n`) -/
theorem pairFrom_get (k : Nat) (ids : List Nat) (ports : List PReq) (n : Nat) (t : PairTask)
    (h : (pairFrom k ids ports)[n]? = some t) :
    t.upIdx = k + n ∧ ids[n]? = some t.upId ∧ ports[n]? = some t.out ∧ t.resp = none ∧ t.st = .waiting := by
  induction ids generalizing k ports n with
  | nil => simp [pairFrom] at h
  | cons i is ih =>
    cases ports with
    | nil => simp [pairFrom] at h
    | cons p ps =>
      cases n with
      | zero =>
        simp only [pairFrom, List.getElem?_cons_zero, Option.some.injEq] at h
        subst h
        simp
      | succ m =>
        simp only [pairFrom, List.getElem?_cons_succ] at h
        obtain ⟨h1, h2, h3, h4, h5⟩ := ih (k + 1) ps m h
        exact ⟨by omega, by simpa using h2, by simpa using h3, h4, h5⟩

theorem pairFrom_length (k : Nat) (ids : List Nat) (ports : List PReq) :
    (pairFrom k ids ports).length = min ids.length ports.length := by
  induction ids generalizing k ports with
  | nil => simp [pairFrom]
  | cons i is ih =>
    cases ports with
    | nil => simp [pairFrom]
    | cons p ps => simp [pairFrom, ih (k + 1) ps]

/-- with the ids in place, every pair joins a request to the connect that carries the request's id -/
theorem pairFrom_id (k : Nat) (ids : List Nat) (ports : List PReq) (h : ports.map (·.id) = ids) :
    ∀ t ∈ pairFrom k ids ports, t.out.id = t.upId := by
  intro t ht
  obtain ⟨n, hn⟩ := List.getElem?_of_mem ht
  obtain ⟨_, h2, h3, _⟩ := pairFrom_get k ids ports n t hn
  rw [← h, List.getElem?_map, h3] at h2
  simpa using h2

end Remoc.Link
