import RemocModel.Link.ForwardLemmas
set_option linter.unusedSimpArgs false
set_option linter.unusedVariables false

/-!
What one `emit` of the downstream sender (one frame queued by `Sender::send`, `ChunkSender::send_int` or
`Sender::connect`) does to the call in progress, the open message and the completed sends.
-/

namespace Remoc.Link

/-- the three ways an `emit` can leave the sender, by the next call state and the `last` flag of the frame -/
theorem emit_cases (c : Cfg) (st st' : State) (x : Xfer) (hx : st.s.cur = some x)
    (h : step c st .emit = some st') :
    st'.s.dropped = st.s.dropped ∧
    ((∃ x', (emitFrame c x st.s.held st.s.first).2 = some x' ∧ st'.s.cur = some x' ∧ st'.s.acc = st.s.acc ∧
        st'.s.inMsg = st.s.inMsg ∧ st'.completed = st.completed) ∨
     ((emitFrame c x st.s.held st.s.first).2 = none ∧ (emitFrame c x st.s.held st.s.first).1.isLast = true ∧
        st'.s.cur = none ∧ st'.s.inMsg = false ∧ st'.completed = st.completed ++ x.msgs st.s.acc) ∨
     ((emitFrame c x st.s.held st.s.first).2 = none ∧ (emitFrame c x st.s.held st.s.first).1.isLast = false ∧
        st'.s.cur = none ∧ st'.s.inMsg = st.s.inMsg ∧ st'.s.acc = st.s.acc ∧ st'.completed = st.completed)) := by
  simp only [step, hx] at h
  split at h
  · split at h
    · rename_i hsome
      obtain rfl := Option.some.inj h
      refine ⟨rfl, Or.inl ?_⟩
      cases hx' : (emitFrame c x st.s.held st.s.first).2 with
      | none => simp [hx'] at hsome
      | some x' => exact ⟨x', rfl, rfl, rfl, rfl, rfl⟩
    · rename_i hnone
      have hx' : (emitFrame c x st.s.held st.s.first).2 = none := by
        cases hq : (emitFrame c x st.s.held st.s.first).2 with
        | none => rfl
        | some _ => simp [hq] at hnone
      split at h
      · rename_i hl
        obtain rfl := Option.some.inj h
        exact ⟨rfl, Or.inr (Or.inl ⟨hx', hl, rfl, rfl, rfl⟩)⟩
      · rename_i hl
        obtain rfl := Option.some.inj h
        exact ⟨rfl, Or.inr (Or.inr ⟨hx', by simpa using hl, rfl, rfl, rfl, rfl⟩)⟩
  · simp at h

/-- the continuation of a call has the kind of the call -/
theorem emitFrame_next_kind (c : Cfg) (x x' : Xfer) (held : Nat) (first : Bool)
    (h : (emitFrame c x held first).2 = some x') : x'.kind = x.kind := by
  cases x with
  | portReqs rest =>
    simp only [emitFrame] at h
    split at h
    · simp at h
    · obtain rfl := Option.some.inj h; rfl
  | bytes rest e fin =>
    cases e with
    | true => simp [emitFrame] at h
    | false =>
      simp only [emitFrame] at h
      split at h
      · simp at h
      · obtain rfl := Option.some.inj h
        cases fin <;> rfl

/-- the frame that ends a call carries `last` exactly for calls of kind 1 and 2 -/
theorem emitFrame_end_last (c : Cfg) (x : Xfer) (held : Nat) (first : Bool)
    (h : (emitFrame c x held first).2 = none) :
    (emitFrame c x held first).1.isLast = (x.kind != 0) := by
  cases x with
  | portReqs rest =>
    simp only [emitFrame] at h ⊢
    split at h
    · rename_i he; simp [Frame.isLast, he, Xfer.kind]
    · simp at h
  | bytes rest e fin =>
    cases e with
    | true => cases fin <;> simp [emitFrame, Frame.isLast, Xfer.kind]
    | false =>
      simp only [emitFrame] at h ⊢
      split at h
      · rename_i he
        cases fin <;> simp only [Frame.isLast, he, Xfer.kind, Bool.and_true, Bool.and_false] <;> rfl
      · simp at h

theorem Xfer.msgs_kind (x : Xfer) (acc : Bytes) :
    x.msgs acc = if x.kind = 2 then [] else [acc] := by
  cases x with
  | portReqs _ => rfl
  | bytes _ _ fin => cases fin <;> rfl

/-- **One `emit`.**  Either the call goes on (same kind, same open message, nothing completed), or it
returns: a call of kind 1 completes exactly the open message, a non-final chunk call keeps the message
open, a port batch completes nothing. -/
theorem emit_spec (c : Cfg) (st st' : State) (h : step c st .emit = some st') :
    ∃ x, st.s.cur = some x ∧ st'.s.dropped = st.s.dropped ∧
    (∀ x', st'.s.cur = some x' →
      x'.kind = x.kind ∧ st'.s.acc = st.s.acc ∧ st'.s.inMsg = st.s.inMsg ∧ st'.completed = st.completed) ∧
    (st'.s.cur = none → x.kind = 1 → st'.s.inMsg = false ∧ st'.completed = st.completed ++ [st.s.acc]) ∧
    (st'.s.cur = none → x.kind = 0 →
      st'.s.inMsg = st.s.inMsg ∧ st'.s.acc = st.s.acc ∧ st'.completed = st.completed) ∧
    (st'.s.cur = none → x.kind = 2 → st'.s.inMsg = false ∧ st'.completed = st.completed) := by
  cases hx : st.s.cur with
  | none => simp [step, hx] at h
  | some x =>
    obtain ⟨hd, hc⟩ := emit_cases c st st' x hx h
    refine ⟨x, rfl, hd, ?_⟩
    rcases hc with ⟨x', hn, hcur, hacc, him, hcomp⟩ | ⟨hn, hl, hcur, him, hcomp⟩ | ⟨hn, hl, hcur, him, hacc, hcomp⟩
    · refine ⟨?_, ?_, ?_, ?_⟩
      · intro y hy
        rw [hcur] at hy
        obtain rfl := Option.some.inj hy
        exact ⟨emitFrame_next_kind c x _ _ _ hn, hacc, him, hcomp⟩
      all_goals (intro hnone; rw [hcur] at hnone; simp at hnone)
    · have hk := emitFrame_end_last c x _ _ hn
      rw [hl] at hk
      refine ⟨by intro y hy; rw [hcur] at hy; simp at hy, ?_, ?_, ?_⟩
      · intro _ h1
        refine ⟨him, ?_⟩
        rw [hcomp, Xfer.msgs_kind]; simp [h1]
      · intro _ h0; simp [h0] at hk
      · intro _ h2
        refine ⟨him, ?_⟩
        rw [hcomp, Xfer.msgs_kind]; simp [h2]
    · have hk := emitFrame_end_last c x _ _ hn
      rw [hl] at hk
      have h0 : x.kind = 0 := by
        cases hq : x.kind with
        | zero => rfl
        | succ n => simp [hq] at hk
      refine ⟨by intro y hy; rw [hcur] at hy; simp at hy, ?_, ?_, ?_⟩
      · intro _ h1; omega
      · intro _ _; exact ⟨him, hacc, hcomp⟩
      · intro _ h2; omega

end Remoc.Link
