import RemocModel.Link.ForwardWire3
set_option linter.unusedSimpArgs false
set_option linter.unusedVariables false

namespace Remoc.Link

theorem wire_emit (v : Pairing) (ca cb : Cfg) (f f' : Fwd) (hw : WireInv f)
    (h : fstep v ca cb f .emit = some f') : WireInv f' := by
  simp only [fstep] at h
  split at h
  · rename_i b' hb
    have hids := emit_ids cb f.b b' hb
    split at h
    · obtain rfl := Option.some.inj h
      exact wire_of_eq f _ hw hids rfl (fun he => he)
    · unfold afterOp at h
      split at h
      · rename_i hph
        obtain rfl := Option.some.inj h
        exact wire_of_eq f _ hw hids (wireIds_phase f _ rfl (by rw [hph]; simp [Phase.curKind]) (by simp [Phase.curKind]))
          (fun he => absurd he (by rw [hph]; simp))
      · rename_i hph
        obtain rfl := Option.some.inj h
        exact wire_of_eq f _ hw hids (wireIds_phase f _ rfl (by rw [hph]; simp [Phase.curKind]) (by simp [Phase.curKind]))
          (fun he => absurd he (by rw [hph]; simp))
      · rename_i hph
        obtain rfl := Option.some.inj h
        exact wire_of_eq f _ hw hids (wireIds_phase f _ rfl (by rw [hph]; simp [Phase.curKind]) (by simp [Phase.curKind]))
          (fun he => absurd he (by rw [hph]; simp))
      · rename_i ids ports hph
        obtain rfl := Option.some.inj h
        refine wire_of_eq f _ hw hids ?_ (fun he => absurd he (by rw [hph]; simp))
        simp [wireIds, hph, Phase.connIds]
      · simp at h
  · simp at h

theorem wire_connect (v : Pairing) (ca cb : Cfg) (f f' : Fwd) (hw : WireInv f) (hc : FCore f)
    (h : fstep v ca cb f .connect = some f') : WireInv f' := by
  simp only [fstep] at h
  split at h
  · rename_i ids ports hph
    have k1 : f.ph.curKind ≠ some 2 := by rw [hph]; simp [Phase.curKind]
    split at h
    · simp at h
    · split at h
      · obtain rfl := Option.some.inj h
        refine wire_of_eq f _ hw rfl ?_ (fun he => absurd he (by rw [hph]; simp))
        simp [wireIds, hph, Phase.connIds]
      · cases hs : step cb f.b (.startConnect (ports.map (·.id))) with
        | none => simp [hs] at h
        | some b' =>
          simp only [hs, Option.map_some, Option.some.injEq] at h; subst h
          obtain ⟨_, _, hcur, _⟩ := startConnect_spec cb f.b b' _ hs
          intro _
          have h0 := hw (by rw [hph]; simp)
          rw [curRest_of_kind f.b (by rw [hc.cur]; exact k1)] at h0
          simp only [wireIds, hph, Phase.connIds, List.append_nil] at h0
          show portIds b'.emitted ++ curRest b' = _
          rw [step_emitted cb f.b b' _ (by simp) hs, h0]
          simp [curRest, hcur, wireIds, Phase.connIds]
  · simp at h

end Remoc.Link
