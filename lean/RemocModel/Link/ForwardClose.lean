import RemocModel.Link.ForwardReach
set_option linter.unusedSimpArgs false
set_option linter.unusedVariables false

/-!
# Closing behaviour of the forwarder

What `forward` does with a close in each direction (forward.rs):

* downstream receiver closed or dropped → `tx.closed()` resolves → `rx.close()`: `ReceiverClosed` goes upstream
  (once: local `closed`); the loop goes on, and because of the graceful-close override the messages the origin
  had already sent are still relayed; only a *non-graceful* close (`ReceiveFinish`) makes a send fail and
  `forward` return `ForwardError::Send`;
* upstream end-of-stream → `forward` returns `Ok`; its caller drops the downstream sender: `SendFinish` goes
  downstream after everything that was relayed.
-/

namespace Remoc.Link

def Phase.isDone : Phase → Bool
  | .done _ => true
  | _ => false

structure FCloseInv (cb : Cfg) (f : Fwd) : Prop where
  /-- `forward` returns `Ok` only after the upstream receiver saw `Finished` (`recv_any` reported
  end-of-stream, or `Finished` ended a chunk stream and the next `recv_any` returned `None` at once) -/
  okEos : f.ph = .done .ok → (Out.eos ∈ f.a.outs ∨ f.a.r.finished = true)
  /-- the downstream sender is dropped only after `forward` returned -/
  dropped : f.b.s.dropped = true → f.ph.isDone = true
  /-- the upstream receiver is closed only by the `Event::Closed` branch … -/
  closeUp : f.a.r.closed = true → f.closedSeen = true
  /-- … which runs only when the downstream sender was told that its receiver closed or was dropped -/
  seen : f.closedSeen = true → f.b.s.closed.isSome = true
  /-- `ForwardError::Send`: the downstream connection was lost, or the downstream receiver closed in a way the
  sender does not override (with the override: it was dropped) -/
  errSend : f.ph = .done .errSend →
    f.lostDown = true ∨ ∃ g, f.b.s.closed = some g ∧ (cb.ovr = true → g = false)
  /-- `ForwardError::Recv`: the upstream connection was lost, or a port batch exceeded `max_ports` -/
  errRecv : f.ph = .done .errRecv → f.lostUp = true ∨ Out.tooManyPorts ∈ f.a.outs

theorem fclose_init (ca cb : Cfg) : FCloseInv cb (finit ca cb) := by
  constructor <;> simp [finit, init, Phase.isDone]

/-- steps that keep phase, upstream view and flags; the downstream `closed` may only be set -/
theorem fclose_weak (cb : Cfg) (f f' : Fwd) (hi : FCloseInv cb f)
    (h1 : f'.ph = f.ph) (h2 : f'.a.outs = f.a.outs) (h3 : f'.b.s.dropped = f.b.s.dropped)
    (h4 : f'.a.r.closed = f.a.r.closed) (h5 : f'.closedSeen = f.closedSeen) (h6 : f'.lostDown = f.lostDown)
    (h7 : f'.lostUp = f.lostUp) (h8 : ∀ g, f.b.s.closed = some g → f'.b.s.closed = some g)
    (h9 : f.a.r.finished = true → f'.a.r.finished = true) : FCloseInv cb f' := by
  obtain ⟨i1, i2, i3, i4, i5, i6⟩ := hi
  refine ⟨by rw [h1, h2]; exact fun hp => (i1 hp).imp id h9, by rw [h1, h3]; exact i2, by rw [h4, h5]; exact i3, ?_, ?_, by rw [h1, h7, h2]; exact i6⟩
  · intro hs
    rw [h5] at hs
    have := i4 hs
    cases hc : f.b.s.closed with
    | none => simp [hc] at this
    | some g => simp [h8 g hc]
  · intro hp
    rw [h1] at hp
    rcases i5 hp with hl | ⟨g, hg, hov⟩
    · left; rw [h6]; exact hl
    · right; exact ⟨g, h8 g hg, hov⟩

/-- steps of the running loop that end in a phase other than `done` -/
theorem fclose_running (cb : Cfg) (f f' : Fwd) (hi : FCloseInv cb f)
    (h0 : f.ph.isDone = false) (h1 : f'.ph.isDone = false) (h3 : f'.b.s.dropped = f.b.s.dropped)
    (h4 : f'.a.r.closed = f.a.r.closed) (h5 : f'.closedSeen = f.closedSeen)
    (h8 : ∀ g, f.b.s.closed = some g → f'.b.s.closed = some g) : FCloseInv cb f' := by
  obtain ⟨i1, i2, i3, i4, i5, i6⟩ := hi
  have nd : ∀ r, f'.ph ≠ .done r := by
    intro r hr; rw [hr] at h1; simp [Phase.isDone] at h1
  refine ⟨fun hp => absurd hp (nd _), ?_, by rw [h4, h5]; exact i3, ?_, fun hp => absurd hp (nd _),
    fun hp => absurd hp (nd _)⟩
  · intro hd
    rw [h3] at hd
    have := i2 hd
    rw [h0] at this; simp at this
  · intro hs
    rw [h5] at hs
    have := i4 hs
    cases hc : f.b.s.closed with
    | none => simp [hc] at this
    | some g => simp [h8 g hc]

/-- one M_link step or none keeps a set `closed` -/
theorem stepOrSame_closed (c : Cfg) (st st' : State) (h : StepOrSame c st st') (g : Bool)
    (hc : st.s.closed = some g) : st'.s.closed = some g := by
  rcases h with rfl | ⟨l, hl⟩
  · exact hc
  · exact closed_stable c st st' l hl g hc

/-- `forward` returns -/
theorem fclose_finish (cb : Cfg) (f f' : Fwd) (r : FwdResult) (hi : FCloseInv cb f) (h1 : f'.ph = .done r)
    (h4 : f'.a.r.closed = f.a.r.closed) (h5 : f'.closedSeen = f.closedSeen)
    (h8 : ∀ g, f.b.s.closed = some g → f'.b.s.closed = some g)
    (hok : r = .ok → (Out.eos ∈ f'.a.outs ∨ f'.a.r.finished = true))
    (hes : r = .errSend → f'.lostDown = true ∨ ∃ g, f'.b.s.closed = some g ∧ (cb.ovr = true → g = false))
    (her : r = .errRecv → f'.lostUp = true ∨ Out.tooManyPorts ∈ f'.a.outs) : FCloseInv cb f' := by
  obtain ⟨i1, i2, i3, i4, i5, i6⟩ := hi
  refine ⟨?_, ?_, by rw [h4, h5]; exact i3, ?_, ?_, ?_⟩
  · intro hp; rw [h1] at hp; exact hok (Phase.done.inj hp)
  · intro _; rw [h1]; rfl
  · intro hs
    rw [h5] at hs
    have := i4 hs
    cases hc : f.b.s.closed with
    | none => simp [hc] at this
    | some g => simp [h8 g hc]
  · intro hp; rw [h1] at hp; exact hes (Phase.done.inj hp)
  · intro hp; rw [h1] at hp; exact her (Phase.done.inj hp)

theorem fclose_env (v : Pairing) (ca cb : Cfg) (f f' : Fwd) (hi : FCloseInv cb f) :
    (∀ l, fstep v ca cb f (.up l) = some f' → FCloseInv cb f') ∧
    (∀ l, fstep v ca cb f (.down l) = some f' → FCloseInv cb f') := by
  constructor
  · intro l h
    simp only [fstep] at h
    split at h
    · rename_i hl
      cases hs : step ca f.a l with
      | none => simp [hs] at h
      | some a' =>
        simp only [hs, Option.map_some, Option.some.injEq] at h
        subst h
        have hv := up_env_view ca f.a a' l hl hs
        simp only [aview, Prod.mk.injEq] at hv
        exact fclose_weak cb f _ hi rfl hv.2.2.1 rfl hv.2.2.2 rfl rfl rfl (fun _ hg => hg)
          (finished_stable ca f.a a' l hs)
    · simp at h
  · intro l h
    simp only [fstep] at h
    split at h
    · rename_i hl
      cases hs : step cb f.b l with
      | none => simp [hs] at h
      | some b' =>
        simp only [hs, Option.map_some, Option.some.injEq] at h
        subst h
        have hv := down_env_view cb f.b b' l hl hs
        simp only [bview, Prod.mk.injEq] at hv
        exact fclose_weak cb f _ hi rfl rfl hv.2.2.2.2 rfl rfl rfl rfl
          (fun g hg => closed_stable cb f.b b' l hs g hg) (fun hf => hf)
    · simp at h

theorem fclose_recvAny (v : Pairing) (ca cb : Cfg) (f f' : Fwd) (hi : FCloseInv cb f)
    (h : fstep v ca cb f .recvAny = some f') : FCloseInv cb f' := by
  have hB := (fstep_links v ca cb f f' _ h).2
  have h8 := stepOrSame_closed cb f.b f'.b hB
  simp only [fstep] at h
  split at h
  · rename_i hph
    have h0 : f.ph.isDone = false := by rw [hph]; rfl
    split at h
    · rename_i a' ha
      obtain ⟨_, houts, hcl, _, _, _⟩ := recvAny_spec ca f.a a' ha
      unfold afterAny at h
      split at h
      · rename_i d _
        cases hs : step cb f.b (.startSend d) with
        | none => simp [hs] at h
        | some b' =>
          simp only [hs, Option.map_some, Option.some.injEq] at h; subst h
          exact fclose_running cb f _ hi h0 rfl (startSend_spec cb f.b b' d hs).2.2.2.2.2.2 hcl rfl h8
      · cases hs : step cb f.b .startChunks with
        | none => simp [hs] at h
        | some b' =>
          simp only [hs, Option.map_some, Option.some.injEq] at h; subst h
          exact fclose_running cb f _ hi h0 rfl (startChunks_spec cb f.b b' hs).2.2.2.2.2.2 hcl rfl h8
      · obtain rfl := Option.some.inj h
        exact fclose_running cb f _ hi h0 rfl rfl hcl rfl h8
      · rename_i ho
        obtain rfl := Option.some.inj h
        exact fclose_finish cb f _ .ok hi rfl hcl rfl h8 (fun _ => Or.inl (by simp [houts, ho])) (by simp) (by simp)
      · rename_i ho
        obtain rfl := Option.some.inj h
        exact fclose_finish cb f _ .errRecv hi rfl hcl rfl h8 (by simp) (by simp)
          (fun _ => Or.inr (by simp [houts, ho]))
      · obtain rfl := Option.some.inj h
        exact fclose_running cb f _ hi h0 (by rw [hph]; rfl) rfl hcl rfl h8
    · split at h
      · rename_i hfin
        obtain rfl := Option.some.inj h
        exact fclose_finish cb f _ .ok hi rfl rfl rfl h8 (fun _ => Or.inr hfin) (by simp) (by simp)
      · simp at h
  · simp at h

end Remoc.Link
