import RemocModel.Link.ForwardWire4
set_option linter.unusedSimpArgs false
set_option linter.unusedVariables false

namespace Remoc.Link

theorem wire_env (v : Pairing) (ca cb : Cfg) (f f' : Fwd) (hw : WireInv f) :
    (∀ l, fstep v ca cb f (.up l) = some f' → WireInv f') ∧
    (∀ l, fstep v ca cb f (.down l) = some f' → WireInv f') := by
  constructor
  · intro l h
    simp only [fstep] at h
    split at h
    · cases hs : step ca f.a l with
      | none => simp [hs] at h
      | some a' =>
        simp only [hs, Option.map_some, Option.some.injEq] at h; subst h
        exact wire_same f _ hw rfl rfl rfl (fun he => he)
    · simp at h
  · intro l h
    simp only [fstep] at h
    split at h
    · rename_i hl
      cases hs : step cb f.b l with
      | none => simp [hs] at h
      | some b' =>
        simp only [hs, Option.map_some, Option.some.injEq] at h; subst h
        have hv := down_env_view cb f.b b' l hl hs
        simp only [bview, Prod.mk.injEq] at hv
        have hne : l ≠ .emit := by rintro rfl; simp [Label.downEnv] at hl
        refine wire_of_eq f _ hw ?_ rfl (fun he => he)
        show portIds b'.emitted ++ curRest b' = _
        rw [step_emitted cb f.b b' l hne hs]
        simp [curRest, hv.1]
    · simp at h

theorem wire_rest (v : Pairing) (ca cb : Cfg) (f f' : Fwd) (hw : WireInv f) (hc : FCore f) :
    (fstep v ca cb f .fail = some f' → WireInv f') ∧
    (∀ p, fstep v ca cb f (.alloc p) = some f' → WireInv f') ∧
    (fstep v ca cb f .closedEvt = some f' → WireInv f') ∧
    (fstep v ca cb f .upLost = some f' → WireInv f') ∧
    (fstep v ca cb f .downLost = some f' → WireInv f') ∧
    (fstep v ca cb f .dropRx = some f' → WireInv f') ∧
    (fstep v ca cb f .dropTx = some f' → WireInv f') ∧
    (∀ j r, fstep v ca cb f (.connResp j r) = some f' → WireInv f') ∧
    (∀ j ok, fstep v ca cb f (.acceptDone j ok) = some f' → WireInv f') := by
  refine ⟨?_, ?_, ?_, ?_, ?_, ?_, ?_, ?_, ?_⟩
  · intro h
    simp only [fstep] at h
    cases hs : step cb f.b .fail with
    | none => simp [hs] at h
    | some b' =>
      simp only [hs, Option.map_some, Option.some.injEq] at h; subst h
      intro hp; exact absurd rfl hp
  · intro p h
    simp only [fstep] at h
    split at h
    · rename_i ids ports hph
      split at h
      · split at h
        · simp at h
        · obtain rfl := Option.some.inj h
          exact wire_same f _ hw rfl rfl (wireIds_phase f _ rfl (by rw [hph]; simp [Phase.curKind]) (by simp [Phase.curKind]))
            (fun he => absurd he (by rw [hph]; simp))
      · simp at h
    · simp at h
  · intro h
    simp only [fstep] at h
    split at h
    · split at h
      · obtain rfl := Option.some.inj h
        exact wire_same f _ hw rfl rfl rfl (fun he => he)
      · simp at h
    · simp at h
  · intro h
    simp only [fstep] at h
    split at h
    · rename_i hph
      obtain rfl := Option.some.inj h
      exact wire_same f _ hw rfl rfl (wireIds_phase f _ rfl (by rw [hph]; simp [Phase.curKind]) (by simp [Phase.curKind]))
        (fun he => absurd he (by rw [hph]; simp))
    · rename_i hph
      cases hs : step cb f.b .cancel with
      | none => simp [hs] at h
      | some b' =>
        simp only [hs, Option.map_some, Option.some.injEq] at h; subst h
        obtain ⟨hcur, _⟩ := cancel_spec cb f.b b' hs
        exact wire_bstep cb f _ hw hc _ (by simp) hs rfl (by rw [hph]; simp [Phase.curKind]) (by simp [Phase.curKind])
          (by simp [hcur]) (fun he => absurd he (by rw [hph]; simp))
    · simp at h
  · intro h
    simp only [fstep] at h
    split at h
    all_goals first
      | (simp at h; done)
      | (cases hs : step cb f.b .cancel with
         | none => simp [hs] at h
         | some b' =>
           simp only [hs, Option.map_some, Option.some.injEq] at h; subst h
           intro hp; exact absurd rfl hp)
  · intro h
    simp only [fstep] at h
    split at h
    · cases hs : step ca f.a .dropReceiver with
      | none => simp [hs] at h
      | some a' =>
        simp only [hs, Option.map_some, Option.some.injEq] at h; subst h
        exact wire_same f _ hw rfl rfl rfl (fun he => he)
    · simp at h
  · intro h
    simp only [fstep] at h
    split at h
    · cases hs : step cb f.b .dropSender with
      | none => simp [hs] at h
      | some b' =>
        simp only [hs, Option.map_some, Option.some.injEq] at h; subst h
        obtain ⟨hcur, _⟩ := dropSender_spec cb f.b b' hs
        refine wire_of_eq f _ hw ?_ rfl (fun he => he)
        show portIds b'.emitted ++ curRest b' = _
        rw [step_emitted cb f.b b' _ (by simp) hs]
        simp [curRest, hcur]
    · simp at h
  · intro j r h
    simp only [fstep] at h
    split at h
    · rename_i t _
      cases ht : taskResp t r with
      | none => simp [ht] at h
      | some t' =>
        simp only [ht, Option.map_some, Option.some.injEq] at h; subst h
        exact wire_same f _ hw rfl rfl rfl (fun he => he)
    · simp at h
  · intro j ok h
    simp only [fstep] at h
    split at h
    · rename_i t _
      cases ht : taskAccept t ok with
      | none => simp [ht] at h
      | some t' =>
        simp only [ht, Option.map_some, Option.some.injEq] at h; subst h
        exact wire_same f _ hw rfl rfl rfl (fun he => he)
    · simp at h

theorem wire_step (v : Pairing) (ca cb : Cfg) (f f' : Fwd) (l : FLabel) (hw : WireInv f) (hc : FCore f)
    (h : fstep v ca cb f l = some f') : WireInv f' := by
  cases l with
  | up l => exact (wire_env v ca cb f f' hw).1 l h
  | down l => exact (wire_env v ca cb f f' hw).2 l h
  | recvAny => exact (wire_recv v ca cb f f' hw hc).1 h
  | recvChunk => exact (wire_recv v ca cb f f' hw hc).2 h
  | emit => exact wire_emit v ca cb f f' hw h
  | fail => exact (wire_rest v ca cb f f' hw hc).1 h
  | alloc p => exact (wire_rest v ca cb f f' hw hc).2.1 p h
  | connect => exact wire_connect v ca cb f f' hw hc h
  | closedEvt => exact (wire_rest v ca cb f f' hw hc).2.2.1 h
  | upLost => exact (wire_rest v ca cb f f' hw hc).2.2.2.1 h
  | downLost => exact (wire_rest v ca cb f f' hw hc).2.2.2.2.1 h
  | dropRx => exact (wire_rest v ca cb f f' hw hc).2.2.2.2.2.1 h
  | dropTx => exact (wire_rest v ca cb f f' hw hc).2.2.2.2.2.2.1 h
  | connResp j r => exact (wire_rest v ca cb f f' hw hc).2.2.2.2.2.2.2.1 j r h
  | acceptDone j ok => exact (wire_rest v ca cb f f' hw hc).2.2.2.2.2.2.2.2 j ok h

theorem wire_reachable (v : Pairing) (ca cb : Cfg) (f : Fwd) (h : FReachable v ca cb f) : WireInv f :=
  (freachable_induction v ca cb WireInv (by intro _; simp [finit, init, portIds, curRest, wireIds, Phase.connIds])
    (fun f f' l hj hw hs => wire_step v ca cb f f' l hw hj.core hs) f h).1

end Remoc.Link
