import RemocModel.Link.ForwardEmit
set_option linter.unusedSimpArgs false
set_option linter.unusedVariables false

/-!
# The forwarder invariant

`FCore`: in every phase of the forwarding loop the downstream sender is in the shape the code implies
(which kind of call is in progress, whether a `ChunkSender` is alive) and what was *completed*
downstream relates to what the forwarder *obtained* upstream:

* `eq`       — between messages: completed downstream = obtained upstream;
* `plusAcc`  — a whole-message send / `finish` in progress: completed ++ [message being sent] = obtained;
* `open`     — inside a chunk stream: completed = obtained, and the bytes handed to the `ChunkSender` so far are
               exactly the bytes `recv_chunk` returned so far;
* `pre`      — `forward` returned with an error: completed is a prefix of obtained.
-/

namespace Remoc.Link

/-- kind of the downstream call in progress in each phase -/
def Phase.curKind : Phase → Option Nat
  | .sendData => some 1
  | .chunkSend => some 0
  | .chunkFinish => some 1
  | .connect _ _ => some 2
  | _ => none

/-- is a `ChunkSender` alive? -/
def Phase.inMsg : Phase → Bool
  | .chunkRecv | .chunkSend | .chunkFinish => true
  | _ => false

inductive Rel where
  | eq | plusAcc | open | pre
deriving DecidableEq

def Phase.rel : Phase → Rel
  | .idle | .alloc _ _ | .connect _ _ | .done .ok => .eq
  | .sendData | .chunkFinish => .plusAcc
  | .chunkRecv | .chunkSend => .open
  | .done _ => .pre

def relHolds : Rel → List Bytes → Bytes → List Bytes → Option Bytes → Prop
  | .eq, comp, _, dl, pm => pm = none ∧ comp = dl
  | .plusAcc, comp, acc, dl, pm => pm = none ∧ comp ++ [acc] = dl
  | .open, comp, acc, dl, pm => pm = some acc ∧ comp = dl
  | .pre, comp, _, dl, _ => ∃ k, comp = dl.take k

structure FCore (f : Fwd) : Prop where
  cur : f.b.s.cur.map Xfer.kind = f.ph.curKind
  inMsg : f.b.s.inMsg = f.ph.inMsg
  rel : relHolds f.ph.rel f.b.completed f.b.s.acc f.a.delivered f.a.partialMsg

theorem fcore_init (ca cb : Cfg) : FCore (finit ca cb) := by
  constructor <;> simp [finit, init, Phase.curKind, Phase.inMsg, Phase.rel, relHolds]

/-- whatever the relation, what was completed downstream is a prefix of what was obtained upstream -/
theorem rel_pre (r : Rel) (comp : List Bytes) (acc : Bytes) (dl : List Bytes) (pm : Option Bytes)
    (h : relHolds r comp acc dl pm) : relHolds .pre comp acc dl pm := by
  cases r with
  | eq => exact ⟨dl.length, by rw [h.2]; simp⟩
  | plusAcc => exact ⟨comp.length, by rw [← h.2]; simp⟩
  | «open» => exact ⟨dl.length, by rw [h.2]; simp⟩
  | pre => exact h

/-- the fields `FCore` reads -/
def cview (f : Fwd) : Phase × Option Xfer × Bool × Bytes × List Bytes × List Bytes × Option Bytes :=
  (f.ph, f.b.s.cur, f.b.s.inMsg, f.b.s.acc, f.b.completed, f.a.delivered, f.a.partialMsg)

theorem fcore_of_view (f f' : Fwd) (hv : cview f' = cview f) (hi : FCore f) : FCore f' := by
  simp only [cview, Prod.mk.injEq] at hv
  obtain ⟨h1, h2, h3, h4, h5, h6, h7⟩ := hv
  obtain ⟨hc, hm, hr⟩ := hi
  exact ⟨by rw [h1, h2]; exact hc, by rw [h1, h3]; exact hm, by rw [h1, h4, h5, h6, h7]; exact hr⟩

/-- inside a chunked message `recv_chunk` never reports end-of-stream (a `Finished` that arrives there is
reported as `Cancelled`) -/
theorem chunkOut_no_eos (c : Cfg) (st : State) (hi : RInv st) (acc : Bytes) (hp : st.partialMsg = some acc) :
    chunkOut c st ≠ some .eos := by
  have hmode := hi.mode
  rw [hp] at hmode
  have hfin : st.r.finished = false := by
    cases hf : st.r.finished with
    | false => rfl
    | true => have := hi.fin hf; rw [hp] at this; simp at this
  cases hr : st.r.receiving with
  | chunks chs b =>
    have hu : st.r.unprocessed = none := by
      cases hq : st.r.unprocessed with
      | none => rfl
      | some g => have := (hi.unproc g hq).2; rw [hr] at this; simp at this
    cases hs : recvChunkStep c st.r with
    | none => simp [chunkOut, hs]
    | some x =>
      obtain ⟨r', bk, f, out⟩ := x
      have hsem := recvChunkStep_sem c st.r r' bk f out hs hfin chs b hr hu
      simp only [chunkOut, hs]
      rcases hsem with ⟨_, _, _, _, _, ho, _⟩ | ⟨_, _, _, _, ho, _⟩ | ⟨_, _, _, _, _, _, _, ho, _⟩ |
        ⟨_, _, _, _, _, _, ho, _⟩ | ⟨_, _, _, _, ho, _⟩ <;> simp [ho]
  | nothing => simp [hr, Receiving.inChunks] at hmode
  | data _ => simp [hr, Receiving.inChunks] at hmode
  | requests _ => simp [hr, Receiving.inChunks] at hmode

/-! ### preservation, label by label -/

theorem fcore_recvAny (v : Pairing) (ca cb : Cfg) (f f' : Fwd) (hi : FCore f)
    (h : fstep v ca cb f .recvAny = some f') : FCore f' := by
  simp only [fstep] at h
  split at h
  · rename_i hph
    split at h
    · rename_i a' ha
      obtain ⟨hpn, _, _, hdata, hchunks, hother⟩ := recvAny_spec ca f.a a' ha
      obtain ⟨hc, hm, hr⟩ := hi
      rw [hph] at hc hm hr
      simp only [Phase.curKind, Phase.inMsg, Phase.rel, relHolds, Option.map_eq_none_iff] at hc hm hr
      have keep : ∀ ph : Phase, ph.curKind = none → ph.inMsg = false → ph.rel = .eq →
          (∀ d, anyOut ca f.a ≠ some (.data d)) → anyOut ca f.a ≠ some .chunksStart →
          FCore { f with a := a', ph := ph } := by
        intro ph h1 h2 h3 h4 h5
        obtain ⟨hd, hp⟩ := hother h4 h5
        refine ⟨by simp [hc, h1], by simp [hm, h2], ?_⟩
        simp only [h3, relHolds]
        exact ⟨hp, by rw [hd]; exact hr.2⟩
      cases ho : anyOut ca f.a with
      | none =>
        simp only [ho, afterAny] at h
        obtain rfl := Option.some.inj h
        have := keep f.ph (by simp [hph, Phase.curKind]) (by simp [hph, Phase.inMsg]) (by simp [hph, Phase.rel])
          (by simp [ho]) (by simp [ho])
        exact fcore_of_view _ _ rfl this
      | some o =>
        cases o with
        | data d =>
          simp only [ho, afterAny] at h
          cases hs : step cb f.b (.startSend d) with
          | none => simp [hs] at h
          | some b' =>
            simp only [hs, Option.map_some, Option.some.injEq] at h
            subst h
            obtain ⟨_, _, ⟨x, hx, hk⟩, him, hacc, hcomp, _⟩ := startSend_spec cb f.b b' d hs
            obtain ⟨hd, hp⟩ := hdata d ho
            refine ⟨by simp [hx, hk, Phase.curKind], by simp [him, Phase.inMsg], ?_⟩
            simp only [Phase.rel, relHolds]
            exact ⟨hp, by rw [hd, hcomp, hacc, hr.2]⟩
        | chunksStart =>
          simp only [ho, afterAny] at h
          cases hs : step cb f.b .startChunks with
          | none => simp [hs] at h
          | some b' =>
            simp only [hs, Option.map_some, Option.some.injEq] at h
            subst h
            obtain ⟨_, _, hcur, him, hacc, hcomp, _⟩ := startChunks_spec cb f.b b' hs
            obtain ⟨hd, hp⟩ := hchunks ho
            refine ⟨by simp [hcur, Phase.curKind], by simp [him, Phase.inMsg], ?_⟩
            simp only [Phase.rel, relHolds]
            exact ⟨by rw [hp, hacc], by rw [hd, hcomp, hr.2]⟩
        | requests ids =>
          simp only [ho, afterAny] at h
          obtain rfl := Option.some.inj h
          exact keep _ rfl rfl rfl (by simp [ho]) (by simp [ho])
        | eos =>
          simp only [ho, afterAny] at h
          obtain rfl := Option.some.inj h
          exact keep _ rfl rfl rfl (by simp [ho]) (by simp [ho])
        | tooManyPorts =>
          simp only [ho, afterAny] at h
          obtain rfl := Option.some.inj h
          obtain ⟨hd, hp⟩ := hother (by simp [ho]) (by simp [ho])
          refine ⟨by simp [hc, Phase.curKind], by simp [hm, Phase.inMsg], ?_⟩
          simp only [Phase.rel]
          exact rel_pre .eq _ _ _ _ ⟨hp, by rw [hd]; exact hr.2⟩
        | chunk d =>
          simp only [ho, afterAny] at h
          obtain rfl := Option.some.inj h
          exact fcore_of_view _ _ rfl (keep f.ph (by simp [hph, Phase.curKind]) (by simp [hph, Phase.inMsg])
            (by simp [hph, Phase.rel]) (by simp [ho]) (by simp [ho]))
        | chunkEnd =>
          simp only [ho, afterAny] at h
          obtain rfl := Option.some.inj h
          exact fcore_of_view _ _ rfl (keep f.ph (by simp [hph, Phase.curKind]) (by simp [hph, Phase.inMsg])
            (by simp [hph, Phase.rel]) (by simp [ho]) (by simp [ho]))
        | cancelled =>
          simp only [ho, afterAny] at h
          obtain rfl := Option.some.inj h
          exact fcore_of_view _ _ rfl (keep f.ph (by simp [hph, Phase.curKind]) (by simp [hph, Phase.inMsg])
            (by simp [hph, Phase.rel]) (by simp [ho]) (by simp [ho]))
    · split at h
      · obtain rfl := Option.some.inj h
        obtain ⟨hc, hm, hr⟩ := hi
        rw [hph] at hc hm hr
        exact ⟨hc, hm, hr⟩
      · simp at h
  · simp at h

theorem fcore_recvChunk (v : Pairing) (ca cb : Cfg) (f f' : Fwd) (hi : FCore f) (hra : RInv f.a)
    (h : fstep v ca cb f .recvChunk = some f') : FCore f' := by
  simp only [fstep] at h
  split at h
  · rename_i hph
    split at h
    · rename_i a' ha
      obtain ⟨acc, hpa, _, _, hchunk, hend, hcanc, heos, hother⟩ := recvChunk_spec ca f.a a' ha
      obtain ⟨hc, hm, hr⟩ := hi
      rw [hph] at hc hm hr
      simp only [Phase.curKind, Phase.inMsg, Phase.rel, relHolds, Option.map_eq_none_iff] at hc hm hr
      have hacc : acc = f.b.s.acc := by
        have := hr.1; rw [hpa] at this; exact Option.some.inj this
      have hne := chunkOut_no_eos ca f.a hra acc hpa
      have keep : (∀ d, chunkOut ca f.a ≠ some (.chunk d)) → chunkOut ca f.a ≠ some .chunkEnd →
          chunkOut ca f.a ≠ some .cancelled → FCore { f with a := a' } := by
        intro h1 h2 h3
        obtain ⟨hd, hp⟩ := hother h1 h2 h3 hne
        refine ⟨by simp [hc, hph, Phase.curKind], by simp [hm, hph, Phase.inMsg], ?_⟩
        simp only [hph, Phase.rel, relHolds]
        exact ⟨by rw [hp, hacc], by rw [hd]; exact hr.2⟩
      cases ho : chunkOut ca f.a with
      | none =>
        simp only [ho, afterChunk] at h
        obtain rfl := Option.some.inj h
        exact keep (by simp [ho]) (by simp [ho]) (by simp [ho])
      | some o =>
        cases o with
        | chunk d =>
          simp only [ho, afterChunk] at h
          cases hs : step cb f.b (.chunkSend d false) with
          | none => simp [hs] at h
          | some b' =>
            simp only [hs, Option.map_some, Option.some.injEq] at h
            subst h
            obtain ⟨_, _, ⟨x, hx, hk⟩, him, hacc', hcomp, _⟩ := chunkSend_spec cb f.b b' d false hs
            obtain ⟨hd, hp⟩ := hchunk d ho
            refine ⟨by simp [hx, hk, Phase.curKind], by simp [him, Phase.inMsg], ?_⟩
            simp only [Phase.rel, relHolds]
            exact ⟨by rw [hp, hacc', hacc], by rw [hd, hcomp, hr.2]⟩
        | chunkEnd =>
          simp only [ho, afterChunk] at h
          cases hs : step cb f.b (.chunkSend [] true) with
          | none => simp [hs] at h
          | some b' =>
            simp only [hs, Option.map_some, Option.some.injEq] at h
            subst h
            obtain ⟨_, _, ⟨x, hx, hk⟩, him, hacc', hcomp, _⟩ := chunkSend_spec cb f.b b' [] true hs
            obtain ⟨hd, hp⟩ := hend ho
            refine ⟨by simp [hx, hk, Phase.curKind], by simp [him, Phase.inMsg], ?_⟩
            simp only [Phase.rel, relHolds]
            exact ⟨hp, by rw [hd, hcomp, hacc', hr.2, hacc]; simp⟩
        | eos => exact absurd ho hne
        | cancelled =>
          simp only [ho, afterChunk] at h
          cases hs : step cb f.b .cancel with
          | none => simp [hs] at h
          | some b' =>
            simp only [hs, Option.map_some, Option.some.injEq] at h
            subst h
            obtain ⟨hcur, him, hcomp, _, _⟩ := cancel_spec cb f.b b' hs
            obtain ⟨hd, hp⟩ := hcanc ho
            refine ⟨by simp [hcur, Phase.curKind], by simp [him, Phase.inMsg], ?_⟩
            simp only [Phase.rel, relHolds]
            exact ⟨hp, by rw [hd, hcomp, hr.2]⟩
        | data d =>
          simp only [ho, afterChunk] at h
          obtain rfl := Option.some.inj h
          exact keep (by simp [ho]) (by simp [ho]) (by simp [ho])
        | chunksStart =>
          simp only [ho, afterChunk] at h
          obtain rfl := Option.some.inj h
          exact keep (by simp [ho]) (by simp [ho]) (by simp [ho])
        | requests ids =>
          simp only [ho, afterChunk] at h
          obtain rfl := Option.some.inj h
          exact keep (by simp [ho]) (by simp [ho]) (by simp [ho])
        | tooManyPorts =>
          simp only [ho, afterChunk] at h
          obtain rfl := Option.some.inj h
          exact keep (by simp [ho]) (by simp [ho]) (by simp [ho])
    · simp at h
  · simp at h

end Remoc.Link
