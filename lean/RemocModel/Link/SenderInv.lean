import RemocModel.Link.Parse
set_option linter.unusedSimpArgs false

namespace Remoc.Link

/-- The sender half emits, in order, exactly the completed messages (plus partial
transmissions that the reassembler discards). -/
structure SInv (st : State) : Prop where
  /-- ideal reassembly of everything emitted = the completed sends -/
  msgs : parse none st.emitted = st.completed
  /-- while a data message is open and its first frame is out, the reassembler holds exactly
  what has been emitted of it -/
  cur : st.s.first = false →
    ((∃ r e f, st.s.cur = some (.bytes r e f)) ∨ (st.s.cur = none ∧ st.s.inMsg = true)) →
    parseSt none st.emitted = some st.s.sent
  firstSent : st.s.first = true → st.s.sent = []
  accRest : ∀ r e f, st.s.cur = some (.bytes r e f) → st.s.sent ++ r = st.s.acc
  accIdle : st.s.cur = none → st.s.inMsg = true → st.s.sent = st.s.acc
  emptyRest : ∀ r f, st.s.cur = some (.bytes r true f) → r = []
  portsNoMsg : ∀ r, st.s.cur = some (.portReqs r) → st.s.inMsg = false

theorem sinv_init (c : Cfg) : SInv (init c) := by
  constructor <;> simp [init, parse]

macro "sinv_close" : tactic =>
  `(tactic| first
    | (simp_all; done)
    | (intros; simp_all; done))

theorem take_of_drop_nil {α} (l : List α) (n : Nat) (h : l.drop n = []) : l.take n = l := by
  have := List.take_append_drop n l
  rw [h] at this; simpa using this

/-- the part of the state `SInv` talks about -/
def sview (st : State) : Bool × Option Xfer × Bool × Bytes × Bytes × List Frame × List Bytes :=
  (st.s.first, st.s.cur, st.s.inMsg, st.s.sent, st.s.acc, st.emitted, st.completed)

theorem sinv_of_view (st st' : State) (hv : sview st' = sview st) (hi : SInv st) : SInv st' := by
  simp only [sview, Prod.mk.injEq] at hv
  obtain ⟨h1, h2, h3, h4, h5, h6, h7⟩ := hv
  obtain ⟨hm, hcur, hfs, har, hai, her, hpn⟩ := hi
  constructor
  · rw [h6, h7]; exact hm
  · rw [h1, h2, h3, h4, h6]; exact hcur
  · rw [h1, h4]; exact hfs
  · rw [h2, h4, h5]; exact har
  · rw [h2, h3, h4, h5]; exact hai
  · rw [h2]; exact her
  · rw [h2, h3]; exact hpn

/-- shape of the frame emitted for a data call -/
theorem emitFrame_bytes_spec (c : Cfg) (rest : Bytes) (e fin : Bool) (held : Nat) (first : Bool)
    (hE : e = true → rest = []) :
    ∃ p rest', emitFrame c (.bytes rest e fin) held first =
        (.data p first (rest'.isEmpty && fin), if rest'.isEmpty then none else some (.bytes rest' false fin)) ∧
      p ++ rest' = rest := by
  cases e with
  | true =>
    refine ⟨[], [], ?_, ?_⟩
    · simp [emitFrame]
    · simp [hE rfl]
  | false =>
    refine ⟨rest.take (min (min rest.length c.chunk) held), rest.drop (min (min rest.length c.chunk) held), ?_, ?_⟩
    · simp [emitFrame]
    · simp

theorem emitFrame_ports_spec (c : Cfg) (rest : List Nat) (held : Nat) (first : Bool) :
    ∃ ids rest' last, emitFrame c (.portReqs rest) held first =
        (.ports ids first last, if rest'.isEmpty then none else some (.portReqs rest')) := by
  exact ⟨_, _, _, rfl⟩

theorem sinv_step (c : Cfg) (st st' : State) (l : Label) (hi : SInv st) (h : step c st l = some st') :
    SInv st' := by
  cases l with
  | startSend d =>
    obtain ⟨hm, hcur, hfs, har, hai, her, hpn⟩ := hi
    simp only [step] at h
    split at h
    · obtain rfl := Option.some.inj h
      constructor
      · exact hm
      · intro hf; simp at hf
      · intro _; rfl
      · intro r e f hc
        simp only [Option.some.injEq, Xfer.bytes.injEq] at hc
        obtain ⟨rfl, _, _⟩ := hc; simp
      · intro hc; simp at hc
      · intro r f hc
        simp only [Option.some.injEq, Xfer.bytes.injEq] at hc
        obtain ⟨rfl, he, _⟩ := hc; simpa using he
      · intro r hc; simp at hc
    · simp at h
  | startChunks =>
    obtain ⟨hm, hcur, hfs, har, hai, her, hpn⟩ := hi
    simp only [step] at h
    split at h
    · obtain rfl := Option.some.inj h
      rename_i hg
      have hn : st.s.cur = none := by simpa using hg.1
      constructor
      · exact hm
      · intro hf; simp at hf
      · intro _; rfl
      · intro r e f hc; simp [hn] at hc
      · intro _ _; rfl
      · intro r f hc; simp [hn] at hc
      · intro r hc; simp [hn] at hc
    · simp at h
  | chunkSend d fin =>
    obtain ⟨hm, hcur, hfs, har, hai, her, hpn⟩ := hi
    simp only [step] at h
    split at h
    · obtain rfl := Option.some.inj h
      rename_i hg
      have hn : st.s.cur = none := by simpa using hg.1
      constructor
      · exact hm
      · intro hf _; exact hcur hf (Or.inr ⟨hn, hg.2⟩)
      · exact hfs
      · intro r e f hc
        simp only [Option.some.injEq, Xfer.bytes.injEq] at hc
        obtain ⟨rfl, _, _⟩ := hc
        simp only []
        rw [hai hn hg.2]
      · intro hc; simp at hc
      · intro r f hc
        simp only [Option.some.injEq, Xfer.bytes.injEq] at hc
        obtain ⟨rfl, he, _⟩ := hc
        simpa using he
      · intro r hc; simp at hc
    · simp at h
  | startConnect ids =>
    obtain ⟨hm, hcur, hfs, har, hai, her, hpn⟩ := hi
    simp only [step] at h
    split at h
    · obtain rfl := Option.some.inj h
      rename_i hg
      constructor
      · exact hm
      · intro hf; simp at hf
      · intro _; rfl
      · intro r e f hc; simp at hc
      · intro hc; simp at hc
      · intro r f hc; simp at hc
      · intro r _; simpa using hg.2.1
    · simp at h
  | cancel =>
    obtain ⟨hm, hcur, hfs, har, hai, her, hpn⟩ := hi
    simp only [step] at h
    split at h
    · obtain rfl := Option.some.inj h
      constructor
      · exact hm
      · intro _ hp
        rcases hp with ⟨r, e, f, hc⟩ | ⟨_, hin⟩
        · simp at hc
        · simp at hin
      · exact hfs
      · intro r e f hc; simp at hc
      · intro _ hin; simp at hin
      · intro r f hc; simp at hc
      · intro r hc; simp at hc
    · simp at h
  | dropSender =>
    obtain ⟨hm, hcur, hfs, har, hai, her, hpn⟩ := hi
    simp only [step] at h
    split at h
    · obtain rfl := Option.some.inj h
      rename_i hg
      have hn : st.s.cur = none := by simpa using hg.1
      have hin : st.s.inMsg = false := by simpa using hg.2.1
      constructor
      · simp only [parse_snoc, parseStep, Option.toList, List.append_nil]; exact hm
      · intro _ hp
        rcases hp with ⟨r, e, f, hc⟩ | ⟨_, hin'⟩
        · simp [hn] at hc
        · simp [hin] at hin'
      · exact hfs
      · exact har
      · exact hai
      · exact her
      · exact hpn
    · simp at h
  | giveBack =>
    simp only [step] at h
    split at h
    · split at h
      · obtain rfl := Option.some.inj h
        exact sinv_of_view _ _ (by simp [sview]) hi
      · simp at h
    · simp at h
  | request =>
    simp only [step] at h
    split at h
    · simp at h
    · try simp only [] at h
      split at h
      · obtain rfl := Option.some.inj h
        exact sinv_of_view _ _ (by simp [sview]) hi
      · simp at h
  | fail =>
    obtain ⟨hm, hcur, hfs, har, hai, her, hpn⟩ := hi
    simp only [step] at h
    split at h
    · simp at h
    · split at h
      · obtain rfl := Option.some.inj h
        constructor
        · exact hm
        · intro _ hp
          rcases hp with ⟨r, e, f, hc⟩ | ⟨_, hin⟩
          · simp at hc
          · simp at hin
        · exact hfs
        · intro r e f hc; simp at hc
        · intro _ hin; simp at hin
        · intro r f hc; simp at hc
        · intro r hc; simp at hc
      · simp at h
  | emit =>
    obtain ⟨hm, hcur, hfs, har, hai, her, hpn⟩ := hi
    simp only [step] at h
    split at h
    · simp at h
    · rename_i x hx
      split at h
      · cases x with
        | portReqs rest =>
          obtain ⟨ids, rest', last, hef⟩ := emitFrame_ports_spec c rest st.s.held st.s.first
          have hin := hpn rest hx
          rw [hef] at h
          simp only [] at h
          by_cases hr : rest'.isEmpty
          · simp only [hr, if_true, Option.isSome_none, Bool.false_eq_true, if_false, Frame.isLast] at h
            cases last with
            | true =>
              simp only [if_true] at h
              obtain rfl := Option.some.inj h
              constructor
              · simp only [parse_snoc, parseStep, Option.toList, List.append_nil, Xfer.msgs]; exact hm
              · intro hf; simp at hf
              · intro _; rfl
              · intro r e f hc; simp at hc
              · intro _ hc; simp at hc
              · intro r f hc; simp at hc
              · intro r hc; simp at hc
            | false =>
              simp only [Bool.false_eq_true, if_false] at h
              obtain rfl := Option.some.inj h
              constructor
              · simp only [parse_snoc, parseStep, Option.toList, List.append_nil]; exact hm
              · intro _ hp
                rcases hp with ⟨r, e, f, hc⟩ | ⟨_, hin'⟩
                · simp at hc
                · simp [hin] at hin'
              · intro hf; simp at hf
              · intro r e f hc; simp at hc
              · intro _ hc; simp [hin] at hc
              · intro r f hc; simp at hc
              · intro r hc; simp at hc
          · simp only [hr, if_false, Option.isSome_some, if_true] at h
            obtain rfl := Option.some.inj h
            constructor
            · simp only [parse_snoc, parseStep, Option.toList, List.append_nil]; exact hm
            · intro _ hp
              rcases hp with ⟨r, e, f, hc⟩ | ⟨hc, _⟩
              · simp at hc
              · simp at hc
            · intro hf; simp at hf
            · intro r e f hc; simp at hc
            · intro hc; simp at hc
            · intro r f hc; simp at hc
            · intro r _; exact hin
        | bytes rest e fin =>
          obtain ⟨p, rest', hef, hpr⟩ :=
            emitFrame_bytes_spec c rest e fin st.s.held st.s.first (fun he => her rest fin (by rw [hx, he]))
          have hacc := har rest e fin hx
          -- what the ideal reassembler does with this frame
          have hstep : parseStep (parseSt none st.emitted) (.data p st.s.first (rest'.isEmpty && fin)) =
              (if (rest'.isEmpty && fin) = true then none else some (st.s.sent ++ p),
               if (rest'.isEmpty && fin) = true then some (st.s.sent ++ p) else none) := by
            cases hfst : st.s.first with
            | true =>
              have := hfs hfst
              simp only [parseStep, if_true, this, List.nil_append]
              split <;> simp_all
            | false =>
              have := hcur hfst (Or.inl ⟨rest, e, fin, hx⟩)
              simp only [parseStep, this, Bool.false_eq_true, if_false, Option.map_some]
              split <;> simp_all
          rw [hef] at h
          simp only [] at h
          by_cases hr : rest'.isEmpty
          · have hr' : rest' = [] := by simpa using hr
            subst hr'
            simp only [List.isEmpty_nil, if_true, Option.isSome_none, Bool.false_eq_true, if_false,
              Frame.isLast, Bool.true_and, Frame.payload] at h hstep
            have hsp : st.s.sent ++ p = st.s.acc := by rw [← hacc, ← hpr]; simp
            cases fin with
            | true =>
              simp only [if_true] at h hstep
              obtain rfl := Option.some.inj h
              constructor
              · simp only [parse_snoc, hstep, Option.toList, Xfer.msgs, hsp, hm]
              · intro hf; simp at hf
              · intro _; rfl
              · intro r e f hc; simp at hc
              · intro _ hc; simp at hc
              · intro r f hc; simp at hc
              · intro r hc; simp at hc
            | false =>
              simp only [Bool.false_eq_true, if_false] at h hstep
              obtain rfl := Option.some.inj h
              constructor
              · simp only [parse_snoc, hstep, Option.toList, List.append_nil]; exact hm
              · intro _ _; simp only [parseSt_snoc, hstep]
              · intro hf; simp at hf
              · intro r e f hc; simp at hc
              · intro _ _; exact hsp
              · intro r f hc; simp at hc
              · intro r hc; simp at hc
          · simp only [hr, if_false, Option.isSome_some, if_true, Bool.false_and, Frame.payload,
              Bool.false_eq_true] at h hstep
            obtain rfl := Option.some.inj h
            constructor
            · simp only [parse_snoc, hstep, Option.toList, List.append_nil]; exact hm
            · intro _ _; simp only [parseSt_snoc, hstep]
            · intro hf; simp at hf
            · intro r e f hc
              simp only [Option.some.injEq, Xfer.bytes.injEq] at hc
              obtain ⟨rfl, _, _⟩ := hc
              simp only []
              rw [← hacc, ← hpr]; simp
            · intro hc; simp at hc
            · intro r f hc; simp at hc
            · intro r hc; simp at hc
      · simp at h
  | provide =>
    simp only [step] at h
    split at h
    · simp at h
    · split at h <;>
        (obtain rfl := Option.some.inj h
         exact sinv_of_view _ _ (by simp [sview]) hi)
  | muxRecv =>
    simp only [step] at h
    split at h
    · simp at h
    · split at h
      · obtain rfl := Option.some.inj h
        exact sinv_of_view _ _ (by simp [sview]) hi
      · split at h <;>
        (obtain rfl := Option.some.inj h
         exact sinv_of_view _ _ (by simp [sview]) hi)
  | recvAny =>
    simp only [step] at h
    split at h
    · simp at h
    · split at h
      · simp at h
      · have hv : sview st' = sview st := by
          (repeat' split at h) <;> (obtain rfl := Option.some.inj h; simp [sview])
        exact sinv_of_view _ _ hv hi
  | recvChunk =>
    simp only [step] at h
    split at h
    · simp at h
    · split at h
      · simp at h
      · split at h
        · simp at h
        · have hv : sview st' = sview st := by
            (repeat' split at h) <;> (obtain rfl := Option.some.inj h; simp [sview])
          exact sinv_of_view _ _ hv hi
  | close =>
    simp only [step] at h
    split at h
    · obtain rfl := Option.some.inj h
      exact sinv_of_view _ _ (by simp [sview]) hi
    · simp at h
  | dropReceiver =>
    simp only [step] at h
    split at h
    · obtain rfl := Option.some.inj h
      exact sinv_of_view _ _ (by simp [sview]) hi
    · simp at h

end Remoc.Link
