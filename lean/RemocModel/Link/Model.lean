/-
M_link: one direction of one chmux port, as coded in `chmux/{sender,credit,receiver,mux}.rs`
(with the repairs F1–F3).  A labelled transition system: `step : State → Label → Option State`.
One label = one atomic block of the real code (the code between two suspension points that
can yield).  A schedule is a `List Label`; "for all schedules, interleavings and cancellation
points" is `∀ ls : List Label`.  Ghost fields (`emitted`, `completed`, `consumed`, `delivered`)
record monotone history.  No Mathlib imports: the driver links as an executable.
-/

namespace Remoc.Link

abbrev Bytes := List UInt8

/-- Static parameters of one port direction. -/
structure Cfg where
  /-- chunk size advertised by the receiving endpoint (`≥ 4`) -/
  chunk : Nat
  /-- receive buffer advertised by the receiving endpoint (`≥ 4`): initial credit pool -/
  limit : Nat
  /-- `max_data_size` of the receiver (local setting, not exchanged) -/
  maxData : Nat
  /-- `max_ports` of the receiver -/
  maxPorts : Nat
  /-- `override_graceful_close` of the sender (`CreditUser::override_graceful_close`, credit.rs):
  credits are still handed out after the receiver closed *gracefully*.  Off by default; `chmux::forward`
  switches it on for the life time of its loop (forward.rs), so it is a constant of the link the
  forwarder sends on (`RemocModel/Link/Forward.lean`). -/
  ovr : Bool := false
deriving Repr, DecidableEq

/-- Frames travelling from the sending to the receiving endpoint on this port. -/
inductive Frame where
  | data (payload : Bytes) (first last : Bool)
  | ports (ids : List Nat) (first last : Bool)
  | finish                                   -- SendFinish
deriving Repr, DecidableEq

/-- Flow-control cost of a frame: a data frame costs its length but at least one credit,
a port batch four credits per port. -/
def Frame.cost : Frame → Nat
  | .data p _ _ => max 1 p.length
  | .ports ids _ _ => 4 * ids.length
  | .finish => 0

def costs (fs : List Frame) : Nat := (fs.map Frame.cost).sum

/-- Frames travelling back. -/
inductive Back where
  | credits (n : Nat)
  | recvClose
  | recvFinish
deriving Repr, DecidableEq

def Back.amount : Back → Nat
  | .credits n => n
  | _ => 0

def backSum (bs : List Back) : Nat := (bs.map Back.amount).sum

/-! ### sender half -/

/-- The call in progress on the sender (`send`, `ChunkSender::send/send_final/finish`, `connect`). -/
inductive Xfer where
  /-- data still to be sent; `emptyMsg`: the call was made with empty data and owes one empty
  frame; `fin`: the final frame of this call carries `last` -/
  | bytes (rest : Bytes) (emptyMsg : Bool) (fin : Bool)
  /-- port requests still to be sent -/
  | portReqs (rest : List Nat)
deriving Repr, DecidableEq

structure Sender where
  pool : Nat
  /-- credit provider closed by `ReceiveClose` (`some true`) or `ReceiveFinish` (`some false`) -/
  closed : Option Bool := none
  /-- credits assigned to the operation in progress -/
  held : Nat := 0
  /-- `first` flag of the next frame -/
  first : Bool := true
  /-- a `ChunkSender` is alive (a streamed message is open) -/
  inMsg : Bool := false
  /-- bytes of the open message handed over so far (ghost) -/
  acc : Bytes := []
  /-- bytes of the open message already emitted in frames (ghost) -/
  sent : Bytes := []
  cur : Option Xfer := none
  /-- the sender handle was dropped -/
  dropped : Bool := false
deriving Repr, DecidableEq

/-! ### receiver half -/

inductive Receiving where
  | nothing
  | data (bufs : List Bytes)
  | chunks (chunks : List Bytes) (completed : Bool)
  | requests (ids : List Nat)
deriving Repr, DecidableEq

/-- What a receive call returns. -/
inductive Out where
  | data (b : Bytes)            -- `Received::Data`
  | chunksStart                 -- `Received::Chunks`
  | requests (ids : List Nat)   -- `Received::Requests`
  | chunk (b : Bytes)           -- `recv_chunk` → `Some`
  | chunkEnd                    -- `recv_chunk` → `None` after the last chunk
  | cancelled                   -- `RecvChunkError::Cancelled`
  | tooManyPorts                -- `RecvError::ExceedsMaxPortCount`
  | eos                         -- `None`: sender finished
deriving Repr, DecidableEq

structure Receiver where
  /-- credits in use: cost of frames accepted by the dispatcher and not yet processed by a
  receive call (`ChannelCreditMonitor::used`) -/
  used : Nat := 0
  /-- per-port queue filled by the dispatcher -/
  portq : List Frame := []
  /-- frame put back by `recv_chunk` when it signalled a cancellation (repair F1) -/
  unprocessed : Option Frame := none
  receiving : Receiving := .nothing
  toReturn : Nat := 0
  finished : Bool := false
  closed : Bool := false
  dropped : Bool := false
deriving Repr, DecidableEq

/-- Credits are returned once this many have accumulated (`ChannelCreditReturner::start_return`). -/
def threshold (limit : Nat) : Nat := if limit ≥ 8 then limit / 2 else 1

structure State where
  s : Sender
  r : Receiver
  /-- FIFO of frames from sender to receiver: event queue, transport queue, wire, receive queue -/
  chan : List Frame := []
  /-- FIFO of frames back to the sender -/
  back : List Back := []
  /-- the receiving dispatcher found a flow-control violation (must be unreachable) -/
  protoErr : Bool := false
  -- ghost history
  emitted : List Frame := []
  completed : List Bytes := []
  consumed : List Frame := []
  outs : List Out := []
  /-- messages obtained by a caller following the documented protocol (after `Received::Chunks`
  call `recv_chunk` until it returns `None` or `Cancelled`) -/
  delivered : List Bytes := []
  /-- the caller is in its `recv_chunk` loop and has accumulated these bytes -/
  partialMsg : Option Bytes := none
  /-- total credits delivered back to the sender (`PortCredits` handled by its dispatcher) -/
  granted : Nat := 0
  /-- total credits put into `PortCredits` frames by the receiver -/
  returned : Nat := 0
deriving Repr, DecidableEq

def init (c : Cfg) : State := { s := { pool := c.limit }, r := {} }

inductive Label where
  -- sender API (environment)
  | startSend (d : Bytes)            -- `Sender::send(d)` begins
  | startChunks                      -- `send_chunks()`
  | chunkSend (d : Bytes) (fin : Bool)  -- `ChunkSender::send` (fin=false), `send_final`/`finish` (fin=true)
  | startConnect (ids : List Nat)    -- `Sender::connect(ports)`
  | cancel                           -- the future of the call in progress / the ChunkSender is dropped
  | dropSender
  -- sender internal
  | giveBack                         -- `connect`: fewer than four credits left over are handed back (repair F3)
  | request                          -- `CreditUser::request` succeeds
  | fail                             -- `CreditUser::request` observes the closed provider
  | emit                             -- queue space reserved, credits taken, frame queued
  | provide                          -- dispatcher handles the head of `back`
  -- receiver internal / API
  | muxRecv                          -- receiving dispatcher handles the head of `chan`
  | recvAny                          -- one loop iteration of `recv_any` that takes a message
  | recvChunk                        -- one loop iteration of `recv_chunk`
  | close                            -- `Receiver::close`
  | dropReceiver
deriving Repr, DecidableEq

/-- credits to request for the call in progress: (wanted, minimum) -/
def Xfer.want : Xfer → Nat × Nat
  | .bytes rest _ _ => (max 1 rest.length, 1)
  | .portReqs rest => (4 * rest.length, 4)

/-- enough credits held to emit the next frame of the call -/
def Xfer.ready : Xfer → Nat → Bool
  | .bytes _ _ _, held => decide (held > 0)
  | .portReqs _, held => decide (held ≥ 4)

/-- the receiving dispatcher rejects frames above its chunk size -/
def Frame.oversize (c : Cfg) : Frame → Bool
  | .data p _ _ => decide (p.length > c.chunk)
  | .ports ids _ _ => decide (4 * ids.length > c.chunk)
  | .finish => false

def Frame.payload : Frame → Bytes
  | .data p _ _ => p
  | _ => []

def Frame.isLast : Frame → Bool
  | .data _ _ l => l
  | .ports _ _ l => l
  | .finish => true

/-- messages completed when the call `x` returns with its last frame -/
def Xfer.msgs (acc : Bytes) : Xfer → List Bytes
  | .bytes _ _ _ => [acc]
  | .portReqs _ => []

/-- The frame produced by one `emit`, the cost taken, and the remaining call. -/
def emitFrame (c : Cfg) (x : Xfer) (held : Nat) (first : Bool) : Frame × Option Xfer :=
  match x with
  | .bytes _ true fin => (.data [] first fin, none)
  | .bytes rest false fin =>
    let n := min (min rest.length c.chunk) held
    let rest' := rest.drop n
    (.data (rest.take n) first (rest'.isEmpty && fin), if rest'.isEmpty then none else some (.bytes rest' false fin))
  | .portReqs rest =>
    let n := min c.chunk held / 4
    let rest' := rest.drop n
    (.ports (rest.take n) first rest'.isEmpty, if rest'.isEmpty then none else some (.portReqs rest'))

/-- Return credits after processing a frame of cost `c` (`start_return`). -/
def returnCredits (limit : Nat) (r : Receiver) (c : Nat) : Receiver × List Back :=
  let r := { r with used := r.used - c, toReturn := r.toReturn + c }
  if r.toReturn ≥ threshold limit then ({ r with toReturn := 0 }, [.credits r.toReturn]) else (r, [])

/-- Next message for a receive call: the put-back frame first, then the port queue. -/
def nextMsg (r : Receiver) : Option (Frame × Receiver) :=
  match r.unprocessed with
  | some f => some (f, { r with unprocessed := none })
  | none =>
    match r.portq with
    | [] => none
    | f :: q => some (f, { r with portq := q })

/-- `recv_any` processing one message taken from the queue: new reassembly state and the value
returned to the caller, if the call returns. -/
def anyFrame (c : Cfg) (recving : Receiving) : Frame → Receiving × Option Out
  | .data p first last =>
    match (if first then Receiving.data [] else recving) with
    | .data bufs =>
      if bufs.flatten.length + p.length ≤ c.maxData then
        if last then (.nothing, some (.data (bufs ++ [p]).flatten)) else (.data (bufs ++ [p]), none)
      else (.chunks (bufs ++ [p]) last, some .chunksStart)
    | _ => (.nothing, none)
  | .ports ids first last =>
    match (if first then Receiving.requests [] else recving) with
    | .requests acc =>
      if (acc ++ ids).length > c.maxPorts then (.nothing, some .tooManyPorts)
      else if last then (.nothing, some (.requests (acc ++ ids))) else (.requests (acc ++ ids), none)
    | _ => (.nothing, none)
  | .finish => (recving, some .eos)

def Frame.isFinish : Frame → Bool
  | .finish => true
  | _ => false

/-- `start_return` for a processed message (`Finished` carries no credit). -/
def returnFor (limit : Nat) (r : Receiver) (f : Frame) : Receiver × List Back :=
  if f.isFinish then (r, []) else returnCredits limit r f.cost

/-- One message-taking iteration of `recv_any`.  Returns the receiver, the credit frames to send
back, the consumed frame and the value returned to the caller (if the call returns). -/
def recvAnyStep (c : Cfg) (r : Receiver) : Option (Receiver × List Back × Frame × Option Out) :=
  if r.finished then none else
  match nextMsg r with
  | none => none
  | some (f, r0) =>
    let rb := returnFor c.limit r0 f
    let ro := anyFrame c r0.receiving f
    some ({ rb.1 with receiving := ro.1, finished := f.isFinish }, rb.2, f, ro.2)

/-- What `recv_chunk` does with the next message when no buffered chunk is left. -/
inductive ChunkAct where
  /-- the message signals that the transmission was cancelled: it is put back (repair F1) -/
  | putBack
  /-- the message is consumed; `recving`: new reassembly state if it changes -/
  | consume (recving : Option Receiving) (out : Option Out)
deriving Repr, DecidableEq

def chunkFrame (inChunks : Bool) : Frame → ChunkAct
  | .data p first last =>
    if inChunks && first then .putBack
    else if inChunks || first then .consume (some (.chunks [] last)) (some (.chunk p))
    else .consume none none
  | .ports _ _ _ => if inChunks then .putBack else .consume none none
  | .finish => if inChunks then .consume (some .nothing) (some .cancelled) else .consume none (some .eos)

def Receiving.inChunks : Receiving → Bool
  | .chunks _ _ => true
  | _ => false

/-- One iteration of `recv_chunk`.  `none` for the consumed frame means no frame was taken
(buffered chunk returned, end of message, or the frame was put back). -/
def recvChunkStep (c : Cfg) (r : Receiver) : Option (Receiver × List Back × Option Frame × Option Out) :=
  if r.finished then some (r, [], none, some .eos) else
  match r.receiving with
  | .chunks (ch :: rest) completed => some ({ r with receiving := .chunks rest completed }, [], none, some (.chunk ch))
  | .chunks [] true => some ({ r with receiving := .nothing }, [], none, some .chunkEnd)
  | recving =>
    match nextMsg r with
    | none => none
    | some (f, r0) =>
      match chunkFrame recving.inChunks f with
      | .putBack =>
        some ({ r with unprocessed := some f, portq := r0.portq, receiving := .nothing }, [], none, some .cancelled)
      | .consume rec' out =>
        let rb := returnFor c.limit r0 f
        some ({ rb.1 with receiving := rec'.getD recving, finished := f.isFinish }, rb.2, some f, out)

/-- May the sender obtain credits without the graceful-close override? -/
def Sender.open (s : Sender) : Bool := s.closed.isNone

/-- `CreditUser::request`/`try_request` (credit.rs): the request is refused iff the provider is closed and
not (`override_graceful_close` and closed gracefully). -/
def Sender.mayRequest (c : Cfg) (s : Sender) : Bool := s.open || (c.ovr && s.closed == some true)

def step (c : Cfg) (st : State) : Label → Option State
  | .startSend d =>
    if st.s.cur.isNone ∧ ¬ st.s.inMsg ∧ ¬ st.s.dropped then
      some { st with s := { st.s with cur := some (.bytes d d.isEmpty true), first := true, acc := d, sent := [] } }
    else none
  | .startChunks =>
    if st.s.cur.isNone ∧ ¬ st.s.inMsg ∧ ¬ st.s.dropped then
      some { st with s := { st.s with inMsg := true, first := true, acc := [], sent := [] } }
    else none
  | .chunkSend d fin =>
    if st.s.cur.isNone ∧ st.s.inMsg then
      some { st with s := { st.s with cur := some (.bytes d d.isEmpty fin), acc := st.s.acc ++ d } }
    else none
  | .startConnect ids =>
    if st.s.cur.isNone ∧ ¬ st.s.inMsg ∧ ¬ st.s.dropped ∧ ids ≠ [] then
      some { st with s := { st.s with cur := some (.portReqs ids), first := true, acc := [], sent := [] } }
    else none
  | .cancel =>
    -- dropping the future / the ChunkSender returns the assigned credits (AssignedCredits::drop)
    if st.s.cur.isSome ∨ st.s.inMsg then
      some { st with s := { st.s with cur := none, inMsg := false, pool := st.s.pool + st.s.held, held := 0, acc := [] } }
    else none
  | .dropSender =>
    if st.s.cur.isNone ∧ ¬ st.s.inMsg ∧ ¬ st.s.dropped then
      some { st with s := { st.s with dropped := true }, chan := st.chan ++ [.finish], emitted := st.emitted ++ [.finish] }
    else none
  | .giveBack =>
    match st.s.cur with
    | some (.portReqs _) =>
      if 0 < st.s.held ∧ st.s.held < 4 then
        some { st with s := { st.s with pool := st.s.pool + st.s.held, held := 0 } }
      else none
    | _ => none
  | .request =>
    match st.s.cur with
    | none => none
    | some x =>
      let (want, minReq) := x.want
      if st.s.held = 0 ∧ st.s.mayRequest c ∧ st.s.pool ≥ minReq then
        let taken := min st.s.pool want
        some { st with s := { st.s with pool := st.s.pool - taken, held := taken } }
      else none
  | .fail =>
    match st.s.cur with
    | none => none
    | some _ =>
      if st.s.held = 0 ∧ ¬ st.s.mayRequest c then
        some { st with s := { st.s with cur := none, inMsg := false, acc := [] } }
      else none
  | .emit =>
    match st.s.cur with
    | none => none
    | some x =>
      if x.ready st.s.held then
        let f := (emitFrame c x st.s.held st.s.first).1
        let x' := (emitFrame c x st.s.held st.s.first).2
        let held := st.s.held - f.cost
        if x'.isSome then
          some { st with chan := st.chan ++ [f], emitted := st.emitted ++ [f],
                         s := { st.s with cur := x', held := held, first := false, sent := st.s.sent ++ f.payload } }
        else if f.isLast then
          -- the call returns and the message is complete: remaining credits drop back into the pool
          some { st with chan := st.chan ++ [f], emitted := st.emitted ++ [f],
                         s := { st.s with cur := none, inMsg := false, pool := st.s.pool + held, held := 0,
                                          first := true, acc := [], sent := [] },
                         completed := st.completed ++ x.msgs st.s.acc }
        else
          -- non-final chunk of a streamed message: the ChunkSender keeps its credits
          some { st with chan := st.chan ++ [f], emitted := st.emitted ++ [f],
                         s := { st.s with cur := none, held := held, first := false, sent := st.s.sent ++ f.payload } }
      else none
  | .provide =>
    match st.back with
    | [] => none
    | b :: bs =>
      match b with
      | .credits n => some { st with back := bs, s := { st.s with pool := st.s.pool + n }, granted := st.granted + n }
      | .recvClose => some { st with back := bs, s := { st.s with closed := if st.s.closed.isNone then some true else st.s.closed } }
      | .recvFinish => some { st with back := bs, s := { st.s with closed := if st.s.closed.isNone then some false else st.s.closed } }
  | .muxRecv =>
    match st.chan with
    | [] => none
    | f :: fs =>
      match f with
      | .finish => some { st with chan := fs, r := { st.r with portq := st.r.portq ++ [f] } }
      | _ =>
        if f.oversize c ∨ st.r.used + f.cost > c.limit then some { st with chan := fs, protoErr := true }
        else some { st with chan := fs, r := { st.r with used := st.r.used + f.cost, portq := st.r.portq ++ [f] } }
  | .recvAny =>
    if st.partialMsg.isSome ∨ st.r.dropped then none else
    match recvAnyStep c st.r with
    | none => none
    | some (r, bk, f, out) =>
      let st := { st with r := r, back := st.back ++ bk, consumed := st.consumed ++ [f],
                          outs := st.outs ++ out.toList, returned := st.returned + backSum bk }
      match out with
      | some (.data b) => some { st with delivered := st.delivered ++ [b] }
      | some .chunksStart => some { st with partialMsg := some [] }
      | _ => some st
  | .recvChunk =>
    if st.r.dropped then none else
    match st.partialMsg with
    | none => none
    | some acc =>
    match recvChunkStep c st.r with
    | none => none
    | some (r, bk, f, out) =>
      let st := { st with r := r, back := st.back ++ bk, consumed := st.consumed ++ f.toList,
                          outs := st.outs ++ out.toList, returned := st.returned + backSum bk }
      match out with
      | some (.chunk b) => some { st with partialMsg := some (acc ++ b) }
      | some .chunkEnd => some { st with delivered := st.delivered ++ [acc], partialMsg := none }
      | some .cancelled => some { st with partialMsg := none }
      | some .eos => some { st with partialMsg := none }
      | _ => some st
  | .close =>
    if ¬ st.r.closed ∧ ¬ st.r.dropped then
      some { st with r := { st.r with closed := true }, back := st.back ++ [.recvClose] }
    else none
  | .dropReceiver =>
    if ¬ st.r.dropped then
      some { st with r := { st.r with dropped := true }, back := st.back ++ [.recvFinish] }
    else none

/-- Run a schedule; labels that are not enabled are skipped (a schedule is any label list). -/
def run (c : Cfg) (st : State) : List Label → State
  | [] => st
  | l :: ls => match step c st l with
    | some st' => run c st' ls
    | none => run c st ls

def Reachable (c : Cfg) (st : State) : Prop := ∃ ls, run c (init c) ls = st

/-! ### ideal reassembly: the messages a frame stream carries -/

/-- One step of the ideal reassembler: new buffer and the message completed by this frame. -/
def parseStep (cur : Option Bytes) : Frame → Option Bytes × Option Bytes
  | .data p first last =>
    match (if first then some p else cur.map (· ++ p)) with
    | none => (none, none)                              -- continuation without a start: ignored
    | some b => if last then (none, some b) else (some b, none)
  | .ports _ _ _ => (none, none)                        -- a port batch aborts a partial data message
  | .finish => (none, none)                             -- nothing follows `SendFinish`

/-- Messages carried by a frame list, starting from buffer `cur`. -/
def parse : Option Bytes → List Frame → List Bytes
  | _, [] => []
  | cur, f :: fs =>
    match parseStep cur f with
    | (cur', some m) => m :: parse cur' fs
    | (cur', none) => parse cur' fs

/-- Buffer of the ideal reassembler after a frame list. -/
def parseSt : Option Bytes → List Frame → Option Bytes
  | cur, [] => cur
  | cur, f :: fs => parseSt (parseStep cur f).1 fs

end Remoc.Link
