import RemocModel.Link.ForwardPorts2
set_option linter.unusedSimpArgs false
set_option linter.unusedVariables false

/-! `FPortInv` label by label (2): allocation, `connect`, the spawned tasks. -/

namespace Remoc.Link

theorem fport_emit (v : Pairing) (ca cb : Cfg) (f f' : Fwd) (hi : FPortInv v f)
    (h : fstep v ca cb f .emit = some f') : FPortInv v f' := by
  simp only [fstep] at h
  split at h
  · rename_i b' hb
    split at h
    · obtain rfl := Option.some.inj h
      exact fport_same v f _ hi rfl rfl rfl rfl
    · unfold afterOp at h
      split at h
      · obtain rfl := Option.some.inj h; exact fport_plain v f _ hi rfl rfl rfl rfl
      · obtain rfl := Option.some.inj h; exact fport_plain v f _ hi rfl rfl rfl rfl
      · obtain rfl := Option.some.inj h; exact fport_plain v f _ hi rfl rfl rfl rfl
      · rename_i ids ports hph
        obtain rfl := Option.some.inj h
        obtain ⟨i1, i2, i3, i4, i5, i6, i7⟩ := hi
        have hids := i2 ids ports hph
        obtain ⟨hnd, hfr⟩ := i3 ids ports (Or.inr hph)
        refine ⟨?_, ?_, ?_, i4, ?_, ?_, ?_⟩
        · intro ids' ports' hp; simp at hp
        · intro ids' ports' hp; simp at hp
        · intro ids' ports' hp; simp at hp
        · intro B hB
          simp only [List.mem_append, List.mem_singleton] at hB
          rcases hB with hB | rfl
          · exact i5 B hB
          · exact ⟨hids, hnd, rfl, hfr⟩
        · simp only [List.map_append, List.flatMap_append, List.flatMap_cons, List.flatMap_nil, List.append_nil]
          rw [i6]
        · intro t ht
          simp only [List.mem_append] at ht
          rcases ht with ht | ht
          · exact i7 t ht
          · exact pairFrom_ok 0 ids _ t ht
      · simp at h
  · simp at h

theorem fport_alloc (v : Pairing) (ca cb : Cfg) (f f' : Fwd) (hi : FPortInv v f) (p : Nat)
    (h : fstep v ca cb f (.alloc p) = some f') : FPortInv v f' := by
  simp only [fstep] at h
  split at h
  · rename_i ids ports hph
    split at h
    · rename_i i hi'
      split at h
      · simp at h
      · rename_i hfresh
        obtain rfl := Option.some.inj h
        obtain ⟨i1, i2, i3, i4, i5, i6, i7⟩ := hi
        have hids := i1 ids ports hph
        obtain ⟨hnd, hfr⟩ := i3 ids ports (Or.inl hph)
        have hsub : ∀ q, q ∈ f.allocated → q ∈ f.allocated ++ [p] := fun q hq => by simp [hq]
        refine ⟨?_, ?_, ?_, ?_, ?_, i6, i7⟩
        · intro ids' ports' hp
          simp only [Phase.alloc.injEq] at hp
          obtain ⟨rfl, rfl⟩ := hp
          simp only [List.map_append, List.map_cons, List.map_nil, List.length_append, List.length_cons,
            List.length_nil, Nat.zero_add]
          rw [List.take_add_one, hi', hids]
          rfl
        · intro ids' ports' hp; simp at hp
        · intro ids' ports' hp
          simp only [Phase.alloc.injEq, reduceCtorEq, or_false] at hp
          obtain ⟨rfl, rfl⟩ := hp
          constructor
          · simp only [List.map_append, List.map_cons, List.map_nil]
            rw [List.nodup_append]
            refine ⟨hnd, by simp, ?_⟩
            intro a ha b hb
            simp only [List.mem_singleton] at hb
            subst hb
            intro hab
            subst hab
            obtain ⟨q, hq, rfl⟩ := List.mem_map.mp ha
            exact hfresh (hfr q hq)
          · intro q hq
            simp only [List.mem_append, List.mem_singleton] at hq
            rcases hq with hq | rfl
            · exact hsub _ (hfr q hq)
            · simp
        · rw [List.nodup_append]
          refine ⟨i4, by simp, ?_⟩
          intro a ha b hb
          simp only [List.mem_singleton] at hb
          subst hb
          intro hab; subst hab; exact hfresh ha
        · intro B hB
          exact batchOk_mono v _ _ B (i5 B hB) hsub
    · simp at h
  · simp at h

theorem fport_connect (v : Pairing) (ca cb : Cfg) (f f' : Fwd) (hi : FPortInv v f)
    (h : fstep v ca cb f .connect = some f') : FPortInv v f' := by
  simp only [fstep] at h
  split at h
  · rename_i ids ports hph
    obtain ⟨i1, i2, i3, i4, i5, i6, i7⟩ := hi
    have hids := i1 ids ports hph
    obtain ⟨hnd, hfr⟩ := i3 ids ports (Or.inl hph)
    split at h
    · simp at h
    · rename_i hlen
      have hlen : ids.length ≤ ports.length := by omega
      split at h
      · rename_i hnil
        obtain rfl := Option.some.inj h
        subst hnil
        have hids0 : ids = [] := by
          cases ids with
          | nil => rfl
          | cons _ _ => simp at hlen
        subst hids0
        refine ⟨?_, ?_, ?_, i4, ?_, ?_, i7⟩
        · intro ids' ports' hp; simp at hp
        · intro ids' ports' hp; simp at hp
        · intro ids' ports' hp; simp at hp
        · intro B hB
          simp only [List.mem_append, List.mem_singleton] at hB
          rcases hB with hB | rfl
          · exact i5 B hB
          · exact ⟨rfl, by simp, by simp [pairUp, pairFrom], by simp⟩
        · simp only [List.flatMap_append, List.flatMap_cons, List.flatMap_nil, List.append_nil, List.map_append,
            List.map_nil]
          exact i6
      · cases hs : step cb f.b (.startConnect (ports.map (·.id))) with
        | none => simp [hs] at h
        | some b' =>
          simp only [hs, Option.map_some, Option.some.injEq] at h; subst h
          refine ⟨?_, ?_, ?_, i4, i5, i6, i7⟩
          · intro ids' ports' hp; simp at hp
          · intro ids' ports' hp
            simp only [Phase.connect.injEq] at hp
            obtain ⟨rfl, rfl⟩ := hp
            rw [hids, List.take_of_length_le hlen]
          · intro ids' ports' hp
            simp only [Phase.connect.injEq, reduceCtorEq, false_or] at hp
            obtain ⟨rfl, rfl⟩ := hp
            exact ⟨hnd, hfr⟩
  · simp at h

theorem fport_tasks (v : Pairing) (ca cb : Cfg) (f f' : Fwd) (hi : FPortInv v f) :
    (∀ j r, fstep v ca cb f (.connResp j r) = some f' → FPortInv v f') ∧
    (∀ j ok, fstep v ca cb f (.acceptDone j ok) = some f' → FPortInv v f') := by
  obtain ⟨i1, i2, i3, i4, i5, i6, i7⟩ := hi
  have upd : ∀ j t t', f.tasks[j]? = some t → t'.key = t.key → TaskOk t' →
      FPortInv v { f with tasks := f.tasks.set j t' } := by
    intro j t t' hj hk hok
    refine ⟨i1, i2, i3, i4, i5, ?_, ?_⟩
    · show (f.tasks.set j t').map PairTask.key = _
      rw [map_key_set f.tasks j t t' hj hk]; exact i6
    · intro u hu
      rcases List.mem_or_eq_of_mem_set hu with hu | rfl
      · exact i7 u hu
      · exact hok
  constructor
  · intro j r h
    simp only [fstep] at h
    split at h
    · rename_i t hj
      cases ht : taskResp t r with
      | none => simp [ht] at h
      | some t' =>
        simp only [ht, Option.map_some, Option.some.injEq] at h; subst h
        obtain ⟨hk, hok⟩ := taskResp_ok t t' r ht (i7 t (List.mem_of_getElem? hj))
        exact upd j t t' hj hk hok
    · simp at h
  · intro j ok h
    simp only [fstep] at h
    split at h
    · rename_i t hj
      cases ht : taskAccept t ok with
      | none => simp [ht] at h
      | some t' =>
        simp only [ht, Option.map_some, Option.some.injEq] at h; subst h
        obtain ⟨hk, hok⟩ := taskAccept_ok t t' ok ht (i7 t (List.mem_of_getElem? hj))
        exact upd j t t' hj hk hok
    · simp at h

end Remoc.Link
