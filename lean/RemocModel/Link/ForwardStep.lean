import RemocModel.Link.ForwardInv
set_option linter.unusedSimpArgs false
set_option linter.unusedVariables false

/-! `FCore` is preserved by the remaining labels, and by every run. -/

namespace Remoc.Link

theorem fcore_emit (v : Pairing) (ca cb : Cfg) (f f' : Fwd) (hi : FCore f)
    (h : fstep v ca cb f .emit = some f') : FCore f' := by
  simp only [fstep] at h
  split at h
  · rename_i b' hb
    obtain ⟨x, hx, _, hgo, h1, h0, h2⟩ := emit_spec cb f.b b' hb
    obtain ⟨hc, hm, hr⟩ := hi
    rw [hx] at hc
    simp only [Option.map_some] at hc
    split at h
    · -- the call goes on
      rename_i hsome
      obtain rfl := Option.some.inj h
      cases hcur : b'.s.cur with
      | none => simp [hcur] at hsome
      | some x' =>
        obtain ⟨hk, hacc, him, hcomp⟩ := hgo x' hcur
        refine ⟨?_, ?_, ?_⟩
        · show b'.s.cur.map Xfer.kind = f.ph.curKind
          rw [hcur, Option.map_some, hk]; exact hc
        · show b'.s.inMsg = f.ph.inMsg
          rw [him]; exact hm
        · show relHolds f.ph.rel b'.completed b'.s.acc f.a.delivered f.a.partialMsg
          rw [hcomp, hacc]; exact hr
    · -- the call returned
      rename_i hnone
      have hcn : b'.s.cur = none := by
        cases hq : b'.s.cur with
        | none => rfl
        | some _ => simp [hq] at hnone
      unfold afterOp at h
      split at h
      · -- sendData
        rename_i hph
        obtain rfl := Option.some.inj h
        rw [hph] at hc hm hr
        simp only [Phase.curKind, Option.some.injEq] at hc
        simp only [Phase.rel, relHolds] at hr
        obtain ⟨him, hcomp⟩ := h1 hcn hc
        refine ⟨by simp [hcn, Phase.curKind], by simp [him, Phase.inMsg], ?_⟩
        simp only [Phase.rel, relHolds]
        exact ⟨hr.1, by rw [hcomp]; exact hr.2⟩
      · -- chunkSend
        rename_i hph
        obtain rfl := Option.some.inj h
        rw [hph] at hc hm hr
        simp only [Phase.curKind, Option.some.injEq] at hc
        simp only [Phase.rel, relHolds] at hr
        simp only [Phase.inMsg] at hm
        obtain ⟨him, hacc, hcomp⟩ := h0 hcn hc
        refine ⟨by simp [hcn, Phase.curKind], by simp [him, hm, Phase.inMsg], ?_⟩
        simp only [Phase.rel, relHolds]
        exact ⟨by rw [hacc]; exact hr.1, by rw [hcomp]; exact hr.2⟩
      · -- chunkFinish
        rename_i hph
        obtain rfl := Option.some.inj h
        rw [hph] at hc hm hr
        simp only [Phase.curKind, Option.some.injEq] at hc
        simp only [Phase.rel, relHolds] at hr
        obtain ⟨him, hcomp⟩ := h1 hcn hc
        refine ⟨by simp [hcn, Phase.curKind], by simp [him, Phase.inMsg], ?_⟩
        simp only [Phase.rel, relHolds]
        exact ⟨hr.1, by rw [hcomp]; exact hr.2⟩
      · -- connect
        rename_i ids ports hph
        obtain rfl := Option.some.inj h
        rw [hph] at hc hm hr
        simp only [Phase.curKind, Option.some.injEq] at hc
        simp only [Phase.rel, relHolds] at hr
        obtain ⟨him, hcomp⟩ := h2 hcn hc
        refine ⟨by simp [hcn, Phase.curKind], by simp [him, Phase.inMsg], ?_⟩
        simp only [Phase.rel, relHolds]
        exact ⟨hr.1, by rw [hcomp]; exact hr.2⟩
      · simp at h
  · simp at h

theorem fcore_fail (v : Pairing) (ca cb : Cfg) (f f' : Fwd) (hi : FCore f)
    (h : fstep v ca cb f .fail = some f') : FCore f' := by
  simp only [fstep] at h
  cases hs : step cb f.b .fail with
  | none => simp [hs] at h
  | some b' =>
    simp only [hs, Option.map_some, Option.some.injEq] at h
    subst h
    obtain ⟨_, _, hcur, him, hcomp, _, _⟩ := fail_spec cb f.b b' hs
    refine ⟨by simp [hcur, Phase.curKind], by simp [him, Phase.inMsg], ?_⟩
    simp only [Phase.rel]
    have := rel_pre _ _ _ _ _ hi.rel
    simp only [relHolds] at this ⊢
    rw [hcomp]; exact this

/-- a step that leaves the downstream call idle and completes nothing, ending in an error result -/
theorem fcore_abort (f : Fwd) (b' : State) (r : FwdResult) (hr : r ≠ .ok) (hi : FCore f)
    (hcur : b'.s.cur = none) (him : b'.s.inMsg = false) (hcomp : b'.completed = f.b.completed)
    (f' : Fwd) (hb : f'.b = b') (ha : f'.a = f.a) (hph : f'.ph = .done r) : FCore f' := by
  refine ⟨by rw [hb, hph, hcur]; rfl, by rw [hb, hph, him]; rfl, ?_⟩
  rw [hph, hb, ha]
  have : (Phase.done r).rel = .pre := by cases r <;> simp_all [Phase.rel]
  rw [this]
  have := rel_pre _ _ _ _ _ hi.rel
  simp only [relHolds] at this ⊢
  rw [hcomp]; exact this

theorem fcore_env (v : Pairing) (ca cb : Cfg) (f f' : Fwd) (hi : FCore f) :
    (∀ l, fstep v ca cb f (.up l) = some f' → FCore f') ∧
    (∀ l, fstep v ca cb f (.down l) = some f' → FCore f') := by
  constructor
  · intro l h
    simp only [fstep] at h
    split at h
    · rename_i hl
      cases hs : step ca f.a l with
      | none => simp [hs] at h
      | some a' =>
        simp only [hs, Option.map_some, Option.some.injEq] at h
        subst h
        have hv := up_env_view ca f.a a' l hl hs
        simp only [aview, Prod.mk.injEq] at hv
        exact fcore_of_view _ _ (by simp [cview, hv.1, hv.2.1]) hi
    · simp at h
  · intro l h
    simp only [fstep] at h
    split at h
    · rename_i hl
      cases hs : step cb f.b l with
      | none => simp [hs] at h
      | some b' =>
        simp only [hs, Option.map_some, Option.some.injEq] at h
        subst h
        have hv := down_env_view cb f.b b' l hl hs
        simp only [bview, Prod.mk.injEq] at hv
        exact fcore_of_view _ _ (by simp [cview, hv.1, hv.2.1, hv.2.2.1, hv.2.2.2.1]) hi
    · simp at h

theorem fcore_ports (v : Pairing) (ca cb : Cfg) (f f' : Fwd) (hi : FCore f) :
    (∀ p, fstep v ca cb f (.alloc p) = some f' → FCore f') ∧
    (fstep v ca cb f .connect = some f' → FCore f') := by
  obtain ⟨hc, hm, hr⟩ := hi
  constructor
  · intro p h
    simp only [fstep] at h
    split at h
    · rename_i ids ports hph
      rw [hph] at hc hm hr
      split at h
      · split at h
        · simp at h
        · obtain rfl := Option.some.inj h
          exact ⟨hc, hm, hr⟩
      · simp at h
    · simp at h
  · intro h
    simp only [fstep] at h
    split at h
    · rename_i ids ports hph
      rw [hph] at hc hm hr
      split at h
      · simp at h
      · split at h
        · obtain rfl := Option.some.inj h
          exact ⟨hc, hm, hr⟩
        · cases hs : step cb f.b (.startConnect (ports.map (·.id))) with
          | none => simp [hs] at h
          | some b' =>
            simp only [hs, Option.map_some, Option.some.injEq] at h
            subst h
            obtain ⟨_, _, hcur, him, hcomp, _⟩ := startConnect_spec cb f.b b' _ hs
            simp only [Phase.rel, relHolds] at hr
            refine ⟨by simp [hcur, Phase.curKind, Xfer.kind], by simp [him, Phase.inMsg], ?_⟩
            simp only [Phase.rel, relHolds]
            exact ⟨hr.1, by rw [hcomp]; exact hr.2⟩
    · simp at h

theorem fcore_lost (v : Pairing) (ca cb : Cfg) (f f' : Fwd) (hi : FCore f) :
    (fstep v ca cb f .upLost = some f' → FCore f') ∧ (fstep v ca cb f .downLost = some f' → FCore f') := by
  constructor
  · intro h
    simp only [fstep] at h
    split at h
    · rename_i hph
      obtain rfl := Option.some.inj h
      obtain ⟨hc, hm, hr⟩ := hi
      rw [hph] at hc hm
      refine ⟨hc, hm, ?_⟩
      simp only [Phase.rel]
      exact rel_pre _ _ _ _ _ hr
    · cases hs : step cb f.b .cancel with
      | none => simp [hs] at h
      | some b' =>
        simp only [hs, Option.map_some, Option.some.injEq] at h
        subst h
        obtain ⟨hcur, him, hcomp, _, _⟩ := cancel_spec cb f.b b' hs
        exact fcore_abort f b' .errRecv (by simp) hi hcur him hcomp _ rfl rfl rfl
    · simp at h
  · intro h
    simp only [fstep] at h
    split at h
    all_goals first
      | (simp at h; done)
      | (cases hs : step cb f.b .cancel with
         | none => simp [hs] at h
         | some b' =>
           simp only [hs, Option.map_some, Option.some.injEq] at h
           subst h
           obtain ⟨hcur, him, hcomp, _, _⟩ := cancel_spec cb f.b b' hs
           exact fcore_abort f b' .errSend (by simp) hi hcur him hcomp _ rfl rfl rfl)

theorem fcore_misc (v : Pairing) (ca cb : Cfg) (f f' : Fwd) (hi : FCore f) :
    (fstep v ca cb f .closedEvt = some f' → FCore f') ∧
    (fstep v ca cb f .dropRx = some f' → FCore f') ∧ (fstep v ca cb f .dropTx = some f' → FCore f') ∧
    (∀ j r, fstep v ca cb f (.connResp j r) = some f' → FCore f') ∧
    (∀ j ok, fstep v ca cb f (.acceptDone j ok) = some f' → FCore f') := by
  refine ⟨?_, ?_, ?_, ?_, ?_⟩
  · intro h
    simp only [fstep] at h
    split at h
    · split at h
      · obtain rfl := Option.some.inj h
        cases hs : step ca f.a .close with
        | none => exact fcore_of_view _ _ (by simp [cview, hs]) hi
        | some a' =>
          obtain ⟨h1, h2, _, _⟩ := close_spec ca f.a a' hs
          exact fcore_of_view _ _ (by simp [cview, hs, h1, h2]) hi
      · simp at h
    · simp at h
  · intro h
    simp only [fstep] at h
    split at h
    · cases hs : step ca f.a .dropReceiver with
      | none => simp [hs] at h
      | some a' =>
        simp only [hs, Option.map_some, Option.some.injEq] at h
        subst h
        obtain ⟨h1, h2, _, _⟩ := dropReceiver_spec ca f.a a' hs
        exact fcore_of_view _ _ (by simp [cview, h1, h2]) hi
    · simp at h
  · intro h
    simp only [fstep] at h
    split at h
    · cases hs : step cb f.b .dropSender with
      | none => simp [hs] at h
      | some b' =>
        simp only [hs, Option.map_some, Option.some.injEq] at h
        subst h
        obtain ⟨h1, h2, h3, h4, _⟩ := dropSender_spec cb f.b b' hs
        exact fcore_of_view _ _ (by simp [cview, h1, h2, h3, h4]) hi
    · simp at h
  · intro j r h
    simp only [fstep] at h
    split at h
    · rename_i t _
      cases ht : taskResp t r with
      | none => simp [ht] at h
      | some t' =>
        simp only [ht, Option.map_some, Option.some.injEq] at h
        subst h
        exact fcore_of_view f _ rfl hi
    · simp at h
  · intro j ok h
    simp only [fstep] at h
    split at h
    · rename_i t _
      cases ht : taskAccept t ok with
      | none => simp [ht] at h
      | some t' =>
        simp only [ht, Option.map_some, Option.some.injEq] at h
        subst h
        exact fcore_of_view f _ rfl hi
    · simp at h

theorem fcore_step (v : Pairing) (ca cb : Cfg) (f f' : Fwd) (l : FLabel) (hi : FCore f) (hra : RInv f.a)
    (h : fstep v ca cb f l = some f') : FCore f' := by
  cases l with
  | up l => exact (fcore_env v ca cb f f' hi).1 l h
  | down l => exact (fcore_env v ca cb f f' hi).2 l h
  | recvAny => exact fcore_recvAny v ca cb f f' hi h
  | recvChunk => exact fcore_recvChunk v ca cb f f' hi hra h
  | emit => exact fcore_emit v ca cb f f' hi h
  | fail => exact fcore_fail v ca cb f f' hi h
  | alloc p => exact (fcore_ports v ca cb f f' hi).1 p h
  | connect => exact (fcore_ports v ca cb f f' hi).2 h
  | closedEvt => exact (fcore_misc v ca cb f f' hi).1 h
  | upLost => exact (fcore_lost v ca cb f f' hi).1 h
  | downLost => exact (fcore_lost v ca cb f f' hi).2 h
  | dropRx => exact (fcore_misc v ca cb f f' hi).2.1 h
  | dropTx => exact (fcore_misc v ca cb f f' hi).2.2.1 h
  | connResp j r => exact (fcore_misc v ca cb f f' hi).2.2.2.1 j r h
  | acceptDone j ok => exact (fcore_misc v ca cb f f' hi).2.2.2.2 j ok h

end Remoc.Link
