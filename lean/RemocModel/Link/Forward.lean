import RemocModel.Link.Model

/-!
# M_forward: the port forwarder `chmux::forward` (remoc/src/chmux/forward.rs) at chunk granularity

`forward(rx, tx)` is used by forwarded `rch::bin` channels, lazy blobs and `Receiver::forward`.  It is the
receiving caller of an upstream port and the only user of the sender API of a downstream port.  Model: two
M_link instances `a` (origin → forwarder) and `b` (forwarder → destination, with `cb.ovr = true`:
`tx.set_override_graceful_close(true)` at entry) and the forwarding loop as a state machine over them, one
label per await-free block of forward.rs:

* `idle`        — `select! { rx.recv_any(), tx.closed() }` at the top of the loop;
* `sendData`    — `tx.send(data).await` (`Received::Data`);
* `chunkRecv`   — `rx.recv_chunk().await` inside the chunk loop, the `ChunkSender` alive (`Received::Chunks`);
* `chunkSend`   — `chunk_tx.send(chunk).await`;
* `chunkFinish` — `chunk_tx.finish().await` after `recv_chunk` returned `Ok(None)`;
* `alloc`       — `allocator.allocate().await` for the next received request (`Received::Requests`);
* `connect`     — `tx.connect(ports, wait).await`;
* `done r`      — `forward` returned.

Upstream results are those of M_link's `recvAnyStep` / `recvChunkStep` (`Data d | Chunks | Requests ids | None |
Cancelled`) plus the label `upLost` for `Err(ChMux)`; downstream operations are M_link's sender labels
(`startSend d`, `startChunks`, `chunkSend c false`, `chunkSend [] true` = `finish`, `cancel` = dropping the
`ChunkSender`, `startConnect ids`).  Everything else — dispatchers, transports, the origin's sender, the
destination's receiver, closes and drops — is an arbitrary interleaving of the two links' own labels.

Port requests: for a batch the forwarder allocates one local port per request, builds
`PortReq::new(port).with_id(req.id())`, calls `tx.connect(ports, wait)` and pairs request `k` with connect `k`
(`reqs.into_iter().zip(connects)`); one task per pair awaits the connect and accepts or rejects its request.
`Pairing.reversed` is the seeded bug (a) (request `k` paired with connect `n-1-k`), kept as a variant so that
the kernel can check that the pairing theorem fails for it.  No Mathlib imports (the driver links this file).
-/

namespace Remoc.Link

/-- a port request as built by the forwarder: `PortReq::new(port).with_id(id)` -/
structure PReq where
  port : Nat
  id : Nat
deriving Repr, DecidableEq

/-- what `forward` returned -/
inductive FwdResult where
  | ok          -- upstream ended (`Event::Received(None)`)
  | errSend     -- `ForwardError::Send`
  | errRecv     -- `ForwardError::Recv`
deriving Repr, DecidableEq

inductive Phase where
  | idle
  | sendData
  | chunkRecv
  | chunkSend
  | chunkFinish
  /-- allocating: `ids` of the received requests, `ports` built so far -/
  | alloc (ids : List Nat) (ports : List PReq)
  | connect (ids : List Nat) (ports : List PReq)
  | done (r : FwdResult)
deriving Repr, DecidableEq

/-- how a `Connect` resolved; `noPorts` = `LocalPortsExhausted | RemotePortsExhausted` -/
inductive ConnRes where
  | accepted
  | failed (noPorts : Bool)
deriving Repr, DecidableEq

/-- the task spawned for one (request, connect) pair -/
inductive TaskSt where
  | waiting                      -- `connect.await`
  | accepting                    -- connected: `allocate().await`, `req.accept_from(in_port).await`
  | piped                        -- accepted: `spawn_forward` in both directions
  | acceptFailed                 -- `accept_from` failed (the requesting endpoint is gone)
  | rejected (noPorts : Bool)    -- `req.reject(no_ports).await`
deriving Repr, DecidableEq

structure PairTask where
  /-- position of the received request in its batch -/
  upIdx : Nat
  /-- `req.id()` -/
  upId : Nat
  /-- the port request whose `Connect` this task awaits -/
  out : PReq
  /-- how that connect resolved (ghost) -/
  resp : Option ConnRes := none
  st : TaskSt := .waiting
deriving Repr, DecidableEq

inductive Pairing where
  | asCoded     -- `reqs.into_iter().zip(connects)`
  | reversed    -- seeded bug (a): `reqs.into_iter().zip(connects.into_iter().rev())`
deriving Repr, DecidableEq

def pairFrom (k : Nat) : List Nat → List PReq → List PairTask
  | i :: is, p :: ps => { upIdx := k, upId := i, out := p } :: pairFrom (k + 1) is ps
  | _, _ => []

/-- `Sender::connect` returns the connects in the order of `ports` (sender.rs: `connects.push` per port);
the forwarder zips them with the requests -/
def pairUp (v : Pairing) (ids : List Nat) (ports : List PReq) : List PairTask :=
  pairFrom 0 ids (match v with | .asCoded => ports | .reversed => ports.reverse)

/-- ghost record of one forwarded batch -/
structure Batch where
  /-- ids of the received requests, in order -/
  ids : List Nat
  /-- the port requests passed to `tx.connect`, in order -/
  ports : List PReq
  /-- the (request, connect) pairs spawned -/
  pairs : List PairTask
deriving Repr, DecidableEq

structure Fwd where
  a : State
  b : State
  ph : Phase := .idle
  /-- local `closed` of `forward`: the `Event::Closed` branch ran -/
  closedSeen : Bool := false
  tasks : List PairTask := []
  batches : List Batch := []
  /-- ports the allocator handed to this forwarder (ghost; the model never reuses a number) -/
  allocated : List Nat := []
  /-- `recv_any`/`recv_chunk` returned `Err(ChMux)` -/
  lostUp : Bool := false
  /-- a downstream operation was abandoned (`SendError::ChMux`, or the forwarding task was dropped) -/
  lostDown : Bool := false
deriving Repr

/-- value returned by the `recv_any` iteration enabled in `st` (`none`: the call loops on) -/
def anyOut (c : Cfg) (st : State) : Option Out :=
  match recvAnyStep c st.r with
  | some (_, _, _, out) => out
  | none => none

/-- value returned by the `recv_chunk` iteration enabled in `st` -/
def chunkOut (c : Cfg) (st : State) : Option Out :=
  match recvChunkStep c st.r with
  | some (_, _, _, out) => out
  | none => none

/-- labels of the upstream link the environment may take: everything but its receiver API, which
belongs to the forwarder -/
def Label.upEnv : Label → Bool
  | .recvAny | .recvChunk | .close | .dropReceiver => false
  | _ => true

/-- labels of the downstream link that are not forwarder steps: the destination's receiver, the
dispatchers, and the credit steps of the operation in progress (`request`, `giveBack`) -/
def Label.downEnv : Label → Bool
  | .giveBack | .request | .provide | .muxRecv | .recvAny | .recvChunk | .close | .dropReceiver => true
  | _ => false

inductive FLabel where
  | up (l : Label)
  | down (l : Label)
  /-- one message-taking iteration of `rx.recv_any()` in the `select!`, and the block that follows its return -/
  | recvAny
  /-- one iteration of `rx.recv_chunk()` in the chunk loop, and the block that follows its return -/
  | recvChunk
  /-- the downstream operation in progress queues a frame; if it returns, the block up to the next await -/
  | emit
  /-- the downstream operation in progress fails (`SendError::Closed`): `forward` returns the error -/
  | fail
  /-- `allocator.allocate().await` returns `p` for the next request -/
  | alloc (p : Nat)
  /-- all ports allocated: `tx.connect(ports, wait)` begins -/
  | connect
  /-- `Event::Closed`: `rx.close().await; closed = true` -/
  | closedEvt
  /-- `recv_any` / `recv_chunk` returns `Err(ChMux)`: the upstream connection is gone -/
  | upLost
  /-- the downstream operation in progress ends with `SendError::ChMux`, or the forwarding task is dropped in it -/
  | downLost
  /-- after `forward` returned its caller drops the ports (`spawn_forward`, the bin forwarding tasks) -/
  | dropRx
  | dropTx
  /-- the `Connect` of task `j` resolves -/
  | connResp (j : Nat) (r : ConnRes)
  /-- `req.accept_from(in_port)` of task `j` returns -/
  | acceptDone (j : Nat) (ok : Bool)
deriving Repr

/-- the block after `recv_any` returned `out` (forward.rs, `match event`) -/
def afterAny (cb : Cfg) (f : Fwd) (a' : State) : Option Out → Option Fwd
  | some (.data d) => (step cb f.b (.startSend d)).map fun b' => { f with a := a', b := b', ph := .sendData }
  | some .chunksStart => (step cb f.b .startChunks).map fun b' => { f with a := a', b := b', ph := .chunkRecv }
  | some (.requests ids) => some { f with a := a', ph := .alloc ids [] }
  | some .eos => some { f with a := a', ph := .done .ok }
  | some .tooManyPorts => some { f with a := a', ph := .done .errRecv }
  | _ => some { f with a := a' }

/-- the block after `recv_chunk` returned `out` (forward.rs, chunk loop).  `Ok(None)` is both M_link's
`chunkEnd` and `eos`: the code calls `finish()` for either. -/
def afterChunk (cb : Cfg) (f : Fwd) (a' : State) : Option Out → Option Fwd
  | some (.chunk d) => (step cb f.b (.chunkSend d false)).map fun b' => { f with a := a', b := b', ph := .chunkSend }
  | some .chunkEnd => (step cb f.b (.chunkSend [] true)).map fun b' => { f with a := a', b := b', ph := .chunkFinish }
  | some .eos => (step cb f.b (.chunkSend [] true)).map fun b' => { f with a := a', b := b', ph := .chunkFinish }
  | some .cancelled => (step cb f.b .cancel).map fun b' => { f with a := a', b := b', ph := .idle }
  | _ => some { f with a := a' }

/-- the block after the downstream operation returned `Ok` -/
def afterOp (v : Pairing) (f : Fwd) (b' : State) : Option Fwd :=
  match f.ph with
  | .sendData => some { f with b := b', ph := .idle }
  | .chunkSend => some { f with b := b', ph := .chunkRecv }
  | .chunkFinish => some { f with b := b', ph := .idle }
  | .connect ids ports =>
    some { f with b := b', ph := .idle, tasks := f.tasks ++ pairUp v ids ports,
                  batches := f.batches ++ [{ ids := ids, ports := ports, pairs := pairUp v ids ports }] }
  | _ => none

def taskResp (t : PairTask) (r : ConnRes) : Option PairTask :=
  match t.st with
  | .waiting => some { t with resp := some r, st := match r with | .accepted => .accepting | .failed np => .rejected np }
  | _ => none

def taskAccept (t : PairTask) (ok : Bool) : Option PairTask :=
  match t.st with
  | .accepting => some { t with st := if ok then .piped else .acceptFailed }
  | _ => none

def fstep (v : Pairing) (ca cb : Cfg) (f : Fwd) : FLabel → Option Fwd
  | .up l => if l.upEnv then (step ca f.a l).map fun a' => { f with a := a' } else none
  | .down l => if l.downEnv then (step cb f.b l).map fun b' => { f with b := b' } else none
  | .recvAny =>
    match f.ph with
    | .idle =>
      match step ca f.a .recvAny with
      | some a' => afterAny cb f a' (anyOut ca f.a)
      | none =>
        -- `recv_any` on a receiver that has seen `Finished` returns `Ok(None)` at once (receiver.rs,
        -- `if self.finished`); this happens when `Finished` ended a chunk stream (reported as `Cancelled`)
        if f.a.r.finished then some { f with ph := .done .ok } else none
    | _ => none
  | .recvChunk =>
    match f.ph with
    | .chunkRecv =>
      match step ca f.a .recvChunk with
      | some a' => afterChunk cb f a' (chunkOut ca f.a)
      | none => none
    | _ => none
  | .emit =>
    match step cb f.b .emit with
    | some b' => if b'.s.cur.isSome then some { f with b := b' } else afterOp v f b'
    | none => none
  | .fail => (step cb f.b .fail).map fun b' => { f with b := b', ph := .done .errSend }
  | .alloc p =>
    match f.ph with
    | .alloc ids ports =>
      match ids[ports.length]? with
      | some i =>
        if p ∈ f.allocated then none
        else some { f with ph := .alloc ids (ports ++ [{ port := p, id := i }]), allocated := f.allocated ++ [p] }
      | none => none
    | _ => none
  | .connect =>
    match f.ph with
    | .alloc ids ports =>
      if ports.length < ids.length then none
      else if ports = [] then
        -- `connect(vec![])` queues nothing and returns no connects
        some { f with ph := .idle, batches := f.batches ++ [{ ids := ids, ports := [], pairs := [] }] }
      else (step cb f.b (.startConnect (ports.map (·.id)))).map fun b' => { f with b := b', ph := .connect ids ports }
    | _ => none
  | .closedEvt =>
    match f.ph with
    | .idle =>
      if f.closedSeen = false ∧ f.b.s.closed.isSome then
        -- `Receiver::close` does nothing when the receiver is closed already
        some { f with a := (step ca f.a .close).getD f.a, closedSeen := true }
      else none
    | _ => none
  | .upLost =>
    match f.ph with
    | .idle => some { f with ph := .done .errRecv, lostUp := true }
    | .chunkRecv =>
      -- `return Err(..)` drops the `ChunkSender`
      (step cb f.b .cancel).map fun b' => { f with b := b', ph := .done .errRecv, lostUp := true }
    | _ => none
  | .downLost =>
    match f.ph with
    | .sendData | .chunkSend | .chunkFinish | .connect _ _ =>
      (step cb f.b .cancel).map fun b' => { f with b := b', ph := .done .errSend, lostDown := true }
    | _ => none
  | .dropRx =>
    match f.ph with
    | .done _ => (step ca f.a .dropReceiver).map fun a' => { f with a := a' }
    | _ => none
  | .dropTx =>
    match f.ph with
    | .done _ => (step cb f.b .dropSender).map fun b' => { f with b := b' }
    | _ => none
  | .connResp j r =>
    match f.tasks[j]? with
    | some t => (taskResp t r).map fun t' => { f with tasks := f.tasks.set j t' }
    | none => none
  | .acceptDone j ok =>
    match f.tasks[j]? with
    | some t => (taskAccept t ok).map fun t' => { f with tasks := f.tasks.set j t' }
    | none => none

def frun (v : Pairing) (ca cb : Cfg) (f : Fwd) : List FLabel → Fwd
  | [] => f
  | l :: ls => match fstep v ca cb f l with
    | some f' => frun v ca cb f' ls
    | none => frun v ca cb f ls

def finit (ca cb : Cfg) : Fwd := { a := init ca, b := init cb }

def FReachable (v : Pairing) (ca cb : Cfg) (f : Fwd) : Prop := ∃ ls, frun v ca cb (finit ca cb) ls = f

end Remoc.Link
