import RemocModel.Link.Forward
import RemocModel.Props.C01
set_option linter.unusedSimpArgs false
set_option linter.unusedVariables false

/-!
Facts about single M_link steps used by the forwarder invariant (`ForwardInv.lean`): which parts of a
link state the environment's labels leave alone, and what the forwarder's own calls do to them.
-/

namespace Remoc.Link

/-- 0: non-final chunk call (`ChunkSender::send`), 1: call whose last frame completes a message
(`Sender::send`, `finish`), 2: port batch (`Sender::connect`) -/
def Xfer.kind : Xfer → Nat
  | .bytes _ _ false => 0
  | .bytes _ _ true => 1
  | .portReqs _ => 2

/-- the receiving caller's view of the upstream link -/
def aview (st : State) : List Bytes × Option Bytes × List Out × Bool :=
  (st.delivered, st.partialMsg, st.outs, st.r.closed)

/-- the sending caller's view of the downstream link -/
def bview (st : State) : Option Xfer × Bytes × Bool × List Bytes × Bool :=
  (st.s.cur, st.s.acc, st.s.inMsg, st.completed, st.s.dropped)

/-- labels of the upstream link other than its receiver API do not touch what the receiving caller sees -/
theorem up_env_view (c : Cfg) (st st' : State) (l : Label) (hl : l.upEnv = true)
    (h : step c st l = some st') : aview st' = aview st := by
  cases l <;> simp only [Label.upEnv] at hl <;> (first | exact absurd hl Bool.false_ne_true | skip) <;>
    simp only [step] at h <;> (repeat' split at h) <;>
    first
      | (simp at h; done)
      | (obtain rfl := Option.some.inj h; rfl)

/-- the destination's receiver, the dispatchers and the credit steps do not touch the operation in
progress, the open message or the completed sends of the downstream sender -/
theorem down_env_view (c : Cfg) (st st' : State) (l : Label) (hl : l.downEnv = true)
    (h : step c st l = some st') : bview st' = bview st := by
  cases l <;> simp only [Label.downEnv] at hl <;> (first | exact absurd hl Bool.false_ne_true | skip) <;>
    simp only [step] at h <;> (repeat' split at h) <;>
    first
      | (simp at h; done)
      | (obtain rfl := Option.some.inj h; rfl)

/-- `closed` of the sender is set once and never changes afterwards -/
theorem closed_stable (c : Cfg) (st st' : State) (l : Label) (h : step c st l = some st') (g : Bool)
    (hc : st.s.closed = some g) : st'.s.closed = some g := by
  cases l <;> simp only [step] at h <;> (repeat' split at h) <;>
    first
      | (simp at h; done)
      | (obtain rfl := Option.some.inj h; exact hc)
      | (obtain rfl := Option.some.inj h; simp_all; done)

/-- a receiver that has seen `Finished` stays finished -/
theorem finished_stable (c : Cfg) (st st' : State) (l : Label) (h : step c st l = some st')
    (hf : st.r.finished = true) : st'.r.finished = true := by
  cases l
  case recvAny =>
    simp only [step] at h
    split at h
    · simp at h
    · simp [recvAnyStep, hf] at h
  case recvChunk =>
    simp only [step] at h
    split at h
    · simp at h
    · split at h
      · simp at h
      · simp only [recvChunkStep, hf, if_true] at h
        (repeat' split at h) <;> first
          | (simp at h; done)
          | (obtain rfl := Option.some.inj h; exact hf)
  all_goals
    simp only [step] at h
    (repeat' split at h) <;> first
      | (simp at h; done)
      | (obtain rfl := Option.some.inj h; exact hf)

/-- what one `recv_any` iteration does to the caller's ghost view, in terms of the value it returns -/
theorem recvAny_spec (c : Cfg) (st st' : State) (h : step c st .recvAny = some st') :
    st.partialMsg = none ∧ st'.outs = st.outs ++ (anyOut c st).toList ∧ st'.r.closed = st.r.closed ∧
    (∀ d, anyOut c st = some (.data d) → st'.delivered = st.delivered ++ [d] ∧ st'.partialMsg = none) ∧
    (anyOut c st = some .chunksStart → st'.delivered = st.delivered ∧ st'.partialMsg = some []) ∧
    ((∀ d, anyOut c st ≠ some (.data d)) → anyOut c st ≠ some .chunksStart →
      st'.delivered = st.delivered ∧ st'.partialMsg = none) := by
  simp only [step] at h
  split at h
  · simp at h
  · rename_i hg
    have hp : st.partialMsg = none := by
      cases hpm : st.partialMsg with
      | none => rfl
      | some x => simp [hpm] at hg
    cases hr : recvAnyStep c st.r with
    | none => simp [hr] at h
    | some x =>
      obtain ⟨r, bk, f, out⟩ := x
      have hcl : r.closed = st.r.closed := (recvAnyStep_acct c st.r r bk f out hr).2.2.2.2
      have ho : anyOut c st = out := by simp [anyOut, hr]
      simp only [hr] at h
      rw [ho]
      cases out with
      | none =>
        obtain rfl := Option.some.inj h
        exact ⟨hp, by simp, hcl, by simp, by simp, fun _ _ => ⟨rfl, hp⟩⟩
      | some o =>
        cases o <;> simp only [] at h <;> (obtain rfl := Option.some.inj h) <;>
          simp [hp, hcl]

/-- what one `recv_chunk` iteration does to the caller's ghost view, in terms of the value it returns -/
theorem recvChunk_spec (c : Cfg) (st st' : State) (h : step c st .recvChunk = some st') :
    ∃ acc, st.partialMsg = some acc ∧ st'.outs = st.outs ++ (chunkOut c st).toList ∧ st'.r.closed = st.r.closed ∧
    (∀ d, chunkOut c st = some (.chunk d) → st'.delivered = st.delivered ∧ st'.partialMsg = some (acc ++ d)) ∧
    (chunkOut c st = some .chunkEnd → st'.delivered = st.delivered ++ [acc] ∧ st'.partialMsg = none) ∧
    (chunkOut c st = some .cancelled → st'.delivered = st.delivered ∧ st'.partialMsg = none) ∧
    (chunkOut c st = some .eos → st'.delivered = st.delivered ∧ st'.partialMsg = none) ∧
    ((∀ d, chunkOut c st ≠ some (.chunk d)) → chunkOut c st ≠ some .chunkEnd → chunkOut c st ≠ some .cancelled →
      chunkOut c st ≠ some .eos → st'.delivered = st.delivered ∧ st'.partialMsg = some acc) := by
  simp only [step] at h
  split at h
  · simp at h
  · cases hpm : st.partialMsg with
    | none => simp [hpm] at h
    | some acc =>
      simp only [hpm] at h
      cases hr : recvChunkStep c st.r with
      | none => simp [hr] at h
      | some x =>
        obtain ⟨r, bk, f, out⟩ := x
        have hcl : r.closed = st.r.closed := (recvChunkStep_acct c st.r r bk f out hr).2.2.2.2
        have ho : chunkOut c st = out := by simp [chunkOut, hr]
        simp only [hr] at h
        refine ⟨acc, rfl, ?_⟩
        rw [ho]
        cases out with
        | none =>
          obtain rfl := Option.some.inj h
          simp [hcl]
        | some o =>
          cases o <;> simp only [] at h <;> (obtain rfl := Option.some.inj h) <;>
            simp [hcl]

/-! ### the downstream sender's calls -/

theorem startSend_spec (c : Cfg) (st st' : State) (d : Bytes) (h : step c st (.startSend d) = some st') :
    st.s.cur = none ∧ st.s.inMsg = false ∧
    (∃ x, st'.s.cur = some x ∧ x.kind = 1) ∧ st'.s.inMsg = false ∧ st'.s.acc = d ∧
    st'.completed = st.completed ∧ st'.s.dropped = st.s.dropped := by
  simp only [step] at h
  split at h
  · rename_i hg
    obtain rfl := Option.some.inj h
    have h1 : st.s.cur = none := by simpa using hg.1
    have h2 : st.s.inMsg = false := by simpa using hg.2.1
    exact ⟨h1, h2, ⟨_, rfl, rfl⟩, h2, rfl, rfl, rfl⟩
  · simp at h

theorem startChunks_spec (c : Cfg) (st st' : State) (h : step c st .startChunks = some st') :
    st.s.cur = none ∧ st.s.inMsg = false ∧
    st'.s.cur = none ∧ st'.s.inMsg = true ∧ st'.s.acc = [] ∧
    st'.completed = st.completed ∧ st'.s.dropped = st.s.dropped := by
  simp only [step] at h
  split at h
  · rename_i hg
    obtain rfl := Option.some.inj h
    have h1 : st.s.cur = none := by simpa using hg.1
    have h2 : st.s.inMsg = false := by simpa using hg.2.1
    exact ⟨h1, h2, h1, rfl, rfl, rfl, rfl⟩
  · simp at h

theorem chunkSend_spec (c : Cfg) (st st' : State) (d : Bytes) (fin : Bool)
    (h : step c st (.chunkSend d fin) = some st') :
    st.s.cur = none ∧ st.s.inMsg = true ∧
    (∃ x, st'.s.cur = some x ∧ x.kind = if fin then 1 else 0) ∧ st'.s.inMsg = true ∧ st'.s.acc = st.s.acc ++ d ∧
    st'.completed = st.completed ∧ st'.s.dropped = st.s.dropped := by
  simp only [step] at h
  split at h
  · rename_i hg
    obtain rfl := Option.some.inj h
    have h1 : st.s.cur = none := by simpa using hg.1
    refine ⟨h1, hg.2, ⟨_, rfl, ?_⟩, hg.2, rfl, rfl, rfl⟩
    cases fin <;> rfl
  · simp at h

theorem startConnect_spec (c : Cfg) (st st' : State) (ids : List Nat)
    (h : step c st (.startConnect ids) = some st') :
    st.s.cur = none ∧ st.s.inMsg = false ∧
    st'.s.cur = some (.portReqs ids) ∧ st'.s.inMsg = false ∧
    st'.completed = st.completed ∧ st'.s.dropped = st.s.dropped := by
  simp only [step] at h
  split at h
  · rename_i hg
    obtain rfl := Option.some.inj h
    have h1 : st.s.cur = none := by simpa using hg.1
    have h2 : st.s.inMsg = false := by simpa using hg.2.1
    exact ⟨h1, h2, rfl, h2, rfl, rfl⟩
  · simp at h

/-- dropping the `ChunkSender` / the future of the call in progress completes nothing -/
theorem cancel_spec (c : Cfg) (st st' : State) (h : step c st .cancel = some st') :
    st'.s.cur = none ∧ st'.s.inMsg = false ∧ st'.completed = st.completed ∧ st'.s.dropped = st.s.dropped ∧
    st'.emitted = st.emitted := by
  simp only [step] at h
  split at h
  · obtain rfl := Option.some.inj h
    exact ⟨rfl, rfl, rfl, rfl, rfl⟩
  · simp at h

theorem fail_spec (c : Cfg) (st st' : State) (h : step c st .fail = some st') :
    st.s.cur.isSome = true ∧ st.s.mayRequest c = false ∧
    st'.s.cur = none ∧ st'.s.inMsg = false ∧ st'.completed = st.completed ∧ st'.s.dropped = st.s.dropped ∧
    st'.s.closed = st.s.closed := by
  simp only [step] at h
  split at h
  · simp at h
  · rename_i x hx
    split at h
    · rename_i hg
      obtain rfl := Option.some.inj h
      exact ⟨by simp [hx], by simpa using hg.2, rfl, rfl, rfl, rfl, rfl⟩
    · simp at h

theorem dropSender_spec (c : Cfg) (st st' : State) (h : step c st .dropSender = some st') :
    st'.s.cur = st.s.cur ∧ st'.s.inMsg = st.s.inMsg ∧ st'.s.acc = st.s.acc ∧ st'.completed = st.completed ∧
    st'.s.dropped = true := by
  simp only [step] at h
  split at h
  · obtain rfl := Option.some.inj h
    exact ⟨rfl, rfl, rfl, rfl, rfl⟩
  · simp at h

/-- `Receiver::close` / dropping the receiver do not touch what the caller obtained -/
theorem close_spec (c : Cfg) (st st' : State) (h : step c st .close = some st') :
    st'.delivered = st.delivered ∧ st'.partialMsg = st.partialMsg ∧ st'.outs = st.outs ∧ st'.r.closed = true := by
  simp only [step] at h
  split at h
  · obtain rfl := Option.some.inj h
    exact ⟨rfl, rfl, rfl, rfl⟩
  · simp at h

theorem dropReceiver_spec (c : Cfg) (st st' : State) (h : step c st .dropReceiver = some st') :
    st'.delivered = st.delivered ∧ st'.partialMsg = st.partialMsg ∧ st'.outs = st.outs ∧
    st'.r.closed = st.r.closed := by
  simp only [step] at h
  split at h
  · obtain rfl := Option.some.inj h
    exact ⟨rfl, rfl, rfl, rfl⟩
  · simp at h

end Remoc.Link
