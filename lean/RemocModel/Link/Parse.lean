import RemocModel.Link.Lemmas
set_option linter.unusedSimpArgs false

namespace Remoc.Link

theorem parse_append (cur : Option Bytes) (a b : List Frame) :
    parse cur (a ++ b) = parse cur a ++ parse (parseSt cur a) b := by
  induction a generalizing cur with
  | nil => simp [parse, parseSt]
  | cons f fs ih =>
    simp only [List.cons_append, parse, parseSt]
    generalize parseStep cur f = ps
    obtain ⟨cur', m⟩ := ps
    cases m <;> simp [ih]

theorem parseSt_append (cur : Option Bytes) (a b : List Frame) :
    parseSt cur (a ++ b) = parseSt (parseSt cur a) b := by
  induction a generalizing cur with
  | nil => simp [parseSt]
  | cons f fs ih => simp only [List.cons_append, parseSt, ih]

theorem parse_snoc (cur : Option Bytes) (a : List Frame) (f : Frame) :
    parse cur (a ++ [f]) = parse cur a ++ (parseStep (parseSt cur a) f).2.toList := by
  rw [parse_append]
  simp only [parse]
  generalize parseStep (parseSt cur a) f = ps
  obtain ⟨cur', m⟩ := ps
  cases m <;> simp [parse]

theorem parseSt_snoc (cur : Option Bytes) (a : List Frame) (f : Frame) :
    parseSt cur (a ++ [f]) = (parseStep (parseSt cur a) f).1 := by
  rw [parseSt_append]; simp [parseSt]

/-- frames that start something new make the reassembly buffer irrelevant -/
def Frame.resets : Frame → Bool
  | .data _ first _ => first
  | .ports _ _ _ => true
  | .finish => true

theorem parseStep_resets (cur : Option Bytes) (f : Frame) (h : f.resets = true) :
    parseStep cur f = parseStep none f := by
  cases f <;> simp_all [parseStep, Frame.resets]

end Remoc.Link
