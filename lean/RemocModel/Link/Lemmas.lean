import RemocModel.Link.Model
set_option linter.unusedSimpArgs false

namespace Remoc.Link

@[simp] theorem costs_nil : costs [] = 0 := rfl
@[simp] theorem costs_cons (f : Frame) (fs : List Frame) : costs (f :: fs) = f.cost + costs fs := by
  simp [costs]
@[simp] theorem costs_append (a b : List Frame) : costs (a ++ b) = costs a + costs b := by
  simp [costs]
@[simp] theorem backSum_nil : backSum [] = 0 := rfl
@[simp] theorem backSum_cons (f : Back) (fs : List Back) : backSum (f :: fs) = f.amount + backSum fs := by
  simp [backSum]
@[simp] theorem backSum_append (a b : List Back) : backSum (a ++ b) = backSum a + backSum b := by
  simp [backSum]

/-- credits queued for return never get lost: what `start_return` moves out of `used`
ends up in `toReturn` or in a `PortCredits` frame -/
theorem returnCredits_spec (limit : Nat) (r : Receiver) (k : Nat) (r' : Receiver) (bk : List Back)
    (h : returnCredits limit r k = (r', bk)) :
    r'.used = r.used - k ∧ r'.toReturn + backSum bk = r.toReturn + k ∧ r'.portq = r.portq ∧
    r'.unprocessed = r.unprocessed ∧ r'.receiving = r.receiving ∧ r'.finished = r.finished ∧
    r'.closed = r.closed ∧ r'.dropped = r.dropped := by
  unfold returnCredits at h
  simp only [] at h
  split at h <;> (obtain ⟨rfl, rfl⟩ := Prod.mk.inj h; simp [Back.amount])

theorem returnCredits_toReturn_lt (limit : Nat) (r : Receiver) (k : Nat) (r' : Receiver) (bk : List Back)
    (h : returnCredits limit r k = (r', bk)) : r'.toReturn < threshold limit ∨ (r'.toReturn = 0) := by
  unfold returnCredits at h
  simp only [] at h
  split at h <;> (obtain ⟨rfl, rfl⟩ := Prod.mk.inj h; simp) 
  omega

/-- logical receive queue: the put-back frame, then the port queue -/
def Receiver.queue (r : Receiver) : List Frame := r.unprocessed.toList ++ r.portq

theorem nextMsg_spec (r : Receiver) (f : Frame) (r' : Receiver) (h : nextMsg r = some (f, r')) :
    r.queue = f :: r'.queue ∧ r'.used = r.used ∧ r'.toReturn = r.toReturn ∧ r'.receiving = r.receiving ∧
    r'.finished = r.finished ∧ r'.closed = r.closed ∧ r'.dropped = r.dropped ∧ r'.unprocessed = none := by
  unfold nextMsg at h
  split at h
  · obtain ⟨rfl, rfl⟩ := Prod.mk.inj (Option.some.inj h)
    simp_all [Receiver.queue]
  · split at h
    · simp at h
    · obtain ⟨rfl, rfl⟩ := Prod.mk.inj (Option.some.inj h)
      simp_all [Receiver.queue]

theorem nextMsg_none (r : Receiver) (h : nextMsg r = none) : r.queue = [] := by
  unfold nextMsg at h
  split at h
  · simp at h
  · split at h
    · simp_all [Receiver.queue]
    · simp at h

theorem returnFor_spec (limit : Nat) (r : Receiver) (f : Frame) (r' : Receiver) (bk : List Back)
    (h : returnFor limit r f = (r', bk)) :
    r'.used = r.used - f.cost ∧ r'.toReturn + backSum bk = r.toReturn + f.cost ∧ r'.portq = r.portq ∧
    r'.unprocessed = r.unprocessed ∧ r'.receiving = r.receiving ∧ r'.finished = r.finished ∧
    r'.closed = r.closed ∧ r'.dropped = r.dropped := by
  unfold returnFor at h
  split at h
  · obtain ⟨rfl, rfl⟩ := Prod.mk.inj h
    cases f <;> simp_all [Frame.isFinish, Frame.cost]
  · exact returnCredits_spec _ _ _ _ _ h

/-- Accounting of one `recv_any` iteration: exactly the head of the logical queue is consumed,
its cost leaves `used` and is either kept in `toReturn` or sent back. -/
theorem recvAnyStep_acct (c : Cfg) (r r' : Receiver) (bk : List Back) (f : Frame) (out : Option Out)
    (h : recvAnyStep c r = some (r', bk, f, out)) :
    r.queue = f :: r'.queue ∧ r'.used = r.used - f.cost ∧
    r'.toReturn + backSum bk = r.toReturn + f.cost ∧ r'.dropped = r.dropped ∧ r'.closed = r.closed := by
  unfold recvAnyStep at h
  split at h
  · simp at h
  · split at h
    · simp at h
    · rename_i f0 r0 hn
      have hq := nextMsg_spec r f0 r0 hn
      generalize hrf : returnFor c.limit r0 f0 = rb at h
      obtain ⟨r1, bk1⟩ := rb
      have hs := returnFor_spec _ _ _ _ _ hrf
      simp only [Option.some.injEq, Prod.mk.injEq] at h
      obtain ⟨rfl, rfl, rfl, rfl⟩ := h
      simp_all [Receiver.queue]

def optCost : Option Frame → Nat
  | none => 0
  | some f => f.cost

/-- Accounting of one `recv_chunk` iteration: at most the head of the logical queue is consumed;
a frame that signals a cancellation stays at the head of the queue with its credit untouched. -/
theorem recvChunkStep_acct (c : Cfg) (r r' : Receiver) (bk : List Back) (f : Option Frame) (out : Option Out)
    (h : recvChunkStep c r = some (r', bk, f, out)) :
    r.queue = f.toList ++ r'.queue ∧ r'.used = r.used - optCost f ∧
    r'.toReturn + backSum bk = r.toReturn + optCost f ∧ r'.dropped = r.dropped ∧ r'.closed = r.closed := by
  unfold recvChunkStep at h
  split at h
  · simp only [Option.some.injEq, Prod.mk.injEq] at h
    obtain ⟨rfl, rfl, rfl, rfl⟩ := h
    simp [optCost]
  · split at h
    · simp only [Option.some.injEq, Prod.mk.injEq] at h
      obtain ⟨rfl, rfl, rfl, rfl⟩ := h
      simp [optCost, Receiver.queue]
    · simp only [Option.some.injEq, Prod.mk.injEq] at h
      obtain ⟨rfl, rfl, rfl, rfl⟩ := h
      simp [optCost, Receiver.queue]
    · split at h
      · simp at h
      · rename_i f0 r0 hn
        have hq := nextMsg_spec r f0 r0 hn
        split at h
        · simp only [Option.some.injEq, Prod.mk.injEq] at h
          obtain ⟨rfl, rfl, rfl, rfl⟩ := h
          simp_all [Receiver.queue, optCost]
        · generalize hrf : returnFor c.limit r0 f0 = rb at h
          obtain ⟨r1, bk1⟩ := rb
          have hs := returnFor_spec _ _ _ _ _ hrf
          simp only [Option.some.injEq, Prod.mk.injEq] at h
          obtain ⟨rfl, rfl, rfl, rfl⟩ := h
          simp_all [Receiver.queue, optCost]

end Remoc.Link
