import RemocModel.Link.CloseInv

/-!
Classification of the end of a port as an `rch::lr` / `rch::base` sender sees it (credit provider
closed gracefully / not gracefully), as an invariant of M_link: what the sender reports, or will
report once it has handled the notifications in flight, is `Closed` iff the receiver called
`close()` first, `Dropped` iff it was dropped without a close before.
-/

namespace Remoc.Link

/-- the first close / finish notification among the frames travelling back -/
def firstEnd : List Back → Option Bool
  | [] => none
  | .recvClose :: _ => some true
  | .recvFinish :: _ => some false
  | .credits _ :: bs => firstEnd bs

/-- what the sender reports, or will report after handling what is in flight -/
def lrView (st : State) : Option Bool :=
  match st.s.closed with
  | some g => some g
  | none => firstEnd st.back

/-- what the receiving side did first -/
def rxView (st : State) : Option Bool :=
  if st.r.closed then some true else if st.r.dropped then some false else none

theorem firstEnd_append (a b : List Back) :
    firstEnd (a ++ b) = match firstEnd a with | some g => some g | none => firstEnd b := by
  induction a with
  | nil => simp only [List.nil_append, firstEnd]
  | cons x xs ih => cases x <;> simp [firstEnd, ih]

theorem returnCredits_lrview (limit : Nat) (r : Receiver) (n : Nat) :
    (returnCredits limit r n).1.closed = r.closed ∧ (returnCredits limit r n).1.dropped = r.dropped ∧
    firstEnd (returnCredits limit r n).2 = none := by
  unfold returnCredits
  simp only
  split <;> simp [firstEnd]

theorem returnFor_lrview (limit : Nat) (r : Receiver) (f : Frame) :
    (returnFor limit r f).1.closed = r.closed ∧ (returnFor limit r f).1.dropped = r.dropped ∧
    firstEnd (returnFor limit r f).2 = none := by
  unfold returnFor
  split
  · simp [firstEnd]
  · exact returnCredits_lrview limit r _

theorem nextMsg_lrview (r r0 : Receiver) (f : Frame) (h : nextMsg r = some (f, r0)) :
    r0.closed = r.closed ∧ r0.dropped = r.dropped := by
  unfold nextMsg at h
  split at h
  · obtain ⟨_, rfl⟩ := Prod.mk.inj (Option.some.inj h); exact ⟨rfl, rfl⟩
  · split at h
    · simp at h
    · obtain ⟨_, rfl⟩ := Prod.mk.inj (Option.some.inj h); exact ⟨rfl, rfl⟩

theorem recvAnyStep_lrview (c : Cfg) (r r' : Receiver) (bk : List Back) (f : Frame) (o : Option Out)
    (h : recvAnyStep c r = some (r', bk, f, o)) :
    r'.closed = r.closed ∧ r'.dropped = r.dropped ∧ firstEnd bk = none := by
  unfold recvAnyStep at h
  split at h
  · simp at h
  · split at h
    · simp at h
    · rename_i f0 r0 hn
      have hv := nextMsg_lrview r r0 f0 hn
      have hr := returnFor_lrview c.limit r0 f0
      simp only [Option.some.injEq, Prod.mk.injEq] at h
      obtain ⟨rfl, rfl, _, _⟩ := h
      exact ⟨by simp [hr.1, hv.1], by simp [hr.2.1, hv.2], hr.2.2⟩

theorem recvChunkStep_lrview (c : Cfg) (r r' : Receiver) (bk : List Back) (f : Option Frame) (o : Option Out)
    (h : recvChunkStep c r = some (r', bk, f, o)) :
    r'.closed = r.closed ∧ r'.dropped = r.dropped ∧ firstEnd bk = none := by
  unfold recvChunkStep at h
  split at h
  · simp only [Option.some.injEq, Prod.mk.injEq] at h
    obtain ⟨rfl, rfl, _, _⟩ := h; exact ⟨rfl, rfl, rfl⟩
  · split at h
    · simp only [Option.some.injEq, Prod.mk.injEq] at h
      obtain ⟨rfl, rfl, _, _⟩ := h; exact ⟨rfl, rfl, rfl⟩
    · simp only [Option.some.injEq, Prod.mk.injEq] at h
      obtain ⟨rfl, rfl, _, _⟩ := h; exact ⟨rfl, rfl, rfl⟩
    · split at h
      · simp at h
      · rename_i f0 r0 hn
        have hv := nextMsg_lrview r r0 f0 hn
        have hr := returnFor_lrview c.limit r0 f0
        split at h
        · simp only [Option.some.injEq, Prod.mk.injEq] at h
          obtain ⟨rfl, rfl, _, _⟩ := h; exact ⟨rfl, rfl, rfl⟩
        · simp only [Option.some.injEq, Prod.mk.injEq] at h
          obtain ⟨rfl, rfl, _, _⟩ := h
          exact ⟨by simp [hr.1, hv.1], by simp [hr.2.1, hv.2], hr.2.2⟩

theorem lr_step_frame (st st' : State) (bk : List Back) (h1 : st'.s.closed = st.s.closed)
    (h2 : st'.back = st.back ++ bk) (h3 : firstEnd bk = none) (h4 : st'.r.closed = st.r.closed)
    (h5 : st'.r.dropped = st.r.dropped) (hi : lrView st = rxView st) : lrView st' = rxView st' := by
  unfold lrView rxView at *
  rw [h1, h2, h4, h5, firstEnd_append, h3]
  rw [← hi]
  cases st.s.closed <;> simp
  cases firstEnd st.back <;> rfl

theorem lr_step (c : Cfg) (st st' : State) (l : Label) (hi : lrView st = rxView st) (h : step c st l = some st') :
    lrView st' = rxView st' := by
  cases l with
  | provide =>
    simp only [step] at h
    split at h
    · simp at h
    · rename_i b bs hb
      have key : lrView st' = lrView st ∧ rxView st' = rxView st := by
        split at h <;> (obtain rfl := Option.some.inj h) <;> refine ⟨?_, rfl⟩ <;> unfold lrView <;>
          cases hc : st.s.closed <;> simp [hb, firstEnd, hc]
      rw [key.1, key.2]; exact hi
  | close =>
    simp only [step] at h
    split at h
    · rename_i hg
      obtain rfl := Option.some.inj h
      unfold lrView rxView at *
      simp only [firstEnd_append]
      cases hc : st.s.closed <;> cases hf : firstEnd st.back <;> simp_all [firstEnd]
    · simp at h
  | dropReceiver =>
    simp only [step] at h
    split at h
    · rename_i hg
      obtain rfl := Option.some.inj h
      unfold lrView rxView at *
      simp only [firstEnd_append]
      cases hc : st.s.closed <;> cases hf : firstEnd st.back <;> cases hrc : st.r.closed <;> simp_all [firstEnd]
    · simp at h
  | recvAny =>
    simp only [step] at h
    split at h
    · simp at h
    · split at h
      · simp at h
      · rename_i r bk f out hra
        have hv := recvAnyStep_lrview c st.r r bk f out hra
        split at h <;> (obtain rfl := Option.some.inj h) <;>
          exact lr_step_frame st _ bk rfl rfl hv.2.2 hv.1 hv.2.1 hi
  | recvChunk =>
    simp only [step] at h
    split at h
    · simp at h
    · split at h
      · simp at h
      · split at h
        · simp at h
        · rename_i acc _ r bk f out hrc
          have hv := recvChunkStep_lrview c st.r r bk f out hrc
          split at h <;> (obtain rfl := Option.some.inj h) <;>
            exact lr_step_frame st _ bk rfl rfl hv.2.2 hv.1 hv.2.1 hi
  | _ =>
    simp only [step] at h <;> (repeat' split at h) <;> (try (simp at h; done)) <;>
      (try (obtain rfl := Option.some.inj h)) <;>
      exact lr_step_frame st _ [] rfl (by simp) rfl rfl rfl hi

theorem lr_view_reachable (c : Cfg) (st : State) (h : Reachable c st) : lrView st = rxView st := by
  obtain ⟨ls, rfl⟩ := h
  suffices ∀ s0, lrView s0 = rxView s0 → lrView (run c s0 ls) = rxView (run c s0 ls) from
    this _ (by simp [lrView, rxView, init, firstEnd])
  intro s0 h0
  induction ls generalizing s0 with
  | nil => exact h0
  | cons l ls ih =>
    simp only [run]; split
    · rename_i st' hs; exact ih st' (lr_step c s0 st' l h0 hs)
    · exact ih s0 h0

end Remoc.Link
