import RemocModel.Link.ForwardWire2
set_option linter.unusedSimpArgs false
set_option linter.unusedVariables false

namespace Remoc.Link

theorem wire_recv (v : Pairing) (ca cb : Cfg) (f f' : Fwd) (hw : WireInv f) (hc : FCore f) :
    (fstep v ca cb f .recvAny = some f' → WireInv f') ∧ (fstep v ca cb f .recvChunk = some f' → WireInv f') := by
  constructor
  · intro h
    simp only [fstep] at h
    split at h
    · rename_i hph
      have k1 : f.ph.curKind ≠ some 2 := by rw [hph]; simp [Phase.curKind]
      have d1 : f.ph = .done .errSend → False := by rw [hph]; simp
      split at h
      · rename_i a' ha
        unfold afterAny at h
        split at h
        · rename_i d _
          cases hs : step cb f.b (.startSend d) with
          | none => simp [hs] at h
          | some b' =>
            simp only [hs, Option.map_some, Option.some.injEq] at h; subst h
            obtain ⟨_, _, ⟨x, hx, hk⟩, _⟩ := startSend_spec cb f.b b' d hs
            exact wire_bstep cb f _ hw hc _ (by simp) hs rfl k1 (by simp [Phase.curKind]) (by simp [hx, hk])
              (fun he => absurd he (by rw [hph]; simp))
        · cases hs : step cb f.b .startChunks with
          | none => simp [hs] at h
          | some b' =>
            simp only [hs, Option.map_some, Option.some.injEq] at h; subst h
            obtain ⟨_, _, hcur, _⟩ := startChunks_spec cb f.b b' hs
            exact wire_bstep cb f _ hw hc _ (by simp) hs rfl k1 (by simp [Phase.curKind]) (by simp [hcur])
              (fun he => absurd he (by rw [hph]; simp))
        all_goals
          (obtain rfl := Option.some.inj h
           exact wire_same f _ hw rfl rfl (wireIds_phase f _ rfl k1 (by first | (simp [Phase.curKind]; done) | exact k1))
             (fun he => absurd he (by rw [hph]; simp)))
      · split at h
        · obtain rfl := Option.some.inj h
          exact wire_same f _ hw rfl rfl (wireIds_phase f _ rfl k1 (by simp [Phase.curKind]))
            (fun he => absurd he (by rw [hph]; simp))
        · simp at h
    · simp at h
  · intro h
    simp only [fstep] at h
    split at h
    · rename_i hph
      have k1 : f.ph.curKind ≠ some 2 := by rw [hph]; simp [Phase.curKind]
      split at h
      · rename_i a' ha
        unfold afterChunk at h
        split at h
        · rename_i d _
          cases hs : step cb f.b (.chunkSend d false) with
          | none => simp [hs] at h
          | some b' =>
            simp only [hs, Option.map_some, Option.some.injEq] at h; subst h
            obtain ⟨_, _, ⟨x, hx, hk⟩, _⟩ := chunkSend_spec cb f.b b' d false hs
            exact wire_bstep cb f _ hw hc _ (by simp) hs rfl k1 (by simp [Phase.curKind]) (by simp [hx, hk])
              (fun he => absurd he (by rw [hph]; simp))
        · cases hs : step cb f.b (.chunkSend [] true) with
          | none => simp [hs] at h
          | some b' =>
            simp only [hs, Option.map_some, Option.some.injEq] at h; subst h
            obtain ⟨_, _, ⟨x, hx, hk⟩, _⟩ := chunkSend_spec cb f.b b' [] true hs
            exact wire_bstep cb f _ hw hc _ (by simp) hs rfl k1 (by simp [Phase.curKind]) (by simp [hx, hk])
              (fun he => absurd he (by rw [hph]; simp))
        · cases hs : step cb f.b (.chunkSend [] true) with
          | none => simp [hs] at h
          | some b' =>
            simp only [hs, Option.map_some, Option.some.injEq] at h; subst h
            obtain ⟨_, _, ⟨x, hx, hk⟩, _⟩ := chunkSend_spec cb f.b b' [] true hs
            exact wire_bstep cb f _ hw hc _ (by simp) hs rfl k1 (by simp [Phase.curKind]) (by simp [hx, hk])
              (fun he => absurd he (by rw [hph]; simp))
        · cases hs : step cb f.b .cancel with
          | none => simp [hs] at h
          | some b' =>
            simp only [hs, Option.map_some, Option.some.injEq] at h; subst h
            obtain ⟨hcur, _⟩ := cancel_spec cb f.b b' hs
            exact wire_bstep cb f _ hw hc _ (by simp) hs rfl k1 (by simp [Phase.curKind]) (by simp [hcur])
              (fun he => absurd he (by rw [hph]; simp))
        · obtain rfl := Option.some.inj h
          exact wire_same f _ hw rfl rfl (wireIds_phase f _ rfl k1 (by rw [hph]; simp [Phase.curKind]))
            (fun he => absurd he (by rw [hph]; simp))
      · simp at h
    · simp at h

end Remoc.Link
