import RemocModel.Link.ForwardWire
set_option linter.unusedSimpArgs false
set_option linter.unusedVariables false

/-! `WireInv` is preserved by every step of the forwarder. -/

namespace Remoc.Link

theorem curRest_of_kind (st : State) (h : st.s.cur.map Xfer.kind ≠ some 2) : curRest st = [] := by
  unfold curRest
  cases hc : st.s.cur with
  | none => rfl
  | some x =>
    cases x with
    | bytes _ _ _ => rfl
    | portReqs r => rw [hc] at h; simp [Xfer.kind] at h

theorem wire_of_eq (f f' : Fwd) (hw : WireInv f)
    (h1 : portIds f'.b.emitted ++ curRest f'.b = portIds f.b.emitted ++ curRest f.b)
    (h2 : wireIds f' = wireIds f) (h3 : f.ph = .done .errSend → f'.ph = .done .errSend) : WireInv f' := by
  intro hp
  rw [h1, h2]
  exact hw (fun he => hp (h3 he))

/-- the phase contributes to `wireIds` only while a `connect` is in progress -/
theorem wireIds_phase (f f' : Fwd) (hb : f'.batches = f.batches) (h1 : f.ph.curKind ≠ some 2)
    (h2 : f'.ph.curKind ≠ some 2) : wireIds f' = wireIds f := by
  have e : ∀ p : Phase, p.curKind ≠ some 2 → p.connIds = [] := by
    intro p hp; cases p <;> simp_all [Phase.curKind, Phase.connIds]
  unfold wireIds
  rw [hb, e _ h1, e _ h2]

/-- a step of the downstream sender API other than `emit`, started and ended outside a port batch -/
theorem wire_bstep (cb : Cfg) (f f' : Fwd) (hw : WireInv f) (hc : FCore f) (l : Label) (hl : l ≠ .emit)
    (hs : step cb f.b l = some f'.b) (hbat : f'.batches = f.batches)
    (h1 : f.ph.curKind ≠ some 2) (h2 : f'.ph.curKind ≠ some 2) (hcur' : f'.b.s.cur.map Xfer.kind ≠ some 2)
    (h3 : f.ph = .done .errSend → f'.ph = .done .errSend) : WireInv f' := by
  refine wire_of_eq f f' hw ?_ (wireIds_phase f f' hbat h1 h2) h3
  rw [step_emitted cb f.b f'.b l hl hs, curRest_of_kind _ hcur', curRest_of_kind f.b (by rw [hc.cur]; exact h1)]

/-- steps that leave the downstream link, the batches and the phase class alone -/
theorem wire_same (f f' : Fwd) (hw : WireInv f) (hb : f'.b = f.b) (hbat : f'.batches = f.batches)
    (hph : wireIds f' = wireIds f) (h3 : f.ph = .done .errSend → f'.ph = .done .errSend) : WireInv f' :=
  wire_of_eq f f' hw (by rw [hb]) hph h3

end Remoc.Link
