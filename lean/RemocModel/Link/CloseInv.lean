import RemocModel.Link.Inv
import RemocModel.Link.ReceiverInv
set_option linter.unusedSimpArgs false

namespace Remoc.Link

/-- `SendFinish` is the last thing a sender emits, and end-of-stream is reported only for it. -/
structure FInv (st : State) : Prop where
  /-- once dropped the sender is idle for good -/
  idle : st.s.dropped = true → st.s.cur = none ∧ st.s.inMsg = false
  /-- nothing follows `finish` among the emitted frames -/
  last : ∀ pre post, st.emitted = pre ++ Frame.finish :: post → post = []
  /-- `finish` is emitted only by dropping the sender -/
  mem : Frame.finish ∈ st.emitted → st.s.dropped = true
  /-- end-of-stream is reported only after `finish` was consumed -/
  eos : (Out.eos ∈ st.outs ∨ st.r.finished = true) → Frame.finish ∈ st.consumed

theorem finv_init (c : Cfg) : FInv (init c) := by
  constructor <;> simp [init]

theorem emitFrame_not_finish (c : Cfg) (x : Xfer) (held : Nat) (first : Bool) :
    (emitFrame c x held first).1 ≠ .finish := by
  cases x with
  | bytes rest e fin => cases e <;> simp [emitFrame]
  | portReqs rest => simp [emitFrame]

theorem snoc_split_finish (l : List Frame) (f : Frame) (hf : f ≠ .finish) (pre post : List Frame)
    (h : l ++ [f] = pre ++ Frame.finish :: post) : ∃ post', post = post' ++ [f] ∧ l = pre ++ Frame.finish :: post' := by
  induction pre generalizing l with
  | nil =>
    cases l with
    | nil => simp at h; exact absurd h.1 hf
    | cons a as => simp at h; exact ⟨as, h.2.symm, by simp [h.1]⟩
  | cons p ps ih =>
    cases l with
    | nil => simp at h
    | cons a as =>
      simp at h
      obtain ⟨post', h1, h2⟩ := ih as h.2
      exact ⟨post', h1, by rw [h.1, h2]; rfl⟩

theorem split_snoc' {α} (l : List α) (x m : α) (pre post : List α) (h : l ++ [x] = pre ++ m :: post) :
    (post = [] ∧ m = x ∧ pre = l) ∨ (∃ post', post = post' ++ [x] ∧ l = pre ++ m :: post') := by
  induction pre generalizing l with
  | nil =>
    cases l with
    | nil => simp at h; left; exact ⟨h.2, h.1.symm, rfl⟩
    | cons a as =>
      simp at h
      right; exact ⟨as, h.2.symm, by simp [h.1]⟩
  | cons p ps ih =>
    cases l with
    | nil => simp at h
    | cons a as =>
      simp at h
      obtain ⟨h1, h2⟩ := h
      rcases ih as h2 with ⟨hp, hm, hpre⟩ | ⟨post', hp, hl⟩
      · left; exact ⟨hp, hm, by rw [h1, hpre]⟩
      · right; exact ⟨post', hp, by rw [h1, hl]; rfl⟩

theorem chunkFrame_eos (b : Bool) (f : Frame) (rec' : Option Receiving) (out : Option Out)
    (h : chunkFrame b f = .consume rec' out) (ho : out = some .eos) : f = .finish := by
  cases f with
  | finish => rfl
  | data p first last =>
    simp only [chunkFrame] at h
    (repeat' split at h) <;> simp_all
  | ports ids first last =>
    simp only [chunkFrame] at h
    (repeat' split at h) <;> simp_all

/-- the fields `FInv` talks about -/
def fview (st : State) : Bool × Option Xfer × Bool × List Frame × List Frame × List Out × Bool :=
  (st.s.dropped, st.s.cur, st.s.inMsg, st.emitted, st.consumed, st.outs, st.r.finished)

theorem finv_of_view (st st' : State) (hv : fview st' = fview st) (hi : FInv st) : FInv st' := by
  simp only [fview, Prod.mk.injEq] at hv
  obtain ⟨h1, h2, h3, h4, h5, h6, h7⟩ := hv
  obtain ⟨a, b, c, d⟩ := hi
  constructor
  · rw [h1, h2, h3]; exact a
  · rw [h4]; exact b
  · rw [h4, h1]; exact c
  · rw [h5, h6, h7]; exact d

theorem recvAnyStep_eos (c : Cfg) (r r' : Receiver) (bk : List Back) (f : Frame) (out : Option Out)
    (h : recvAnyStep c r = some (r', bk, f, out)) :
    (out = some .eos → f = .finish) ∧ (r'.finished = true → f = .finish) := by
  obtain ⟨_, _, hout, hfin, _, _⟩ := recvAnyStep_sem c _ _ _ _ _ h
  constructor
  · intro ho
    rw [hout] at ho
    cases f with
    | finish => rfl
    | data p first last =>
      simp only [anyFrame] at ho
      (repeat' split at ho) <;> simp at ho
    | ports ids first last =>
      simp only [anyFrame] at ho
      (repeat' split at ho) <;> simp at ho
  · intro hf; rw [hfin] at hf
    cases f <;> simp_all [Frame.isFinish]

theorem recvChunkStep_eos (c : Cfg) (r r' : Receiver) (bk : List Back) (f : Option Frame) (out : Option Out)
    (h : recvChunkStep c r = some (r', bk, f, out)) (hnf : r.finished = false) :
    (out = some .eos → f = some .finish) ∧ (r'.finished = true → f = some .finish) := by
  unfold recvChunkStep at h
  rw [if_neg (by simp [hnf])] at h
  split at h
  · simp only [Option.some.injEq, Prod.mk.injEq] at h
    obtain ⟨rfl, rfl, rfl, rfl⟩ := h
    simp [hnf]
  · simp only [Option.some.injEq, Prod.mk.injEq] at h
    obtain ⟨rfl, rfl, rfl, rfl⟩ := h
    simp [hnf]
  · split at h
    · simp at h
    · rename_i f0 r0 hn
      have hq := nextMsg_spec r f0 r0 hn
      split at h
      · simp only [Option.some.injEq, Prod.mk.injEq] at h
        obtain ⟨rfl, rfl, rfl, rfl⟩ := h
        simp [hnf]
      · rename_i rec' out' hcf
        simp only [Option.some.injEq, Prod.mk.injEq] at h
        obtain ⟨rfl, rfl, rfl, rfl⟩ := h
        refine ⟨fun ho => ?_, fun hf => ?_⟩
        · rw [chunkFrame_eos _ f0 rec' out' hcf ho]
        · simp only [] at hf
          cases f0 <;> simp_all [Frame.isFinish]

theorem finv_step (c : Cfg) (st st' : State) (l : Label) (hi : FInv st) (h : step c st l = some st') :
    FInv st' := by
  cases l with
  | startSend d =>
    obtain ⟨a, b, cc, d'⟩ := hi
    simp only [step] at h
    split at h
    · rename_i hg
      obtain rfl := Option.some.inj h
      exact ⟨fun hd => by simp at hd; simp [hd] at hg, b, cc, d'⟩
    · simp at h
  | startChunks =>
    obtain ⟨a, b, cc, d'⟩ := hi
    simp only [step] at h
    split at h
    · rename_i hg
      obtain rfl := Option.some.inj h
      exact ⟨fun hd => by simp at hd; simp [hd] at hg, b, cc, d'⟩
    · simp at h
  | chunkSend d fin =>
    obtain ⟨a, b, cc, d'⟩ := hi
    simp only [step] at h
    split at h
    · rename_i hg
      obtain rfl := Option.some.inj h
      refine ⟨fun hd => ?_, b, cc, d'⟩
      simp at hd
      have := (a hd).2
      simp [this] at hg
    · simp at h
  | startConnect ids =>
    obtain ⟨a, b, cc, d'⟩ := hi
    simp only [step] at h
    split at h
    · rename_i hg
      obtain rfl := Option.some.inj h
      exact ⟨fun hd => by simp at hd; simp [hd] at hg, b, cc, d'⟩
    · simp at h
  | cancel =>
    obtain ⟨a, b, cc, d'⟩ := hi
    simp only [step] at h
    split at h
    · obtain rfl := Option.some.inj h
      exact ⟨fun _ => ⟨rfl, rfl⟩, b, cc, d'⟩
    · simp at h
  | dropSender =>
    obtain ⟨a, b, cc, d'⟩ := hi
    simp only [step] at h
    split at h
    · rename_i hg
      obtain rfl := Option.some.inj h
      have hnd : st.s.dropped = false := by simpa using hg.2.2
      have hnofin : Frame.finish ∉ st.emitted := fun hm => by rw [cc hm] at hnd; simp at hnd
      refine ⟨fun _ => ⟨by simpa using hg.1, by simpa using hg.2.1⟩, ?_, fun _ => rfl, d'⟩
      intro pre post hsp
      simp only [] at hsp
      rcases split_snoc' _ _ _ _ _ hsp with ⟨hp, _, _⟩ | ⟨post', _, hl⟩
      · exact hp
      · exact absurd (by rw [hl]; simp) hnofin
    · simp at h
  | emit =>
    obtain ⟨a, b, cc, d'⟩ := hi
    simp only [step] at h
    split at h
    · simp at h
    · rename_i x hx
      split at h
      · have hnf := emitFrame_not_finish c x st.s.held st.s.first
        have hnd : st.s.dropped = false := by
          cases hd : st.s.dropped with
          | false => rfl
          | true => have := (a hd).1; rw [hx] at this; simp at this
        have hnofin : Frame.finish ∉ st.emitted := fun hm => by rw [cc hm] at hnd; simp at hnd
        generalize (emitFrame c x st.s.held st.s.first).1 = f at h hnf
        generalize (emitFrame c x st.s.held st.s.first).2 = x' at h
        have hlast : ∀ pre post, st.emitted ++ [f] = pre ++ Frame.finish :: post → post = [] := by
          intro pre post hsp
          obtain ⟨post', _, hl⟩ := snoc_split_finish _ f hnf pre post hsp
          exact absurd (by rw [hl]; simp) hnofin
        have hmem : Frame.finish ∈ st.emitted ++ [f] → False := by
          intro hm
          rcases List.mem_append.mp hm with h1 | h1
          · exact hnofin h1
          · simp at h1; exact hnf h1.symm
        (repeat' split at h) <;>
          (obtain rfl := Option.some.inj h
           refine ⟨fun hd => by simp only [] at hd; rw [hnd] at hd; simp at hd, hlast, fun hm => absurd hm hmem, d'⟩)
      · simp at h
  | recvAny =>
    obtain ⟨a, b, cc, d'⟩ := hi
    obtain ⟨_, r, bk, f, out, hs, e1, e2, _, _⟩ := step_recvAny_view c st st' h
    have hst : st'.s = st.s ∧ st'.emitted = st.emitted ∧ st'.outs = st.outs ++ out.toList := by
      simp only [step] at h
      (repeat' split at h) <;> first
        | (simp at h; done)
        | (obtain rfl := Option.some.inj h; simp_all)
    obtain ⟨h1, h2, h3⟩ := hst
    have he := recvAnyStep_eos c _ _ _ _ _ hs
    refine ⟨by rw [h1]; exact a, by rw [h2]; exact b, by rw [h2, h1]; exact cc, ?_⟩
    intro hor
    rw [e2]
    rcases hor with ho | hf
    · rw [h3] at ho
      rcases List.mem_append.mp ho with ho | ho
      · exact List.mem_append_left _ (d' (Or.inl ho))
      · cases out with
        | none => simp at ho
        | some o =>
          simp at ho; subst ho
          rw [he.1 rfl]; simp
    · rw [e1] at hf
      rw [he.2 hf]; simp
  | recvChunk =>
    obtain ⟨a, b, cc, d'⟩ := hi
    obtain ⟨acc, hp, r, bk, f, out, hs, e1, e2, _, _⟩ := step_recvChunk_view c st st' h
    have hst : st'.s = st.s ∧ st'.emitted = st.emitted ∧ st'.outs = st.outs ++ out.toList := by
      simp only [step] at h
      (repeat' split at h) <;> first
        | (simp at h; done)
        | (obtain rfl := Option.some.inj h; simp_all)
    obtain ⟨h1, h2, h3⟩ := hst
    refine ⟨by rw [h1]; exact a, by rw [h2]; exact b, by rw [h2, h1]; exact cc, ?_⟩
    intro hor
    rw [e2]
    by_cases hfin : st.r.finished = true
    · exact List.mem_append_left _ (d' (Or.inr hfin))
    · have hnf : st.r.finished = false := by simpa using hfin
      have he := recvChunkStep_eos c _ _ _ _ _ hs hnf
      rcases hor with ho | hf
      · rw [h3] at ho
        rcases List.mem_append.mp ho with ho | ho
        · exact List.mem_append_left _ (d' (Or.inl ho))
        · cases out with
          | none => simp at ho
          | some o =>
            simp at ho; subst ho
            rw [he.1 rfl]; simp
      · rw [e1] at hf
        rw [he.2 hf]; simp
  | giveBack =>
    simp only [step] at h
    split at h
    · split at h
      · obtain rfl := Option.some.inj h; exact finv_of_view _ _ (by simp [fview]) hi
      · simp at h
    · simp at h
  | request =>
    simp only [step] at h
    split at h
    · simp at h
    · try simp only [] at h
      split at h
      · obtain rfl := Option.some.inj h; exact finv_of_view _ _ (by simp [fview]) hi
      · simp at h
  | fail =>
    obtain ⟨a, b, cc, d'⟩ := hi
    simp only [step] at h
    split at h
    · simp at h
    · split at h
      · obtain rfl := Option.some.inj h
        exact ⟨fun _ => ⟨rfl, rfl⟩, b, cc, d'⟩
      · simp at h
  | provide =>
    simp only [step] at h
    split at h
    · simp at h
    · split at h <;> (obtain rfl := Option.some.inj h; exact finv_of_view _ _ (by simp [fview]) hi)
  | muxRecv =>
    simp only [step] at h
    split at h
    · simp at h
    · split at h
      · obtain rfl := Option.some.inj h; exact finv_of_view _ _ (by simp [fview]) hi
      · split at h <;> (obtain rfl := Option.some.inj h; exact finv_of_view _ _ (by simp [fview]) hi)
  | close =>
    simp only [step] at h
    split at h
    · obtain rfl := Option.some.inj h; exact finv_of_view _ _ (by simp [fview]) hi
    · simp at h
  | dropReceiver =>
    simp only [step] at h
    split at h
    · obtain rfl := Option.some.inj h; exact finv_of_view _ _ (by simp [fview]) hi
    · simp at h

theorem finv_run (c : Cfg) (st : State) (ls : List Label) (h : FInv st) : FInv (run c st ls) := by
  induction ls generalizing st with
  | nil => exact h
  | cons l ls ih =>
    simp only [run]; split
    · rename_i st' hs; exact ih st' (finv_step c st st' l h hs)
    · exact ih st h

end Remoc.Link
