import RemocModel.Link.ForwardPorts
set_option linter.unusedSimpArgs false
set_option linter.unusedVariables false

/-! `FPortInv` label by label (1): the labels that do not touch the port bookkeeping. -/

namespace Remoc.Link

theorem batchOk_mono (v : Pairing) (al al' : List Nat) (B : Batch) (h : BatchOk v al B)
    (hsub : ∀ p, p ∈ al → p ∈ al') : BatchOk v al' B :=
  ⟨h.ids, h.nodup, h.pairs, fun p hp => hsub _ (h.fresh p hp)⟩

theorem pairFrom_ok (k : Nat) (ids : List Nat) (ports : List PReq) : ∀ t ∈ pairFrom k ids ports, TaskOk t := by
  induction ids generalizing k ports with
  | nil => intro t ht; simp [pairFrom] at ht
  | cons i is ih =>
    cases ports with
    | nil => intro t ht; simp [pairFrom] at ht
    | cons p ps =>
      intro t ht
      simp only [pairFrom, List.mem_cons] at ht
      rcases ht with rfl | ht
      · simp [TaskOk]
      · exact ih (k + 1) ps t ht

theorem fport_env (v : Pairing) (ca cb : Cfg) (f f' : Fwd) (hi : FPortInv v f) :
    (∀ l, fstep v ca cb f (.up l) = some f' → FPortInv v f') ∧
    (∀ l, fstep v ca cb f (.down l) = some f' → FPortInv v f') := by
  constructor
  · intro l h
    simp only [fstep] at h
    split at h
    · cases hs : step ca f.a l with
      | none => simp [hs] at h
      | some a' =>
        simp only [hs, Option.map_some, Option.some.injEq] at h; subst h
        exact fport_same v f _ hi rfl rfl rfl rfl
    · simp at h
  · intro l h
    simp only [fstep] at h
    split at h
    · cases hs : step cb f.b l with
      | none => simp [hs] at h
      | some b' =>
        simp only [hs, Option.map_some, Option.some.injEq] at h; subst h
        exact fport_same v f _ hi rfl rfl rfl rfl
    · simp at h

theorem fport_recvAny (v : Pairing) (ca cb : Cfg) (f f' : Fwd) (hi : FPortInv v f)
    (h : fstep v ca cb f .recvAny = some f') : FPortInv v f' := by
  simp only [fstep] at h
  split at h
  · rename_i hph
    split at h
    · rename_i a' ha
      unfold afterAny at h
      split at h
      · rename_i d _
        cases hs : step cb f.b (.startSend d) with
        | none => simp [hs] at h
        | some b' =>
          simp only [hs, Option.map_some, Option.some.injEq] at h; subst h
          exact fport_plain v f _ hi rfl rfl rfl rfl
      · cases hs : step cb f.b .startChunks with
        | none => simp [hs] at h
        | some b' =>
          simp only [hs, Option.map_some, Option.some.injEq] at h; subst h
          exact fport_plain v f _ hi rfl rfl rfl rfl
      · rename_i ids _
        obtain rfl := Option.some.inj h
        obtain ⟨i1, i2, i3, i4, i5, i6, i7⟩ := hi
        refine ⟨?_, ?_, ?_, i4, i5, i6, i7⟩
        · intro ids' ports' hp
          simp only [Phase.alloc.injEq] at hp
          obtain ⟨_, rfl⟩ := hp
          simp
        · intro ids' ports' hp; simp at hp
        · intro ids' ports' hp
          simp only [Phase.alloc.injEq, reduceCtorEq, or_false] at hp
          obtain ⟨_, rfl⟩ := hp
          simp
      · obtain rfl := Option.some.inj h
        exact fport_plain v f _ hi rfl rfl rfl rfl
      · obtain rfl := Option.some.inj h
        exact fport_plain v f _ hi rfl rfl rfl rfl
      · obtain rfl := Option.some.inj h
        exact fport_plain v f _ hi (by simp only [hph]; rfl) rfl rfl rfl
    · split at h
      · obtain rfl := Option.some.inj h
        exact fport_plain v f _ hi rfl rfl rfl rfl
      · simp at h
  · simp at h

theorem fport_recvChunk (v : Pairing) (ca cb : Cfg) (f f' : Fwd) (hi : FPortInv v f)
    (h : fstep v ca cb f .recvChunk = some f') : FPortInv v f' := by
  simp only [fstep] at h
  split at h
  · rename_i hph
    split at h
    · rename_i a' ha
      unfold afterChunk at h
      split at h
      · rename_i d _
        cases hs : step cb f.b (.chunkSend d false) with
        | none => simp [hs] at h
        | some b' =>
          simp only [hs, Option.map_some, Option.some.injEq] at h; subst h
          exact fport_plain v f _ hi rfl rfl rfl rfl
      · cases hs : step cb f.b (.chunkSend [] true) with
        | none => simp [hs] at h
        | some b' =>
          simp only [hs, Option.map_some, Option.some.injEq] at h; subst h
          exact fport_plain v f _ hi rfl rfl rfl rfl
      · cases hs : step cb f.b (.chunkSend [] true) with
        | none => simp [hs] at h
        | some b' =>
          simp only [hs, Option.map_some, Option.some.injEq] at h; subst h
          exact fport_plain v f _ hi rfl rfl rfl rfl
      · cases hs : step cb f.b .cancel with
        | none => simp [hs] at h
        | some b' =>
          simp only [hs, Option.map_some, Option.some.injEq] at h; subst h
          exact fport_plain v f _ hi rfl rfl rfl rfl
      · obtain rfl := Option.some.inj h
        exact fport_plain v f _ hi (by simp only [hph]; rfl) rfl rfl rfl
    · simp at h
  · simp at h

end Remoc.Link
