import RemocModel.Link.ForwardReach
set_option linter.unusedSimpArgs false
set_option linter.unusedVariables false

/-!
# Forwarding of port requests (`Received::Requests`)

Invariant `FPortInv`: the port requests the forwarder builds carry the ids of the received requests in their
order, on pairwise distinct fresh ports; every recorded batch was paired by `pairUp`; the spawned tasks are
exactly those pairs (their static part never changes) and each task acts on the answer of its *own* connect.
-/

namespace Remoc.Link

/-- the static part of a task: which request it owns and which connect it awaits -/
def PairTask.key (t : PairTask) : Nat × Nat × PReq := (t.upIdx, t.upId, t.out)

/-- a task accepts / rejects its request according to the answer its connect got -/
def TaskOk (t : PairTask) : Prop :=
  match t.st with
  | .waiting => t.resp = none
  | .accepting | .piped | .acceptFailed => t.resp = some .accepted
  | .rejected np => t.resp = some (.failed np)

structure BatchOk (v : Pairing) (allocated : List Nat) (B : Batch) : Prop where
  ids : B.ports.map (·.id) = B.ids
  nodup : (B.ports.map (·.port)).Nodup
  pairs : B.pairs = pairUp v B.ids B.ports
  fresh : ∀ p ∈ B.ports, p.port ∈ allocated

structure FPortInv (v : Pairing) (f : Fwd) : Prop where
  allocIds : ∀ ids ports, f.ph = .alloc ids ports → ports.map (·.id) = ids.take ports.length
  connIds : ∀ ids ports, f.ph = .connect ids ports → ports.map (·.id) = ids
  curPorts : ∀ ids ports, (f.ph = .alloc ids ports ∨ f.ph = .connect ids ports) →
    (ports.map (·.port)).Nodup ∧ ∀ p ∈ ports, p.port ∈ f.allocated
  allocNodup : f.allocated.Nodup
  batches : ∀ B ∈ f.batches, BatchOk v f.allocated B
  tasksKeys : f.tasks.map PairTask.key = (f.batches.flatMap (·.pairs)).map PairTask.key
  tasksOk : ∀ t ∈ f.tasks, TaskOk t

theorem fport_init (v : Pairing) (ca cb : Cfg) : FPortInv v (finit ca cb) := by
  constructor <;> simp [finit]

def Phase.isPorts : Phase → Bool
  | .alloc _ _ | .connect _ _ => true
  | _ => false

/-- steps that touch neither the port bookkeeping nor end in a port phase -/
theorem fport_plain (v : Pairing) (f f' : Fwd) (hi : FPortInv v f) (hph : f'.ph.isPorts = false)
    (ht : f'.tasks = f.tasks) (hb : f'.batches = f.batches) (hal : f'.allocated = f.allocated) :
    FPortInv v f' := by
  obtain ⟨i1, i2, i3, i4, i5, i6, i7⟩ := hi
  refine ⟨?_, ?_, ?_, by rw [hal]; exact i4, by rw [hb, hal]; exact i5, by rw [ht, hb]; exact i6,
    by rw [ht]; exact i7⟩
  · intro ids ports hp; rw [hp] at hph; simp [Phase.isPorts] at hph
  · intro ids ports hp; rw [hp] at hph; simp [Phase.isPorts] at hph
  · intro ids ports hp; rcases hp with hp | hp <;> (rw [hp] at hph; simp [Phase.isPorts] at hph)

/-- steps that leave phase and port bookkeeping alone -/
theorem fport_same (v : Pairing) (f f' : Fwd) (hi : FPortInv v f) (hph : f'.ph = f.ph)
    (ht : f'.tasks = f.tasks) (hb : f'.batches = f.batches) (hal : f'.allocated = f.allocated) :
    FPortInv v f' := by
  obtain ⟨i1, i2, i3, i4, i5, i6, i7⟩ := hi
  exact ⟨by rw [hph]; exact i1, by rw [hph]; exact i2, by rw [hph, hal]; exact i3, by rw [hal]; exact i4,
    by rw [hb, hal]; exact i5, by rw [ht, hb]; exact i6, by rw [ht]; exact i7⟩

/-- replacing a task by one with the same static part -/
theorem map_key_set (l : List PairTask) (j : Nat) (t t' : PairTask) (hj : l[j]? = some t)
    (hk : t'.key = t.key) : (l.set j t').map PairTask.key = l.map PairTask.key := by
  induction l generalizing j with
  | nil => simp
  | cons x xs ih =>
    cases j with
    | zero =>
      simp only [List.getElem?_cons_zero, Option.some.injEq] at hj
      subst hj
      simp [hk]
    | succ n =>
      simp only [List.getElem?_cons_succ] at hj
      simp [ih n hj]

theorem taskResp_ok (t t' : PairTask) (r : ConnRes) (h : taskResp t r = some t') (ho : TaskOk t) :
    t'.key = t.key ∧ TaskOk t' := by
  unfold taskResp at h
  split at h
  · obtain rfl := Option.some.inj h
    refine ⟨rfl, ?_⟩
    cases r <;> simp [TaskOk]
  · simp at h

theorem taskAccept_ok (t t' : PairTask) (ok : Bool) (h : taskAccept t ok = some t') (ho : TaskOk t) :
    t'.key = t.key ∧ TaskOk t' := by
  unfold taskAccept at h
  split at h
  · rename_i hst
    obtain rfl := Option.some.inj h
    refine ⟨rfl, ?_⟩
    simp only [TaskOk, hst] at ho
    cases ok <;> simp [TaskOk, ho]
  · simp at h

end Remoc.Link
