import RemocModel.Link.ForwardStep
import RemocModel.Link.Relay
set_option linter.unusedSimpArgs false
set_option linter.unusedVariables false

/-!
Every forwarder step is made of at most one M_link step on each link, so both links of a reachable
forwarder state are reachable states of M_link and all theorems of C01/C02/C03/C11 apply to them.
-/

namespace Remoc.Link

/-- one M_link step or none -/
def StepOrSame (c : Cfg) (st st' : State) : Prop := st' = st ∨ ∃ l, step c st l = some st'

theorem fstep_links (v : Pairing) (ca cb : Cfg) (f f' : Fwd) (l : FLabel) (h : fstep v ca cb f l = some f') :
    StepOrSame ca f.a f'.a ∧ StepOrSame cb f.b f'.b := by
  cases l with
  | up l =>
    simp only [fstep] at h
    split at h
    · cases hs : step ca f.a l with
      | none => simp [hs] at h
      | some a' =>
        simp only [hs, Option.map_some, Option.some.injEq] at h; subst h
        exact ⟨Or.inr ⟨l, hs⟩, Or.inl rfl⟩
    · simp at h
  | down l =>
    simp only [fstep] at h
    split at h
    · cases hs : step cb f.b l with
      | none => simp [hs] at h
      | some b' =>
        simp only [hs, Option.map_some, Option.some.injEq] at h; subst h
        exact ⟨Or.inl rfl, Or.inr ⟨l, hs⟩⟩
    · simp at h
  | recvAny =>
    simp only [fstep] at h
    split at h
    · split at h
      · rename_i a' ha
        have hA : StepOrSame ca f.a a' := Or.inr ⟨_, ha⟩
        unfold afterAny at h
        split at h
        · rename_i d _
          cases hs : step cb f.b (.startSend d) with
          | none => simp [hs] at h
          | some b' =>
            simp only [hs, Option.map_some, Option.some.injEq] at h; subst h
            exact ⟨hA, Or.inr ⟨_, hs⟩⟩
        · cases hs : step cb f.b .startChunks with
          | none => simp [hs] at h
          | some b' =>
            simp only [hs, Option.map_some, Option.some.injEq] at h; subst h
            exact ⟨hA, Or.inr ⟨_, hs⟩⟩
        all_goals (obtain rfl := Option.some.inj h; exact ⟨hA, Or.inl rfl⟩)
      · split at h
        · obtain rfl := Option.some.inj h; exact ⟨Or.inl rfl, Or.inl rfl⟩
        · simp at h
    · simp at h
  | recvChunk =>
    simp only [fstep] at h
    split at h
    · split at h
      · rename_i a' ha
        have hA : StepOrSame ca f.a a' := Or.inr ⟨_, ha⟩
        unfold afterChunk at h
        split at h
        · rename_i d _
          cases hs : step cb f.b (.chunkSend d false) with
          | none => simp [hs] at h
          | some b' =>
            simp only [hs, Option.map_some, Option.some.injEq] at h; subst h
            exact ⟨hA, Or.inr ⟨_, hs⟩⟩
        · cases hs : step cb f.b (.chunkSend [] true) with
          | none => simp [hs] at h
          | some b' =>
            simp only [hs, Option.map_some, Option.some.injEq] at h; subst h
            exact ⟨hA, Or.inr ⟨_, hs⟩⟩
        · cases hs : step cb f.b (.chunkSend [] true) with
          | none => simp [hs] at h
          | some b' =>
            simp only [hs, Option.map_some, Option.some.injEq] at h; subst h
            exact ⟨hA, Or.inr ⟨_, hs⟩⟩
        · cases hs : step cb f.b .cancel with
          | none => simp [hs] at h
          | some b' =>
            simp only [hs, Option.map_some, Option.some.injEq] at h; subst h
            exact ⟨hA, Or.inr ⟨_, hs⟩⟩
        · obtain rfl := Option.some.inj h; exact ⟨hA, Or.inl rfl⟩
      · simp at h
    · simp at h
  | emit =>
    simp only [fstep] at h
    split at h
    · rename_i b' hb
      have hB : StepOrSame cb f.b b' := Or.inr ⟨_, hb⟩
      split at h
      · obtain rfl := Option.some.inj h; exact ⟨Or.inl rfl, hB⟩
      · unfold afterOp at h
        split at h <;> first
          | (simp at h; done)
          | (obtain rfl := Option.some.inj h; exact ⟨Or.inl rfl, hB⟩)
    · simp at h
  | fail =>
    simp only [fstep] at h
    cases hs : step cb f.b .fail with
    | none => simp [hs] at h
    | some b' =>
      simp only [hs, Option.map_some, Option.some.injEq] at h; subst h
      exact ⟨Or.inl rfl, Or.inr ⟨_, hs⟩⟩
  | alloc p =>
    simp only [fstep] at h
    (repeat' split at h) <;> first
      | (simp at h; done)
      | (obtain rfl := Option.some.inj h; exact ⟨Or.inl rfl, Or.inl rfl⟩)
  | connect =>
    simp only [fstep] at h
    split at h
    · rename_i ids ports _
      split at h
      · simp at h
      · split at h
        · obtain rfl := Option.some.inj h; exact ⟨Or.inl rfl, Or.inl rfl⟩
        · cases hs : step cb f.b (.startConnect (ports.map (·.id))) with
          | none => simp [hs] at h
          | some b' =>
            simp only [hs, Option.map_some, Option.some.injEq] at h; subst h
            exact ⟨Or.inl rfl, Or.inr ⟨_, hs⟩⟩
    · simp at h
  | closedEvt =>
    simp only [fstep] at h
    split at h
    · split at h
      · obtain rfl := Option.some.inj h
        cases hs : step ca f.a .close with
        | none => exact ⟨Or.inl (by simp [hs]), Or.inl rfl⟩
        | some a' => exact ⟨Or.inr ⟨_, by simpa using hs⟩, Or.inl rfl⟩
      · simp at h
    · simp at h
  | upLost =>
    simp only [fstep] at h
    split at h
    · obtain rfl := Option.some.inj h; exact ⟨Or.inl rfl, Or.inl rfl⟩
    · cases hs : step cb f.b .cancel with
      | none => simp [hs] at h
      | some b' =>
        simp only [hs, Option.map_some, Option.some.injEq] at h; subst h
        exact ⟨Or.inl rfl, Or.inr ⟨_, hs⟩⟩
    · simp at h
  | downLost =>
    simp only [fstep] at h
    split at h
    all_goals first
      | (simp at h; done)
      | (cases hs : step cb f.b .cancel with
         | none => simp [hs] at h
         | some b' =>
           simp only [hs, Option.map_some, Option.some.injEq] at h; subst h
           exact ⟨Or.inl rfl, Or.inr ⟨_, hs⟩⟩)
  | dropRx =>
    simp only [fstep] at h
    split at h
    · cases hs : step ca f.a .dropReceiver with
      | none => simp [hs] at h
      | some a' =>
        simp only [hs, Option.map_some, Option.some.injEq] at h; subst h
        exact ⟨Or.inr ⟨_, hs⟩, Or.inl rfl⟩
    · simp at h
  | dropTx =>
    simp only [fstep] at h
    split at h
    · cases hs : step cb f.b .dropSender with
      | none => simp [hs] at h
      | some b' =>
        simp only [hs, Option.map_some, Option.some.injEq] at h; subst h
        exact ⟨Or.inl rfl, Or.inr ⟨_, hs⟩⟩
    · simp at h
  | connResp j r =>
    simp only [fstep] at h
    split at h
    · rename_i t _
      cases ht : taskResp t r with
      | none => simp [ht] at h
      | some t' =>
        simp only [ht, Option.map_some, Option.some.injEq] at h; subst h
        exact ⟨Or.inl rfl, Or.inl rfl⟩
    · simp at h
  | acceptDone j ok =>
    simp only [fstep] at h
    split at h
    · rename_i t _
      cases ht : taskAccept t ok with
      | none => simp [ht] at h
      | some t' =>
        simp only [ht, Option.map_some, Option.some.injEq] at h; subst h
        exact ⟨Or.inl rfl, Or.inl rfl⟩
    · simp at h

theorem rinv_reachable (c : Cfg) (st : State) (h : Reachable c st) : RInv st := by
  obtain ⟨ls, rfl⟩ := h
  exact rinv_run c _ ls (rinv_init c)

theorem stepOrSame_reachable (c : Cfg) (st st' : State) (h : Reachable c st) (hs : StepOrSame c st st') :
    Reachable c st' := by
  rcases hs with rfl | ⟨l, hl⟩
  · exact h
  · exact reachable_step c st st' l h hl

/-- core invariant together with reachability of both links -/
structure FJoint (ca cb : Cfg) (f : Fwd) : Prop where
  core : FCore f
  ra : Reachable ca f.a
  rb : Reachable cb f.b

theorem fjoint_init (ca cb : Cfg) : FJoint ca cb (finit ca cb) :=
  ⟨fcore_init ca cb, ⟨[], rfl⟩, ⟨[], rfl⟩⟩

theorem fjoint_step (v : Pairing) (ca cb : Cfg) (f f' : Fwd) (l : FLabel) (hj : FJoint ca cb f)
    (h : fstep v ca cb f l = some f') : FJoint ca cb f' := by
  obtain ⟨hA, hB⟩ := fstep_links v ca cb f f' l h
  exact ⟨fcore_step v ca cb f f' l hj.core (rinv_reachable ca f.a hj.ra) h,
    stepOrSame_reachable ca _ _ hj.ra hA, stepOrSame_reachable cb _ _ hj.rb hB⟩

/-- induction principle: a predicate that holds initially and is preserved by every step from a state
satisfying `FJoint` holds in every reachable state -/
theorem freachable_induction (v : Pairing) (ca cb : Cfg) (P : Fwd → Prop) (h0 : P (finit ca cb))
    (hstep : ∀ f f' l, FJoint ca cb f → P f → fstep v ca cb f l = some f' → P f')
    (f : Fwd) (h : FReachable v ca cb f) : P f ∧ FJoint ca cb f := by
  obtain ⟨ls, rfl⟩ := h
  suffices ∀ f0, P f0 → FJoint ca cb f0 → P (frun v ca cb f0 ls) ∧ FJoint ca cb (frun v ca cb f0 ls) from
    this _ h0 (fjoint_init ca cb)
  induction ls with
  | nil => intro f0 hp hj; exact ⟨hp, hj⟩
  | cons l ls ih =>
    intro f0 hp hj
    simp only [frun]
    split
    · rename_i f1 hs
      exact ih f1 (hstep f0 f1 l hj hp hs) (fjoint_step v ca cb f0 f1 l hj hs)
    · exact ih f0 hp hj

theorem fjoint_reachable (v : Pairing) (ca cb : Cfg) (f : Fwd) (h : FReachable v ca cb f) : FJoint ca cb f :=
  (freachable_induction v ca cb (fun _ => True) trivial (fun _ _ _ _ _ _ => trivial) f h).2

end Remoc.Link
