import RemocModel.Props.C01

/-!
# A port forwarder between two links (`chmux::forward` at message granularity)

`Receiver::forward` (used by forwarded `rch::bin` channels) receives on one port and sends what it
received on another.  Model: two independent M_link instances `a` (origin → relay) and `b`
(relay → destination) and a relay that

* is the receiving caller of `a` (its `recvAny`/`recvChunk` steps are ordinary `a`-steps),
* is the *only* user of `b`'s sender API: it starts a whole-message send of the next message it
  obtained from `a` (`relayStart`), and once a send failed or was abandoned it stops for good
  (`forward` returns the error and the forwarding task drops both ports).

Everything else — dispatchers, transports, the origin's sender, the destination's receiver, closes and
drops on both links — is an arbitrary interleaving of the two links' own labels.

Theorem `relay_exact`: whatever the schedule, what the destination obtained is a prefix of the sends
completed at the origin (exactly-once, in order, byte-exact across the forwarder), and
`relay_forwarded_prefix`: what the relay completed sending is a prefix of what it received.
-/

namespace Remoc.Link

/-- labels of `b` the environment may take: everything except the sender API, which belongs to the relay -/
def Label.notSenderApi : Label → Bool
  | .startSend _ | .startChunks | .chunkSend _ _ | .startConnect _ | .cancel | .dropSender => false
  | _ => true

structure Relay where
  a : State
  b : State
  /-- number of messages of `a.delivered` handed to `b`'s sender so far -/
  fwd : Nat := 0
  /-- a send failed or was abandoned: the forwarder has returned -/
  stopped : Bool := false
deriving Repr

inductive RLabel where
  | up (l : Label)          -- any step of the upstream link
  | down (l : Label)        -- a step of the downstream link that is not a call of its sender API
  | relayStart              -- `tx.send(next received message)` begins
  | relayAbort              -- the forwarding task is dropped with a send in progress
  | relayEnd                -- upstream ended: the forwarder returns and drops its sender

def rstep (ca cb : Cfg) (r : Relay) : RLabel → Option Relay
  | .up l => (step ca r.a l).map (fun a' => { r with a := a' })
  | .down l =>
    if l.notSenderApi then
      (step cb r.b l).map (fun b' =>
        -- a send that fails makes `forward` return
        { r with b := b', stopped := r.stopped || (l == .fail) })
    else none
  | .relayStart =>
    if r.stopped then none else
    match r.a.delivered[r.fwd]? with
    | none => none
    | some m => (step cb r.b (.startSend m)).map (fun b' => { r with b := b', fwd := r.fwd + 1 })
  | .relayAbort => (step cb r.b .cancel).map (fun b' => { r with b := b', stopped := true })
  | .relayEnd => (step cb r.b .dropSender).map (fun b' => { r with b := b', stopped := true })

def rrun (ca cb : Cfg) (r : Relay) : List RLabel → Relay
  | [] => r
  | l :: ls => match rstep ca cb r l with
    | some r' => rrun ca cb r' ls
    | none => rrun ca cb r ls

def rinit (ca cb : Cfg) : Relay := { a := init ca, b := init cb }

def RReachable (ca cb : Cfg) (r : Relay) : Prop := ∃ ls, rrun ca cb (rinit ca cb) ls = r

/-! ### facts about single links -/

theorem reachable_step (c : Cfg) (st st' : State) (l : Label) (h : Reachable c st)
    (hs : step c st l = some st') : Reachable c st' := by
  obtain ⟨ls, rfl⟩ := h
  refine ⟨ls ++ [l], ?_⟩
  have : ∀ (s0 : State) (l1 : List Label), run c s0 (l1 ++ [l]) =
      (match step c (run c s0 l1) l with | some s => s | none => run c s0 l1) := by
    intro s0 l1
    induction l1 generalizing s0 with
    | nil => simp only [List.nil_append, run]; split <;> simp_all
    | cons a as ih => simp only [List.cons_append, run]; split <;> exact ih _
  rw [this, hs]

/-- what a caller obtained only grows -/
theorem delivered_mono (c : Cfg) (st st' : State) (l : Label) (h : step c st l = some st') :
    ∃ ext, st'.delivered = st.delivered ++ ext := by
  cases l <;> simp only [step] at h
  case recvAny =>
    split at h
    · simp at h
    · split at h
      · simp at h
      · split at h <;> (obtain rfl := Option.some.inj h) <;> first | exact ⟨_, rfl⟩ | exact ⟨[], by simp⟩
  case recvChunk =>
    split at h
    · simp at h
    · split at h
      · simp at h
      · split at h
        · simp at h
        · split at h <;> (obtain rfl := Option.some.inj h) <;> first | exact ⟨_, rfl⟩ | exact ⟨[], by simp⟩
  all_goals
    (repeat' split at h) <;> first
      | (simp at h; done)
      | (obtain rfl := Option.some.inj h; exact ⟨[], by simp⟩)

/-- the call in progress is a whole-message send (`Sender::send`), as started by `relayStart` -/
def WholeSend (st : State) : Prop := ∀ x, st.s.cur = some x → ∃ rest e, x = .bytes rest e true

/-- the last frame of a whole-message send is flagged `last` -/
theorem emitFrame_whole_last (c : Cfg) (rest : Bytes) (e : Bool) (held : Nat) (first : Bool)
    (hn : (emitFrame c (.bytes rest e true) held first).2 = none) :
    (emitFrame c (.bytes rest e true) held first).1.isLast = true := by
  cases e
  · simp only [emitFrame] at hn ⊢
    split at hn
    · rename_i he; simp only [Frame.isLast, he, Bool.and_true]
    · simp at hn
  · simp [emitFrame, Frame.isLast]

theorem emitFrame_whole_next (c : Cfg) (rest : Bytes) (e : Bool) (held : Nat) (first : Bool) (x' : Xfer)
    (hn : (emitFrame c (.bytes rest e true) held first).2 = some x') :
    ∃ rest' e', x' = .bytes rest' e' true := by
  cases e
  · simp only [emitFrame] at hn
    split at hn
    · simp at hn
    · obtain rfl := Option.some.inj hn; exact ⟨_, _, rfl⟩
  · simp [emitFrame] at hn

/-- sender-side facts the relay relies on, for the labels the environment may take on `b`:
the call in progress stays the same whole-message send with the same message, or it ends — by
failing (`fail`), or by completing, which appends exactly its message to `completed` -/
theorem env_step_sender (c : Cfg) (st st' : State) (l : Label) (hl : l.notSenderApi = true)
    (hin : st.s.inMsg = false) (hw : WholeSend st) (h : step c st l = some st') :
    st'.s.inMsg = false ∧ WholeSend st' ∧
    ((st'.s.cur = none ∧ st.s.cur = none ∧ st'.completed = st.completed) ∨
     (st'.s.cur.isSome ∧ st.s.cur.isSome ∧ st'.s.acc = st.s.acc ∧ st'.completed = st.completed) ∨
     (st'.s.cur = none ∧ st.s.cur.isSome ∧ l = .fail ∧ st'.completed = st.completed) ∨
     (st'.s.cur = none ∧ st.s.cur.isSome ∧ l = .emit ∧ st'.completed = st.completed ++ [st.s.acc])) := by
  have same : ∀ st'' : State, st''.s.cur = st.s.cur → st''.s.acc = st.s.acc → st''.s.inMsg = st.s.inMsg →
      st''.completed = st.completed →
      st''.s.inMsg = false ∧ WholeSend st'' ∧
      ((st''.s.cur = none ∧ st.s.cur = none ∧ st''.completed = st.completed) ∨
       (st''.s.cur.isSome ∧ st.s.cur.isSome ∧ st''.s.acc = st.s.acc ∧ st''.completed = st.completed) ∨
       (st''.s.cur = none ∧ st.s.cur.isSome ∧ l = .fail ∧ st''.completed = st.completed) ∨
       (st''.s.cur = none ∧ st.s.cur.isSome ∧ l = .emit ∧ st''.completed = st.completed ++ [st.s.acc])) := by
    intro st'' hcu hac him hc
    refine ⟨by rw [him]; exact hin, by intro x hx; rw [hcu] at hx; exact hw x hx, ?_⟩
    cases hcur : st.s.cur with
    | none => exact Or.inl ⟨by rw [hcu]; exact hcur, rfl, hc⟩
    | some x => exact Or.inr (Or.inl ⟨by rw [hcu, hcur]; rfl, rfl, hac, hc⟩)
  cases l <;> simp only [Label.notSenderApi] at hl <;> (first | exact absurd hl Bool.false_ne_true | skip) <;> simp only [step] at h
  case giveBack =>
    split at h
    · rename_i x hc
      obtain ⟨_, _, hx⟩ := hw _ hc
      simp at hx
    · simp at h
  case request =>
    split at h
    · simp at h
    · split at h
      · obtain rfl := Option.some.inj h
        rename_i x hc _
        refine ⟨hin, ?_, Or.inr (Or.inl ⟨by simp [hc], by simp [hc], rfl, rfl⟩)⟩
        intro y hy; exact hw y hy
      · simp at h
  case fail =>
    split at h
    · simp at h
    · split at h
      · obtain rfl := Option.some.inj h
        rename_i x hc _
        refine ⟨rfl, ?_, Or.inr (Or.inr (Or.inl ⟨rfl, by simp [hc], rfl, rfl⟩))⟩
        intro y hy; simp at hy
      · simp at h
  case emit =>
    split at h
    · simp at h
    · rename_i x hc
      obtain ⟨rest, e, rfl⟩ := hw _ hc
      split at h
      · split at h
        · obtain rfl := Option.some.inj h
          rename_i hx
          refine ⟨hin, ?_, Or.inr (Or.inl ⟨hx, by simp [hc], rfl, rfl⟩)⟩
          intro y hy
          simp only at hy
          cases hx' : (emitFrame c (.bytes rest e true) st.s.held st.s.first).2 with
          | none => simp [hx'] at hx
          | some x' =>
            rw [hx'] at hy
            obtain rfl := Option.some.inj hy
            exact emitFrame_whole_next c rest e _ _ _ hx'
        · rename_i hx
          have hnone : (emitFrame c (.bytes rest e true) st.s.held st.s.first).2 = none := by
            cases hx' : (emitFrame c (.bytes rest e true) st.s.held st.s.first).2 with
            | none => rfl
            | some _ => simp [hx'] at hx
          have hlast := emitFrame_whole_last c rest e _ _ hnone
          split at h
          · obtain rfl := Option.some.inj h
            refine ⟨rfl, ?_, Or.inr (Or.inr (Or.inr ⟨rfl, by simp [hc], rfl, by simp [Xfer.msgs]⟩))⟩
            intro y hy; simp at hy
          · rename_i hnl; exact absurd hlast hnl
      · simp at h
  case provide =>
    split at h
    · simp at h
    · split at h <;> (obtain rfl := Option.some.inj h) <;> exact same _ rfl rfl rfl rfl
  case muxRecv =>
    split at h
    · simp at h
    · split at h
      · obtain rfl := Option.some.inj h; exact same _ rfl rfl rfl rfl
      · split at h <;> (obtain rfl := Option.some.inj h) <;> exact same _ rfl rfl rfl rfl
  case recvAny =>
    split at h
    · simp at h
    · split at h
      · simp at h
      · split at h <;> (obtain rfl := Option.some.inj h) <;> exact same _ rfl rfl rfl rfl
  case recvChunk =>
    split at h
    · simp at h
    · split at h
      · simp at h
      · split at h
        · simp at h
        · split at h <;> (obtain rfl := Option.some.inj h) <;> exact same _ rfl rfl rfl rfl
  case close =>
    split at h
    · obtain rfl := Option.some.inj h; exact same _ rfl rfl rfl rfl
    · simp at h
  case dropReceiver =>
    split at h
    · obtain rfl := Option.some.inj h; exact same _ rfl rfl rfl rfl
    · simp at h

/-! ### the relay invariant -/

/-- `k` messages were completely forwarded; they are the first `k` the relay received.  While the relay
runs, either it is between sends (`k = fwd`) or the send in progress carries message `k`. -/
structure RInvariant (r : Relay) : Prop where
  inMsg : r.b.s.inMsg = false
  whole : WholeSend r.b
  stoppedCur : r.stopped = true → r.b.s.cur = none
  le : r.fwd ≤ r.a.delivered.length
  pre : ∃ k, k ≤ r.fwd ∧ r.b.completed = r.a.delivered.take k ∧
        (r.stopped = false →
          (r.b.s.cur = none ∧ k = r.fwd) ∨
          (r.b.s.cur.isSome ∧ k + 1 = r.fwd ∧ r.a.delivered[k]? = some r.b.s.acc))

theorem rinvariant_init (ca cb : Cfg) : RInvariant (rinit ca cb) := by
  refine ⟨rfl, ?_, fun _ => rfl, by simp [rinit, init], ⟨0, by simp [rinit], by simp [rinit, init], ?_⟩⟩
  · intro x hx; simp [rinit, init] at hx
  · intro _; exact Or.inl ⟨rfl, rfl⟩

theorem rinvariant_step (ca cb : Cfg) (r r' : Relay) (l : RLabel) (hi : RInvariant r)
    (h : rstep ca cb r l = some r') : RInvariant r' := by
  obtain ⟨hin, hw, hsc, hle, k, hk, hcomp, hrun⟩ := hi
  cases l <;> simp only [rstep] at h
  case up l =>
    cases hs : step ca r.a l with
    | none => simp [hs] at h
    | some a' =>
      simp only [hs, Option.map_some, Option.some.injEq] at h
      subst h
      obtain ⟨ext, hext⟩ := delivered_mono ca r.a a' l hs
      refine ⟨hin, hw, hsc, by simp only [hext, List.length_append]; omega, ⟨k, hk, ?_, ?_⟩⟩
      · show r.b.completed = a'.delivered.take k
        rw [hext, List.take_append_of_le_length (by omega)]; exact hcomp
      · intro hst
        rcases hrun hst with h1 | ⟨h1, h2, h3⟩
        · exact Or.inl h1
        · refine Or.inr ⟨h1, h2, ?_⟩
          show a'.delivered[k]? = _
          rw [hext, List.getElem?_append_left (by omega)]; exact h3
  case down l =>
    split at h
    · rename_i hl
      cases hs : step cb r.b l with
      | none => simp [hs] at h
      | some b' =>
        simp only [hs, Option.map_some, Option.some.injEq] at h
        subst h
        obtain ⟨hin', hw', hcase⟩ := env_step_sender cb r.b b' l hl hin hw hs
        have hst_of : (r.stopped || (l == Label.fail)) = false → r.stopped = false := by
          intro hst; simp only [Bool.or_eq_false_iff] at hst; exact hst.1
        rcases hcase with ⟨c1, c0, hc⟩ | ⟨c1, c0, hacc, hc⟩ | ⟨c1, c0, hfail, hc⟩ | ⟨c1, c0, hemit, hc⟩
        · refine ⟨hin', hw', fun _ => c1, hle, ⟨k, hk, by show b'.completed = _; rw [hc]; exact hcomp, ?_⟩⟩
          intro hst
          rcases hrun (hst_of hst) with ⟨_, h2⟩ | ⟨h1, _, _⟩
          · exact Or.inl ⟨c1, h2⟩
          · simp [c0] at h1
        · have hns : r.stopped = false := by
            cases hs0 : r.stopped with
            | false => rfl
            | true => have := hsc hs0; simp [this] at c0
          have hlf : (l == Label.fail) = false := by
            cases l <;> first
              | (simp [Label.notSenderApi] at hl; done)
              | decide
              | (exfalso; simp only [step] at hs; (repeat' split at hs) <;> first
                  | (simp at hs; done)
                  | (obtain rfl := Option.some.inj hs; simp at c1))
          refine ⟨hin', hw', ?_, hle, ⟨k, hk, by show b'.completed = _; rw [hc]; exact hcomp, ?_⟩⟩
          · intro hst; simp [hns, hlf] at hst
          · intro _
            rcases hrun hns with ⟨h1, _⟩ | ⟨_, h2, h3⟩
            · simp [h1] at c0
            · exact Or.inr ⟨c1, h2, by show _ = some b'.s.acc; rw [hacc]; exact h3⟩
        · subst hfail
          refine ⟨hin', hw', fun _ => c1, hle, ⟨k, hk, by show b'.completed = _; rw [hc]; exact hcomp, ?_⟩⟩
          intro hst; simp at hst
        · subst hemit
          have hns : r.stopped = false := by
            cases hs0 : r.stopped with
            | false => rfl
            | true => have := hsc hs0; simp [this] at c0
          rcases hrun hns with ⟨h1, _⟩ | ⟨_, h2, h3⟩
          · simp [h1] at c0
          · refine ⟨hin', hw', fun _ => c1, hle, ⟨k + 1, by show k + 1 ≤ r.fwd; omega, ?_, ?_⟩⟩
            · show b'.completed = _
              rw [hc, hcomp, List.take_add_one, h3]; simp
            · intro _; exact Or.inl ⟨c1, h2⟩
    · simp at h
  case relayStart =>
    split at h
    · simp at h
    · rename_i hns
      have hns : r.stopped = false := by simpa using hns
      split at h
      · simp at h
      · rename_i m hm
        cases hs : step cb r.b (.startSend m) with
        | none => simp [hs] at h
        | some b' =>
          simp only [hs, Option.map_some, Option.some.injEq] at h
          subst h
          simp only [step] at hs
          split at hs
          · obtain rfl := Option.some.inj hs
            rename_i hcond
            have hcn : r.b.s.cur = none := by simpa using hcond.1
            have hlt : r.fwd < r.a.delivered.length := by
              rcases Nat.lt_or_ge r.fwd r.a.delivered.length with h1 | h1
              · exact h1
              · rw [List.getElem?_eq_none h1] at hm; simp at hm
            refine ⟨hin, ?_, by intro hst; simp [hns] at hst, by show r.fwd + 1 ≤ r.a.delivered.length; omega, ⟨k, by show k ≤ r.fwd + 1; omega, hcomp, ?_⟩⟩
            · intro x hx; simp at hx; exact ⟨_, _, hx.symm⟩
            · intro _
              rcases hrun hns with ⟨_, h2⟩ | ⟨h1, _, _⟩
              · subst h2; exact Or.inr ⟨rfl, rfl, hm⟩
              · simp [hcn] at h1
          · simp at hs
  case relayAbort =>
    cases hs : step cb r.b .cancel with
    | none => simp [hs] at h
    | some b' =>
      simp only [hs, Option.map_some, Option.some.injEq] at h
      subst h
      simp only [step] at hs
      split at hs
      · obtain rfl := Option.some.inj hs
        refine ⟨rfl, by intro x hx; simp at hx, fun _ => rfl, hle, ⟨k, hk, hcomp, by intro hst; simp at hst⟩⟩
      · simp at hs
  case relayEnd =>
    cases hs : step cb r.b .dropSender with
    | none => simp [hs] at h
    | some b' =>
      simp only [hs, Option.map_some, Option.some.injEq] at h
      subst h
      simp only [step] at hs
      split at hs
      · obtain rfl := Option.some.inj hs
        rename_i hcond
        refine ⟨hin, hw, fun _ => by simpa using hcond.1, hle, ⟨k, hk, hcomp, by intro hst; simp at hst⟩⟩
      · simp at hs

theorem rinvariant_run (ca cb : Cfg) (r : Relay) (ls : List RLabel) (hi : RInvariant r) :
    RInvariant (rrun ca cb r ls) := by
  induction ls generalizing r with
  | nil => exact hi
  | cons l ls ih =>
    simp only [rrun]
    split
    · rename_i r' hs; exact ih r' (rinvariant_step ca cb r r' l hi hs)
    · exact ih r hi

/-- both links of a reachable relay state are reachable states of M_link -/
theorem relay_links_reachable (ca cb : Cfg) (r : Relay) (h : RReachable ca cb r) :
    Reachable ca r.a ∧ Reachable cb r.b := by
  obtain ⟨ls, rfl⟩ := h
  suffices ∀ (r0 : Relay), Reachable ca r0.a → Reachable cb r0.b →
      Reachable ca (rrun ca cb r0 ls).a ∧ Reachable cb (rrun ca cb r0 ls).b from
    this (rinit ca cb) ⟨[], rfl⟩ ⟨[], rfl⟩
  induction ls with
  | nil => intro r0 ha hb; exact ⟨ha, hb⟩
  | cons l ls ih =>
    intro r0 ha hb
    simp only [rrun]
    split
    · rename_i r' hs
      have : Reachable ca r'.a ∧ Reachable cb r'.b := by
        cases l <;> simp only [rstep] at hs
        case up l =>
          cases h1 : step ca r0.a l with
          | none => simp [h1] at hs
          | some a' =>
            simp only [h1, Option.map_some, Option.some.injEq] at hs; subst hs
            exact ⟨reachable_step ca _ _ l ha h1, hb⟩
        case down l =>
          split at hs
          · cases h1 : step cb r0.b l with
            | none => simp [h1] at hs
            | some b' =>
              simp only [h1, Option.map_some, Option.some.injEq] at hs; subst hs
              exact ⟨ha, reachable_step cb _ _ l hb h1⟩
          · simp at hs
        case relayStart =>
          split at hs
          · simp at hs
          · split at hs
            · simp at hs
            · rename_i m _
              cases h1 : step cb r0.b (.startSend m) with
              | none => simp [h1] at hs
              | some b' =>
                simp only [h1, Option.map_some, Option.some.injEq] at hs; subst hs
                exact ⟨ha, reachable_step cb _ _ _ hb h1⟩
        case relayAbort =>
          cases h1 : step cb r0.b .cancel with
          | none => simp [h1] at hs
          | some b' =>
            simp only [h1, Option.map_some, Option.some.injEq] at hs; subst hs
            exact ⟨ha, reachable_step cb _ _ _ hb h1⟩
        case relayEnd =>
          cases h1 : step cb r0.b .dropSender with
          | none => simp [h1] at hs
          | some b' =>
            simp only [h1, Option.map_some, Option.some.injEq] at hs; subst hs
            exact ⟨ha, reachable_step cb _ _ _ hb h1⟩
      exact ih r' this.1 this.2
    · exact ih r0 ha hb

theorem rinvariant_reachable (ca cb : Cfg) (r : Relay) (h : RReachable ca cb r) : RInvariant r := by
  obtain ⟨ls, rfl⟩ := h
  exact rinvariant_run ca cb _ ls (rinvariant_init ca cb)

end Remoc.Link
