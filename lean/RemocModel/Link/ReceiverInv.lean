import RemocModel.Link.Parse
set_option linter.unusedSimpArgs false

namespace Remoc.Link

/-- message already completed on the wire but not yet handed to the caller
(its last chunk is buffered while the caller is in its `recv_chunk` loop) -/
def pendingMsg (st : State) : List Bytes :=
  match st.r.receiving, st.partialMsg with
  | .chunks chs true, some acc => [acc ++ chs.flatten]
  | _, _ => []

/-- the partial message the receiver currently holds (buffered + handed out as chunks) -/
def absCur (st : State) : Option Bytes :=
  match st.r.receiving, st.partialMsg with
  | .data bufs, none => some bufs.flatten
  | .chunks chs false, some acc => some (acc ++ chs.flatten)
  | _, _ => none

/-- The receiver half, driven by a caller that follows the documented protocol, hands out
exactly the ideal reassembly of the frames it consumed. -/
structure RInv (st : State) : Prop where
  msgs : parse none st.consumed = st.delivered ++ pendingMsg st
  cur : st.r.finished = false → st.r.unprocessed = none → parseSt none st.consumed = absCur st
  mode : st.partialMsg.isSome = st.r.receiving.inChunks
  fin : st.r.finished = true → st.partialMsg = none
  unproc : ∀ f, st.r.unprocessed = some f → f.resets = true ∧ st.r.receiving = .nothing

theorem rinv_init (c : Cfg) : RInv (init c) := by
  constructor <;> simp [init, parse, parseSt, pendingMsg, absCur, Receiving.inChunks]

def rview (st : State) : Receiving × Option Bytes × List Frame × List Bytes × Option Frame × Bool :=
  (st.r.receiving, st.partialMsg, st.consumed, st.delivered, st.r.unprocessed, st.r.finished)

theorem rinv_of_view (st st' : State) (hv : rview st' = rview st) (hi : RInv st) : RInv st' := by
  simp only [rview, Prod.mk.injEq] at hv
  obtain ⟨h1, h2, h3, h4, h5, h6⟩ := hv
  obtain ⟨hm, hcur, hmode, hfin, hun⟩ := hi
  constructor
  · simp only [pendingMsg, h1, h2, h3, h4]; exact hm
  · simp only [absCur, h1, h2, h3, h5, h6]; exact hcur
  · rw [h1, h2]; exact hmode
  · rw [h2, h6]; exact hfin
  · rw [h1, h5]; exact hun

/-- reassembly state of `recv_any` seen as the ideal buffer -/
def absA : Receiving → Option Bytes
  | .data bufs => some bufs.flatten
  | _ => none

def newCur : Receiving → Option Bytes
  | .data bufs => some bufs.flatten
  | .chunks chs false => some chs.flatten
  | _ => none

def newMsg : Receiving → Option Out → Option Bytes
  | _, some (.data b) => some b
  | .chunks chs true, some .chunksStart => some chs.flatten
  | _, _ => none

/-- `recv_any` processes one data or port frame exactly like the ideal reassembler. -/
theorem anyFrame_parse (c : Cfg) (recving : Receiving) (f : Frame) (hc : recving.inChunks = false)
    (hf : f.isFinish = false) :
    parseStep (absA recving) f = (newCur (anyFrame c recving f).1, newMsg (anyFrame c recving f).1 (anyFrame c recving f).2) := by
  cases f with
  | finish => simp [Frame.isFinish] at hf
  | ports ids first last =>
    simp only [parseStep, anyFrame]
    split <;> (repeat' split) <;> simp_all [newCur, newMsg]
  | data p first last =>
    simp only [parseStep, anyFrame]
    cases first with
    | true =>
      simp only [if_true, List.flatten_nil, List.length_nil, Nat.zero_add, List.nil_append]
      by_cases hfit : p.length ≤ c.maxData <;> cases last <;> simp [hfit, newCur, newMsg]
    | false =>
      simp only [Bool.false_eq_true, if_false]
      cases recving with
      | data bufs =>
        simp only [absA, Option.map_some]
        by_cases hfit : (List.map List.length bufs).sum + p.length ≤ c.maxData <;> cases last <;>
          simp [hfit, newCur, newMsg, List.length_flatten]
      | nothing => simp [absA, newCur, newMsg]
      | requests ids => simp [absA, newCur, newMsg]
      | chunks chs b => simp [Receiving.inChunks] at hc

theorem anyFrame_chunksStart (c : Cfg) (recving : Receiving) (f : Frame) (hc : recving.inChunks = false) :
    ((anyFrame c recving f).2 = some .chunksStart ↔ (anyFrame c recving f).1.inChunks = true) ∧
    (∀ b, (anyFrame c recving f).2 = some (.data b) → (anyFrame c recving f).1 = .nothing) := by
  cases f with
  | finish => cases recving <;> simp_all [anyFrame, Receiving.inChunks]
  | ports ids first last =>
    simp only [anyFrame]
    (repeat' split) <;> simp_all [Receiving.inChunks]
  | data p first last =>
    simp only [anyFrame]
    (repeat' split) <;> simp_all [Receiving.inChunks]

theorem returnFor_view (limit : Nat) (r : Receiver) (f : Frame) :
    (returnFor limit r f).1.unprocessed = r.unprocessed := by
  generalize h : returnFor limit r f = rb
  obtain ⟨r1, bk⟩ := rb
  exact (returnFor_spec _ _ _ _ _ h).2.2.2.1

/-- what one `recv_any` iteration does to the reassembly state -/
theorem recvAnyStep_sem (c : Cfg) (r r' : Receiver) (bk : List Back) (f : Frame) (out : Option Out)
    (h : recvAnyStep c r = some (r', bk, f, out)) :
    r.finished = false ∧ r'.receiving = (anyFrame c r.receiving f).1 ∧ out = (anyFrame c r.receiving f).2 ∧
    r'.finished = f.isFinish ∧ r'.unprocessed = none ∧ (r.unprocessed = some f ∨ r.unprocessed = none) := by
  unfold recvAnyStep at h
  split at h
  · simp at h
  · rename_i hfin
    split at h
    · simp at h
    · rename_i f0 r0 hn
      have hq := nextMsg_spec r f0 r0 hn
      have hu := returnFor_view c.limit r0 f0
      simp only [Option.some.injEq, Prod.mk.injEq] at h
      obtain ⟨rfl, rfl, rfl, rfl⟩ := h
      refine ⟨by simpa using hfin, by simp [hq.2.2.2.1], by simp [hq.2.2.2.1], rfl, by simp [hu, hq.2.2.2.2.2.2.2], ?_⟩
      unfold nextMsg at hn
      split at hn
      · rename_i g hg
        obtain ⟨rfl, _⟩ := Prod.mk.inj (Option.some.inj hn)
        exact Or.inl hg
      · rename_i hg; exact Or.inr hg

theorem returnFor_fields (limit : Nat) (r : Receiver) (f : Frame) :
    (returnFor limit r f).1.unprocessed = r.unprocessed ∧ (returnFor limit r f).1.finished = r.finished ∧
    (returnFor limit r f).1.receiving = r.receiving := by
  generalize h : returnFor limit r f = rb
  obtain ⟨r1, bk⟩ := rb
  have := returnFor_spec _ _ _ _ _ h
  exact ⟨this.2.2.2.1, this.2.2.2.2.2.1, this.2.2.2.2.1⟩

/-- what one `recv_chunk` iteration does while the caller is inside a chunked message -/
theorem recvChunkStep_sem (c : Cfg) (r r' : Receiver) (bk : List Back) (f : Option Frame) (out : Option Out)
    (h : recvChunkStep c r = some (r', bk, f, out))
    (hfin : r.finished = false) (chs : List Bytes) (b : Bool) (hr : r.receiving = .chunks chs b)
    (hu : r.unprocessed = none) :
    (∃ ch rest, chs = ch :: rest ∧ r'.receiving = .chunks rest b ∧ f = none ∧ out = some (.chunk ch) ∧
        r'.finished = false ∧ r'.unprocessed = none) ∨
    (chs = [] ∧ b = true ∧ r'.receiving = .nothing ∧ f = none ∧ out = some .chunkEnd ∧
        r'.finished = false ∧ r'.unprocessed = none) ∨
    (chs = [] ∧ b = false ∧ ∃ g, g.resets = true ∧ r'.unprocessed = some g ∧ r'.receiving = .nothing ∧
        f = none ∧ out = some .cancelled ∧ r'.finished = false) ∨
    (chs = [] ∧ b = false ∧ ∃ p last, f = some (.data p false last) ∧ r'.receiving = .chunks [] last ∧
        out = some (.chunk p) ∧ r'.finished = false ∧ r'.unprocessed = none) ∨
    (chs = [] ∧ b = false ∧ f = some .finish ∧ r'.receiving = .nothing ∧ out = some .cancelled ∧
        r'.finished = true ∧ r'.unprocessed = none) := by
  unfold recvChunkStep at h
  rw [if_neg (by simp [hfin])] at h
  rw [hr] at h
  cases chs with
  | cons ch rest =>
    simp only [Option.some.injEq, Prod.mk.injEq] at h
    obtain ⟨rfl, rfl, rfl, rfl⟩ := h
    exact Or.inl ⟨ch, rest, rfl, rfl, rfl, rfl, hfin, hu⟩
  | nil =>
    cases b with
    | true =>
      simp only [Option.some.injEq, Prod.mk.injEq] at h
      obtain ⟨rfl, rfl, rfl, rfl⟩ := h
      exact Or.inr (Or.inl ⟨rfl, rfl, rfl, rfl, rfl, hfin, hu⟩)
    | false =>
      simp only [Receiving.inChunks] at h
      split at h
      · simp at h
      · rename_i f0 r0 hn
        have hq := nextMsg_spec r f0 r0 hn
        have hrf := returnFor_fields c.limit r0 f0
        cases f0 with
        | finish =>
          simp only [chunkFrame, if_true, Option.some.injEq, Prod.mk.injEq] at h
          obtain ⟨rfl, rfl, rfl, rfl⟩ := h
          refine Or.inr (Or.inr (Or.inr (Or.inr ⟨rfl, rfl, rfl, rfl, rfl, rfl, ?_⟩)))
          simp [hrf.1, hq.2.2.2.2.2.2.2]
        | ports ids first last =>
          simp only [chunkFrame, if_true, Option.some.injEq, Prod.mk.injEq] at h
          obtain ⟨rfl, rfl, rfl, rfl⟩ := h
          exact Or.inr (Or.inr (Or.inl ⟨rfl, rfl, _, rfl, rfl, rfl, rfl, rfl, hfin⟩))
        | data p first last =>
          cases first with
          | true =>
            simp only [chunkFrame, Bool.and_self, if_true, Option.some.injEq, Prod.mk.injEq] at h
            obtain ⟨rfl, rfl, rfl, rfl⟩ := h
            exact Or.inr (Or.inr (Or.inl ⟨rfl, rfl, _, rfl, rfl, rfl, rfl, rfl, hfin⟩))
          | false =>
            simp only [chunkFrame, Bool.and_false, Bool.false_eq_true, if_false, Bool.or_false, if_true,
              Option.some.injEq, Prod.mk.injEq, Option.getD_some] at h
            obtain ⟨rfl, rfl, rfl, rfl⟩ := h
            refine Or.inr (Or.inr (Or.inr (Or.inl ⟨rfl, rfl, p, last, rfl, rfl, rfl, ?_, ?_⟩)))
            · simp [Frame.isFinish]
            · simp [hrf.1, hq.2.2.2.2.2.2.2]

def anyDelivered : Option Out → List Bytes
  | some (.data b) => [b]
  | _ => []

def anyPartial : Option Out → Option Bytes
  | some .chunksStart => some []
  | _ => none

theorem step_recvAny_view (c : Cfg) (st st' : State) (h : step c st .recvAny = some st') :
    st.partialMsg = none ∧ ∃ r bk f out, recvAnyStep c st.r = some (r, bk, f, out) ∧ st'.r = r ∧
      st'.consumed = st.consumed ++ [f] ∧ st'.delivered = st.delivered ++ anyDelivered out ∧
      st'.partialMsg = anyPartial out := by
  simp only [step] at h
  split at h
  · simp at h
  · rename_i hg
    have hp : st.partialMsg = none := by
      cases hpm : st.partialMsg <;> simp_all
    refine ⟨hp, ?_⟩
    split at h
    · simp at h
    · rename_i r bk f out hs
      refine ⟨r, bk, f, out, hs, ?_⟩
      (repeat' split at h) <;> (obtain rfl := Option.some.inj h; simp_all [anyDelivered, anyPartial])

def chunkDelivered (acc : Bytes) : Option Out → List Bytes
  | some .chunkEnd => [acc]
  | _ => []

def chunkPartial (acc : Bytes) : Option Out → Option Bytes
  | some (.chunk b) => some (acc ++ b)
  | some .chunkEnd => none
  | some .cancelled => none
  | some .eos => none
  | _ => some acc

theorem step_recvChunk_view (c : Cfg) (st st' : State) (h : step c st .recvChunk = some st') :
    ∃ acc, st.partialMsg = some acc ∧ ∃ r bk f out, recvChunkStep c st.r = some (r, bk, f, out) ∧ st'.r = r ∧
      st'.consumed = st.consumed ++ f.toList ∧ st'.delivered = st.delivered ++ chunkDelivered acc out ∧
      st'.partialMsg = chunkPartial acc out := by
  simp only [step] at h
  split at h
  · simp at h
  · split at h
    · simp at h
    · rename_i acc hp
      refine ⟨acc, hp, ?_⟩
      split at h
      · simp at h
      · rename_i r bk f out hs
        refine ⟨r, bk, f, out, hs, ?_⟩
        (repeat' split at h) <;> (obtain rfl := Option.some.inj h; simp_all [chunkDelivered, chunkPartial])

theorem rinv_recvAny (c : Cfg) (st st' : State) (hi : RInv st) (h : step c st .recvAny = some st') :
    RInv st' := by
  obtain ⟨hm, hcur, hmode, hfin, hun⟩ := hi
  obtain ⟨hp, r, bk, f, out, hs, e1, e2, e3, e4⟩ := step_recvAny_view c st st' h
  obtain ⟨hf0, hrec, hout, hfin', hunp', hfrom⟩ := recvAnyStep_sem c _ _ _ _ _ hs
  have hnc : st.r.receiving.inChunks = false := by rw [← hmode, hp]; rfl
  have hpend : pendingMsg st = [] := by simp [pendingMsg, hp]
  -- the ideal reassembler sees this frame from the same buffer as `recv_any`
  have hstep : parseStep (parseSt none st.consumed) f = parseStep (absA st.r.receiving) f := by
    rcases hfrom with hsome | hnone
    · obtain ⟨hres, hnothing⟩ := hun f hsome
      rw [parseStep_resets _ f hres, hnothing]
      simp only [absA]
    · rw [hcur hf0 hnone]
      congr 1
      simp only [absCur, hp, absA]
      cases hr : st.r.receiving <;> simp_all [Receiving.inChunks]
  cases hff : f.isFinish with
  | true =>
    have hfe : f = .finish := by cases f <;> simp_all [Frame.isFinish]
    subst hfe
    have ho : out = some .eos := by rw [hout]; simp [anyFrame]
    have hr' : st'.r.receiving = st.r.receiving := by rw [e1, hrec]; simp [anyFrame]
    subst ho
    simp only [anyDelivered, anyPartial, List.append_nil] at e3 e4
    constructor
    · rw [e2, parse_snoc, e3]
      simp only [parseStep, Option.toList, List.append_nil, pendingMsg, hr', e4]
      rw [hm, hpend]
      cases st.r.receiving <;> simp
    · intro hnf; rw [e1, hfin'] at hnf; simp [hff] at hnf
    · rw [e4, hr', ← hp]; exact hmode
    · intro _; exact e4
    · intro g hg; rw [e1, hunp'] at hg; simp at hg
  | false =>
    have hsem := anyFrame_parse c st.r.receiving f hnc hff
    have hcs := anyFrame_chunksStart c st.r.receiving f hnc
    rw [← hrec, ← hout] at hsem hcs
    rw [← e1] at hsem hcs
    constructor
    · rw [e2, parse_snoc, hstep, hsem, hm, hpend, e3]
      simp only [List.append_nil, List.append_assoc]
      congr 1
      simp only [pendingMsg, e4]
      cases out with
      | none => cases st'.r.receiving <;> simp [anyDelivered, anyPartial, newMsg]
      | some o =>
        cases o with
        | data b =>
          have := hcs.2 b rfl
          simp [anyDelivered, anyPartial, newMsg, this]
        | chunksStart =>
          have := hcs.1.1 rfl
          cases hr : st'.r.receiving with
          | chunks chs b => cases b <;> simp [anyDelivered, anyPartial, newMsg]
          | _ => simp [hr, Receiving.inChunks] at this
        | _ => cases st'.r.receiving <;> simp [anyDelivered, anyPartial, newMsg]
    · intro _ _
      rw [e2, parseSt_snoc, hstep, hsem]
      simp only [absCur, e4]
      cases out with
      | none =>
        have : st'.r.receiving.inChunks = false := by
          cases hic : st'.r.receiving.inChunks
          · rfl
          · have := hcs.1.2 hic; simp at this
        cases hr : st'.r.receiving <;> simp_all [anyPartial, newCur, Receiving.inChunks]
      | some o =>
        cases o with
        | chunksStart =>
          have := hcs.1.1 rfl
          cases hr : st'.r.receiving with
          | chunks chs b => cases b <;> simp [anyPartial, newCur]
          | _ => simp [hr, Receiving.inChunks] at this
        | data b =>
          have := hcs.2 b rfl
          simp [anyPartial, newCur, this]
        | _ =>
          have : st'.r.receiving.inChunks = false := by
            cases hic : st'.r.receiving.inChunks
            · rfl
            · have := hcs.1.2 hic; simp at this
          cases hr : st'.r.receiving <;> simp_all [anyPartial, newCur, Receiving.inChunks]
    · rw [e4]
      cases out with
      | none =>
        cases hic : st'.r.receiving.inChunks
        · rfl
        · have := hcs.1.2 hic; simp at this
      | some o =>
        cases o with
        | chunksStart => have := hcs.1.1 rfl; simp [anyPartial, this]
        | _ =>
          cases hic : st'.r.receiving.inChunks
          · rfl
          · have := hcs.1.2 hic; simp at this
    · intro hf1; rw [e1, hfin', hff] at hf1; simp at hf1
    · intro g hg; rw [e1, hunp'] at hg; simp at hg

theorem rinv_recvChunk (c : Cfg) (st st' : State) (hi : RInv st) (h : step c st .recvChunk = some st') :
    RInv st' := by
  obtain ⟨hm, hcur, hmode, hfin, hun⟩ := hi
  obtain ⟨acc, hp, r, bk, f, out, hs, e1, e2, e3, e4⟩ := step_recvChunk_view c st st' h
  have hic : st.r.receiving.inChunks = true := by rw [← hmode, hp]; rfl
  have hnf : st.r.finished = false := by
    cases hf : st.r.finished
    · rfl
    · have := hfin hf; simp [hp] at this
  obtain ⟨chs, b, hr⟩ : ∃ chs b, st.r.receiving = .chunks chs b := by
    cases hrr : st.r.receiving <;> simp_all [Receiving.inChunks]
  have hnu : st.r.unprocessed = none := by
    cases hu : st.r.unprocessed with
    | none => rfl
    | some g => have := (hun g hu).2; simp [hr] at this
  have hcur0 := hcur hnf hnu
  simp only [absCur, hr, hp] at hcur0
  simp only [pendingMsg, hr, hp] at hm
  rcases recvChunkStep_sem c _ _ _ _ _ hs hnf chs b hr hnu with
    ⟨ch, rest, rfl, hr', rfl, rfl, hf', hu'⟩ | ⟨rfl, rfl, hr', rfl, rfl, hf', hu'⟩ |
    ⟨rfl, rfl, g, hg, hu', hr', rfl, rfl, hf'⟩ | ⟨rfl, rfl, p, last, rfl, hr', rfl, hf', hu'⟩ |
    ⟨rfl, rfl, rfl, hr', rfl, hf', hu'⟩
  · -- a buffered chunk is handed out
    simp only [chunkDelivered, chunkPartial, Option.toList, List.append_nil] at e2 e3 e4
    constructor
    · rw [e2, e3, hm]; simp only [pendingMsg, e1, hr', e4]
      cases b <;> simp
    · intro _ _; rw [e2]; simp only [absCur, e1, hr', e4]
      cases b <;> simp_all
    · rw [e4, e1, hr']; rfl
    · intro hf1; rw [e1, hf'] at hf1; simp at hf1
    · intro g hg; rw [e1, hu'] at hg; simp at hg
  · -- end of the message
    simp only [chunkDelivered, chunkPartial, Option.toList, List.append_nil] at e2 e3 e4
    constructor
    · rw [e2, e3, hm]; simp [pendingMsg, e1, hr', e4]
    · intro _ _; rw [e2]; simp only [absCur, e1, hr', e4]; simpa using hcur0
    · rw [e4, e1, hr']; rfl
    · intro _; exact e4
    · intro g hg; rw [e1, hu'] at hg; simp at hg
  · -- cancellation: the frame is put back
    simp only [chunkDelivered, chunkPartial, Option.toList, List.append_nil] at e2 e3 e4
    constructor
    · rw [e2, e3, hm]; simp [pendingMsg, e1, hr', e4]
    · intro _ hu1; rw [e1, hu'] at hu1; simp at hu1
    · rw [e4, e1, hr']; rfl
    · intro _; exact e4
    · intro g' hg'; rw [e1, hu'] at hg'
      obtain rfl := Option.some.inj hg'
      exact ⟨hg, by rw [e1, hr']⟩
  · -- a continuation chunk is consumed
    simp only [chunkDelivered, chunkPartial, Option.toList] at e2 e3 e4
    have hstep : parseStep (parseSt none st.consumed) (.data p false last) =
        (if last = true then none else some (acc ++ p), if last = true then some (acc ++ p) else none) := by
      rw [hcur0]; simp only [parseStep, Bool.false_eq_true, if_false, List.flatten_nil, List.append_nil,
        Option.map_some]
      cases last <;> simp
    constructor
    · rw [e2, parse_snoc, hstep, e3, hm]; simp only [pendingMsg, e1, hr', e4]
      cases last <;> simp
    · intro _ _; rw [e2, parseSt_snoc, hstep]; simp only [absCur, e1, hr', e4]
      cases last <;> simp
    · rw [e4, e1, hr']; rfl
    · intro hf1; rw [e1, hf'] at hf1; simp at hf1
    · intro g hg; rw [e1, hu'] at hg; simp at hg
  · -- the sender finished in the middle of the message
    simp only [chunkDelivered, chunkPartial, Option.toList] at e2 e3 e4
    constructor
    · rw [e2, parse_snoc, e3, hm]; simp [parseStep, pendingMsg, e1, hr', e4]
    · intro hf1; rw [e1, hf'] at hf1; simp at hf1
    · rw [e4, e1, hr']; rfl
    · intro _; exact e4
    · intro g hg; rw [e1, hu'] at hg; simp at hg

theorem rinv_step (c : Cfg) (st st' : State) (l : Label) (hi : RInv st) (h : step c st l = some st') :
    RInv st' := by
  cases l with
  | recvAny => exact rinv_recvAny c st st' hi h
  | recvChunk => exact rinv_recvChunk c st st' hi h
  | startSend d =>
    simp only [step] at h
    split at h
    · obtain rfl := Option.some.inj h; exact rinv_of_view _ _ (by simp [rview]) hi
    · simp at h
  | startChunks =>
    simp only [step] at h
    split at h
    · obtain rfl := Option.some.inj h; exact rinv_of_view _ _ (by simp [rview]) hi
    · simp at h
  | chunkSend d fin =>
    simp only [step] at h
    split at h
    · obtain rfl := Option.some.inj h; exact rinv_of_view _ _ (by simp [rview]) hi
    · simp at h
  | startConnect ids =>
    simp only [step] at h
    split at h
    · obtain rfl := Option.some.inj h; exact rinv_of_view _ _ (by simp [rview]) hi
    · simp at h
  | cancel =>
    simp only [step] at h
    split at h
    · obtain rfl := Option.some.inj h; exact rinv_of_view _ _ (by simp [rview]) hi
    · simp at h
  | dropSender =>
    simp only [step] at h
    split at h
    · obtain rfl := Option.some.inj h; exact rinv_of_view _ _ (by simp [rview]) hi
    · simp at h
  | giveBack =>
    simp only [step] at h
    split at h
    · split at h
      · obtain rfl := Option.some.inj h; exact rinv_of_view _ _ (by simp [rview]) hi
      · simp at h
    · simp at h
  | request =>
    simp only [step] at h
    split at h
    · simp at h
    · try simp only [] at h
      split at h
      · obtain rfl := Option.some.inj h; exact rinv_of_view _ _ (by simp [rview]) hi
      · simp at h
  | fail =>
    simp only [step] at h
    split at h
    · simp at h
    · split at h
      · obtain rfl := Option.some.inj h; exact rinv_of_view _ _ (by simp [rview]) hi
      · simp at h
  | emit =>
    simp only [step] at h
    split at h
    · simp at h
    · split at h
      · (repeat' split at h) <;>
          (obtain rfl := Option.some.inj h; exact rinv_of_view _ _ (by simp [rview]) hi)
      · simp at h
  | provide =>
    simp only [step] at h
    split at h
    · simp at h
    · split at h <;>
        (obtain rfl := Option.some.inj h; exact rinv_of_view _ _ (by simp [rview]) hi)
  | muxRecv =>
    simp only [step] at h
    split at h
    · simp at h
    · split at h
      · obtain rfl := Option.some.inj h; exact rinv_of_view _ _ (by simp [rview]) hi
      · split at h <;>
          (obtain rfl := Option.some.inj h; exact rinv_of_view _ _ (by simp [rview]) hi)
  | close =>
    simp only [step] at h
    split at h
    · obtain rfl := Option.some.inj h; exact rinv_of_view _ _ (by simp [rview]) hi
    · simp at h
  | dropReceiver =>
    simp only [step] at h
    split at h
    · obtain rfl := Option.some.inj h; exact rinv_of_view _ _ (by simp [rview]) hi
    · simp at h

end Remoc.Link
