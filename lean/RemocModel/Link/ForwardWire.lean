import RemocModel.Link.ForwardReach
set_option linter.unusedSimpArgs false
set_option linter.unusedVariables false

/-!
# The ids the forwarder puts on the downstream wire

`portIds fs`: the ids carried by the `PortData` frames of a frame list, in order.  Invariant: as long as no
downstream operation failed or was abandoned, the ids in the port frames emitted downstream, followed by the ids
the `connect` in progress has still to send, are exactly the ids of the port requests of all forwarded batches
(in order) followed by those of the batch being connected.
-/

namespace Remoc.Link

def Frame.ids : Frame → List Nat
  | .ports ids _ _ => ids
  | _ => []

def portIds (fs : List Frame) : List Nat := fs.flatMap Frame.ids

/-- ids the port batch in progress has still to send -/
def curRest (st : State) : List Nat :=
  match st.s.cur with
  | some (.portReqs rest) => rest
  | _ => []

/-- ids handed to `tx.connect` so far: forwarded batches, then the batch being connected -/
def Phase.connIds : Phase → List Nat
  | .connect _ ports => ports.map (·.id)
  | _ => []

def wireIds (f : Fwd) : List Nat := f.batches.flatMap (fun B => B.ports.map (·.id)) ++ f.ph.connIds

def WireInv (f : Fwd) : Prop := f.ph ≠ .done .errSend → portIds f.b.emitted ++ curRest f.b = wireIds f

theorem portIds_snoc (fs : List Frame) (g : Frame) : portIds (fs ++ [g]) = portIds fs ++ g.ids := by
  simp [portIds]

/-- steps of the downstream link other than `emit`: the emitted frames change by at most a `finish` -/
theorem step_emitted (c : Cfg) (st st' : State) (l : Label) (hl : l ≠ .emit) (h : step c st l = some st') :
    portIds st'.emitted = portIds st.emitted := by
  cases l <;> (first | exact absurd rfl hl | skip) <;> simp only [step] at h <;> (repeat' split at h) <;>
    first
      | (simp at h; done)
      | (obtain rfl := Option.some.inj h; rfl)
      | (obtain rfl := Option.some.inj h; simp [portIds_snoc, Frame.ids])

/-- one `emit`: the ids of the frame plus what remains are what remained before -/
theorem emit_ids (c : Cfg) (st st' : State) (h : step c st .emit = some st') :
    portIds st'.emitted ++ curRest st' = portIds st.emitted ++ curRest st := by
  cases hx : st.s.cur with
  | none => simp [step, hx] at h
  | some x =>
    have hem : st'.emitted = st.emitted ++ [(emitFrame c x st.s.held st.s.first).1] ∧
        st'.s.cur = (emitFrame c x st.s.held st.s.first).2 := by
      simp only [step, hx] at h
      split at h
      · split at h
        · obtain rfl := Option.some.inj h; exact ⟨rfl, rfl⟩
        · rename_i hn
          have hnone : (emitFrame c x st.s.held st.s.first).2 = none := by
            cases hq : (emitFrame c x st.s.held st.s.first).2 with
            | none => rfl
            | some _ => simp [hq] at hn
          split at h <;> (obtain rfl := Option.some.inj h; exact ⟨rfl, hnone.symm⟩)
      · simp at h
    obtain ⟨he, hc⟩ := hem
    rw [he, portIds_snoc]
    cases x with
    | bytes rest e fin =>
      have h1 : ((emitFrame c (.bytes rest e fin) st.s.held st.s.first).1).ids = [] := by
        cases e <;> simp [emitFrame, Frame.ids]
      have h2 : curRest st' = [] := by
        simp only [curRest, hc]
        cases e
        · simp only [emitFrame]
          by_cases hemp : (rest.drop (min (min rest.length c.chunk) st.s.held)).isEmpty <;> simp [hemp]
        · simp [emitFrame]
      rw [h1, h2]
      simp [curRest, hx]
    | portReqs rest =>
      have hf : (emitFrame c (.portReqs rest) st.s.held st.s.first).1.ids = rest.take (min c.chunk st.s.held / 4) := by
        simp [emitFrame, Frame.ids]
      have hr : curRest st' = rest.drop (min c.chunk st.s.held / 4) := by
        simp only [curRest, hc, emitFrame]
        by_cases hemp : (rest.drop (min c.chunk st.s.held / 4)).isEmpty
        · have h0 : rest.drop (min c.chunk st.s.held / 4) = [] := by simpa using hemp
          simp [hemp, h0]
        · simp [hemp]
      rw [hf, hr, List.append_assoc, List.take_append_drop]
      simp [curRest, hx]

end Remoc.Link
