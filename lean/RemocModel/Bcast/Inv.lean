import RemocModel.Bcast.Scan
/-
The per-subscriber invariant of M_bcast and its preservation by every label.
-/
namespace Remoc.Bcast

/-- How the scanner state `(e, lp)` at the end of `recvd ++ queue` relates to the number of broadcasts `n`
in each mode.  `e` = index the subscriber's stream expects next, `lp` = stream ends with `Lagged`. -/
def modeOK (n : Nat) (m : Mode) (e : Nat) (lp : Bool) : Prop :=
  match m with
  | .ready => lp = false ∧ e = n
  | .gone => (lp = false ∧ e = n) ∨ (lp = true ∧ e < n)
  | .needLag => lp = false ∧ e < n
  | .needPermit | .inReadyQueue => lp = true ∧ e < n

structure SubInv (n : Nat) (sa : Bool) (sb : Sub) : Prop where
  recvdOk : ∃ r, scan (sb.start, false) sb.recvd = some r
  live : sb.alive = true →
    ∃ e lp, scan (sb.start, false) (sb.recvd ++ sb.queue) = some (e, lp) ∧ modeOK n sb.mode e lp
      ∧ sb.queue.length ≤ sb.cap ∧ (sb.mode = .inReadyQueue → sb.queue.length < sb.cap)
  noLag : sb.everFull = false → Msg.lagged ∉ sb.recvd ++ sb.queue ∧ (sb.mode = .ready ∨ sb.mode = .gone)
  goneAlive : sb.alive = true → sb.mode = .gone → sa = false
  closedGone : sb.chClosed = true → sb.mode = .gone
  sawClosed : sb.sawClosed = true → sb.chClosed = true
  dead : sb.alive = false → sb.queue = []
  capPos : 0 < sb.cap
  recvdLe : ∀ r, scan (sb.start, false) sb.recvd = some r → r.1 ≤ n

theorem subInv_new (n cap : Nat) (h : 0 < cap) : SubInv n true { cap := cap, start := n } := by
  refine ⟨⟨_, rfl⟩, fun _ => ⟨n, false, rfl, ⟨rfl, rfl⟩, by simp, by simp⟩, fun _ => by simp, ?_, ?_, ?_, ?_, h, ?_⟩ <;> simp [scan]

/-- `sendOne` on a live subscriber that is (now) in `subs` -/
theorem subInv_sendReady {n : Nat} {sb : Sub} (h : SubInv n true sb) (ha : sb.alive = true)
    (hm : sb.mode = .ready ∨ sb.mode = .inReadyQueue) :
    SubInv (n + 1) true
      (if sb.queue.length < sb.cap then { sb with mode := .ready, queue := sb.queue ++ [.value n] }
       else { sb with mode := .needLag, everFull := true }) := by
  obtain ⟨h1, h2, h3, h4, h5, h6, h7, h8, h9⟩ := h
  obtain ⟨e, lp, hs, hmo, hl, hrq⟩ := h2 ha
  by_cases hc : sb.queue.length < sb.cap
  · simp only [hc, if_true]
    have hsc : scan (sb.start, false) (sb.recvd ++ (sb.queue ++ [.value n])) = some (n + 1, false) := by
      rw [← List.append_assoc]
      apply scan_snoc_value hs
      rcases hm with hm | hm <;> simp only [hm, modeOK] at hmo <;> obtain ⟨rfl, hmo⟩ := hmo <;> simp <;> omega
    refine ⟨h1, fun _ => ⟨n + 1, false, hsc, ⟨rfl, rfl⟩, by simp; omega, by simp⟩, ?_, by simp, ?_, h6, by simp [ha], h8, fun r hr => Nat.le_succ_of_le (h9 r hr)⟩
    · intro hf
      have := h3 hf
      refine ⟨?_, Or.inl rfl⟩
      simp only [← List.append_assoc, List.mem_append, not_or]
      exact ⟨by simpa using this.1, by simp⟩
    · intro hcl; have := h5 hcl; rcases hm with hm | hm <;> simp [hm] at this
  · simp only [hc, if_false]
    have hrdy : sb.mode = .ready := by
      rcases hm with hm | hm
      · exact hm
      · exact absurd (hrq hm) hc
    simp only [hrdy, modeOK] at hmo
    obtain ⟨rfl, rfl⟩ := hmo
    refine ⟨h1, fun _ => ⟨e, false, hs, ⟨rfl, by omega⟩, hl, by simp⟩, by simp, by simp, ?_, h6, h7, h8, fun r hr => Nat.le_succ_of_le (h9 r hr)⟩
    intro hcl; have := h5 hcl; simp [hrdy] at this

theorem sendOne_eq_ready {n : Nat} {sb : Sub} (ha : sb.alive = true)
    (hm : sb.mode = .ready ∨ sb.mode = .inReadyQueue) :
    sendOne n sb =
      (if sb.queue.length < sb.cap then { sb with mode := .ready, queue := sb.queue ++ [.value n] }
       else { sb with mode := .needLag, everFull := true }) := by
  unfold sendOne
  rcases hm with hm | hm <;> simp [hm, ha]

theorem subInv_sendOne {n : Nat} {sb : Sub} (h : SubInv n true sb) : SubInv (n + 1) true (sendOne n sb) := by
  by_cases hm : sb.mode = .ready ∨ sb.mode = .inReadyQueue
  · by_cases ha : sb.alive = true
    · rw [sendOne_eq_ready ha hm]; exact subInv_sendReady h ha hm
    · -- dead receiver noticed: forgotten
      simp only [Bool.not_eq_true] at ha
      have : sendOne n sb = { sb with mode := .gone } := by
        unfold sendOne; rcases hm with hm | hm <;> simp [hm, ha]
      rw [this]
      obtain ⟨h1, h2, h3, h4, h5, h6, h7, h8, h9⟩ := h
      refine ⟨h1, by simp [ha], ?_, by simp [ha], by simp, h6, h7, h8, fun r hr => Nat.le_succ_of_le (h9 r hr)⟩
      intro hf; exact ⟨(h3 hf).1, Or.inr rfl⟩
  · -- parked or gone: untouched
    have : sendOne n sb = sb := by
      unfold sendOne
      cases hmode : sb.mode <;> simp_all
    rw [this]
    obtain ⟨h1, h2, h3, h4, h5, h6, h7, h8, h9⟩ := h
    refine ⟨h1, ?_, ?_, h4, h5, h6, h7, h8, fun r hr => Nat.le_succ_of_le (h9 r hr)⟩
    · intro ha
      obtain ⟨e, lp, hs, hmo, hl⟩ := h2 ha
      refine ⟨e, lp, hs, ?_, hl⟩
      cases hmode : sb.mode <;> simp_all [modeOK]
      · omega
      · omega
    · intro hf
      have := h3 hf
      rcases this.2 with h | h
      · exact absurd (Or.inl h) hm
      · exact ⟨this.1, Or.inr h⟩

theorem subInv_parkLag {n : Nat} {sa : Bool} {sb sb' : Sub} (h : SubInv n sa sb) (hs : parkLag sb = some sb') :
    SubInv n sa sb' := by
  obtain ⟨h1, h2, h3, h4, h5, h6, h7, h8, h9⟩ := h
  unfold parkLag at hs
  split at hs
  · rename_i hm
    split at hs
    · rename_i ha
      simp only [Bool.not_eq_eq_eq_not, Bool.not_true] at ha
      simp only [Option.some.injEq] at hs; subst hs
      refine ⟨h1, by simp [ha], ?_, by simp, ?_, h6, h7, h8, h9⟩
      · intro hf; have := (h3 hf).2; simp [hm] at this
      · intro hcl; have := h5 hcl; simp [hm] at this
    · rename_i ha
      simp only [Bool.not_eq_eq_eq_not, Bool.not_true, Bool.not_eq_false] at ha
      split at hs
      · rename_i hc
        simp only [Option.some.injEq] at hs; subst hs
        obtain ⟨e, lp, hsc, hmo, hl, _⟩ := h2 ha
        simp only [hm, modeOK] at hmo
        obtain ⟨rfl, hlt⟩ := hmo
        refine ⟨h1, fun _ => ⟨e, true, ?_, ⟨rfl, hlt⟩, by simp; omega, by simp⟩, ?_, by simp, ?_, h6, by simp [ha], h8, h9⟩
        · rw [← List.append_assoc]; exact scan_snoc_lagged hsc
        · intro hf; have := (h3 hf).2; simp [hm] at this
        · intro hcl; have := h5 hcl; simp [hm] at this
      · simp at hs
  · simp at hs

theorem subInv_parkPermit {n : Nat} {sa : Bool} {sb sb' : Sub} (h : SubInv n sa sb)
    (hs : parkPermit sa sb = some sb') : SubInv n sa sb' := by
  obtain ⟨h1, h2, h3, h4, h5, h6, h7, h8, h9⟩ := h
  unfold parkPermit at hs
  split at hs
  · rename_i hm
    split at hs
    · rename_i hc
      simp only [Option.some.injEq] at hs; subst hs
      refine ⟨h1, ?_, ?_, ?_, ?_, h6, h7, h8, h9⟩
      · intro ha
        have ha : sb.alive = true := ha
        have hc : sb.queue.length < sb.cap := by simpa [ha] using hc
        obtain ⟨e, lp, hsc, hmo, hl, _⟩ := h2 ha
        simp only [hm, modeOK] at hmo
        refine ⟨e, lp, hsc, ?_, hl, fun _ => hc⟩
        cases sa <;> simp [modeOK, hmo]
      · intro hf; have := (h3 hf).2; simp [hm] at this
      · intro _ hg; cases sa <;> simp_all
      · intro hcl; have := h5 hcl; simp [hm] at this
    · simp at hs
  · simp at hs

theorem subInv_finishClose {n : Nat} {sa : Bool} {sb sb' : Sub} (h : SubInv n sa sb)
    (hs : finishCloseSub sb = some sb') : SubInv n sa sb' := by
  obtain ⟨h1, h2, h3, h4, h5, h6, h7, h8, h9⟩ := h
  unfold finishCloseSub at hs
  split at hs
  · rename_i hm
    simp only [Option.some.injEq] at hs; subst hs
    exact ⟨h1, h2, h3, h4, fun _ => hm.1, fun _ => rfl, h7, h8, h9⟩
  · simp at hs

theorem subInv_consume {n : Nat} {sa : Bool} {sb sb' : Sub} (h : SubInv n sa sb)
    (hs : consumeSub sb = some sb') : SubInv n sa sb' := by
  obtain ⟨h1, h2, h3, h4, h5, h6, h7, h8, h9⟩ := h
  unfold consumeSub at hs
  split at hs
  · simp at hs
  · rename_i ha
    simp only [Bool.not_eq_eq_eq_not, Bool.not_true, Bool.not_eq_false] at ha
    split at hs
    · rename_i m rest hq
      simp only [Option.some.injEq] at hs; subst hs
      obtain ⟨e, lp, hsc, hmo, hl, hrq⟩ := h2 ha
      have hsc' : scan (sb.start, false) ((sb.recvd ++ [m]) ++ rest) = some (e, lp) := by
        simpa [hq] using hsc
      have hle : e ≤ n := by
        cases hmode : sb.mode <;> simp only [hmode, modeOK] at hmo <;> omega
      refine ⟨scan_prefix hsc', fun _ => ⟨e, lp, hsc', hmo, ?_, ?_⟩, ?_, h4, h5, h6, by simp [ha], h8, ?_⟩
      rotate_left 3
      · intro r hr
        obtain ⟨m', hm1, hm2⟩ := scan_append_some hsc'
        have hr : scan (sb.start, false) (sb.recvd ++ [m]) = some r := hr
        rw [hr] at hm1; cases hm1
        have := scan_mono hm2; simp at this; omega
      · simp [hq] at hl ⊢; omega
      · intro hm; have := hrq hm; simp [hq] at this ⊢; omega
      · intro hf; have := h3 hf; simp [hq] at this ⊢; exact this
    · split at hs
      · rename_i hq hcl
        simp only [Option.some.injEq] at hs; subst hs
        exact ⟨h1, h2, h3, h4, h5, fun _ => hcl, h7, h8, h9⟩
      · simp at hs

theorem subInv_dropSub {n : Nat} {sa : Bool} {sb sb' : Sub} (h : SubInv n sa sb)
    (hs : dropSubF sb = some sb') : SubInv n sa sb' := by
  obtain ⟨h1, h2, h3, h4, h5, h6, h7, h8, h9⟩ := h
  unfold dropSubF at hs
  split at hs
  · simp only [Option.some.injEq] at hs; subst hs
    refine ⟨h1, by simp, ?_, by simp, h5, h6, by simp, h8, h9⟩
    intro hf; have := h3 hf; simp at this ⊢; exact ⟨this.1.1, this.2⟩
  · simp at hs

theorem subInv_dropSender {n : Nat} {sb : Sub} (h : SubInv n true sb) : SubInv n false (dropSenderOne sb) := by
  obtain ⟨h1, h2, h3, h4, h5, h6, h7, h8, h9⟩ := h
  unfold dropSenderOne
  split
  · rename_i hm
    refine ⟨h1, ?_, ?_, by simp, by simp, h6, h7, h8, h9⟩
    · intro ha
      obtain ⟨e, lp, hsc, hmo, hl, _⟩ := h2 ha
      refine ⟨e, lp, hsc, ?_, hl, by simp⟩
      rcases hm with hm | hm <;> simp only [hm, modeOK] at hmo <;> simp [modeOK, hmo]
    · intro hf; exact ⟨(h3 hf).1, Or.inr rfl⟩
  · refine ⟨h1, h2, h3, ?_, h5, h6, h7, h8, h9⟩
    intro ha hg
    have := h4 ha hg; simp at this

/-! ### the global invariant -/

def Inv (s : State) : Prop := ∀ sb ∈ s.subs, SubInv s.n s.senderAlive sb

theorem inv_init : Inv init := by intro sb h; simp [init] at h

theorem inv_updSub {s s' : State} {j : Nat} {f : Sub → Option Sub} (h : Inv s)
    (hf : ∀ sb sb', SubInv s.n s.senderAlive sb → f sb = some sb' → SubInv s.n s.senderAlive sb')
    (hs : updSub s j f = some s') : Inv s' := by
  unfold updSub at hs
  split at hs
  · simp at hs
  · rename_i sb hj
    split at hs
    · simp at hs
    · rename_i sb' hfs
      simp only [Option.some.injEq] at hs; subst hs
      intro x hx
      rcases List.mem_or_eq_of_mem_set hx with hx | rfl
      · exact h x hx
      · exact hf sb x (h sb (List.mem_of_getElem? hj)) hfs

theorem inv_step {s s' : State} {l : Label} (h : Inv s) (hs : step s l = some s') : Inv s' := by
  cases l with
  | send =>
    simp only [step] at hs
    split at hs
    · rename_i hsa
      simp only [Option.some.injEq] at hs; subst hs
      intro x hx
      simp only [List.mem_map] at hx
      obtain ⟨sb, hsb, rfl⟩ := hx
      have := h sb hsb
      rw [hsa] at this
      simpa [hsa] using subInv_sendOne this
    · simp at hs
  | parkSendLag j => exact inv_updSub h (fun _ _ hi hf => subInv_parkLag hi hf) hs
  | parkGotPermit j => exact inv_updSub h (fun _ _ hi hf => subInv_parkPermit hi hf) hs
  | finishClose j => exact inv_updSub h (fun _ _ hi hf => subInv_finishClose hi hf) hs
  | consume j => exact inv_updSub h (fun _ _ hi hf => subInv_consume hi hf) hs
  | dropSub j => exact inv_updSub h (fun _ _ hi hf => subInv_dropSub hi hf) hs
  | subscribe cap =>
    simp only [step] at hs
    split at hs
    · rename_i hc
      simp only [Option.some.injEq] at hs; subst hs
      intro x hx
      simp only [List.mem_append, List.mem_singleton] at hx
      rcases hx with hx | rfl
      · exact h x hx
      · simpa [hc.1] using subInv_new s.n cap hc.2
    · simp at hs
  | dropSender =>
    simp only [step] at hs
    split at hs
    · rename_i hsa
      simp only [Option.some.injEq] at hs; subst hs
      intro x hx
      simp only [List.mem_map] at hx
      obtain ⟨sb, hsb, rfl⟩ := hx
      have := h sb hsb
      rw [hsa] at this
      exact subInv_dropSender this
    · simp at hs

theorem inv_run {s : State} (h : Inv s) (ls : List Label) : Inv (run s ls) := by
  induction ls generalizing s with
  | nil => exact h
  | cons l ls ih =>
    simp only [run]
    split
    · rename_i s' hs; exact ih (inv_step h hs)
    · exact ih h

theorem inv_reachable {s : State} (h : Reachable s) : Inv s := by
  obtain ⟨ls, rfl⟩ := h
  exact inv_run inv_init ls

end Remoc.Bcast
