/-
M_bcast — model of `remoc::rch::broadcast` (sender.rs, receiver.rs, mod.rs at the pinned commit).

Real code, in short.  `Sender` = `Arc<Mutex<SenderInner>>` with
  `subs`      : Vec of per-subscriber `rch::mpsc::Sender<BroadcastMsg<T>>` (the subscribers that get the
                next value),
  `ready_rx`  : unbounded queue through which parked subscribers come back,
  `not_ready` : number of subscribers currently parked (or sitting in `ready_rx`).
Every subscriber owns one bounded `rch::mpsc` channel (`send_buffer` slots, a Tokio mpsc underneath)
carrying `BroadcastMsg::Value(v) | BroadcastMsg::Lagged`.

`Sender::send(v)` is a plain (non-async) function that holds the mutex for its whole body:
  1. drain `ready_rx` into `subs` (`not_ready -= 1` each);
  2. for every sub in `subs`: `try_send(Value(v))`
       Ok      -> keep;
       Full    -> spawn the *parking task* for this sub, `not_ready += 1`, sub leaves `subs`;
       Closed  -> forget the sub (receiver dropped);
  3. `Ok(..)` unless `subs` is empty and `not_ready == 0`, then `Err(Closed(v))`.
The parking task is
      let _ = sub.send(Lagged).await;          // waits for a free slot, queues the marker
      let _permit = sub.reserve().await;       // waits until there is room for the next value
      let _ = ready_tx.send(sub);              // back to the sender; the permit is released right after
`Receiver::recv` pops the subscriber's queue: `Value(v)` -> `Ok(v)`, `Lagged` -> `Err(Lagged)`,
channel closed and empty -> `Err(Closed)`.

Model.  One record per subscriber (identified by its subscription number), a `mode` that says where
the subscriber's mpsc sender currently lives, and ghost history.  Values are modelled by their
broadcast index (the number of `send` calls before them).  One label per await-free block.
No Mathlib.
-/
namespace Remoc.Bcast

/-- `BroadcastMsg<T>` with the value replaced by its broadcast index. -/
inductive Msg where
  | value (i : Nat)
  | lagged
  deriving DecidableEq, Repr, Inhabited

/-- Where the subscriber's `mpsc::Sender` currently is. -/
inductive Mode where
  | ready          -- in `SenderInner.subs`: gets the next value
  | needLag        -- parking task spawned, `sub.send(Lagged).await` not yet completed
  | needPermit     -- `Lagged` is queued, `sub.reserve().await` not yet completed
  | inReadyQueue   -- handed back through `ready_tx`, not yet drained by a `send`
  | gone           -- the broadcast side holds no handle any more (dead receiver noticed, or sender dropped)
  deriving DecidableEq, Repr, Inhabited

structure Sub where
  cap : Nat                 -- `send_buffer` of `subscribe`
  queue : List Msg := []    -- the subscriber's mpsc queue (head = oldest)
  mode : Mode := .ready
  alive : Bool := true      -- the `Receiver` has not been dropped
  chClosed : Bool := false  -- every Tokio sender of the queue is gone (receiver sees end of stream)
  -- ghost
  start : Nat               -- broadcast index of the first value sent after `subscribe`
  recvd : List Msg := []    -- what `recv`/`try_recv` returned so far, in order
  sawClosed : Bool := false -- `recv` returned `Closed`
  everFull : Bool := false  -- some `send` found this subscriber's queue full
  deriving DecidableEq, Repr, Inhabited

structure State where
  subs : List Sub := []
  n : Nat := 0               -- number of `send` calls so far = index of the next broadcast value
  senderAlive : Bool := true -- at least one clone of the broadcast `Sender` exists
  deriving DecidableEq, Repr, Inhabited

def init : State := {}

inductive Label where
  | send                       -- `Sender::send(v)`, whole body (it is not async, the mutex is held)
  | parkSendLag (j : Nat)      -- parking task of sub j: `sub.send(Lagged).await` completes
  | parkGotPermit (j : Nat)    -- parking task of sub j: `reserve().await` completes, `ready_tx.send(sub)`, permit released
  | finishClose (j : Nat)      -- the helper task of `mpsc::Sender::new` drops the last Tokio sender of sub j
  | consume (j : Nat)          -- `Receiver::recv`/`try_recv` of sub j returns (value, Lagged or Closed)
  | subscribe (cap : Nat)      -- `Sender::subscribe(send_buffer = cap)`
  | dropSub (j : Nat)          -- the `Receiver` of sub j is dropped
  | dropSender                 -- the last clone of the broadcast `Sender` is dropped
  deriving DecidableEq, Repr

/-- labels the runtime performs on its own (spawned tasks) -/
def Label.internal : Label → Bool
  | .parkSendLag _ | .parkGotPermit _ | .finishClose _ => true
  | _ => false

/-! ### per-subscriber parts of the transitions -/

/-- Step 1 and 2 of `Sender::send` for one subscriber; `n` is the index of the value being broadcast. -/
def sendOne (n : Nat) (sb : Sub) : Sub :=
  -- 1. `while let Ok(sub) = ready_rx.try_recv() { subs.push(sub) }`
  let sb := if sb.mode = .inReadyQueue then { sb with mode := .ready } else sb
  match sb.mode with
  | .ready =>
    if !sb.alive then { sb with mode := .gone }                                    -- `TrySendError::Closed`
    else if sb.queue.length < sb.cap then { sb with queue := sb.queue ++ [.value n] }  -- `Ok(sent)`
    else { sb with mode := .needLag, everFull := true }                           -- `Full`: parking task spawned
  | _ => sb                                                                        -- parked subscribers are not touched

/-- `sub.send(BroadcastMsg::Lagged).await` completes. -/
def parkLag (sb : Sub) : Option Sub :=
  if sb.mode = .needLag then
    if !sb.alive then some { sb with mode := .needPermit }            -- `Err(Closed)`, ignored
    else if sb.queue.length < sb.cap then some { sb with queue := sb.queue ++ [.lagged], mode := .needPermit }
    else none                                                         -- still waiting for a slot
  else none

/-- `sub.reserve().await` completes; `ready_tx.send(sub)`; the permit is dropped at the end of the block. -/
def parkPermit (senderAlive : Bool) (sb : Sub) : Option Sub :=
  if sb.mode = .needPermit then
    if !sb.alive ∨ sb.queue.length < sb.cap then
      -- `ready_tx.send(sub)` fails when `ready_rx` is gone (sender dropped): the sub is dropped
      some { sb with mode := if senderAlive then .inReadyQueue else .gone }
    else none
  else none

def finishCloseSub (sb : Sub) : Option Sub :=
  if sb.mode = .gone ∧ !sb.chClosed then some { sb with chClosed := true } else none

/-- `recv`: pop the queue; on an empty queue `Closed` once the channel is closed, otherwise pending. -/
def consumeSub (sb : Sub) : Option Sub :=
  if !sb.alive then none else
  match sb.queue with
  | m :: rest => some { sb with queue := rest, recvd := sb.recvd ++ [m] }
  | [] => if sb.chClosed then some { sb with sawClosed := true } else none

def dropSubF (sb : Sub) : Option Sub :=
  if sb.alive then some { sb with alive := false, queue := [] } else none

/-- the last broadcast `Sender` is dropped: `subs` and `ready_rx` (with their contents) are dropped -/
def dropSenderOne (sb : Sub) : Sub :=
  if sb.mode = .ready ∨ sb.mode = .inReadyQueue then { sb with mode := .gone } else sb

def updSub (s : State) (j : Nat) (f : Sub → Option Sub) : Option State :=
  match s.subs[j]? with
  | none => none
  | some sb =>
    match f sb with
    | none => none
    | some sb' => some { s with subs := s.subs.set j sb' }

def step (s : State) : Label → Option State
  | .send =>
    if s.senderAlive then some { s with subs := s.subs.map (sendOne s.n), n := s.n + 1 } else none
  | .parkSendLag j => updSub s j parkLag
  | .parkGotPermit j => updSub s j (parkPermit s.senderAlive)
  | .finishClose j => updSub s j finishCloseSub
  | .consume j => updSub s j consumeSub
  | .subscribe cap =>
    if s.senderAlive ∧ 0 < cap then some { s with subs := s.subs ++ [{ cap := cap, start := s.n }] } else none
  | .dropSub j => updSub s j dropSubF
  | .dropSender =>
    if s.senderAlive then some { s with subs := s.subs.map dropSenderOne, senderAlive := false } else none

/-- Result of `Sender::send` as seen by the caller, evaluated on the state *after* the step:
`Ok` unless `subs` is empty and `not_ready == 0`. -/
def sendOk (s' : State) : Bool := s'.subs.any (fun sb => sb.mode != .gone)

def run (s : State) : List Label → State
  | [] => s
  | l :: ls => match step s l with
    | some s' => run s' ls
    | none => run s ls

def Reachable (s : State) : Prop := ∃ ls, run init ls = s

/-- no spawned task can make progress -/
def Quiescent (s : State) : Prop := ∀ l, l.internal = true → step s l = none

/-! ### the per-subscriber property as a decidable predicate on a received sequence -/

/-- Scanner over a subscriber's message sequence.  State: the broadcast index expected next and whether
the last thing seen was a `Lagged` (gap announced, not yet closed by a value).
Accepts exactly: values consecutive in broadcast index, except after a `Lagged`, where the next value
must skip at least one index; never two `Lagged` in a row. -/
def scan : Nat × Bool → List Msg → Option (Nat × Bool)
  | st, [] => some st
  | (e, false), .value i :: r => if i = e then scan (e + 1, false) r else none
  | (e, true), .value i :: r => if e < i then scan (i + 1, false) r else none
  | (e, false), .lagged :: r => scan (e, true) r
  | (_, true), .lagged :: _ => none

/-- the values of a message sequence -/
def values : List Msg → List Nat
  | [] => []
  | .value i :: r => i :: values r
  | .lagged :: r => values r

end Remoc.Bcast
