import RemocModel.Bcast.Model
/-
Non-interference in M_bcast: what subscriber `j` has and receives is a function of the labels that
concern `j` (broadcasts, subscriptions, the sender drop, and `j`'s own consume/park/drop steps) only.
-/
namespace Remoc.Bcast

/-- labels that are about subscriber `j` or about the broadcast side as a whole -/
def Label.concerns (j : Nat) : Label → Bool
  | .parkSendLag k | .parkGotPermit k | .finishClose k | .consume k | .dropSub k => k == j
  | .send | .subscribe _ | .dropSender => true

/-- everything subscriber `j` can depend on -/
structure View where
  sub : Option Sub
  n : Nat
  senderAlive : Bool
  len : Nat
  deriving DecidableEq

def view (j : Nat) (s : State) : View := ⟨s.subs[j]?, s.n, s.senderAlive, s.subs.length⟩

def stepOrStay (s : State) (l : Label) : State := (step s l).getD s

theorem run_cons (s : State) (l : Label) (ls : List Label) : run s (l :: ls) = run (stepOrStay s l) ls := by
  simp only [run, stepOrStay]; cases step s l <;> rfl

theorem view_updSub_other {s : State} {j k : Nat} (f : Sub → Option Sub) (hk : k ≠ j) :
    view j ((updSub s k f).getD s) = view j s := by
  unfold updSub
  split
  · rfl
  · split
    · rfl
    · simp [view, List.getElem?_set, hk]

theorem view_updSub_same {s t : State} {j : Nat} (f : Sub → Option Sub) (h : view j s = view j t) :
    view j ((updSub s j f).getD s) = view j ((updSub t j f).getD t) := by
  obtain ⟨ss, sn, sa⟩ := s
  obtain ⟨ts, tn, ta⟩ := t
  simp only [view, View.mk.injEq] at h
  obtain ⟨h1, rfl, rfl, h4⟩ := h
  unfold updSub
  simp only [← h1]
  cases hs : ss[j]? with
  | none => simp [view, ← h1, hs, h4]
  | some sb =>
    cases hf : f sb with
    | none => simp only [hf]; simp [view, ← h1, hs, h4]
    | some sb' =>
      have hj : j < ss.length := (List.getElem?_eq_some_iff.mp hs).1
      have hj' : j < ts.length := h4 ▸ hj
      simp only [hf]
      simp [view, List.getElem?_set, hj, hj', h4]

theorem view_step_other {s : State} {j : Nat} {l : Label} (h : l.concerns j = false) :
    view j (stepOrStay s l) = view j s := by
  cases l <;> simp only [Label.concerns, beq_eq_false_iff_ne, ne_eq, Bool.true_eq_false] at h
    <;> exact view_updSub_other _ h

theorem view_step_same {s t : State} {j : Nat} {l : Label} (hl : l.concerns j = true)
    (h : view j s = view j t) : view j (stepOrStay s l) = view j (stepOrStay t l) := by
  cases l with
  | parkSendLag k => simp [Label.concerns] at hl; subst hl; exact view_updSub_same _ h
  | parkGotPermit k =>
    simp [Label.concerns] at hl; subst hl
    have hsa : s.senderAlive = t.senderAlive := by simp only [view, View.mk.injEq] at h; exact h.2.2.1
    simp only [stepOrStay, step, hsa]
    exact view_updSub_same _ h
  | finishClose k => simp [Label.concerns] at hl; subst hl; exact view_updSub_same _ h
  | consume k => simp [Label.concerns] at hl; subst hl; exact view_updSub_same _ h
  | dropSub k => simp [Label.concerns] at hl; subst hl; exact view_updSub_same _ h
  | send =>
    obtain ⟨ss, sn, sa⟩ := s
    obtain ⟨ts, tn, ta⟩ := t
    simp only [view, View.mk.injEq] at h
    obtain ⟨h1, rfl, rfl, h4⟩ := h
    simp only [stepOrStay, step]
    cases sa <;> simp [view, h1, h4]
  | subscribe cap =>
    obtain ⟨ss, sn, sa⟩ := s
    obtain ⟨ts, tn, ta⟩ := t
    simp only [view, View.mk.injEq] at h
    obtain ⟨h1, rfl, rfl, h4⟩ := h
    simp only [stepOrStay, step]
    by_cases hc : sa = true ∧ 0 < cap
    · simp [hc, view, List.getElem?_append, h1, h4]
    · simp [hc, view, h1, h4]
  | dropSender =>
    obtain ⟨ss, sn, sa⟩ := s
    obtain ⟨ts, tn, ta⟩ := t
    simp only [view, View.mk.injEq] at h
    obtain ⟨h1, rfl, rfl, h4⟩ := h
    simp only [stepOrStay, step]
    cases sa <;> simp [view, h1, h4]

/-- Runs that agree on the labels concerning `j` agree on everything subscriber `j` has and received. -/
theorem view_run_filter (j : Nat) (ls : List Label) {s t : State} (h : view j s = view j t) :
    view j (run s ls) = view j (run t (ls.filter (Label.concerns j))) := by
  induction ls generalizing s t with
  | nil => simpa [run] using h
  | cons l ls ih =>
    rw [run_cons]
    by_cases hl : l.concerns j = true
    · rw [List.filter_cons_of_pos hl, run_cons]
      exact ih (view_step_same hl h)
    · simp only [Bool.not_eq_true] at hl
      rw [List.filter_cons_of_neg (by simp [hl])]
      exact ih ((view_step_other hl).trans h)

end Remoc.Bcast
