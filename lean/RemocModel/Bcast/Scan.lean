import RemocModel.Bcast.Model
/-
Pure list facts about the scanner `scan` (the per-subscriber predicate of C16):
what an accepted sequence looks like.
-/
namespace Remoc.Bcast

theorem scan_append (st : Nat × Bool) (a b : List Msg) :
    scan st (a ++ b) = (scan st a).bind (fun st' => scan st' b) := by
  induction a generalizing st with
  | nil => simp [scan]
  | cons m r ih =>
    obtain ⟨e, lp⟩ := st
    cases m <;> cases lp <;> simp only [List.cons_append, scan] <;> (try split) <;> simp [ih]

theorem scan_append_some {st r : Nat × Bool} {a b : List Msg} (h : scan st (a ++ b) = some r) :
    ∃ m, scan st a = some m ∧ scan m b = some r := by
  rw [scan_append] at h
  cases hm : scan st a with
  | none => simp [hm] at h
  | some m => exact ⟨m, rfl, by simpa [hm] using h⟩

theorem scan_prefix {st r : Nat × Bool} {a b : List Msg} (h : scan st (a ++ b) = some r) :
    ∃ m, scan st a = some m := by
  obtain ⟨m, hm, _⟩ := scan_append_some h
  exact ⟨m, hm⟩

theorem scan_snoc_value {st : Nat × Bool} {a : List Msg} {e n : Nat} {lp : Bool}
    (h : scan st a = some (e, lp)) (hn : if lp then e < n else n = e) :
    scan st (a ++ [.value n]) = some (n + 1, false) := by
  rw [scan_append, h]
  cases lp <;> simp_all [scan]

theorem scan_snoc_lagged {st : Nat × Bool} {a : List Msg} {e : Nat}
    (h : scan st a = some (e, false)) :
    scan st (a ++ [.lagged]) = some (e, true) := by
  rw [scan_append, h]; simp [scan]

/-- the expected index never decreases -/
theorem scan_mono {st r : Nat × Bool} {a : List Msg} (h : scan st a = some r) : st.1 ≤ r.1 := by
  induction a generalizing st with
  | nil => simp [scan] at h; subst h; exact Nat.le_refl _
  | cons m t ih =>
    obtain ⟨e, lp⟩ := st
    cases m <;> cases lp <;> simp only [scan] at h
    · split at h
      · have := ih h; simp at this ⊢; omega
      · simp at h
    · split at h
      · have := ih h; simp at this ⊢; omega
      · simp at h
    · have := ih h; simpa using this
    · simp at h

/-- every value of an accepted sequence is at least the expected index at its start, and below the one at its end;
after a `Lagged` it is strictly above the start index -/
theorem scan_values_bounds {st r : Nat × Bool} {a : List Msg} (h : scan st a = some r) :
    ∀ v ∈ values a, (if st.2 then st.1 < v else st.1 ≤ v) ∧ v < r.1 := by
  induction a generalizing st with
  | nil => simp [values]
  | cons m t ih =>
    obtain ⟨e, lp⟩ := st
    cases m <;> cases lp <;> simp only [scan] at h
    · split at h
      · rename_i i hi
        subst hi
        intro v hv
        simp only [values, List.mem_cons] at hv
        rcases hv with rfl | hv
        · have := scan_mono h; simp at this ⊢; omega
        · have := ih h v hv; simp at this ⊢; omega
      · simp at h
    · split at h
      · rename_i i hi
        intro v hv
        simp only [values, List.mem_cons] at hv
        rcases hv with rfl | hv
        · have := scan_mono h; simp at this ⊢; omega
        · have := ih h v hv; simp at this ⊢; omega
      · simp at h
    · intro v hv
      simp only [values] at hv
      have := ih h v hv; simp at this ⊢; omega
    · simp at h

/-- values of an accepted sequence are strictly increasing -/
theorem scan_values_increasing {st r : Nat × Bool} {a : List Msg} (h : scan st a = some r) :
    (values a).Pairwise (· < ·) := by
  induction a generalizing st with
  | nil => simp [values]
  | cons m t ih =>
    obtain ⟨e, lp⟩ := st
    cases m <;> cases lp <;> simp only [scan] at h
    · split at h
      · simp only [values, List.pairwise_cons]
        refine ⟨fun v hv => ?_, ih h⟩
        have := (scan_values_bounds h v hv).1; simp at this; omega
      · simp at h
    · split at h
      · simp only [values, List.pairwise_cons]
        refine ⟨fun v hv => ?_, ih h⟩
        have := (scan_values_bounds h v hv).1; simp at this; omega
      · simp at h
    · simpa [values] using ih h
    · simp at h

theorem values_append (a b : List Msg) : values (a ++ b) = values a ++ values b := by
  induction a with
  | nil => rfl
  | cons m t ih => cases m <;> simp [values, ih]

/-- a sequence without values consists of `Lagged` only -/
theorem eq_replicate_of_values_nil {a : List Msg} (h : values a = []) : ∀ m ∈ a, m = .lagged := by
  induction a with
  | nil => simp
  | cons m t ih =>
    cases m with
    | value i => simp [values] at h
    | lagged => intro m hm; simp only [List.mem_cons] at hm; rcases hm with rfl | hm; rfl; exact ih (by simpa [values] using h) m hm

/-- what can stand between a state and the next value: nothing or exactly one `Lagged` -/
theorem scan_lags_then_value {e j : Nat} {lp : Bool} {mid post : List Msg} {r : Nat × Bool}
    (hmid : values mid = [])
    (h : scan (e, lp) (mid ++ .value j :: post) = some r) :
    (mid = [] ∧ (if lp then e < j else j = e)) ∨ (mid = [.lagged] ∧ lp = false ∧ e < j) := by
  cases mid with
  | nil =>
    left; refine ⟨rfl, ?_⟩
    cases lp <;> simp only [List.nil_append, scan] at h <;> split at h <;> simp_all
  | cons m t =>
    right
    cases m with
    | value i => simp [values] at hmid
    | lagged =>
      cases lp with
      | true => simp [scan] at h
      | false =>
        simp only [List.cons_append, scan] at h
        cases t with
        | nil =>
          simp only [List.nil_append, scan] at h
          split at h <;> simp_all
        | cons m2 t2 =>
          cases m2 with
          | value i => simp [values] at hmid
          | lagged => simp [scan] at h

/-- no `Lagged` in the sequence: it is exactly the consecutive indices from the start -/
theorem scan_no_lag {e : Nat} {a : List Msg} {r : Nat × Bool}
    (hno : Msg.lagged ∉ a) (h : scan (e, false) a = some r) :
    r.2 = false ∧ e ≤ r.1 ∧ a = (List.range' e (r.1 - e)).map Msg.value := by
  induction a generalizing e with
  | nil => simp [scan] at h; subst h; simp
  | cons m t ih =>
    cases m with
    | lagged => simp at hno
    | value i =>
      simp only [scan] at h
      split at h
      · rename_i hi
        subst hi
        have hno' : Msg.lagged ∉ t := fun hm => hno (List.mem_cons_of_mem _ hm)
        obtain ⟨h1, h2, h3⟩ := ih hno' h
        refine ⟨h1, by omega, ?_⟩
        have : r.1 - i = (r.1 - (i + 1)) + 1 := by omega
        rw [this, List.range'_succ]
        simp only [List.map_cons]
        rw [← h3]
      · simp at h

theorem scan_value_cons {e i : Nat} {lp : Bool} {rest : List Msg} {r : Nat × Bool}
    (h : scan (e, lp) (.value i :: rest) = some r) : scan (i + 1, false) rest = some r := by
  cases lp <;> simp only [scan] at h <;> split at h <;> simp_all


end Remoc.Bcast
