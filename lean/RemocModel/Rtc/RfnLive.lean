import RemocModel.Rtc.RfnReply
import RemocModel.Rtc.RfnSerial
set_option linter.unusedSimpArgs false
set_option linter.unusedVariables false

/-!
# M_rfn: no call is left pending at quiescence, errors have causes, the provider stops only for a
cause, cancellation freezes an execution
-/

namespace Remoc.Rfn

variable {f : Fun}

/-! ### a finished request has an outcome waiting for its caller -/

structure DN (cfg : Cfg) (s : State f) : Prop where
  done : ∀ c, c < s.n → s.stage c = .done → s.chVal c ≠ none ∨ s.chTx c = true
  /-- the receiving half is gone exactly for the abandoned calls -/
  rx : ∀ c, c < s.n → (s.chRx c = true ↔ s.cl c = .abandoned)
  /-- `closed()` is observed only for a reason -/
  closed : ∀ c, c < s.n → s.chClosed c = true → s.chRx c = true ∨ (cfg.remote = true ∧ s.connUp = false)

theorem dn_init (cfg : Cfg) : DN cfg (init f) := by
  constructor <;> simp [init]

macro "dn_tac" : tactic => `(tactic| (simp_all [upd_apply, endExec] <;> grind))

theorem dn_step (cfg : Cfg) (s s' : State f) (l : Label) (hw : WF s) (hd : DN cfg s)
    (h : step cfg s l = some s') : DN cfg s' := by
  obtain ⟨w1, w2, w3, w4, w5, w6⟩ := hw
  obtain ⟨d1, d2, d3⟩ := hd
  clear w4 w5 w6
  cases l <;> rfn_step_inv h
  all_goals (constructor <;> dn_tac)

/-! ### the provider stops only for a cause -/

def StopCause (cfg : Cfg) (s : State f) : Stop → Prop
  | .provDropped => s.provGone = true
  | .callersGone => s.callersGone = true ∨ (cfg.remote = true ∧ (s.connUp = false ∨ s.poisoned = true))
  | .onceTaken => cfg.fl = .once ∧ deqOrder s.tr ≠ []

structure SP (cfg : Cfg) (s : State f) : Prop where
  stop : ∀ w, s.loop = .stopped w → StopCause cfg s w
  run : ∀ c, s.loop = .running c → deqOrder s.tr ≠ []

theorem sp_init (cfg : Cfg) : SP cfg (init f) := by
  constructor <;> simp [init]

theorem sp_step (cfg : Cfg) (s s' : State f) (l : Label) (hp : SP cfg s)
    (h : step cfg s l = some s') : SP cfg s' := by
  obtain ⟨p1, p2⟩ := hp
  cases l <;> rfn_step_inv h
  all_goals (constructor
             · intro w hw; have := p1 w; cases w <;>
                simp_all [StopCause, endExec, deqOrder_append, deqOrder] <;> grind
             · intro c' hc'; have := p2 c'; simp_all [endExec, deqOrder_append, deqOrder] <;> grind)


/-! ### quiescence -/

theorem WF.lt_of_stage {s : State f} (hw : WF s) {c : Nat} (h : s.stage c ≠ .done) : c < s.n := by
  refine Decidable.byContradiction (fun hc => ?_)
  exact h (hw.fresh c (by omega)).1

theorem WF.lt_of_waiting {s : State f} (hw : WF s) {c : Nat} (h : s.cl c = .waiting) : c < s.n := by
  refine Decidable.byContradiction (fun hc => ?_)
  have := (hw.fresh c (by omega)).2
  rw [h] at this; cases this

/-- an executing request can always take a step: a segment, or (cancel variant) the `closed()` branch -/
theorem exec_enabled (cfg : Cfg) (s : State f) (c : Nat) (hlt : c < s.n) (he : s.stage c = .executing) :
    step cfg s (.execStep c) ≠ none ∨ step cfg s (.execCancel c) ≠ none := by
  by_cases hc : cfg.cancel = true ∧ s.closed c = true
  · right
    simp [step, hlt, he, hc.1, hc.2]
  · left
    simp only [step]
    rw [if_pos ⟨hlt, he, hc⟩]
    split <;> simp

theorem quiescent_no_exec (cfg : Cfg) (s : State f) (hw : WF s) (hq : Quiescent cfg s) (c : Nat) :
    s.stage c ≠ .executing := by
  intro he
  have hlt : c < s.n := hw.lt_of_stage (by rw [he]; simp)
  rcases exec_enabled cfg s c hlt he with h | h
  · exact h (hq (.execStep c) rfl)
  · exact h (hq (.execCancel c) rfl)

theorem quiescent_queue_empty (cfg : Cfg) (s : State f) (hw : WF s) (hs : ST cfg s) (hq : Quiescent cfg s) :
    s.queue = [] := by
  cases hqu : s.queue with
  | nil => rfl
  | cons c q =>
    exfalso
    have hmem : c ∈ s.queue := by rw [hqu]; simp
    have hlt := hw.qlt c hmem
    have hst := (hs.queued c).2 hmem
    have h1 := hq .dequeue rfl
    have h2 := hq .provTerm rfl
    have h3 := hq (.purge c) rfl
    cases hl : s.loop with
    | idle =>
      cases hp : s.provGone with
      | true => simp [step, hl, hp] at h2
      | false =>
        simp only [step, hqu] at h1
        rw [if_pos ⟨hlt, hl, hp⟩] at h1
        split at h1 <;> simp at h1
    | running c' =>
      exact quiescent_no_exec cfg s hw hq c' ((hs.exec c').2 (Or.inl hl))
    | stopped w =>
      simp [step, hlt, hst, hl, Loop.isStopped] at h3

theorem quiescent_all_done (cfg : Cfg) (s : State f) (hw : WF s) (hs : ST cfg s)
    (hcap : 0 < cfg.cap) (hlim : 0 < cfg.limit) (hq : Quiescent cfg s) (c : Nat) : s.stage c = .done := by
  have hqe := quiescent_queue_empty cfg s hw hs hq
  cases hst : s.stage c with
  | done => rfl
  | executing => exact absurd hst (quiescent_no_exec cfg s hw hq c)
  | queued =>
    have := (hs.queued c).1 hst
    rw [hqe] at this; cases this
  | replying r =>
    exfalso
    have hlt : c < s.n := hw.lt_of_stage (by rw [hst]; simp)
    have h1 := hq (.deliver c) rfl
    simp only [step, hst] at h1
    rw [if_neg (by omega)] at h1
    split at h1 <;> simp at h1
  | spawned =>
    exfalso
    have hlt : c < s.n := hw.lt_of_stage (by rw [hst]; simp)
    have h1 := hq (.permit c) rfl
    simp only [step] at h1
    have hge : ¬ s.execs.length < cfg.limit := by
      intro hlt'
      rw [if_pos ⟨hlt, hst, hlt'⟩] at h1
      simp at h1
    cases hex : s.execs with
    | nil => rw [hex] at hge; simp at hge; omega
    | cons c' t =>
      have hm : c' ∈ s.execs := by rw [hex]; simp
      exact quiescent_no_exec cfg s hw hq c' ((hs.exec c').2 (Or.inr hm))
  | sending =>
    exfalso
    have hlt : c < s.n := hw.lt_of_stage (by rw [hst]; simp)
    have h1 := hq (.enqueue c) rfl
    have h2 := hq (.sendFail c) rfl
    cases hd : deliverable cfg s c with
    | true =>
      simp only [step] at h1
      rw [if_pos ⟨hlt, hst, hd, by rw [hqe]; simpa using hcap⟩] at h1
      simp at h1
    | false =>
      simp only [step] at h2
      rw [if_pos ⟨hlt, hst, hd⟩] at h2
      simp at h2

theorem quiescent_no_waiting (cfg : Cfg) (s : State f) (hw : WF s) (hs : ST cfg s) (hd : DN cfg s)
    (hcap : 0 < cfg.cap) (hlim : 0 < cfg.limit) (hq : Quiescent cfg s) (c : Nat) : s.cl c ≠ .waiting := by
  intro hcl
  have hlt := hw.lt_of_waiting hcl
  have hdone := quiescent_all_done cfg s hw hs hcap hlim hq c
  have hr := hw.rch c hlt
  have h1 := hq (.recvReply c) rfl
  simp only [step] at h1
  rw [if_pos ⟨hlt, hcl⟩, hr] at h1
  rcases hd.done c hlt hdone with h | h
  · cases hv : s.chVal c with
    | none => exact h hv
    | some r => rw [hv] at h1; simp at h1
  · cases hv : s.chVal c with
    | none => rw [hv] at h1; simp [h] at h1
    | some r => rw [hv] at h1; simp at h1


/-! ### errors have causes -/

/-- the result of call c was produced but could not be transmitted -/
def BadReply (s : State f) (c : Nat) : Prop := ∃ r, Ev.fin c (s.arg c) r ∈ s.tr ∧ f.fits (s.arg c) r = false

/-- the legitimate reasons for an error outcome of call c: the provider task has ended (provider
dropped, callers gone, `RFnOnce` already used: `StopCause`), or — for a transported wrapper — the
connection is lost, the sender has failed, the request cannot be serialised / deserialised, or
the result could not be transmitted -/
def Cause (cfg : Cfg) (s : State f) (c : Nat) : Prop :=
  s.loop.isStopped = true ∨
  (cfg.remote = true ∧ (s.connUp = false ∨ s.poisoned = true ∨ f.reqFits (s.arg c) = false
      ∨ f.decodable (s.arg c) = false ∨ BadReply s c))

theorem stopped_step (cfg : Cfg) (s s' : State f) (l : Label) (h : step cfg s l = some s')
    (hs : s.loop.isStopped = true) : s'.loop.isStopped = true := by
  cases l <;> rfn_step_inv h
  all_goals (simp_all [endExec, Loop.isStopped] <;> grind [Loop.isStopped])

theorem arg_step (cfg : Cfg) (s s' : State f) (l : Label) (h : step cfg s l = some s') (c : Nat) (hlt : c < s.n) :
    s'.arg c = s.arg c ∧ c < s'.n := by
  cases l <;> rfn_step_inv h
  all_goals (simp_all [endExec, upd_apply] <;> grind)

theorem tr_step (cfg : Cfg) (s s' : State f) (l : Label) (h : step cfg s l = some s') :
    ∃ u, s'.tr = s.tr ++ u := by
  cases l <;> rfn_step_inv h
  all_goals (simp [endExec])

theorem cause_step (cfg : Cfg) (s s' : State f) (l : Label) (h : step cfg s l = some s') (c : Nat) (hlt : c < s.n)
    (hc : Cause cfg s c) : Cause cfg s' c := by
  have ha := (arg_step cfg s s' l h c hlt).1
  obtain ⟨u, hu⟩ := tr_step cfg s s' l h
  rcases hc with hc | ⟨hr, hc⟩
  · exact Or.inl (stopped_step cfg s s' l h hc)
  · refine Or.inr ⟨hr, ?_⟩
    rcases hc with hc | hc | hc | hc | ⟨r, h1, h2⟩
    · left
      cases l <;> rfn_step_inv h
      all_goals (simp_all [endExec])
    · right; left
      cases l <;> rfn_step_inv h
      all_goals (simp_all [endExec])
    · right; right; left; rw [ha]; exact hc
    · right; right; right; left; rw [ha]; exact hc
    · right; right; right; right
      refine ⟨r, ?_, ?_⟩
      · rw [ha, hu]; exact List.mem_append_left _ h1
      · rw [ha]; exact h2


structure ER (cfg : Cfg) (s : State f) : Prop where
  tx : ∀ c, c < s.n → s.chTx c = true → Cause cfg s c ∨ s.chRx c = true
  err : ∀ c, c < s.n → s.cl c = .error → Cause cfg s c

theorem er_init (cfg : Cfg) : ER cfg (init f) := by
  constructor <;> simp [init]

/-- what the step itself contributes: a freshly dropped sending half has a cause in the new state -/
theorem er_step_tx (cfg : Cfg) (s s' : State f) (l : Label) (hw : WF s) (hd : DN cfg s) (hr : RV s) (he : ER cfg s)
    (h : step cfg s l = some s') : ∀ c, c < s'.n → s'.chTx c = true → Cause cfg s' c ∨ s'.chRx c = true := by
  intro c hlt htx
  by_cases hold : c < s.n ∧ s.chTx c = true
  · -- already gone before: the cause persists, the receiver stays gone
    rcases he.tx c hold.1 hold.2 with h1 | h1
    · exact Or.inl (cause_step cfg s s' l h c hold.1 h1)
    · right
      have w2 := hw.rch
      clear hw hd hr he
      cases l <;> rfn_step_inv h
      all_goals (simp_all [endExec, upd_apply] <;> grind)
  · have w1 := hw.nch
    have w2 := hw.rch
    have d3 := hd.closed c
    have r3 := hr.rep c
    clear hw hd hr he
    cases l <;> rfn_step_inv h
    all_goals (simp_all [endExec, upd_apply, Cause, BadReply, deliverable, Loop.isStopped, State.closed] <;> grind)


theorem er_step_err (cfg : Cfg) (s s' : State f) (l : Label) (hw : WF s) (hd : DN cfg s) (he : ER cfg s)
    (h : step cfg s l = some s') : ∀ c, c < s'.n → s'.cl c = .error → Cause cfg s' c := by
  intro c hlt hcl
  by_cases hold : c < s.n ∧ s.cl c = .error
  · exact cause_step cfg s s' l h c hold.1 (he.err c hold.1 hold.2)
  · -- the error is delivered by this very step
    have hc : c < s.n ∧ Cause cfg s c := by
      have w2 := hw.rch
      have d2 := hd.rx c
      have e1 := he.tx c
      clear hw hd he
      cases l <;> rfn_step_inv h
      all_goals (simp_all [endExec, upd_apply] <;> try grind [Cause])
    exact cause_step cfg s s' l h c hc.1 hc.2

theorem er_step (cfg : Cfg) (s s' : State f) (l : Label) (hw : WF s) (hd : DN cfg s) (hr : RV s) (he : ER cfg s)
    (h : step cfg s l = some s') : ER cfg s' :=
  ⟨er_step_tx cfg s s' l hw hd hr he h, er_step_err cfg s s' l hw hd he h⟩

/-! ### all invariants together -/

structure Inv (cfg : Cfg) (s : State f) : Prop where
  wf : WF s
  st : ST cfg s
  cn : CN s
  sd : SD s
  rv : RV s
  dn : DN cfg s
  sp : SP cfg s
  er : ER cfg s

theorem inv_init (cfg : Cfg) : Inv cfg (init f) :=
  ⟨wf_init, st_init cfg, cn_init, sd_init, rv_init, dn_init cfg, sp_init cfg, er_init cfg⟩

theorem inv_step (cfg : Cfg) (s s' : State f) (l : Label) (hi : Inv cfg s) (h : step cfg s l = some s') : Inv cfg s' :=
  ⟨wf_step cfg s s' l hi.wf h, st_step cfg s s' l hi.wf hi.st h, cn_step cfg s s' l hi.wf hi.st hi.cn h,
   sd_step cfg s s' l hi.cn hi.sd h, rv_step cfg s s' l hi.wf hi.rv h, dn_step cfg s s' l hi.wf hi.dn h, sp_step cfg s s' l hi.sp h,
   er_step cfg s s' l hi.wf hi.dn hi.rv hi.er h⟩

/-- **every reachable state satisfies the invariants** -/
theorem inv_of_reachable (cfg : Cfg) (s : State f) (h : Reachable cfg s) : Inv cfg s :=
  reachable_induction cfg (Inv cfg) (inv_init cfg) (fun s l s' hi hs => inv_step cfg s s' l hi hs) s h

/-- invariants of the serial flavours (`RFnMut`, `RFnOnce`) -/
structure SInv (s : State f) : Prop where
  ser : SER s
  lin : LIN s

theorem sinv_of_reachable (cfg : Cfg) (hfl : cfg.fl ≠ .const) (s : State f) (h : Reachable cfg s) :
    Inv cfg s ∧ SInv s := by
  refine reachable_induction cfg (fun s => Inv cfg s ∧ SInv s) ⟨inv_init cfg, ser_init, lin_init⟩ ?_ s h
  intro s l s' ⟨hi, hs⟩ hst
  exact ⟨inv_step cfg s s' l hi hst,
    ser_step cfg hfl s s' l hi.st hs.ser hst, lin_step cfg hfl s s' l hi.wf hi.st hi.cn hs.lin hst⟩

theorem once_of_reachable (cfg : Cfg) (hfl : cfg.fl = .once) (s : State f) (h : Reachable cfg s) : ONCE s :=
  reachable_induction cfg ONCE once_init (fun s l s' ho hs => once_step cfg hfl s s' l ho hs) s h


/-! ### cancellation (variant `cancel = true`) -/

/-- once the result sender of call c observes `closed()`, no step runs a segment of c any more -/
theorem frozen_step (cfg : Cfg) (hcan : cfg.cancel = true) (s s' : State f) (l : Label) (hw : WF s)
    (h : step cfg s l = some s') (c : Nat) (hlt : c < s.n) (hcl : s.closed c = true) :
    (∀ k, segCount c k s'.tr = segCount c k s.tr) ∧ s'.pc c = s.pc c ∧ s'.closed c = true ∧ c < s'.n := by
  have w1 := hw.nch
  have w2 := hw.rch
  clear hw
  cases l <;> rfn_step_inv h
  all_goals (simp_all [endExec, upd_apply, State.closed, isSeg] <;> grind)

/-- the `closed()` branch is what an executing request takes then -/
theorem execCancel_enabled (cfg : Cfg) (s : State f) (c : Nat) (hlt : c < s.n) (he : s.stage c = .executing)
    (hcan : cfg.cancel = true) (hcl : s.closed c = true) : step cfg s (.execCancel c) ≠ none := by
  simp [step, hlt, he, hcan, hcl]


/-! ### a decidable check for quiescence (for the non-vacuity examples) -/

/-- no internal label is enabled: the labels that name a call are tried for the issued calls -/
def quiescentB (cfg : Cfg) (s : State f) : Bool :=
  (List.range s.n).all (fun c =>
      (step cfg s (.enqueue c)).isNone && (step cfg s (.sendFail c)).isNone && (step cfg s (.closeSeen c)).isNone
      && (step cfg s (.recvReply c)).isNone && (step cfg s (.permit c)).isNone && (step cfg s (.execStep c)).isNone
      && (step cfg s (.execCancel c)).isNone && (step cfg s (.deliver c)).isNone && (step cfg s (.purge c)).isNone)
    && (step cfg s .dequeue).isNone && (step cfg s .provTerm).isNone && (step cfg s .serveEnd).isNone

theorem quiescent_of_check (cfg : Cfg) (s : State f) (h : quiescentB cfg s = true) : Quiescent cfg s := by
  simp only [quiescentB, Bool.and_eq_true, List.all_eq_true, List.mem_range, Option.isNone_iff_eq_none] at h
  obtain ⟨⟨⟨hc, h1⟩, h2⟩, h3⟩ := h
  intro l hl
  have ge : ∀ c, s.n ≤ c → ¬ c < s.n := fun c h => by omega
  cases l with
  | issue a => simp [Label.internal] at hl
  | abandon c => simp [Label.internal] at hl
  | abandonEarly c => simp [Label.internal] at hl
  | connLoss => simp [Label.internal] at hl
  | dropCallers => simp [Label.internal] at hl
  | dropProvider => simp [Label.internal] at hl
  | dequeue => exact h1
  | provTerm => exact h2
  | serveEnd => exact h3
  | enqueue c =>
    by_cases hlt : c < s.n
    · exact (hc c hlt).1.1.1.1.1.1.1.1
    · simp [step, hlt]
  | sendFail c =>
    by_cases hlt : c < s.n
    · exact (hc c hlt).1.1.1.1.1.1.1.2
    · simp [step, hlt]
  | closeSeen c =>
    by_cases hlt : c < s.n
    · exact (hc c hlt).1.1.1.1.1.1.2
    · simp [step, hlt]
  | recvReply c =>
    by_cases hlt : c < s.n
    · exact (hc c hlt).1.1.1.1.1.2
    · simp [step, hlt]
  | permit c =>
    by_cases hlt : c < s.n
    · exact (hc c hlt).1.1.1.1.2
    · simp [step, hlt]
  | execStep c =>
    by_cases hlt : c < s.n
    · exact (hc c hlt).1.1.1.2
    · simp [step, hlt]
  | execCancel c =>
    by_cases hlt : c < s.n
    · exact (hc c hlt).1.1.2
    · simp [step, hlt]
  | deliver c =>
    by_cases hlt : c < s.n
    · exact (hc c hlt).1.2
    · simp only [step]
      split
      · rw [if_pos (by omega)]
      · rfl
  | purge c =>
    by_cases hlt : c < s.n
    · exact (hc c hlt).2
    · simp [step, hlt]

end Remoc.Rfn
