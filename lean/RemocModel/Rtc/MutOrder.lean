import RemocModel.Rtc.Lin
set_option linter.unusedSimpArgs false
set_option linter.unusedVariables false

/-!
# M_rtc: the `&mut self` / `self` executions appear in the sequential witness in the order in
which their requests were dequeued
-/

namespace Remoc.Rtc

variable {o : Obj}

/-- request ids in the order in which the serve loop took them from the queue -/
def deqOrder : List Ev → List Nat
  | [] => []
  | .deq c :: r => c :: deqOrder r
  | _ :: r => deqOrder r

/-- the `&mut self` / `self` executions of the sequential witness, in its order -/
def mutLin (o : Obj) (tr : List Ev) : List Nat :=
  ((linOf o tr).filter (fun e => o.kind e.m != .ref)).map (·.c)

/-- the `&mut self` / `self` request the serve loop is holding (waiting for the lock or executing) -/
def cur (s : State o) : List Nat :=
  match s.loop with
  | .acquiring c => if o.kind (s.calls c).m != .ref then [c] else []
  | .running c => if o.kind (s.calls c).m != .ref then [c] else []
  | _ => []

theorem deqOrder_append (l1 l2 : List Ev) : deqOrder (l1 ++ l2) = deqOrder l1 ++ deqOrder l2 := by
  induction l1 with
  | nil => rfl
  | cons e l ih => cases e <;> simp [deqOrder, ih]

theorem mutLin_append (l1 l2 : List Ev) : mutLin o (l1 ++ l2) = mutLin o l1 ++ mutLin o l2 := by
  simp [mutLin, linOf_append]

def MInv (s : State o) : Prop := List.Sublist (mutLin o s.tr ++ cur s) (deqOrder s.tr)

theorem cur_eq (s s' : State o) (hl : s'.loop = s.loop)
    (hm : ∀ c, (s.loop = .acquiring c ∨ s.loop = .running c) → (s'.calls c).m = (s.calls c).m) : cur s' = cur s := by
  unfold cur
  rw [hl]
  cases h : s.loop with
  | acquiring c => simp only []; rw [hm c (Or.inl h)]
  | running c => simp only []; rw [hm c (Or.inr h)]
  | _ => rfl

/-- steps that neither dequeue nor end an execution nor move the loop -/
theorem minv_passive (s s' : State o) (hi : MInv s) (hcur : cur s' = cur s)
    (hlin : mutLin o s'.tr = mutLin o s.tr) (hdeq : ∃ l, deqOrder s'.tr = deqOrder s.tr ++ l) : MInv s' := by
  obtain ⟨l, hl⟩ := hdeq
  unfold MInv
  rw [hcur, hlin, hl]
  exact List.Sublist.trans hi (List.sublist_append_left _ _)


theorem cur_idle (s : State o) (h : s.loop = .idle) : cur s = [] := by simp [cur, h]
theorem cur_stopped (s : State o) (w : Stop) (h : s.loop = .stopped w) : cur s = [] := by simp [cur, h]

/-- generic: loop and trace-relevant parts unchanged -/
theorem minv_step_same (cfg : Cfg) (s s' : State o) (l : Label) (hw : WF s) (hi : MInv s)
    (h : step cfg s l = some s') (hl : s'.loop = s.loop)
    (hlin : mutLin o s'.tr = mutLin o s.tr) (hdeq : ∃ l, deqOrder s'.tr = deqOrder s.tr ++ l) : MInv s' := by
  refine minv_passive s s' hi (cur_eq s s' hl ?_) hlin hdeq
  intro c hc
  exact (static_fields (step_static cfg s s' l h c (hw.llt c hc))).2.1

theorem cur_cases (s : State o) (c : Nat) (h : s.loop = .idle ∨ (∃ w, s.loop = .stopped w) ∨ s.loop = .acquiring c ∨ s.loop = .running c) :
    cur s = [] ∨ cur s = [c] := by
  rcases h with h | ⟨w, h⟩ | h | h <;> simp only [cur, h]
  · exact Or.inl trivial
  · exact Or.inl trivial
  · split
    · exact Or.inr rfl
    · exact Or.inl rfl
  · split
    · exact Or.inr rfl
    · exact Or.inl rfl

theorem startExec_loop_cases (cfg : Cfg) (s : State o) (c : Nat) :
    (startExec cfg s c).loop = .idle ∨ (startExec cfg s c).loop = .running c := by
  simp only [startExec]; split <;> simp

theorem minv_step_dequeue (cfg : Cfg) (s s' : State o) (hw : WF s) (hi : MInv s)
    (h : step cfg s .dequeue = some s') : MInv s' := by
  simp only [step] at h
  split at h
  · simp at h
  · rename_i c q hq
    split at h
    · rename_i hg
      have hidle : cur s = [] := cur_idle s hg.2.1
      unfold MInv at hi; rw [hidle, List.append_nil] at hi
      have hext : ∀ (s'' : State o), mutLin o s''.tr = mutLin o s.tr → deqOrder s''.tr = deqOrder s.tr ++ [c] →
          (cur s'' = [] ∨ cur s'' = [c]) → MInv s'' := by
        intro s'' h1 h2 h3
        unfold MInv; rw [h1, h2]
        rcases h3 with h3 | h3 <;> rw [h3]
        · simpa using List.Sublist.trans hi (List.sublist_append_left _ _)
        · exact List.Sublist.append hi (List.Sublist.refl _)
      (repeat' split at h)
      all_goals (replace h := Option.some.inj h; subst h; apply hext)
      all_goals first
        | (simp [mutLin, linOf_append, linOf]; done)
        | (simp [deqOrder_append, deqOrder]; done)
        | (apply cur_cases; simp; done)
        | (apply cur_cases; simp [hg.2.1]; done)
        | (apply cur_cases; simp only [emit_loop]; split <;> simp)
        | (apply cur_cases; exact Or.elim (startExec_loop_cases cfg _ c) (fun h => Or.inl h) (fun h => Or.inr (Or.inr (Or.inr h))))
    · simp at h



theorem spawns_ref (cfg : Cfg) (k : Kind) (h : spawns cfg k = true) : k = .ref := by
  cases k <;> simp [spawns] at h ⊢

theorem minv_step_acquire (cfg : Cfg) (s s' : State o) (hi : MInv s)
    (h : step cfg s .acquire = some s') : MInv s' := by
  simp only [step] at h
  split at h
  · rename_i c hl
    have hcur : ∀ (x : State o), x.calls = s.calls → x.tr = s.tr → MInv (startExec cfg x c) := by
      intro x hx htr
      have hm : ((startExec cfg x c).calls c).m = (s.calls c).m := by
        rw [startExec_calls_self]; simp [hx]
      have hlp := startExec_loop cfg x c
      refine minv_passive s _ hi ?_ (by simp [htr]) ⟨[], by simp [htr]⟩
      by_cases hsp : spawns cfg (o.kind (x.calls c).m) = true
      · have hk : o.kind (s.calls c).m = .ref := by
          have := spawns_ref cfg _ hsp
          rwa [hx] at this
        rw [if_pos hsp] at hlp
        simp [cur, hlp, hl, hk]
      · rw [if_neg hsp] at hlp
        simp only [cur, hlp, hl, hm]
    split at h
    · split at h
      · replace h := Option.some.inj h; subst h; exact hcur _ rfl rfl
      · simp at h
    · split at h
      · replace h := Option.some.inj h; subst h; exact hcur _ rfl rfl
      · simp at h
  all_goals simp at h

/-- the execution of request `c` ends (last segment or cancellation) -/
theorem minv_end (cfg : Cfg) (s : State o) (x : State o) (c : Nat) (e : Ev) (pre : List Ev) (hs : SInv cfg s) (hi : MInv s)
    (he : (s.calls c).stage = .executing)
    (hev : e = .fin c (s.calls c).m (s.calls c).a r ∨ e = .cancel c (s.calls c).m (s.calls c).a k)
    (hpre : mutLin o pre = [] ∧ deqOrder pre = [])
    (hxl : x.loop = s.loop) (hxm : ∀ c', (x.calls c').m = (s.calls c').m) (hxtr : x.tr = s.tr ++ pre) :
    MInv (emit (endExec x c) e) := by
  unfold MInv at hi ⊢
  have htr' : (emit (endExec x c) e).tr = s.tr ++ (pre ++ [e]) := by simp [hxtr]
  have hdeq : deqOrder (emit (endExec x c) e).tr = deqOrder s.tr := by
    rw [htr', deqOrder_append, deqOrder_append, hpre.2]
    rcases hev with h | h <;> subst h <;> simp [deqOrder]
  have hlin : mutLin o (emit (endExec x c) e).tr = mutLin o s.tr ++ mutLin o [e] := by
    rw [htr', mutLin_append, mutLin_append, hpre.1, List.nil_append]
  rw [hdeq, hlin]
  by_cases hk : o.kind (s.calls c).m = .ref
  · -- a `&self` execution: neither the witness's mutable part nor the held request changes
    have he1 : mutLin o [e] = [] := by
      rcases hev with h | h <;> subst h <;> simp [mutLin, linOf, hk]
    have hcur : cur (emit (endExec x c) e) = cur s := by
      by_cases hr : s.loop = .running c
      · have h1 : cur s = [] := by simp [cur, hr, hk]
        have h2 : (emit (endExec x c) e).loop = .idle ∨ (emit (endExec x c) e).loop = .stopped .valueTaken := by
          simp only [emit_loop, endExec_loop, hxl, hr, if_true]
          split <;> simp
        rw [h1]
        rcases h2 with h2 | h2
        · exact cur_idle _ h2
        · exact cur_stopped _ _ h2
      · have hl' : (emit (endExec x c) e).loop = s.loop := by
          simp only [emit_loop, endExec_loop, hxl, if_neg hr]
        exact cur_eq s _ hl' (fun c' _ => by simp [hxm])
    rw [he1, List.append_nil, hcur]; exact hi
  · -- a `&mut self` / `self` execution runs inline: it was the held request
    have hrun : s.loop = .running c := by
      rcases (hs.exec c).1 he with h1 | h1
      · exact h1
      · exact absurd (hs.spk c h1).1 hk
    have he1 : mutLin o [e] = [c] := by
      rcases hev with h | h <;> subst h <;> simp [mutLin, linOf, hk]
    have hcur' : cur (emit (endExec x c) e) = [] := by
      have h2 : (emit (endExec x c) e).loop = .idle ∨ (emit (endExec x c) e).loop = .stopped .valueTaken := by
        simp only [emit_loop, endExec_loop, hxl, hrun, if_true]
        split <;> simp
      rcases h2 with h2 | h2
      · exact cur_idle _ h2
      · exact cur_stopped _ _ h2
    have hcur : cur s = [c] := by simp [cur, hrun, hk]
    rw [he1, hcur', List.append_nil, ← hcur]; exact hi


theorem minv_step (cfg : Cfg) (s s' : State o) (l : Label) (hw : WF s) (hs : SInv cfg s) (hi : MInv s)
    (h : step cfg s l = some s') : MInv s' := by
  have h0 := h
  cases l with
  | dequeue => exact minv_step_dequeue cfg s s' hw hi h
  | acquire => exact minv_step_acquire cfg s s' hi h
  | execCancel c =>
    step_inv h
    rename_i hg
    exact minv_end (r := 0) cfg s _ c _ [] hs hi hg.2.1 (Or.inr rfl) ⟨rfl, rfl⟩ rfl (fun c' => by simp) (by simp)
  | execStep c =>
    simp only [step] at h
    split at h
    · rename_i hg
      split at h
      · replace h := Option.some.inj h; subst h
        exact minv_step_same cfg s _ _ hw hi h0 rfl (by simp [mutLin, linOf_append, linOf])
          ⟨[], by simp [deqOrder_append, deqOrder]⟩
      · replace h := Option.some.inj h; subst h
        refine minv_end (k := 0) cfg s _ c _ [.seg c (s.calls c).pc] hs hi hg.2.1 (Or.inl rfl) ⟨rfl, rfl⟩ rfl ?_ (by simp)
        intro c'
        simp only [emit_calls, upd_apply]
        split
        · rename_i hcc; subst hcc; rfl
        · rfl
    · simp at h
  | serveErr =>
    step_inv h
    rename_i hg
    refine minv_passive s _ hi ?_ rfl ⟨[], by simp⟩
    rw [cur_idle s hg.1, cur_stopped _ .replyErr rfl]
  | serveEnd =>
    step_inv h
    rename_i hg
    refine minv_passive s _ hi ?_ rfl ⟨[], by simp⟩
    rw [cur_idle s hg.1, cur_stopped _ .clientsGone rfl]
  | _ =>
    refine minv_step_same cfg s s' _ hw hi h0 ?_ ?_ ?_
    all_goals (step_inv h)
    all_goals first
      | rfl
      | (simp [mutLin, linOf_append, linOf]; done)
      | exact ⟨[], by simp [deqOrder_append, deqOrder]⟩
      | (split <;> first | rfl | (simp [mutLin, linOf_append, linOf]; done) | exact ⟨[], by simp [deqOrder_append, deqOrder]⟩)

theorem minv_init : MInv (init o) := by
  simp [MInv, init, mutLin, linOf, cur, deqOrder]

theorem minv_of_reachable (cfg : Cfg) (s : State o) (h : Reachable cfg s) : MInv s := by
  have : Inv cfg s ∧ MInv s :=
    reachable_induction cfg (fun s => Inv cfg s ∧ MInv s)
      ⟨⟨wf_init, sinv_init cfg, cinv_init, rinv_init⟩, minv_init⟩
      (fun s l s' hi hs => ⟨inv_step cfg s s' l hi.1 hs, minv_step cfg s s' l hi.1.wf hi.1.st hi.2 hs⟩) s h
  exact this.2


theorem deqOrder_count (tr : List Ev) (c : Nat) : (deqOrder tr).count c = deqCount c tr := by
  induction tr with
  | nil => rfl
  | cons e t ih =>
    cases e <;> simp [deqOrder, isDeq, ih, List.count_cons]

end Remoc.Rtc
