import RemocModel.Rtc.Model

/-! concrete object and configurations for the non-vacuity examples of C12 / C19 -/

namespace Remoc.Rtc

/-- a counter: method 0 = `get(&self)`, 1 = `add(&mut self, a)` (adds `a` in each of its two
segments), 2 = `take(self)`; methods ≥ 3 are unknown to the server; method 4 would be
`#[no_cancel]`; requests with argument ≥ 1000 and replies ≥ 100 are over-size for transported
clients -/
def ctr : Obj where
  σ := Nat
  Loc := Nat
  σ0 := 0
  kind := fun m => if m = 0 then .ref else if m = 1 then .mut else .val
  cancellable := fun m => m != 4
  known := fun m => m ≤ 2
  nseg := fun _ _ => 1
  init := fun _ _ => 0
  seg := fun m a _ x => if m = 0 then (x.2, x.2) else (x.2 + a, x.2 + a)
  ret := fun _ _ l => l
  reqFits := fun _ _ a => a < 1000
  fits := fun _ _ _ r => r < 100

theorem ctr_ro : ctr.ReadOnly := by
  intro m a k x hk
  simp only [ctr] at hk ⊢
  split
  · rfl
  · rename_i h
    rw [if_neg h] at hk
    split at hk <;> cases hk

/-- the object state as a number -/
def ctrVal (s : State ctr) : Nat := s.σ

/-- `ServerSharedMut::serve(true)`, request buffer 2, client 0 a local clone, client 1 transported -/
def cfgSM (v : Variant) : Cfg :=
  { fl := .sharedMut, spawn := true, cap := 2, failPolicy := false, remote := fun i => i == 1,
    nclients := 2, variant := v }

/-- `ServerRefMut::serve()` -/
def cfgRM (v : Variant) : Cfg :=
  { fl := .refMut, spawn := false, cap := 1, failPolicy := false, remote := fun i => i == 1,
    nclients := 2, variant := v }

/-- client 1 (remote) reads, client 0 (local) adds 5 in two segments, concurrently: the reader is
spawned, the writer waits for the lock, both complete -/
def run1 : List Label :=
  [.issue 1 0 0, .issue 0 1 5, .enqueue 0, .enqueue 1, .dequeue, .acquire, .execStep 0,
   .dequeue,
   .execStep 0, .deliver 0, .recvReply 0,
   .acquire, .execStep 1, .execStep 1, .deliver 1, .recvReply 1]

/-- the caller of a two-segment `add` goes away after the first segment -/
def runCancel : List Label :=
  [.issue 0 1 5, .enqueue 0, .dequeue, .acquire, .execStep 0, .abandon 0, .closeSeen 0]

/-- client 1's `add 60` returns 120, which is over-size; client 0's `get` is issued afterwards -/
def runF6 : List Label :=
  [.issue 1 1 60, .enqueue 0, .dequeue, .execStep 0, .execStep 0, .deliver 0, .report 0, .recvReply 0,
   .serveErr,
   .issue 0 0 0, .enqueue 1, .dequeue, .execStep 1, .execStep 1, .deliver 1, .sendFail 1, .recvReply 1]

/-- client 1 sends an over-size request, then a small one -/
def runF10 : List Label :=
  [.issue 1 1 2000, .sendFail 0, .recvReply 0, .issue 1 0 0, .enqueue 1, .sendFail 1, .recvReply 1,
   .issue 0 0 0, .enqueue 2, .dequeue, .execStep 2, .execStep 2, .deliver 2, .recvReply 2]

end Remoc.Rtc
