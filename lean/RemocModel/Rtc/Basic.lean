import RemocModel.Rtc.Model
set_option linter.unusedSimpArgs false
set_option linter.unusedVariables false

/-!
# M_rtc: basic facts — identity of calls and reply channels, immutable request data, monotone trace
-/

namespace Remoc.Rtc

variable {o : Obj}

/-- immutable part of a call record -/
def Call.static (k : Call o) : Nat × Nat × Nat × Nat × Bool := (k.client, k.m, k.a, k.rch, k.lost)

theorem upd_static (f : Nat → Call o) (c c' : Nat) (k : Call o) (hk : k.static = (f c).static) :
    (upd f c k c').static = (f c').static := by
  unfold upd; split
  · subst_vars; exact hk
  · rfl

@[simp] theorem setStage_static (s : State o) (c c' : Nat) (st : Stage) :
    ((setStage s c st).calls c').static = (s.calls c').static := by
  simp only [setStage]; exact upd_static _ _ _ _ rfl

@[simp] theorem setCl_static (s : State o) (c c' : Nat) (x : Cl) :
    ((setCl s c x).calls c').static = (s.calls c').static := by
  simp only [setCl]; exact upd_static _ _ _ _ rfl


@[simp] theorem setStage_n (s : State o) (c : Nat) (st : Stage) : (setStage s c st).n = s.n := rfl
@[simp] theorem setStage_nch (s : State o) (c : Nat) (st : Stage) : (setStage s c st).nch = s.nch := rfl
@[simp] theorem setStage_chans (s : State o) (c : Nat) (st : Stage) : (setStage s c st).chans = s.chans := rfl
@[simp] theorem setStage_queue (s : State o) (c : Nat) (st : Stage) : (setStage s c st).queue = s.queue := rfl
@[simp] theorem setStage_loop (s : State o) (c : Nat) (st : Stage) : (setStage s c st).loop = s.loop := rfl
@[simp] theorem setStage_spawned (s : State o) (c : Nat) (st : Stage) : (setStage s c st).spawned = s.spawned := rfl
@[simp] theorem setStage_readers (s : State o) (c : Nat) (st : Stage) : (setStage s c st).readers = s.readers := rfl
@[simp] theorem setStage_writer (s : State o) (c : Nat) (st : Stage) : (setStage s c st).writer = s.writer := rfl
@[simp] theorem setStage_errQ (s : State o) (c : Nat) (st : Stage) : (setStage s c st).errQ = s.errQ := rfl
@[simp] theorem setStage_sigma (s : State o) (c : Nat) (st : Stage) : (setStage s c st).σ = s.σ := rfl
@[simp] theorem setStage_connUp (s : State o) (c : Nat) (st : Stage) : (setStage s c st).connUp = s.connUp := rfl
@[simp] theorem setStage_clientsGone (s : State o) (c : Nat) (st : Stage) : (setStage s c st).clientsGone = s.clientsGone := rfl
@[simp] theorem setStage_poisoned (s : State o) (c : Nat) (st : Stage) : (setStage s c st).poisoned = s.poisoned := rfl
@[simp] theorem setStage_tr (s : State o) (c : Nat) (st : Stage) : (setStage s c st).tr = s.tr := rfl
@[simp] theorem setCl_n (s : State o) (c : Nat) (x : Cl) : (setCl s c x).n = s.n := rfl
@[simp] theorem setCl_nch (s : State o) (c : Nat) (x : Cl) : (setCl s c x).nch = s.nch := rfl
@[simp] theorem setCl_chans (s : State o) (c : Nat) (x : Cl) : (setCl s c x).chans = s.chans := rfl
@[simp] theorem setCl_queue (s : State o) (c : Nat) (x : Cl) : (setCl s c x).queue = s.queue := rfl
@[simp] theorem setCl_loop (s : State o) (c : Nat) (x : Cl) : (setCl s c x).loop = s.loop := rfl
@[simp] theorem setCl_spawned (s : State o) (c : Nat) (x : Cl) : (setCl s c x).spawned = s.spawned := rfl
@[simp] theorem setCl_readers (s : State o) (c : Nat) (x : Cl) : (setCl s c x).readers = s.readers := rfl
@[simp] theorem setCl_writer (s : State o) (c : Nat) (x : Cl) : (setCl s c x).writer = s.writer := rfl
@[simp] theorem setCl_errQ (s : State o) (c : Nat) (x : Cl) : (setCl s c x).errQ = s.errQ := rfl
@[simp] theorem setCl_sigma (s : State o) (c : Nat) (x : Cl) : (setCl s c x).σ = s.σ := rfl
@[simp] theorem setCl_connUp (s : State o) (c : Nat) (x : Cl) : (setCl s c x).connUp = s.connUp := rfl
@[simp] theorem setCl_clientsGone (s : State o) (c : Nat) (x : Cl) : (setCl s c x).clientsGone = s.clientsGone := rfl
@[simp] theorem setCl_poisoned (s : State o) (c : Nat) (x : Cl) : (setCl s c x).poisoned = s.poisoned := rfl
@[simp] theorem setCl_tr (s : State o) (c : Nat) (x : Cl) : (setCl s c x).tr = s.tr := rfl
@[simp] theorem dropTx_n (s : State o) (c : Nat) : (dropTx s c).n = s.n := rfl
@[simp] theorem dropTx_nch (s : State o) (c : Nat) : (dropTx s c).nch = s.nch := rfl
@[simp] theorem dropTx_calls (s : State o) (c : Nat) : (dropTx s c).calls = s.calls := rfl
@[simp] theorem dropTx_queue (s : State o) (c : Nat) : (dropTx s c).queue = s.queue := rfl
@[simp] theorem dropTx_loop (s : State o) (c : Nat) : (dropTx s c).loop = s.loop := rfl
@[simp] theorem dropTx_spawned (s : State o) (c : Nat) : (dropTx s c).spawned = s.spawned := rfl
@[simp] theorem dropTx_readers (s : State o) (c : Nat) : (dropTx s c).readers = s.readers := rfl
@[simp] theorem dropTx_writer (s : State o) (c : Nat) : (dropTx s c).writer = s.writer := rfl
@[simp] theorem dropTx_errQ (s : State o) (c : Nat) : (dropTx s c).errQ = s.errQ := rfl
@[simp] theorem dropTx_sigma (s : State o) (c : Nat) : (dropTx s c).σ = s.σ := rfl
@[simp] theorem dropTx_connUp (s : State o) (c : Nat) : (dropTx s c).connUp = s.connUp := rfl
@[simp] theorem dropTx_clientsGone (s : State o) (c : Nat) : (dropTx s c).clientsGone = s.clientsGone := rfl
@[simp] theorem dropTx_poisoned (s : State o) (c : Nat) : (dropTx s c).poisoned = s.poisoned := rfl
@[simp] theorem dropTx_tr (s : State o) (c : Nat) : (dropTx s c).tr = s.tr := rfl
@[simp] theorem emit_n (s : State o) (e : Ev) : (emit s e).n = s.n := rfl
@[simp] theorem emit_nch (s : State o) (e : Ev) : (emit s e).nch = s.nch := rfl
@[simp] theorem emit_calls (s : State o) (e : Ev) : (emit s e).calls = s.calls := rfl
@[simp] theorem emit_chans (s : State o) (e : Ev) : (emit s e).chans = s.chans := rfl
@[simp] theorem emit_queue (s : State o) (e : Ev) : (emit s e).queue = s.queue := rfl
@[simp] theorem emit_loop (s : State o) (e : Ev) : (emit s e).loop = s.loop := rfl
@[simp] theorem emit_spawned (s : State o) (e : Ev) : (emit s e).spawned = s.spawned := rfl
@[simp] theorem emit_readers (s : State o) (e : Ev) : (emit s e).readers = s.readers := rfl
@[simp] theorem emit_writer (s : State o) (e : Ev) : (emit s e).writer = s.writer := rfl
@[simp] theorem emit_errQ (s : State o) (e : Ev) : (emit s e).errQ = s.errQ := rfl
@[simp] theorem emit_sigma (s : State o) (e : Ev) : (emit s e).σ = s.σ := rfl
@[simp] theorem emit_connUp (s : State o) (e : Ev) : (emit s e).connUp = s.connUp := rfl
@[simp] theorem emit_clientsGone (s : State o) (e : Ev) : (emit s e).clientsGone = s.clientsGone := rfl
@[simp] theorem emit_poisoned (s : State o) (e : Ev) : (emit s e).poisoned = s.poisoned := rfl
@[simp] theorem endExec_n (s : State o) (c : Nat) : (endExec s c).n = s.n := rfl
@[simp] theorem endExec_nch (s : State o) (c : Nat) : (endExec s c).nch = s.nch := rfl
@[simp] theorem endExec_calls (s : State o) (c : Nat) : (endExec s c).calls = s.calls := rfl
@[simp] theorem endExec_chans (s : State o) (c : Nat) : (endExec s c).chans = s.chans := rfl
@[simp] theorem endExec_queue (s : State o) (c : Nat) : (endExec s c).queue = s.queue := rfl
@[simp] theorem endExec_errQ (s : State o) (c : Nat) : (endExec s c).errQ = s.errQ := rfl
@[simp] theorem endExec_sigma (s : State o) (c : Nat) : (endExec s c).σ = s.σ := rfl
@[simp] theorem endExec_connUp (s : State o) (c : Nat) : (endExec s c).connUp = s.connUp := rfl
@[simp] theorem endExec_clientsGone (s : State o) (c : Nat) : (endExec s c).clientsGone = s.clientsGone := rfl
@[simp] theorem endExec_poisoned (s : State o) (c : Nat) : (endExec s c).poisoned = s.poisoned := rfl
@[simp] theorem endExec_tr (s : State o) (c : Nat) : (endExec s c).tr = s.tr := rfl
@[simp] theorem emit_tr (s : State o) (e : Ev) : (emit s e).tr = s.tr ++ [e] := rfl
theorem setStage_calls (s : State o) (c : Nat) (st : Stage) : (setStage s c st).calls = upd s.calls c { s.calls c with stage := st } := rfl
theorem setCl_calls (s : State o) (c : Nat) (x : Cl) : (setCl s c x).calls = upd s.calls c { s.calls c with cl := x } := rfl
@[simp] theorem dropTx_chans (s : State o) (c : Nat) : (dropTx s c).chans = upd s.chans (s.calls c).rch { s.chans (s.calls c).rch with txGone := true } := rfl
@[simp] theorem endExec_readers (s : State o) (c : Nat) : (endExec s c).readers = s.readers.filter (· != c) := rfl
@[simp] theorem endExec_spawned (s : State o) (c : Nat) : (endExec s c).spawned = s.spawned.filter (· != c) := rfl
@[simp] theorem endExec_writer (s : State o) (c : Nat) : (endExec s c).writer = if s.writer = some c then none else s.writer := rfl
@[simp] theorem endExec_loop (s : State o) (c : Nat) : (endExec s c).loop = if s.loop = .running c then (if o.kind (s.calls c).m = .val then .stopped .valueTaken else .idle) else s.loop := rfl
@[simp] theorem startExec_n (cfg : Cfg) (s : State o) (c : Nat) : (startExec cfg s c).n = s.n := by
  simp only [startExec]; split <;> rfl
@[simp] theorem startExec_nch (cfg : Cfg) (s : State o) (c : Nat) : (startExec cfg s c).nch = s.nch := by
  simp only [startExec]; split <;> rfl
@[simp] theorem startExec_chans (cfg : Cfg) (s : State o) (c : Nat) : (startExec cfg s c).chans = s.chans := by
  simp only [startExec]; split <;> rfl
@[simp] theorem startExec_queue (cfg : Cfg) (s : State o) (c : Nat) : (startExec cfg s c).queue = s.queue := by
  simp only [startExec]; split <;> rfl
@[simp] theorem startExec_readers (cfg : Cfg) (s : State o) (c : Nat) : (startExec cfg s c).readers = s.readers := by
  simp only [startExec]; split <;> rfl
@[simp] theorem startExec_writer (cfg : Cfg) (s : State o) (c : Nat) : (startExec cfg s c).writer = s.writer := by
  simp only [startExec]; split <;> rfl
@[simp] theorem startExec_errQ (cfg : Cfg) (s : State o) (c : Nat) : (startExec cfg s c).errQ = s.errQ := by
  simp only [startExec]; split <;> rfl
@[simp] theorem startExec_sigma (cfg : Cfg) (s : State o) (c : Nat) : (startExec cfg s c).σ = s.σ := by
  simp only [startExec]; split <;> rfl
@[simp] theorem startExec_connUp (cfg : Cfg) (s : State o) (c : Nat) : (startExec cfg s c).connUp = s.connUp := by
  simp only [startExec]; split <;> rfl
@[simp] theorem startExec_clientsGone (cfg : Cfg) (s : State o) (c : Nat) : (startExec cfg s c).clientsGone = s.clientsGone := by
  simp only [startExec]; split <;> rfl
@[simp] theorem startExec_poisoned (cfg : Cfg) (s : State o) (c : Nat) : (startExec cfg s c).poisoned = s.poisoned := by
  simp only [startExec]; split <;> rfl
@[simp] theorem startExec_tr (cfg : Cfg) (s : State o) (c : Nat) : (startExec cfg s c).tr = s.tr := by
  simp only [startExec]; split <;> rfl

@[simp] theorem setStage_stage (s : State o) (c c' : Nat) (st : Stage) :
    ((setStage s c st).calls c').stage = if c' = c then st else (s.calls c').stage := by
  simp only [setStage, upd]; split <;> simp_all
@[simp] theorem setStage_cl (s : State o) (c c' : Nat) (st : Stage) :
    ((setStage s c st).calls c').cl = (s.calls c').cl := by
  simp only [setStage, upd]; split <;> simp_all
@[simp] theorem setStage_pc (s : State o) (c c' : Nat) (st : Stage) :
    ((setStage s c st).calls c').pc = (s.calls c').pc := by
  simp only [setStage, upd]; split <;> simp_all
@[simp] theorem setStage_loc (s : State o) (c c' : Nat) (st : Stage) :
    ((setStage s c st).calls c').loc = (s.calls c').loc := by
  simp only [setStage, upd]; split <;> simp_all
@[simp] theorem setCl_cl (s : State o) (c c' : Nat) (x : Cl) :
    ((setCl s c x).calls c').cl = if c' = c then x else (s.calls c').cl := by
  simp only [setCl, upd]; split <;> simp_all
@[simp] theorem setCl_stage (s : State o) (c c' : Nat) (x : Cl) :
    ((setCl s c x).calls c').stage = (s.calls c').stage := by
  simp only [setCl, upd]; split <;> simp_all
@[simp] theorem setCl_pc (s : State o) (c c' : Nat) (x : Cl) :
    ((setCl s c x).calls c').pc = (s.calls c').pc := by
  simp only [setCl, upd]; split <;> simp_all
@[simp] theorem setCl_loc (s : State o) (c c' : Nat) (x : Cl) :
    ((setCl s c x).calls c').loc = (s.calls c').loc := by
  simp only [setCl, upd]; split <;> simp_all

/-- the immutable fields one by one -/
theorem static_fields {k k' : Call o} (h : k.static = k'.static) :
    k.client = k'.client ∧ k.m = k'.m ∧ k.a = k'.a ∧ k.rch = k'.rch ∧ k.lost = k'.lost := by
  simp only [Call.static, Prod.mk.injEq] at h; exact h

@[simp] theorem setStage_m (s : State o) (c c' : Nat) (st : Stage) : ((setStage s c st).calls c').m = (s.calls c').m :=
  (static_fields (setStage_static s c c' st)).2.1
@[simp] theorem setStage_a (s : State o) (c c' : Nat) (st : Stage) : ((setStage s c st).calls c').a = (s.calls c').a :=
  (static_fields (setStage_static s c c' st)).2.2.1
@[simp] theorem setStage_client (s : State o) (c c' : Nat) (st : Stage) : ((setStage s c st).calls c').client = (s.calls c').client :=
  (static_fields (setStage_static s c c' st)).1
@[simp] theorem setStage_rch (s : State o) (c c' : Nat) (st : Stage) : ((setStage s c st).calls c').rch = (s.calls c').rch :=
  (static_fields (setStage_static s c c' st)).2.2.2.1
@[simp] theorem setStage_lost (s : State o) (c c' : Nat) (st : Stage) : ((setStage s c st).calls c').lost = (s.calls c').lost :=
  (static_fields (setStage_static s c c' st)).2.2.2.2
@[simp] theorem setCl_m (s : State o) (c c' : Nat) (x : Cl) : ((setCl s c x).calls c').m = (s.calls c').m :=
  (static_fields (setCl_static s c c' x)).2.1
@[simp] theorem setCl_a (s : State o) (c c' : Nat) (x : Cl) : ((setCl s c x).calls c').a = (s.calls c').a :=
  (static_fields (setCl_static s c c' x)).2.2.1
@[simp] theorem setCl_client (s : State o) (c c' : Nat) (x : Cl) : ((setCl s c x).calls c').client = (s.calls c').client :=
  (static_fields (setCl_static s c c' x)).1
@[simp] theorem setCl_rch (s : State o) (c c' : Nat) (x : Cl) : ((setCl s c x).calls c').rch = (s.calls c').rch :=
  (static_fields (setCl_static s c c' x)).2.2.2.1
@[simp] theorem setCl_lost (s : State o) (c c' : Nat) (x : Cl) : ((setCl s c x).calls c').lost = (s.calls c').lost :=
  (static_fields (setCl_static s c c' x)).2.2.2.2

theorem startExec_loop (cfg : Cfg) (s : State o) (c : Nat) :
    (startExec cfg s c).loop = if spawns cfg (o.kind (s.calls c).m) then .idle else .running c := by
  simp only [startExec]; split <;> simp_all
theorem startExec_spawned (cfg : Cfg) (s : State o) (c : Nat) :
    (startExec cfg s c).spawned = if spawns cfg (o.kind (s.calls c).m) then s.spawned ++ [c] else s.spawned := by
  simp only [startExec]; split <;> simp_all

theorem startExec_loop_eq (cfg : Cfg) (s : State o) (c c' : Nat)
    (h : (startExec cfg s c).loop = .acquiring c' ∨ (startExec cfg s c).loop = .running c') : c' = c := by
  simp only [startExec] at h
  split at h <;> simp at h
  exact h.symm

theorem startExec_loop_ne_stopped (cfg : Cfg) (s : State o) (c : Nat) (w : Stop) :
    (startExec cfg s c).loop ≠ .stopped w := by
  simp only [startExec]; split <;> simp

theorem endExec_loop_stopped (s : State o) (c : Nat) (w : Stop) (h : (endExec s c).loop = .stopped w) :
    s.loop = .stopped w ∨ (s.loop = .running c ∧ o.kind (s.calls c).m = .val ∧ w = .valueTaken) := by
  simp only [endExec_loop] at h
  split at h
  · rename_i hr
    split at h
    · rename_i hk
      simp at h
      exact Or.inr ⟨hr, hk, h.symm⟩
    · simp at h
  · exact Or.inl h

theorem startExec_calls_self (cfg : Cfg) (s : State o) (c : Nat) :
    (startExec cfg s c).calls c = { s.calls c with stage := .executing } := by
  simp only [startExec]; split <;> simp [setStage]
theorem startExec_calls_other (cfg : Cfg) (s : State o) (c c' : Nat) (h : c' ≠ c) :
    (startExec cfg s c).calls c' = s.calls c' := by
  simp only [startExec]; split <;> simp [setStage, upd_apply, h]

theorem startExec_calls (cfg : Cfg) (s : State o) (c : Nat) :
    (startExec cfg s c).calls = (setStage s c .executing).calls := by
  simp only [startExec]; split <;> rfl


/-- case analysis of a step: one goal per successful branch, with the successor state substituted -/
macro "step_inv" h:ident : tactic => `(tactic| (
  simp only [step] at $h:ident
  (repeat' split at $h:ident)
  all_goals first
    | (simp at $h:ident; done)
    | (replace $h:ident := Option.some.inj $h:ident; subst $h:ident)))

/-- closing tactic for side goals about identifiers -/
macro "fin_arith" : tactic => `(tactic| first | omega | (simp_all; done) | (simp_all; omega))

/-- the request data of a call never changes -/
theorem step_static (cfg : Cfg) (s s' : State o) (l : Label) (h : step cfg s l = some s') :
    ∀ c, c < s.n → (s'.calls c).static = (s.calls c).static := by
  intro c hc
  cases l <;> step_inv h
  all_goals first
    | rfl
    | (simp [startExec_calls]; done)
    | (simp only [emit_calls, endExec_calls]; exact upd_static _ _ _ _ rfl)
    | (simp [upd_apply, Nat.ne_of_lt hc]; done)

theorem step_n (cfg : Cfg) (s s' : State o) (l : Label) (h : step cfg s l = some s') : s.n ≤ s'.n := by
  cases l <;> step_inv h
  all_goals first
    | exact Nat.le_refl _
    | (simp; done)
    | (simp [emit]; done)

/-- the trace only grows -/
theorem step_tr (cfg : Cfg) (s s' : State o) (l : Label) (h : step cfg s l = some s') :
    s.tr <+: s'.tr := by
  cases l <;> step_inv h
  all_goals first
    | (simp; done)
    | (split <;> simp)

/-- well-formedness of identifiers -/
structure WF (s : State o) : Prop where
  nch : s.nch = s.n
  fresh : ∀ c, s.n ≤ c → (s.calls c).stage = .done ∧ (s.calls c).cl = .error
  rch : ∀ c, c < s.n → (s.calls c).rch = c
  qlt : ∀ c, c ∈ s.queue → c < s.n
  llt : ∀ c, (s.loop = .acquiring c ∨ s.loop = .running c) → c < s.n

theorem wf_init : WF (init o) :=
  ⟨rfl, fun _ _ => ⟨rfl, rfl⟩, fun c h => by simp [init] at h, fun c h => by simp [init] at h,
   fun c h => by simp [init] at h⟩

theorem WF.lt_of_stage {s : State o} (hw : WF s) {c : Nat} (h : (s.calls c).stage ≠ .done) : c < s.n := by
  refine Decidable.byContradiction (fun hc => ?_)
  exact h (hw.fresh c (by omega)).1

theorem WF.lt_of_waiting {s : State o} (hw : WF s) {c : Nat} (h : (s.calls c).cl = .waiting) : c < s.n := by
  refine Decidable.byContradiction (fun hc => ?_)
  have := (hw.fresh c (by omega)).2
  rw [h] at this; cases this


end Remoc.Rtc
