import RemocModel.Rtc.Rfn

/-! concrete function, configurations and runs for the non-vacuity examples of the rfn theorems
(C12 / C19) -/

namespace Remoc.Rfn

/-- a running sum: the call with argument `a` adds `a` in each of its two segments and returns the
sum it has produced; the local state remembers the sum it found.  Arguments ≥ 100 cannot be
serialised, arguments in 90 … 99 cannot be deserialised by the provider, results ≥ 1000 cannot be
transmitted. -/
def addFn : Fun where
  σ := Nat
  Loc := Nat
  σ0 := 0
  nseg := fun _ => 1
  init := fun _ => 0
  seg := fun a _ x => (x.2 + a, x.2 + a)
  ret := fun _ l => l
  reqFits := fun a => a < 100
  decodable := fun a => a < 90
  fits := fun _ r => r < 1000

/-- the captured state as a number -/
def sumVal (s : State addFn) : Nat := s.σ

def cfgOf (fl : Flavour) (cancel : Bool) (limit : Nat := 32) : Cfg :=
  { fl := fl, cancel := cancel, remote := true, cap := 1, limit := limit }

/-- `RFnMut`: two calls one after the other (the second is issued while the first executes, it
waits in the queue) -/
def runSerial : List Label :=
  [.issue 5, .issue 7, .enqueue 0, .dequeue, .enqueue 1, .execStep 0, .execStep 0, .deliver 0, .recvReply 0,
   .dequeue, .execStep 1, .execStep 1, .deliver 1, .recvReply 1]

/-- the caller goes away after the first segment -/
def runAbandon : List Label :=
  [.issue 5, .enqueue 0, .dequeue, .execStep 0, .abandon 0, .closeSeen 0]

/-- the provider is dropped, then a call is made: the send fails, the call returns an error -/
def runProvDrop : List Label :=
  [.dropProvider, .provTerm, .issue 5, .sendFail 0, .recvReply 0]

/-- the provider is dropped while a request waits behind an executing one -/
def runProvDropBusy : List Label :=
  [.issue 5, .issue 7, .enqueue 0, .dequeue, .enqueue 1, .dropProvider, .execStep 0, .execStep 0, .deliver 0,
   .recvReply 0, .provTerm, .purge 1, .recvReply 1]

/-- connection loss with a request executing and one on its way -/
def runConnLoss : List Label :=
  [.issue 5, .issue 7, .enqueue 0, .dequeue, .connLoss, .sendFail 1, .recvReply 1, .recvReply 0,
   .execStep 0, .execStep 0, .deliver 0, .serveEnd, .closeSeen 0, .closeSeen 1]

/-- an argument that cannot be serialised: the call fails, the sender is marked as failed, the
next (harmless) call fails as well and the provider's receiver ends -/
def runPoison : List Label :=
  [.issue 100, .sendFail 0, .recvReply 0, .issue 5, .sendFail 1, .recvReply 1, .serveEnd]

/-- `RFnOnce` (hypothetical duplicate request): the first request is taken, the second fails -/
def runOnce : List Label :=
  [.issue 5, .issue 7, .enqueue 0, .dequeue, .execStep 0, .execStep 0, .deliver 0, .recvReply 0,
   .sendFail 1, .recvReply 1]

/-- `RFn` with `max_concurrency = 1`: the second execution waits for the permit of the first -/
def runConst : List Label :=
  [.issue 5, .issue 7, .enqueue 0, .dequeue, .enqueue 1, .dequeue, .permit 0, .permit 1, .execStep 0,
   .execStep 0, .permit 1, .execStep 1, .deliver 0, .execStep 1, .deliver 1, .recvReply 1, .recvReply 0]

end Remoc.Rfn
