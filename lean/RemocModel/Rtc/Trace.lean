import RemocModel.Rtc.Struct
set_option linter.unusedSimpArgs false
set_option linter.unusedVariables false

/-!
# M_rtc: invariants over the ghost trace — how often a request is dispatched / executed,
where a delivered value comes from, order of invocation, linearization point and response
-/

namespace Remoc.Rtc

variable {o : Obj}

def isDeq (c : Nat) : Ev → Bool
  | .deq c' => c' == c
  | _ => false

def isSeg (c k : Nat) : Ev → Bool
  | .seg c' k' => c' == c && k' == k
  | _ => false

/-- end of an execution of request c: finished or cancelled -/
def isEnd (c : Nat) : Ev → Bool
  | .fin c' _ _ _ => c' == c
  | .cancel c' _ _ _ => c' == c
  | _ => false

/-- number of dispatches of request c -/
def deqCount (c : Nat) (tr : List Ev) : Nat := tr.countP (isDeq c)
/-- number of times segment k of request c was executed -/
def segCount (c k : Nat) (tr : List Ev) : Nat := tr.countP (isSeg c k)
/-- number of executions of request c that ended -/
def endCount (c : Nat) (tr : List Ev) : Nat := tr.countP (isEnd c)

@[simp] theorem deqCount_append (c : Nat) (l1 l2 : List Ev) : deqCount c (l1 ++ l2) = deqCount c l1 + deqCount c l2 := by
  simp [deqCount, List.countP_append]
@[simp] theorem deqCount_cons (c : Nat) (e : Ev) (l : List Ev) : deqCount c (e :: l) = deqCount c l + (if isDeq c e then 1 else 0) := by
  simp [deqCount, List.countP_cons]
@[simp] theorem deqCount_nil (c : Nat) : deqCount c [] = 0 := rfl
@[simp] theorem segCount_append (c k : Nat) (l1 l2 : List Ev) : segCount c k (l1 ++ l2) = segCount c k l1 + segCount c k l2 := by
  simp [segCount, List.countP_append]
@[simp] theorem segCount_cons (c k : Nat) (e : Ev) (l : List Ev) : segCount c k (e :: l) = segCount c k l + (if isSeg c k e then 1 else 0) := by
  simp [segCount, List.countP_cons]
@[simp] theorem segCount_nil (c k : Nat) : segCount c k [] = 0 := rfl
@[simp] theorem endCount_append (c : Nat) (l1 l2 : List Ev) : endCount c (l1 ++ l2) = endCount c l1 + endCount c l2 := by
  simp [endCount, List.countP_append]
@[simp] theorem endCount_cons (c : Nat) (e : Ev) (l : List Ev) : endCount c (e :: l) = endCount c l + (if isEnd c e then 1 else 0) := by
  simp [endCount, List.countP_cons]
@[simp] theorem endCount_nil (c : Nat) : endCount c [] = 0 := rfl

structure CInv (s : State o) : Prop where
  fresh : ∀ c, s.n ≤ c → deqCount c s.tr = 0 ∧ endCount c s.tr = 0 ∧ ∀ k, segCount c k s.tr = 0
  pre : ∀ c, ((s.calls c).stage = .sending ∨ (s.calls c).stage = .queued) →
    deqCount c s.tr = 0 ∧ endCount c s.tr = 0 ∧ ∀ k, segCount c k s.tr = 0
  acq : ∀ c, (s.calls c).stage = .acquiring →
    deqCount c s.tr = 1 ∧ endCount c s.tr = 0 ∧ ∀ k, segCount c k s.tr = 0
  exe : ∀ c, (s.calls c).stage = .executing →
    deqCount c s.tr = 1 ∧ endCount c s.tr = 0 ∧ (s.calls c).pc ≤ o.nseg (s.calls c).m (s.calls c).a
      ∧ ∀ k, segCount c k s.tr = if k < (s.calls c).pc then 1 else 0
  pc0 : ∀ c, ((s.calls c).stage = .sending ∨ (s.calls c).stage = .queued ∨ (s.calls c).stage = .acquiring) →
    (s.calls c).pc = 0
  post : ∀ c, deqCount c s.tr ≤ 1 ∧ endCount c s.tr ≤ 1 ∧ ∀ k, segCount c k s.tr ≤ 1
  fin : ∀ c m a r, Ev.fin c m a r ∈ s.tr → c < s.n ∧ m = (s.calls c).m ∧ a = (s.calls c).a ∧ endCount c s.tr = 1
    ∧ (∀ k, k ≤ o.nseg m a → segCount c k s.tr = 1) ∧ (s.calls c).stage.passive = true

theorem cinv_init : CInv (init o) := by
  refine ⟨?_, ?_, ?_, ?_, ?_, ?_, ?_⟩ <;> simp [init, noCall]


/-! ### provenance of values and order of events -/

/-- the call an event belongs to -/
def evCall : Ev → Nat
  | .inv c _ _ _ => c
  | .abandon c => c
  | .deq c => c
  | .discard c => c
  | .seg c _ => c
  | .fin c _ _ _ => c
  | .cancel c _ _ _ => c
  | .replyErr c => c
  | .resp c _ => c
  | .respErr c => c

/-- what must have happened before an event -/
def Pre (p : List Ev) : Ev → Prop
  | .inv c _ _ _ => ∀ e, e ∈ p → evCall e < c
  | .seg c _ => ∃ cl m a, Ev.inv c cl m a ∈ p
  | .fin c m a _ => ∃ cl, Ev.inv c cl m a ∈ p
  | .cancel c m a _ => ∃ cl, Ev.inv c cl m a ∈ p
  | .resp c r => ∃ m a, Ev.fin c m a r ∈ p
  | .respErr c => ∃ cl m a, Ev.inv c cl m a ∈ p
  | _ => True

def OrderedFrom (p : List Ev) : List Ev → Prop
  | [] => True
  | e :: q => Pre p e ∧ OrderedFrom (p ++ [e]) q

/-- every execution event of a call comes after its invocation, every response after the
finish event (linearization point) that produced its value -/
def Ordered (tr : List Ev) : Prop := OrderedFrom [] tr

theorem orderedFrom_append (p q l : List Ev) :
    OrderedFrom p (q ++ l) ↔ OrderedFrom p q ∧ OrderedFrom (p ++ q) l := by
  induction q generalizing p with
  | nil => simp [OrderedFrom]
  | cons e q ih =>
    simp only [List.cons_append, OrderedFrom, ih, List.append_assoc, List.singleton_append]
    constructor
    · rintro ⟨h1, h2, h3⟩; exact ⟨⟨h1, h2⟩, h3⟩
    · rintro ⟨⟨h1, h2⟩, h3⟩; exact ⟨h1, h2, h3⟩

@[simp] theorem ordered_append (tr l : List Ev) : Ordered (tr ++ l) ↔ Ordered tr ∧ OrderedFrom tr l := by
  simp [Ordered, orderedFrom_append]

/-- the defining property in "split" form -/
theorem Ordered.pre {tr : List Ev} (h : Ordered tr) (p q : List Ev) (e : Ev) (he : tr = p ++ e :: q) : Pre p e := by
  subst he
  have := (ordered_append p (e :: q)).1 h
  exact this.2.1

structure RInv (s : State o) : Prop where
  inv : ∀ c, c < s.n → Ev.inv c (s.calls c).client (s.calls c).m (s.calls c).a ∈ s.tr
  repl : ∀ c r, (s.calls c).stage = .replying r → Ev.fin c (s.calls c).m (s.calls c).a r ∈ s.tr
  chan : ∀ ch r, (s.chans ch).val = some r → ch < s.n ∧ Ev.fin ch (s.calls ch).m (s.calls ch).a r ∈ s.tr
  val : ∀ c r, (s.calls c).cl = .value r → Ev.fin c (s.calls c).m (s.calls c).a r ∈ s.tr ∧ Ev.resp c r ∈ s.tr
  ord : Ordered s.tr
  evlt : ∀ e, e ∈ s.tr → evCall e < s.n

theorem rinv_init : RInv (init o) := by
  refine ⟨?_, ?_, ?_, ?_, ?_, ?_⟩ <;> simp [init, noCall, Ordered, OrderedFrom]


theorem cinv_step_issue (cfg : Cfg) (s s' : State o) (l : Label) (hw : WF s) (hs : SInv cfg s) (hc : CInv s)
    (hl : match l with
      | .issue .. => True
      | _ => False)
    (h : step cfg s l = some s') : CInv s' := by
  have hfr := hw.fresh
  have hq := hs.qmem
  have ha := hs.acq
  obtain ⟨f1, f2, f3, f4, f5, f6, f7⟩ := hc
  cases l <;> simp only at hl <;> step_inv h
  all_goals (refine ⟨?_, ?_, ?_, ?_, ?_, ?_, ?_⟩)
  all_goals first
    | (intro c m a r hh; have e1 := f1 c; have e2 := f2 c; have e3 := f3 c; have e4 := f4 c; have e5 := f5 c; have e6 := f6 c
       have e7 := f7 c m a r; have eq := hq c; have ea := ha c; have efr := hfr c
       simp [upd_apply, startExec_calls, isDeq, isSeg, isEnd, Stage.passive] at e1 e2 e3 e4 e5 e6 e7 eq ea efr hh ⊢; grind)
    | (intro c hh; have e1 := f1 c; have e2 := f2 c; have e3 := f3 c; have e4 := f4 c; have e5 := f5 c; have e6 := f6 c
       have eq := hq c; have ea := ha c; have efr := hfr c
       simp [upd_apply, startExec_calls, isDeq, isSeg, isEnd, Stage.passive] at e1 e2 e3 e4 e5 e6 eq ea efr hh ⊢; grind)
    | (intro c; have e1 := f1 c; have e2 := f2 c; have e3 := f3 c; have e4 := f4 c; have e5 := f5 c; have e6 := f6 c
       have eq := hq c; have ea := ha c; have efr := hfr c
       simp [upd_apply, startExec_calls, isDeq, isSeg, isEnd, Stage.passive] at e1 e2 e3 e4 e5 e6 eq ea efr ⊢; grind)
    | skip

theorem cinv_step_abandon (cfg : Cfg) (s s' : State o) (l : Label) (hw : WF s) (hs : SInv cfg s) (hc : CInv s)
    (hl : match l with
      | .abandon _ => True
      | _ => False)
    (h : step cfg s l = some s') : CInv s' := by
  have hfr := hw.fresh
  have hq := hs.qmem
  have ha := hs.acq
  obtain ⟨f1, f2, f3, f4, f5, f6, f7⟩ := hc
  cases l <;> simp only at hl <;> step_inv h
  all_goals (refine ⟨?_, ?_, ?_, ?_, ?_, ?_, ?_⟩)
  all_goals first
    | (intro c m a r hh; have e1 := f1 c; have e2 := f2 c; have e3 := f3 c; have e4 := f4 c; have e5 := f5 c; have e6 := f6 c
       have e7 := f7 c m a r; have eq := hq c; have ea := ha c; have efr := hfr c
       simp [upd_apply, startExec_calls, isDeq, isSeg, isEnd, Stage.passive] at e1 e2 e3 e4 e5 e6 e7 eq ea efr hh ⊢; grind)
    | (intro c hh; have e1 := f1 c; have e2 := f2 c; have e3 := f3 c; have e4 := f4 c; have e5 := f5 c; have e6 := f6 c
       have eq := hq c; have ea := ha c; have efr := hfr c
       simp [upd_apply, startExec_calls, isDeq, isSeg, isEnd, Stage.passive] at e1 e2 e3 e4 e5 e6 eq ea efr hh ⊢; grind)
    | (intro c; have e1 := f1 c; have e2 := f2 c; have e3 := f3 c; have e4 := f4 c; have e5 := f5 c; have e6 := f6 c
       have eq := hq c; have ea := ha c; have efr := hfr c
       simp [upd_apply, startExec_calls, isDeq, isSeg, isEnd, Stage.passive] at e1 e2 e3 e4 e5 e6 eq ea efr ⊢; grind)
    | skip

theorem cinv_step_abandonEarly (cfg : Cfg) (s s' : State o) (l : Label) (hw : WF s) (hs : SInv cfg s) (hc : CInv s)
    (hl : match l with
      | .abandonEarly _ => True
      | _ => False)
    (h : step cfg s l = some s') : CInv s' := by
  have hfr := hw.fresh
  have hq := hs.qmem
  have ha := hs.acq
  obtain ⟨f1, f2, f3, f4, f5, f6, f7⟩ := hc
  cases l <;> simp only at hl <;> step_inv h
  all_goals (refine ⟨?_, ?_, ?_, ?_, ?_, ?_, ?_⟩)
  all_goals first
    | (intro c m a r hh; have e1 := f1 c; have e2 := f2 c; have e3 := f3 c; have e4 := f4 c; have e5 := f5 c; have e6 := f6 c
       have e7 := f7 c m a r; have eq := hq c; have ea := ha c; have efr := hfr c
       simp [upd_apply, startExec_calls, isDeq, isSeg, isEnd, Stage.passive] at e1 e2 e3 e4 e5 e6 e7 eq ea efr hh ⊢; grind)
    | (intro c hh; have e1 := f1 c; have e2 := f2 c; have e3 := f3 c; have e4 := f4 c; have e5 := f5 c; have e6 := f6 c
       have eq := hq c; have ea := ha c; have efr := hfr c
       simp [upd_apply, startExec_calls, isDeq, isSeg, isEnd, Stage.passive] at e1 e2 e3 e4 e5 e6 eq ea efr hh ⊢; grind)
    | (intro c; have e1 := f1 c; have e2 := f2 c; have e3 := f3 c; have e4 := f4 c; have e5 := f5 c; have e6 := f6 c
       have eq := hq c; have ea := ha c; have efr := hfr c
       simp [upd_apply, startExec_calls, isDeq, isSeg, isEnd, Stage.passive] at e1 e2 e3 e4 e5 e6 eq ea efr ⊢; grind)
    | skip

theorem cinv_step_connLoss (cfg : Cfg) (s s' : State o) (l : Label) (hw : WF s) (hs : SInv cfg s) (hc : CInv s)
    (hl : match l with
      | .connLoss => True
      | _ => False)
    (h : step cfg s l = some s') : CInv s' := by
  have hfr := hw.fresh
  have hq := hs.qmem
  have ha := hs.acq
  obtain ⟨f1, f2, f3, f4, f5, f6, f7⟩ := hc
  cases l <;> simp only at hl <;> step_inv h
  all_goals (refine ⟨?_, ?_, ?_, ?_, ?_, ?_, ?_⟩)
  all_goals first
    | (intro c m a r hh; have e1 := f1 c; have e2 := f2 c; have e3 := f3 c; have e4 := f4 c; have e5 := f5 c; have e6 := f6 c
       have e7 := f7 c m a r; have eq := hq c; have ea := ha c; have efr := hfr c
       simp [upd_apply, startExec_calls, isDeq, isSeg, isEnd, Stage.passive] at e1 e2 e3 e4 e5 e6 e7 eq ea efr hh ⊢; grind)
    | (intro c hh; have e1 := f1 c; have e2 := f2 c; have e3 := f3 c; have e4 := f4 c; have e5 := f5 c; have e6 := f6 c
       have eq := hq c; have ea := ha c; have efr := hfr c
       simp [upd_apply, startExec_calls, isDeq, isSeg, isEnd, Stage.passive] at e1 e2 e3 e4 e5 e6 eq ea efr hh ⊢; grind)
    | (intro c; have e1 := f1 c; have e2 := f2 c; have e3 := f3 c; have e4 := f4 c; have e5 := f5 c; have e6 := f6 c
       have eq := hq c; have ea := ha c; have efr := hfr c
       simp [upd_apply, startExec_calls, isDeq, isSeg, isEnd, Stage.passive] at e1 e2 e3 e4 e5 e6 eq ea efr ⊢; grind)
    | skip

theorem cinv_step_dropClients (cfg : Cfg) (s s' : State o) (l : Label) (hw : WF s) (hs : SInv cfg s) (hc : CInv s)
    (hl : match l with
      | .dropClients => True
      | _ => False)
    (h : step cfg s l = some s') : CInv s' := by
  have hfr := hw.fresh
  have hq := hs.qmem
  have ha := hs.acq
  obtain ⟨f1, f2, f3, f4, f5, f6, f7⟩ := hc
  cases l <;> simp only at hl <;> step_inv h
  all_goals (refine ⟨?_, ?_, ?_, ?_, ?_, ?_, ?_⟩)
  all_goals first
    | (intro c m a r hh; have e1 := f1 c; have e2 := f2 c; have e3 := f3 c; have e4 := f4 c; have e5 := f5 c; have e6 := f6 c
       have e7 := f7 c m a r; have eq := hq c; have ea := ha c; have efr := hfr c
       simp [upd_apply, startExec_calls, isDeq, isSeg, isEnd, Stage.passive] at e1 e2 e3 e4 e5 e6 e7 eq ea efr hh ⊢; grind)
    | (intro c hh; have e1 := f1 c; have e2 := f2 c; have e3 := f3 c; have e4 := f4 c; have e5 := f5 c; have e6 := f6 c
       have eq := hq c; have ea := ha c; have efr := hfr c
       simp [upd_apply, startExec_calls, isDeq, isSeg, isEnd, Stage.passive] at e1 e2 e3 e4 e5 e6 eq ea efr hh ⊢; grind)
    | (intro c; have e1 := f1 c; have e2 := f2 c; have e3 := f3 c; have e4 := f4 c; have e5 := f5 c; have e6 := f6 c
       have eq := hq c; have ea := ha c; have efr := hfr c
       simp [upd_apply, startExec_calls, isDeq, isSeg, isEnd, Stage.passive] at e1 e2 e3 e4 e5 e6 eq ea efr ⊢; grind)
    | skip

theorem cinv_step_enqueue (cfg : Cfg) (s s' : State o) (l : Label) (hw : WF s) (hs : SInv cfg s) (hc : CInv s)
    (hl : match l with
      | .enqueue _ => True
      | _ => False)
    (h : step cfg s l = some s') : CInv s' := by
  have hfr := hw.fresh
  have hq := hs.qmem
  have ha := hs.acq
  obtain ⟨f1, f2, f3, f4, f5, f6, f7⟩ := hc
  cases l <;> simp only at hl <;> step_inv h
  all_goals (refine ⟨?_, ?_, ?_, ?_, ?_, ?_, ?_⟩)
  all_goals first
    | (intro c m a r hh; have e1 := f1 c; have e2 := f2 c; have e3 := f3 c; have e4 := f4 c; have e5 := f5 c; have e6 := f6 c
       have e7 := f7 c m a r; have eq := hq c; have ea := ha c; have efr := hfr c
       simp [upd_apply, startExec_calls, isDeq, isSeg, isEnd, Stage.passive] at e1 e2 e3 e4 e5 e6 e7 eq ea efr hh ⊢; grind)
    | (intro c hh; have e1 := f1 c; have e2 := f2 c; have e3 := f3 c; have e4 := f4 c; have e5 := f5 c; have e6 := f6 c
       have eq := hq c; have ea := ha c; have efr := hfr c
       simp [upd_apply, startExec_calls, isDeq, isSeg, isEnd, Stage.passive] at e1 e2 e3 e4 e5 e6 eq ea efr hh ⊢; grind)
    | (intro c; have e1 := f1 c; have e2 := f2 c; have e3 := f3 c; have e4 := f4 c; have e5 := f5 c; have e6 := f6 c
       have eq := hq c; have ea := ha c; have efr := hfr c
       simp [upd_apply, startExec_calls, isDeq, isSeg, isEnd, Stage.passive] at e1 e2 e3 e4 e5 e6 eq ea efr ⊢; grind)
    | skip

theorem cinv_step_sendFail (cfg : Cfg) (s s' : State o) (l : Label) (hw : WF s) (hs : SInv cfg s) (hc : CInv s)
    (hl : match l with
      | .sendFail _ => True
      | _ => False)
    (h : step cfg s l = some s') : CInv s' := by
  have hfr := hw.fresh
  have hq := hs.qmem
  have ha := hs.acq
  obtain ⟨f1, f2, f3, f4, f5, f6, f7⟩ := hc
  cases l <;> simp only at hl <;> step_inv h
  all_goals (refine ⟨?_, ?_, ?_, ?_, ?_, ?_, ?_⟩)
  all_goals first
    | (intro c m a r hh; have e1 := f1 c; have e2 := f2 c; have e3 := f3 c; have e4 := f4 c; have e5 := f5 c; have e6 := f6 c
       have e7 := f7 c m a r; have eq := hq c; have ea := ha c; have efr := hfr c
       simp [upd_apply, startExec_calls, isDeq, isSeg, isEnd, Stage.passive] at e1 e2 e3 e4 e5 e6 e7 eq ea efr hh ⊢; grind)
    | (intro c hh; have e1 := f1 c; have e2 := f2 c; have e3 := f3 c; have e4 := f4 c; have e5 := f5 c; have e6 := f6 c
       have eq := hq c; have ea := ha c; have efr := hfr c
       simp [upd_apply, startExec_calls, isDeq, isSeg, isEnd, Stage.passive] at e1 e2 e3 e4 e5 e6 eq ea efr hh ⊢; grind)
    | (intro c; have e1 := f1 c; have e2 := f2 c; have e3 := f3 c; have e4 := f4 c; have e5 := f5 c; have e6 := f6 c
       have eq := hq c; have ea := ha c; have efr := hfr c
       simp [upd_apply, startExec_calls, isDeq, isSeg, isEnd, Stage.passive] at e1 e2 e3 e4 e5 e6 eq ea efr ⊢; grind)
    | skip

theorem cinv_step_closeSeen (cfg : Cfg) (s s' : State o) (l : Label) (hw : WF s) (hs : SInv cfg s) (hc : CInv s)
    (hl : match l with
      | .closeSeen _ => True
      | _ => False)
    (h : step cfg s l = some s') : CInv s' := by
  have hfr := hw.fresh
  have hq := hs.qmem
  have ha := hs.acq
  obtain ⟨f1, f2, f3, f4, f5, f6, f7⟩ := hc
  cases l <;> simp only at hl <;> step_inv h
  all_goals (refine ⟨?_, ?_, ?_, ?_, ?_, ?_, ?_⟩)
  all_goals first
    | (intro c m a r hh; have e1 := f1 c; have e2 := f2 c; have e3 := f3 c; have e4 := f4 c; have e5 := f5 c; have e6 := f6 c
       have e7 := f7 c m a r; have eq := hq c; have ea := ha c; have efr := hfr c
       simp [upd_apply, startExec_calls, isDeq, isSeg, isEnd, Stage.passive] at e1 e2 e3 e4 e5 e6 e7 eq ea efr hh ⊢; grind)
    | (intro c hh; have e1 := f1 c; have e2 := f2 c; have e3 := f3 c; have e4 := f4 c; have e5 := f5 c; have e6 := f6 c
       have eq := hq c; have ea := ha c; have efr := hfr c
       simp [upd_apply, startExec_calls, isDeq, isSeg, isEnd, Stage.passive] at e1 e2 e3 e4 e5 e6 eq ea efr hh ⊢; grind)
    | (intro c; have e1 := f1 c; have e2 := f2 c; have e3 := f3 c; have e4 := f4 c; have e5 := f5 c; have e6 := f6 c
       have eq := hq c; have ea := ha c; have efr := hfr c
       simp [upd_apply, startExec_calls, isDeq, isSeg, isEnd, Stage.passive] at e1 e2 e3 e4 e5 e6 eq ea efr ⊢; grind)
    | skip

theorem cinv_step_recvReply (cfg : Cfg) (s s' : State o) (l : Label) (hw : WF s) (hs : SInv cfg s) (hc : CInv s)
    (hl : match l with
      | .recvReply _ => True
      | _ => False)
    (h : step cfg s l = some s') : CInv s' := by
  have hfr := hw.fresh
  have hq := hs.qmem
  have ha := hs.acq
  obtain ⟨f1, f2, f3, f4, f5, f6, f7⟩ := hc
  cases l <;> simp only at hl <;> step_inv h
  all_goals (refine ⟨?_, ?_, ?_, ?_, ?_, ?_, ?_⟩)
  all_goals first
    | (intro c m a r hh; have e1 := f1 c; have e2 := f2 c; have e3 := f3 c; have e4 := f4 c; have e5 := f5 c; have e6 := f6 c
       have e7 := f7 c m a r; have eq := hq c; have ea := ha c; have efr := hfr c
       simp [upd_apply, startExec_calls, isDeq, isSeg, isEnd, Stage.passive] at e1 e2 e3 e4 e5 e6 e7 eq ea efr hh ⊢; grind)
    | (intro c hh; have e1 := f1 c; have e2 := f2 c; have e3 := f3 c; have e4 := f4 c; have e5 := f5 c; have e6 := f6 c
       have eq := hq c; have ea := ha c; have efr := hfr c
       simp [upd_apply, startExec_calls, isDeq, isSeg, isEnd, Stage.passive] at e1 e2 e3 e4 e5 e6 eq ea efr hh ⊢; grind)
    | (intro c; have e1 := f1 c; have e2 := f2 c; have e3 := f3 c; have e4 := f4 c; have e5 := f5 c; have e6 := f6 c
       have eq := hq c; have ea := ha c; have efr := hfr c
       simp [upd_apply, startExec_calls, isDeq, isSeg, isEnd, Stage.passive] at e1 e2 e3 e4 e5 e6 eq ea efr ⊢; grind)
    | skip

theorem cinv_step_dequeue (cfg : Cfg) (s s' : State o) (l : Label) (hw : WF s) (hs : SInv cfg s) (hc : CInv s)
    (hl : match l with
      | .dequeue => True
      | _ => False)
    (h : step cfg s l = some s') : CInv s' := by
  have hfr := hw.fresh
  have hq := hs.qmem
  have ha := hs.acq
  obtain ⟨f1, f2, f3, f4, f5, f6, f7⟩ := hc
  cases l <;> simp only at hl <;> step_inv h
  all_goals (refine ⟨?_, ?_, ?_, ?_, ?_, ?_, ?_⟩)
  all_goals first
    | (intro c m a r hh; have e1 := f1 c; have e2 := f2 c; have e3 := f3 c; have e4 := f4 c; have e5 := f5 c; have e6 := f6 c
       have e7 := f7 c m a r; have eq := hq c; have ea := ha c; have efr := hfr c
       simp [upd_apply, startExec_calls, isDeq, isSeg, isEnd, Stage.passive] at e1 e2 e3 e4 e5 e6 e7 eq ea efr hh ⊢; grind)
    | (intro c hh; have e1 := f1 c; have e2 := f2 c; have e3 := f3 c; have e4 := f4 c; have e5 := f5 c; have e6 := f6 c
       have eq := hq c; have ea := ha c; have efr := hfr c
       simp [upd_apply, startExec_calls, isDeq, isSeg, isEnd, Stage.passive] at e1 e2 e3 e4 e5 e6 eq ea efr hh ⊢; grind)
    | (intro c; have e1 := f1 c; have e2 := f2 c; have e3 := f3 c; have e4 := f4 c; have e5 := f5 c; have e6 := f6 c
       have eq := hq c; have ea := ha c; have efr := hfr c
       simp [upd_apply, startExec_calls, isDeq, isSeg, isEnd, Stage.passive] at e1 e2 e3 e4 e5 e6 eq ea efr ⊢; grind)
    | skip

theorem cinv_step_acquire (cfg : Cfg) (s s' : State o) (l : Label) (hw : WF s) (hs : SInv cfg s) (hc : CInv s)
    (hl : match l with
      | .acquire => True
      | _ => False)
    (h : step cfg s l = some s') : CInv s' := by
  have hfr := hw.fresh
  have hq := hs.qmem
  have ha := hs.acq
  obtain ⟨f1, f2, f3, f4, f5, f6, f7⟩ := hc
  cases l <;> simp only at hl <;> step_inv h
  all_goals (refine ⟨?_, ?_, ?_, ?_, ?_, ?_, ?_⟩)
  all_goals first
    | (intro c m a r hh; have e1 := f1 c; have e2 := f2 c; have e3 := f3 c; have e4 := f4 c; have e5 := f5 c; have e6 := f6 c
       have e7 := f7 c m a r; have eq := hq c; have ea := ha c; have efr := hfr c
       simp [upd_apply, startExec_calls, isDeq, isSeg, isEnd, Stage.passive] at e1 e2 e3 e4 e5 e6 e7 eq ea efr hh ⊢; grind)
    | (intro c hh; have e1 := f1 c; have e2 := f2 c; have e3 := f3 c; have e4 := f4 c; have e5 := f5 c; have e6 := f6 c
       have eq := hq c; have ea := ha c; have efr := hfr c
       simp [upd_apply, startExec_calls, isDeq, isSeg, isEnd, Stage.passive] at e1 e2 e3 e4 e5 e6 eq ea efr hh ⊢; grind)
    | (intro c; have e1 := f1 c; have e2 := f2 c; have e3 := f3 c; have e4 := f4 c; have e5 := f5 c; have e6 := f6 c
       have eq := hq c; have ea := ha c; have efr := hfr c
       simp [upd_apply, startExec_calls, isDeq, isSeg, isEnd, Stage.passive] at e1 e2 e3 e4 e5 e6 eq ea efr ⊢; grind)
    | skip

theorem cinv_step_execStep (cfg : Cfg) (s s' : State o) (l : Label) (hw : WF s) (hs : SInv cfg s) (hc : CInv s)
    (hl : match l with
      | .execStep _ => True
      | _ => False)
    (h : step cfg s l = some s') : CInv s' := by
  have hfr := hw.fresh
  have hq := hs.qmem
  have ha := hs.acq
  obtain ⟨f1, f2, f3, f4, f5, f6, f7⟩ := hc
  cases l <;> simp only at hl <;> step_inv h
  all_goals (refine ⟨?_, ?_, ?_, ?_, ?_, ?_, ?_⟩)
  all_goals first
    | (intro c m a r hh; have e1 := f1 c; have e2 := f2 c; have e3 := f3 c; have e4 := f4 c; have e5 := f5 c; have e6 := f6 c
       have e7 := f7 c m a r; have eq := hq c; have ea := ha c; have efr := hfr c
       simp [upd_apply, startExec_calls, isDeq, isSeg, isEnd, Stage.passive] at e1 e2 e3 e4 e5 e6 e7 eq ea efr hh ⊢; grind)
    | (intro c hh; have e1 := f1 c; have e2 := f2 c; have e3 := f3 c; have e4 := f4 c; have e5 := f5 c; have e6 := f6 c
       have eq := hq c; have ea := ha c; have efr := hfr c
       simp [upd_apply, startExec_calls, isDeq, isSeg, isEnd, Stage.passive] at e1 e2 e3 e4 e5 e6 eq ea efr hh ⊢; grind)
    | (intro c; have e1 := f1 c; have e2 := f2 c; have e3 := f3 c; have e4 := f4 c; have e5 := f5 c; have e6 := f6 c
       have eq := hq c; have ea := ha c; have efr := hfr c
       simp [upd_apply, startExec_calls, isDeq, isSeg, isEnd, Stage.passive] at e1 e2 e3 e4 e5 e6 eq ea efr ⊢; grind)
    | skip

theorem cinv_step_execCancel (cfg : Cfg) (s s' : State o) (l : Label) (hw : WF s) (hs : SInv cfg s) (hc : CInv s)
    (hl : match l with
      | .execCancel _ => True
      | _ => False)
    (h : step cfg s l = some s') : CInv s' := by
  have hfr := hw.fresh
  have hq := hs.qmem
  have ha := hs.acq
  obtain ⟨f1, f2, f3, f4, f5, f6, f7⟩ := hc
  cases l <;> simp only at hl <;> step_inv h
  all_goals (refine ⟨?_, ?_, ?_, ?_, ?_, ?_, ?_⟩)
  all_goals first
    | (intro c m a r hh; have e1 := f1 c; have e2 := f2 c; have e3 := f3 c; have e4 := f4 c; have e5 := f5 c; have e6 := f6 c
       have e7 := f7 c m a r; have eq := hq c; have ea := ha c; have efr := hfr c
       simp [upd_apply, startExec_calls, isDeq, isSeg, isEnd, Stage.passive] at e1 e2 e3 e4 e5 e6 e7 eq ea efr hh ⊢; grind)
    | (intro c hh; have e1 := f1 c; have e2 := f2 c; have e3 := f3 c; have e4 := f4 c; have e5 := f5 c; have e6 := f6 c
       have eq := hq c; have ea := ha c; have efr := hfr c
       simp [upd_apply, startExec_calls, isDeq, isSeg, isEnd, Stage.passive] at e1 e2 e3 e4 e5 e6 eq ea efr hh ⊢; grind)
    | (intro c; have e1 := f1 c; have e2 := f2 c; have e3 := f3 c; have e4 := f4 c; have e5 := f5 c; have e6 := f6 c
       have eq := hq c; have ea := ha c; have efr := hfr c
       simp [upd_apply, startExec_calls, isDeq, isSeg, isEnd, Stage.passive] at e1 e2 e3 e4 e5 e6 eq ea efr ⊢; grind)
    | skip

theorem cinv_step_deliver (cfg : Cfg) (s s' : State o) (l : Label) (hw : WF s) (hs : SInv cfg s) (hc : CInv s)
    (hl : match l with
      | .deliver _ => True
      | _ => False)
    (h : step cfg s l = some s') : CInv s' := by
  have hfr := hw.fresh
  have hq := hs.qmem
  have ha := hs.acq
  obtain ⟨f1, f2, f3, f4, f5, f6, f7⟩ := hc
  cases l <;> simp only at hl <;> step_inv h
  all_goals (refine ⟨?_, ?_, ?_, ?_, ?_, ?_, ?_⟩)
  all_goals first
    | (intro c m a r hh; have e1 := f1 c; have e2 := f2 c; have e3 := f3 c; have e4 := f4 c; have e5 := f5 c; have e6 := f6 c
       have e7 := f7 c m a r; have eq := hq c; have ea := ha c; have efr := hfr c
       simp [upd_apply, startExec_calls, isDeq, isSeg, isEnd, Stage.passive] at e1 e2 e3 e4 e5 e6 e7 eq ea efr hh ⊢; grind)
    | (intro c hh; have e1 := f1 c; have e2 := f2 c; have e3 := f3 c; have e4 := f4 c; have e5 := f5 c; have e6 := f6 c
       have eq := hq c; have ea := ha c; have efr := hfr c
       simp [upd_apply, startExec_calls, isDeq, isSeg, isEnd, Stage.passive] at e1 e2 e3 e4 e5 e6 eq ea efr hh ⊢; grind)
    | (intro c; have e1 := f1 c; have e2 := f2 c; have e3 := f3 c; have e4 := f4 c; have e5 := f5 c; have e6 := f6 c
       have eq := hq c; have ea := ha c; have efr := hfr c
       simp [upd_apply, startExec_calls, isDeq, isSeg, isEnd, Stage.passive] at e1 e2 e3 e4 e5 e6 eq ea efr ⊢; grind)
    | skip

theorem cinv_step_report (cfg : Cfg) (s s' : State o) (l : Label) (hw : WF s) (hs : SInv cfg s) (hc : CInv s)
    (hl : match l with
      | .report _ => True
      | _ => False)
    (h : step cfg s l = some s') : CInv s' := by
  have hfr := hw.fresh
  have hq := hs.qmem
  have ha := hs.acq
  obtain ⟨f1, f2, f3, f4, f5, f6, f7⟩ := hc
  cases l <;> simp only at hl <;> step_inv h
  all_goals (refine ⟨?_, ?_, ?_, ?_, ?_, ?_, ?_⟩)
  all_goals first
    | (intro c m a r hh; have e1 := f1 c; have e2 := f2 c; have e3 := f3 c; have e4 := f4 c; have e5 := f5 c; have e6 := f6 c
       have e7 := f7 c m a r; have eq := hq c; have ea := ha c; have efr := hfr c
       simp [upd_apply, startExec_calls, isDeq, isSeg, isEnd, Stage.passive] at e1 e2 e3 e4 e5 e6 e7 eq ea efr hh ⊢; grind)
    | (intro c hh; have e1 := f1 c; have e2 := f2 c; have e3 := f3 c; have e4 := f4 c; have e5 := f5 c; have e6 := f6 c
       have eq := hq c; have ea := ha c; have efr := hfr c
       simp [upd_apply, startExec_calls, isDeq, isSeg, isEnd, Stage.passive] at e1 e2 e3 e4 e5 e6 eq ea efr hh ⊢; grind)
    | (intro c; have e1 := f1 c; have e2 := f2 c; have e3 := f3 c; have e4 := f4 c; have e5 := f5 c; have e6 := f6 c
       have eq := hq c; have ea := ha c; have efr := hfr c
       simp [upd_apply, startExec_calls, isDeq, isSeg, isEnd, Stage.passive] at e1 e2 e3 e4 e5 e6 eq ea efr ⊢; grind)
    | skip

theorem cinv_step_serveErr (cfg : Cfg) (s s' : State o) (l : Label) (hw : WF s) (hs : SInv cfg s) (hc : CInv s)
    (hl : match l with
      | .serveErr => True
      | _ => False)
    (h : step cfg s l = some s') : CInv s' := by
  have hfr := hw.fresh
  have hq := hs.qmem
  have ha := hs.acq
  obtain ⟨f1, f2, f3, f4, f5, f6, f7⟩ := hc
  cases l <;> simp only at hl <;> step_inv h
  all_goals (refine ⟨?_, ?_, ?_, ?_, ?_, ?_, ?_⟩)
  all_goals first
    | (intro c m a r hh; have e1 := f1 c; have e2 := f2 c; have e3 := f3 c; have e4 := f4 c; have e5 := f5 c; have e6 := f6 c
       have e7 := f7 c m a r; have eq := hq c; have ea := ha c; have efr := hfr c
       simp [upd_apply, startExec_calls, isDeq, isSeg, isEnd, Stage.passive] at e1 e2 e3 e4 e5 e6 e7 eq ea efr hh ⊢; grind)
    | (intro c hh; have e1 := f1 c; have e2 := f2 c; have e3 := f3 c; have e4 := f4 c; have e5 := f5 c; have e6 := f6 c
       have eq := hq c; have ea := ha c; have efr := hfr c
       simp [upd_apply, startExec_calls, isDeq, isSeg, isEnd, Stage.passive] at e1 e2 e3 e4 e5 e6 eq ea efr hh ⊢; grind)
    | (intro c; have e1 := f1 c; have e2 := f2 c; have e3 := f3 c; have e4 := f4 c; have e5 := f5 c; have e6 := f6 c
       have eq := hq c; have ea := ha c; have efr := hfr c
       simp [upd_apply, startExec_calls, isDeq, isSeg, isEnd, Stage.passive] at e1 e2 e3 e4 e5 e6 eq ea efr ⊢; grind)
    | skip

theorem cinv_step_purge (cfg : Cfg) (s s' : State o) (l : Label) (hw : WF s) (hs : SInv cfg s) (hc : CInv s)
    (hl : match l with
      | .purge _ => True
      | _ => False)
    (h : step cfg s l = some s') : CInv s' := by
  have hfr := hw.fresh
  have hq := hs.qmem
  have ha := hs.acq
  obtain ⟨f1, f2, f3, f4, f5, f6, f7⟩ := hc
  cases l <;> simp only at hl <;> step_inv h
  all_goals (refine ⟨?_, ?_, ?_, ?_, ?_, ?_, ?_⟩)
  all_goals first
    | (intro c m a r hh; have e1 := f1 c; have e2 := f2 c; have e3 := f3 c; have e4 := f4 c; have e5 := f5 c; have e6 := f6 c
       have e7 := f7 c m a r; have eq := hq c; have ea := ha c; have efr := hfr c
       simp [upd_apply, startExec_calls, isDeq, isSeg, isEnd, Stage.passive] at e1 e2 e3 e4 e5 e6 e7 eq ea efr hh ⊢; grind)
    | (intro c hh; have e1 := f1 c; have e2 := f2 c; have e3 := f3 c; have e4 := f4 c; have e5 := f5 c; have e6 := f6 c
       have eq := hq c; have ea := ha c; have efr := hfr c
       simp [upd_apply, startExec_calls, isDeq, isSeg, isEnd, Stage.passive] at e1 e2 e3 e4 e5 e6 eq ea efr hh ⊢; grind)
    | (intro c; have e1 := f1 c; have e2 := f2 c; have e3 := f3 c; have e4 := f4 c; have e5 := f5 c; have e6 := f6 c
       have eq := hq c; have ea := ha c; have efr := hfr c
       simp [upd_apply, startExec_calls, isDeq, isSeg, isEnd, Stage.passive] at e1 e2 e3 e4 e5 e6 eq ea efr ⊢; grind)
    | skip

theorem cinv_step_serveEnd (cfg : Cfg) (s s' : State o) (l : Label) (hw : WF s) (hs : SInv cfg s) (hc : CInv s)
    (hl : match l with
      | .serveEnd => True
      | _ => False)
    (h : step cfg s l = some s') : CInv s' := by
  have hfr := hw.fresh
  have hq := hs.qmem
  have ha := hs.acq
  obtain ⟨f1, f2, f3, f4, f5, f6, f7⟩ := hc
  cases l <;> simp only at hl <;> step_inv h
  all_goals (refine ⟨?_, ?_, ?_, ?_, ?_, ?_, ?_⟩)
  all_goals first
    | (intro c m a r hh; have e1 := f1 c; have e2 := f2 c; have e3 := f3 c; have e4 := f4 c; have e5 := f5 c; have e6 := f6 c
       have e7 := f7 c m a r; have eq := hq c; have ea := ha c; have efr := hfr c
       simp [upd_apply, startExec_calls, isDeq, isSeg, isEnd, Stage.passive] at e1 e2 e3 e4 e5 e6 e7 eq ea efr hh ⊢; grind)
    | (intro c hh; have e1 := f1 c; have e2 := f2 c; have e3 := f3 c; have e4 := f4 c; have e5 := f5 c; have e6 := f6 c
       have eq := hq c; have ea := ha c; have efr := hfr c
       simp [upd_apply, startExec_calls, isDeq, isSeg, isEnd, Stage.passive] at e1 e2 e3 e4 e5 e6 eq ea efr hh ⊢; grind)
    | (intro c; have e1 := f1 c; have e2 := f2 c; have e3 := f3 c; have e4 := f4 c; have e5 := f5 c; have e6 := f6 c
       have eq := hq c; have ea := ha c; have efr := hfr c
       simp [upd_apply, startExec_calls, isDeq, isSeg, isEnd, Stage.passive] at e1 e2 e3 e4 e5 e6 eq ea efr ⊢; grind)
    | skip


theorem cinv_step (cfg : Cfg) (s s' : State o) (l : Label) (hw : WF s) (hs : SInv cfg s) (hc : CInv s)
    (h : step cfg s l = some s') : CInv s' := by
  cases l with
  | issue cl m a => exact cinv_step_issue cfg s s' _ hw hs hc trivial h
  | abandon c => exact cinv_step_abandon cfg s s' _ hw hs hc trivial h
  | abandonEarly c => exact cinv_step_abandonEarly cfg s s' _ hw hs hc trivial h
  | connLoss => exact cinv_step_connLoss cfg s s' _ hw hs hc trivial h
  | dropClients => exact cinv_step_dropClients cfg s s' _ hw hs hc trivial h
  | enqueue c => exact cinv_step_enqueue cfg s s' _ hw hs hc trivial h
  | sendFail c => exact cinv_step_sendFail cfg s s' _ hw hs hc trivial h
  | closeSeen c => exact cinv_step_closeSeen cfg s s' _ hw hs hc trivial h
  | recvReply c => exact cinv_step_recvReply cfg s s' _ hw hs hc trivial h
  | dequeue => exact cinv_step_dequeue cfg s s' _ hw hs hc trivial h
  | acquire => exact cinv_step_acquire cfg s s' _ hw hs hc trivial h
  | execStep c => exact cinv_step_execStep cfg s s' _ hw hs hc trivial h
  | execCancel c => exact cinv_step_execCancel cfg s s' _ hw hs hc trivial h
  | deliver c => exact cinv_step_deliver cfg s s' _ hw hs hc trivial h
  | report c => exact cinv_step_report cfg s s' _ hw hs hc trivial h
  | serveErr => exact cinv_step_serveErr cfg s s' _ hw hs hc trivial h
  | purge c => exact cinv_step_purge cfg s s' _ hw hs hc trivial h
  | serveEnd => exact cinv_step_serveEnd cfg s s' _ hw hs hc trivial h


theorem rinv_step_issue (cfg : Cfg) (s s' : State o) (l : Label) (hw : WF s) (hr : RInv s)
    (hl : match l with
      | .issue .. => True
      | _ => False)
    (h : step cfg s l = some s') : RInv s' := by
  have hfr := hw.fresh
  have hrch := hw.rch
  have hnch := hw.nch
  obtain ⟨f1, f2, f3, f4, f5, f6⟩ := hr
  cases l <;> simp only at hl <;> step_inv h
  all_goals (refine ⟨?_, ?_, ?_, ?_, ?_, ?_⟩)
  all_goals first
    | (simpa using f5)
    | (intro c r hh; have e1 := f1 c; have e2 := f2 c r; have e3 := f3 c r; have e4 := f4 c r; have efr := hfr c; have er := hrch c
       simp [upd_apply, startExec_calls, Stage.passive] at e1 e2 e3 e4 efr er hh ⊢; grind)
    | (intro c hh; have e1 := f1 c; have efr := hfr c; have er := hrch c
       simp [upd_apply, startExec_calls, Stage.passive] at e1 efr er hh ⊢; grind)
    | (intro e he; have e6 := f6 e; simp [evCall] at he e6 ⊢; grind [evCall])
    | (simp [OrderedFrom, Pre]; exact ⟨f5, f6⟩)
    | (simp [OrderedFrom, Pre]; refine ⟨f5, ?_⟩; first
        | exact ⟨_, _, _, f1 _ (by fin_arith)⟩
        | exact ⟨_, f1 _ (by fin_arith)⟩
        | exact ⟨⟨_, _, _, f1 _ (by fin_arith)⟩, ⟨_, f1 _ (by fin_arith)⟩⟩)
    | (have hlt := (‹_ < s.n ∧ _›).1
       have er := hrch _ hlt
       have e3 := f3 _ _ ‹(s.chans _).val = some _›
       simp [OrderedFrom, Pre]; refine ⟨f5, ?_⟩
       rw [er] at e3; exact ⟨_, _, e3.2⟩)
    | (simp [OrderedFrom, Pre]; exact f5)

theorem rinv_step_abandon (cfg : Cfg) (s s' : State o) (l : Label) (hw : WF s) (hr : RInv s)
    (hl : match l with
      | .abandon _ => True
      | _ => False)
    (h : step cfg s l = some s') : RInv s' := by
  have hfr := hw.fresh
  have hrch := hw.rch
  have hnch := hw.nch
  obtain ⟨f1, f2, f3, f4, f5, f6⟩ := hr
  cases l <;> simp only at hl <;> step_inv h
  all_goals (refine ⟨?_, ?_, ?_, ?_, ?_, ?_⟩)
  all_goals first
    | (simpa using f5)
    | (intro c r hh; have e1 := f1 c; have e2 := f2 c r; have e3 := f3 c r; have e4 := f4 c r; have efr := hfr c; have er := hrch c
       simp [upd_apply, startExec_calls, Stage.passive] at e1 e2 e3 e4 efr er hh ⊢; grind)
    | (intro c hh; have e1 := f1 c; have efr := hfr c; have er := hrch c
       simp [upd_apply, startExec_calls, Stage.passive] at e1 efr er hh ⊢; grind)
    | (intro e he; have e6 := f6 e; simp [evCall] at he e6 ⊢; grind [evCall])
    | (simp [OrderedFrom, Pre]; exact ⟨f5, f6⟩)
    | (simp [OrderedFrom, Pre]; refine ⟨f5, ?_⟩; first
        | exact ⟨_, _, _, f1 _ (by fin_arith)⟩
        | exact ⟨_, f1 _ (by fin_arith)⟩
        | exact ⟨⟨_, _, _, f1 _ (by fin_arith)⟩, ⟨_, f1 _ (by fin_arith)⟩⟩)
    | (have hlt := (‹_ < s.n ∧ _›).1
       have er := hrch _ hlt
       have e3 := f3 _ _ ‹(s.chans _).val = some _›
       simp [OrderedFrom, Pre]; refine ⟨f5, ?_⟩
       rw [er] at e3; exact ⟨_, _, e3.2⟩)
    | (simp [OrderedFrom, Pre]; exact f5)

theorem rinv_step_abandonEarly (cfg : Cfg) (s s' : State o) (l : Label) (hw : WF s) (hr : RInv s)
    (hl : match l with
      | .abandonEarly _ => True
      | _ => False)
    (h : step cfg s l = some s') : RInv s' := by
  have hfr := hw.fresh
  have hrch := hw.rch
  have hnch := hw.nch
  obtain ⟨f1, f2, f3, f4, f5, f6⟩ := hr
  cases l <;> simp only at hl <;> step_inv h
  all_goals (refine ⟨?_, ?_, ?_, ?_, ?_, ?_⟩)
  all_goals first
    | (simpa using f5)
    | (intro c r hh; have e1 := f1 c; have e2 := f2 c r; have e3 := f3 c r; have e4 := f4 c r; have efr := hfr c; have er := hrch c
       simp [upd_apply, startExec_calls, Stage.passive] at e1 e2 e3 e4 efr er hh ⊢; grind)
    | (intro c hh; have e1 := f1 c; have efr := hfr c; have er := hrch c
       simp [upd_apply, startExec_calls, Stage.passive] at e1 efr er hh ⊢; grind)
    | (intro e he; have e6 := f6 e; simp [evCall] at he e6 ⊢; grind [evCall])
    | (simp [OrderedFrom, Pre]; exact ⟨f5, f6⟩)
    | (simp [OrderedFrom, Pre]; refine ⟨f5, ?_⟩; first
        | exact ⟨_, _, _, f1 _ (by fin_arith)⟩
        | exact ⟨_, f1 _ (by fin_arith)⟩
        | exact ⟨⟨_, _, _, f1 _ (by fin_arith)⟩, ⟨_, f1 _ (by fin_arith)⟩⟩)
    | (have hlt := (‹_ < s.n ∧ _›).1
       have er := hrch _ hlt
       have e3 := f3 _ _ ‹(s.chans _).val = some _›
       simp [OrderedFrom, Pre]; refine ⟨f5, ?_⟩
       rw [er] at e3; exact ⟨_, _, e3.2⟩)
    | (simp [OrderedFrom, Pre]; exact f5)

theorem rinv_step_connLoss (cfg : Cfg) (s s' : State o) (l : Label) (hw : WF s) (hr : RInv s)
    (hl : match l with
      | .connLoss => True
      | _ => False)
    (h : step cfg s l = some s') : RInv s' := by
  have hfr := hw.fresh
  have hrch := hw.rch
  have hnch := hw.nch
  obtain ⟨f1, f2, f3, f4, f5, f6⟩ := hr
  cases l <;> simp only at hl <;> step_inv h
  all_goals (refine ⟨?_, ?_, ?_, ?_, ?_, ?_⟩)
  all_goals first
    | (simpa using f5)
    | (intro c r hh; have e1 := f1 c; have e2 := f2 c r; have e3 := f3 c r; have e4 := f4 c r; have efr := hfr c; have er := hrch c
       simp [upd_apply, startExec_calls, Stage.passive] at e1 e2 e3 e4 efr er hh ⊢; grind)
    | (intro c hh; have e1 := f1 c; have efr := hfr c; have er := hrch c
       simp [upd_apply, startExec_calls, Stage.passive] at e1 efr er hh ⊢; grind)
    | (intro e he; have e6 := f6 e; simp [evCall] at he e6 ⊢; grind [evCall])
    | (simp [OrderedFrom, Pre]; exact ⟨f5, f6⟩)
    | (simp [OrderedFrom, Pre]; refine ⟨f5, ?_⟩; first
        | exact ⟨_, _, _, f1 _ (by fin_arith)⟩
        | exact ⟨_, f1 _ (by fin_arith)⟩
        | exact ⟨⟨_, _, _, f1 _ (by fin_arith)⟩, ⟨_, f1 _ (by fin_arith)⟩⟩)
    | (have hlt := (‹_ < s.n ∧ _›).1
       have er := hrch _ hlt
       have e3 := f3 _ _ ‹(s.chans _).val = some _›
       simp [OrderedFrom, Pre]; refine ⟨f5, ?_⟩
       rw [er] at e3; exact ⟨_, _, e3.2⟩)
    | (simp [OrderedFrom, Pre]; exact f5)

theorem rinv_step_dropClients (cfg : Cfg) (s s' : State o) (l : Label) (hw : WF s) (hr : RInv s)
    (hl : match l with
      | .dropClients => True
      | _ => False)
    (h : step cfg s l = some s') : RInv s' := by
  have hfr := hw.fresh
  have hrch := hw.rch
  have hnch := hw.nch
  obtain ⟨f1, f2, f3, f4, f5, f6⟩ := hr
  cases l <;> simp only at hl <;> step_inv h
  all_goals (refine ⟨?_, ?_, ?_, ?_, ?_, ?_⟩)
  all_goals first
    | (simpa using f5)
    | (intro c r hh; have e1 := f1 c; have e2 := f2 c r; have e3 := f3 c r; have e4 := f4 c r; have efr := hfr c; have er := hrch c
       simp [upd_apply, startExec_calls, Stage.passive] at e1 e2 e3 e4 efr er hh ⊢; grind)
    | (intro c hh; have e1 := f1 c; have efr := hfr c; have er := hrch c
       simp [upd_apply, startExec_calls, Stage.passive] at e1 efr er hh ⊢; grind)
    | (intro e he; have e6 := f6 e; simp [evCall] at he e6 ⊢; grind [evCall])
    | (simp [OrderedFrom, Pre]; exact ⟨f5, f6⟩)
    | (simp [OrderedFrom, Pre]; refine ⟨f5, ?_⟩; first
        | exact ⟨_, _, _, f1 _ (by fin_arith)⟩
        | exact ⟨_, f1 _ (by fin_arith)⟩
        | exact ⟨⟨_, _, _, f1 _ (by fin_arith)⟩, ⟨_, f1 _ (by fin_arith)⟩⟩)
    | (have hlt := (‹_ < s.n ∧ _›).1
       have er := hrch _ hlt
       have e3 := f3 _ _ ‹(s.chans _).val = some _›
       simp [OrderedFrom, Pre]; refine ⟨f5, ?_⟩
       rw [er] at e3; exact ⟨_, _, e3.2⟩)
    | (simp [OrderedFrom, Pre]; exact f5)

theorem rinv_step_enqueue (cfg : Cfg) (s s' : State o) (l : Label) (hw : WF s) (hr : RInv s)
    (hl : match l with
      | .enqueue _ => True
      | _ => False)
    (h : step cfg s l = some s') : RInv s' := by
  have hfr := hw.fresh
  have hrch := hw.rch
  have hnch := hw.nch
  obtain ⟨f1, f2, f3, f4, f5, f6⟩ := hr
  cases l <;> simp only at hl <;> step_inv h
  all_goals (refine ⟨?_, ?_, ?_, ?_, ?_, ?_⟩)
  all_goals first
    | (simpa using f5)
    | (intro c r hh; have e1 := f1 c; have e2 := f2 c r; have e3 := f3 c r; have e4 := f4 c r; have efr := hfr c; have er := hrch c
       simp [upd_apply, startExec_calls, Stage.passive] at e1 e2 e3 e4 efr er hh ⊢; grind)
    | (intro c hh; have e1 := f1 c; have efr := hfr c; have er := hrch c
       simp [upd_apply, startExec_calls, Stage.passive] at e1 efr er hh ⊢; grind)
    | (intro e he; have e6 := f6 e; simp [evCall] at he e6 ⊢; grind [evCall])
    | (simp [OrderedFrom, Pre]; exact ⟨f5, f6⟩)
    | (simp [OrderedFrom, Pre]; refine ⟨f5, ?_⟩; first
        | exact ⟨_, _, _, f1 _ (by fin_arith)⟩
        | exact ⟨_, f1 _ (by fin_arith)⟩
        | exact ⟨⟨_, _, _, f1 _ (by fin_arith)⟩, ⟨_, f1 _ (by fin_arith)⟩⟩)
    | (have hlt := (‹_ < s.n ∧ _›).1
       have er := hrch _ hlt
       have e3 := f3 _ _ ‹(s.chans _).val = some _›
       simp [OrderedFrom, Pre]; refine ⟨f5, ?_⟩
       rw [er] at e3; exact ⟨_, _, e3.2⟩)
    | (simp [OrderedFrom, Pre]; exact f5)

theorem rinv_step_sendFail (cfg : Cfg) (s s' : State o) (l : Label) (hw : WF s) (hr : RInv s)
    (hl : match l with
      | .sendFail _ => True
      | _ => False)
    (h : step cfg s l = some s') : RInv s' := by
  have hfr := hw.fresh
  have hrch := hw.rch
  have hnch := hw.nch
  obtain ⟨f1, f2, f3, f4, f5, f6⟩ := hr
  cases l <;> simp only at hl <;> step_inv h
  all_goals (refine ⟨?_, ?_, ?_, ?_, ?_, ?_⟩)
  all_goals first
    | (simpa using f5)
    | (intro c r hh; have e1 := f1 c; have e2 := f2 c r; have e3 := f3 c r; have e4 := f4 c r; have efr := hfr c; have er := hrch c
       simp [upd_apply, startExec_calls, Stage.passive] at e1 e2 e3 e4 efr er hh ⊢; grind)
    | (intro c hh; have e1 := f1 c; have efr := hfr c; have er := hrch c
       simp [upd_apply, startExec_calls, Stage.passive] at e1 efr er hh ⊢; grind)
    | (intro e he; have e6 := f6 e; simp [evCall] at he e6 ⊢; grind [evCall])
    | (simp [OrderedFrom, Pre]; exact ⟨f5, f6⟩)
    | (simp [OrderedFrom, Pre]; refine ⟨f5, ?_⟩; first
        | exact ⟨_, _, _, f1 _ (by fin_arith)⟩
        | exact ⟨_, f1 _ (by fin_arith)⟩
        | exact ⟨⟨_, _, _, f1 _ (by fin_arith)⟩, ⟨_, f1 _ (by fin_arith)⟩⟩)
    | (have hlt := (‹_ < s.n ∧ _›).1
       have er := hrch _ hlt
       have e3 := f3 _ _ ‹(s.chans _).val = some _›
       simp [OrderedFrom, Pre]; refine ⟨f5, ?_⟩
       rw [er] at e3; exact ⟨_, _, e3.2⟩)
    | (simp [OrderedFrom, Pre]; exact f5)

theorem rinv_step_closeSeen (cfg : Cfg) (s s' : State o) (l : Label) (hw : WF s) (hr : RInv s)
    (hl : match l with
      | .closeSeen _ => True
      | _ => False)
    (h : step cfg s l = some s') : RInv s' := by
  have hfr := hw.fresh
  have hrch := hw.rch
  have hnch := hw.nch
  obtain ⟨f1, f2, f3, f4, f5, f6⟩ := hr
  cases l <;> simp only at hl <;> step_inv h
  all_goals (refine ⟨?_, ?_, ?_, ?_, ?_, ?_⟩)
  all_goals first
    | (simpa using f5)
    | (intro c r hh; have e1 := f1 c; have e2 := f2 c r; have e3 := f3 c r; have e4 := f4 c r; have efr := hfr c; have er := hrch c
       simp [upd_apply, startExec_calls, Stage.passive] at e1 e2 e3 e4 efr er hh ⊢; grind)
    | (intro c hh; have e1 := f1 c; have efr := hfr c; have er := hrch c
       simp [upd_apply, startExec_calls, Stage.passive] at e1 efr er hh ⊢; grind)
    | (intro e he; have e6 := f6 e; simp [evCall] at he e6 ⊢; grind [evCall])
    | (simp [OrderedFrom, Pre]; exact ⟨f5, f6⟩)
    | (simp [OrderedFrom, Pre]; refine ⟨f5, ?_⟩; first
        | exact ⟨_, _, _, f1 _ (by fin_arith)⟩
        | exact ⟨_, f1 _ (by fin_arith)⟩
        | exact ⟨⟨_, _, _, f1 _ (by fin_arith)⟩, ⟨_, f1 _ (by fin_arith)⟩⟩)
    | (have hlt := (‹_ < s.n ∧ _›).1
       have er := hrch _ hlt
       have e3 := f3 _ _ ‹(s.chans _).val = some _›
       simp [OrderedFrom, Pre]; refine ⟨f5, ?_⟩
       rw [er] at e3; exact ⟨_, _, e3.2⟩)
    | (simp [OrderedFrom, Pre]; exact f5)

theorem rinv_step_recvReply (cfg : Cfg) (s s' : State o) (l : Label) (hw : WF s) (hr : RInv s)
    (hl : match l with
      | .recvReply _ => True
      | _ => False)
    (h : step cfg s l = some s') : RInv s' := by
  have hfr := hw.fresh
  have hrch := hw.rch
  have hnch := hw.nch
  obtain ⟨f1, f2, f3, f4, f5, f6⟩ := hr
  cases l <;> simp only at hl <;> step_inv h
  all_goals (refine ⟨?_, ?_, ?_, ?_, ?_, ?_⟩)
  all_goals first
    | (simpa using f5)
    | (intro c r hh; have e1 := f1 c; have e2 := f2 c r; have e3 := f3 c r; have e4 := f4 c r; have efr := hfr c; have er := hrch c
       simp [upd_apply, startExec_calls, Stage.passive] at e1 e2 e3 e4 efr er hh ⊢; grind)
    | (intro c hh; have e1 := f1 c; have efr := hfr c; have er := hrch c
       simp [upd_apply, startExec_calls, Stage.passive] at e1 efr er hh ⊢; grind)
    | (intro e he; have e6 := f6 e; simp [evCall] at he e6 ⊢; grind [evCall])
    | (simp [OrderedFrom, Pre]; exact ⟨f5, f6⟩)
    | (simp [OrderedFrom, Pre]; refine ⟨f5, ?_⟩; first
        | exact ⟨_, _, _, f1 _ (by fin_arith)⟩
        | exact ⟨_, f1 _ (by fin_arith)⟩
        | exact ⟨⟨_, _, _, f1 _ (by fin_arith)⟩, ⟨_, f1 _ (by fin_arith)⟩⟩)
    | (have hlt := (‹_ < s.n ∧ _›).1
       have er := hrch _ hlt
       have e3 := f3 _ _ ‹(s.chans _).val = some _›
       simp [OrderedFrom, Pre]; refine ⟨f5, ?_⟩
       rw [er] at e3; exact ⟨_, _, e3.2⟩)
    | (simp [OrderedFrom, Pre]; exact f5)

theorem rinv_step_dequeue (cfg : Cfg) (s s' : State o) (l : Label) (hw : WF s) (hr : RInv s)
    (hl : match l with
      | .dequeue => True
      | _ => False)
    (h : step cfg s l = some s') : RInv s' := by
  have hfr := hw.fresh
  have hrch := hw.rch
  have hnch := hw.nch
  obtain ⟨f1, f2, f3, f4, f5, f6⟩ := hr
  cases l <;> simp only at hl <;> step_inv h
  all_goals (refine ⟨?_, ?_, ?_, ?_, ?_, ?_⟩)
  all_goals first
    | (simpa using f5)
    | (intro c r hh; have e1 := f1 c; have e2 := f2 c r; have e3 := f3 c r; have e4 := f4 c r; have efr := hfr c; have er := hrch c
       simp [upd_apply, startExec_calls, Stage.passive] at e1 e2 e3 e4 efr er hh ⊢; grind)
    | (intro c hh; have e1 := f1 c; have efr := hfr c; have er := hrch c
       simp [upd_apply, startExec_calls, Stage.passive] at e1 efr er hh ⊢; grind)
    | (intro e he; have e6 := f6 e; simp [evCall] at he e6 ⊢; grind [evCall])
    | (simp [OrderedFrom, Pre]; exact ⟨f5, f6⟩)
    | (simp [OrderedFrom, Pre]; refine ⟨f5, ?_⟩; first
        | exact ⟨_, _, _, f1 _ (by fin_arith)⟩
        | exact ⟨_, f1 _ (by fin_arith)⟩
        | exact ⟨⟨_, _, _, f1 _ (by fin_arith)⟩, ⟨_, f1 _ (by fin_arith)⟩⟩)
    | (have hlt := (‹_ < s.n ∧ _›).1
       have er := hrch _ hlt
       have e3 := f3 _ _ ‹(s.chans _).val = some _›
       simp [OrderedFrom, Pre]; refine ⟨f5, ?_⟩
       rw [er] at e3; exact ⟨_, _, e3.2⟩)
    | (simp [OrderedFrom, Pre]; exact f5)

theorem rinv_step_acquire (cfg : Cfg) (s s' : State o) (l : Label) (hw : WF s) (hr : RInv s)
    (hl : match l with
      | .acquire => True
      | _ => False)
    (h : step cfg s l = some s') : RInv s' := by
  have hfr := hw.fresh
  have hrch := hw.rch
  have hnch := hw.nch
  obtain ⟨f1, f2, f3, f4, f5, f6⟩ := hr
  cases l <;> simp only at hl <;> step_inv h
  all_goals (refine ⟨?_, ?_, ?_, ?_, ?_, ?_⟩)
  all_goals first
    | (simpa using f5)
    | (intro c r hh; have e1 := f1 c; have e2 := f2 c r; have e3 := f3 c r; have e4 := f4 c r; have efr := hfr c; have er := hrch c
       simp [upd_apply, startExec_calls, Stage.passive] at e1 e2 e3 e4 efr er hh ⊢; grind)
    | (intro c hh; have e1 := f1 c; have efr := hfr c; have er := hrch c
       simp [upd_apply, startExec_calls, Stage.passive] at e1 efr er hh ⊢; grind)
    | (intro e he; have e6 := f6 e; simp [evCall] at he e6 ⊢; grind [evCall])
    | (simp [OrderedFrom, Pre]; exact ⟨f5, f6⟩)
    | (simp [OrderedFrom, Pre]; refine ⟨f5, ?_⟩; first
        | exact ⟨_, _, _, f1 _ (by fin_arith)⟩
        | exact ⟨_, f1 _ (by fin_arith)⟩
        | exact ⟨⟨_, _, _, f1 _ (by fin_arith)⟩, ⟨_, f1 _ (by fin_arith)⟩⟩)
    | (have hlt := (‹_ < s.n ∧ _›).1
       have er := hrch _ hlt
       have e3 := f3 _ _ ‹(s.chans _).val = some _›
       simp [OrderedFrom, Pre]; refine ⟨f5, ?_⟩
       rw [er] at e3; exact ⟨_, _, e3.2⟩)
    | (simp [OrderedFrom, Pre]; exact f5)

theorem rinv_step_execStep (cfg : Cfg) (s s' : State o) (l : Label) (hw : WF s) (hr : RInv s)
    (hl : match l with
      | .execStep _ => True
      | _ => False)
    (h : step cfg s l = some s') : RInv s' := by
  have hfr := hw.fresh
  have hrch := hw.rch
  have hnch := hw.nch
  obtain ⟨f1, f2, f3, f4, f5, f6⟩ := hr
  cases l <;> simp only at hl <;> step_inv h
  all_goals (refine ⟨?_, ?_, ?_, ?_, ?_, ?_⟩)
  all_goals first
    | (simpa using f5)
    | (intro c r hh; have e1 := f1 c; have e2 := f2 c r; have e3 := f3 c r; have e4 := f4 c r; have efr := hfr c; have er := hrch c
       simp [upd_apply, startExec_calls, Stage.passive] at e1 e2 e3 e4 efr er hh ⊢; grind)
    | (intro c hh; have e1 := f1 c; have efr := hfr c; have er := hrch c
       simp [upd_apply, startExec_calls, Stage.passive] at e1 efr er hh ⊢; grind)
    | (intro e he; have e6 := f6 e; simp [evCall] at he e6 ⊢; grind [evCall])
    | (simp [OrderedFrom, Pre]; exact ⟨f5, f6⟩)
    | (simp [OrderedFrom, Pre]; refine ⟨f5, ?_⟩; first
        | exact ⟨_, _, _, f1 _ (by fin_arith)⟩
        | exact ⟨_, f1 _ (by fin_arith)⟩
        | exact ⟨⟨_, _, _, f1 _ (by fin_arith)⟩, ⟨_, f1 _ (by fin_arith)⟩⟩)
    | (have hlt := (‹_ < s.n ∧ _›).1
       have er := hrch _ hlt
       have e3 := f3 _ _ ‹(s.chans _).val = some _›
       simp [OrderedFrom, Pre]; refine ⟨f5, ?_⟩
       rw [er] at e3; exact ⟨_, _, e3.2⟩)
    | (simp [OrderedFrom, Pre]; exact f5)

theorem rinv_step_execCancel (cfg : Cfg) (s s' : State o) (l : Label) (hw : WF s) (hr : RInv s)
    (hl : match l with
      | .execCancel _ => True
      | _ => False)
    (h : step cfg s l = some s') : RInv s' := by
  have hfr := hw.fresh
  have hrch := hw.rch
  have hnch := hw.nch
  obtain ⟨f1, f2, f3, f4, f5, f6⟩ := hr
  cases l <;> simp only at hl <;> step_inv h
  all_goals (refine ⟨?_, ?_, ?_, ?_, ?_, ?_⟩)
  all_goals first
    | (simpa using f5)
    | (intro c r hh; have e1 := f1 c; have e2 := f2 c r; have e3 := f3 c r; have e4 := f4 c r; have efr := hfr c; have er := hrch c
       simp [upd_apply, startExec_calls, Stage.passive] at e1 e2 e3 e4 efr er hh ⊢; grind)
    | (intro c hh; have e1 := f1 c; have efr := hfr c; have er := hrch c
       simp [upd_apply, startExec_calls, Stage.passive] at e1 efr er hh ⊢; grind)
    | (intro e he; have e6 := f6 e; simp [evCall] at he e6 ⊢; grind [evCall])
    | (simp [OrderedFrom, Pre]; exact ⟨f5, f6⟩)
    | (simp [OrderedFrom, Pre]; refine ⟨f5, ?_⟩; first
        | exact ⟨_, _, _, f1 _ (by fin_arith)⟩
        | exact ⟨_, f1 _ (by fin_arith)⟩
        | exact ⟨⟨_, _, _, f1 _ (by fin_arith)⟩, ⟨_, f1 _ (by fin_arith)⟩⟩)
    | (have hlt := (‹_ < s.n ∧ _›).1
       have er := hrch _ hlt
       have e3 := f3 _ _ ‹(s.chans _).val = some _›
       simp [OrderedFrom, Pre]; refine ⟨f5, ?_⟩
       rw [er] at e3; exact ⟨_, _, e3.2⟩)
    | (simp [OrderedFrom, Pre]; exact f5)

theorem rinv_step_deliver (cfg : Cfg) (s s' : State o) (l : Label) (hw : WF s) (hr : RInv s)
    (hl : match l with
      | .deliver _ => True
      | _ => False)
    (h : step cfg s l = some s') : RInv s' := by
  have hfr := hw.fresh
  have hrch := hw.rch
  have hnch := hw.nch
  obtain ⟨f1, f2, f3, f4, f5, f6⟩ := hr
  cases l <;> simp only at hl <;> step_inv h
  all_goals (refine ⟨?_, ?_, ?_, ?_, ?_, ?_⟩)
  all_goals first
    | (simpa using f5)
    | (intro c r hh; have e1 := f1 c; have e2 := f2 c r; have e3 := f3 c r; have e4 := f4 c r; have efr := hfr c; have er := hrch c
       simp [upd_apply, startExec_calls, Stage.passive] at e1 e2 e3 e4 efr er hh ⊢; grind)
    | (intro c hh; have e1 := f1 c; have efr := hfr c; have er := hrch c
       simp [upd_apply, startExec_calls, Stage.passive] at e1 efr er hh ⊢; grind)
    | (intro e he; have e6 := f6 e; simp [evCall] at he e6 ⊢; grind [evCall])
    | (simp [OrderedFrom, Pre]; exact ⟨f5, f6⟩)
    | (simp [OrderedFrom, Pre]; refine ⟨f5, ?_⟩; first
        | exact ⟨_, _, _, f1 _ (by fin_arith)⟩
        | exact ⟨_, f1 _ (by fin_arith)⟩
        | exact ⟨⟨_, _, _, f1 _ (by fin_arith)⟩, ⟨_, f1 _ (by fin_arith)⟩⟩)
    | (have hlt := (‹_ < s.n ∧ _›).1
       have er := hrch _ hlt
       have e3 := f3 _ _ ‹(s.chans _).val = some _›
       simp [OrderedFrom, Pre]; refine ⟨f5, ?_⟩
       rw [er] at e3; exact ⟨_, _, e3.2⟩)
    | (simp [OrderedFrom, Pre]; exact f5)

theorem rinv_step_report (cfg : Cfg) (s s' : State o) (l : Label) (hw : WF s) (hr : RInv s)
    (hl : match l with
      | .report _ => True
      | _ => False)
    (h : step cfg s l = some s') : RInv s' := by
  have hfr := hw.fresh
  have hrch := hw.rch
  have hnch := hw.nch
  obtain ⟨f1, f2, f3, f4, f5, f6⟩ := hr
  cases l <;> simp only at hl <;> step_inv h
  all_goals (refine ⟨?_, ?_, ?_, ?_, ?_, ?_⟩)
  all_goals first
    | (simpa using f5)
    | (intro c r hh; have e1 := f1 c; have e2 := f2 c r; have e3 := f3 c r; have e4 := f4 c r; have efr := hfr c; have er := hrch c
       simp [upd_apply, startExec_calls, Stage.passive] at e1 e2 e3 e4 efr er hh ⊢; grind)
    | (intro c hh; have e1 := f1 c; have efr := hfr c; have er := hrch c
       simp [upd_apply, startExec_calls, Stage.passive] at e1 efr er hh ⊢; grind)
    | (intro e he; have e6 := f6 e; simp [evCall] at he e6 ⊢; grind [evCall])
    | (simp [OrderedFrom, Pre]; exact ⟨f5, f6⟩)
    | (simp [OrderedFrom, Pre]; refine ⟨f5, ?_⟩; first
        | exact ⟨_, _, _, f1 _ (by fin_arith)⟩
        | exact ⟨_, f1 _ (by fin_arith)⟩
        | exact ⟨⟨_, _, _, f1 _ (by fin_arith)⟩, ⟨_, f1 _ (by fin_arith)⟩⟩)
    | (have hlt := (‹_ < s.n ∧ _›).1
       have er := hrch _ hlt
       have e3 := f3 _ _ ‹(s.chans _).val = some _›
       simp [OrderedFrom, Pre]; refine ⟨f5, ?_⟩
       rw [er] at e3; exact ⟨_, _, e3.2⟩)
    | (simp [OrderedFrom, Pre]; exact f5)

theorem rinv_step_serveErr (cfg : Cfg) (s s' : State o) (l : Label) (hw : WF s) (hr : RInv s)
    (hl : match l with
      | .serveErr => True
      | _ => False)
    (h : step cfg s l = some s') : RInv s' := by
  have hfr := hw.fresh
  have hrch := hw.rch
  have hnch := hw.nch
  obtain ⟨f1, f2, f3, f4, f5, f6⟩ := hr
  cases l <;> simp only at hl <;> step_inv h
  all_goals (refine ⟨?_, ?_, ?_, ?_, ?_, ?_⟩)
  all_goals first
    | (simpa using f5)
    | (intro c r hh; have e1 := f1 c; have e2 := f2 c r; have e3 := f3 c r; have e4 := f4 c r; have efr := hfr c; have er := hrch c
       simp [upd_apply, startExec_calls, Stage.passive] at e1 e2 e3 e4 efr er hh ⊢; grind)
    | (intro c hh; have e1 := f1 c; have efr := hfr c; have er := hrch c
       simp [upd_apply, startExec_calls, Stage.passive] at e1 efr er hh ⊢; grind)
    | (intro e he; have e6 := f6 e; simp [evCall] at he e6 ⊢; grind [evCall])
    | (simp [OrderedFrom, Pre]; exact ⟨f5, f6⟩)
    | (simp [OrderedFrom, Pre]; refine ⟨f5, ?_⟩; first
        | exact ⟨_, _, _, f1 _ (by fin_arith)⟩
        | exact ⟨_, f1 _ (by fin_arith)⟩
        | exact ⟨⟨_, _, _, f1 _ (by fin_arith)⟩, ⟨_, f1 _ (by fin_arith)⟩⟩)
    | (have hlt := (‹_ < s.n ∧ _›).1
       have er := hrch _ hlt
       have e3 := f3 _ _ ‹(s.chans _).val = some _›
       simp [OrderedFrom, Pre]; refine ⟨f5, ?_⟩
       rw [er] at e3; exact ⟨_, _, e3.2⟩)
    | (simp [OrderedFrom, Pre]; exact f5)

theorem rinv_step_purge (cfg : Cfg) (s s' : State o) (l : Label) (hw : WF s) (hr : RInv s)
    (hl : match l with
      | .purge _ => True
      | _ => False)
    (h : step cfg s l = some s') : RInv s' := by
  have hfr := hw.fresh
  have hrch := hw.rch
  have hnch := hw.nch
  obtain ⟨f1, f2, f3, f4, f5, f6⟩ := hr
  cases l <;> simp only at hl <;> step_inv h
  all_goals (refine ⟨?_, ?_, ?_, ?_, ?_, ?_⟩)
  all_goals first
    | (simpa using f5)
    | (intro c r hh; have e1 := f1 c; have e2 := f2 c r; have e3 := f3 c r; have e4 := f4 c r; have efr := hfr c; have er := hrch c
       simp [upd_apply, startExec_calls, Stage.passive] at e1 e2 e3 e4 efr er hh ⊢; grind)
    | (intro c hh; have e1 := f1 c; have efr := hfr c; have er := hrch c
       simp [upd_apply, startExec_calls, Stage.passive] at e1 efr er hh ⊢; grind)
    | (intro e he; have e6 := f6 e; simp [evCall] at he e6 ⊢; grind [evCall])
    | (simp [OrderedFrom, Pre]; exact ⟨f5, f6⟩)
    | (simp [OrderedFrom, Pre]; refine ⟨f5, ?_⟩; first
        | exact ⟨_, _, _, f1 _ (by fin_arith)⟩
        | exact ⟨_, f1 _ (by fin_arith)⟩
        | exact ⟨⟨_, _, _, f1 _ (by fin_arith)⟩, ⟨_, f1 _ (by fin_arith)⟩⟩)
    | (have hlt := (‹_ < s.n ∧ _›).1
       have er := hrch _ hlt
       have e3 := f3 _ _ ‹(s.chans _).val = some _›
       simp [OrderedFrom, Pre]; refine ⟨f5, ?_⟩
       rw [er] at e3; exact ⟨_, _, e3.2⟩)
    | (simp [OrderedFrom, Pre]; exact f5)

theorem rinv_step_serveEnd (cfg : Cfg) (s s' : State o) (l : Label) (hw : WF s) (hr : RInv s)
    (hl : match l with
      | .serveEnd => True
      | _ => False)
    (h : step cfg s l = some s') : RInv s' := by
  have hfr := hw.fresh
  have hrch := hw.rch
  have hnch := hw.nch
  obtain ⟨f1, f2, f3, f4, f5, f6⟩ := hr
  cases l <;> simp only at hl <;> step_inv h
  all_goals (refine ⟨?_, ?_, ?_, ?_, ?_, ?_⟩)
  all_goals first
    | (simpa using f5)
    | (intro c r hh; have e1 := f1 c; have e2 := f2 c r; have e3 := f3 c r; have e4 := f4 c r; have efr := hfr c; have er := hrch c
       simp [upd_apply, startExec_calls, Stage.passive] at e1 e2 e3 e4 efr er hh ⊢; grind)
    | (intro c hh; have e1 := f1 c; have efr := hfr c; have er := hrch c
       simp [upd_apply, startExec_calls, Stage.passive] at e1 efr er hh ⊢; grind)
    | (intro e he; have e6 := f6 e; simp [evCall] at he e6 ⊢; grind [evCall])
    | (simp [OrderedFrom, Pre]; exact ⟨f5, f6⟩)
    | (simp [OrderedFrom, Pre]; refine ⟨f5, ?_⟩; first
        | exact ⟨_, _, _, f1 _ (by fin_arith)⟩
        | exact ⟨_, f1 _ (by fin_arith)⟩
        | exact ⟨⟨_, _, _, f1 _ (by fin_arith)⟩, ⟨_, f1 _ (by fin_arith)⟩⟩)
    | (have hlt := (‹_ < s.n ∧ _›).1
       have er := hrch _ hlt
       have e3 := f3 _ _ ‹(s.chans _).val = some _›
       simp [OrderedFrom, Pre]; refine ⟨f5, ?_⟩
       rw [er] at e3; exact ⟨_, _, e3.2⟩)
    | (simp [OrderedFrom, Pre]; exact f5)


theorem rinv_step (cfg : Cfg) (s s' : State o) (l : Label) (hw : WF s) (hr : RInv s)
    (h : step cfg s l = some s') : RInv s' := by
  cases l with
  | issue cl m a => exact rinv_step_issue cfg s s' _ hw hr trivial h
  | abandon c => exact rinv_step_abandon cfg s s' _ hw hr trivial h
  | abandonEarly c => exact rinv_step_abandonEarly cfg s s' _ hw hr trivial h
  | connLoss => exact rinv_step_connLoss cfg s s' _ hw hr trivial h
  | dropClients => exact rinv_step_dropClients cfg s s' _ hw hr trivial h
  | enqueue c => exact rinv_step_enqueue cfg s s' _ hw hr trivial h
  | sendFail c => exact rinv_step_sendFail cfg s s' _ hw hr trivial h
  | closeSeen c => exact rinv_step_closeSeen cfg s s' _ hw hr trivial h
  | recvReply c => exact rinv_step_recvReply cfg s s' _ hw hr trivial h
  | dequeue => exact rinv_step_dequeue cfg s s' _ hw hr trivial h
  | acquire => exact rinv_step_acquire cfg s s' _ hw hr trivial h
  | execStep c => exact rinv_step_execStep cfg s s' _ hw hr trivial h
  | execCancel c => exact rinv_step_execCancel cfg s s' _ hw hr trivial h
  | deliver c => exact rinv_step_deliver cfg s s' _ hw hr trivial h
  | report c => exact rinv_step_report cfg s s' _ hw hr trivial h
  | serveErr => exact rinv_step_serveErr cfg s s' _ hw hr trivial h
  | purge c => exact rinv_step_purge cfg s s' _ hw hr trivial h
  | serveEnd => exact rinv_step_serveEnd cfg s s' _ hw hr trivial h

/-- all invariants together -/
structure Inv (cfg : Cfg) (s : State o) : Prop where
  wf : WF s
  st : SInv cfg s
  cn : CInv s
  rv : RInv s

theorem inv_step (cfg : Cfg) (s s' : State o) (l : Label) (hi : Inv cfg s) (h : step cfg s l = some s') : Inv cfg s' :=
  ⟨wf_step cfg s s' l hi.wf h, sinv_step cfg s s' l hi.wf hi.st h, cinv_step cfg s s' l hi.wf hi.st hi.cn h,
   rinv_step cfg s s' l hi.wf hi.rv h⟩

theorem inv_of_reachable (cfg : Cfg) (s : State o) (h : Reachable cfg s) : Inv cfg s :=
  reachable_induction cfg (Inv cfg) ⟨wf_init, sinv_init cfg, cinv_init, rinv_init⟩
    (fun s l s' hi hs => inv_step cfg s s' l hi hs) s h

end Remoc.Rtc
