import RemocModel.Rtc.Basic
set_option linter.unusedSimpArgs false
set_option linter.unusedVariables false

namespace Remoc.Rtc

variable {o : Obj}

theorem wf_step (cfg : Cfg) (s s' : State o) (l : Label) (hw : WF s) (h : step cfg s l = some s') : WF s' := by
  obtain ⟨h1, h2, h3, h4, h5⟩ := hw
  cases l <;> step_inv h
  all_goals (refine ⟨?_, ?_, ?_, ?_, ?_⟩)
  all_goals first
    | (simp [h1]; done)
    | (intro c hc; simp [startExec_calls, upd_apply] at hc ⊢; first | exact h2 c hc | exact h3 c hc | exact h4 c hc | exact h5 c hc)
    | (intro c hc; have := startExec_loop_eq _ _ _ _ hc; fin_arith)
    | (intro c hc; simp [startExec_calls, upd_apply] at hc ⊢
       have e2 := h2 c; have e3 := h3 c; have e4 := h4 c; have e5 := h5 c
       (repeat' split) <;> first | omega | (simp_all; done) | (simp_all; omega))
    | (intro c hc; simp [startExec_calls, upd_apply] at hc ⊢)
  all_goals first
    | exact h2 c (by omega)
    | exact Nat.lt_succ_of_lt (h4 c hc)
    | exact Nat.lt_succ_of_lt (h5 c hc)
    | (rcases hc with hc | hc <;> first | exact h4 c hc | omega)
    | fin_arith
    | (split at hc <;> first | exact h5 c hc | fin_arith | (split at hc <;> first | exact h5 c hc | fin_arith))
    | (split <;> first | omega | exact h2 c (by omega))

theorem wf_reachable (cfg : Cfg) (s : State o) (h : Reachable cfg s) : WF s :=
  reachable_induction cfg WF wf_init (fun s l s' hw hs => wf_step cfg s s' l hw hs) s h

end Remoc.Rtc
