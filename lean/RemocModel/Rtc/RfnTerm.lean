import RemocModel.Rtc.RfnLive
set_option linter.unusedSimpArgs false
set_option linter.unusedVariables false

/-!
# M_rfn: internal steps terminate (no livelock)

A measure `mu` on states that every internal label strictly decreases: whatever the environment
has done, the runtime can take only finitely many steps on its own before the state is quiescent —
and in a quiescent state no call is pending (`quiescent_no_waiting`).
-/

namespace Remoc.Rfn

variable {f : Fun}

def total (g : Nat → Nat) : Nat → Nat
  | 0 => 0
  | k + 1 => total g k + g k

theorem total_congr (g g' : Nat → Nat) (n : Nat) (h : ∀ j, j < n → g' j = g j) : total g' n = total g n := by
  induction n with
  | zero => rfl
  | succ k ih =>
    simp only [total]
    rw [ih (fun j hj => h j (by omega)), h k (by omega)]

theorem total_lt (g g' : Nat → Nat) (n c : Nat) (hc : c < n) (hlt : g' c < g c)
    (ho : ∀ j, j < n → j ≠ c → g' j = g j) : total g' n < total g n := by
  induction n with
  | zero => omega
  | succ k ih =>
    simp only [total]
    by_cases hck : c = k
    · subst hck
      have := total_congr g g' c (fun j hj => ho j (by omega) (by omega))
      omega
    · have := ih (by omega) (fun j hj hne => ho j (by omega) hne)
      have := ho k (by omega) (fun h => hck h.symm)
      omega

def stageRank (nseg pc : Nat) : Stage → Nat
  | .sending => nseg + 8
  | .queued => nseg + 7
  | .spawned => nseg + 6
  | .executing => (nseg + 1 - pc) + 4
  | .replying _ => 3
  | .done => 2

/-- what is left to do for call c -/
def weight (s : State f) (c : Nat) : Nat :=
  stageRank (f.nseg (s.arg c)) (s.pc c) (s.stage c)
    + (if s.cl c = .waiting then 1 else 0) + (if s.chClosed c = true then 0 else 1)

def loopRank : Loop → Nat
  | .stopped _ => 0
  | _ => 1

def mu (s : State f) : Nat := loopRank s.loop + total (weight s) s.n

theorem mu_lt_call (s s' : State f) (c : Nat) (hc : c < s.n) (hn : s'.n = s.n)
    (hl : loopRank s'.loop ≤ loopRank s.loop) (hw : weight s' c < weight s c)
    (ho : ∀ j, j < s.n → j ≠ c → weight s' j = weight s j) : mu s' < mu s := by
  have := total_lt (weight s) (weight s') s.n c hc hw ho
  simp only [mu, hn]
  omega

theorem mu_lt_loop (s s' : State f) (hn : s'.n = s.n)
    (hl : loopRank s'.loop < loopRank s.loop) (ho : ∀ j, j < s.n → weight s' j = weight s j) : mu s' < mu s := by
  have := total_congr (weight s) (weight s') s.n ho
  simp only [mu, hn]
  omega


macro "mu_call" c:term : tactic => `(tactic| (
  refine mu_lt_call _ _ $c (by simp_all) (by simp [endExec]) ?_ ?_ ?_
  · simp_all [endExec, loopRank] <;> (repeat' split) <;> simp_all [loopRank]
  · simp_all [weight, stageRank, upd_apply, endExec] <;> (try split) <;> (try omega) <;> grind
  · intro j hj hne
    simp_all [weight, stageRank, upd_apply, endExec] <;> grind))

/-- **Every internal step decreases the measure.** -/
theorem internal_decreases (cfg : Cfg) (s s' : State f) (l : Label) (hw : WF s) (hs : ST cfg s) (hc : CN s)
    (hi : l.internal = true) (h : step cfg s l = some s') : mu s' < mu s := by
  have w2 := hw.rch
  have hq := hs.queued
  have cpre := hc.pre
  have cexec := hc.exec
  clear hw hs hc
  cases l with
  | issue a => simp [Label.internal] at hi
  | abandon c => simp [Label.internal] at hi
  | abandonEarly c => simp [Label.internal] at hi
  | connLoss => simp [Label.internal] at hi
  | dropCallers => simp [Label.internal] at hi
  | dropProvider => simp [Label.internal] at hi
  | provTerm =>
    rfn_step_inv h
    exact mu_lt_loop _ _ rfl (by simp_all [loopRank]) (fun j hj => rfl)
  | serveEnd =>
    rfn_step_inv h
    exact mu_lt_loop _ _ rfl (by simp_all [loopRank]) (fun j hj => rfl)
  | enqueue c => rfn_step_inv h; mu_call c
  | sendFail c => rfn_step_inv h; mu_call c
  | closeSeen c => rfn_step_inv h; have := w2 c; mu_call c
  | recvReply c => rfn_step_inv h <;> mu_call c
  | permit c => rfn_step_inv h; mu_call c
  | deliver c => rfn_step_inv h <;> mu_call c
  | purge c => rfn_step_inv h; mu_call c
  | execCancel c => rfn_step_inv h; have := cexec c; mu_call c
  | execStep c => rfn_step_inv h <;> (have := cexec c; mu_call c)
  | dequeue =>
    rfn_step_inv h
    all_goals (rename_i c q _ _ _; have := hq c; have := cpre c; mu_call c)


/-- strict execution: every label of the list must be enabled -/
def execAll (cfg : Cfg) (s : State f) : List Label → Option (State f)
  | [] => some s
  | l :: ls => (step cfg s l).bind (fun s' => execAll cfg s' ls)

theorem internal_run_bounded (cfg : Cfg) (s s' : State f) (hi : Inv cfg s) (ls : List Label)
    (hint : ∀ l, l ∈ ls → l.internal = true) (h : execAll cfg s ls = some s') :
    mu s' + ls.length ≤ mu s := by
  induction ls generalizing s with
  | nil => simp [execAll] at h; subst h; simp
  | cons l ls ih =>
    simp only [execAll] at h
    cases hs : step cfg s l with
    | none => rw [hs] at h; simp at h
    | some s1 =>
      rw [hs] at h
      simp only [Option.bind_some] at h
      have hd := internal_decreases cfg s s1 l hi.wf hi.st hi.cn (hint l (by simp)) hs
      have := ih s1 (inv_step cfg s s1 l hi hs) (fun l' hl' => hint l' (by simp [hl'])) h
      simp only [List.length_cons]
      omega

end Remoc.Rfn
