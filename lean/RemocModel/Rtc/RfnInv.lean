import RemocModel.Rtc.Rfn
set_option linter.unusedSimpArgs false
set_option linter.unusedVariables false

/-!
# M_rfn: safety invariants — identifiers, structure of the provider, counting of executions,
provenance of results
-/

namespace Remoc.Rfn

variable {f : Fun}

/-- case analysis of a step: one goal per successful branch, with the successor state substituted -/
macro "rfn_step_inv" h:ident : tactic => `(tactic| (
  simp only [step] at $h:ident
  (repeat' split at $h:ident)
  all_goals first
    | (simp at $h:ident; done)
    | (replace $h:ident := Option.some.inj $h:ident; subst $h:ident)))

/-- well-formedness of identifiers -/
structure WF (s : State f) : Prop where
  nch : s.nch = s.n
  rch : ∀ c, c < s.n → s.rch c = c
  fresh : ∀ c, s.n ≤ c → s.stage c = .done ∧ s.cl c = .error
  qlt : ∀ c, c ∈ s.queue → c < s.n
  llt : ∀ c, s.loop = .running c → c < s.n
  elt : ∀ c, c ∈ s.execs → c < s.n

theorem wf_init : WF (init f) := by
  constructor <;> simp [init]

theorem wf_step (cfg : Cfg) (s s' : State f) (l : Label) (hw : WF s) (h : step cfg s l = some s') : WF s' := by
  obtain ⟨h1, h2, h3, h4, h5, h6⟩ := hw
  cases l <;> rfn_step_inv h
  all_goals (constructor <;> simp_all [upd_apply, endExec] <;> grind)


/-- structure of the provider: who executes, who is queued -/
structure ST (cfg : Cfg) (s : State f) : Prop where
  exec : ∀ c, s.stage c = .executing ↔ (s.loop = .running c ∨ c ∈ s.execs)
  queued : ∀ c, s.stage c = .queued ↔ c ∈ s.queue
  qnodup : s.queue.Nodup
  constNoRun : cfg.fl = .const → ∀ c, s.loop ≠ .running c
  serialNoExecs : cfg.fl ≠ .const → s.execs = []
  spawnedConst : ∀ c, s.stage c = .spawned → cfg.fl = .const
  lim : s.execs.length ≤ cfg.limit

theorem st_init (cfg : Cfg) : ST cfg (init f) := by
  constructor <;> simp [init]

theorem st_step (cfg : Cfg) (s s' : State f) (l : Label) (hw : WF s) (hs : ST cfg s)
    (h : step cfg s l = some s') : ST cfg s' := by
  obtain ⟨w1, w2, w3, w4, w5, w6⟩ := hw
  obtain ⟨h1, h2, h3, h4, h5, h7, h6⟩ := hs
  cases l <;> rfn_step_inv h
  all_goals (constructor <;> simp_all [upd_apply, endExec] <;> grind)


end Remoc.Rfn
