import RemocModel.Rtc.WF
set_option linter.unusedSimpArgs false
set_option linter.unusedVariables false

/-!
# M_rtc: structural invariants — where a request is, who executes, who holds the target lock,
exclusivity of `&mut self` / `self` executions
-/

namespace Remoc.Rtc

variable {o : Obj}

/-- stages in which the serve loop and the lock do not know the request -/
def Stage.passive : Stage → Bool
  | .queued | .acquiring | .executing => false
  | _ => true

structure SInv (cfg : Cfg) (s : State o) : Prop where
  nodup : s.queue.Nodup
  qmem : ∀ c, c ∈ s.queue ↔ (s.calls c).stage = .queued
  acq : ∀ c, s.loop = .acquiring c ↔ (s.calls c).stage = .acquiring
  acqfl : ∀ c, s.loop = .acquiring c → cfg.fl = .sharedMut
  acqsrv : ∀ c, (s.calls c).stage = .acquiring → served cfg.fl (o.kind (s.calls c).m) = true
  exec : ∀ c, (s.calls c).stage = .executing ↔ (s.loop = .running c ∨ c ∈ s.spawned)
  spk : ∀ c, c ∈ s.spawned → o.kind (s.calls c).m = .ref ∧ spawns cfg .ref = true
  srv : ∀ c, (s.calls c).stage = .executing → served cfg.fl (o.kind (s.calls c).m) = true
  rd : ∀ c, c ∈ s.readers ↔ (cfg.fl = .sharedMut ∧ (s.calls c).stage = .executing ∧ o.kind (s.calls c).m = .ref)
  wr : ∀ c, s.writer = some c ↔ (cfg.fl = .sharedMut ∧ (s.calls c).stage = .executing ∧ o.kind (s.calls c).m ≠ .ref)
  excl : ∀ c c', (s.calls c).stage = .executing → (s.calls c').stage = .executing →
    o.kind (s.calls c).m ≠ .ref → c' = c

theorem stage_key (a b : Stage) (h : b = a ∨ (a.passive = true ∧ b.passive = true)) :
    (b = .queued ↔ a = .queued) ∧ (b = .acquiring ↔ a = .acquiring) ∧ (b = .executing ↔ a = .executing) := by
  rcases h with h | ⟨ha, hb⟩
  · subst h; simp
  · cases a <;> cases b <;> simp_all [Stage.passive]

theorem sinv_init (cfg : Cfg) : SInv cfg (init o) := by
  refine ⟨?_, ?_, ?_, ?_, ?_, ?_, ?_, ?_, ?_, ?_, ?_⟩ <;> simp [init, noCall]

/-- a step that leaves queue, loop, tasks and lock alone and moves requests only between passive
stages preserves the structural invariants -/
theorem sinv_passive (cfg : Cfg) (s s' : State o) (hs : SInv cfg s)
    (hq : s'.queue = s.queue) (hl : s'.loop = s.loop) (hsp : s'.spawned = s.spawned)
    (hr : s'.readers = s.readers) (hw : s'.writer = s.writer)
    (hm : ∀ c, (s'.calls c).stage.passive = false ∨ (s.calls c).stage.passive = false → (s'.calls c).m = (s.calls c).m)
    (hst : ∀ c, (s'.calls c).stage = (s.calls c).stage
      ∨ ((s.calls c).stage.passive = true ∧ (s'.calls c).stage.passive = true)) : SInv cfg s' := by
  obtain ⟨h1, h2, h3, h4, h4b, h5, h6, h7, h8, h9, h10⟩ := hs
  have key : ∀ c, ((s'.calls c).stage = .queued ↔ (s.calls c).stage = .queued)
      ∧ ((s'.calls c).stage = .acquiring ↔ (s.calls c).stage = .acquiring)
      ∧ ((s'.calls c).stage = .executing ↔ (s.calls c).stage = .executing) :=
    fun c => stage_key _ _ (hst c)
  have hm' : ∀ c, (s'.calls c).stage = .executing ∨ (s.calls c).stage = .executing → (s'.calls c).m = (s.calls c).m := by
    intro c hc
    apply hm c
    rcases hc with hc | hc <;> simp [hc, Stage.passive]
  refine ⟨?_, ?_, ?_, ?_, ?_, ?_, ?_, ?_, ?_, ?_, ?_⟩
  · rw [hq]; exact h1
  · intro c; rw [hq, (key c).1]; exact h2 c
  · intro c; rw [hl, (key c).2.1]; exact h3 c
  · intro c; rw [hl]; exact h4 c
  · intro c hc
    have he := (key c).2.1.1 hc
    rw [hm c (Or.inl (by simp [hc, Stage.passive]))]; exact h4b c he
  · intro c; rw [hl, hsp, (key c).2.2]; exact h5 c
  · intro c hc
    rw [hsp] at hc
    have he : (s.calls c).stage = .executing := (h5 c).2 (Or.inr hc)
    rw [hm' c (Or.inr he)]; exact h6 c hc
  · intro c hc
    have he := (key c).2.2.1 hc
    rw [hm' c (Or.inl hc)]; exact h7 c he
  · intro c
    rw [hr, (key c).2.2]
    constructor
    · intro hc; have := (h8 c).1 hc; rw [hm' c (Or.inr this.2.1)]; exact this
    · intro hc; apply (h8 c).2; rw [← hm' c (Or.inr hc.2.1)]; exact hc
  · intro c
    rw [hw, (key c).2.2]
    constructor
    · intro hc; have := (h9 c).1 hc; rw [hm' c (Or.inr this.2.1)]; exact this
    · intro hc; apply (h9 c).2; rw [← hm' c (Or.inr hc.2.1)]; exact hc
  · intro c c' hc hc' hk
    have e1 := (key c).2.2.1 hc
    have e2 := (key c').2.2.1 hc'
    rw [hm' c (Or.inl hc)] at hk
    exact h10 c c' e1 e2 hk


theorem sinv_step_passive (cfg : Cfg) (s s' : State o) (l : Label) (hw : WF s) (hs : SInv cfg s)
    (hl : match l with
      | .issue .. | .abandon _ | .abandonEarly _ | .connLoss | .dropClients | .sendFail _ | .closeSeen _
      | .recvReply _ | .deliver _ | .report _ => True
      | _ => False)
    (h : step cfg s l = some s') : SInv cfg s' := by
  have hfr := hw.fresh
  cases l <;> simp only at hl <;> step_inv h
  all_goals (refine sinv_passive cfg _ _ hs ?_ ?_ ?_ ?_ ?_ ?_ ?_)
  all_goals first
    | rfl
    | (simp; done)
    | (intro c; simp [upd_apply, Stage.passive]; grind)

theorem sinv_step_misc (cfg : Cfg) (s s' : State o) (l : Label) (hw : WF s) (hs : SInv cfg s)
    (hl : match l with
      | .serveErr | .serveEnd | .purge _ => True
      | _ => False)
    (h : step cfg s l = some s') : SInv cfg s' := by
  have hfr := hw.fresh
  obtain ⟨h1, h2, h3, h4, h4b, h5, h6, h7, h8, h9, h10⟩ := hs
  cases l <;> simp only at hl <;> step_inv h
  all_goals (refine ⟨?_, ?_, ?_, ?_, ?_, ?_, ?_, ?_, ?_, ?_, ?_⟩)
  all_goals first
    | (simpa using h1)
    | (simp; exact h1.filter _)
    | (intro c; have e2 := h2 c; have e3 := h3 c; have e4 := h4 c; have e4b := h4b c; have e5 := h5 c; have e6 := h6 c; have e7 := h7 c
       have e8 := h8 c; have e9 := h9 c
       simp [upd_apply, startExec_calls, startExec_loop, startExec_spawned] at e2 e3 e4 e4b e5 e6 e7 e8 e9 ⊢; grind [served, spawns])
    | (intro c c'; have := h10 c c'; simp [upd_apply, startExec_calls] at this ⊢; grind)
    | (simp [List.nodup_append]; have e2 := h2; grind [List.nodup_cons])
    | (have e1 := h1; simp_all [List.nodup_cons]; done)

theorem sinv_step_enqueue (cfg : Cfg) (s s' : State o) (l : Label) (hw : WF s) (hs : SInv cfg s)
    (hl : match l with
      | .enqueue _ => True
      | _ => False)
    (h : step cfg s l = some s') : SInv cfg s' := by
  have hfr := hw.fresh
  obtain ⟨h1, h2, h3, h4, h4b, h5, h6, h7, h8, h9, h10⟩ := hs
  cases l <;> simp only at hl <;> step_inv h
  all_goals (refine ⟨?_, ?_, ?_, ?_, ?_, ?_, ?_, ?_, ?_, ?_, ?_⟩)
  all_goals first
    | (simpa using h1)
    | (simp; exact h1.filter _)
    | (intro c; have e2 := h2 c; have e3 := h3 c; have e4 := h4 c; have e4b := h4b c; have e5 := h5 c; have e6 := h6 c; have e7 := h7 c
       have e8 := h8 c; have e9 := h9 c
       simp [upd_apply, startExec_calls, startExec_loop, startExec_spawned] at e2 e3 e4 e4b e5 e6 e7 e8 e9 ⊢; grind [served, spawns])
    | (intro c c'; have := h10 c c'; simp [upd_apply, startExec_calls] at this ⊢; grind)
    | (simp [List.nodup_append]; have e2 := h2; grind [List.nodup_cons])
    | (have e1 := h1; simp_all [List.nodup_cons]; done)

theorem sinv_step_dequeue (cfg : Cfg) (s s' : State o) (l : Label) (hw : WF s) (hs : SInv cfg s)
    (hl : match l with
      | .dequeue => True
      | _ => False)
    (h : step cfg s l = some s') : SInv cfg s' := by
  have hfr := hw.fresh
  obtain ⟨h1, h2, h3, h4, h4b, h5, h6, h7, h8, h9, h10⟩ := hs
  cases l <;> simp only at hl <;> step_inv h
  all_goals (refine ⟨?_, ?_, ?_, ?_, ?_, ?_, ?_, ?_, ?_, ?_, ?_⟩)
  all_goals first
    | (simpa using h1)
    | (simp; exact h1.filter _)
    | (intro c; have e2 := h2 c; have e3 := h3 c; have e4 := h4 c; have e4b := h4b c; have e5 := h5 c; have e6 := h6 c; have e7 := h7 c
       have e8 := h8 c; have e9 := h9 c
       simp [upd_apply, startExec_calls, startExec_loop, startExec_spawned] at e2 e3 e4 e4b e5 e6 e7 e8 e9 ⊢; grind [served, spawns])
    | (intro c c'; have := h10 c c'; simp [upd_apply, startExec_calls] at this ⊢; grind)
    | (simp [List.nodup_append]; have e2 := h2; grind [List.nodup_cons])
    | (have e1 := h1; simp_all [List.nodup_cons]; done)

theorem sinv_step_acquire (cfg : Cfg) (s s' : State o) (l : Label) (hw : WF s) (hs : SInv cfg s)
    (hl : match l with
      | .acquire => True
      | _ => False)
    (h : step cfg s l = some s') : SInv cfg s' := by
  have hfr := hw.fresh
  obtain ⟨h1, h2, h3, h4, h4b, h5, h6, h7, h8, h9, h10⟩ := hs
  cases l <;> simp only at hl <;> step_inv h
  all_goals (refine ⟨?_, ?_, ?_, ?_, ?_, ?_, ?_, ?_, ?_, ?_, ?_⟩)
  all_goals first
    | (simpa using h1)
    | (simp; exact h1.filter _)
    | (intro c; have e2 := h2 c; have e3 := h3 c; have e4 := h4 c; have e4b := h4b c; have e5 := h5 c; have e6 := h6 c; have e7 := h7 c
       have e8 := h8 c; have e9 := h9 c
       simp [upd_apply, startExec_calls, startExec_loop, startExec_spawned] at e2 e3 e4 e4b e5 e6 e7 e8 e9 ⊢; grind [served, spawns])
    | (intro c c'; have := h10 c c'; simp [upd_apply, startExec_calls] at this ⊢; grind)
    | (simp [List.nodup_append]; have e2 := h2; grind [List.nodup_cons])
    | (have e1 := h1; simp_all [List.nodup_cons]; done)

theorem sinv_step_execStep (cfg : Cfg) (s s' : State o) (l : Label) (hw : WF s) (hs : SInv cfg s)
    (hl : match l with
      | .execStep _ => True
      | _ => False)
    (h : step cfg s l = some s') : SInv cfg s' := by
  have hfr := hw.fresh
  obtain ⟨h1, h2, h3, h4, h4b, h5, h6, h7, h8, h9, h10⟩ := hs
  cases l <;> simp only at hl <;> step_inv h
  all_goals (refine ⟨?_, ?_, ?_, ?_, ?_, ?_, ?_, ?_, ?_, ?_, ?_⟩)
  all_goals first
    | (simpa using h1)
    | (simp; exact h1.filter _)
    | (intro c; have e2 := h2 c; have e3 := h3 c; have e4 := h4 c; have e4b := h4b c; have e5 := h5 c; have e6 := h6 c; have e7 := h7 c
       have e8 := h8 c; have e9 := h9 c
       simp [upd_apply, startExec_calls, startExec_loop, startExec_spawned] at e2 e3 e4 e4b e5 e6 e7 e8 e9 ⊢; grind [served, spawns])
    | (intro c c'; have := h10 c c'; simp [upd_apply, startExec_calls] at this ⊢; grind)
    | (simp [List.nodup_append]; have e2 := h2; grind [List.nodup_cons])
    | (have e1 := h1; simp_all [List.nodup_cons]; done)

theorem sinv_step_execCancel (cfg : Cfg) (s s' : State o) (l : Label) (hw : WF s) (hs : SInv cfg s)
    (hl : match l with
      | .execCancel _ => True
      | _ => False)
    (h : step cfg s l = some s') : SInv cfg s' := by
  have hfr := hw.fresh
  obtain ⟨h1, h2, h3, h4, h4b, h5, h6, h7, h8, h9, h10⟩ := hs
  cases l <;> simp only at hl <;> step_inv h
  all_goals (refine ⟨?_, ?_, ?_, ?_, ?_, ?_, ?_, ?_, ?_, ?_, ?_⟩)
  all_goals first
    | (simpa using h1)
    | (simp; exact h1.filter _)
    | (intro c; have e2 := h2 c; have e3 := h3 c; have e4 := h4 c; have e4b := h4b c; have e5 := h5 c; have e6 := h6 c; have e7 := h7 c
       have e8 := h8 c; have e9 := h9 c
       simp [upd_apply, startExec_calls, startExec_loop, startExec_spawned] at e2 e3 e4 e4b e5 e6 e7 e8 e9 ⊢; grind [served, spawns])
    | (intro c c'; have := h10 c c'; simp [upd_apply, startExec_calls] at this ⊢; grind)
    | (simp [List.nodup_append]; have e2 := h2; grind [List.nodup_cons])
    | (have e1 := h1; simp_all [List.nodup_cons]; done)


theorem sinv_step (cfg : Cfg) (s s' : State o) (l : Label) (hw : WF s) (hs : SInv cfg s)
    (h : step cfg s l = some s') : SInv cfg s' := by
  cases l with
  | serveErr => exact sinv_step_misc cfg s s' _ hw hs trivial h
  | serveEnd => exact sinv_step_misc cfg s s' _ hw hs trivial h
  | purge c => exact sinv_step_misc cfg s s' _ hw hs trivial h
  | enqueue c => exact sinv_step_enqueue cfg s s' _ hw hs trivial h
  | dequeue => exact sinv_step_dequeue cfg s s' _ hw hs trivial h
  | acquire => exact sinv_step_acquire cfg s s' _ hw hs trivial h
  | execStep c => exact sinv_step_execStep cfg s s' _ hw hs trivial h
  | execCancel c => exact sinv_step_execCancel cfg s s' _ hw hs trivial h
  | _ => exact sinv_step_passive cfg s s' _ hw hs trivial h

theorem inv_reachable (cfg : Cfg) (s : State o) (h : Reachable cfg s) : WF s ∧ SInv cfg s :=
  reachable_induction cfg (fun s => WF s ∧ SInv cfg s) ⟨wf_init, sinv_init cfg⟩
    (fun s l s' hi hs => ⟨wf_step cfg s s' l hi.1 hs, sinv_step cfg s s' l hi.1 hi.2 hs⟩) s h

end Remoc.Rtc
