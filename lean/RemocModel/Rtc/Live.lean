import RemocModel.Rtc.Trace
set_option linter.unusedSimpArgs false
set_option linter.unusedVariables false

/-!
# M_rtc: every failure has a cause, the reply channel of a finished request is resolved,
why `serve` stops, nothing is left pending at quiescence
-/

namespace Remoc.Rtc

variable {o : Obj}

def hasReplyErr (tr : List Ev) : Prop := ∃ c, Ev.replyErr c ∈ tr

/-- the legitimate reasons for a call to end with an error -/
def Cause (cfg : Cfg) (s : State o) (c : Nat) : Prop :=
  o.known (s.calls c).m = false
  ∨ served cfg.fl (o.kind (s.calls c).m) = false
  ∨ (cfg.remote (s.calls c).client = true ∧
      ((s.calls c).lost = true ∨ o.reqFits (s.calls c).client (s.calls c).m (s.calls c).a = false ∨ s.connUp = false))
  ∨ s.loop.isStopped = true
  ∨ Ev.replyErr c ∈ s.tr
  ∨ (s.chans c).rxGone = true

structure VInv (cfg : Cfg) (s : State o) : Prop where
  /-- when the server is done with a request its reply channel is resolved -/
  d1 : ∀ c, c < s.n → (s.calls c).stage = .done →
    (s.chans c).val.isSome = true ∨ (s.chans c).txGone = true ∨ (s.chans c).closed = true
  d2 : ∀ c, c < s.n → (s.calls c).stage = .reporting → (s.chans c).txGone = true
  d3 : ∀ c, c < s.n → (s.chans c).closed = true →
    (s.chans c).rxGone = true ∨ (cfg.remote (s.calls c).client = true ∧ s.connUp = false)
  d4 : ∀ c, c < s.n → ((s.chans c).rxGone = true ↔ (s.calls c).cl = .abandoned)
  /-- a dropped reply sender has a cause -/
  e1 : ∀ c, c < s.n → (s.chans c).txGone = true → Cause cfg s c
  e2 : ∀ c, c < s.n → (s.calls c).cl = .error → Cause cfg s c
  /-- a queued reply error comes from an over-size reply -/
  q1 : 0 < s.errQ → hasReplyErr s.tr
  q2 : ∀ c, c < s.n → (s.calls c).stage = .reporting → Ev.replyErr c ∈ s.tr

theorem vinv_init (cfg : Cfg) : VInv cfg (init o) := by
  refine ⟨?_, ?_, ?_, ?_, ?_, ?_, ?_, ?_⟩ <;> simp [init, noCall]


theorem vinv_step_issue (cfg : Cfg) (s s' : State o) (l : Label) (hw : WF s) (hv : VInv cfg s)
    (hl : match l with
      | .issue .. => True
      | _ => False)
    (h : step cfg s l = some s') : VInv cfg s' := by
  have hfr := hw.fresh
  have hrch := hw.rch
  have hnch := hw.nch
  obtain ⟨d1, d2, d3, d4, e1, e2, q1, q2⟩ := hv
  cases l <;> simp only at hl <;> step_inv h
  all_goals (refine ⟨?_, ?_, ?_, ?_, ?_, ?_, ?_, ?_⟩)
  all_goals first
    | (intro c hlt hh; have a1 := d1 c; have a2 := d2 c; have a3 := d3 c; have a4 := d4 c; have a5 := e1 c; have a6 := e2 c
       have a7 := q2 c; have er := hrch c; have efr := hfr c
       simp [upd_apply, startExec_calls, startExec_loop, Cause, Loop.isStopped, State.closed] at a1 a2 a3 a4 a5 a6 a7 er efr hlt hh ⊢ <;> grind [Loop.isStopped, State.closed])
    | (intro c hlt; have a1 := d1 c; have a2 := d2 c; have a3 := d3 c; have a4 := d4 c; have a5 := e1 c; have a6 := e2 c
       have a7 := q2 c; have er := hrch c; have efr := hfr c
       simp [upd_apply, startExec_calls, startExec_loop, Cause, Loop.isStopped, State.closed] at a1 a2 a3 a4 a5 a6 a7 er efr hlt ⊢ <;> grind [Loop.isStopped, State.closed])
    | (simpa [hasReplyErr] using q1)
    | (intro _; exact ⟨_, q2 _ (‹_ < s.n ∧ _›).1 (‹_ < s.n ∧ _›).2⟩)
    | skip

theorem vinv_step_abandon (cfg : Cfg) (s s' : State o) (l : Label) (hw : WF s) (hv : VInv cfg s)
    (hl : match l with
      | .abandon _ => True
      | _ => False)
    (h : step cfg s l = some s') : VInv cfg s' := by
  have hfr := hw.fresh
  have hrch := hw.rch
  have hnch := hw.nch
  obtain ⟨d1, d2, d3, d4, e1, e2, q1, q2⟩ := hv
  cases l <;> simp only at hl <;> step_inv h
  all_goals (refine ⟨?_, ?_, ?_, ?_, ?_, ?_, ?_, ?_⟩)
  all_goals first
    | (intro c hlt hh; have a1 := d1 c; have a2 := d2 c; have a3 := d3 c; have a4 := d4 c; have a5 := e1 c; have a6 := e2 c
       have a7 := q2 c; have er := hrch c; have efr := hfr c
       simp [upd_apply, startExec_calls, startExec_loop, Cause, Loop.isStopped, State.closed] at a1 a2 a3 a4 a5 a6 a7 er efr hlt hh ⊢ <;> grind [Loop.isStopped, State.closed])
    | (intro c hlt; have a1 := d1 c; have a2 := d2 c; have a3 := d3 c; have a4 := d4 c; have a5 := e1 c; have a6 := e2 c
       have a7 := q2 c; have er := hrch c; have efr := hfr c
       simp [upd_apply, startExec_calls, startExec_loop, Cause, Loop.isStopped, State.closed] at a1 a2 a3 a4 a5 a6 a7 er efr hlt ⊢ <;> grind [Loop.isStopped, State.closed])
    | (simpa [hasReplyErr] using q1)
    | (intro _; exact ⟨_, q2 _ (‹_ < s.n ∧ _›).1 (‹_ < s.n ∧ _›).2⟩)
    | skip

theorem vinv_step_abandonEarly (cfg : Cfg) (s s' : State o) (l : Label) (hw : WF s) (hv : VInv cfg s)
    (hl : match l with
      | .abandonEarly _ => True
      | _ => False)
    (h : step cfg s l = some s') : VInv cfg s' := by
  have hfr := hw.fresh
  have hrch := hw.rch
  have hnch := hw.nch
  obtain ⟨d1, d2, d3, d4, e1, e2, q1, q2⟩ := hv
  cases l <;> simp only at hl <;> step_inv h
  all_goals (refine ⟨?_, ?_, ?_, ?_, ?_, ?_, ?_, ?_⟩)
  all_goals first
    | (intro c hlt hh; have a1 := d1 c; have a2 := d2 c; have a3 := d3 c; have a4 := d4 c; have a5 := e1 c; have a6 := e2 c
       have a7 := q2 c; have er := hrch c; have efr := hfr c
       simp [upd_apply, startExec_calls, startExec_loop, Cause, Loop.isStopped, State.closed] at a1 a2 a3 a4 a5 a6 a7 er efr hlt hh ⊢ <;> grind [Loop.isStopped, State.closed])
    | (intro c hlt; have a1 := d1 c; have a2 := d2 c; have a3 := d3 c; have a4 := d4 c; have a5 := e1 c; have a6 := e2 c
       have a7 := q2 c; have er := hrch c; have efr := hfr c
       simp [upd_apply, startExec_calls, startExec_loop, Cause, Loop.isStopped, State.closed] at a1 a2 a3 a4 a5 a6 a7 er efr hlt ⊢ <;> grind [Loop.isStopped, State.closed])
    | (simpa [hasReplyErr] using q1)
    | (intro _; exact ⟨_, q2 _ (‹_ < s.n ∧ _›).1 (‹_ < s.n ∧ _›).2⟩)
    | skip

theorem vinv_step_connLoss (cfg : Cfg) (s s' : State o) (l : Label) (hw : WF s) (hv : VInv cfg s)
    (hl : match l with
      | .connLoss => True
      | _ => False)
    (h : step cfg s l = some s') : VInv cfg s' := by
  have hfr := hw.fresh
  have hrch := hw.rch
  have hnch := hw.nch
  obtain ⟨d1, d2, d3, d4, e1, e2, q1, q2⟩ := hv
  cases l <;> simp only at hl <;> step_inv h
  all_goals (refine ⟨?_, ?_, ?_, ?_, ?_, ?_, ?_, ?_⟩)
  all_goals first
    | (intro c hlt hh; have a1 := d1 c; have a2 := d2 c; have a3 := d3 c; have a4 := d4 c; have a5 := e1 c; have a6 := e2 c
       have a7 := q2 c; have er := hrch c; have efr := hfr c
       simp [upd_apply, startExec_calls, startExec_loop, Cause, Loop.isStopped, State.closed] at a1 a2 a3 a4 a5 a6 a7 er efr hlt hh ⊢ <;> grind [Loop.isStopped, State.closed])
    | (intro c hlt; have a1 := d1 c; have a2 := d2 c; have a3 := d3 c; have a4 := d4 c; have a5 := e1 c; have a6 := e2 c
       have a7 := q2 c; have er := hrch c; have efr := hfr c
       simp [upd_apply, startExec_calls, startExec_loop, Cause, Loop.isStopped, State.closed] at a1 a2 a3 a4 a5 a6 a7 er efr hlt ⊢ <;> grind [Loop.isStopped, State.closed])
    | (simpa [hasReplyErr] using q1)
    | (intro _; exact ⟨_, q2 _ (‹_ < s.n ∧ _›).1 (‹_ < s.n ∧ _›).2⟩)
    | skip

theorem vinv_step_dropClients (cfg : Cfg) (s s' : State o) (l : Label) (hw : WF s) (hv : VInv cfg s)
    (hl : match l with
      | .dropClients => True
      | _ => False)
    (h : step cfg s l = some s') : VInv cfg s' := by
  have hfr := hw.fresh
  have hrch := hw.rch
  have hnch := hw.nch
  obtain ⟨d1, d2, d3, d4, e1, e2, q1, q2⟩ := hv
  cases l <;> simp only at hl <;> step_inv h
  all_goals (refine ⟨?_, ?_, ?_, ?_, ?_, ?_, ?_, ?_⟩)
  all_goals first
    | (intro c hlt hh; have a1 := d1 c; have a2 := d2 c; have a3 := d3 c; have a4 := d4 c; have a5 := e1 c; have a6 := e2 c
       have a7 := q2 c; have er := hrch c; have efr := hfr c
       simp [upd_apply, startExec_calls, startExec_loop, Cause, Loop.isStopped, State.closed] at a1 a2 a3 a4 a5 a6 a7 er efr hlt hh ⊢ <;> grind [Loop.isStopped, State.closed])
    | (intro c hlt; have a1 := d1 c; have a2 := d2 c; have a3 := d3 c; have a4 := d4 c; have a5 := e1 c; have a6 := e2 c
       have a7 := q2 c; have er := hrch c; have efr := hfr c
       simp [upd_apply, startExec_calls, startExec_loop, Cause, Loop.isStopped, State.closed] at a1 a2 a3 a4 a5 a6 a7 er efr hlt ⊢ <;> grind [Loop.isStopped, State.closed])
    | (simpa [hasReplyErr] using q1)
    | (intro _; exact ⟨_, q2 _ (‹_ < s.n ∧ _›).1 (‹_ < s.n ∧ _›).2⟩)
    | skip

theorem vinv_step_enqueue (cfg : Cfg) (s s' : State o) (l : Label) (hw : WF s) (hv : VInv cfg s)
    (hl : match l with
      | .enqueue _ => True
      | _ => False)
    (h : step cfg s l = some s') : VInv cfg s' := by
  have hfr := hw.fresh
  have hrch := hw.rch
  have hnch := hw.nch
  obtain ⟨d1, d2, d3, d4, e1, e2, q1, q2⟩ := hv
  cases l <;> simp only at hl <;> step_inv h
  all_goals (refine ⟨?_, ?_, ?_, ?_, ?_, ?_, ?_, ?_⟩)
  all_goals first
    | (intro c hlt hh; have a1 := d1 c; have a2 := d2 c; have a3 := d3 c; have a4 := d4 c; have a5 := e1 c; have a6 := e2 c
       have a7 := q2 c; have er := hrch c; have efr := hfr c
       simp [upd_apply, startExec_calls, startExec_loop, Cause, Loop.isStopped, State.closed] at a1 a2 a3 a4 a5 a6 a7 er efr hlt hh ⊢ <;> grind [Loop.isStopped, State.closed])
    | (intro c hlt; have a1 := d1 c; have a2 := d2 c; have a3 := d3 c; have a4 := d4 c; have a5 := e1 c; have a6 := e2 c
       have a7 := q2 c; have er := hrch c; have efr := hfr c
       simp [upd_apply, startExec_calls, startExec_loop, Cause, Loop.isStopped, State.closed] at a1 a2 a3 a4 a5 a6 a7 er efr hlt ⊢ <;> grind [Loop.isStopped, State.closed])
    | (simpa [hasReplyErr] using q1)
    | (intro _; exact ⟨_, q2 _ (‹_ < s.n ∧ _›).1 (‹_ < s.n ∧ _›).2⟩)
    | skip

theorem vinv_step_sendFail (cfg : Cfg) (s s' : State o) (l : Label) (hw : WF s) (hv : VInv cfg s)
    (hl : match l with
      | .sendFail _ => True
      | _ => False)
    (h : step cfg s l = some s') : VInv cfg s' := by
  have hfr := hw.fresh
  have hrch := hw.rch
  have hnch := hw.nch
  obtain ⟨d1, d2, d3, d4, e1, e2, q1, q2⟩ := hv
  cases l <;> simp only at hl <;> step_inv h
  all_goals (refine ⟨?_, ?_, ?_, ?_, ?_, ?_, ?_, ?_⟩)
  all_goals first
    | (intro c hlt hh; have a1 := d1 c; have a2 := d2 c; have a3 := d3 c; have a4 := d4 c; have a5 := e1 c; have a6 := e2 c
       have a7 := q2 c; have er := hrch c; have efr := hfr c
       simp [upd_apply, startExec_calls, startExec_loop, Cause, Loop.isStopped, State.closed] at a1 a2 a3 a4 a5 a6 a7 er efr hlt hh ⊢ <;> grind [Loop.isStopped, State.closed])
    | (intro c hlt; have a1 := d1 c; have a2 := d2 c; have a3 := d3 c; have a4 := d4 c; have a5 := e1 c; have a6 := e2 c
       have a7 := q2 c; have er := hrch c; have efr := hfr c
       simp [upd_apply, startExec_calls, startExec_loop, Cause, Loop.isStopped, State.closed] at a1 a2 a3 a4 a5 a6 a7 er efr hlt ⊢ <;> grind [Loop.isStopped, State.closed])
    | (simpa [hasReplyErr] using q1)
    | (intro _; exact ⟨_, q2 _ (‹_ < s.n ∧ _›).1 (‹_ < s.n ∧ _›).2⟩)
    | skip

theorem vinv_step_closeSeen (cfg : Cfg) (s s' : State o) (l : Label) (hw : WF s) (hv : VInv cfg s)
    (hl : match l with
      | .closeSeen _ => True
      | _ => False)
    (h : step cfg s l = some s') : VInv cfg s' := by
  have hfr := hw.fresh
  have hrch := hw.rch
  have hnch := hw.nch
  obtain ⟨d1, d2, d3, d4, e1, e2, q1, q2⟩ := hv
  cases l <;> simp only at hl <;> step_inv h
  all_goals (refine ⟨?_, ?_, ?_, ?_, ?_, ?_, ?_, ?_⟩)
  all_goals first
    | (intro c hlt hh; have a1 := d1 c; have a2 := d2 c; have a3 := d3 c; have a4 := d4 c; have a5 := e1 c; have a6 := e2 c
       have a7 := q2 c; have er := hrch c; have efr := hfr c
       simp [upd_apply, startExec_calls, startExec_loop, Cause, Loop.isStopped, State.closed] at a1 a2 a3 a4 a5 a6 a7 er efr hlt hh ⊢ <;> grind [Loop.isStopped, State.closed])
    | (intro c hlt; have a1 := d1 c; have a2 := d2 c; have a3 := d3 c; have a4 := d4 c; have a5 := e1 c; have a6 := e2 c
       have a7 := q2 c; have er := hrch c; have efr := hfr c
       simp [upd_apply, startExec_calls, startExec_loop, Cause, Loop.isStopped, State.closed] at a1 a2 a3 a4 a5 a6 a7 er efr hlt ⊢ <;> grind [Loop.isStopped, State.closed])
    | (simpa [hasReplyErr] using q1)
    | (intro _; exact ⟨_, q2 _ (‹_ < s.n ∧ _›).1 (‹_ < s.n ∧ _›).2⟩)
    | skip

theorem vinv_step_recvReply (cfg : Cfg) (s s' : State o) (l : Label) (hw : WF s) (hv : VInv cfg s)
    (hl : match l with
      | .recvReply _ => True
      | _ => False)
    (h : step cfg s l = some s') : VInv cfg s' := by
  have hfr := hw.fresh
  have hrch := hw.rch
  have hnch := hw.nch
  obtain ⟨d1, d2, d3, d4, e1, e2, q1, q2⟩ := hv
  cases l <;> simp only at hl <;> step_inv h
  all_goals (refine ⟨?_, ?_, ?_, ?_, ?_, ?_, ?_, ?_⟩)
  all_goals first
    | (intro c hlt hh; have a1 := d1 c; have a2 := d2 c; have a3 := d3 c; have a4 := d4 c; have a5 := e1 c; have a6 := e2 c
       have a7 := q2 c; have er := hrch c; have efr := hfr c
       simp [upd_apply, startExec_calls, startExec_loop, Cause, Loop.isStopped, State.closed] at a1 a2 a3 a4 a5 a6 a7 er efr hlt hh ⊢ <;> grind [Loop.isStopped, State.closed])
    | (intro c hlt; have a1 := d1 c; have a2 := d2 c; have a3 := d3 c; have a4 := d4 c; have a5 := e1 c; have a6 := e2 c
       have a7 := q2 c; have er := hrch c; have efr := hfr c
       simp [upd_apply, startExec_calls, startExec_loop, Cause, Loop.isStopped, State.closed] at a1 a2 a3 a4 a5 a6 a7 er efr hlt ⊢ <;> grind [Loop.isStopped, State.closed])
    | (simpa [hasReplyErr] using q1)
    | (intro _; exact ⟨_, q2 _ (‹_ < s.n ∧ _›).1 (‹_ < s.n ∧ _›).2⟩)
    | skip

theorem vinv_step_dequeue (cfg : Cfg) (s s' : State o) (l : Label) (hw : WF s) (hv : VInv cfg s)
    (hl : match l with
      | .dequeue => True
      | _ => False)
    (h : step cfg s l = some s') : VInv cfg s' := by
  have hfr := hw.fresh
  have hrch := hw.rch
  have hnch := hw.nch
  obtain ⟨d1, d2, d3, d4, e1, e2, q1, q2⟩ := hv
  cases l <;> simp only at hl <;> step_inv h
  all_goals (refine ⟨?_, ?_, ?_, ?_, ?_, ?_, ?_, ?_⟩)
  all_goals first
    | (intro c hlt hh; have a1 := d1 c; have a2 := d2 c; have a3 := d3 c; have a4 := d4 c; have a5 := e1 c; have a6 := e2 c
       have a7 := q2 c; have er := hrch c; have efr := hfr c
       simp [upd_apply, startExec_calls, startExec_loop, Cause, Loop.isStopped, State.closed] at a1 a2 a3 a4 a5 a6 a7 er efr hlt hh ⊢ <;> grind [Loop.isStopped, State.closed])
    | (intro c hlt; have a1 := d1 c; have a2 := d2 c; have a3 := d3 c; have a4 := d4 c; have a5 := e1 c; have a6 := e2 c
       have a7 := q2 c; have er := hrch c; have efr := hfr c
       simp [upd_apply, startExec_calls, startExec_loop, Cause, Loop.isStopped, State.closed] at a1 a2 a3 a4 a5 a6 a7 er efr hlt ⊢ <;> grind [Loop.isStopped, State.closed])
    | (simpa [hasReplyErr] using q1)
    | (intro _; exact ⟨_, q2 _ (‹_ < s.n ∧ _›).1 (‹_ < s.n ∧ _›).2⟩)
    | skip

theorem vinv_step_acquire (cfg : Cfg) (s s' : State o) (l : Label) (hw : WF s) (hv : VInv cfg s)
    (hl : match l with
      | .acquire => True
      | _ => False)
    (h : step cfg s l = some s') : VInv cfg s' := by
  have hfr := hw.fresh
  have hrch := hw.rch
  have hnch := hw.nch
  obtain ⟨d1, d2, d3, d4, e1, e2, q1, q2⟩ := hv
  cases l <;> simp only at hl <;> step_inv h
  all_goals (refine ⟨?_, ?_, ?_, ?_, ?_, ?_, ?_, ?_⟩)
  all_goals first
    | (intro c hlt hh; have a1 := d1 c; have a2 := d2 c; have a3 := d3 c; have a4 := d4 c; have a5 := e1 c; have a6 := e2 c
       have a7 := q2 c; have er := hrch c; have efr := hfr c
       simp [upd_apply, startExec_calls, startExec_loop, Cause, Loop.isStopped, State.closed] at a1 a2 a3 a4 a5 a6 a7 er efr hlt hh ⊢ <;> grind [Loop.isStopped, State.closed])
    | (intro c hlt; have a1 := d1 c; have a2 := d2 c; have a3 := d3 c; have a4 := d4 c; have a5 := e1 c; have a6 := e2 c
       have a7 := q2 c; have er := hrch c; have efr := hfr c
       simp [upd_apply, startExec_calls, startExec_loop, Cause, Loop.isStopped, State.closed] at a1 a2 a3 a4 a5 a6 a7 er efr hlt ⊢ <;> grind [Loop.isStopped, State.closed])
    | (simpa [hasReplyErr] using q1)
    | (intro _; exact ⟨_, q2 _ (‹_ < s.n ∧ _›).1 (‹_ < s.n ∧ _›).2⟩)
    | skip

theorem vinv_step_execStep (cfg : Cfg) (s s' : State o) (l : Label) (hw : WF s) (hv : VInv cfg s)
    (hl : match l with
      | .execStep _ => True
      | _ => False)
    (h : step cfg s l = some s') : VInv cfg s' := by
  have hfr := hw.fresh
  have hrch := hw.rch
  have hnch := hw.nch
  obtain ⟨d1, d2, d3, d4, e1, e2, q1, q2⟩ := hv
  cases l <;> simp only at hl <;> step_inv h
  all_goals (refine ⟨?_, ?_, ?_, ?_, ?_, ?_, ?_, ?_⟩)
  all_goals first
    | (intro c hlt hh; have a1 := d1 c; have a2 := d2 c; have a3 := d3 c; have a4 := d4 c; have a5 := e1 c; have a6 := e2 c
       have a7 := q2 c; have er := hrch c; have efr := hfr c
       simp [upd_apply, startExec_calls, startExec_loop, Cause, Loop.isStopped, State.closed] at a1 a2 a3 a4 a5 a6 a7 er efr hlt hh ⊢ <;> grind [Loop.isStopped, State.closed])
    | (intro c hlt; have a1 := d1 c; have a2 := d2 c; have a3 := d3 c; have a4 := d4 c; have a5 := e1 c; have a6 := e2 c
       have a7 := q2 c; have er := hrch c; have efr := hfr c
       simp [upd_apply, startExec_calls, startExec_loop, Cause, Loop.isStopped, State.closed] at a1 a2 a3 a4 a5 a6 a7 er efr hlt ⊢ <;> grind [Loop.isStopped, State.closed])
    | (simpa [hasReplyErr] using q1)
    | (intro _; exact ⟨_, q2 _ (‹_ < s.n ∧ _›).1 (‹_ < s.n ∧ _›).2⟩)
    | skip

theorem vinv_step_execCancel (cfg : Cfg) (s s' : State o) (l : Label) (hw : WF s) (hv : VInv cfg s)
    (hl : match l with
      | .execCancel _ => True
      | _ => False)
    (h : step cfg s l = some s') : VInv cfg s' := by
  have hfr := hw.fresh
  have hrch := hw.rch
  have hnch := hw.nch
  obtain ⟨d1, d2, d3, d4, e1, e2, q1, q2⟩ := hv
  cases l <;> simp only at hl <;> step_inv h
  all_goals (refine ⟨?_, ?_, ?_, ?_, ?_, ?_, ?_, ?_⟩)
  all_goals first
    | (intro c hlt hh; have a1 := d1 c; have a2 := d2 c; have a3 := d3 c; have a4 := d4 c; have a5 := e1 c; have a6 := e2 c
       have a7 := q2 c; have er := hrch c; have efr := hfr c
       simp [upd_apply, startExec_calls, startExec_loop, Cause, Loop.isStopped, State.closed] at a1 a2 a3 a4 a5 a6 a7 er efr hlt hh ⊢ <;> grind [Loop.isStopped, State.closed])
    | (intro c hlt; have a1 := d1 c; have a2 := d2 c; have a3 := d3 c; have a4 := d4 c; have a5 := e1 c; have a6 := e2 c
       have a7 := q2 c; have er := hrch c; have efr := hfr c
       simp [upd_apply, startExec_calls, startExec_loop, Cause, Loop.isStopped, State.closed] at a1 a2 a3 a4 a5 a6 a7 er efr hlt ⊢ <;> grind [Loop.isStopped, State.closed])
    | (simpa [hasReplyErr] using q1)
    | (intro _; exact ⟨_, q2 _ (‹_ < s.n ∧ _›).1 (‹_ < s.n ∧ _›).2⟩)
    | skip

theorem vinv_step_deliver (cfg : Cfg) (s s' : State o) (l : Label) (hw : WF s) (hv : VInv cfg s)
    (hl : match l with
      | .deliver _ => True
      | _ => False)
    (h : step cfg s l = some s') : VInv cfg s' := by
  have hfr := hw.fresh
  have hrch := hw.rch
  have hnch := hw.nch
  obtain ⟨d1, d2, d3, d4, e1, e2, q1, q2⟩ := hv
  cases l <;> simp only at hl <;> step_inv h
  all_goals (refine ⟨?_, ?_, ?_, ?_, ?_, ?_, ?_, ?_⟩)
  all_goals first
    | (intro c hlt hh; have a1 := d1 c; have a2 := d2 c; have a3 := d3 c; have a4 := d4 c; have a5 := e1 c; have a6 := e2 c
       have a7 := q2 c; have er := hrch c; have efr := hfr c
       simp [upd_apply, startExec_calls, startExec_loop, Cause, Loop.isStopped, State.closed] at a1 a2 a3 a4 a5 a6 a7 er efr hlt hh ⊢ <;> grind [Loop.isStopped, State.closed])
    | (intro c hlt; have a1 := d1 c; have a2 := d2 c; have a3 := d3 c; have a4 := d4 c; have a5 := e1 c; have a6 := e2 c
       have a7 := q2 c; have er := hrch c; have efr := hfr c
       simp [upd_apply, startExec_calls, startExec_loop, Cause, Loop.isStopped, State.closed] at a1 a2 a3 a4 a5 a6 a7 er efr hlt ⊢ <;> grind [Loop.isStopped, State.closed])
    | (simpa [hasReplyErr] using q1)
    | (intro _; exact ⟨_, q2 _ (‹_ < s.n ∧ _›).1 (‹_ < s.n ∧ _›).2⟩)
    | skip

theorem vinv_step_report (cfg : Cfg) (s s' : State o) (l : Label) (hw : WF s) (hv : VInv cfg s)
    (hl : match l with
      | .report _ => True
      | _ => False)
    (h : step cfg s l = some s') : VInv cfg s' := by
  have hfr := hw.fresh
  have hrch := hw.rch
  have hnch := hw.nch
  obtain ⟨d1, d2, d3, d4, e1, e2, q1, q2⟩ := hv
  cases l <;> simp only at hl <;> step_inv h
  all_goals (refine ⟨?_, ?_, ?_, ?_, ?_, ?_, ?_, ?_⟩)
  all_goals first
    | (intro c hlt hh; have a1 := d1 c; have a2 := d2 c; have a3 := d3 c; have a4 := d4 c; have a5 := e1 c; have a6 := e2 c
       have a7 := q2 c; have er := hrch c; have efr := hfr c
       simp [upd_apply, startExec_calls, startExec_loop, Cause, Loop.isStopped, State.closed] at a1 a2 a3 a4 a5 a6 a7 er efr hlt hh ⊢ <;> grind [Loop.isStopped, State.closed])
    | (intro c hlt; have a1 := d1 c; have a2 := d2 c; have a3 := d3 c; have a4 := d4 c; have a5 := e1 c; have a6 := e2 c
       have a7 := q2 c; have er := hrch c; have efr := hfr c
       simp [upd_apply, startExec_calls, startExec_loop, Cause, Loop.isStopped, State.closed] at a1 a2 a3 a4 a5 a6 a7 er efr hlt ⊢ <;> grind [Loop.isStopped, State.closed])
    | (simpa [hasReplyErr] using q1)
    | (intro _; exact ⟨_, q2 _ (‹_ < s.n ∧ _›).1 (‹_ < s.n ∧ _›).2⟩)
    | skip

theorem vinv_step_serveErr (cfg : Cfg) (s s' : State o) (l : Label) (hw : WF s) (hv : VInv cfg s)
    (hl : match l with
      | .serveErr => True
      | _ => False)
    (h : step cfg s l = some s') : VInv cfg s' := by
  have hfr := hw.fresh
  have hrch := hw.rch
  have hnch := hw.nch
  obtain ⟨d1, d2, d3, d4, e1, e2, q1, q2⟩ := hv
  cases l <;> simp only at hl <;> step_inv h
  all_goals (refine ⟨?_, ?_, ?_, ?_, ?_, ?_, ?_, ?_⟩)
  all_goals first
    | (intro c hlt hh; have a1 := d1 c; have a2 := d2 c; have a3 := d3 c; have a4 := d4 c; have a5 := e1 c; have a6 := e2 c
       have a7 := q2 c; have er := hrch c; have efr := hfr c
       simp [upd_apply, startExec_calls, startExec_loop, Cause, Loop.isStopped, State.closed] at a1 a2 a3 a4 a5 a6 a7 er efr hlt hh ⊢ <;> grind [Loop.isStopped, State.closed])
    | (intro c hlt; have a1 := d1 c; have a2 := d2 c; have a3 := d3 c; have a4 := d4 c; have a5 := e1 c; have a6 := e2 c
       have a7 := q2 c; have er := hrch c; have efr := hfr c
       simp [upd_apply, startExec_calls, startExec_loop, Cause, Loop.isStopped, State.closed] at a1 a2 a3 a4 a5 a6 a7 er efr hlt ⊢ <;> grind [Loop.isStopped, State.closed])
    | (simpa [hasReplyErr] using q1)
    | (intro _; exact ⟨_, q2 _ (‹_ < s.n ∧ _›).1 (‹_ < s.n ∧ _›).2⟩)
    | skip

theorem vinv_step_purge (cfg : Cfg) (s s' : State o) (l : Label) (hw : WF s) (hv : VInv cfg s)
    (hl : match l with
      | .purge _ => True
      | _ => False)
    (h : step cfg s l = some s') : VInv cfg s' := by
  have hfr := hw.fresh
  have hrch := hw.rch
  have hnch := hw.nch
  obtain ⟨d1, d2, d3, d4, e1, e2, q1, q2⟩ := hv
  cases l <;> simp only at hl <;> step_inv h
  all_goals (refine ⟨?_, ?_, ?_, ?_, ?_, ?_, ?_, ?_⟩)
  all_goals first
    | (intro c hlt hh; have a1 := d1 c; have a2 := d2 c; have a3 := d3 c; have a4 := d4 c; have a5 := e1 c; have a6 := e2 c
       have a7 := q2 c; have er := hrch c; have efr := hfr c
       simp [upd_apply, startExec_calls, startExec_loop, Cause, Loop.isStopped, State.closed] at a1 a2 a3 a4 a5 a6 a7 er efr hlt hh ⊢ <;> grind [Loop.isStopped, State.closed])
    | (intro c hlt; have a1 := d1 c; have a2 := d2 c; have a3 := d3 c; have a4 := d4 c; have a5 := e1 c; have a6 := e2 c
       have a7 := q2 c; have er := hrch c; have efr := hfr c
       simp [upd_apply, startExec_calls, startExec_loop, Cause, Loop.isStopped, State.closed] at a1 a2 a3 a4 a5 a6 a7 er efr hlt ⊢ <;> grind [Loop.isStopped, State.closed])
    | (simpa [hasReplyErr] using q1)
    | (intro _; exact ⟨_, q2 _ (‹_ < s.n ∧ _›).1 (‹_ < s.n ∧ _›).2⟩)
    | skip

theorem vinv_step_serveEnd (cfg : Cfg) (s s' : State o) (l : Label) (hw : WF s) (hv : VInv cfg s)
    (hl : match l with
      | .serveEnd => True
      | _ => False)
    (h : step cfg s l = some s') : VInv cfg s' := by
  have hfr := hw.fresh
  have hrch := hw.rch
  have hnch := hw.nch
  obtain ⟨d1, d2, d3, d4, e1, e2, q1, q2⟩ := hv
  cases l <;> simp only at hl <;> step_inv h
  all_goals (refine ⟨?_, ?_, ?_, ?_, ?_, ?_, ?_, ?_⟩)
  all_goals first
    | (intro c hlt hh; have a1 := d1 c; have a2 := d2 c; have a3 := d3 c; have a4 := d4 c; have a5 := e1 c; have a6 := e2 c
       have a7 := q2 c; have er := hrch c; have efr := hfr c
       simp [upd_apply, startExec_calls, startExec_loop, Cause, Loop.isStopped, State.closed] at a1 a2 a3 a4 a5 a6 a7 er efr hlt hh ⊢ <;> grind [Loop.isStopped, State.closed])
    | (intro c hlt; have a1 := d1 c; have a2 := d2 c; have a3 := d3 c; have a4 := d4 c; have a5 := e1 c; have a6 := e2 c
       have a7 := q2 c; have er := hrch c; have efr := hfr c
       simp [upd_apply, startExec_calls, startExec_loop, Cause, Loop.isStopped, State.closed] at a1 a2 a3 a4 a5 a6 a7 er efr hlt ⊢ <;> grind [Loop.isStopped, State.closed])
    | (simpa [hasReplyErr] using q1)
    | (intro _; exact ⟨_, q2 _ (‹_ < s.n ∧ _›).1 (‹_ < s.n ∧ _›).2⟩)
    | skip


theorem vinv_step (cfg : Cfg) (s s' : State o) (l : Label) (hw : WF s) (hv : VInv cfg s)
    (h : step cfg s l = some s') : VInv cfg s' := by
  cases l with
  | issue cl m a => exact vinv_step_issue cfg s s' _ hw hv trivial h
  | abandon c => exact vinv_step_abandon cfg s s' _ hw hv trivial h
  | abandonEarly c => exact vinv_step_abandonEarly cfg s s' _ hw hv trivial h
  | connLoss => exact vinv_step_connLoss cfg s s' _ hw hv trivial h
  | dropClients => exact vinv_step_dropClients cfg s s' _ hw hv trivial h
  | enqueue c => exact vinv_step_enqueue cfg s s' _ hw hv trivial h
  | sendFail c => exact vinv_step_sendFail cfg s s' _ hw hv trivial h
  | closeSeen c => exact vinv_step_closeSeen cfg s s' _ hw hv trivial h
  | recvReply c => exact vinv_step_recvReply cfg s s' _ hw hv trivial h
  | dequeue => exact vinv_step_dequeue cfg s s' _ hw hv trivial h
  | acquire => exact vinv_step_acquire cfg s s' _ hw hv trivial h
  | execStep c => exact vinv_step_execStep cfg s s' _ hw hv trivial h
  | execCancel c => exact vinv_step_execCancel cfg s s' _ hw hv trivial h
  | deliver c => exact vinv_step_deliver cfg s s' _ hw hv trivial h
  | report c => exact vinv_step_report cfg s s' _ hw hv trivial h
  | serveErr => exact vinv_step_serveErr cfg s s' _ hw hv trivial h
  | purge c => exact vinv_step_purge cfg s s' _ hw hv trivial h
  | serveEnd => exact vinv_step_serveEnd cfg s s' _ hw hv trivial h

/-! ### why `serve` stops -/

def StopCause (cfg : Cfg) (s : State o) : Stop → Prop
  | .replyErr => cfg.variant = .pinned ∧ hasReplyErr s.tr
  | .recvFail => cfg.failPolicy = true ∧ ∃ c, c < s.n ∧ o.known (s.calls c).m = false ∧ Ev.discard c ∈ s.tr
  | .valueTaken => ∃ c, c < s.n ∧ o.kind (s.calls c).m = .val ∧ ∃ e, e ∈ s.tr ∧ isEnd c e = true
  | .clientsGone => s.clientsGone = true ∨ allDead cfg s = true

theorem step_mono (cfg : Cfg) (s s' : State o) (l : Label) (h : step cfg s l = some s') :
    (s.clientsGone = true → s'.clientsGone = true) ∧ (s.connUp = false → s'.connUp = false)
      ∧ (∀ i, s.poisoned i = true → s'.poisoned i = true) := by
  cases l <;> step_inv h
  all_goals first
    | (simp; done)
    | (refine ⟨by simp, by simp, ?_⟩; intro i hi; simp [upd_apply]; split <;> simp_all)
    | (refine ⟨by simp, by simp, ?_⟩; intro i hi; simp [upd_apply]; (repeat' split) <;> simp_all)

theorem allDead_mono (cfg : Cfg) (s s' : State o) (hconn : s.connUp = false → s'.connUp = false)
    (hpo : ∀ i, s.poisoned i = true → s'.poisoned i = true) (h : allDead cfg s = true) : allDead cfg s' = true := by
  simp only [allDead, List.all_eq_true, List.mem_range, dead, Bool.and_eq_true, Bool.or_eq_true,
    Bool.not_eq_true'] at h ⊢
  intro i hi
  obtain ⟨h1, h2⟩ := h i hi
  refine ⟨h1, ?_⟩
  rcases h2 with h2 | h2
  · exact Or.inl (hconn h2)
  · exact Or.inr (hpo i h2)

theorem stopcause_mono (cfg : Cfg) (s s' : State o) (l : Label) (h : step cfg s l = some s') (w : Stop)
    (hc : StopCause cfg s w) : StopCause cfg s' w := by
  have hn := step_n cfg s s' l h
  have hst := step_static cfg s s' l h
  have htr := step_tr cfg s s' l h
  obtain ⟨m1, m2, m3⟩ := step_mono cfg s s' l h
  cases w with
  | replyErr =>
    obtain ⟨h1, c, h2⟩ := hc
    exact ⟨h1, c, htr.subset h2⟩
  | recvFail =>
    obtain ⟨h1, c, h2, h3, h4⟩ := hc
    refine ⟨h1, c, by omega, ?_, htr.subset h4⟩
    rw [(static_fields (hst c h2)).2.1]; exact h3
  | valueTaken =>
    obtain ⟨c, h2, h3, e, h4, h5⟩ := hc
    refine ⟨c, by omega, ?_, e, htr.subset h4, h5⟩
    rw [(static_fields (hst c h2)).2.1]; exact h3
  | clientsGone =>
    rcases hc with hc | hc
    · exact Or.inl (m1 hc)
    · exact Or.inr (allDead_mono cfg s s' m2 m3 hc)


theorem stop_step (cfg : Cfg) (s s' : State o) (l : Label) (hw : WF s) (hv : VInv cfg s)
    (hI : ∀ w, s.loop = .stopped w → StopCause cfg s w) (h : step cfg s l = some s') :
    ∀ w, s'.loop = .stopped w → StopCause cfg s' w := by
  intro w hw'
  by_cases hold : s.loop = .stopped w
  · exact stopcause_mono cfg s s' l h w (hI w hold)
  · cases l with
    | serveErr =>
      step_inv h
      rename_i hg
      simp at hw'; subst hw'
      exact ⟨hg.2.2, hv.q1 hg.2.1⟩
    | serveEnd =>
      step_inv h
      rename_i hg
      simp at hw'; subst hw'
      rcases hg.2.1 with h1 | h1
      · exact Or.inl h1
      · exact Or.inr h1
    | execCancel c =>
      step_inv h
      rename_i hg
      rcases endExec_loop_stopped _ _ _ hw' with h1 | ⟨_, h1, h2⟩
      · exact absurd h1 hold
      · subst h2
        refine ⟨c, hg.1, ?_, _, List.mem_append_right _ (List.mem_singleton.2 rfl), ?_⟩
        · simpa using h1
        · simp [isEnd]
    | execStep c =>
      revert hw'
      step_inv h
      · intro hw'; simp at hw'; exact absurd hw' hold
      all_goals
        rename_i hg _ _
        intro hw'
        rcases endExec_loop_stopped _ _ _ hw' with h1 | ⟨_, h1, h2⟩
        · exact absurd h1 hold
        · subst h2
          refine ⟨c, hg.1, ?_, _, List.mem_append_right _ (List.mem_singleton.2 rfl), ?_⟩
          · simpa using h1
          · simp [isEnd]
    | dequeue =>
      revert hw'
      step_inv h
      all_goals first
        | (intro hw'; simp at hw'; done)
        | (intro hw'; exact absurd hw' (startExec_loop_ne_stopped _ _ _ _))
        | (intro hw'; simp at hw'; exact absurd hw' hold)
        | skip
      · rename_i hg hk hf
        intro hw'
        simp [hf] at hw'; subst hw'
        refine ⟨hf, _, hg.1, ?_, ?_⟩
        · simpa using hk
        · simp
    | _ =>
      revert hw'
      step_inv h
      all_goals first
        | (intro hw'; simp at hw'; done)
        | (intro hw'; exact absurd hw' (startExec_loop_ne_stopped _ _ _ _))
        | (intro hw'; simp at hw'; exact absurd hw' hold)

/-- the complete invariant, including failure causes and stop causes -/
structure FullInv (cfg : Cfg) (s : State o) : Prop where
  base : Inv cfg s
  v : VInv cfg s
  stop : ∀ w, s.loop = .stopped w → StopCause cfg s w

theorem fullinv_of_reachable (cfg : Cfg) (s : State o) (h : Reachable cfg s) : FullInv cfg s :=
  reachable_induction cfg (FullInv cfg)
    ⟨⟨wf_init, sinv_init cfg, cinv_init, rinv_init⟩, vinv_init cfg, fun w hw => by simp [init] at hw⟩
    (fun s l s' hi hs => ⟨inv_step cfg s s' l hi.base hs, vinv_step cfg s s' l hi.base.wf hi.v hs,
      stop_step cfg s s' l hi.base.wf hi.v hi.stop hs⟩) s h

/-! ### enabledness of internal labels -/

theorem execStep_enabled (cfg : Cfg) (s : State o) (c : Nat) (hlt : c < s.n) (he : (s.calls c).stage = .executing)
    (hn : ¬ (o.cancellable (s.calls c).m = true ∧ s.closed c = true)) : step cfg s (.execStep c) ≠ none := by
  simp only [step]
  rw [if_pos ⟨hlt, he, hn⟩]
  split <;> simp

theorem execCancel_enabled (cfg : Cfg) (s : State o) (c : Nat) (hlt : c < s.n) (he : (s.calls c).stage = .executing)
    (hn : o.cancellable (s.calls c).m = true ∧ s.closed c = true) : step cfg s (.execCancel c) ≠ none := by
  simp only [step]
  rw [if_pos ⟨hlt, he, hn.1, hn.2⟩]
  simp

theorem acquire_enabled (cfg : Cfg) (s : State o) (c : Nat) (hl : s.loop = .acquiring c) (hlt : c < s.n)
    (hw : s.writer = none) (hr : s.readers = []) : step cfg s .acquire ≠ none := by
  simp only [step, hl]
  split
  · rw [if_pos ⟨hlt, hw⟩]; simp
  · rw [if_pos ⟨hlt, hw, hr⟩]; simp

theorem dequeue_enabled (cfg : Cfg) (s : State o) (c : Nat) (q : List Nat) (hq : s.queue = c :: q) (hlt : c < s.n)
    (hl : s.loop = .idle) (he : cfg.variant = .pinned → s.errQ = 0) : step cfg s .dequeue ≠ none := by
  simp only [step, hq]
  rw [if_pos ⟨hlt, hl, he⟩]
  (repeat' split) <;> simp

theorem serveErr_enabled (cfg : Cfg) (s : State o) (hl : s.loop = .idle) (he : 0 < s.errQ)
    (hv : cfg.variant = .pinned) : step cfg s .serveErr ≠ none := by
  simp only [step]
  rw [if_pos ⟨hl, he, hv⟩]; simp

theorem send_enabled (cfg : Cfg) (s : State o) (c : Nat) (hlt : c < s.n) (hs : (s.calls c).stage = .sending)
    (hq : s.queue.length < cfg.cap) :
    step cfg s (.enqueue c) ≠ none ∨ step cfg s (.sendFail c) ≠ none := by
  by_cases hg : s.loop.isStopped = false
      ∧ (cfg.remote (s.calls c).client = true → (s.calls c).lost = false
          ∧ o.reqFits (s.calls c).client (s.calls c).m (s.calls c).a = true)
  · left
    simp only [step]
    rw [if_pos ⟨hlt, hs, hq, hg.1, hg.2⟩]; simp
  · right
    simp only [step]
    rw [if_pos]
    · simp
    · refine ⟨hlt, hs, ?_⟩
      by_cases hst : s.loop.isStopped = true
      · exact Or.inl hst
      · right
        simp only [Bool.not_eq_true] at hst
        simp only [hst, true_and, Classical.not_imp, not_and] at hg
        obtain ⟨hr, hg⟩ := hg
        refine ⟨hr, ?_⟩
        by_cases hlost : (s.calls c).lost = true
        · exact Or.inr (Or.inl hlost)
        · simp only [Bool.not_eq_true] at hlost
          have := hg hlost
          simp only [Bool.not_eq_true] at this
          exact Or.inr (Or.inr this)

theorem deliver_enabled (cfg : Cfg) (s : State o) (c r : Nat) (hlt : c < s.n) (hs : (s.calls c).stage = .replying r) :
    step cfg s (.deliver c) ≠ none := by
  simp only [step, hs]
  rw [if_neg (by omega)]
  (repeat' split) <;> simp

theorem report_enabled (cfg : Cfg) (s : State o) (c : Nat) (hlt : c < s.n) (hs : (s.calls c).stage = .reporting) :
    step cfg s (.report c) ≠ none := by
  simp only [step]
  rw [if_pos ⟨hlt, hs⟩]; simp

theorem recvReply_enabled (cfg : Cfg) (s : State o) (c : Nat) (hlt : c < s.n) (hw : (s.calls c).cl = .waiting)
    (h : (s.chans (s.calls c).rch).val.isSome = true ∨ (s.chans (s.calls c).rch).txGone = true
      ∨ (cfg.remote (s.calls c).client = true ∧ s.connUp = false)) : step cfg s (.recvReply c) ≠ none := by
  simp only [step]
  rw [if_pos ⟨hlt, hw⟩]
  split
  · simp
  · rename_i hv
    rw [hv] at h
    simp only [Option.isSome_none, Bool.false_eq_true, false_or] at h
    rw [if_pos h]; simp


/-- At quiescence of a serving (not stopped) server nothing is left over: the loop is in its
receive state, the queue is empty, no execution is in progress, the target lock is free and the
server side is finished with every request. -/
theorem quiescent_resolved (cfg : Cfg) (s : State o) (hi : FullInv cfg s) (hcap : 0 < cfg.cap)
    (hq : Quiescent cfg s) (hns : s.loop.isStopped = false) :
    s.loop = .idle ∧ s.queue = [] ∧ s.spawned = [] ∧ s.readers = [] ∧ s.writer = none
      ∧ ∀ c, c < s.n → (s.calls c).stage = .done := by
  have hw := hi.base.wf
  have hs := hi.base.st
  -- no execution is in progress
  have hnoexec : ∀ c, (s.calls c).stage ≠ .executing := by
    intro c he
    have hlt : c < s.n := hw.lt_of_stage (by rw [he]; simp)
    by_cases hn : o.cancellable (s.calls c).m = true ∧ s.closed c = true
    · exact execCancel_enabled cfg s c hlt he hn (hq (.execCancel c) rfl)
    · exact execStep_enabled cfg s c hlt he hn (hq (.execStep c) rfl)
  have hsp : s.spawned = [] := by
    cases hsp : s.spawned with
    | nil => rfl
    | cons c t =>
      exfalso
      exact hnoexec c ((hs.exec c).2 (Or.inr (by rw [hsp]; simp)))
  have hrd : s.readers = [] := by
    cases hrd : s.readers with
    | nil => rfl
    | cons c t =>
      exfalso
      exact hnoexec c ((hs.rd c).1 (by rw [hrd]; simp)).2.1
  have hwr : s.writer = none := by
    cases hwr : s.writer with
    | none => rfl
    | some c =>
      exfalso
      exact hnoexec c ((hs.wr c).1 hwr).2.1
  have hloop : s.loop = .idle := by
    cases hl : s.loop with
    | idle => rfl
    | acquiring c =>
      exfalso
      exact acquire_enabled cfg s c hl (hw.llt c (Or.inl hl)) hwr hrd (hq .acquire rfl)
    | running c =>
      exfalso
      exact hnoexec c ((hs.exec c).2 (Or.inl hl))
    | stopped w => rw [hl] at hns; simp [Loop.isStopped] at hns
  have herr : cfg.variant = .pinned → s.errQ = 0 := by
    intro hv
    refine Decidable.byContradiction (fun he => ?_)
    exact serveErr_enabled cfg s hloop (by omega) hv (hq .serveErr rfl)
  have hqueue : s.queue = [] := by
    cases hqq : s.queue with
    | nil => rfl
    | cons c t =>
      exfalso
      exact dequeue_enabled cfg s c t hqq (hw.qlt c (by rw [hqq]; simp)) hloop herr (hq .dequeue rfl)
  refine ⟨hloop, hqueue, hsp, hrd, hwr, ?_⟩
  intro c hlt
  cases hst : (s.calls c).stage with
  | done => rfl
  | sending =>
    exfalso
    rcases send_enabled cfg s c hlt hst (by rw [hqueue]; simpa using hcap) with h | h
    · exact h (hq (.enqueue c) rfl)
    · exact h (hq (.sendFail c) rfl)
  | queued =>
    exfalso
    have := (hs.qmem c).2 hst
    rw [hqueue] at this; simp at this
  | acquiring =>
    exfalso
    have := (hs.acq c).2 hst
    rw [hloop] at this; simp at this
  | executing => exact absurd hst (hnoexec c)
  | replying r => exfalso; exact deliver_enabled cfg s c r hlt hst (hq (.deliver c) rfl)
  | reporting => exfalso; exact report_enabled cfg s c hlt hst (hq (.report c) rfl)

/-- … and no caller is left waiting. -/
theorem quiescent_no_waiting (cfg : Cfg) (s : State o) (hi : FullInv cfg s) (hcap : 0 < cfg.cap)
    (hq : Quiescent cfg s) (hns : s.loop.isStopped = false) :
    ∀ c, (s.calls c).cl ≠ .waiting := by
  intro c hwait
  have hw := hi.base.wf
  have hlt : c < s.n := hw.lt_of_waiting hwait
  have hdone := (quiescent_resolved cfg s hi hcap hq hns).2.2.2.2.2 c hlt
  have hr := hw.rch c hlt
  apply recvReply_enabled cfg s c hlt hwait _ (hq (.recvReply c) rfl)
  rw [hr]
  rcases hi.v.d1 c hlt hdone with h | h | h
  · exact Or.inl h
  · exact Or.inr (Or.inl h)
  · rcases hi.v.d3 c hlt h with h' | h'
    · have := (hi.v.d4 c hlt).1 h'
      rw [hwait] at this; cases this
    · exact Or.inr (Or.inr h')


/-- once the reply sender of an issued call observes `closed()`, it stays so -/
theorem closed_step (cfg : Cfg) (s s' : State o) (l : Label) (hw : WF s) (h : step cfg s l = some s')
    (c : Nat) (hlt : c < s.n) (hc : s.closed c = true) : s'.closed c = true := by
  have hrch := hw.rch
  have hnch := hw.nch
  have er := hrch c hlt
  revert hc
  cases l <;> step_inv h
  all_goals first
    | (intro hc; exact hc)
    | (intro hc; simp [State.closed, upd_apply, startExec_calls] at hc er ⊢ <;> grind)

/-- … and a cancellable execution of that call takes no further method step -/
theorem frozen_step (cfg : Cfg) (s s' : State o) (l : Label) (hw : WF s) (h : step cfg s l = some s')
    (c : Nat) (hlt : c < s.n) (hc : s.closed c = true) (hcan : o.cancellable (s.calls c).m = true) :
    (∀ k, segCount c k s'.tr = segCount c k s.tr) ∧ (s'.calls c).pc = (s.calls c).pc := by
  cases l <;> step_inv h
  all_goals first
    | (simp; done)
    | (simp [upd_apply, startExec_calls, isSeg]; done)
    | (simp [upd_apply, startExec_calls, isSeg] <;> grind)

end Remoc.Rtc
