import RemocModel.Rtc.Trace
set_option linter.unusedSimpArgs false
set_option linter.unusedVariables false

/-!
# M_rtc: linearizability — the executions, taken at their end (finish or cancel), form a legal
sequential history of the served object
-/

namespace Remoc.Rtc

variable {o : Obj}

/-- one entry of the sequential witness: request `c` ran the first `k` segments of `m a`; a
finished execution also has its result -/
structure LinEntry where
  c : Nat
  m : Nat
  a : Nat
  k : Nat
  res : Option Nat
  deriving DecidableEq, Repr

/-- the sequential witness: executions in the order of their end events -/
def linOf (o : Obj) : List Ev → List LinEntry
  | [] => []
  | .fin c m a r :: rest => ⟨c, m, a, o.nseg m a + 1, some r⟩ :: linOf o rest
  | .cancel c m a k :: rest => ⟨c, m, a, k, none⟩ :: linOf o rest
  | _ :: rest => linOf o rest

/-- effect of an entry on the object when run on its own -/
def effect (o : Obj) (e : LinEntry) (σ : o.σ) : o.σ := (runSegs o e.m e.a e.k (o.init e.m e.a, σ)).2

def specState (o : Obj) (lin : List LinEntry) (σ0 : o.σ) : o.σ := lin.foldl (fun σ e => effect o e σ) σ0

/-- a finished entry ran the whole method and carries the result the sequential object gives in
the state it is applied to -/
def entryOk (o : Obj) (e : LinEntry) (σ : o.σ) : Prop :=
  ∀ r, e.res = some r → e.k = o.nseg e.m e.a + 1 ∧ (o.call e.m e.a σ).2 = r

/-- `lin` is a sequential execution of the object starting in `σ` -/
def Legal (o : Obj) : List LinEntry → o.σ → Prop
  | [], _ => True
  | e :: rest, σ => entryOk o e σ ∧ Legal o rest (effect o e σ)

theorem specState_append (lin : List LinEntry) (e : LinEntry) (σ0 : o.σ) :
    specState o (lin ++ [e]) σ0 = effect o e (specState o lin σ0) := by
  simp [specState, List.foldl_append]

theorem legal_append (lin : List LinEntry) (e : LinEntry) (σ0 : o.σ) :
    Legal o (lin ++ [e]) σ0 ↔ Legal o lin σ0 ∧ entryOk o e (specState o lin σ0) := by
  induction lin generalizing σ0 with
  | nil => simp [Legal, specState]
  | cons x xs ih =>
    simp only [List.cons_append, Legal, ih, specState, List.foldl_cons]
    constructor
    · rintro ⟨h1, h2, h3⟩; exact ⟨⟨h1, h2⟩, h3⟩
    · rintro ⟨⟨h1, h2⟩, h3⟩; exact ⟨h1, h2, h3⟩

theorem linOf_append (l1 l2 : List Ev) : linOf o (l1 ++ l2) = linOf o l1 ++ linOf o l2 := by
  induction l1 with
  | nil => rfl
  | cons e l ih => cases e <;> simp [linOf, ih]

theorem runSegs_succ (m a k : Nat) (x : o.Loc × o.σ) : runSegs o m a (k + 1) x = o.seg m a k (runSegs o m a k x) := rfl

theorem runSegs_ro (hro : o.ReadOnly) (m a k : Nat) (x : o.Loc × o.σ) (hk : o.kind m = .ref) :
    (runSegs o m a k x).2 = x.2 := by
  induction k with
  | zero => rfl
  | succ k ih => rw [runSegs_succ, hro m a k _ hk, ih]

theorem effect_ro (hro : o.ReadOnly) (e : LinEntry) (σ : o.σ) (hk : o.kind e.m = .ref) : effect o e σ = σ :=
  runSegs_ro hro e.m e.a e.k _ hk

/-- the first component of a `&self` run depends only on the (unchanged) object state -/
theorem runSegs_ro_pair (hro : o.ReadOnly) (m a k : Nat) (x : o.Loc × o.σ) (hk : o.kind m = .ref) :
    runSegs o m a k x = ((runSegs o m a k x).1, x.2) := by
  have := runSegs_ro hro m a k x hk
  exact Prod.ext rfl this

structure LInv (s : State o) : Prop where
  loc0 : ∀ c, ((s.calls c).stage = .sending ∨ (s.calls c).stage = .queued ∨ (s.calls c).stage = .acquiring) →
    (s.calls c).loc = o.init (s.calls c).m (s.calls c).a
  legal : Legal o (linOf o s.tr) o.σ0
  idle : (∀ c, (s.calls c).stage = .executing → o.kind (s.calls c).m = .ref) → s.σ = specState o (linOf o s.tr) o.σ0
  wr : ∀ c, (s.calls c).stage = .executing → o.kind (s.calls c).m ≠ .ref →
    ((s.calls c).loc, s.σ) = runSegs o (s.calls c).m (s.calls c).a (s.calls c).pc
      (o.init (s.calls c).m (s.calls c).a, specState o (linOf o s.tr) o.σ0)
  rd : ∀ c, (s.calls c).stage = .executing → o.kind (s.calls c).m = .ref →
    (s.calls c).loc = (runSegs o (s.calls c).m (s.calls c).a (s.calls c).pc
      (o.init (s.calls c).m (s.calls c).a, s.σ)).1

theorem linv_init : LInv (init o) := by
  refine ⟨?_, ?_, ?_, ?_, ?_⟩ <;> simp [init, noCall, linOf, Legal, specState]


def Excl (s : State o) : Prop :=
  ∀ c c', (s.calls c).stage = .executing → (s.calls c').stage = .executing → o.kind (s.calls c).m ≠ .ref → c' = c

/-- nothing relevant for the sequential witness changes -/
theorem linv_passive (s s' : State o) (hl : LInv s) (hσ : s'.σ = s.σ) (htr : linOf o s'.tr = linOf o s.tr)
    (hex : ∀ c, (s'.calls c).stage = .executing →
      (s.calls c).stage = .executing ∧ (s'.calls c).m = (s.calls c).m ∧ (s'.calls c).a = (s.calls c).a
        ∧ (s'.calls c).pc = (s.calls c).pc ∧ (s'.calls c).loc = (s.calls c).loc)
    (hex' : ∀ c, (s.calls c).stage = .executing → (s'.calls c).stage = .executing)
    (hpre : ∀ c, ((s'.calls c).stage = .sending ∨ (s'.calls c).stage = .queued ∨ (s'.calls c).stage = .acquiring) →
      (s'.calls c).loc = o.init (s'.calls c).m (s'.calls c).a
      ∨ (((s.calls c).stage = .sending ∨ (s.calls c).stage = .queued ∨ (s.calls c).stage = .acquiring)
          ∧ (s'.calls c).m = (s.calls c).m ∧ (s'.calls c).a = (s.calls c).a ∧ (s'.calls c).loc = (s.calls c).loc)) :
    LInv s' := by
  obtain ⟨l0, l1, l2, l3, l4⟩ := hl
  refine ⟨?_, ?_, ?_, ?_, ?_⟩
  · intro c hc
    rcases hpre c hc with h | ⟨h1, h2, h3, h4⟩
    · exact h
    · rw [h2, h3, h4]; exact l0 c h1
  · rw [htr]; exact l1
  · intro hall
    rw [hσ, htr]
    apply l2
    intro c hc
    have := hex c (hex' c hc)
    rw [← this.2.1]; exact hall c (hex' c hc)
  · intro c hc hk
    obtain ⟨e1, e2, e3, e4, e5⟩ := hex c hc
    rw [e2] at hk
    rw [e2, e3, e4, e5, hσ, htr]; exact l3 c e1 hk
  · intro c hc hk
    obtain ⟨e1, e2, e3, e4, e5⟩ := hex c hc
    rw [e2] at hk
    rw [e2, e3, e4, e5, hσ]; exact l4 c e1 hk

/-- a request starts executing -/
theorem linv_start (s s' : State o) (c0 : Nat) (hl : LInv s) (hx : Excl s')
    (hσ : s'.σ = s.σ) (htr : linOf o s'.tr = linOf o s.tr)
    (hp : (s.calls c0).stage = .sending ∨ (s.calls c0).stage = .queued ∨ (s.calls c0).stage = .acquiring)
    (hpc : (s.calls c0).pc = 0)
    (h0 : s'.calls c0 = { s.calls c0 with stage := .executing })
    (hoth : ∀ c, c ≠ c0 → s'.calls c = s.calls c) : LInv s' := by
  obtain ⟨l0, l1, l2, l3, l4⟩ := hl
  have hc0 : (s'.calls c0).stage = .executing := by rw [h0]
  refine ⟨?_, ?_, ?_, ?_, ?_⟩
  · intro c hc
    by_cases hcc : c = c0
    · subst hcc; rw [hc0] at hc; simp at hc
    · rw [hoth c hcc] at hc ⊢; exact l0 c hc
  · rw [htr]; exact l1
  · intro hall
    rw [hσ, htr]
    apply l2
    intro c hc
    have hcc : c ≠ c0 := by
      intro h; subst h
      rcases hp with h | h | h <;> rw [h] at hc <;> cases hc
    have := hall c (by rw [hoth c hcc]; exact hc)
    rw [hoth c hcc] at this; exact this
  · intro c hc hk
    have hcc : c0 = c := hx c c0 hc hc0 hk
    subst hcc
    have hnone : ∀ c, (s.calls c).stage = .executing → o.kind (s.calls c).m = .ref := by
      intro c hc'
      have hne : c ≠ c0 := by
        intro h; subst h
        rcases hp with h | h | h <;> rw [h] at hc' <;> cases hc'
      have h1 : (s'.calls c).stage = .executing := by rw [hoth c hne]; exact hc'
      have := hx c0 c hc0 h1 hk
      exact absurd this hne
    have hs := l2 hnone
    have hloc := l0 c0 hp
    rw [h0]
    simp only []
    rw [hpc, hσ, htr, ← hs, hloc]
    rfl
  · intro c hc hk
    by_cases hcc : c = c0
    · subst hcc
      have hloc := l0 c hp
      rw [h0]; simp only []
      rw [hpc, hloc]; rfl
    · rw [hoth c hcc] at hc hk ⊢
      rw [hσ]; exact l4 c hc hk


/-- one method segment of request `c0` runs -/
theorem linv_seg (hro : o.ReadOnly) (s s' : State o) (c0 : Nat) (hl : LInv s) (hx : Excl s)
    (he : (s.calls c0).stage = .executing)
    (h0 : s'.calls c0 = { s.calls c0 with
            pc := (s.calls c0).pc + 1
            loc := (o.seg (s.calls c0).m (s.calls c0).a (s.calls c0).pc ((s.calls c0).loc, s.σ)).1 })
    (hσ : s'.σ = (o.seg (s.calls c0).m (s.calls c0).a (s.calls c0).pc ((s.calls c0).loc, s.σ)).2)
    (htr : linOf o s'.tr = linOf o s.tr)
    (hoth : ∀ c, c ≠ c0 → s'.calls c = s.calls c) : LInv s' := by
  obtain ⟨l0, l1, l2, l3, l4⟩ := hl
  have hst0 : (s'.calls c0).stage = .executing := by rw [h0]; exact he
  have hm0 : (s'.calls c0).m = (s.calls c0).m := by rw [h0]
  have ha0 : (s'.calls c0).a = (s.calls c0).a := by rw [h0]
  have hpc0 : (s'.calls c0).pc = (s.calls c0).pc + 1 := by rw [h0]
  have hloc0 : (s'.calls c0).loc = (o.seg (s.calls c0).m (s.calls c0).a (s.calls c0).pc ((s.calls c0).loc, s.σ)).1 := by
    rw [h0]
  by_cases hk0 : o.kind (s.calls c0).m = .ref
  · -- a `&self` segment: the object is unchanged
    have hσ' : s'.σ = s.σ := by rw [hσ]; exact hro _ _ _ _ hk0
    have hpair : runSegs o (s.calls c0).m (s.calls c0).a (s.calls c0).pc (o.init (s.calls c0).m (s.calls c0).a, s.σ)
        = ((s.calls c0).loc, s.σ) := by
      rw [runSegs_ro_pair hro _ _ _ _ hk0, ← l4 c0 he hk0]
    refine ⟨?_, ?_, ?_, ?_, ?_⟩
    · intro c hc
      by_cases hcc : c = c0
      · subst hcc; rw [hst0] at hc; simp at hc
      · rw [hoth c hcc] at hc ⊢; exact l0 c hc
    · rw [htr]; exact l1
    · intro hall
      rw [hσ', htr]
      apply l2
      intro c hc
      by_cases hcc : c = c0
      · subst hcc; exact hk0
      · have := hall c (by rw [hoth c hcc]; exact hc)
        rw [hoth c hcc] at this; exact this
    · intro c hc hk
      exfalso
      by_cases hcc : c = c0
      · subst hcc; rw [hm0] at hk; exact hk hk0
      · rw [hoth c hcc] at hc hk
        have := hx c c0 hc he hk
        exact hcc this.symm
    · intro c hc hk
      by_cases hcc : c = c0
      · subst hcc
        rw [hloc0, hm0, ha0, hpc0, hσ', runSegs_succ, hpair]
      · rw [hoth c hcc] at hc hk ⊢
        rw [hσ']; exact l4 c hc hk
  · -- a `&mut self` / `self` segment: nobody else is executing
    have hpair := l3 c0 he hk0
    refine ⟨?_, ?_, ?_, ?_, ?_⟩
    · intro c hc
      by_cases hcc : c = c0
      · subst hcc; rw [hst0] at hc; simp at hc
      · rw [hoth c hcc] at hc ⊢; exact l0 c hc
    · rw [htr]; exact l1
    · intro hall
      exfalso
      have := hall c0 hst0
      rw [hm0] at this; exact hk0 this
    · intro c hc hk
      have hcc : c = c0 := by
        refine Decidable.byContradiction (fun hne => ?_)
        rw [hoth c hne] at hc
        exact hne (hx c0 c he hc hk0)
      subst hcc
      rw [hloc0, hσ, hm0, ha0, hpc0, htr, runSegs_succ, ← hpair]
    · intro c hc hk
      exfalso
      by_cases hcc : c = c0
      · subst hcc; rw [hm0] at hk; exact hk0 hk
      · rw [hoth c hcc] at hc
        exact hcc (hx c0 c he hc hk0)


/-- while request `c0` executes, its local state and the object are what the first `pc` segments
of the sequential method produce from the state after the executions that have ended -/
theorem linv_exec_state (hro : o.ReadOnly) (s : State o) (c0 : Nat) (hl : LInv s) (hx : Excl s)
    (he : (s.calls c0).stage = .executing) :
    runSegs o (s.calls c0).m (s.calls c0).a (s.calls c0).pc
      (o.init (s.calls c0).m (s.calls c0).a, specState o (linOf o s.tr) o.σ0) = ((s.calls c0).loc, s.σ) := by
  by_cases hk0 : o.kind (s.calls c0).m = .ref
  · have hall : ∀ c, (s.calls c).stage = .executing → o.kind (s.calls c).m = .ref := by
      intro c hc
      refine Decidable.byContradiction (fun hk => ?_)
      have := hx c c0 hc he hk
      subst this; exact hk hk0
    rw [← hl.idle hall, runSegs_ro_pair hro _ _ _ _ hk0, ← hl.rd c0 he hk0]
  · exact (hl.wr c0 he hk0).symm

/-- the execution of request `c0` ends after `k` segments (finished with a result, or cancelled) -/
theorem linv_end (hro : o.ReadOnly) (s s' : State o) (c0 : Nat) (hl : LInv s) (hx : Excl s)
    (he : (s.calls c0).stage = .executing) (k : Nat) (res : Option Nat) (loc' : o.Loc)
    (hst : (s'.calls c0).stage = .done ∨ ∃ r, (s'.calls c0).stage = .replying r)
    (hk : runSegs o (s.calls c0).m (s.calls c0).a k
      (o.init (s.calls c0).m (s.calls c0).a, specState o (linOf o s.tr) o.σ0) = (loc', s'.σ))
    (hres : ∀ r, res = some r → k = o.nseg (s.calls c0).m (s.calls c0).a + 1 ∧ r = o.ret (s.calls c0).m (s.calls c0).a loc')
    (hσro : o.kind (s.calls c0).m = .ref → s'.σ = s.σ)
    (htr : linOf o s'.tr = linOf o s.tr ++ [⟨c0, (s.calls c0).m, (s.calls c0).a, k, res⟩])
    (hoth : ∀ c, c ≠ c0 → s'.calls c = s.calls c) : LInv s' := by
  obtain ⟨l0, l1, l2, l3, l4⟩ := hl
  have hne : (s'.calls c0).stage ≠ .executing := by
    rcases hst with h | ⟨r, h⟩ <;> rw [h] <;> simp
  refine ⟨?_, ?_, ?_, ?_, ?_⟩
  · intro c hc
    by_cases hcc : c = c0
    · subst hcc
      rcases hst with h | ⟨r, h⟩ <;> rw [h] at hc <;> simp at hc
    · rw [hoth c hcc] at hc ⊢; exact l0 c hc
  · rw [htr, legal_append]
    refine ⟨l1, ?_⟩
    intro r hr
    obtain ⟨e1, e2⟩ := hres r hr
    refine ⟨e1, ?_⟩
    simp only [Obj.call]
    rw [← e1, hk, e2]
  · intro _
    rw [htr, specState_append]
    simp only [effect]
    rw [hk]
  · intro c hc hk'
    exfalso
    by_cases hcc : c = c0
    · subst hcc; exact hne hc
    · rw [hoth c hcc] at hc hk'
      exact hcc (hx c c0 hc he hk').symm
  · intro c hc hk'
    by_cases hcc : c = c0
    · subst hcc; exact absurd hc hne
    · rw [hoth c hcc] at hc hk' ⊢
      have hk0 : o.kind (s.calls c0).m = .ref := by
        refine Decidable.byContradiction (fun hk0 => ?_)
        exact hcc (hx c0 c he hc hk0)
      rw [hσro hk0]; exact l4 c hc hk'


theorem linv_step_passive (cfg : Cfg) (s s' : State o) (l : Label) (hw : WF s) (hl : LInv s)
    (hlab : match l with
      | .execStep _ | .execCancel _ | .acquire | .dequeue => False
      | _ => True)
    (h : step cfg s l = some s') : LInv s' := by
  have hfr := hw.fresh
  cases l <;> simp only at hlab <;> step_inv h
  all_goals (refine linv_passive _ _ hl ?_ ?_ ?_ ?_ ?_)
  all_goals first
    | rfl
    | (simp [linOf_append, linOf]; done)
    | (intro c hc; have efr := hfr c; simp [upd_apply] at hc efr ⊢; grind)
    | skip

theorem linv_step_start (cfg : Cfg) (s s' : State o) (l : Label) (hw : WF s) (hs : SInv cfg s) (hc : CInv s)
    (hl : LInv s) (hx' : Excl s')
    (hlab : match l with
      | .acquire | .dequeue => True
      | _ => False)
    (h : step cfg s l = some s') : LInv s' := by
  have hfr := hw.fresh
  have hq := hs.qmem
  have ha := hs.acq
  have hp0 := hc.pc0
  cases l <;> simp only at hlab <;> step_inv h
  all_goals first
    | (refine linv_passive _ _ hl ?_ ?_ ?_ ?_ ?_ <;> first
        | rfl
        | (simp [linOf_append, linOf]; done)
        | (intro c hc; have efr := hfr c; simp [upd_apply] at hc efr ⊢; grind))
    | (refine linv_start _ _ _ hl hx' ?_ ?_ ?_ ?_ (startExec_calls_self _ _ _) (fun c hc => startExec_calls_other _ _ _ _ hc) <;> first
        | rfl
        | (simp [linOf_append, linOf]; done)
        | grind)
    | skip

theorem linv_step_execStep (hro : o.ReadOnly) (cfg : Cfg) (s s' : State o) (c : Nat) (hc : CInv s)
    (hl : LInv s) (hx : Excl s) (h : step cfg s (.execStep c) = some s') : LInv s' := by
  simp only [step] at h
  split at h
  · rename_i hg
    obtain ⟨hlt, he, hnc⟩ := hg
    have hes := linv_exec_state hro s c hl hx he
    split at h
    · -- not the last segment
      replace h := Option.some.inj h; subst h
      refine linv_seg hro _ _ c hl hx he ?_ rfl ?_ ?_
      · simp
      · simp [linOf_append, linOf]
      · intro c' hc'; simp [upd_other _ _ _ _ hc']
    · rename_i hpc
      have hpceq : (s.calls c).pc = o.nseg (s.calls c).m (s.calls c).a := by
        have := (hc.exe c he).2.2.1; omega
      replace h := Option.some.inj h; subst h
      refine linv_end hro _ _ c hl hx he (o.nseg (s.calls c).m (s.calls c).a + 1)
        (some (o.ret (s.calls c).m (s.calls c).a
          (o.seg (s.calls c).m (s.calls c).a (s.calls c).pc ((s.calls c).loc, s.σ)).1))
        (o.seg (s.calls c).m (s.calls c).a (s.calls c).pc ((s.calls c).loc, s.σ)).1 ?_ ?_ ?_ ?_ ?_ ?_
      · by_cases hcl : s.closed c = true <;> simp [hcl]
      · rw [← hpceq, runSegs_succ, hes]; rfl
      · intro r hr; simp at hr; exact ⟨rfl, hr.symm⟩
      · intro hk; exact hro _ _ _ _ hk
      · simp [linOf_append, linOf]
      · intro c' hc'; simp [upd_other _ _ _ _ hc']
  · simp at h

theorem linv_step_execCancel (hro : o.ReadOnly) (cfg : Cfg) (s s' : State o) (c : Nat)
    (hl : LInv s) (hx : Excl s) (h : step cfg s (.execCancel c) = some s') : LInv s' := by
  simp only [step] at h
  split at h
  · rename_i hg
    obtain ⟨hlt, he, hcan, hcl⟩ := hg
    have hes := linv_exec_state hro s c hl hx he
    replace h := Option.some.inj h; subst h
    refine linv_end hro _ _ c hl hx he (s.calls c).pc none (s.calls c).loc ?_ ?_ ?_ ?_ ?_ ?_
    · simp
    · exact hes
    · intro r hr; cases hr
    · intro _; rfl
    · simp [linOf_append, linOf]
    · intro c' hc'; simp [setStage, upd_other _ _ _ _ hc']
  · simp at h

theorem excl_of_sinv {cfg : Cfg} {s : State o} (hs : SInv cfg s) : Excl s := hs.excl

theorem linv_step (hro : o.ReadOnly) (cfg : Cfg) (s s' : State o) (l : Label) (hi : Inv cfg s) (hi' : Inv cfg s')
    (hl : LInv s) (h : step cfg s l = some s') : LInv s' := by
  cases l with
  | execStep c => exact linv_step_execStep hro cfg s s' c hi.cn hl hi.st.excl h
  | execCancel c => exact linv_step_execCancel hro cfg s s' c hl hi.st.excl h
  | acquire => exact linv_step_start cfg s s' _ hi.wf hi.st hi.cn hl hi'.st.excl trivial h
  | dequeue => exact linv_step_start cfg s s' _ hi.wf hi.st hi.cn hl hi'.st.excl trivial h
  | _ => exact linv_step_passive cfg s s' _ hi.wf hl trivial h

theorem linv_of_reachable (hro : o.ReadOnly) (cfg : Cfg) (s : State o) (h : Reachable cfg s) : Inv cfg s ∧ LInv s :=
  reachable_induction cfg (fun s => Inv cfg s ∧ LInv s)
    ⟨⟨wf_init, sinv_init cfg, cinv_init, rinv_init⟩, linv_init⟩
    (fun s l s' hi hs => ⟨inv_step cfg s s' l hi.1 hs, linv_step hro cfg s s' l hi.1 (inv_step cfg s s' l hi.1 hs) hi.2 hs⟩) s h

end Remoc.Rtc
