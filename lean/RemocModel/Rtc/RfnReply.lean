import RemocModel.Rtc.RfnCount
set_option linter.unusedSimpArgs false
set_option linter.unusedVariables false

/-!
# M_rfn: provenance of results (a value comes from the execution of the caller's own request)
-/

namespace Remoc.Rfn

variable {f : Fun}

/-- where values come from -/
structure RV (s : State f) : Prop where
  val : ∀ c r, s.cl c = .value r → Ev.fin c (s.arg c) r ∈ s.tr ∧ Ev.resp c r ∈ s.tr
  chan : ∀ c r, c < s.n → s.chVal c = some r → Ev.fin c (s.arg c) r ∈ s.tr
  rep : ∀ c r, s.stage c = .replying r → Ev.fin c (s.arg c) r ∈ s.tr

theorem rv_init : RV (init f) := by
  constructor <;> simp [init]

macro "rv_tac" : tactic => `(tactic| (simp_all [upd_apply, endExec] <;> grind))

theorem rv_step_val (cfg : Cfg) (s s' : State f) (l : Label) (hw : WF s) (hr : RV s)
    (h : step cfg s l = some s') :
    ∀ c r, s'.cl c = .value r → Ev.fin c (s'.arg c) r ∈ s'.tr ∧ Ev.resp c r ∈ s'.tr := by
  obtain ⟨w1, w2, w3, w4, w5, w6⟩ := hw
  obtain ⟨r1, r2, r3⟩ := hr
  clear w4 w5 w6 r3
  cases l <;> rfn_step_inv h
  all_goals (intro c' r' hv; have h1 := r1 c' r'; have h2 := r2 c' r'; have h3 := w3 c'; have h4 := w2 c'
             clear r1 r2 w3 w2; rv_tac)

theorem rv_step_chan (cfg : Cfg) (s s' : State f) (l : Label) (hw : WF s) (hr : RV s)
    (h : step cfg s l = some s') :
    ∀ c r, c < s'.n → s'.chVal c = some r → Ev.fin c (s'.arg c) r ∈ s'.tr := by
  obtain ⟨w1, w2, w3, w4, w5, w6⟩ := hw
  obtain ⟨r1, r2, r3⟩ := hr
  clear w4 w5 w6 r1
  cases l <;> rfn_step_inv h
  all_goals (intro c' r' hlt hv; have h2 := r2 c' r'; have h3 := w3 c'; have h4 := w2 c'; rv_tac)

theorem rv_step_rep (cfg : Cfg) (s s' : State f) (l : Label) (hw : WF s) (hr : RV s)
    (h : step cfg s l = some s') :
    ∀ c r, s'.stage c = .replying r → Ev.fin c (s'.arg c) r ∈ s'.tr := by
  obtain ⟨w1, w2, w3, w4, w5, w6⟩ := hw
  obtain ⟨r1, r2, r3⟩ := hr
  clear w4 w5 w6 r1 r2
  cases l <;> rfn_step_inv h
  all_goals (intro c' r' hv; have h2 := r3 c' r'; have h3 := w3 c'; clear r3 w3 w2; rv_tac)

theorem rv_step (cfg : Cfg) (s s' : State f) (l : Label) (hw : WF s) (hr : RV s)
    (h : step cfg s l = some s') : RV s' :=
  ⟨rv_step_val cfg s s' l hw hr h, rv_step_chan cfg s s' l hw hr h, rv_step_rep cfg s s' l hw hr h⟩

end Remoc.Rfn
