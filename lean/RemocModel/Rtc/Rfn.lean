/-!
# M_rfn — remote functions `RFn`, `RFnMut`, `RFnOnce`

Hand-written model of `remoc/src/rfn/{rfn_const,rfn_mut,rfn_once}.rs` (`provided_int`,
`try_call_int`) and of the two channels they are built on (`rch::mpsc` request channel — an
`rch::oneshot` for `RFnOnce` — and one fresh `rch::oneshot` result channel per call, carried inside
`msg::RFnRequest`), at the granularity "one label per await-free block".

* **a call** (`try_call_int`): `let (result_tx, result_rx) = oneshot::channel();` (label `issue`:
  a *fresh* channel id), `let _ = self.request_tx.send(RFnRequest{argument, result_tx}).await;`
  (labels `enqueue` — the request reaches the provider's queue — or `sendFail` — the send fails or
  the request is lost on the way; **the request, and with it `result_tx`, is dropped**, that is what
  `let _ =` does with the `SendError` holding the item), `result_rx.await` (label `recvReply`: the
  value, or an error once the sending half is gone / the connection is lost);
* **the provider task** (`provided_int`): `loop { select!{ biased; term => break,
  req = request_rx.recv() => … } }`
  - `RFn`: every request is handed to a freshly spawned task (`dequeue`, stage `spawned`), which
    first takes a permit of the concurrency semaphore (`permit`, at most `limit` at a time) and then
    runs the function; the loop goes on receiving at once;
  - `RFnMut`: `let result = fun(argument).await; let _ = result_tx.send(result);` inline — the loop
    does not look at `term` or at the queue while the function runs;
  - `RFnOnce`: a single `select!` without a loop: one request is ever taken, after it the task ends;
  the function is an arbitrary deterministic object whose body is a list of atomic segments
  (`Fun`), `execStep` runs one segment;
* **cancellation**: the module documentation promises "if the caller drops the future while it is
  executing or the connection is interrupted the remote function is automatically cancelled at the
  next await point", but **none of the three providers races the function against
  `result_tx.closed()`**: the function runs to completion and the result is thrown away
  (`Cfg.cancel = false`, the code as it is).  `Cfg.cancel = true` is the model of the documented
  behaviour (`select!{ biased; () = result_tx.closed() => (), r = fun(argument) => … }`, labels
  `closeSeen`, `execCancel`), the same construction `remoc_macro` generates for trait methods;
* **provider drop** (`dropProvider`, then `provTerm` once the loop is at its `select!`), **all
  callers dropped / connection lost / sender failed** (`serveEnd`), queued requests dropped together
  with the request receiver (`purge`);
* **result transmission** (`deliver`): `result_tx.send(result)` hands the value to the oneshot
  sender; the transmission runs in a task of its own and its failure (connection lost, result not
  serialisable or over the item size limit) is reported nowhere (`let _ =`): the sending half is
  simply gone;
* **a request that cannot be serialised** fails in the forwarding task of the transported
  `mpsc::Sender`, which marks the sender as failed (`remote_send_err`): field `poisoned`, every
  later call fails and the provider's receiver ends (same mechanism as finding F10 of C19).

Over-approximations: the order in which requests that are still on their way (`sending`) arrive is
not modelled (any order); `serveEnd` may fire while a request is still on its way (the request
then fails).

Every label that names a call carries the guard `c < s.n`: labels act on issued calls only.
Ghost: the trace `tr` of events in real-time order.
-/

namespace Remoc.Rfn

inductive Flavour | const | mut | once
  deriving DecidableEq, Repr

/-- The wrapped function: a deterministic object with one method whose body is a list of atomic
segments (the code between two suspension points).  `nseg a` is the number of suspension points of
the call with argument `a` (segments `0 … nseg a` run), `seg a k` maps (local state, captured
state) to the same pair, the result is computed from the local state after the last segment.
`reqFits a`: the request can be serialised and is within the item size limit; `decodable a`: the
provider can deserialise it; `fits a r`: the same two for the result. -/
structure Fun where
  σ : Type
  Loc : Type
  σ0 : σ
  nseg : Nat → Nat
  init : Nat → Loc
  seg : Nat → Nat → Loc × σ → Loc × σ
  ret : Nat → Loc → Nat
  reqFits : Nat → Bool
  decodable : Nat → Bool
  fits : Nat → Nat → Bool

structure Cfg where
  fl : Flavour
  /-- `false`: the code as it is (no race against `result_tx.closed()`); `true`: the documented
  behaviour -/
  cancel : Bool
  /-- the wrapper was sent to another endpoint (else it is called locally: nothing is serialised) -/
  remote : Bool
  /-- request buffer -/
  cap : Nat
  /-- `RFnProvider::max_concurrency` -/
  limit : Nat

/-- where the request of a call is -/
inductive Stage
  | sending          -- not yet in the provider's request queue (waiting for capacity / in transit)
  | queued
  | spawned          -- `RFn`: handed to its own task, waiting for a permit of the semaphore
  | executing
  | replying (r : Nat)   -- result handed to the result channel, transmission in progress
  | done             -- the provider side is finished with this request (whatever the outcome)
  deriving DecidableEq, Repr

/-- the caller's side of a call -/
inductive Cl | waiting | value (r : Nat) | error | abandoned
  deriving DecidableEq, Repr

inductive Stop | provDropped | callersGone | onceTaken
  deriving DecidableEq, Repr

inductive Loop
  | idle                  -- in `select!{ term, request_rx.recv() }`
  | running (c : Nat)     -- `RFnMut` / `RFnOnce`: in `fun(argument).await` for request c
  | stopped (w : Stop)    -- the provider task has ended
  deriving DecidableEq, Repr

def Loop.isStopped : Loop → Bool
  | .stopped _ => true
  | _ => false

inductive Ev
  | inv (c a : Nat)
  | abandon (c : Nat)
  | deq (c : Nat)
  | seg (c k : Nat)
  | fin (c a r : Nat)
  | cancel (c a k : Nat)
  | resp (c r : Nat)
  | respErr (c : Nat)
  deriving DecidableEq, Repr

/-- Per-call data are kept as functions of the call id; `ch*` are the four components of the
oneshot result channels, indexed by channel id. -/
structure State (f : Fun) where
  n : Nat
  nch : Nat
  arg : Nat → Nat
  /-- the result channel created for this call and carried by its request -/
  rch : Nat → Nat
  stage : Nat → Stage
  cl : Nat → Cl
  pc : Nat → Nat
  loc : Nat → f.Loc
  /-- value that reached the receiving half -/
  chVal : Nat → Option Nat
  /-- the sending half is gone without (or with a failed) transmission -/
  chTx : Nat → Bool
  /-- the receiving half has been dropped by the caller -/
  chRx : Nat → Bool
  /-- the sending half observes `closed()` -/
  chClosed : Nat → Bool
  queue : List Nat
  loop : Loop
  /-- `RFn`: executions holding a permit -/
  execs : List Nat
  σ : f.σ
  connUp : Bool
  callersGone : Bool
  provGone : Bool
  poisoned : Bool
  tr : List Ev

def init (f : Fun) : State f :=
  { n := 0, nch := 0, arg := fun _ => 0, rch := fun _ => 0, stage := fun _ => .done, cl := fun _ => .error,
    pc := fun _ => 0, loc := fun _ => f.init 0, chVal := fun _ => none, chTx := fun _ => false,
    chRx := fun _ => false, chClosed := fun _ => false, queue := [], loop := .idle, execs := [], σ := f.σ0,
    connUp := true, callersGone := false, provGone := false, poisoned := false, tr := [] }

def upd {α : Type} (g : Nat → α) (i : Nat) (v : α) : Nat → α := fun j => if j = i then v else g j

@[simp] theorem upd_same {α : Type} (g : Nat → α) (i : Nat) (v : α) : upd g i v i = v := by simp [upd]
theorem upd_other {α : Type} (g : Nat → α) (i j : Nat) (v : α) (h : j ≠ i) : upd g i v j = g j := by simp [upd, h]
theorem upd_apply {α : Type} (g : Nat → α) (i j : Nat) (v : α) : upd g i v j = if j = i then v else g j := rfl

inductive Label
  -- environment
  | issue (a : Nat)            -- a caller starts a call (first poll of `try_call_int`)
  | abandon (c : Nat)          -- the caller drops the call future (result receiver dropped)
  | abandonEarly (c : Nat)     -- … while the request had not left `request_tx.send`: it is never queued
  | connLoss
  | dropCallers                -- every handle (`RFn` clone / the `RFnMut` / the `RFnOnce`) is dropped
  | dropProvider               -- the provider object is dropped
  -- internal
  | enqueue (c : Nat)          -- the request enters the provider's queue
  | sendFail (c : Nat)         -- `request_tx.send` fails / the request is lost or rejected on the way
  | closeSeen (c : Nat)        -- the result sender's `closed()` becomes ready
  | recvReply (c : Nat)        -- `result_rx.await` completes
  | dequeue                    -- `request_rx.recv()` arm of the provider's `select!`
  | permit (c : Nat)           -- `RFn`: the spawned task gets its semaphore permit
  | execStep (c : Nat)         -- one poll of the function future that runs a segment
  | execCancel (c : Nat)       -- (`cancel` variant) … that takes the `closed()` branch
  | deliver (c : Nat)          -- the result transmission finishes or fails
  | provTerm                   -- `term` arm: the provider was dropped, the task ends
  | purge (c : Nat)            -- a queued request is dropped together with the request receiver
  | serveEnd                   -- `request_rx.recv()` returns `None` / a final error
  deriving DecidableEq, Repr

variable {f : Fun}

def State.closed (s : State f) (c : Nat) : Bool := s.chClosed (s.rch c)

/-- the request of call c can reach the provider -/
def deliverable (cfg : Cfg) (s : State f) (c : Nat) : Bool :=
  !s.loop.isStopped &&
    (!cfg.remote || (s.connUp && !s.poisoned && f.reqFits (s.arg c) && f.decodable (s.arg c)))

/-- the function future of request c is over: permit released, inline loop continues / ends -/
def endExec (cfg : Cfg) (s : State f) (c : Nat) : State f :=
  { s with
    execs := s.execs.filter (· != c)
    loop := if s.loop = .running c then
              (if cfg.fl = .once then .stopped .onceTaken else .idle)
            else s.loop }

def step (cfg : Cfg) (s : State f) : Label → Option (State f)
  | .issue a =>
    if s.callersGone then none else
    some { s with
      n := s.n + 1, nch := s.nch + 1
      arg := upd s.arg s.n a, rch := upd s.rch s.n s.nch
      stage := upd s.stage s.n .sending, cl := upd s.cl s.n .waiting
      pc := upd s.pc s.n 0, loc := upd s.loc s.n (f.init a)
      chVal := upd s.chVal s.nch none, chTx := upd s.chTx s.nch false
      chRx := upd s.chRx s.nch false, chClosed := upd s.chClosed s.nch false
      tr := s.tr ++ [.inv s.n a] }
  | .abandon c =>
    if c < s.n ∧ s.cl c = .waiting then
      some { s with cl := upd s.cl c .abandoned, chRx := upd s.chRx (s.rch c) true, tr := s.tr ++ [.abandon c] }
    else none
  | .abandonEarly c =>
    if c < s.n ∧ s.cl c = .waiting ∧ s.stage c = .sending then
      some { s with cl := upd s.cl c .abandoned, stage := upd s.stage c .done
                    chRx := upd s.chRx (s.rch c) true, chTx := upd s.chTx (s.rch c) true
                    tr := s.tr ++ [.abandon c] }
    else none
  | .connLoss => if s.connUp = true ∧ cfg.remote = true then some { s with connUp := false } else none
  | .dropCallers => if s.callersGone then none else some { s with callersGone := true }
  | .dropProvider => if s.provGone then none else some { s with provGone := true }
  | .enqueue c =>
    if c < s.n ∧ s.stage c = .sending ∧ deliverable cfg s c = true ∧ s.queue.length < cfg.cap then
      some { s with stage := upd s.stage c .queued, queue := s.queue ++ [c] }
    else none
  | .sendFail c =>
    if c < s.n ∧ s.stage c = .sending ∧ deliverable cfg s c = false then
      -- a request that cannot be serialised marks the forwarding sender as failed
      some { s with stage := upd s.stage c .done, chTx := upd s.chTx (s.rch c) true
                    poisoned := s.poisoned || (cfg.remote && !f.reqFits (s.arg c)) }
    else none
  | .closeSeen c =>
    if c < s.n ∧ s.chClosed (s.rch c) = false
        ∧ (s.chRx (s.rch c) = true ∨ (cfg.remote = true ∧ s.connUp = false)) then
      some { s with chClosed := upd s.chClosed (s.rch c) true }
    else none
  | .recvReply c =>
    if c < s.n ∧ s.cl c = .waiting then
      match s.chVal (s.rch c) with
      | some r => some { s with cl := upd s.cl c (.value r), tr := s.tr ++ [.resp c r] }
      | none =>
        if s.chTx (s.rch c) = true ∨ (cfg.remote = true ∧ s.connUp = false) then
          some { s with cl := upd s.cl c .error, tr := s.tr ++ [.respErr c] }
        else none
    else none
  | .dequeue =>
    match s.queue with
    | [] => none
    | c :: q =>
      -- `biased`: the `term` arm is looked at first
      if c < s.n ∧ s.loop = .idle ∧ s.provGone = false then
        if cfg.fl = .const then
          some { s with queue := q, stage := upd s.stage c .spawned, tr := s.tr ++ [.deq c] }
        else
          some { s with queue := q, stage := upd s.stage c .executing, loop := .running c, tr := s.tr ++ [.deq c] }
      else none
  | .permit c =>
    if c < s.n ∧ s.stage c = .spawned ∧ s.execs.length < cfg.limit then
      some { s with stage := upd s.stage c .executing, execs := s.execs ++ [c] }
    else none
  | .execStep c =>
    if c < s.n ∧ s.stage c = .executing ∧ ¬ (cfg.cancel = true ∧ s.closed c = true) then
      let p := f.seg (s.arg c) (s.pc c) (s.loc c, s.σ)
      if s.pc c < f.nseg (s.arg c) then
        some { s with σ := p.2, pc := upd s.pc c (s.pc c + 1), loc := upd s.loc c p.1
                      tr := s.tr ++ [.seg c (s.pc c)] }
      else
        let r := f.ret (s.arg c) p.1
        some (endExec cfg { s with σ := p.2, pc := upd s.pc c (s.pc c + 1), loc := upd s.loc c p.1
                                   stage := upd s.stage c (.replying r)
                                   tr := s.tr ++ [.seg c (s.pc c), .fin c (s.arg c) r] } c)
    else none
  | .execCancel c =>
    if c < s.n ∧ s.stage c = .executing ∧ cfg.cancel = true ∧ s.closed c = true then
      some (endExec cfg { s with stage := upd s.stage c .done, chTx := upd s.chTx (s.rch c) true
                                 tr := s.tr ++ [.cancel c (s.arg c) (s.pc c)] } c)
    else none
  | .deliver c =>
    match s.stage c with
    | .replying r =>
      if s.n ≤ c then none else
      if cfg.remote = true ∧ (s.connUp = false ∨ f.fits (s.arg c) r = false) then
        some { s with stage := upd s.stage c .done, chTx := upd s.chTx (s.rch c) true }
      else
        some { s with stage := upd s.stage c .done, chVal := upd s.chVal (s.rch c) (some r) }
    | _ => none
  | .provTerm =>
    if s.loop = .idle ∧ s.provGone = true then some { s with loop := .stopped .provDropped } else none
  | .purge c =>
    if c < s.n ∧ s.stage c = .queued ∧ s.loop.isStopped = true then
      some { s with stage := upd s.stage c .done, chTx := upd s.chTx (s.rch c) true
                    queue := s.queue.filter (· != c) }
    else none
  | .serveEnd =>
    if s.loop = .idle ∧ s.queue = []
        ∧ (s.callersGone = true ∨ (cfg.remote = true ∧ (s.connUp = false ∨ s.poisoned = true))) then
      some { s with loop := .stopped .callersGone }
    else none

def run (cfg : Cfg) (s : State f) : List Label → State f
  | [] => s
  | l :: ls => match step cfg s l with
    | some s' => run cfg s' ls
    | none => run cfg s ls

def Reachable (cfg : Cfg) (s : State f) : Prop := ∃ ls, run cfg (init f) ls = s

/-- internal labels: what the runtime does on its own -/
def Label.internal : Label → Bool
  | .issue _ | .abandon _ | .abandonEarly _ | .connLoss | .dropCallers | .dropProvider => false
  | _ => true

def Quiescent (cfg : Cfg) (s : State f) : Prop := ∀ l, l.internal = true → step cfg s l = none

theorem run_append (cfg : Cfg) (s : State f) (l1 l2 : List Label) :
    run cfg s (l1 ++ l2) = run cfg (run cfg s l1) l2 := by
  induction l1 generalizing s with
  | nil => rfl
  | cons l ls ih =>
    simp only [List.cons_append, run]
    split <;> exact ih _

/-- generic invariant principle -/
theorem reachable_induction (cfg : Cfg) (P : State f → Prop) (h0 : P (init f))
    (hstep : ∀ s l s', P s → step cfg s l = some s' → P s') :
    ∀ s, Reachable cfg s → P s := by
  intro s ⟨ls, hs⟩
  subst hs
  have : ∀ (ls : List Label) (s0 : State f), P s0 → P (run cfg s0 ls) := by
    intro ls
    induction ls with
    | nil => intro s0 h; exact h
    | cons l ls ih =>
      intro s0 h
      simp only [run]
      split
      · rename_i s' hs; exact ih s' (hstep s0 l s' h hs)
      · exact ih s0 h
  exact this ls _ h0

theorem reachable_step (cfg : Cfg) (s s' : State f) (l : Label) (h : Reachable cfg s)
    (hs : step cfg s l = some s') : Reachable cfg s' := by
  obtain ⟨ls, rfl⟩ := h
  refine ⟨ls ++ [l], ?_⟩
  rw [run_append]
  simp [run, hs]

theorem reachable_run (cfg : Cfg) (s : State f) (ls : List Label) (h : Reachable cfg s) :
    Reachable cfg (run cfg s ls) := by
  obtain ⟨l0, rfl⟩ := h
  exact ⟨l0 ++ ls, run_append cfg _ l0 ls⟩

/-! ### the sequential function -/

/-- run the first `k` segments of the call with argument `a` -/
def runSegs (f : Fun) (a : Nat) : Nat → f.Loc × f.σ → f.Loc × f.σ
  | 0, x => x
  | k + 1, x => f.seg a k (runSegs f a k x)

/-- the sequential specification: a complete call -/
def Fun.call (f : Fun) (a : Nat) (s : f.σ) : f.σ × Nat :=
  let p := runSegs f a (f.nseg a + 1) (f.init a, s)
  (p.2, f.ret a p.1)

/-! ### observations on the trace -/

def isDeq (c : Nat) : Ev → Bool
  | .deq c' => c' == c
  | _ => false

def isSeg (c k : Nat) : Ev → Bool
  | .seg c' k' => c' == c && k' == k
  | _ => false

def isEnd (c : Nat) : Ev → Bool
  | .fin c' _ _ => c' == c
  | .cancel c' _ _ => c' == c
  | _ => false

def deqCount (c : Nat) (tr : List Ev) : Nat := tr.countP (isDeq c)
def segCount (c k : Nat) (tr : List Ev) : Nat := tr.countP (isSeg c k)
def endCount (c : Nat) (tr : List Ev) : Nat := tr.countP (isEnd c)

/-- the ids of the requests in the order in which the provider took them -/
def deqOrder : List Ev → List Nat
  | [] => []
  | .deq c :: t => c :: deqOrder t
  | _ :: t => deqOrder t

/-- the ids of the executions in the order in which they ended -/
def endOrder : List Ev → List Nat
  | [] => []
  | .fin c _ _ :: t => c :: endOrder t
  | .cancel c _ _ :: t => c :: endOrder t
  | _ :: t => endOrder t

end Remoc.Rfn
