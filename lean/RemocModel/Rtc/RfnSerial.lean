import RemocModel.Rtc.RfnCount
set_option linter.unusedSimpArgs false
set_option linter.unusedVariables false

/-!
# M_rfn: `RFnMut` / `RFnOnce` execute serially, in dequeue order, and are linearizable;
`RFnOnce` takes one request
-/

namespace Remoc.Rfn

variable {f : Fun}

/-! ### executions never overlap -/

/-- one step of the overlap scanner: `cur` is the request whose execution is in progress -/
def scan1 (cur : Option Nat) : Ev → Option (Option Nat)
  | .deq c => if cur = none then some (some c) else none
  | .seg c _ => if cur = some c then some cur else none
  | .fin c _ _ => if cur = some c then some none else none
  | .cancel c _ _ => if cur = some c then some none else none
  | _ => some cur

/-- scan a trace: `none` if an execution event of one request occurs while another request is
being executed, else the request in progress at the end -/
def scan : Option Nat → List Ev → Option (Option Nat)
  | cur, [] => some cur
  | cur, e :: t => (scan1 cur e).bind (fun x => scan x t)

theorem scan_append (cur : Option Nat) (t u : List Ev) :
    scan cur (t ++ u) = (scan cur t).bind (fun x => scan x u) := by
  induction t generalizing cur with
  | nil => simp [scan]
  | cons e t ih =>
    simp only [List.cons_append, scan]
    cases scan1 cur e with
    | none => simp
    | some x => simp [ih]

/-- the executions recorded in a trace never overlap -/
def Serial (tr : List Ev) : Prop := (scan none tr).isSome = true

def Loop.cur : Loop → Option Nat
  | .running c => some c
  | _ => none

theorem deqOrder_append (t u : List Ev) : deqOrder (t ++ u) = deqOrder t ++ deqOrder u := by
  induction t with
  | nil => rfl
  | cons e t ih => cases e <;> simp [deqOrder, ih]

theorem endOrder_append (t u : List Ev) : endOrder (t ++ u) = endOrder t ++ endOrder u := by
  induction t with
  | nil => rfl
  | cons e t ih => cases e <;> simp [endOrder, ih]

/-- serial flavours: the scanner accepts the trace, and the requests were finished in the order
in which they were taken -/
structure SER (s : State f) : Prop where
  scan : scan none s.tr = some s.loop.cur
  order : deqOrder s.tr = endOrder s.tr ++ s.loop.cur.toList

theorem ser_init : SER (init f) := by
  constructor <;> simp [init, scan, Loop.cur, deqOrder, endOrder]

theorem ser_step (cfg : Cfg) (hfl : cfg.fl ≠ .const) (s s' : State f) (l : Label) (hs : ST cfg s) (hr : SER s)
    (h : step cfg s l = some s') : SER s' := by
  obtain ⟨r1, r2⟩ := hr
  have he := hs.exec
  have hx := hs.serialNoExecs hfl
  clear hs
  cases l <;> rfn_step_inv h
  all_goals (constructor <;>
    simp_all [scan_append, deqOrder_append, endOrder_append, scan, scan1, Loop.cur, deqOrder, endOrder, endExec]
    <;> grind [Loop.cur])

/-! ### linearizability of the serial flavours -/

/-- the state of the captured variables after the executions recorded in a trace, taken at their
end events: a finished execution is one complete call, a cancelled one the segments it ran -/
def seqState (f : Fun) : f.σ → List Ev → f.σ
  | σ, [] => σ
  | σ, .fin _ a _ :: t => seqState f (f.call a σ).1 t
  | σ, .cancel _ a k :: t => seqState f (runSegs f a k (f.init a, σ)).2 t
  | σ, .inv _ _ :: t => seqState f σ t
  | σ, .abandon _ :: t => seqState f σ t
  | σ, .deq _ :: t => seqState f σ t
  | σ, .seg _ _ :: t => seqState f σ t
  | σ, .resp _ _ :: t => seqState f σ t
  | σ, .respErr _ :: t => seqState f σ t

/-- every finished execution returned what the sequential function returns in the state reached
by the executions that ended before it -/
def SeqOk (f : Fun) : f.σ → List Ev → Prop
  | _, [] => True
  | σ, .fin _ a r :: t => r = (f.call a σ).2 ∧ SeqOk f (f.call a σ).1 t
  | σ, .cancel _ a k :: t => SeqOk f (runSegs f a k (f.init a, σ)).2 t
  | σ, .inv _ _ :: t => SeqOk f σ t
  | σ, .abandon _ :: t => SeqOk f σ t
  | σ, .deq _ :: t => SeqOk f σ t
  | σ, .seg _ _ :: t => SeqOk f σ t
  | σ, .resp _ _ :: t => SeqOk f σ t
  | σ, .respErr _ :: t => SeqOk f σ t

theorem seqState_append (σ : f.σ) (t u : List Ev) : seqState f σ (t ++ u) = seqState f (seqState f σ t) u := by
  induction t generalizing σ with
  | nil => rfl
  | cons e t ih => cases e <;> simp [seqState, ih]

theorem seqOk_append (σ : f.σ) (t u : List Ev) : SeqOk f σ (t ++ u) ↔ SeqOk f σ t ∧ SeqOk f (seqState f σ t) u := by
  induction t generalizing σ with
  | nil => simp [SeqOk, seqState]
  | cons e t ih => cases e <;> simp [SeqOk, seqState, ih, and_assoc]

structure LIN (s : State f) : Prop where
  ok : SeqOk f f.σ0 s.tr
  /-- a request that has not been taken yet has not run -/
  locInit : ∀ c, (s.stage c = .sending ∨ s.stage c = .queued) → s.loc c = f.init (s.arg c)
  idle : s.loop.cur = none → s.σ = seqState f f.σ0 s.tr
  run : ∀ c, s.loop = .running c →
          (s.loc c, s.σ) = runSegs f (s.arg c) (s.pc c) (f.init (s.arg c), seqState f f.σ0 s.tr)

theorem lin_init : LIN (init f) := by
  constructor <;> simp [init, SeqOk, seqState, Loop.cur]


macro "lin_tac" : tactic => `(tactic| (
  simp_all [upd_apply, endExec, seqOk_append, seqState_append, SeqOk, seqState, Loop.cur, runSegs, Fun.call] <;> grind [runSegs]))

theorem lin_step_locInit (cfg : Cfg) (s s' : State f) (l : Label) (hw : WF s) (hl : LIN s)
    (h : step cfg s l = some s') :
    ∀ c, (s'.stage c = .sending ∨ s'.stage c = .queued) → s'.loc c = f.init (s'.arg c) := by
  have w3 := hw.fresh
  have l2 := hl.locInit
  clear hw hl
  cases l <;> rfn_step_inv h
  all_goals (intro c' hc'; have := l2 c'; have := w3 c'; clear l2 w3; lin_tac)


/-- facts about the request executed by a serial provider, collected for the linearizability step -/
theorem running_facts (cfg : Cfg) (hfl : cfg.fl ≠ .const) (s : State f) (hs : ST cfg s) (hc : CN s) (c : Nat)
    (he : s.stage c = .executing) : s.loop = .running c ∧ s.pc c ≤ f.nseg (s.arg c) := by
  have h1 := (hs.exec c).1 he
  have h2 := hs.serialNoExecs hfl
  have h3 := (hc.exec c he).2.2.1
  simp_all

theorem lin_step_ok (cfg : Cfg) (hfl : cfg.fl ≠ .const) (s s' : State f) (l : Label) (hw : WF s) (hs : ST cfg s)
    (hc : CN s) (hl : LIN s) (h : step cfg s l = some s') : SeqOk f f.σ0 s'.tr := by
  have hrun := running_facts cfg hfl s hs hc
  obtain ⟨l1, l2, l3, l4⟩ := hl
  clear hw hs hc l2 l3
  cases l with
  | execStep c =>
    rfn_step_inv h
    all_goals (have hr := hrun c (by simp_all); have h4 := l4 c hr.1; clear hrun l4; lin_tac)
  | execCancel c =>
    rfn_step_inv h
    all_goals (have hr := hrun c (by simp_all); have h4 := l4 c hr.1; clear hrun l4; lin_tac)
  | _ =>
    rfn_step_inv h
    all_goals (clear hrun l4; lin_tac)


theorem lin_step_idle (cfg : Cfg) (hfl : cfg.fl ≠ .const) (s s' : State f) (l : Label) (hw : WF s) (hs : ST cfg s)
    (hc : CN s) (hl : LIN s) (h : step cfg s l = some s') :
    s'.loop.cur = none → s'.σ = seqState f f.σ0 s'.tr := by
  have hrun := running_facts cfg hfl s hs hc
  obtain ⟨l1, l2, l3, l4⟩ := hl
  clear hw hs hc l1 l2
  cases l with
  | execStep c =>
    rfn_step_inv h
    all_goals (have hr := hrun c (by simp_all); have h4 := l4 c hr.1; clear hrun l4; lin_tac)
  | execCancel c =>
    rfn_step_inv h
    all_goals (have hr := hrun c (by simp_all); have h4 := l4 c hr.1; clear hrun l4; lin_tac)
  | _ =>
    rfn_step_inv h
    all_goals (clear hrun l4; lin_tac)

theorem lin_step_run (cfg : Cfg) (hfl : cfg.fl ≠ .const) (s s' : State f) (l : Label) (hw : WF s) (hs : ST cfg s)
    (hc : CN s) (hl : LIN s) (h : step cfg s l = some s') :
    ∀ c, s'.loop = .running c →
      (s'.loc c, s'.σ) = runSegs f (s'.arg c) (s'.pc c) (f.init (s'.arg c), seqState f f.σ0 s'.tr) := by
  have hrun := running_facts cfg hfl s hs hc
  have hq := hs.queued
  have hpre := hc.pre
  have hllt := hw.llt
  obtain ⟨l1, l2, l3, l4⟩ := hl
  clear hw hs hc l1
  cases l with
  | execStep c =>
    rfn_step_inv h
    all_goals (intro c' hc'; have hr := hrun c (by simp_all); have h4 := l4 c hr.1; clear hrun l4 hq hpre l2; lin_tac)
  | execCancel c =>
    rfn_step_inv h
    all_goals (intro c' hc'; have hr := hrun c (by simp_all); have h4 := l4 c hr.1; clear hrun l4 hq hpre l2; lin_tac)
  | dequeue =>
    rfn_step_inv h
    all_goals (intro c' hc'; have h5 := hq c'; have h6 := hpre c'; have h7 := l2 c'; clear hrun l4 hq hpre l2; lin_tac)
  | _ =>
    rfn_step_inv h
    all_goals (intro c' hc'; have h4 := l4 c'; have h8 := hllt c'; clear hrun l4 hq hpre l2 hllt; lin_tac)

theorem lin_step (cfg : Cfg) (hfl : cfg.fl ≠ .const) (s s' : State f) (l : Label) (hw : WF s) (hs : ST cfg s)
    (hc : CN s) (hl : LIN s) (h : step cfg s l = some s') : LIN s' :=
  ⟨lin_step_ok cfg hfl s s' l hw hs hc hl h, lin_step_locInit cfg s s' l hw hl h,
   lin_step_idle cfg hfl s s' l hw hs hc hl h, lin_step_run cfg hfl s s' l hw hs hc hl h⟩

/-! ### `RFnOnce` takes one request -/

structure ONCE (s : State f) : Prop where
  le : (deqOrder s.tr).length ≤ 1
  idle : s.loop = .idle → deqOrder s.tr = []

theorem once_init : ONCE (init f) := by
  constructor <;> simp [init, deqOrder]

theorem once_step (cfg : Cfg) (hfl : cfg.fl = .once) (s s' : State f) (l : Label) (ho : ONCE s)
    (h : step cfg s l = some s') : ONCE s' := by
  obtain ⟨o1, o2⟩ := ho
  cases l <;> rfn_step_inv h
  all_goals (constructor <;> simp_all [deqOrder_append, deqOrder, endExec] <;> grind)

end Remoc.Rfn
