import RemocModel.Rtc.RfnInv
set_option linter.unusedSimpArgs false
set_option linter.unusedVariables false

/-!
# M_rfn: counting of executions (at most once) and provenance of results (own reply)
-/

namespace Remoc.Rfn

variable {f : Fun}

/-! ### counting -/

@[simp] theorem deqCount_append (c : Nat) (t u : List Ev) : deqCount c (t ++ u) = deqCount c t + deqCount c u := by
  simp [deqCount]
@[simp] theorem segCount_append (c k : Nat) (t u : List Ev) : segCount c k (t ++ u) = segCount c k t + segCount c k u := by
  simp [segCount]
@[simp] theorem endCount_append (c : Nat) (t u : List Ev) : endCount c (t ++ u) = endCount c t + endCount c u := by
  simp [endCount]
@[simp] theorem deqCount_nil (c : Nat) : deqCount c [] = 0 := rfl
@[simp] theorem segCount_nil (c k : Nat) : segCount c k [] = 0 := rfl
@[simp] theorem endCount_nil (c : Nat) : endCount c [] = 0 := rfl
@[simp] theorem deqCount_cons (c : Nat) (e : Ev) (t : List Ev) :
    deqCount c (e :: t) = (if isDeq c e then 1 else 0) + deqCount c t := by
  simp [deqCount, List.countP_cons]; omega
@[simp] theorem segCount_cons (c k : Nat) (e : Ev) (t : List Ev) :
    segCount c k (e :: t) = (if isSeg c k e then 1 else 0) + segCount c k t := by
  simp [segCount, List.countP_cons]; omega
@[simp] theorem endCount_cons (c : Nat) (e : Ev) (t : List Ev) :
    endCount c (e :: t) = (if isEnd c e then 1 else 0) + endCount c t := by
  simp [endCount, List.countP_cons]; omega

/-- how often the provider took / ran / ended the request of a call -/
structure CN (s : State f) : Prop where
  fresh : ∀ c, s.n ≤ c → deqCount c s.tr = 0 ∧ endCount c s.tr = 0 ∧ (∀ k, segCount c k s.tr = 0)
            ∧ ∀ a r, Ev.fin c a r ∉ s.tr
  pre : ∀ c, (s.stage c = .sending ∨ s.stage c = .queued) →
          deqCount c s.tr = 0 ∧ endCount c s.tr = 0 ∧ (∀ k, segCount c k s.tr = 0) ∧ s.pc c = 0
  spawned : ∀ c, s.stage c = .spawned →
          deqCount c s.tr = 1 ∧ endCount c s.tr = 0 ∧ (∀ k, segCount c k s.tr = 0) ∧ s.pc c = 0
  exec : ∀ c, s.stage c = .executing →
          deqCount c s.tr = 1 ∧ endCount c s.tr = 0 ∧ s.pc c ≤ f.nseg (s.arg c)
            ∧ ∀ k, segCount c k s.tr = if k < s.pc c then 1 else 0
  post : ∀ c, deqCount c s.tr ≤ 1 ∧ endCount c s.tr ≤ 1 ∧ ∀ k, segCount c k s.tr ≤ 1
  fin : ∀ c a r, Ev.fin c a r ∈ s.tr →
          a = s.arg c ∧ c < s.n ∧ endCount c s.tr = 1 ∧ deqCount c s.tr = 1
            ∧ ∀ k, k ≤ f.nseg (s.arg c) → segCount c k s.tr = 1

theorem cn_init : CN (init f) := by
  constructor <;> simp [init]


macro "cn_tac" : tactic => `(tactic| (simp_all [upd_apply, endExec, isDeq, isSeg, isEnd] <;> grind))

theorem cn_step_fresh (cfg : Cfg) (s s' : State f) (l : Label) (hw : WF s) (hc : CN s)
    (h : step cfg s l = some s') : ∀ c, s'.n ≤ c → deqCount c s'.tr = 0 ∧ endCount c s'.tr = 0
      ∧ (∀ k, segCount c k s'.tr = 0) ∧ ∀ a r, Ev.fin c a r ∉ s'.tr := by
  obtain ⟨w1, w2, w3, w4, w5, w6⟩ := hw
  obtain ⟨c1, c2, c3, c4, c5, c6⟩ := hc
  clear c2 c3 c4 c5 c6
  cases l <;> rfn_step_inv h
  all_goals (intro c' hc'; have := c1 c'; cn_tac)

theorem cn_step_pre (cfg : Cfg) (s s' : State f) (l : Label) (hw : WF s) (hs : ST cfg s) (hc : CN s)
    (h : step cfg s l = some s') : ∀ c, (s'.stage c = .sending ∨ s'.stage c = .queued) →
          deqCount c s'.tr = 0 ∧ endCount c s'.tr = 0 ∧ (∀ k, segCount c k s'.tr = 0) ∧ s'.pc c = 0 := by
  obtain ⟨w1, w2, w3, w4, w5, w6⟩ := hw
  obtain ⟨c1, c2, c3, c4, c5, c6⟩ := hc
  clear c3 c5 c6
  have hq := hs.queued
  have hn := hs.qnodup
  clear hs
  cases l <;> rfn_step_inv h
  all_goals (intro c' hc'; have := c1 c'; have := c2 c'; have := c4 c'; cn_tac)

theorem cn_step_spawned (cfg : Cfg) (s s' : State f) (l : Label) (hw : WF s) (hs : ST cfg s) (hc : CN s)
    (h : step cfg s l = some s') : ∀ c, s'.stage c = .spawned →
          deqCount c s'.tr = 1 ∧ endCount c s'.tr = 0 ∧ (∀ k, segCount c k s'.tr = 0) ∧ s'.pc c = 0 := by
  obtain ⟨w1, w2, w3, w4, w5, w6⟩ := hw
  obtain ⟨c1, c2, c3, c4, c5, c6⟩ := hc
  clear c5 c6
  have hq := hs.queued
  have hn := hs.qnodup
  clear hs
  cases l <;> rfn_step_inv h
  all_goals (intro c' hc'; have := c1 c'; have := c2 c'; have := c3 c'; have := c4 c'; cn_tac)

theorem cn_step_exec (cfg : Cfg) (s s' : State f) (l : Label) (hw : WF s) (hs : ST cfg s) (hc : CN s)
    (h : step cfg s l = some s') : ∀ c, s'.stage c = .executing →
          deqCount c s'.tr = 1 ∧ endCount c s'.tr = 0 ∧ s'.pc c ≤ f.nseg (s'.arg c)
            ∧ ∀ k, segCount c k s'.tr = if k < s'.pc c then 1 else 0 := by
  obtain ⟨w1, w2, w3, w4, w5, w6⟩ := hw
  obtain ⟨c1, c2, c3, c4, c5, c6⟩ := hc
  clear c5 c6
  have hq := hs.queued
  have hn := hs.qnodup
  clear hs
  cases l <;> rfn_step_inv h
  all_goals (intro c' hc'; have := c1 c'; have := c2 c'; have := c3 c'; have := c4 c'; cn_tac)

theorem cn_step_post (cfg : Cfg) (s s' : State f) (l : Label) (hw : WF s) (hs : ST cfg s) (hc : CN s)
    (h : step cfg s l = some s') :
    ∀ c, deqCount c s'.tr ≤ 1 ∧ endCount c s'.tr ≤ 1 ∧ ∀ k, segCount c k s'.tr ≤ 1 := by
  obtain ⟨w1, w2, w3, w4, w5, w6⟩ := hw
  obtain ⟨c1, c2, c3, c4, c5, c6⟩ := hc
  clear c6
  have hq := hs.queued
  have hn := hs.qnodup
  clear hs
  cases l <;> rfn_step_inv h
  all_goals (intro c'; have := c1 c'; have := c2 c'; have := c3 c'; have := c4 c'; have := c5 c'; cn_tac)

theorem cn_step_fin (cfg : Cfg) (s s' : State f) (l : Label) (hw : WF s) (hs : ST cfg s) (hc : CN s)
    (h : step cfg s l = some s') : ∀ c a r, Ev.fin c a r ∈ s'.tr →
          a = s'.arg c ∧ c < s'.n ∧ endCount c s'.tr = 1 ∧ deqCount c s'.tr = 1
            ∧ ∀ k, k ≤ f.nseg (s'.arg c) → segCount c k s'.tr = 1 := by
  obtain ⟨w1, w2, w3, w4, w5, w6⟩ := hw
  obtain ⟨c1, c2, c3, c4, c5, c6⟩ := hc
  clear c5
  have hq := hs.queued
  have hn := hs.qnodup
  clear hs
  cases l <;> rfn_step_inv h
  all_goals (intro c' a' r' hm; have h1 := c1 c'; have h2 := c2 c'; have h3 := c3 c'; have h4 := c4 c'; have h6 := c6 c' a' r'; have hq' := hq c'
             clear c1 c2 c3 c4 c6 hq hn w2 w4 w5 w6; cn_tac)

theorem cn_step (cfg : Cfg) (s s' : State f) (l : Label) (hw : WF s) (hs : ST cfg s) (hc : CN s)
    (h : step cfg s l = some s') : CN s' :=
  ⟨cn_step_fresh cfg s s' l hw hc h, cn_step_pre cfg s s' l hw hs hc h, cn_step_spawned cfg s s' l hw hs hc h,
   cn_step_exec cfg s s' l hw hs hc h, cn_step_post cfg s s' l hw hs hc h, cn_step_fin cfg s s' l hw hs hc h⟩


/-- a segment of a request runs only after the request has been taken -/
structure SD (s : State f) : Prop where
  le : ∀ c k, segCount c k s.tr ≤ deqCount c s.tr

theorem sd_init : SD (init f) := by
  constructor; simp [init]

theorem sd_step (cfg : Cfg) (s s' : State f) (l : Label) (hc : CN s) (hd : SD s)
    (h : step cfg s l = some s') : SD s' := by
  obtain ⟨d1⟩ := hd
  have c4 := hc.exec
  clear hc
  cases l <;> rfn_step_inv h
  all_goals (constructor; intro c' k'; have h1 := d1 c' k'; have h4 := c4 c'; clear d1 c4; cn_tac)

theorem mem_deqOrder_of_count (c : Nat) (tr : List Ev) (h : 0 < deqCount c tr) : c ∈ deqOrder tr := by
  induction tr with
  | nil => simp at h
  | cons e t ih =>
    cases e <;> simp_all [deqOrder, isDeq] <;> grind

end Remoc.Rfn
