/-!
# M_rtc — remote trait calls: request queue, per-call reply channel, serve loops, cancellation

Hand-written model of what `#[rtc::remote]` generates (`remoc_macro/src/{trait_def,method}.rs`) and
of `remoc/src/rtc/mod.rs` (`send_reply`, reply-error channel), at the granularity "one label per
await-free block":

* a client call (`client_method`): create a **fresh** oneshot reply channel, put it into the
  request, `req_tx.send(req).await` (bounded mpsc, may wait for capacity), `reply_rx.await`;
* the `serve` loop of the five server flavours (`Server` by value, `ServerRef`, `ServerRefMut`,
  `ServerShared`, `ServerSharedMut`), with and without `spawn`:
  `select!{ biased; err_rx.recv() => return Err, req_rx.recv() => match … }`; `&self` requests are
  dispatched inline or spawned, `&mut self` requests always inline (after `target.write().await`
  for `ServerSharedMut`), a `self` request consumes the target and ends the loop, requests of a
  kind the flavour does not serve are dropped, an undecodable request (non-final receive error)
  is handled per `OnReqReceiveError` policy;
* the dispatch of one request (`dispatch_discriminator`):
  `select!{ biased; reply_tx.closed() => (), r = target.method(args) => send_reply(reply_tx, r) }`
  or, for `#[no_cancel]`, the call without the race; the method itself is a list of atomic
  segments of an arbitrary deterministic object (`Obj`);
* `send_reply`: `reply_tx.send(r)` (dropped if the receiver is gone), the transmission runs in its
  own task; a failure that is not "receiver gone" (e.g. `MaxItemSizeExceeded`) is pushed to the
  error channel, **whose select arm makes `serve` return** (finding F6; `Variant.fixed` is the
  model of the proposed repair: keep serving);
* an over-size *request* from a transported client fails in the client's forwarding task, which
  marks the whole sender as failed (`remote_send_err`, finding F10: field `poisoned`);
* connection loss for the transported clients.

Every label that names a call carries the (redundant) guard `c < s.n`: labels act on issued calls
only.

Ghost: the trace `tr` of events in real-time order (invocation, dispatch, every executed segment,
finish / cancel = linearization point, response).
-/

namespace Remoc.Rtc

inductive Kind | ref | mut | val
  deriving DecidableEq, Repr

inductive Flavour | value | ref | refMut | shared | sharedMut
  deriving DecidableEq, Repr

inductive Variant | pinned | fixed
  deriving DecidableEq, Repr

/-- The served object: an arbitrary deterministic sequential object whose methods are lists of
atomic segments (the code between two suspension points).  Method ids, arguments and results are
naturals.  `nseg m a` is the number of *suspension points* of method `m` called with `a`, i.e. the
method runs segments `0 … nseg m a`; segment `k` maps (method-local state, object state) to the
same pair, the result is computed from the local state after the last segment. -/
structure Obj where
  σ : Type
  Loc : Type
  σ0 : σ
  kind : Nat → Kind
  cancellable : Nat → Bool
  /-- does the server's version of the trait know method `m` (else the request is undecodable) -/
  known : Nat → Bool
  nseg : Nat → Nat → Nat
  init : Nat → Nat → Loc
  seg : Nat → Nat → Nat → Loc × σ → Loc × σ
  ret : Nat → Nat → Loc → Nat
  /-- request `(m, a)` of client `cl` is within the request size limit -/
  reqFits : Nat → Nat → Nat → Bool
  /-- reply `r` to `(m, a)` of client `cl` is within the reply size limit -/
  fits : Nat → Nat → Nat → Nat → Bool

structure Cfg where
  fl : Flavour
  spawn : Bool
  /-- request buffer -/
  cap : Nat
  /-- `OnReqReceiveError::Fail` (default: ignore) -/
  failPolicy : Bool
  /-- client `i` was transported over a connection (else: local clone) -/
  remote : Nat → Bool
  /-- number of client handles (local clones and transported clients) -/
  nclients : Nat
  variant : Variant

/-- which request kinds a flavour dispatches (`Ok(Some(_)) => ()` otherwise) -/
def served : Flavour → Kind → Bool
  | .value, _ => true
  | .ref, .ref => true
  | .refMut, .ref => true
  | .refMut, .mut => true
  | .shared, .ref => true
  | .sharedMut, .ref => true
  | .sharedMut, .mut => true
  | _, _ => false

/-- where the request of a call is -/
inductive Stage
  | sending          -- not yet in the server's request queue (waiting for capacity / in transit)
  | queued
  | acquiring        -- taken by the serve loop, waiting for the target lock
  | executing
  | replying (r : Nat)   -- result handed to the reply channel, transmission in progress
  | reporting        -- the transmission failed; the reply task is about to push the error to `err_tx`
  | done             -- the server side is finished with this request (whatever the outcome)
  deriving DecidableEq, Repr

def Stage.inReplyTask : Stage → Bool
  | .replying _ => true
  | .reporting => true
  | _ => false

/-- the caller's side of a call -/
inductive Cl | waiting | value (r : Nat) | error | abandoned
  deriving DecidableEq, Repr

inductive Stop | replyErr | recvFail | valueTaken | clientsGone
  deriving DecidableEq, Repr

inductive Loop
  | idle                  -- in `select!{ err_rx.recv(), req_rx.recv() }`
  | acquiring (c : Nat)   -- in `target.read()/write().await` for request c
  | running (c : Nat)     -- in `req.dispatch(..).await` (inline) for request c
  | stopped (w : Stop)    -- `serve` has returned
  deriving DecidableEq, Repr

def Loop.isStopped : Loop → Bool
  | .stopped _ => true
  | _ => false

structure Call (o : Obj) where
  client : Nat
  m : Nat
  a : Nat
  /-- the reply channel created for this call and carried by its request -/
  rch : Nat
  stage : Stage
  cl : Cl
  pc : Nat
  loc : o.Loc
  /-- issued through a transported client whose forwarding sender had already failed (F10) -/
  lost : Bool

/-- one oneshot reply channel -/
structure Chan where
  /-- value that reached the receiving half -/
  val : Option Nat := none
  /-- the sending half is gone without (or with a failed) transmission -/
  txGone : Bool := false
  /-- the receiving half has been dropped by the caller -/
  rxGone : Bool := false
  /-- the sending half observes `closed()` -/
  closed : Bool := false
  deriving DecidableEq, Repr

inductive Ev
  | inv (c cl m a : Nat)
  | abandon (c : Nat)
  | deq (c : Nat)
  | discard (c : Nat)
  | seg (c k : Nat)
  | fin (c m a r : Nat)
  | cancel (c m a k : Nat)
  | replyErr (c : Nat)
  | resp (c r : Nat)
  | respErr (c : Nat)
  deriving DecidableEq, Repr

structure State (o : Obj) where
  n : Nat
  nch : Nat
  calls : Nat → Call o
  chans : Nat → Chan
  queue : List Nat
  loop : Loop
  spawned : List Nat
  readers : List Nat
  writer : Option Nat
  /-- number of reply errors waiting in the error channel -/
  errQ : Nat
  σ : o.σ
  connUp : Bool
  clientsGone : Bool
  poisoned : Nat → Bool
  tr : List Ev

def noCall (o : Obj) : Call o :=
  { client := 0, m := 0, a := 0, rch := 0, stage := .done, cl := .error, pc := 0, loc := o.init 0 0, lost := false }

def init (o : Obj) : State o :=
  { n := 0, nch := 0, calls := fun _ => noCall o, chans := fun _ => {}, queue := [], loop := .idle,
    spawned := [], readers := [], writer := none, errQ := 0, σ := o.σ0, connUp := true,
    clientsGone := false, poisoned := fun _ => false, tr := [] }

def upd {α : Type} (f : Nat → α) (i : Nat) (v : α) : Nat → α := fun j => if j = i then v else f j

@[simp] theorem upd_same {α : Type} (f : Nat → α) (i : Nat) (v : α) : upd f i v i = v := by simp [upd]
theorem upd_other {α : Type} (f : Nat → α) (i j : Nat) (v : α) (h : j ≠ i) : upd f i v j = f j := by simp [upd, h]
theorem upd_apply {α : Type} (f : Nat → α) (i j : Nat) (v : α) : upd f i v j = if j = i then v else f j := rfl

inductive Label
  -- environment
  | issue (cl m a : Nat)       -- a client starts a call (first poll of the client method)
  | abandon (c : Nat)          -- the caller drops the call future (reply receiver dropped)
  | abandonEarly (c : Nat)     -- … while the request had not left `req_tx.send`: it is never queued
  | connLoss
  | dropClients                -- every client handle is dropped
  -- internal
  | enqueue (c : Nat)          -- the request enters the server's queue
  | sendFail (c : Nat)         -- `req_tx.send` fails / the request is lost or rejected on the way
  | closeSeen (c : Nat)        -- the reply sender's `closed()` becomes ready
  | recvReply (c : Nat)        -- `reply_rx.await` completes
  | dequeue                    -- `req_rx.recv()` arm of the serve loop
  | acquire                    -- the target lock is granted to the serve loop
  | execStep (c : Nat)         -- one poll of the dispatch future that runs a method segment
  | execCancel (c : Nat)       -- … that takes the `closed()` branch
  | deliver (c : Nat)          -- the reply transmission finishes or fails
  | report (c : Nat)           -- the reply task pushes the transmission error into the error channel
  | serveErr                   -- `err_rx.recv()` arm: `serve` returns the reply error
  | purge (c : Nat)            -- a queued request is dropped together with the request receiver
  | serveEnd                   -- `req_rx.recv()` returns `None`
  deriving DecidableEq, Repr

variable {o : Obj}

def State.closed (s : State o) (c : Nat) : Bool := (s.chans (s.calls c).rch).closed

def setStage (s : State o) (c : Nat) (st : Stage) : State o :=
  { s with calls := upd s.calls c { s.calls c with stage := st } }

def setCl (s : State o) (c : Nat) (x : Cl) : State o :=
  { s with calls := upd s.calls c { s.calls c with cl := x } }

/-- drop the sending half of call c's reply channel without a value -/
def dropTx (s : State o) (c : Nat) : State o :=
  { s with chans := upd s.chans (s.calls c).rch { s.chans (s.calls c).rch with txGone := true } }

def emit (s : State o) (e : Ev) : State o := { s with tr := s.tr ++ [e] }

/-- does this (flavour, spawn, kind) run in its own task -/
def spawns (cfg : Cfg) (k : Kind) : Bool :=
  cfg.spawn && (k == .ref) && (cfg.fl == .shared || cfg.fl == .sharedMut)

/-- the dispatch future of request c is over: locks released, inline loop continues -/
def endExec (s : State o) (c : Nat) : State o :=
  { s with
    readers := s.readers.filter (· != c)
    writer := if s.writer = some c then none else s.writer
    spawned := s.spawned.filter (· != c)
    loop := if s.loop = .running c then
              (if o.kind (s.calls c).m = .val then .stopped .valueTaken else .idle)
            else s.loop }

/-- request c starts executing (dispatch future created) -/
def startExec (cfg : Cfg) (s : State o) (c : Nat) : State o :=
  let s := setStage s c .executing
  if spawns cfg (o.kind (s.calls c).m) then { s with spawned := s.spawned ++ [c], loop := .idle }
  else { s with loop := .running c }

/-- every client handle is unusable: behind a lost connection or with a failed forwarding sender -/
def dead (cfg : Cfg) (s : State o) (i : Nat) : Bool := cfg.remote i && (!s.connUp || s.poisoned i)

def allDead (cfg : Cfg) (s : State o) : Bool := (List.range cfg.nclients).all (dead cfg s)

def step (cfg : Cfg) (s : State o) : Label → Option (State o)
  | .issue cl m a =>
    if s.clientsGone then none else
    some (emit { s with
      n := s.n + 1, nch := s.nch + 1
      calls := upd s.calls s.n { client := cl, m := m, a := a, rch := s.nch, stage := .sending,
                                 cl := .waiting, pc := 0, loc := o.init m a,
                                 lost := cfg.remote cl && s.poisoned cl }
      chans := upd s.chans s.nch {} } (.inv s.n cl m a))
  | .abandon c =>
    if c < s.n ∧ (s.calls c).cl = .waiting then
      let s := setCl s c .abandoned
      some (emit { s with chans := upd s.chans (s.calls c).rch { s.chans (s.calls c).rch with rxGone := true } }
        (.abandon c))
    else none
  | .abandonEarly c =>
    if c < s.n ∧ (s.calls c).cl = .waiting ∧ (s.calls c).stage = .sending then
      let s := setStage (setCl s c .abandoned) c .done
      some (emit { s with chans := upd s.chans (s.calls c).rch
                            { s.chans (s.calls c).rch with rxGone := true, txGone := true } } (.abandon c))
    else none
  | .connLoss => if s.connUp then some { s with connUp := false } else none
  | .dropClients => if s.clientsGone then none else some { s with clientsGone := true }
  | .enqueue c =>
    let k := s.calls c
    if c < s.n ∧ k.stage = .sending ∧ s.queue.length < cfg.cap ∧ s.loop.isStopped = false
        ∧ (cfg.remote k.client = true → k.lost = false ∧ o.reqFits k.client k.m k.a = true) then
      -- a request for a method the server's trait version does not know fails to deserialize on
      -- arrival: its reply sender never comes into existence, the error item takes the queue slot
      let s1 := if o.known k.m then s else dropTx s c
      some { setStage s1 c .queued with queue := s.queue ++ [c] }
    else none
  | .sendFail c =>
    let k := s.calls c
    if c < s.n ∧ k.stage = .sending ∧ (s.loop.isStopped = true
        ∨ (cfg.remote k.client = true ∧ (s.connUp = false ∨ k.lost = true ∨ o.reqFits k.client k.m k.a = false))) then
      let s' := dropTx (setStage s c .done) c
      -- an over-size request marks the forwarding sender of this client as failed (F10)
      some { s' with poisoned := if cfg.remote k.client = true ∧ s.connUp = true ∧ k.lost = false
                                     ∧ o.reqFits k.client k.m k.a = false
                                  then upd s.poisoned k.client true else s.poisoned }
    else none
  | .closeSeen c =>
    let k := s.calls c
    let ch := s.chans k.rch
    if c < s.n ∧ ch.closed = false ∧ (ch.rxGone = true ∨ (cfg.remote k.client = true ∧ s.connUp = false)) then
      some { s with chans := upd s.chans k.rch { ch with closed := true } }
    else none
  | .recvReply c =>
    let k := s.calls c
    let ch := s.chans k.rch
    if c < s.n ∧ k.cl = .waiting then
      match ch.val with
      | some r => some (emit (setCl s c (.value r)) (.resp c r))
      | none =>
        if ch.txGone = true ∨ (cfg.remote k.client = true ∧ s.connUp = false) then
          some (emit (setCl s c .error) (.respErr c))
        else none
    else none
  | .dequeue =>
    match s.queue with
    | [] => none
    | c :: q =>
      if c < s.n ∧ s.loop = .idle ∧ (cfg.variant = .pinned → s.errQ = 0) then
        let k := s.calls c
        let s := emit { s with queue := q } (.deq c)
        if o.known k.m = false then
          -- undecodable request: non-final receive error, handled per policy
          some (emit { dropTx (setStage s c .done) c with
                       loop := if cfg.failPolicy then .stopped .recvFail else .idle } (.discard c))
        else if served cfg.fl (o.kind k.m) = false then
          some (emit (dropTx (setStage s c .done) c) (.discard c))
        else if cfg.fl = .sharedMut then
          some { setStage s c .acquiring with loop := .acquiring c }
        else some (startExec cfg s c)
      else none
  | .acquire =>
    match s.loop with
    | .acquiring c =>
      if o.kind (s.calls c).m = .ref then
        if c < s.n ∧ s.writer = none then some (startExec cfg { s with readers := s.readers ++ [c] } c) else none
      else
        if c < s.n ∧ s.writer = none ∧ s.readers = [] then some (startExec cfg { s with writer := some c } c) else none
    | _ => none
  | .execStep c =>
    let k := s.calls c
    if c < s.n ∧ k.stage = .executing ∧ ¬ (o.cancellable k.m = true ∧ s.closed c = true) then
      let p := o.seg k.m k.a k.pc (k.loc, s.σ)
      let s1 := emit { s with σ := p.2 } (.seg c k.pc)
      if k.pc < o.nseg k.m k.a then
        some { s1 with calls := upd s1.calls c { k with pc := k.pc + 1, loc := p.1 } }
      else
        let r := o.ret k.m k.a p.1
        let st : Stage := if s.closed c then .done else .replying r
        let s2 := { s1 with calls := upd s1.calls c { k with pc := k.pc + 1, loc := p.1, stage := st } }
        some (emit (endExec s2 c) (.fin c k.m k.a r))
    else none
  | .execCancel c =>
    let k := s.calls c
    if c < s.n ∧ k.stage = .executing ∧ o.cancellable k.m = true ∧ s.closed c = true then
      some (emit (endExec (dropTx (setStage s c .done) c) c) (.cancel c k.m k.a k.pc))
    else none
  | .deliver c =>
    let k := s.calls c
    match k.stage with
    | .replying r =>
      if s.n ≤ c then none else
      if cfg.remote k.client = true ∧ s.connUp = false then
        some (dropTx (setStage s c .done) c)
      else if cfg.remote k.client = false ∨ o.fits k.client k.m k.a r = true then
        let s := setStage s c .done
        some { s with chans := upd s.chans k.rch { s.chans k.rch with val := some r } }
      else
        some (emit (dropTx (setStage s c .reporting) c) (.replyErr c))
    | _ => none
  | .report c =>
    if c < s.n ∧ (s.calls c).stage = .reporting then some { setStage s c .done with errQ := s.errQ + 1 } else none
  | .serveErr =>
    if s.loop = .idle ∧ 0 < s.errQ ∧ cfg.variant = .pinned then some { s with loop := .stopped .replyErr } else none
  | .purge c =>
    if c < s.n ∧ (s.calls c).stage = .queued ∧ s.loop.isStopped = true then
      some { dropTx (setStage s c .done) c with queue := s.queue.filter (· != c) }
    else none
  | .serveEnd =>
    if s.loop = .idle ∧ (s.clientsGone = true ∨ allDead cfg s = true) ∧ s.queue = [] ∧ (cfg.variant = .pinned → s.errQ = 0)
        -- after the loop `serve` waits until every clone of `err_tx` is gone: spawned executions
        -- and reply transmissions have ended
        ∧ s.spawned = []
        ∧ (List.range s.n).all (fun c => (s.calls c).stage != .sending && !(s.calls c).stage.inReplyTask
              -- a pending call borrows its client handle
              && ((s.calls c).cl != .waiting || dead cfg s (s.calls c).client)) = true then
      some { s with loop := .stopped .clientsGone }
    else none

def run (cfg : Cfg) (s : State o) : List Label → State o
  | [] => s
  | l :: ls => match step cfg s l with
    | some s' => run cfg s' ls
    | none => run cfg s ls

def Reachable (cfg : Cfg) (s : State o) : Prop := ∃ ls, run cfg (init o) ls = s

/-- internal labels: what the runtime does on its own -/
def Label.internal : Label → Bool
  | .issue .. | .abandon _ | .abandonEarly _ | .connLoss | .dropClients => false
  | _ => true

def Quiescent (cfg : Cfg) (s : State o) : Prop := ∀ l, l.internal = true → step cfg s l = none

theorem run_append (cfg : Cfg) (s : State o) (l1 l2 : List Label) :
    run cfg s (l1 ++ l2) = run cfg (run cfg s l1) l2 := by
  induction l1 generalizing s with
  | nil => rfl
  | cons l ls ih =>
    simp only [List.cons_append, run]
    split <;> exact ih _

/-- generic invariant principle -/
theorem reachable_induction (cfg : Cfg) (P : State o → Prop) (h0 : P (init o))
    (hstep : ∀ s l s', P s → step cfg s l = some s' → P s') :
    ∀ s, Reachable cfg s → P s := by
  intro s ⟨ls, hs⟩
  subst hs
  have : ∀ (ls : List Label) (s0 : State o), P s0 → P (run cfg s0 ls) := by
    intro ls
    induction ls with
    | nil => intro s0 h; exact h
    | cons l ls ih =>
      intro s0 h
      simp only [run]
      split
      · rename_i s' hs; exact ih s' (hstep s0 l s' h hs)
      · exact ih s0 h
  exact this ls _ h0

theorem reachable_step (cfg : Cfg) (s s' : State o) (l : Label) (h : Reachable cfg s)
    (hs : step cfg s l = some s') : Reachable cfg s' := by
  obtain ⟨ls, rfl⟩ := h
  refine ⟨ls ++ [l], ?_⟩
  rw [run_append]
  simp [run, hs]

/-! ### the sequential object -/

/-- run the first `k` segments of method `m a` -/
def runSegs (o : Obj) (m a : Nat) : Nat → o.Loc × o.σ → o.Loc × o.σ
  | 0, x => x
  | k + 1, x => o.seg m a k (runSegs o m a k x)

/-- the sequential specification: a complete call -/
def Obj.call (o : Obj) (m a : Nat) (s : o.σ) : o.σ × Nat :=
  let p := runSegs o m a (o.nseg m a + 1) (o.init m a, s)
  (p.2, o.ret m a p.1)

/-- methods taking `&self` do not modify the object -/
def Obj.ReadOnly (o : Obj) : Prop :=
  ∀ m a k x, o.kind m = .ref → (o.seg m a k x).2 = x.2

end Remoc.Rtc
