/-
M_wire: the chmux wire format, protocol version 3, written from the published
layout (message codes, flag bits, little-endian fields).  This file is the
*independent statement* of the format; it is pinned and never regenerated from
the Rust source (a regenerated model would follow an incompatible change
instead of flagging it).  No Mathlib imports: the driver links as an executable.
-/

namespace Remoc.Wire

abbrev Bytes := List UInt8

/-- Configuration exchanged in `Hello`.  `timeoutMs = 0` means "no timeout". -/
structure XCfg where
  timeoutMs : Nat
  chunk : Nat
  buf : Nat
  cq : Nat
deriving DecidableEq, Repr, Inhabited

inductive Msg where
  | reset
  | hello (version : Nat) (cfg : XCfg)
  | ping
  | openPort (clientPort : Nat) (wait : Bool) (id : Option Nat)
  | portOpened (clientPort serverPort : Nat)
  | rejected (clientPort : Nat) (noPorts : Bool)
  | data (port : Nat) (first last : Bool)
  | portData (port : Nat) (first last wait : Bool) (ports : List Nat) (ids : Option (List Nat))
  | portCredits (port credits : Nat)
  | sendFinish (port : Nat)
  | receiveClose (port : Nat)
  | receiveFinish (port : Nat)
  | clientFinish
  | listenerFinish
  | goodbye
deriving DecidableEq, Repr, Inhabited

inductive Err where
  | eof       -- io::ErrorKind::UnexpectedEof
  | invalid   -- io::ErrorKind::InvalidData
deriving DecidableEq, Repr

/-! ### little-endian fields -/

/-- `k` little-endian bytes of `n`. -/
def le : Nat → Nat → Bytes
  | 0, _ => []
  | k+1, n => UInt8.ofNat (n % 256) :: le k (n / 256)

/-- value of a little-endian byte string -/
def leVal : Bytes → Nat
  | [] => 0
  | b :: bs => b.toNat + 256 * leVal bs

def b2n (b : Bool) : Nat := if b then 1 else 0

/-- test bit `i` of a flag byte -/
def bit (f : Nat) (i : Nat) : Bool := (f / 2 ^ i) % 2 == 1

def magic : Bytes := [0x43, 0x48, 0x4D, 0x55, 0x58, 0x00]  -- "CHMUX\0"

/-! ### encoder -/

def encPortsIds : List Nat → List Nat → Bytes
  | p :: ps, i :: is => le 4 p ++ le 4 i ++ encPortsIds ps is
  | _, _ => []

def encPorts : List Nat → Bytes
  | [] => []
  | p :: ps => le 4 p ++ encPorts ps

def encCfg (c : XCfg) : Bytes :=
  le 8 c.timeoutMs ++ le 4 c.chunk ++ le 4 c.buf ++ le 2 c.cq

def encode : Msg → Bytes
  | .reset => [1]
  | .hello v c => [2] ++ magic ++ le 1 v ++ encCfg c
  | .ping => [3]
  | .openPort p w none => [4] ++ le 4 p ++ le 1 (b2n w)
  | .openPort p w (some i) => [4] ++ le 4 p ++ le 1 (b2n w + 2) ++ le 4 i
  | .portOpened c s => [5] ++ le 4 c ++ le 4 s
  | .rejected c n => [6] ++ le 4 c ++ le 1 (b2n n)
  | .data p f l => [7] ++ le 4 p ++ le 1 (b2n f + 2 * b2n l)
  | .portData p f l w ps none =>
      [8] ++ le 4 p ++ le 1 (b2n f + 2 * b2n l + 4 * b2n w) ++ encPorts ps
  | .portData p f l w ps (some is) =>
      [8] ++ le 4 p ++ le 1 (b2n f + 2 * b2n l + 4 * b2n w + 8) ++ encPortsIds ps is
  | .portCredits p c => [9] ++ le 4 p ++ le 4 c
  | .sendFinish p => [10] ++ le 4 p
  | .receiveClose p => [11] ++ le 4 p
  | .receiveFinish p => [12] ++ le 4 p
  | .clientFinish => [13]
  | .listenerFinish => [14]
  | .goodbye => [15]

/-! ### decoder (accepts what a version-3 endpoint must accept) -/

/-- read a `k`-byte little-endian unsigned field -/
def rd (k : Nat) (bs : Bytes) : Except Err (Nat × Bytes) :=
  if bs.length < k then .error .eof else .ok (leVal (bs.take k), bs.drop k)

/-- port list without ids: u32 values until fewer than four bytes remain -/
def rdPorts : Bytes → List Nat
  | a :: b :: c :: d :: rest => leVal [a, b, c, d] :: rdPorts rest
  | _ => []

/-- port list with ids: (port, id) pairs; a port without a complete id is an error -/
def rdPortsIds : Bytes → Except Err (List Nat × List Nat)
  | a :: b :: c :: d :: e :: f :: g :: h :: rest =>
    match rdPortsIds rest with
    | .ok (ps, is) => .ok (leVal [a, b, c, d] :: ps, leVal [e, f, g, h] :: is)
    | .error e => .error e
  | _ :: _ :: _ :: _ :: _ => .error .eof
  | _ => .ok ([], [])

def decCfg (bs : Bytes) : Except Err XCfg :=
  match rd 8 bs with
  | .error e => .error e
  | .ok (t, bs) =>
  match rd 4 bs with
  | .error e => .error e
  | .ok (chunk, bs) =>
  if chunk < 4 then .error .invalid else
  match rd 4 bs with
  | .error e => .error e
  | .ok (buf, bs) =>
  if buf < 4 then .error .invalid else
  match rd 2 bs with
  | .error e => .error e
  | .ok (cq, _) =>
  if cq < 1 then .error .invalid else
  .ok { timeoutMs := t, chunk := chunk, buf := buf, cq := cq }

def rdPort (bs : Bytes) (k : Nat → Msg) : Except Err Msg :=
  match rd 4 bs with
  | .error e => .error e
  | .ok (p, _) => .ok (k p)

def decodeBody : Nat → Bytes → Except Err Msg
  | 1, _ => .ok .reset
  | 2, bs =>
      if bs.length < 6 then .error .eof else
      if bs.take 6 ≠ magic then .error .invalid else
      match rd 1 (bs.drop 6) with
      | .error e => .error e
      | .ok (v, bs) =>
      match decCfg bs with
      | .error e => .error e
      | .ok c => .ok (.hello v c)
  | 3, _ => .ok .ping
  | 4, bs =>
      match rd 4 bs with
      | .error e => .error e
      | .ok (p, bs) =>
      match rd 1 bs with
      | .error e => .error e
      | .ok (f, bs) =>
      if bit f 1 then
        match rd 4 bs with
        | .error e => .error e
        | .ok (i, _) => .ok (.openPort p (bit f 0) (some i))
      else .ok (.openPort p (bit f 0) none)
  | 5, bs =>
      match rd 4 bs with
      | .error e => .error e
      | .ok (c, bs) =>
      match rd 4 bs with
      | .error e => .error e
      | .ok (s, _) => .ok (.portOpened c s)
  | 6, bs =>
      match rd 4 bs with
      | .error e => .error e
      | .ok (c, bs) =>
      match rd 1 bs with
      | .error e => .error e
      | .ok (f, _) => .ok (.rejected c (bit f 0))
  | 7, bs =>
      match rd 4 bs with
      | .error e => .error e
      | .ok (p, bs) =>
      match rd 1 bs with
      | .error e => .error e
      | .ok (f, _) => .ok (.data p (bit f 0) (bit f 1))
  | 8, bs =>
      match rd 4 bs with
      | .error e => .error e
      | .ok (p, bs) =>
      match rd 1 bs with
      | .error e => .error e
      | .ok (f, bs) =>
      if bit f 3 then
        match rdPortsIds bs with
        | .error e => .error e
        | .ok (ps, is) => .ok (.portData p (bit f 0) (bit f 1) (bit f 2) ps (some is))
      else .ok (.portData p (bit f 0) (bit f 1) (bit f 2) (rdPorts bs) none)
  | 9, bs =>
      match rd 4 bs with
      | .error e => .error e
      | .ok (p, bs) =>
      match rd 4 bs with
      | .error e => .error e
      | .ok (c, _) => .ok (.portCredits p c)
  | 10, bs => rdPort bs .sendFinish
  | 11, bs => rdPort bs .receiveClose
  | 12, bs => rdPort bs .receiveFinish
  | 13, _ => .ok .clientFinish
  | 14, _ => .ok .listenerFinish
  | 15, _ => .ok .goodbye
  | _, _ => .error .invalid

def decode : Bytes → Except Err Msg
  | [] => .error .eof
  | code :: bs => decodeBody code.toNat bs

/-! ### well-formedness: what a Rust `MultiplexMsg` value can hold -/

def u8 (n : Nat) : Prop := n < 256
def u16 (n : Nat) : Prop := n < 65536
def u32 (n : Nat) : Prop := n < 4294967296
def u64 (n : Nat) : Prop := n < 18446744073709551616

def XCfg.WF (c : XCfg) : Prop :=
  u64 c.timeoutMs ∧ u32 c.chunk ∧ 4 ≤ c.chunk ∧ u32 c.buf ∧ 4 ≤ c.buf ∧ u16 c.cq ∧ 1 ≤ c.cq

def Msg.WF : Msg → Prop
  | .hello v c => u8 v ∧ c.WF
  | .openPort p _ none => u32 p
  | .openPort p _ (some i) => u32 p ∧ u32 i
  | .portOpened c s => u32 c ∧ u32 s
  | .rejected c _ => u32 c
  | .data p _ _ => u32 p
  | .portData p _ _ _ ps none => u32 p ∧ ∀ x ∈ ps, u32 x
  | .portData p _ _ _ ps (some is) =>
      u32 p ∧ (∀ x ∈ ps, u32 x) ∧ (∀ x ∈ is, u32 x) ∧ ps.length = is.length
  | .portCredits p c => u32 p ∧ u32 c
  | .sendFinish p => u32 p
  | .receiveClose p => u32 p
  | .receiveFinish p => u32 p
  | _ => True

/-! ### version negotiation: what is sent to a peer that announced version `v` -/

/-- lowest protocol version that understands port ids -/
def versionPortId : Nat := 3

/-- the message as put on the wire for a peer of version `v` -/
def forPeer (v : Nat) : Msg → Msg
  | .openPort p w id => .openPort p w (if v ≥ versionPortId then id else none)
  | .portData p f l w ps ids => .portData p f l w ps (if v ≥ versionPortId then ids else none)
  | m => m

/-- does the encoded message carry the id flag? (flag byte is at offset 5) -/
def hasIdFlag (bs : Bytes) : Bool :=
  match bs with
  | code :: _ :: _ :: _ :: _ :: f :: _ =>
    (code.toNat == 4 && bit f.toNat 1) || (code.toNat == 8 && bit f.toNat 3)
  | _ => false

/-! ### stream framing of `Connect::io`: 4-byte little-endian length prefix -/

def frame (payload : Bytes) : Bytes := le 4 payload.length ++ payload

/-- Try to split one frame off the front of a byte stream.  `none`: need more bytes. -/
def unframe (maxLen : Nat) (bs : Bytes) : Except Err (Option (Bytes × Bytes)) :=
  if bs.length < 4 then .ok none else
  let n := leVal (bs.take 4)
  if n > maxLen then .error .invalid else
  if (bs.drop 4).length < n then .ok none else
  .ok (some ((bs.drop 4).take n, (bs.drop 4).drop n))

/-- Split a byte stream into frames by repeated `unframe` (what the reading half of `Connect::io`
does with the bytes it is given, however they were partitioned into reads); returns the complete
frames and the unconsumed rest.  `fuel` bounds the number of frames. -/
def splitFrames (maxLen : Nat) : Nat → Bytes → List Bytes → Except Err (List Bytes × Bytes)
  | 0, bs, acc => .ok (acc.reverse, bs)
  | fuel + 1, bs, acc =>
    match unframe maxLen bs with
    | .error e => .error e
    | .ok none => .ok (acc.reverse, bs)
    | .ok (some (f, rest)) => splitFrames maxLen fuel rest (f :: acc)

/-- `MAX_MSG_LENGTH`: the header budget on top of `chunk_size` in `max_frame_length` -/
def maxMsgLength : Nat := 16

end Remoc.Wire
