import RemocModel.Wire.Model

namespace Remoc.Wire

@[simp] theorem le_length (k n : Nat) : (le k n).length = k := by
  induction k generalizing n with
  | zero => rfl
  | succ k ih => simp [le, ih]

theorem leVal_le (k n : Nat) (h : n < 256 ^ k) : leVal (le k n) = n := by
  induction k generalizing n with
  | zero => simp [le, leVal] at *; omega
  | succ k ih =>
    have h2 : n / 256 < 256 ^ k := by
      rw [Nat.pow_succ] at h
      exact Nat.div_lt_of_lt_mul (by rw [Nat.mul_comm]; exact h)
    simp only [le, leVal, ih _ h2]
    have : (UInt8.ofNat (n % 256)).toNat = n % 256 := by
      simp [UInt8.toNat_ofNat']
    omega

theorem rd_le (k n : Nat) (rest : Bytes) (h : n < 256 ^ k) :
    rd k (le k n ++ rest) = .ok (n, rest) := by
  unfold rd
  have hl : ¬ ((le k n ++ rest).length < k) := by simp
  rw [if_neg hl]
  have h1 : (le k n ++ rest).take k = le k n := by
    rw [List.take_append_of_le_length (by simp)]; simp [List.take_of_length_le]
  have h2 : (le k n ++ rest).drop k = rest := by
    rw [List.drop_append_of_le_length (by simp)]; simp [List.drop_of_length_le]
  rw [h1, h2, leVal_le k n h]

theorem rd1 (n : Nat) (rest : Bytes) (h : n < 256) : rd 1 (le 1 n ++ rest) = .ok (n, rest) :=
  rd_le 1 n rest (by simpa using h)
theorem rd2 (n : Nat) (rest : Bytes) (h : u16 n) : rd 2 (le 2 n ++ rest) = .ok (n, rest) :=
  rd_le 2 n rest (by simpa [u16] using h)
theorem rd4 (n : Nat) (rest : Bytes) (h : u32 n) : rd 4 (le 4 n ++ rest) = .ok (n, rest) :=
  rd_le 4 n rest (by simpa [u32] using h)
theorem rd8 (n : Nat) (rest : Bytes) (h : u64 n) : rd 8 (le 8 n ++ rest) = .ok (n, rest) :=
  rd_le 8 n rest (by simpa [u64] using h)

theorem rd4' (n : Nat) (h : u32 n) : rd 4 (le 4 n) = .ok (n, []) := by
  have := rd4 n [] h; simpa using this

/-- four explicit bytes of a u32 -/
theorem le4_cons (n : Nat) : ∃ a b c d, le 4 n = [a, b, c, d] := by
  simp [le]

theorem leVal4 (n : Nat) (h : u32 n) (a b c d : UInt8) (e : le 4 n = [a, b, c, d]) :
    leVal [a, b, c, d] = n := by
  rw [← e]; exact leVal_le 4 n (by simpa [u32] using h)

theorem rdPorts_enc (ps : List Nat) (h : ∀ x ∈ ps, u32 x) : rdPorts (encPorts ps) = ps := by
  induction ps with
  | nil => simp [encPorts, rdPorts]
  | cons p ps ih =>
    obtain ⟨a, b, c, d, e⟩ := le4_cons p
    have hp : u32 p := h p (by simp)
    simp only [encPorts, e, List.cons_append, List.nil_append, rdPorts]
    rw [leVal4 p hp a b c d e, ih (fun x hx => h x (by simp [hx]))]

theorem rdPortsIds_enc (ps is : List Nat) (hp : ∀ x ∈ ps, u32 x) (hi : ∀ x ∈ is, u32 x)
    (hl : ps.length = is.length) : rdPortsIds (encPortsIds ps is) = .ok (ps, is) := by
  induction ps generalizing is with
  | nil =>
    cases is with
    | nil => simp [encPortsIds, rdPortsIds]
    | cons _ _ => simp at hl
  | cons p ps ih =>
    cases is with
    | nil => simp at hl
    | cons i is =>
      obtain ⟨a, b, c, d, e⟩ := le4_cons p
      obtain ⟨a', b', c', d', e'⟩ := le4_cons i
      have hp' : u32 p := hp p (by simp)
      have hi' : u32 i := hi i (by simp)
      simp only [encPortsIds, e, e', List.cons_append, List.nil_append, rdPortsIds]
      rw [ih is (fun x hx => hp x (by simp [hx])) (fun x hx => hi x (by simp [hx]))
        (by simpa using hl)]
      simp only [leVal4 p hp' a b c d e, leVal4 i hi' a' b' c' d' e']

theorem decode_cons (c : UInt8) (bs : Bytes) : decode (c :: bs) = decodeBody c.toNat bs := rfl

theorem bit_b2n0 (a : Bool) (r : Nat) : bit (b2n a + 2 * r) 0 = a := by
  cases a <;> simp [bit, b2n] <;> omega

end Remoc.Wire
