import RemocModel.Table.ConnFlag
set_option linter.unusedSimpArgs false
set_option linter.unusedVariables false
/-
One side: the port allocator.  The numbers in use are exactly the table entries and the numbers
held by API objects (queued connect requests, queued `Accepted` events), each once, at most
`max_ports` (chmux/port_allocator.rs; `PortNumber::drop` releases).
-/
namespace Remoc.Table.Sys
open Remoc.Wire Remoc.Table

/-- allocator state against the table, with `H` = the numbers held outside the table -/
structure AllocCore (H : Nat → Prop) (e : Ep) : Prop where
  mem : ∀ q, q ∈ e.allocated ↔ ((lookup e.ports q).isSome = true ∨ H q)
  disj : ∀ q, H q → lookup e.ports q = none
  nd : e.allocated.Nodup
  le : e.allocated.length ≤ e.cfg.maxPorts

theorem AllocCore.congrH {H H' : Nat → Prop} {e : Ep} (h : AllocCore H e) (hh : ∀ q, H' q ↔ H q) : AllocCore H' e :=
  ⟨fun q => by rw [hh]; exact h.mem q, fun q hq => h.disj q ((hh q).mp hq), h.nd, h.le⟩

theorem filter_ne_length_le (l : List Nat) (p : Nat) : (l.filter (· != p)).length ≤ l.length :=
  List.length_filter_le _ l

/-- a held number becomes a table entry -/
theorem AllocCore.enter {H : Nat → Prop} {e : Ep} (h : AllocCore H e) (p : Nat) (st : PortSt) (hp : H p)
    (e' : Ep) (ha : e'.allocated = e.allocated) (hc : e'.cfg = e.cfg) (hports : e'.ports = setPort e.ports p st) :
    AllocCore (fun q => H q ∧ q ≠ p) e' := by
  refine ⟨fun q => ?_, fun q hq => ?_, by rw [ha]; exact h.nd, by rw [ha, hc]; exact h.le⟩
  · rw [ha, hports, h.mem q, lookup_setPort]
    by_cases hq : q = p
    · subst hq; simp [hp]
    · simp [hq]
  · rw [hports, lookup_setPort]; simp only [hq.2, if_false]; exact h.disj q hq.1

/-- an existing entry is rewritten -/
theorem AllocCore.rewrite {H : Nat → Prop} {e : Ep} (h : AllocCore H e) (p : Nat) (st : PortSt)
    (hp : (lookup e.ports p).isSome = true)
    (e' : Ep) (ha : e'.allocated = e.allocated) (hc : e'.cfg = e.cfg) (hports : e'.ports = setPort e.ports p st) :
    AllocCore H e' := by
  refine ⟨fun q => ?_, fun q hq => ?_, by rw [ha]; exact h.nd, by rw [ha, hc]; exact h.le⟩
  · rw [ha, hports, h.mem q, lookup_setPort]
    by_cases hq : q = p
    · subst hq; simp [hp]
    · simp [hq]
  · rw [hports, lookup_setPort]
    have hne : q ≠ p := by intro h'; subst h'; rw [h.disj q hq] at hp; simp at hp
    simp only [hne, if_false]; exact h.disj q hq

/-- an entry is removed and its number released -/
theorem AllocCore.leave {H : Nat → Prop} {e : Ep} (h : AllocCore H e) (p : Nat)
    (hp : (lookup e.ports p).isSome = true)
    (e' : Ep) (ha : e'.allocated = e.allocated.filter (· != p)) (hc : e'.cfg = e.cfg)
    (hports : e'.ports = erase e.ports p) : AllocCore H e' := by
  have hnh : ¬ H p := fun hh => by rw [h.disj p hh] at hp; simp at hp
  refine ⟨fun q => ?_, fun q hq => ?_, by rw [ha]; exact h.nd.filter _, ?_⟩
  · rw [ha, hports, List.mem_filter, h.mem q, lookup_erase]
    by_cases hq : q = p
    · subst hq; simp [hnh]
    · simp [hq]
  · rw [hports, lookup_erase]
    have hne : q ≠ p := by intro h'; subst h'; exact hnh hq
    simp only [hne, if_false]; exact h.disj q hq
  · rw [ha, hc]; exact Nat.le_trans (filter_ne_length_le _ _) h.le

/-- a held number is released without ever entering the table -/
theorem AllocCore.release {H : Nat → Prop} {e : Ep} (h : AllocCore H e) (p : Nat) (hp : H p)
    (e' : Ep) (ha : e'.allocated = e.allocated.filter (· != p)) (hc : e'.cfg = e.cfg)
    (hports : e'.ports = e.ports) : AllocCore (fun q => H q ∧ q ≠ p) e' := by
  refine ⟨fun q => ?_, fun q hq => by rw [hports]; exact h.disj q hq.1, by rw [ha]; exact h.nd.filter _, ?_⟩
  · rw [ha, hports, List.mem_filter, h.mem q]
    by_cases hq : q = p
    · subst hq; simp [h.disj q hp]
    · simp [hq]
  · rw [ha, hc]; exact Nat.le_trans (filter_ne_length_le _ _) h.le

/-- `try_allocate` hands out a fresh number -/
theorem AllocCore.alloc {H : Nat → Prop} {e : Ep} (h : AllocCore H e) (p : Nat) (hc : canAlloc e p = true)
    (e' : Ep) (ha : e'.allocated = e.allocated ++ [p]) (hcfg : e'.cfg = e.cfg) (hports : e'.ports = e.ports) :
    AllocCore (fun q => H q ∨ q = p) e' := by
  simp only [canAlloc, Bool.and_eq_true, Bool.not_eq_true', decide_eq_true_eq] at hc
  have hnin : p ∉ e.allocated := by
    intro hin; have : e.allocated.contains p = true := by simpa using hin
    rw [hc.1] at this; simp at this
  refine ⟨fun q => ?_, fun q hq => ?_, ?_, ?_⟩
  · rw [ha, hports, List.mem_append, h.mem q]; simp [or_assoc]
  · rw [hports]
    rcases hq with hq | rfl
    · exact h.disj q hq
    · cases hl : lookup e.ports q with
      | none => rfl
      | some st => exact absurd ((h.mem q).mpr (Or.inl (by simp [hl]))) hnin
  · rw [ha, List.nodup_append]
    exact ⟨h.nd, by simp, fun a ha' b hb => by simp at hb; subst hb; intro hab; subst hab; exact hnin ha'⟩
  · rw [ha, hcfg]; simp only [List.length_append, List.length_singleton]; omega

/-- `maybe_free_port` -/
theorem AllocCore.maybeFree {H : Nat → Prop} {e : Ep} (h : AllocCore H e) (p : Nat) : AllocCore H (maybeFree e p) := by
  unfold Remoc.Table.maybeFree
  split
  · rename_i c hc
    split
    · exact h.leave p (by simp [hc]) _ rfl rfl rfl
    · exact h
  · exact h

theorem AllocCore.congr {H : Nat → Prop} {e e' : Ep} (h : AllocCore H e) (hp : e'.ports = e.ports)
    (ha : e'.allocated = e.allocated) (hc : e'.cfg = e.cfg) : AllocCore H e' :=
  ⟨by rw [hp, ha]; exact h.mem, by rw [hp]; exact h.disj, by rw [ha]; exact h.nd, by rw [ha, hc]; exact h.le⟩

/-- the port number an event carries into the table -/
def heldOf : Evt → Option Nat
  | .connectReq p _ _ => some p
  | .accepted lp _ => some lp
  | _ => none

theorem alloc_evt (H : Nat → Prop) (e e' : Ep) (ev : Evt) (m : Option Msg) (he : handleEvt e ev = some (e', m))
    (h : AllocCore H e) (hh : ∀ p, heldOf ev = some p → H p) :
    AllocCore (fun q => H q ∧ heldOf ev ≠ some q) e' := by
  cases ev with
  | connectReq p w i =>
    have hp := hh p rfl
    simp only [handleEvt] at he
    (repeat' split at he) <;> first
      | (simp at he; done)
      | (simp only [Option.some.injEq, Prod.mk.injEq] at he; obtain ⟨rfl, _⟩ := he
         refine AllocCore.congrH (H := fun q => H q ∧ q ≠ p) ?_ (fun q => by simp [heldOf, eq_comm])
         exact h.release p hp _ rfl rfl rfl)
      | (simp only [Option.some.injEq, Prod.mk.injEq] at he; obtain ⟨rfl, _⟩ := he
         refine AllocCore.congrH (H := fun q => H q ∧ q ≠ p) ?_ (fun q => by simp [heldOf, eq_comm])
         exact h.enter p .connecting hp _ rfl rfl rfl)
  | accepted lp rp =>
    have hp := hh lp rfl
    simp only [handleEvt] at he
    (repeat' split at he) <;> first
      | (simp at he; done)
      | (simp only [Option.some.injEq, Prod.mk.injEq] at he; obtain ⟨rfl, _⟩ := he
         refine AllocCore.congrH (H := fun q => H q ∧ q ≠ lp) ?_ (fun q => by simp [heldOf, eq_comm])
         exact h.enter lp _ hp _ rfl rfl rfl)
  | senderDropped p =>
    simp only [handleEvt] at he
    (repeat' split at he) <;> first
      | (simp at he; done)
      | (rename_i c hc _
         simp only [Option.some.injEq, Prod.mk.injEq] at he; obtain ⟨rfl, _⟩ := he
         refine AllocCore.congrH (H := H) ?_ (fun q => by simp [heldOf])
         refine AllocCore.maybeFree ?_ p
         exact h.rewrite p _ (by simp [hc]) _ rfl rfl rfl)
  | receiverDropped p =>
    simp only [handleEvt] at he
    (repeat' split at he) <;> first
      | (simp at he; done)
      | (rename_i c hc _
         simp only [Option.some.injEq, Prod.mk.injEq] at he; obtain ⟨rfl, _⟩ := he
         refine AllocCore.congrH (H := H) ?_ (fun q => by simp [heldOf])
         refine AllocCore.maybeFree ?_ p
         exact h.rewrite p _ (by simp [hc]) _ rfl rfl rfl)
  | receiverClosed p =>
    simp only [handleEvt] at he
    (repeat' split at he) <;> first
      | (simp at he; done)
      | (rename_i c hc _
         simp only [Option.some.injEq, Prod.mk.injEq] at he; obtain ⟨rfl, _⟩ := he
         refine AllocCore.congrH (H := H) ?_ (fun q => by simp [heldOf])
         exact h.rewrite p _ (by simp [hc]) _ rfl rfl rfl)
  | _ =>
    simp only [handleEvt] at he
    (repeat' split at he) <;> first
      | (simp at he; done)
      | (simp only [Option.some.injEq, Prod.mk.injEq] at he; obtain ⟨rfl, _⟩ := he
         refine AllocCore.congrH (H := H) ?_ (fun q => by simp [heldOf])
         exact h.congr rfl rfl rfl)

theorem alloc_rx (H : Nat → Prop) (e e' : Ep) (m : Msg) (em : Emit) (he : handleRx e m = .ok (e', em))
    (h : AllocCore H e) : AllocCore H e' := by
  cases m with
  | reset => simp [handleRx] at he
  | hello v c => simp [handleRx] at he
  | portOpened cp sp =>
    simp only [handleRx] at he
    split at he
    · rename_i hl
      simp only [Except.ok.injEq, Prod.mk.injEq] at he; obtain ⟨rfl, _⟩ := he
      exact h.rewrite cp _ (by simp [hl]) _ rfl rfl rfl
    · simp at he
  | rejected cp np =>
    simp only [handleRx] at he
    split at he
    · rename_i hl
      simp only [Except.ok.injEq, Prod.mk.injEq] at he; obtain ⟨rfl, _⟩ := he
      exact h.leave cp (by simp [hl]) _ rfl rfl rfl
    · simp at he
  | sendFinish p =>
    simp only [handleRx] at he
    (repeat' split at he) <;> first
      | (simp at he; done)
      | (rename_i c hc _
         simp only [Except.ok.injEq, Prod.mk.injEq] at he; obtain ⟨rfl, _⟩ := he
         refine AllocCore.maybeFree ?_ p
         exact h.rewrite p _ (by simp [hc]) _ rfl rfl rfl)
  | receiveClose p =>
    simp only [handleRx] at he
    (repeat' split at he) <;> first
      | (simp at he; done)
      | (rename_i c hc _
         simp only [Except.ok.injEq, Prod.mk.injEq] at he; obtain ⟨rfl, _⟩ := he
         refine AllocCore.maybeFree ?_ p
         exact h.rewrite p _ (by simp [hc]) _ rfl rfl rfl)
  | receiveFinish p =>
    simp only [handleRx] at he
    (repeat' split at he) <;> first
      | (simp at he; done)
      | (rename_i c hc
         simp only [Except.ok.injEq, Prod.mk.injEq] at he; obtain ⟨rfl, _⟩ := he
         refine AllocCore.maybeFree ?_ p
         exact h.rewrite p _ (by simp [hc]) _ rfl rfl rfl)
  | portData p f l w ps ids =>
    simp only [handleRx] at he
    (repeat' split at he) <;> first
      | (simp at he; done)
      | (rename_i c hc _ _ _ _
         simp only [Except.ok.injEq, Prod.mk.injEq] at he; obtain ⟨rfl, _⟩ := he
         exact h.rewrite p _ (by simp [hc]) _ rfl rfl rfl)
  | portCredits p n =>
    simp only [handleRx] at he
    (repeat' split at he) <;> first
      | (simp at he; done)
      | (rename_i c hc _
         simp only [Except.ok.injEq, Prod.mk.injEq] at he; obtain ⟨rfl, _⟩ := he
         exact h.rewrite p _ (by simp [hc]) _ rfl rfl rfl)
  | _ =>
    simp only [handleRx] at he
    (repeat' split at he) <;> first
      | (simp at he; done)
      | (simp only [Except.ok.injEq, Prod.mk.injEq] at he; obtain ⟨rfl, _⟩ := he
         exact h.congr rfl rfl rfl)

structure AllocInv (s : Side) : Prop where
  core : AllocCore (fun q => q ∈ heldNums s) s.ep
  hnd : (heldNums s).Nodup

theorem connPorts_append (a b : List Evt) : connPorts (a ++ b) = connPorts a ++ connPorts b := by
  induction a with
  | nil => rfl
  | cons m w ih => cases m <;> simp [connPorts, ih]
theorem accPorts_append (a b : List Evt) : accPorts (a ++ b) = accPorts a ++ accPorts b := by
  induction a with
  | nil => rfl
  | cons m w ih => cases m <;> simp [accPorts, ih]
theorem connPorts_cons (ev : Evt) (q : List Evt) : connPorts (ev :: q) = connPorts [ev] ++ connPorts q := by
  cases ev <;> simp [connPorts]
theorem accPorts_cons (ev : Evt) (q : List Evt) : accPorts (ev :: q) = accPorts [ev] ++ accPorts q := by
  cases ev <;> simp [accPorts]

theorem connEvt_held (ev : Evt) (h : isConnEvt ev = true) : connPorts [ev] = (heldOf ev).toList := by
  cases ev <;> simp [isConnEvt] at h <;> simp [connPorts, heldOf]
theorem portEvt_held (ev : Evt) (h : isPortEvt ev = true) : accPorts [ev] = (heldOf ev).toList := by
  cases ev <;> simp [isPortEvt] at h <;> simp [accPorts, heldOf]
theorem accPorts_rejectAll (q : List (Nat × Bool)) :
    accPorts (q.map (fun r => Evt.rejected r.1 false)) = [] := by
  induction q with
  | nil => rfl
  | cons a as ih => simp [accPorts, ih]
theorem accPorts_auto (em : List Msg) : accPorts (autoEvts em) = [] := by
  induction em with
  | nil => rfl
  | cons m w ih => cases m <;> simp [autoEvts, accPorts, ih]

/-- removing the head number of a duplicate-free list of held numbers -/
theorem held_pop (L L' : List Nat) (o : Option Nat) (hp : L.Perm (o.toList ++ L')) (hnd : L.Nodup) :
    L'.Nodup ∧ (∀ p, o = some p → p ∈ L) ∧ ∀ q, (q ∈ L ∧ o ≠ some q) ↔ q ∈ L' := by
  cases o with
  | none =>
    simp only [Option.toList, List.nil_append] at hp
    exact ⟨hp.nodup_iff.mp hnd, fun p h => by simp at h, fun q => by rw [hp.mem_iff]; simp⟩
  | some p =>
    simp only [Option.toList, List.singleton_append] at hp
    have h2 := hp.nodup_iff.mp hnd
    rw [List.nodup_cons] at h2
    refine ⟨h2.2, fun p' h => by injection h with h; subst h; rw [hp.mem_iff]; simp, fun q => ?_⟩
    rw [hp.mem_iff]; simp only [List.mem_cons, ne_eq, Option.some.injEq]
    constructor
    · rintro ⟨h | h, hne⟩
      · exact absurd h.symm hne
      · exact h
    · intro h; exact ⟨Or.inr h, fun hpq => h2.1 (hpq ▸ h)⟩

/-- the dispatcher handles a queued event `ev`: `L'` are the held numbers afterwards -/
theorem allocInv_evt (s s' : Side) (ev : Evt) (e' : Ep) (m : Option Msg) (h : AllocInv s)
    (he : handleEvt s.ep ev = some (e', m)) (hep : s'.ep = e')
    (hperm : (heldNums s).Perm ((heldOf ev).toList ++ heldNums s')) : AllocInv s' := by
  obtain ⟨hnd', hin, hiff⟩ := held_pop _ _ _ hperm h.hnd
  refine ⟨?_, hnd'⟩
  rw [hep]
  exact (alloc_evt _ _ _ _ _ he h.core hin).congrH (fun q => (hiff q).symm)

theorem allocInv_congr (s s' : Side) (h : AllocInv s) (hp : s'.ep.ports = s.ep.ports)
    (ha : s'.ep.allocated = s.ep.allocated) (hc : s'.ep.cfg = s.ep.cfg) (hh : heldNums s' = heldNums s) : AllocInv s' :=
  ⟨by rw [hh]; exact h.core.congr hp ha hc, by rw [hh]; exact h.hnd⟩

theorem allocInv_step (s s' : Side) (inW inW' out : List Msg) (l : Lab)
    (hs : stepSide s inW l = some (s', inW', out)) (h : AllocInv s) (hq : QType s) : AllocInv s' := by
  cases l <;> simp only [stepSide] at hs
  case startConnect p w =>
    split at hs
    · rename_i hg
      simp only [Option.some.injEq, Prod.mk.injEq] at hs; obtain ⟨rfl, _, _⟩ := hs
      simp only [Bool.and_eq_true] at hg
      have hc := hg.1.2
      have hnin : p ∉ heldNums s := by
        intro hin
        have := (h.core.mem p).mpr (Or.inr hin)
        simp only [canAlloc, Bool.and_eq_true, Bool.not_eq_true'] at hc
        have h2 : s.ep.allocated.contains p = true := by simpa using this
        rw [hc.1] at h2; simp at h2
      have hH : ∀ q, q ∈ connPorts (s.connQ ++ [Evt.connectReq p w p]) ++ accPorts s.portQ ↔ (q ∈ heldNums s ∨ q = p) := by
        intro q; simp only [connPorts_append, connPorts, heldNums, List.mem_append, List.mem_singleton]
        constructor
        · rintro ((h1 | h1) | h1)
          · exact Or.inl (Or.inl h1)
          · exact Or.inr h1
          · exact Or.inl (Or.inr h1)
        · rintro ((h1 | h1) | h1)
          · exact Or.inl (Or.inl h1)
          · exact Or.inr h1
          · exact Or.inl (Or.inr h1)
      refine ⟨?_, ?_⟩
      · refine AllocCore.congrH (H := fun q => q ∈ heldNums s ∨ q = p) ?_ hH
        exact h.core.alloc p hc _ rfl rfl rfl
      · have hp : (connPorts (s.connQ ++ [Evt.connectReq p w p]) ++ accPorts s.portQ).Perm (p :: heldNums s) := by
          simp only [connPorts_append, connPorts, heldNums, List.append_assoc, List.singleton_append]
          exact List.perm_middle
        exact hp.nodup_iff.mpr (List.nodup_cons.mpr ⟨hnin, h.hnd⟩)
    · simp at hs
  case acceptReq rp lp =>
    split at hs
    · rename_i hg
      simp only [Option.some.injEq, Prod.mk.injEq] at hs; obtain ⟨rfl, _, _⟩ := hs
      simp only [Bool.and_eq_true] at hg
      have hc := hg.2
      have hnin : lp ∉ heldNums s := by
        intro hin
        have := (h.core.mem lp).mpr (Or.inr hin)
        simp only [canAlloc, Bool.and_eq_true, Bool.not_eq_true'] at hc
        have h2 : s.ep.allocated.contains lp = true := by simpa using this
        rw [hc.1] at h2; simp at h2
      have hH : ∀ q, q ∈ connPorts s.connQ ++ accPorts (s.portQ ++ [Evt.accepted lp rp]) ↔ (q ∈ heldNums s ∨ q = lp) := by
        intro q; simp only [accPorts_append, accPorts, heldNums, List.mem_append, List.mem_singleton]
        constructor
        · rintro (h1 | h1 | h1)
          · exact Or.inl (Or.inl h1)
          · exact Or.inl (Or.inr h1)
          · exact Or.inr h1
        · rintro ((h1 | h1) | h1)
          · exact Or.inl h1
          · exact Or.inr (Or.inl h1)
          · exact Or.inr (Or.inr h1)
      refine ⟨?_, ?_⟩
      · refine AllocCore.congrH (H := fun q => q ∈ heldNums s ∨ q = lp) ?_ hH
        exact h.core.alloc lp hc _ rfl rfl rfl
      · have hp : (connPorts s.connQ ++ accPorts (s.portQ ++ [Evt.accepted lp rp])).Perm (lp :: heldNums s) := by
          simp only [accPorts_append, accPorts, heldNums, ← List.append_assoc]
          exact List.perm_append_singleton _ _
        exact hp.nodup_iff.mpr (List.nodup_cons.mpr ⟨hnin, h.hnd⟩)
    · simp at hs
  case dispConn =>
    (repeat' split at hs) <;> first
      | (simp at hs; done)
      | (rename_i ev rest hq' _ e' m he
         simp only [Option.some.injEq, Prod.mk.injEq] at hs; obtain ⟨rfl, _, _⟩ := hs
         refine allocInv_evt s _ ev e' m h he rfl ?_
         simp only [heldNums, hq']
         rw [connPorts_cons, connEvt_held ev (hq.conn ev (by rw [hq']; simp)), List.append_assoc])
  case dispPort =>
    (repeat' split at hs) <;> first
      | (simp at hs; done)
      | (rename_i ev rest hq' _ e' m he
         simp only [Option.some.injEq, Prod.mk.injEq] at hs; obtain ⟨rfl, _, _⟩ := hs
         refine allocInv_evt s _ ev e' m h he (by simp) ?_
         have : heldNums (evtHandles { s with ep := e', portQ := rest } ev) = connPorts s.connQ ++ accPorts rest := by
           simp [heldNums]
         rw [this]
         simp only [heldNums, hq']
         rw [accPorts_cons, portEvt_held ev (hq.port ev (by rw [hq']; simp))]
         rw [← List.append_assoc, ← List.append_assoc]
         exact List.Perm.append_right _ List.perm_append_comm)
  case dispListener =>
    (repeat' split at hs) <;> first
      | (simp at hs; done)
      | (rename_i _ e' m he
         simp only [Option.some.injEq, Prod.mk.injEq] at hs; obtain ⟨rfl, _, _⟩ := hs
         exact allocInv_evt s _ _ e' m h he rfl (by simp [heldOf, heldNums]))
  case goodbye =>
    (repeat' split at hs) <;> first
      | (simp at hs; done)
      | (rename_i _ e' m he
         simp only [Option.some.injEq, Prod.mk.injEq] at hs; obtain ⟨rfl, _, _⟩ := hs
         exact allocInv_evt s _ _ e' m h he rfl (by simp [heldOf, heldNums]))
  case deliver =>
    (repeat' split at hs) <;> first
      | (simp at hs; done)
      | (rename_i m rest _ e' em he
         simp only [Option.some.injEq, Prod.mk.injEq] at hs; obtain ⟨rfl, _, _⟩ := hs
         have hcore : AllocCore (fun q => q ∈ heldNums s) s.rxView := h.core.congr rfl rfl rfl
         have h2 := alloc_rx _ _ _ _ _ he hcore
         have hh : ∀ t : Side, t.connQ = s.connQ → t.portQ = s.portQ ++ autoEvts em → heldNums t = heldNums s := by
           intro t h1 h2; simp [heldNums, h1, h2, accPorts_append, accPorts_auto]
         refine ⟨?_, ?_⟩
         · rw [hh _ (by simp) (by simp)]; simp only [rxHandles_ep]; exact h2.congr rfl rfl rfl
         · rw [hh _ (by simp) (by simp)]; exact h.hnd)
  all_goals
    (repeat' split at hs) <;> first
      | (simp at hs; done)
      | (simp only [Option.some.injEq, Prod.mk.injEq] at hs; obtain ⟨rfl, _, _⟩ := hs
         exact allocInv_congr s _ h rfl rfl rfl (by simp [heldNums, accPorts_append, connPorts_append, accPorts, connPorts, accPorts_rejectAll]))

end Remoc.Table.Sys
