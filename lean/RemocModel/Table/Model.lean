import RemocModel.Wire.Model
/-
M_table: the connection-level state machine of one chmux endpoint — the dispatcher of
`chmux/mux.rs` (`handle_event`, `handle_received_msg`, `should_terminate`, `maybe_free_port`),
the port allocator, the listener queues and the set of outstanding remote requests — as total
functions on a plain state.  Frames are the M_wire messages.  `handleRx` is total into
`Except RunErr Ep`: it says for *every* message in *every* state whether the endpoint keeps
operating or terminates with which error (C08).  `Conn` (two endpoints joined by two FIFOs) is the
labelled transition system used for C07 and C10.  No Mathlib imports.
-/

namespace Remoc.Table
open Remoc.Wire

/-- Configuration relevant to the dispatcher. -/
structure EpCfg where
  maxPorts : Nat
  /-- local `connect_queue` (advertised to the peer) -/
  cq : Nat
  /-- local `chunk_size` (advertised to the peer) -/
  chunk : Nat
  /-- local `receive_buffer` (advertised to the peer) -/
  buf : Nat
  /-- remote `connect_queue`: credit of the local client -/
  remoteCq : Nat
  /-- remote `receive_buffer`: initial credit pool of every local sender -/
  remoteBuf : Nat := 0
  /-- remote protocol version -/
  remoteVersion : Nat := 3
deriving Repr, DecidableEq

/-- `PortState::Connected` flags (mux.rs) plus the receive-buffer usage of the port. -/
structure Connected where
  remote : Nat
  /-- local sender dropped, `SendFinish` sent -/
  senderDropped : Bool := false
  /-- local receiver closed, `ReceiveClose` sent -/
  receiverClosed : Bool := false
  /-- local receiver dropped, `ReceiveFinish` sent -/
  receiverDropped : Bool := false
  /-- `SendFinish` received (`receiver_tx_data = None`) -/
  remoteSendFinished : Bool := false
  /-- `ReceiveClose` or `ReceiveFinish` received -/
  remoteRecvClosed : Bool := false
  /-- `ReceiveFinish` received -/
  remoteRecvDropped : Bool := false
  /-- flow-control cost of each message waiting in the local per-port queue, oldest first
  (`SendFinish` costs nothing); their sum is `ChannelCreditMonitor::used` -/
  rxq : List Nat := []
  /-- credit pool of the local sender -/
  pool : Nat := 0
deriving Repr, DecidableEq

/-- credits in use in the local receive buffer -/
def Connected.used (c : Connected) : Nat := c.rxq.sum

inductive PortSt where
  | connecting
  | connected (c : Connected)
deriving Repr, DecidableEq

/-- Why `ChMux::run` ended. -/
inductive RunErr where
  | reset
  | protocol
deriving Repr, DecidableEq

structure Ep where
  cfg : EpCfg
  /-- port table: local port ↦ state -/
  ports : List (Nat × PortSt) := []
  /-- port numbers handed out by the allocator and still alive (table entries and numbers
  held by API objects) -/
  allocated : List Nat := []
  /-- `outstanding_remote_port_requests` -/
  outstanding : List Nat := []
  /-- requests waiting in the listener queues (remote port, wait flag) -/
  listenQ : List (Nat × Bool) := []
  /-- `ClientDropped` markers queued for the listener (in each of the two queues) -/
  clientDroppedQueued : Nat := 0
  listenerDropped : Bool := false
  allClientsDropped : Bool := false
  remoteClientDropped : Bool := false
  remoteListenerDropped : Bool := false
  goodbyeSent : Bool := false
  goodbyeReceived : Bool := false
  /-- unanswered connect requests of the local client (credit semaphore in use) -/
  clientPending : Nat := 0
deriving Repr, DecidableEq

def lookup : List (Nat × PortSt) → Nat → Option PortSt
  | [], _ => none
  | (k, v) :: rest, p => if k = p then some v else lookup rest p

def erase : List (Nat × PortSt) → Nat → List (Nat × PortSt)
  | [], _ => []
  | (k, v) :: rest, p => if k = p then erase rest p else (k, v) :: erase rest p

def setPort (ps : List (Nat × PortSt)) (p : Nat) (s : PortSt) : List (Nat × PortSt) :=
  (p, s) :: erase ps p

/-- `maybe_free_port`: a port leaves the table exactly when all four flags are set. -/
def Connected.free (c : Connected) : Bool :=
  c.senderDropped && c.receiverDropped && c.remoteSendFinished && c.remoteRecvDropped

def maybeFree (e : Ep) (p : Nat) : Ep :=
  match lookup e.ports p with
  | some (.connected c) =>
    if c.free then { e with ports := erase e.ports p, allocated := e.allocated.filter (· != p) } else e
  | _ => e

/-- requests queued towards the listener with the given wait flag (each queue holds
`connect_queue + 1` items) -/
def queuedFor (e : Ep) (wait : Bool) : Nat :=
  (e.listenQ.filter (·.2 == wait)).length + e.clientDroppedQueued

/-- Messages the endpoint emits as a direct consequence of handling a received message
(only the automatic rejection of a request nobody can answer). -/
abbrev Emit := List Msg

/-- `handle_received_msg`: total.  Returns the new state and automatically emitted messages, or
the error with which the dispatcher terminates. -/
def handleRx (e : Ep) (m : Msg) : Except RunErr (Ep × Emit) :=
  match m with
  | .reset => .error .reset
  | .hello _ _ => .error .protocol
  | .ping => .ok (e, [])
  | .openPort cp wait _ =>
    if e.outstanding.contains cp then .error .protocol else
    let e := { e with outstanding := e.outstanding ++ [cp] }
    if e.listenerDropped then
      -- the request object is dropped at once: its drop task rejects it
      .ok ({ e with outstanding := e.outstanding.filter (· != cp) }, [.rejected cp false])
    else if queuedFor e wait ≥ e.cfg.cq + 1 then .error .protocol
    else .ok ({ e with listenQ := e.listenQ ++ [(cp, wait)] }, [])
  | .portOpened cp sp =>
    match lookup e.ports cp with
    | some .connecting =>
      .ok ({ e with ports := setPort e.ports cp (.connected { remote := sp, pool := e.cfg.remoteBuf }),
                    clientPending := e.clientPending - 1 }, [])
    | _ => .error .protocol
  | .rejected cp _ =>
    match lookup e.ports cp with
    | some .connecting =>
      .ok ({ e with ports := erase e.ports cp, allocated := e.allocated.filter (· != cp),
                    clientPending := e.clientPending - 1 }, [])
    | _ => .error .protocol
  | .data _ _ _ => .ok (e, [])     -- the header alone changes nothing; see `handleData`
  | .portData p _ _ _ ps _ =>
    match lookup e.ports p with
    | some (.connected c) =>
      if c.remoteSendFinished then .error .protocol else
      -- a batch without ports would cost no credit and could be queued without bound (repair F7)
      if ps.isEmpty then .error .protocol else
      if ps.any (fun x => e.outstanding.contains x) ∨ ¬ ps.Nodup then .error .protocol else
      if 4 * ps.length > e.cfg.chunk ∨ c.used + 4 * ps.length > e.cfg.buf then .error .protocol else
      .ok ({ e with outstanding := e.outstanding ++ ps,
                    ports := setPort e.ports p (.connected { c with rxq := c.rxq ++ [4 * ps.length] }) }, [])
    | _ => .error .protocol
  | .portCredits p n =>
    match lookup e.ports p with
    | some (.connected c) =>
      if c.pool + n ≥ 4294967296 then .error .protocol
      else .ok ({ e with ports := setPort e.ports p (.connected { c with pool := c.pool + n }) }, [])
    | _ => .error .protocol
  | .sendFinish p =>
    match lookup e.ports p with
    | some (.connected c) =>
      if c.remoteSendFinished then .error .protocol
      else .ok (maybeFree { e with ports := setPort e.ports p (.connected { c with remoteSendFinished := true, rxq := c.rxq ++ [0] }) } p, [])
    | _ => .error .protocol
  | .receiveClose p =>
    match lookup e.ports p with
    | some (.connected c) =>
      if c.remoteRecvClosed then .error .protocol
      else .ok (maybeFree { e with ports := setPort e.ports p (.connected { c with remoteRecvClosed := true }) } p, [])
    | _ => .error .protocol
  | .receiveFinish p =>
    match lookup e.ports p with
    | some (.connected c) =>
      .ok (maybeFree { e with ports := setPort e.ports p (.connected { c with remoteRecvClosed := true, remoteRecvDropped := true }) } p, [])
    | _ => .error .protocol
  | .clientFinish =>
    if e.listenerDropped then .ok ({ e with remoteClientDropped := true }, [])
    else if queuedFor e true ≥ e.cfg.cq + 1 ∨ queuedFor e false ≥ e.cfg.cq + 1 then .error .protocol
    else .ok ({ e with remoteClientDropped := true, clientDroppedQueued := e.clientDroppedQueued + 1 }, [])
  | .listenerFinish => .ok ({ e with remoteListenerDropped := true }, [])
  | .goodbye => .ok ({ e with goodbyeReceived := true }, [])

/-- A `Data` header followed by its payload of `len` bytes. -/
def handleData (e : Ep) (p : Nat) (len : Nat) : Except RunErr Ep :=
  match lookup e.ports p with
  | some (.connected c) =>
    if c.remoteSendFinished then .error .protocol else
    if len > e.cfg.chunk ∨ c.used + max 1 len > e.cfg.buf then .error .protocol else
    .ok { e with ports := setPort e.ports p (.connected { c with rxq := c.rxq ++ [max 1 len] }) }
  | _ => .error .protocol

/-- The local receiver takes the oldest message out of the port queue (its credit goes back to the
remote sender, eventually). -/
def handleConsume (e : Ep) (p : Nat) : Option Ep :=
  match lookup e.ports p with
  | some (.connected c) =>
    match c.rxq with
    | [] => none
    | _ :: rest => some { e with ports := setPort e.ports p (.connected { c with rxq := rest }) }
  | _ => none

/-- `should_terminate` -/
def shouldTerminate (e : Ep) : Bool :=
  (e.ports.isEmpty && (e.allClientsDropped || e.remoteListenerDropped) &&
    (e.listenerDropped || e.remoteClientDropped) && e.outstanding.isEmpty) || e.goodbyeSent || e.goodbyeReceived

/-- Local events handled by the dispatcher (`handle_event`); each sends exactly one message. -/
inductive Evt where
  /-- `ConnectReq` for a freshly allocated local port -/
  | connectReq (port : Nat) (wait : Bool) (id : Nat)
  /-- the local listener accepted the request of remote port `rp` on a freshly allocated port -/
  | accepted (localPort rp : Nat)
  /-- the local listener rejected (or dropped) the request of remote port `rp` -/
  | rejected (rp : Nat) (noPorts : Bool)
  | senderDropped (port : Nat)
  | receiverClosed (port : Nat)
  | receiverDropped (port : Nat)
  | allClientsDropped
  | listenerDropped
  | sendGoodbye
deriving Repr, DecidableEq

/-- `handle_event`: `none` where the real dispatcher would panic (an event that the API objects
can never produce in that state). -/
def handleEvt (e : Ep) (ev : Evt) : Option (Ep × Option Msg) :=
  match ev with
  | .connectReq port wait id =>
    if (lookup e.ports port).isSome then none else
    if e.remoteListenerDropped then
      -- answered locally with `Rejected`; no message, the port number is released
      some ({ e with allocated := e.allocated.filter (· != port) }, none)
    else
      some ({ e with ports := setPort e.ports port .connecting, clientPending := e.clientPending + 1 },
            some (forPeer e.cfg.remoteVersion (.openPort port wait (some id))))
  | .accepted lp rp =>
    if ¬ e.outstanding.contains rp ∨ (lookup e.ports lp).isSome then none else
    some ({ e with outstanding := e.outstanding.filter (· != rp),
                   ports := setPort e.ports lp (.connected { remote := rp, pool := e.cfg.remoteBuf }) },
          some (.portOpened rp lp))
  | .rejected rp np =>
    if ¬ e.outstanding.contains rp then none else
    some ({ e with outstanding := e.outstanding.filter (· != rp) }, some (.rejected rp np))
  | .senderDropped p =>
    match lookup e.ports p with
    | some (.connected c) =>
      if c.senderDropped then none
      else some (maybeFree { e with ports := setPort e.ports p (.connected { c with senderDropped := true }) } p,
                 some (.sendFinish c.remote))
    | _ => none
  | .receiverClosed p =>
    match lookup e.ports p with
    | some (.connected c) =>
      if c.receiverClosed ∨ c.receiverDropped then none
      else some ({ e with ports := setPort e.ports p (.connected { c with receiverClosed := true }) },
                 some (.receiveClose c.remote))
    | _ => none
  | .receiverDropped p =>
    match lookup e.ports p with
    | some (.connected c) =>
      if c.receiverDropped then none
      else some (maybeFree { e with ports := setPort e.ports p (.connected { c with receiverDropped := true }) } p,
                 some (.receiveFinish c.remote))
    | _ => none
  | .allClientsDropped =>
    if e.allClientsDropped then none else some ({ e with allClientsDropped := true }, some .clientFinish)
  | .listenerDropped =>
    if e.listenerDropped then none
    else some ({ e with listenerDropped := true, listenQ := [], clientDroppedQueued := 0 }, some .listenerFinish)
  | .sendGoodbye =>
    if e.goodbyeSent then none else some ({ e with goodbyeSent := true }, some .goodbye)

end Remoc.Table
