import RemocModel.Table.Conn
/-
Decidable form of the global invariant of the two-endpoint system (`Table/Conn.lean`).  The parts
that speak only about the two dispatcher states and the two wires (`wireInvB`) are evaluated by
`Driver/Conn.lean` on every step of the real traces; the parts that also need the API-side state of
the model (`Side`) are used by the proofs only.  Roles: `c` = the side acting as client of a
request, `v` = the side whose listener serves it, `wcv` / `wvc` the wires c→v / v→c.
-/
namespace Remoc.Table.Sys
open Remoc.Wire Remoc.Table

/-- client ports of the `OpenPort` requests in a wire -/
def reqPorts : List Msg → List Nat
  | .openPort cp _ _ :: w => cp :: reqPorts w
  | _ :: w => reqPorts w
  | [] => []

/-- client ports of the answers (`PortOpened` / `Rejected`) in a wire -/
def respPorts : List Msg → List Nat
  | .portOpened cp _ :: w => cp :: respPorts w
  | .rejected cp _ :: w => cp :: respPorts w
  | _ :: w => respPorts w
  | [] => []

/-- remote ports of the answers waiting in an event queue -/
def ansPorts : List Evt → List Nat
  | .accepted _ rp :: q => rp :: ansPorts q
  | .rejected rp _ :: q => rp :: ansPorts q
  | _ :: q => ansPorts q
  | [] => []

def isConnecting (e : Ep) (p : Nat) : Bool := lookup e.ports p == some .connecting

/-- every request of `c` is in exactly one place: on the wire to `v`, outstanding at `v`, or
answered with the answer on the wire back -/
def reqWhere (v : Ep) (wcv wvc : List Msg) : List Nat := reqPorts wcv ++ v.outstanding ++ respPorts wvc

/-- **credit equation** (Ep/wire part): the requests of `c` that are somewhere are exactly its
connecting ports, their number is `c.clientPending` and at most the queue `v` advertised -/
def reqInvB (c v : Ep) (wcv wvc : List Msg) : Bool :=
  let L := reqWhere v wcv wvc
  decide L.Nodup && L.all (isConnecting c) &&
  c.ports.all (fun kv => kv.2 != .connecting || L.contains kv.1) &&
  c.clientPending == L.length && decide (c.clientPending ≤ v.cfg.cq) && c.cfg.remoteCq == v.cfg.cq

/-- where the outstanding requests of `v` are on the API side: in the listener queue, held by the
application, or answered with the answer event still queued -/
def outWhere (v : Side) : List Nat := v.ep.listenQ.map (·.1) ++ v.held ++ ansPorts v.portQ

def reqSideB (c v : Side) : Bool :=
  decide (outWhere v).Nodup && (outWhere v).all (v.ep.outstanding.contains ·) &&
  v.ep.outstanding.all ((outWhere v).contains ·) && decide (c.permits ≤ c.ep.cfg.remoteCq)

end Remoc.Table.Sys
