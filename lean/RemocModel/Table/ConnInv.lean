import RemocModel.Table.Conn
/-
Decidable form of the global invariant of the two-endpoint system (`Table/Conn.lean`).  The parts
that speak only about the two dispatcher states and the two wires (`wireInvB`) are evaluated by
`Driver/Conn.lean` on every step of the real traces; the parts that also need the API-side state of
the model (`Side`) are used by the proofs only.  Roles: `c` = the side acting as client of a
request, `v` = the side whose listener serves it, `wcv` / `wvc` the wires c→v / v→c.
-/
namespace Remoc.Table.Sys
open Remoc.Wire Remoc.Table

/-- client ports of the `OpenPort` requests in a wire -/
def reqPorts : List Msg → List Nat
  | .openPort cp _ _ :: w => cp :: reqPorts w
  -- ports sent over a port are requests as well (not produced by the system model, whose data
  -- plane is opaque; present in real traces)
  | .portData _ _ _ _ ps _ :: w => ps ++ reqPorts w
  | _ :: w => reqPorts w
  | [] => []

/-- client ports of the answers (`PortOpened` / `Rejected`) in a wire -/
def respPorts : List Msg → List Nat
  | .portOpened cp _ :: w => cp :: respPorts w
  | .rejected cp _ :: w => cp :: respPorts w
  | _ :: w => respPorts w
  | [] => []

/-- remote ports of the answers waiting in an event queue -/
def ansPorts : List Evt → List Nat
  | .accepted _ rp :: q => rp :: ansPorts q
  | .rejected rp _ :: q => rp :: ansPorts q
  | _ :: q => ansPorts q
  | [] => []

def isConnecting (e : Ep) (p : Nat) : Bool := lookup e.ports p == some .connecting

/-- every request of `c` is in exactly one place: on the wire to `v`, outstanding at `v`, or
answered with the answer on the wire back -/
def reqWhere (v : Ep) (wcv wvc : List Msg) : List Nat := reqPorts wcv ++ v.outstanding ++ respPorts wvc

/-- **request location** (Ep/wire part of the credit equation): the requests of `c` that are somewhere are exactly its
connecting ports, their number is `c.clientPending` and at most the queue `v` advertised -/
def reqEqB (c v : Ep) (wcv wvc : List Msg) : Bool :=
  let L := reqWhere v wcv wvc
  decide L.Nodup && L.all (isConnecting c) &&
  c.ports.all (fun kv => kv.2 != .connecting || L.contains kv.1) &&
  c.clientPending == L.length

/-- **credit equation** with the bound by the advertised queue -/
def reqInvB (c v : Ep) (wcv wvc : List Msg) : Bool :=
  reqEqB c v wcv wvc && decide (c.clientPending ≤ v.cfg.cq) && c.cfg.remoteCq == v.cfg.cq

/-- where the outstanding requests of `v` are on the API side: in the listener queue, held by the
application, or answered with the answer event still queued -/
def outWhere (v : Side) : List Nat := v.ep.listenQ.map (·.1) ++ v.held ++ ansPorts v.portQ

def reqSideB (c v : Side) : Bool :=
  decide (outWhere v).Nodup && (outWhere v).all (v.ep.outstanding.contains ·) &&
  v.ep.outstanding.all ((outWhere v).contains ·) && decide (c.permits ≤ c.ep.cfg.remoteCq)

end Remoc.Table.Sys

namespace Remoc.Table.Sys
open Remoc.Wire Remoc.Table

/-! ### ports: what is in flight towards `y` (wire `w`, written by `x`) against both tables -/

def cntSF (w : List Msg) (q : Nat) : Nat := w.count (.sendFinish q)
def cntRC (w : List Msg) (q : Nat) : Nat := w.count (.receiveClose q)
def cntRF (w : List Msg) (q : Nat) : Nat := w.count (.receiveFinish q)

/-- order on one wire: a port message for `q` is preceded by the `PortOpened` that connects `q`
unless `q` is connected already (`known`); no `ReceiveClose q` after a `ReceiveFinish q` -/
def okOrder (known : Nat → Bool) : List Msg → Bool
  | [] => true
  | .portOpened cp _ :: w => okOrder (fun q => q == cp || known q) w
  | .sendFinish q :: w => known q && okOrder known w
  | .receiveClose q :: w => known q && okOrder known w
  | .receiveFinish q :: w => known q && !w.contains (.receiveClose q) && okOrder known w
  | _ :: w => okOrder known w

def isConnected (e : Ep) (q : Nat) : Bool :=
  match lookup e.ports q with
  | some (.connected _) => true
  | _ => false

def connectedAt (e : Ep) (q : Nat) : Option Connected :=
  match lookup e.ports q with
  | some (.connected d) => some d
  | _ => none

/-- port numbers named by port messages of a wire -/
def namedPorts : List Msg → List Nat
  | .sendFinish q :: w => q :: namedPorts w
  | .receiveClose q :: w => q :: namedPorts w
  | .receiveFinish q :: w => q :: namedPorts w
  | _ :: w => namedPorts w
  | [] => []

/-- receiver-side view (`y`, incoming wire `w`): nothing is in flight for a port that is not in
the table (**safe reuse**), at most one finish of each kind, none for a flag already set -/
def rxPortB (y : Ep) (w : List Msg) (q : Nat) : Bool :=
  match lookup y.ports q with
  | none => cntSF w q == 0 && cntRC w q == 0 && cntRF w q == 0
  | some .connecting => cntSF w q ≤ 1 && cntRC w q ≤ 1 && cntRF w q ≤ 1
  | some (.connected d) =>
    cntSF w q ≤ 1 && cntRC w q ≤ 1 && cntRF w q ≤ 1 &&
    (!d.remoteSendFinished || cntSF w q == 0) &&
    (!d.remoteRecvClosed || cntRC w q == 0) &&
    (!d.remoteRecvDropped || (cntRF w q == 0 && cntRC w q == 0))

/-- is `y[q]` the live partner of `x`'s port `p`: connected back to `p`, or still connecting with
the `PortOpened q p` on the wire -/
def livePartner (y : Ep) (w : List Msg) (p q : Nat) : Bool :=
  match lookup y.ports q with
  | some (.connected d) => d.remote == p
  | some .connecting => w.contains (.portOpened q p)
  | none => false

/-- sender-side view (`x`'s port `p`, connected with remote `q`, outgoing wire `w`) -/
def txPortB (x y : Ep) (w : List Msg) (p : Nat) (c : Connected) : Bool :=
  let q := c.remote
  let live := livePartner y w p q
  let d := if live then connectedAt y q else none
  (c.senderDropped || (live && cntSF w q == 0 && (d.all (!·.remoteSendFinished)))) &&
  (!(c.senderDropped && live) || cntSF w q == 1 || d.any (·.remoteSendFinished)) &&
  (c.receiverDropped || (live && cntRF w q == 0 && (d.all (!·.remoteRecvDropped)))) &&
  (!(c.receiverDropped && live) || cntRF w q == 1 || d.any (·.remoteRecvDropped)) &&
  (c.receiverClosed || c.receiverDropped || (cntRC w q == 0 && (d.all (!·.remoteRecvClosed))))

def tableKeys (e : Ep) : List Nat := e.ports.map (·.1)

/-- **pairing / no message for a freed port**, direction x → y -/
def portInvB (x y : Ep) (w : List Msg) : Bool :=
  (tableKeys y ++ namedPorts w).all (rxPortB y w) &&
  okOrder (isConnected y) w &&
  x.ports.all (fun kv => match kv.2 with | .connected c => txPortB x y w kv.1 c | .connecting => true)

end Remoc.Table.Sys

namespace Remoc.Table.Sys
open Remoc.Wire Remoc.Table

/-! ### one side: queued events and API handles against the dispatcher state -/

/-- local ports of the connect requests in a queue -/
def connPorts : List Evt → List Nat
  | .connectReq p _ _ :: q => p :: connPorts q
  | _ :: q => connPorts q
  | [] => []

/-- local ports of the `Accepted` events in a queue -/
def accPorts : List Evt → List Nat
  | .accepted lp _ :: q => lp :: accPorts q
  | _ :: q => accPorts q
  | [] => []

/-- port numbers held by API objects (not yet table entries) -/
def heldNums (s : Side) : List Nat := connPorts s.connQ ++ accPorts s.portQ

/-- no `ReceiverClosed p` behind a `ReceiverDropped p` (the receiver's own program order) -/
def okCloseDrop : List Evt → Bool
  | [] => true
  | .receiverDropped p :: q => !q.contains (.receiverClosed p) && okCloseDrop q
  | _ :: q => okCloseDrop q

/-- **allocator**: the numbers in use are exactly the table entries and the numbers held by API
objects, each once, at most `max_ports` -/
def allocInvB (s : Side) : Bool :=
  decide s.ep.allocated.Nodup && decide (s.ep.allocated.length ≤ s.ep.cfg.maxPorts) &&
  decide (tableKeys s.ep ++ heldNums s).Nodup &&
  s.ep.allocated.all (fun p => (tableKeys s.ep ++ heldNums s).contains p) &&
  (tableKeys s.ep ++ heldNums s).all (fun p => s.ep.allocated.contains p)

def senderFlag (e : Ep) (p : Nat) : Option Bool := (connectedAt e p).map (·.senderDropped)

/-- port events and handles: each handle / queued event refers to a connected port whose flag is
not set yet, each at most once -/
def handleInvB (s : Side) : Bool :=
  decide s.senders.Nodup && decide (s.receivers.map (·.1)).Nodup &&
  s.senders.all (fun p => !s.portQ.contains (.senderDropped p)) &&
  s.receivers.all (fun r => !s.portQ.contains (.receiverDropped r.1) &&
                            (r.2 || !s.portQ.contains (.receiverClosed r.1))) &&
  (s.senders ++ s.portQ.filterMap (fun ev => match ev with | .senderDropped p => some p | _ => none)).all
    (fun p => (connectedAt s.ep p).any (!·.senderDropped)) &&
  (s.receivers.map (·.1) ++ s.portQ.filterMap (fun ev => match ev with | .receiverDropped p => some p | _ => none)).all
    (fun p => (connectedAt s.ep p).any (!·.receiverDropped)) &&
  ((s.receivers.filter (!·.2)).map (·.1) ++ s.portQ.filterMap (fun ev => match ev with | .receiverClosed p => some p | _ => none)).all
    (fun p => (connectedAt s.ep p).any (fun c => !c.receiverClosed && !c.receiverDropped)) &&
  decide (s.portQ.filterMap (fun ev => match ev with | .senderDropped p => some p | _ => none)).Nodup &&
  decide (s.portQ.filterMap (fun ev => match ev with | .receiverDropped p => some p | _ => none)).Nodup &&
  decide (s.portQ.filterMap (fun ev => match ev with | .receiverClosed p => some p | _ => none)).Nodup &&
  okCloseDrop s.portQ

/-- clients: `AllClientsDropped` is queued once, last, after the last `Client` handle is gone -/
def clientInvB (s : Side) : Bool :=
  (if s.clientsAlive then !s.connQ.contains .allClientsDropped && !s.ep.allClientsDropped
   else (s.connQ.count .allClientsDropped + (if s.ep.allClientsDropped then 1 else 0) == 1) &&
        (s.connQ.getLast? == some .allClientsDropped || s.ep.allClientsDropped)) &&
  (!s.ep.allClientsDropped || s.connQ.isEmpty) &&
  (s.listenerAlive || s.ep.listenQ.isEmpty) && (!s.ep.listenerDropped || !s.listenerAlive)

end Remoc.Table.Sys

namespace Remoc.Table.Sys
open Remoc.Wire Remoc.Table

/-! ### connection-level flags, direction x → y over wire `w` -/

def b2n (b : Bool) : Nat := if b then 1 else 0

/-- client ports of the `OpenPort` requests (those of a `Client`, not ports sent over a port) -/
def openReqs : List Msg → List Nat
  | .openPort cp _ _ :: w => cp :: openReqs w
  | _ :: w => openReqs w
  | [] => []

/-- no `OpenPort` behind a `ClientFinish` -/
def okAfterCF : List Msg → Bool
  | [] => true
  | .clientFinish :: w => (openReqs w).isEmpty && !w.contains .clientFinish
  | _ :: w => okAfterCF w

/-- each of `ClientFinish`, `ListenerFinish`, `Goodbye` is sent once and is either in flight or
has been seen by the peer; nothing follows `Goodbye`; no request follows `ClientFinish` -/
def flagInvB (x y : Ep) (w : List Msg) : Bool :=
  (w.count .clientFinish + b2n y.remoteClientDropped == b2n x.allClientsDropped) &&
  (w.count .listenerFinish + b2n y.remoteListenerDropped == b2n x.listenerDropped) &&
  (w.count .goodbye + b2n y.goodbyeReceived == b2n x.goodbyeSent) &&
  okAfterCF w && (!y.remoteClientDropped || (openReqs w).isEmpty) &&
  decide (y.clientDroppedQueued ≤ b2n y.remoteClientDropped) &&
  (!(x.goodbyeSent && !y.goodbyeReceived) || w.getLast? == some .goodbye)

/-- the Ep/wire part of the global invariant, both directions: what `Driver/Conn.lean` evaluates
on the reconstructed state of the real endpoints after every trace line -/
def wireInvB (a b : Ep) (toA toB : List Msg) : Bool :=
  reqInvB a b toB toA && reqInvB b a toA toB &&
  portInvB a b toB && portInvB b a toA &&
  flagInvB a b toB && flagInvB b a toA

end Remoc.Table.Sys
