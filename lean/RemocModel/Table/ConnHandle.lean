import RemocModel.Table.ConnAlloc
set_option linter.unusedSimpArgs false
set_option linter.unusedVariables false
/-
One side: `Sender` / `Receiver` handles and the port events they queue, against the table.  Every
handle and every queued `SenderDropped` / `ReceiverClosed` / `ReceiverDropped` refers to a connected
entry whose flag is not set yet, each at most once; conversely an unset flag still has its handle or
its event.  (chmux/sender.rs, receiver.rs: the drop tasks; `Receiver::close`.)
-/
namespace Remoc.Table.Sys
open Remoc.Wire Remoc.Table

def sdPorts : List Evt → List Nat
  | .senderDropped p :: q => p :: sdPorts q
  | _ :: q => sdPorts q
  | [] => []
def rdPorts : List Evt → List Nat
  | .receiverDropped p :: q => p :: rdPorts q
  | _ :: q => rdPorts q
  | [] => []
def rcPorts : List Evt → List Nat
  | .receiverClosed p :: q => p :: rcPorts q
  | _ :: q => rcPorts q
  | [] => []

/-- the entry of `p` is connected with the given local-flag condition -/
def ConnWith (e : Ep) (p : Nat) (P : Connected → Prop) : Prop :=
  ∃ c, lookup e.ports p = some (.connected c) ∧ P c

structure HandleInv (s : Side) : Prop where
  sd : ∀ p, (p ∈ s.senders ∨ p ∈ sdPorts s.portQ) → ConnWith s.ep p (fun c => c.senderDropped = false)
  sdq : (sdPorts s.portQ).Nodup
  sds : ∀ p, p ∈ s.senders → p ∉ sdPorts s.portQ
  sdc : ∀ p c, lookup s.ep.ports p = some (.connected c) → c.senderDropped = false →
          p ∈ s.senders ∨ p ∈ sdPorts s.portQ
  rd : ∀ p, (p ∈ s.receivers.map (·.1) ∨ p ∈ rdPorts s.portQ) → ConnWith s.ep p (fun c => c.receiverDropped = false)
  rdq : (rdPorts s.portQ).Nodup
  rds : ∀ p, p ∈ s.receivers.map (·.1) → p ∉ rdPorts s.portQ
  rdc : ∀ p c, lookup s.ep.ports p = some (.connected c) → c.receiverDropped = false →
          p ∈ s.receivers.map (·.1) ∨ p ∈ rdPorts s.portQ
  rc : ∀ p, ((p, false) ∈ s.receivers ∨ p ∈ rcPorts s.portQ) →
          ConnWith s.ep p (fun c => c.receiverClosed = false ∧ c.receiverDropped = false)
  rcq : (rcPorts s.portQ).Nodup
  rcs : ∀ p, (p, false) ∈ s.receivers → p ∉ rcPorts s.portQ
  ord : okCloseDrop s.portQ = true

theorem sdPorts_append (a b : List Evt) : sdPorts (a ++ b) = sdPorts a ++ sdPorts b := by
  induction a with
  | nil => rfl
  | cons m w ih => cases m <;> simp [sdPorts, ih]
theorem rdPorts_append (a b : List Evt) : rdPorts (a ++ b) = rdPorts a ++ rdPorts b := by
  induction a with
  | nil => rfl
  | cons m w ih => cases m <;> simp [rdPorts, ih]
theorem rcPorts_append (a b : List Evt) : rcPorts (a ++ b) = rcPorts a ++ rcPorts b := by
  induction a with
  | nil => rfl
  | cons m w ih => cases m <;> simp [rcPorts, ih]

theorem mem_rcPorts (q : List Evt) (p : Nat) : p ∈ rcPorts q ↔ Evt.receiverClosed p ∈ q := by
  induction q with
  | nil => simp [rcPorts]
  | cons m w ih => cases m <;> simp [rcPorts, ih]
theorem mem_rdPorts (q : List Evt) (p : Nat) : p ∈ rdPorts q ↔ Evt.receiverDropped p ∈ q := by
  induction q with
  | nil => simp [rdPorts]
  | cons m w ih => cases m <;> simp [rdPorts, ih]

/-- appending an event keeps the close-before-drop order unless it is a `ReceiverClosed p` behind a
`ReceiverDropped p` -/
theorem okCloseDrop_snoc (q : List Evt) (ev : Evt) (h : okCloseDrop q = true)
    (hev : ∀ p, ev = .receiverClosed p → p ∉ rdPorts q) : okCloseDrop (q ++ [ev]) = true := by
  induction q with
  | nil => cases ev <;> simp [okCloseDrop]
  | cons a as ih =>
    cases a with
    | receiverDropped p0 =>
      simp only [okCloseDrop, Bool.and_eq_true, Bool.not_eq_true'] at h
      simp only [List.cons_append, okCloseDrop, Bool.and_eq_true, Bool.not_eq_true']
      refine ⟨?_, ih h.2 (fun p hp hin => hev p hp (by simp [rdPorts, hin]))⟩
      cases hc : (as ++ [ev]).contains (Evt.receiverClosed p0) with
      | false => rfl
      | true =>
        simp only [List.contains_iff_mem, List.mem_append, List.mem_singleton] at hc
        rcases hc with hc | hc
        · have : as.contains (Evt.receiverClosed p0) = true := by simpa using hc
          rw [h.1] at this; simp at this
        · exact absurd (by simp [rdPorts]) (hev p0 hc.symm)
    | _ =>
      simp only [okCloseDrop] at h
      simp only [List.cons_append, okCloseDrop]
      exact ih h (fun p hp hin => hev p hp (by simpa [rdPorts] using hin))

theorem okCloseDrop_tail (ev : Evt) (q : List Evt) (h : okCloseDrop (ev :: q) = true) : okCloseDrop q = true := by
  cases ev <;> simp only [okCloseDrop, Bool.and_eq_true] at h <;> first | exact h | exact h.2

/-- entries with a local half still alive are kept, with the same local flags -/
def KeepsLive (e e' : Ep) : Prop :=
  ∀ p c, lookup e.ports p = some (.connected c) → (c.senderDropped = false ∨ c.receiverDropped = false) →
    ∃ c', lookup e'.ports p = some (.connected c') ∧ SameLocal c' c
/-- no connected entry is created, local flags unchanged -/
def NoNew (e e' : Ep) : Prop :=
  ∀ p c', lookup e'.ports p = some (.connected c') → ∃ c, lookup e.ports p = some (.connected c) ∧ SameLocal c' c

theorem ConnWith.keep {e e' : Ep} {p : Nat} {P : Connected → Prop} (hk : KeepsLive e e')
    (hP : ∀ c c', SameLocal c' c → P c → P c') (hlive : ∀ c, P c → c.senderDropped = false ∨ c.receiverDropped = false)
    (h : ConnWith e p P) : ConnWith e' p P := by
  obtain ⟨c, hc, hp⟩ := h
  obtain ⟨c', hc', hs⟩ := hk p c hc (hlive c hp)
  exact ⟨c', hc', hP c c' hs hp⟩

/-- the table changes without touching live entries; handles and handle events unchanged -/
theorem HandleInv.of_table {s s' : Side} (h : HandleInv s) (hk : KeepsLive s.ep s'.ep) (hn : NoNew s.ep s'.ep)
    (h1 : s'.senders = s.senders) (h2 : s'.receivers = s.receivers)
    (h3 : sdPorts s'.portQ = sdPorts s.portQ) (h4 : rdPorts s'.portQ = rdPorts s.portQ)
    (h5 : rcPorts s'.portQ = rcPorts s.portQ) (h6 : okCloseDrop s'.portQ = true) : HandleInv s' := by
  refine ⟨fun p hp => ?_, by rw [h3]; exact h.sdq, by rw [h1, h3]; exact h.sds, fun p c hc hf => ?_,
          fun p hp => ?_, by rw [h4]; exact h.rdq, by rw [h2, h4]; exact h.rds, fun p c hc hf => ?_,
          fun p hp => ?_, by rw [h5]; exact h.rcq, by rw [h2, h5]; exact h.rcs, h6⟩
  · rw [h1, h3] at hp
    exact (h.sd p hp).keep hk (fun c c' hs hP => by rw [hs.2.1]; exact hP) (fun c hP => Or.inl hP)
  · obtain ⟨c0, hc0, hs⟩ := hn p c hc
    rw [h1, h3]; exact h.sdc p c0 hc0 (by rw [← hs.2.1]; exact hf)
  · rw [h2, h4] at hp
    exact (h.rd p hp).keep hk (fun c c' hs hP => by rw [hs.2.2.1]; exact hP) (fun c hP => Or.inr hP)
  · obtain ⟨c0, hc0, hs⟩ := hn p c hc
    rw [h2, h4]; exact h.rdc p c0 hc0 (by rw [← hs.2.2.1]; exact hf)
  · rw [h2, h5] at hp
    exact (h.rc p hp).keep hk (fun c c' hs hP => by rw [hs.2.2.2, hs.2.2.1]; exact hP) (fun c hP => Or.inr hP.2)

/-- "set the entry of `p0` to `c1` (local flags of `c0` kept), then `maybe_free_port`" keeps live entries -/
theorem keepsLive_set_free (e : Ep) (p0 : Nat) (c0 c1 : Connected) (h0 : lookup e.ports p0 = some (.connected c0))
    (hs : SameLocal c1 c0) : KeepsLive e (maybeFree { e with ports := setPort e.ports p0 (.connected c1) } p0) := by
  intro p c hc hl
  rcases maybeFree_lookup { e with ports := setPort e.ports p0 (.connected c1) } p0 p with h' | ⟨rfl, h'⟩
  · by_cases hp : p = p0
    · subst hp; rw [h0] at hc; injection hc with hc; injection hc with hc; subst hc
      exact ⟨c1, by rw [h']; simp [lookup_setPort], hs⟩
    · exact ⟨c, by rw [h']; simp [lookup_setPort, hp, hc], .rfl' c⟩
  · rw [h0] at hc; injection hc with hc; injection hc with hc; subst hc
    have hf := maybeFree_removed { e with ports := setPort e.ports p (.connected c1) } p c1 (by simp [lookup_setPort]) h'
    obtain ⟨g1, g2, _, _⟩ := free_flags c1 hf
    rw [hs.2.1] at g1; rw [hs.2.2.1] at g2
    rcases hl with hl | hl
    · rw [g1] at hl; simp at hl
    · rw [g2] at hl; simp at hl

theorem keepsLive_set (e : Ep) (p0 : Nat) (c0 c1 : Connected) (h0 : lookup e.ports p0 = some (.connected c0))
    (hs : SameLocal c1 c0) : KeepsLive e { e with ports := setPort e.ports p0 (.connected c1) } := by
  intro p c hc _
  by_cases hp : p = p0
  · subst hp; rw [h0] at hc; injection hc with hc; injection hc with hc; subst hc
    exact ⟨c1, by simp [lookup_setPort], hs⟩
  · exact ⟨c, by simp [lookup_setPort, hp, hc], .rfl' c⟩

theorem keepsLive_refl (e e' : Ep) (h : e'.ports = e.ports) : KeepsLive e e' :=
  fun p c hc _ => ⟨c, by rw [h]; exact hc, .rfl' c⟩

/-- replacing or removing an entry that is not connected keeps all connected entries -/
theorem keepsLive_other (e e' : Ep) (p0 : Nat) (h0 : ∀ c, lookup e.ports p0 ≠ some (.connected c))
    (h : ∀ q, q ≠ p0 → lookup e'.ports q = lookup e.ports q) : KeepsLive e e' := by
  intro p c hc _
  have hp : p ≠ p0 := by intro h'; subst h'; exact h0 c hc
  exact ⟨c, by rw [h p hp]; exact hc, .rfl' c⟩

theorem handleRx_keeps_live (e e' : Ep) (m : Msg) (em : Emit) (h : handleRx e m = .ok (e', em)) : KeepsLive e e' := by
  cases m with
  | reset => simp [handleRx] at h
  | hello v c => simp [handleRx] at h
  | portOpened cp sp =>
    simp only [handleRx] at h
    split at h
    · rename_i hl
      simp only [Except.ok.injEq, Prod.mk.injEq] at h; obtain ⟨rfl, _⟩ := h
      exact keepsLive_other _ _ cp (fun c hc => by rw [hl] at hc; simp at hc) (fun q hq => by simp [lookup_setPort, hq])
    · simp at h
  | rejected cp np =>
    simp only [handleRx] at h
    split at h
    · rename_i hl
      simp only [Except.ok.injEq, Prod.mk.injEq] at h; obtain ⟨rfl, _⟩ := h
      exact keepsLive_other _ _ cp (fun c hc => by rw [hl] at hc; simp at hc) (fun q hq => by simp [lookup_erase, hq])
    · simp at h
  | sendFinish p =>
    simp only [handleRx] at h
    (repeat' split at h) <;> first
      | (simp at h; done)
      | (rename_i c hc _
         simp only [Except.ok.injEq, Prod.mk.injEq] at h; obtain ⟨rfl, _⟩ := h
         exact keepsLive_set_free e p c _ hc ⟨rfl, rfl, rfl, rfl⟩)
  | receiveClose p =>
    simp only [handleRx] at h
    (repeat' split at h) <;> first
      | (simp at h; done)
      | (rename_i c hc _
         simp only [Except.ok.injEq, Prod.mk.injEq] at h; obtain ⟨rfl, _⟩ := h
         exact keepsLive_set_free e p c _ hc ⟨rfl, rfl, rfl, rfl⟩)
  | receiveFinish p =>
    simp only [handleRx] at h
    (repeat' split at h) <;> first
      | (simp at h; done)
      | (rename_i c hc
         simp only [Except.ok.injEq, Prod.mk.injEq] at h; obtain ⟨rfl, _⟩ := h
         exact keepsLive_set_free e p c _ hc ⟨rfl, rfl, rfl, rfl⟩)
  | portData p f l w ps ids =>
    simp only [handleRx] at h
    (repeat' split at h) <;> first
      | (simp at h; done)
      | (rename_i c hc _ _ _ _
         simp only [Except.ok.injEq, Prod.mk.injEq] at h; obtain ⟨rfl, _⟩ := h
         exact keepsLive_set e p c _ hc ⟨rfl, rfl, rfl, rfl⟩)
  | portCredits p n =>
    simp only [handleRx] at h
    (repeat' split at h) <;> first
      | (simp at h; done)
      | (rename_i c hc _
         simp only [Except.ok.injEq, Prod.mk.injEq] at h; obtain ⟨rfl, _⟩ := h
         exact keepsLive_set e p c _ hc ⟨rfl, rfl, rfl, rfl⟩)
  | _ =>
    simp only [handleRx] at h
    (repeat' split at h) <;> first
      | (simp at h; done)
      | (simp only [Except.ok.injEq, Prod.mk.injEq] at h; obtain ⟨rfl, _⟩ := h
         exact keepsLive_refl _ _ rfl)

/-- a fresh connected entry `p` appears together with its two handles (`create_port`) -/
theorem HandleInv.new_port {s s' : Side} (h : HandleInv s) (p : Nat) (c1 : Connected)
    (hfresh : ∀ c, lookup s.ep.ports p ≠ some (.connected c))
    (hnew : lookup s'.ep.ports p = some (.connected c1))
    (f1 : c1.senderDropped = false) (f2 : c1.receiverDropped = false) (f3 : c1.receiverClosed = false)
    (hoth : ∀ q, q ≠ p → lookup s'.ep.ports q = lookup s.ep.ports q)
    (h1 : s'.senders = s.senders ++ [p]) (h2 : s'.receivers = s.receivers ++ [(p, false)])
    (h3 : sdPorts s'.portQ = sdPorts s.portQ) (h4 : rdPorts s'.portQ = rdPorts s.portQ)
    (h5 : rcPorts s'.portQ = rcPorts s.portQ) (h6 : okCloseDrop s'.portQ = true) : HandleInv s' := by
  have nosd : ∀ P, ¬ ConnWith s.ep p P := fun P ⟨c, hc, _⟩ => hfresh c hc
  have keep : ∀ q P, q ≠ p → ConnWith s.ep q P → ConnWith s'.ep q P := by
    intro q P hq ⟨c, hc, hP⟩; exact ⟨c, by rw [hoth q hq]; exact hc, hP⟩
  have ne_of : ∀ q P, ConnWith s.ep q P → q ≠ p := by
    intro q P hc hq; subst hq; exact nosd P hc
  refine ⟨fun q hq => ?_, by rw [h3]; exact h.sdq, fun q hq => ?_, fun q c hc hf => ?_,
          fun q hq => ?_, by rw [h4]; exact h.rdq, fun q hq => ?_, fun q c hc hf => ?_,
          fun q hq => ?_, by rw [h5]; exact h.rcq, fun q hq => ?_, h6⟩
  · rw [h1, h3] at hq; simp only [List.mem_append, List.mem_singleton] at hq
    rcases hq with (hq | rfl) | hq
    · exact keep q _ (ne_of q _ (h.sd q (Or.inl hq))) (h.sd q (Or.inl hq))
    · exact ⟨c1, hnew, f1⟩
    · exact keep q _ (ne_of q _ (h.sd q (Or.inr hq))) (h.sd q (Or.inr hq))
  · rw [h1] at hq; rw [h3]; simp only [List.mem_append, List.mem_singleton] at hq
    rcases hq with hq | rfl
    · exact h.sds q hq
    · intro hin; exact nosd _ (h.sd q (Or.inr hin))
  · rw [h1, h3]
    by_cases hq : q = p
    · subst hq; simp
    · rw [hoth q hq] at hc
      rcases h.sdc q c hc hf with h' | h'
      · exact Or.inl (List.mem_append.mpr (Or.inl h'))
      · exact Or.inr h'
  · rw [h2, h4] at hq; simp only [List.map_append, List.map_cons, List.map_nil, List.mem_append, List.mem_singleton] at hq
    rcases hq with (hq | rfl) | hq
    · exact keep q _ (ne_of q _ (h.rd q (Or.inl hq))) (h.rd q (Or.inl hq))
    · exact ⟨c1, hnew, f2⟩
    · exact keep q _ (ne_of q _ (h.rd q (Or.inr hq))) (h.rd q (Or.inr hq))
  · rw [h2] at hq; rw [h4]
    simp only [List.map_append, List.map_cons, List.map_nil, List.mem_append, List.mem_singleton] at hq
    rcases hq with hq | rfl
    · exact h.rds q hq
    · intro hin; exact nosd _ (h.rd q (Or.inr hin))
  · rw [h2, h4]
    by_cases hq : q = p
    · subst hq; simp
    · rw [hoth q hq] at hc
      rcases h.rdc q c hc hf with h' | h'
      · left; simp only [List.map_append, List.mem_append]; exact Or.inl h'
      · exact Or.inr h'
  · rw [h2, h5] at hq; simp only [List.mem_append, List.mem_singleton, Prod.mk.injEq] at hq
    rcases hq with (hq | ⟨rfl, _⟩) | hq
    · exact keep q _ (ne_of q _ (h.rc q (Or.inl hq))) (h.rc q (Or.inl hq))
    · exact ⟨c1, hnew, f3, f2⟩
    · exact keep q _ (ne_of q _ (h.rc q (Or.inr hq))) (h.rc q (Or.inr hq))
  · rw [h2] at hq; rw [h5]; simp only [List.mem_append, List.mem_singleton, Prod.mk.injEq] at hq
    rcases hq with hq | ⟨rfl, _⟩
    · exact h.rcs q hq
    · intro hin; exact nosd _ (h.rc q (Or.inr hin))

theorem connWith_other {e e' : Ep} {q p : Nat} {P : Connected → Prop} (hq : q ≠ p)
    (hoth : ∀ q, q ≠ p → lookup e'.ports q = lookup e.ports q) (h : ConnWith e q P) : ConnWith e' q P := by
  obtain ⟨c, hc, hP⟩ := h; exact ⟨c, by rw [hoth q hq]; exact hc, hP⟩

/-- the dispatcher handles the queued `SenderDropped p` -/
theorem HandleInv.pop_sd {s s' : Side} (h : HandleInv s) (p : Nat) (rest : List Evt) (c c1 : Connected)
    (hq : s.portQ = .senderDropped p :: rest) (hq' : s'.portQ = rest)
    (hc : lookup s.ep.ports p = some (.connected c))
    (e1 : c1.senderDropped = true) (e2 : c1.receiverDropped = c.receiverDropped) (e3 : c1.receiverClosed = c.receiverClosed)
    (hoth : ∀ q, q ≠ p → lookup s'.ep.ports q = lookup s.ep.ports q)
    (hp' : lookup s'.ep.ports p = some (.connected c1) ∨ (lookup s'.ep.ports p = none ∧ c.receiverDropped = true))
    (h1 : s'.senders = s.senders) (h2 : s'.receivers = s.receivers) : HandleInv s' := by
  have hsd : sdPorts s.portQ = p :: sdPorts rest := by rw [hq]; rfl
  have hrd : rdPorts s.portQ = rdPorts rest := by rw [hq]; rfl
  have hrc : rcPorts s.portQ = rcPorts rest := by rw [hq]; rfl
  have hnd := h.sdq; rw [hsd, List.nodup_cons] at hnd
  have hps : p ∉ s.senders := fun hin => h.sds p hin (by rw [hsd]; simp)
  -- a live receiver half keeps the entry
  have keepP : ∀ (P : Connected → Prop), (∀ x, P x → x.receiverDropped = false) →
      (∀ x y : Connected, y.receiverDropped = x.receiverDropped → y.receiverClosed = x.receiverClosed → P x → P y) →
      ConnWith s.ep p P → ConnWith s'.ep p P := by
    intro P hP1 hP2 ⟨c0, hc0, hP⟩
    rw [hc] at hc0; injection hc0 with hc0; injection hc0 with hc0; subst hc0
    rcases hp' with hp' | ⟨_, hfd⟩
    · exact ⟨c1, hp', hP2 c c1 e2 e3 hP⟩
    · rw [hP1 c hP] at hfd; simp at hfd
  refine ⟨fun q hq0 => ?_, by rw [hq']; exact hnd.2, fun q hq0 => ?_, fun q c' hc' hf => ?_,
          fun q hq0 => ?_, by rw [hq', ← hrd]; exact h.rdq, fun q hq0 => ?_, fun q c' hc' hf => ?_,
          fun q hq0 => ?_, by rw [hq', ← hrc]; exact h.rcq, fun q hq0 => ?_, ?_⟩
  · rw [h1, hq'] at hq0
    have hne : q ≠ p := by
      rcases hq0 with hq0 | hq0
      · intro h'; subst h'; exact hps hq0
      · intro h'; subst h'; exact hnd.1 hq0
    refine connWith_other hne hoth (h.sd q ?_)
    rcases hq0 with hq0 | hq0
    · exact Or.inl hq0
    · exact Or.inr (by rw [hsd]; simp [hq0])
  · rw [h1] at hq0; rw [hq']; intro hin; exact h.sds q hq0 (by rw [hsd]; simp [hin])
  · rw [h1, hq']
    have hne : q ≠ p := by
      intro h'; subst h'
      rcases hp' with hp' | ⟨hp', _⟩
      · rw [hp'] at hc'; injection hc' with hc'; injection hc' with hc'; subst hc'; rw [e1] at hf; simp at hf
      · rw [hp'] at hc'; simp at hc'
    rw [hoth q hne] at hc'
    rcases h.sdc q c' hc' hf with h' | h'
    · exact Or.inl h'
    · rw [hsd] at h'; simp only [List.mem_cons] at h'
      rcases h' with h' | h'
      · exact absurd h' hne
      · exact Or.inr h'
  · rw [h2, hq', ← hrd] at hq0
    by_cases hne : q = p
    · subst hne
      exact keepP _ (fun x hx => hx) (fun x y a _ hx => by rw [a]; exact hx) (h.rd q hq0)
    · exact connWith_other hne hoth (h.rd q hq0)
  · rw [h2] at hq0; rw [hq', ← hrd]; exact h.rds q hq0
  · rw [h2, hq', ← hrd]
    by_cases hne : q = p
    · subst hne
      rcases hp' with hp' | ⟨hp', _⟩
      · rw [hp'] at hc'; injection hc' with hc'; injection hc' with hc'; subst hc'
        exact h.rdc q c hc (by rw [← e2]; exact hf)
      · rw [hp'] at hc'; simp at hc'
    · rw [hoth q hne] at hc'; exact h.rdc q c' hc' hf
  · rw [h2, hq', ← hrc] at hq0
    by_cases hne : q = p
    · subst hne
      exact keepP _ (fun x hx => hx.2) (fun x y a b hx => by rw [a, b]; exact hx) (h.rc q hq0)
    · exact connWith_other hne hoth (h.rc q hq0)
  · rw [h2] at hq0; rw [hq', ← hrc]; exact h.rcs q hq0
  · rw [hq']; have := h.ord; rw [hq] at this; exact okCloseDrop_tail _ _ this

/-- the dispatcher handles the queued `ReceiverDropped p` -/
theorem HandleInv.pop_rd {s s' : Side} (h : HandleInv s) (p : Nat) (rest : List Evt) (c c1 : Connected)
    (hq : s.portQ = .receiverDropped p :: rest) (hq' : s'.portQ = rest)
    (hc : lookup s.ep.ports p = some (.connected c))
    (e1 : c1.receiverDropped = true) (e2 : c1.senderDropped = c.senderDropped)
    (hoth : ∀ q, q ≠ p → lookup s'.ep.ports q = lookup s.ep.ports q)
    (hp' : lookup s'.ep.ports p = some (.connected c1) ∨ (lookup s'.ep.ports p = none ∧ c.senderDropped = true))
    (h1 : s'.senders = s.senders) (h2 : s'.receivers = s.receivers) : HandleInv s' := by
  have hsd : sdPorts s.portQ = sdPorts rest := by rw [hq]; rfl
  have hrd : rdPorts s.portQ = p :: rdPorts rest := by rw [hq]; rfl
  have hrc : rcPorts s.portQ = rcPorts rest := by rw [hq]; rfl
  have hnd := h.rdq; rw [hrd, List.nodup_cons] at hnd
  have hps : p ∉ s.receivers.map (·.1) := fun hin => h.rds p hin (by rw [hrd]; simp)
  have hord := h.ord; rw [hq] at hord; simp only [okCloseDrop, Bool.and_eq_true, Bool.not_eq_true'] at hord
  have hnrc : p ∉ rcPorts rest := by
    intro hin; have := (mem_rcPorts rest p).mp hin
    have h2' : rest.contains (Evt.receiverClosed p) = true := by simpa using this
    rw [hord.1] at h2'; simp at h2'
  refine ⟨fun q hq0 => ?_, by rw [hq', ← hsd]; exact h.sdq, fun q hq0 => ?_, fun q c' hc' hf => ?_,
          fun q hq0 => ?_, by rw [hq']; exact hnd.2, fun q hq0 => ?_, fun q c' hc' hf => ?_,
          fun q hq0 => ?_, by rw [hq', ← hrc]; exact h.rcq, fun q hq0 => ?_, ?_⟩
  · rw [h1, hq', ← hsd] at hq0
    by_cases hne : q = p
    · subst hne
      obtain ⟨c0, hc0, hP⟩ := h.sd q hq0
      rw [hc] at hc0; injection hc0 with hc0; injection hc0 with hc0; subst hc0
      rcases hp' with hp' | ⟨_, hfd⟩
      · exact ⟨c1, hp', by show c1.senderDropped = false; rw [e2]; exact hP⟩
      · rw [hP] at hfd; simp at hfd
    · exact connWith_other hne hoth (h.sd q hq0)
  · rw [h1] at hq0; rw [hq', ← hsd]; exact h.sds q hq0
  · rw [h1, hq', ← hsd]
    by_cases hne : q = p
    · subst hne
      rcases hp' with hp' | ⟨hp', _⟩
      · rw [hp'] at hc'; injection hc' with hc'; injection hc' with hc'; subst hc'
        exact h.sdc q c hc (by rw [← e2]; exact hf)
      · rw [hp'] at hc'; simp at hc'
    · rw [hoth q hne] at hc'; exact h.sdc q c' hc' hf
  · rw [h2, hq'] at hq0
    have hne : q ≠ p := by
      rcases hq0 with hq0 | hq0
      · intro h'; subst h'; exact hps hq0
      · intro h'; subst h'; exact hnd.1 hq0
    refine connWith_other hne hoth (h.rd q ?_)
    rcases hq0 with hq0 | hq0
    · exact Or.inl hq0
    · exact Or.inr (by rw [hrd]; simp [hq0])
  · rw [h2] at hq0; rw [hq']; intro hin; exact h.rds q hq0 (by rw [hrd]; simp [hin])
  · rw [h2, hq']
    have hne : q ≠ p := by
      intro h'; subst h'
      rcases hp' with hp' | ⟨hp', _⟩
      · rw [hp'] at hc'; injection hc' with hc'; injection hc' with hc'; subst hc'; rw [e1] at hf; simp at hf
      · rw [hp'] at hc'; simp at hc'
    rw [hoth q hne] at hc'
    rcases h.rdc q c' hc' hf with h' | h'
    · exact Or.inl h'
    · rw [hrd] at h'; simp only [List.mem_cons] at h'
      rcases h' with h' | h'
      · exact absurd h' hne
      · exact Or.inr h'
  · rw [h2, hq', ← hrc] at hq0
    have hne : q ≠ p := by
      rcases hq0 with hq0 | hq0
      · intro h'; subst h'; exact hps (List.mem_map.mpr ⟨(q, false), hq0, rfl⟩)
      · intro h'; subst h'; rw [hrc] at hq0; exact hnrc hq0
    exact connWith_other hne hoth (h.rc q hq0)
  · rw [h2] at hq0; rw [hq', ← hrc]; exact h.rcs q hq0
  · rw [hq']; exact hord.2

/-- the dispatcher handles the queued `ReceiverClosed p` -/
theorem HandleInv.pop_rc {s s' : Side} (h : HandleInv s) (p : Nat) (rest : List Evt) (c c1 : Connected)
    (hq : s.portQ = .receiverClosed p :: rest) (hq' : s'.portQ = rest)
    (hc : lookup s.ep.ports p = some (.connected c))
    (e1 : c1.receiverClosed = true) (e2 : c1.senderDropped = c.senderDropped) (e3 : c1.receiverDropped = c.receiverDropped)
    (hoth : ∀ q, q ≠ p → lookup s'.ep.ports q = lookup s.ep.ports q)
    (hp' : lookup s'.ep.ports p = some (.connected c1))
    (h1 : s'.senders = s.senders) (h2 : s'.receivers = s.receivers) : HandleInv s' := by
  have hsd : sdPorts s.portQ = sdPorts rest := by rw [hq]; rfl
  have hrd : rdPorts s.portQ = rdPorts rest := by rw [hq]; rfl
  have hrc : rcPorts s.portQ = p :: rcPorts rest := by rw [hq]; rfl
  have hnd := h.rcq; rw [hrc, List.nodup_cons] at hnd
  have hps : (p, false) ∉ s.receivers := fun hin => h.rcs p hin (by rw [hrc]; simp)
  have keepP : ∀ q (P : Connected → Prop),
      (∀ x y : Connected, y.senderDropped = x.senderDropped → y.receiverDropped = x.receiverDropped → P x → P y) →
      ConnWith s.ep q P → ConnWith s'.ep q P := by
    intro q P hP2 hcw
    by_cases hne : q = p
    · subst hne
      obtain ⟨c0, hc0, hP⟩ := hcw
      rw [hc] at hc0; injection hc0 with hc0; injection hc0 with hc0; subst hc0
      exact ⟨c1, hp', hP2 c c1 e2 e3 hP⟩
    · exact connWith_other hne hoth hcw
  have back : ∀ q c', lookup s'.ep.ports q = some (.connected c') →
      ∃ c0, lookup s.ep.ports q = some (.connected c0) ∧ c'.senderDropped = c0.senderDropped ∧
        c'.receiverDropped = c0.receiverDropped := by
    intro q c' hc'
    by_cases hne : q = p
    · subst hne; rw [hp'] at hc'; injection hc' with hc'; injection hc' with hc'; subst hc'
      exact ⟨c, hc, e2, e3⟩
    · rw [hoth q hne] at hc'; exact ⟨c', hc', rfl, rfl⟩
  refine ⟨fun q hq0 => ?_, by rw [hq', ← hsd]; exact h.sdq, fun q hq0 => ?_, fun q c' hc' hf => ?_,
          fun q hq0 => ?_, by rw [hq', ← hrd]; exact h.rdq, fun q hq0 => ?_, fun q c' hc' hf => ?_,
          fun q hq0 => ?_, by rw [hq']; exact hnd.2, fun q hq0 => ?_, ?_⟩
  · rw [h1, hq', ← hsd] at hq0
    exact keepP q _ (fun x y a _ hx => by rw [a]; exact hx) (h.sd q hq0)
  · rw [h1] at hq0; rw [hq', ← hsd]; exact h.sds q hq0
  · rw [h1, hq', ← hsd]
    obtain ⟨c0, hc0, a, _⟩ := back q c' hc'
    exact h.sdc q c0 hc0 (by rw [← a]; exact hf)
  · rw [h2, hq', ← hrd] at hq0
    exact keepP q _ (fun x y _ b hx => by rw [b]; exact hx) (h.rd q hq0)
  · rw [h2] at hq0; rw [hq', ← hrd]; exact h.rds q hq0
  · rw [h2, hq', ← hrd]
    obtain ⟨c0, hc0, _, b⟩ := back q c' hc'
    exact h.rdc q c0 hc0 (by rw [← b]; exact hf)
  · rw [h2, hq'] at hq0
    have hne : q ≠ p := by
      rcases hq0 with hq0 | hq0
      · intro h'; subst h'; exact hps hq0
      · intro h'; subst h'; exact hnd.1 hq0
    refine connWith_other hne hoth (h.rc q ?_)
    rcases hq0 with hq0 | hq0
    · exact Or.inl hq0
    · exact Or.inr (by rw [hrc]; simp [hq0])
  · rw [h2] at hq0; rw [hq']; intro hin; exact h.rcs q hq0 (by rw [hrc]; simp [hin])
  · rw [hq']; have := h.ord; rw [hq] at this; exact okCloseDrop_tail _ _ this

theorem okCloseDrop_append (q evs : List Evt) (h : okCloseDrop q = true) (h2 : okCloseDrop evs = true)
    (hev : ∀ p, Evt.receiverClosed p ∉ evs) : okCloseDrop (q ++ evs) = true := by
  induction q with
  | nil => exact h2
  | cons a as ih =>
    cases a with
    | receiverDropped p0 =>
      simp only [okCloseDrop, Bool.and_eq_true, Bool.not_eq_true'] at h
      simp only [List.cons_append, okCloseDrop, Bool.and_eq_true, Bool.not_eq_true']
      refine ⟨?_, ih h.2⟩
      cases hc : (as ++ evs).contains (Evt.receiverClosed p0) with
      | false => rfl
      | true =>
        simp only [List.contains_iff_mem, List.mem_append] at hc
        rcases hc with hc | hc
        · have : as.contains (Evt.receiverClosed p0) = true := by simpa using hc
          rw [h.1] at this; simp at this
        · exact absurd hc (hev p0)
    | _ =>
      simp only [okCloseDrop] at h
      simp only [List.cons_append, okCloseDrop]
      exact ih h

theorem okCloseDrop_snoc_list (q evs : List Evt) (h : okCloseDrop q = true) (g3 : rcPorts evs = [])
    (g2 : rdPorts evs = []) : okCloseDrop (q ++ evs) = true := by
  have hev : ∀ p, Evt.receiverClosed p ∉ evs := by
    intro p hin; have := (mem_rcPorts evs p).mpr hin; rw [g3] at this; simp at this
  have hod : okCloseDrop evs = true := by
    clear hev g3
    induction evs with
    | nil => rfl
    | cons a as ih =>
      cases a <;> simp only [okCloseDrop, rdPorts] at g2 ⊢ <;> first
        | exact ih g2
        | simp at g2
  exact okCloseDrop_append _ _ h hod hev

/-- events that are not about handles are appended to the port queue; table and handles unchanged -/
theorem HandleInv.append_plain {s s' : Side} (h : HandleInv s) (evs : List Evt)
    (hp : s'.ep.ports = s.ep.ports) (hq : s'.portQ = s.portQ ++ evs)
    (h1 : s'.senders = s.senders) (h2 : s'.receivers = s.receivers)
    (g1 : sdPorts evs = []) (g2 : rdPorts evs = []) (g3 : rcPorts evs = []) : HandleInv s' := by
  have hev : ∀ p, Evt.receiverClosed p ∉ evs := by
    intro p hin; have := (mem_rcPorts evs p).mpr hin; rw [g3] at this; simp at this
  have hod : okCloseDrop evs = true := by
    clear hq hev g1 g3
    induction evs with
    | nil => rfl
    | cons a as ih =>
      cases a <;> simp only [okCloseDrop, rdPorts] at g2 ⊢ <;> first
        | exact ih g2
        | simp at g2
  refine h.of_table (keepsLive_refl _ _ hp) (fun p c hc => ⟨c, by rw [← hp]; exact hc, .rfl' c⟩) h1 h2
    (by rw [hq, sdPorts_append, g1]; simp) (by rw [hq, rdPorts_append, g2]; simp) (by rw [hq, rcPorts_append, g3]; simp)
    (by rw [hq]; exact okCloseDrop_append _ _ h.ord hod hev)

theorem HandleInv.drop_sender {s : Side} (h : HandleInv s) (p : Nat) (hin : p ∈ s.senders) :
    HandleInv { s with senders := s.senders.filter (· != p), portQ := s.portQ ++ [.senderDropped p] } := by
  have hnp := h.sds p hin
  refine ⟨fun q hq => ?_, ?_, fun q hq => ?_, fun q c hc hf => ?_, fun q hq => ?_, ?_, fun q hq => ?_,
          fun q c hc hf => ?_, fun q hq => ?_, ?_, fun q hq => ?_, ?_⟩
  · simp only [sdPorts_append, sdPorts, List.mem_append, List.mem_singleton, List.mem_filter] at hq
    rcases hq with hq | hq | rfl
    · exact h.sd q (Or.inl hq.1)
    · exact h.sd q (Or.inr hq)
    · exact h.sd q (Or.inl hin)
  · simp only [sdPorts_append, sdPorts]
    rw [List.nodup_append]; exact ⟨h.sdq, by simp, fun a ha b hb => by simp at hb; subst hb; intro hab; subst hab; exact hnp ha⟩
  · simp only [List.mem_filter, bne_iff_ne, ne_eq] at hq
    simp only [sdPorts_append, sdPorts, List.mem_append, List.mem_singleton]
    rintro (h' | h')
    · exact h.sds q hq.1 h'
    · exact hq.2 h'
  · simp only [sdPorts_append, sdPorts, List.mem_append, List.mem_singleton, List.mem_filter, bne_iff_ne, ne_eq]
    by_cases hqp : q = p
    · right; right; exact hqp
    · rcases h.sdc q c hc hf with h' | h'
      · exact Or.inl ⟨h', hqp⟩
      · exact Or.inr (Or.inl h')
  · simp only [rdPorts_append, rdPorts, List.append_nil] at hq; exact h.rd q hq
  · simp only [rdPorts_append, rdPorts, List.append_nil]; exact h.rdq
  · simp only [rdPorts_append, rdPorts, List.append_nil]; exact h.rds q hq
  · simp only [rdPorts_append, rdPorts, List.append_nil]; exact h.rdc q c hc hf
  · simp only [rcPorts_append, rcPorts, List.append_nil] at hq; exact h.rc q hq
  · simp only [rcPorts_append, rcPorts, List.append_nil]; exact h.rcq
  · simp only [rcPorts_append, rcPorts, List.append_nil]; exact h.rcs q hq
  · exact okCloseDrop_snoc _ _ h.ord (fun p' hp' => by simp at hp')

theorem HandleInv.drop_receiver {s : Side} (h : HandleInv s) (p : Nat) (hin : p ∈ s.receivers.map (·.1)) :
    HandleInv { s with receivers := s.receivers.filter (·.1 != p), portQ := s.portQ ++ [.receiverDropped p] } := by
  have hnp := h.rds p hin
  have hkeys : ∀ q, q ∈ (s.receivers.filter (·.1 != p)).map (·.1) ↔ (q ∈ s.receivers.map (·.1) ∧ q ≠ p) := by
    intro q; simp only [List.mem_map, List.mem_filter, bne_iff_ne, ne_eq]
    constructor
    · rintro ⟨r, ⟨hr, hne⟩, rfl⟩; exact ⟨⟨r, hr, rfl⟩, hne⟩
    · rintro ⟨⟨r, hr, rfl⟩, hne⟩; exact ⟨r, ⟨hr, hne⟩, rfl⟩
  refine ⟨fun q hq => ?_, ?_, fun q hq => ?_, fun q c hc hf => ?_, fun q hq => ?_, ?_, fun q hq => ?_,
          fun q c hc hf => ?_, fun q hq => ?_, ?_, fun q hq => ?_, ?_⟩
  · simp only [sdPorts_append, sdPorts, List.append_nil] at hq; exact h.sd q hq
  · simp only [sdPorts_append, sdPorts, List.append_nil]; exact h.sdq
  · simp only [sdPorts_append, sdPorts, List.append_nil]; exact h.sds q hq
  · simp only [sdPorts_append, sdPorts, List.append_nil]; exact h.sdc q c hc hf
  · simp only [rdPorts_append, rdPorts, List.mem_append, List.mem_singleton] at hq
    rcases hq with hq | hq | rfl
    · exact h.rd q (Or.inl ((hkeys q).mp hq).1)
    · exact h.rd q (Or.inr hq)
    · exact h.rd q (Or.inl hin)
  · simp only [rdPorts_append, rdPorts]
    rw [List.nodup_append]; exact ⟨h.rdq, by simp, fun a ha b hb => by simp at hb; subst hb; intro hab; subst hab; exact hnp ha⟩
  · have := (hkeys q).mp hq
    simp only [rdPorts_append, rdPorts, List.mem_append, List.mem_singleton]
    rintro (h' | h')
    · exact h.rds q this.1 h'
    · exact this.2 h'
  · simp only [rdPorts_append, rdPorts, List.mem_append, List.mem_singleton]
    by_cases hqp : q = p
    · right; right; exact hqp
    · rcases h.rdc q c hc hf with h' | h'
      · exact Or.inl ((hkeys q).mpr ⟨h', hqp⟩)
      · exact Or.inr (Or.inl h')
  · simp only [rcPorts_append, rcPorts, List.append_nil, List.mem_filter] at hq
    rcases hq with hq | hq
    · exact h.rc q (Or.inl hq.1)
    · exact h.rc q (Or.inr hq)
  · simp only [rcPorts_append, rcPorts, List.append_nil]; exact h.rcq
  · simp only [rcPorts_append, rcPorts, List.append_nil, List.mem_filter] at hq ⊢; exact h.rcs q hq.1
  · exact okCloseDrop_snoc _ _ h.ord (fun p' hp' => by simp at hp')

theorem mem_setClosed (rs : List (Nat × Bool)) (p q : Nat) (b : Bool) :
    (q, b) ∈ setClosed rs p ↔ ((q ≠ p ∧ (q, b) ∈ rs) ∨ (q = p ∧ b = true ∧ ∃ b', (p, b') ∈ rs)) := by
  simp only [setClosed, List.mem_map]
  constructor
  · rintro ⟨⟨k, v⟩, hr, heq⟩
    by_cases hk : k = p
    · simp only [hk, if_true, Prod.mk.injEq] at heq
      obtain ⟨h1, h2⟩ := heq
      right; exact ⟨h1.symm, h2.symm, v, hk ▸ hr⟩
    · simp only [hk, if_false, Prod.mk.injEq] at heq
      obtain ⟨h1, h2⟩ := heq
      left; subst h1; subst h2; exact ⟨hk, hr⟩
  · rintro (⟨h1, h2⟩ | ⟨h1, h2, b', h3⟩)
    · exact ⟨(q, b), h2, by simp [h1]⟩
    · subst h1; subst h2; exact ⟨(q, b'), h3, by simp⟩

theorem keys_setClosed (rs : List (Nat × Bool)) (p : Nat) : (setClosed rs p).map (·.1) = rs.map (·.1) := by
  induction rs with
  | nil => rfl
  | cons r rs ih =>
    obtain ⟨k, v⟩ := r
    simp only [setClosed, List.map_cons] at ih ⊢
    by_cases hk : k = p
    · simp [hk, ih]
    · simp [hk, ih]

theorem HandleInv.close_receiver {s : Side} (h : HandleInv s) (p : Nat) (hin : (p, false) ∈ s.receivers) :
    HandleInv { s with receivers := setClosed s.receivers p, portQ := s.portQ ++ [.receiverClosed p] } := by
  have hnp := h.rcs p hin
  have hkey : p ∈ s.receivers.map (·.1) := List.mem_map.mpr ⟨(p, false), hin, rfl⟩
  refine ⟨fun q hq => ?_, ?_, fun q hq => ?_, fun q c hc hf => ?_, fun q hq => ?_, ?_, fun q hq => ?_,
          fun q c hc hf => ?_, fun q hq => ?_, ?_, fun q hq => ?_, ?_⟩
  · simp only [sdPorts_append, sdPorts, List.append_nil] at hq; exact h.sd q hq
  · simp only [sdPorts_append, sdPorts, List.append_nil]; exact h.sdq
  · simp only [sdPorts_append, sdPorts, List.append_nil]; exact h.sds q hq
  · simp only [sdPorts_append, sdPorts, List.append_nil]; exact h.sdc q c hc hf
  · simp only [rdPorts_append, rdPorts, List.append_nil, keys_setClosed] at hq; exact h.rd q hq
  · simp only [rdPorts_append, rdPorts, List.append_nil]; exact h.rdq
  · simp only [rdPorts_append, rdPorts, List.append_nil, keys_setClosed] at hq ⊢; exact h.rds q hq
  · simp only [rdPorts_append, rdPorts, List.append_nil, keys_setClosed]; exact h.rdc q c hc hf
  · simp only [rcPorts_append, rcPorts, List.mem_append, List.mem_singleton, mem_setClosed] at hq
    rcases hq with (⟨_, hq⟩ | ⟨_, hq, _⟩) | hq | rfl
    · exact h.rc q (Or.inl hq)
    · simp at hq
    · exact h.rc q (Or.inr hq)
    · exact h.rc q (Or.inl hin)
  · simp only [rcPorts_append, rcPorts]
    rw [List.nodup_append]; exact ⟨h.rcq, by simp, fun a ha b hb => by simp at hb; subst hb; intro hab; subst hab; exact hnp ha⟩
  · simp only [mem_setClosed] at hq
    simp only [rcPorts_append, rcPorts, List.mem_append, List.mem_singleton]
    rcases hq with ⟨h1, h2⟩ | ⟨_, h2, _⟩
    · rintro (h' | h')
      · exact h.rcs q h2 h'
      · exact h1 h'
    · simp at h2
  · exact okCloseDrop_snoc _ _ h.ord (fun p' hp' => by
      simp only [Evt.receiverClosed.injEq] at hp'; subst hp'; exact h.rds _ hkey)

theorem sdPorts_auto (em : List Msg) : sdPorts (autoEvts em) = [] := by
  induction em with
  | nil => rfl
  | cons m w ih => cases m <;> simp [autoEvts, sdPorts, ih]
theorem rdPorts_auto (em : List Msg) : rdPorts (autoEvts em) = [] := by
  induction em with
  | nil => rfl
  | cons m w ih => cases m <;> simp [autoEvts, rdPorts, ih]
theorem rcPorts_auto (em : List Msg) : rcPorts (autoEvts em) = [] := by
  induction em with
  | nil => rfl
  | cons m w ih => cases m <;> simp [autoEvts, rcPorts, ih]
theorem sdPorts_rejectAll (q : List (Nat × Bool)) : sdPorts (q.map (fun r => Evt.rejected r.1 false)) = [] := by
  induction q with
  | nil => rfl
  | cons a as ih => simp [sdPorts, ih]
theorem rdPorts_rejectAll (q : List (Nat × Bool)) : rdPorts (q.map (fun r => Evt.rejected r.1 false)) = [] := by
  induction q with
  | nil => rfl
  | cons a as ih => simp [rdPorts, ih]
theorem rcPorts_rejectAll (q : List (Nat × Bool)) : rcPorts (q.map (fun r => Evt.rejected r.1 false)) = [] := by
  induction q with
  | nil => rfl
  | cons a as ih => simp [rcPorts, ih]

@[simp] theorem rxHandles_senders_other (s : Side) (m : Msg) (h : ∀ cp sp, m ≠ .portOpened cp sp) :
    (rxHandles s m).senders = s.senders ∧ (rxHandles s m).receivers = s.receivers := by
  cases m <;> first | exact ⟨rfl, rfl⟩ | exact absurd rfl (h _ _)

/-- events that do not set a local port flag: table keeps live entries, creates no connected entry -/
theorem handleEvt_plain_table (e e' : Ep) (ev : Evt) (m : Option Msg) (h : handleEvt e ev = some (e', m))
    (hev : match ev with
      | .accepted _ _ | .senderDropped _ | .receiverDropped _ | .receiverClosed _ => False
      | _ => True) : KeepsLive e e' ∧ NoNew e e' := by
  cases ev with
  | connectReq p w i =>
    simp only [handleEvt] at h
    (repeat' split at h) <;> first
      | (simp at h; done)
      | (simp only [Option.some.injEq, Prod.mk.injEq] at h; obtain ⟨rfl, _⟩ := h
         exact ⟨keepsLive_refl _ _ rfl, fun p c hc => ⟨c, hc, .rfl' c⟩⟩)
      | (rename_i hn _
         simp only [Option.some.injEq, Prod.mk.injEq] at h; obtain ⟨rfl, _⟩ := h
         have hn' : lookup e.ports p = none := by simpa using hn
         refine ⟨keepsLive_other _ _ p (fun c hc => by rw [hn'] at hc; simp at hc) (fun q hq => by simp [lookup_setPort, hq]), ?_⟩
         intro q c hc
         rcases setPort_cases _ _ _ _ _ hc with ⟨_, h2⟩ | ⟨_, h2⟩
         · simp at h2
         · exact ⟨c, h2, .rfl' c⟩)
  | accepted lp rp => exact hev.elim
  | senderDropped p => exact hev.elim
  | receiverDropped p => exact hev.elim
  | receiverClosed p => exact hev.elim
  | _ =>
    simp only [handleEvt] at h
    (repeat' split at h) <;> first
      | (simp at h; done)
      | (simp only [Option.some.injEq, Prod.mk.injEq] at h; obtain ⟨rfl, _⟩ := h
         exact ⟨keepsLive_refl _ _ rfl, fun p c hc => ⟨c, hc, .rfl' c⟩⟩)

theorem KeepsLive.congr {e e' e'' : Ep} (h : KeepsLive e e') (hp : e''.ports = e'.ports) : KeepsLive e e'' :=
  fun p c hc hl => by obtain ⟨c', h1, h2⟩ := h p c hc hl; exact ⟨c', by rw [hp]; exact h1, h2⟩
theorem NoNew.congr {e e' e'' : Ep} (h : NoNew e e') (hp : e''.ports = e'.ports) : NoNew e e'' :=
  fun p c hc => h p c (by rw [← hp]; exact hc)

theorem handleInv_step (s s' : Side) (inW inW' out : List Msg) (l : Lab)
    (hs : stepSide s inW l = some (s', inW', out)) (h : HandleInv s) (hq : QType s)
    (hw : ∀ m ∈ inW, isCtl m = true) : HandleInv s' := by
  cases l <;> simp only [stepSide] at hs
  case dropSender p =>
    split at hs
    · rename_i hg
      simp only [Option.some.injEq, Prod.mk.injEq] at hs; obtain ⟨rfl, _, _⟩ := hs
      exact h.drop_sender p (by simpa using hg)
    · simp at hs
  case dropReceiver p =>
    split at hs
    · rename_i hg
      simp only [Option.some.injEq, Prod.mk.injEq] at hs; obtain ⟨rfl, _, _⟩ := hs
      refine h.drop_receiver p ?_
      simp only [List.any_eq_true, beq_iff_eq] at hg
      obtain ⟨r, hr, hrp⟩ := hg
      exact List.mem_map.mpr ⟨r, hr, hrp⟩
    · simp at hs
  case closeReceiver p =>
    split at hs
    · rename_i hg
      simp only [Option.some.injEq, Prod.mk.injEq] at hs; obtain ⟨rfl, _, _⟩ := hs
      exact h.close_receiver p (by simpa using hg)
    · simp at hs
  case acceptReq rp lp =>
    split at hs
    · simp only [Option.some.injEq, Prod.mk.injEq] at hs; obtain ⟨rfl, _, _⟩ := hs
      exact h.append_plain [.accepted lp rp] rfl rfl rfl rfl rfl rfl rfl
    · simp at hs
  case rejectReq rp np =>
    split at hs
    · simp only [Option.some.injEq, Prod.mk.injEq] at hs; obtain ⟨rfl, _, _⟩ := hs
      exact h.append_plain [.rejected rp np] rfl rfl rfl rfl rfl rfl rfl
    · simp at hs
  case dropListener =>
    split at hs
    · simp only [Option.some.injEq, Prod.mk.injEq] at hs; obtain ⟨rfl, _, _⟩ := hs
      exact h.append_plain _ rfl rfl rfl rfl (sdPorts_rejectAll _) (rdPorts_rejectAll _) (rcPorts_rejectAll _)
    · simp at hs
  case startConnect p w =>
    split at hs
    · simp only [Option.some.injEq, Prod.mk.injEq] at hs; obtain ⟨rfl, _, _⟩ := hs
      exact h.append_plain [] rfl (by simp) rfl rfl rfl rfl rfl
    · simp at hs
  case takeReq w =>
    (repeat' split at hs) <;> first
      | (simp at hs; done)
      | (simp only [Option.some.injEq, Prod.mk.injEq] at hs; obtain ⟨rfl, _, _⟩ := hs
         exact h.append_plain [] rfl (by simp) rfl rfl rfl rfl rfl)
  case dropClients =>
    split at hs
    · simp only [Option.some.injEq, Prod.mk.injEq] at hs; obtain ⟨rfl, _, _⟩ := hs
      exact h.append_plain [] rfl (by simp) rfl rfl rfl rfl rfl
    · simp at hs
  case dispConn =>
    (repeat' split at hs) <;> first
      | (simp at hs; done)
      | (rename_i ev rest hq' _ e' m he
         simp only [Option.some.injEq, Prod.mk.injEq] at hs; obtain ⟨rfl, _, _⟩ := hs
         have hce := hq.conn ev (by rw [hq']; simp)
         obtain ⟨hk, hn⟩ := handleEvt_plain_table _ _ _ _ he (by cases ev <;> simp [isConnEvt] at hce <;> trivial)
         exact h.of_table hk hn rfl rfl rfl rfl rfl h.ord)
  case dispListener =>
    (repeat' split at hs) <;> first
      | (simp at hs; done)
      | (rename_i _ e' m he
         simp only [Option.some.injEq, Prod.mk.injEq] at hs; obtain ⟨rfl, _, _⟩ := hs
         obtain ⟨hk, hn⟩ := handleEvt_plain_table _ _ _ _ he trivial
         exact h.of_table hk hn rfl rfl rfl rfl rfl h.ord)
  case goodbye =>
    (repeat' split at hs) <;> first
      | (simp at hs; done)
      | (rename_i _ e' m he
         simp only [Option.some.injEq, Prod.mk.injEq] at hs; obtain ⟨rfl, _, _⟩ := hs
         obtain ⟨hk, hn⟩ := handleEvt_plain_table _ _ _ _ he trivial
         exact h.of_table hk hn rfl rfl rfl rfl rfl h.ord)
  case deliver =>
    (repeat' split at hs) <;> first
      | (simp at hs; done)
      | (rename_i m rest _ e' em he
         simp only [Option.some.injEq, Prod.mk.injEq] at hs; obtain ⟨rfl, _, _⟩ := hs
         have hk : KeepsLive s.ep e' := handleRx_keeps_live s.rxView e' m em he
         have hord : okCloseDrop (s.portQ ++ autoEvts em) = true := by
           refine okCloseDrop_snoc_list _ _ h.ord (rcPorts_auto em) (rdPorts_auto em)
         by_cases hm : ∃ cp sp, m = .portOpened cp sp
         · obtain ⟨cp, sp, rfl⟩ := hm
           simp only [handleRx] at he
           split at he
           · rename_i hl
             simp only [Except.ok.injEq, Prod.mk.injEq] at he; obtain ⟨rfl, rfl⟩ := he
             have hl' : lookup s.ep.ports cp = some .connecting := hl
             refine h.new_port cp { remote := sp, pool := s.rxView.cfg.remoteBuf } (fun c hc => by rw [hl'] at hc; simp at hc)
               (by simp [rxHandles, withHandles, requeue, lookup_setPort, Side.rxView]) rfl rfl rfl
               (fun q hq0 => by simp [rxHandles, withHandles, requeue, lookup_setPort, hq0, Side.rxView])
               (by simp [rxHandles, withHandles]) (by simp [rxHandles, withHandles])
               (by simp [rxHandles, withHandles, autoEvts]) (by simp [rxHandles, withHandles, autoEvts])
               (by simp [rxHandles, withHandles, autoEvts]) (by simpa [rxHandles, withHandles, autoEvts] using h.ord)
           · simp at he
         · have hno : ∀ cp sp, m ≠ .portOpened cp sp := fun cp sp hc => hm ⟨cp, sp, hc⟩
           have hn : NoNew s.ep e' := fun p c hc => handleRx_keeps_local s.rxView e' m em he hno p c hc
           obtain ⟨r1, r2⟩ := rxHandles_senders_other
             { s with ep := requeue { e' with listenerDropped := s.ep.listenerDropped } em, portQ := s.portQ ++ autoEvts em } m hno
           exact h.of_table (s' := rxHandles _ m) (by simp only [rxHandles_ep]; exact hk.congr rfl) (by simp only [rxHandles_ep]; exact hn.congr rfl) r1 r2
             (by simp [sdPorts_append, sdPorts_auto]) (by simp [rdPorts_append, rdPorts_auto])
             (by simp [rcPorts_append, rcPorts_auto]) (by simpa using hord))
  case dispPort =>
    (repeat' split at hs) <;> first
      | (simp at hs; done)
      | (rename_i ev rest hq' _ e' m he
         simp only [Option.some.injEq, Prod.mk.injEq] at hs; obtain ⟨rfl, _, _⟩ := hs
         have hpe := hq.port ev (by rw [hq']; simp)
         have hordt : okCloseDrop rest = true := by have := h.ord; rw [hq'] at this; exact okCloseDrop_tail _ _ this
         cases ev with
         | accepted lp rp =>
           simp only [handleEvt] at he
           split at he
           · simp at he
           · rename_i hg
             simp only [Option.some.injEq, Prod.mk.injEq] at he; obtain ⟨rfl, _⟩ := he
             have hn : lookup s.ep.ports lp = none := by
               cases hl : lookup s.ep.ports lp with
               | none => rfl
               | some st => exact absurd (Or.inr (by simp [hl])) hg
             refine h.new_port lp { remote := rp, pool := s.ep.cfg.remoteBuf } (fun c hc => by rw [hn] at hc; simp at hc)
               (by simp [evtHandles, withHandles, lookup_setPort]) rfl rfl rfl
               (fun q hq0 => by simp [evtHandles, withHandles, lookup_setPort, hq0])
               (by simp [evtHandles, withHandles]) (by simp [evtHandles, withHandles])
               (by simp [evtHandles, withHandles, hq', sdPorts]) (by simp [evtHandles, withHandles, hq', rdPorts])
               (by simp [evtHandles, withHandles, hq', rcPorts]) (by simpa [evtHandles, withHandles] using hordt)
         | rejected rp np =>
           simp only [handleEvt] at he
           split at he
           · simp at he
           · simp only [Option.some.injEq, Prod.mk.injEq] at he; obtain ⟨rfl, _⟩ := he
             exact h.of_table (keepsLive_refl _ _ rfl) (fun p c hc => ⟨c, hc, .rfl' c⟩) rfl rfl
               (by simp [evtHandles, hq', sdPorts]) (by simp [evtHandles, hq', rdPorts]) (by simp [evtHandles, hq', rcPorts])
               (by simpa [evtHandles] using hordt)
         | senderDropped p =>
           simp only [handleEvt] at he
           split at he
           · rename_i c hc
             split at he
             · simp at he
             · simp only [Option.some.injEq, Prod.mk.injEq] at he; obtain ⟨rfl, _⟩ := he
               refine h.pop_sd p rest c { c with senderDropped := true } hq' rfl hc rfl rfl rfl (fun q hq0 => ?_) ?_ rfl rfl
               · rcases maybeFree_lookup { s.ep with ports := setPort s.ep.ports p (.connected { c with senderDropped := true }) } p q with h' | ⟨h', _⟩
                 · simp only [evtHandles]; rw [h']; simp [lookup_setPort, hq0]
                 · exact absurd h' hq0
               · rcases maybeFree_lookup { s.ep with ports := setPort s.ep.ports p (.connected { c with senderDropped := true }) } p p with h' | ⟨_, h'⟩
                 · left; simp only [evtHandles]; rw [h']; simp [lookup_setPort]
                 · right
                   have hf := maybeFree_removed _ p { c with senderDropped := true } (by simp [lookup_setPort]) h'
                   exact ⟨h', (free_flags _ hf).2.1⟩
           · simp at he
         | receiverDropped p =>
           simp only [handleEvt] at he
           split at he
           · rename_i c hc
             split at he
             · simp at he
             · simp only [Option.some.injEq, Prod.mk.injEq] at he; obtain ⟨rfl, _⟩ := he
               refine h.pop_rd p rest c { c with receiverDropped := true } hq' rfl hc rfl rfl (fun q hq0 => ?_) ?_ rfl rfl
               · rcases maybeFree_lookup { s.ep with ports := setPort s.ep.ports p (.connected { c with receiverDropped := true }) } p q with h' | ⟨h', _⟩
                 · simp only [evtHandles]; rw [h']; simp [lookup_setPort, hq0]
                 · exact absurd h' hq0
               · rcases maybeFree_lookup { s.ep with ports := setPort s.ep.ports p (.connected { c with receiverDropped := true }) } p p with h' | ⟨_, h'⟩
                 · left; simp only [evtHandles]; rw [h']; simp [lookup_setPort]
                 · right
                   have hf := maybeFree_removed _ p { c with receiverDropped := true } (by simp [lookup_setPort]) h'
                   exact ⟨h', (free_flags _ hf).1⟩
           · simp at he
         | receiverClosed p =>
           simp only [handleEvt] at he
           split at he
           · rename_i c hc
             split at he
             · simp at he
             · simp only [Option.some.injEq, Prod.mk.injEq] at he; obtain ⟨rfl, _⟩ := he
               exact h.pop_rc p rest c { c with receiverClosed := true } hq' rfl hc rfl rfl rfl
                 (fun q hq0 => by simp [evtHandles, lookup_setPort, hq0]) (by simp [evtHandles, lookup_setPort]) rfl rfl
           · simp at he
         | _ => simp [isPortEvt] at hpe)

end Remoc.Table.Sys
