import RemocModel.Table.ConnPortX
set_option linter.unusedSimpArgs false
set_option linter.unusedVariables false
/-
Port layer, steps of the READER `y` of the wire `w` (direction x → y): local events change `y`'s
table; delivering the head of `w` changes `y`'s table and shortens `w`.
-/
namespace Remoc.Table.Sys
open Remoc.Wire Remoc.Table

/-- remote-flag view of a connected entry (what the writer's invariant reads of its partner) -/
def SameRemote (d' d : Connected) : Prop :=
  d'.remote = d.remote ∧ d'.remoteSendFinished = d.remoteSendFinished ∧
  d'.remoteRecvClosed = d.remoteRecvClosed ∧ d'.remoteRecvDropped = d.remoteRecvDropped

theorem isConnected_congr (y y' : Ep) (q : Nat) (h : lookup y'.ports q = lookup y.ports q) :
    isConnected y' q = isConnected y q := by simp [isConnected, h]

/-- `y` changes local flags of its entry `q0` (remote flags and remote port unchanged) -/
theorem PortInv.reader_local {x y y' : Ep} {w : List Msg} (h : PortInv x y w) (q0 : Nat) (d d' : Connected)
    (hd : lookup y.ports q0 = some (.connected d)) (hd' : lookup y'.ports q0 = some (.connected d'))
    (hs : SameRemote d' d) (hoth : ∀ q, q ≠ q0 → lookup y'.ports q = lookup y.ports q) :
    PortInv x y' w := by
  obtain ⟨s1, s2, s3, s4⟩ := hs
  refine ⟨fun q hq => ?_, h.rx_le, fun q e he => ?_, ?_, fun p c hc => ?_⟩
  · by_cases hq0 : q = q0
    · subst hq0; rw [hd'] at hq; simp at hq
    · rw [hoth q hq0] at hq; exact h.rx_none q hq
  · by_cases hq0 : q = q0
    · subst hq0; rw [hd'] at he; injection he with he; injection he with he; subst he
      rw [s2, s3, s4]; exact h.rx_conn q d hd
    · rw [hoth q hq0] at he; exact h.rx_conn q e he
  · have : ∀ q, isConnected y' q = isConnected y q := by
      intro q; by_cases hq0 : q = q0
      · subst hq0; simp [isConnected, hd, hd']
      · exact isConnected_congr _ _ _ (hoth q hq0)
    rw [okOrder_congr w _ _ this]; exact h.order
  · have ht := h.tx p c hc
    by_cases hq0 : c.remote = q0
    · have hL : Live y' w p c.remote ↔ Live y w p c.remote := by
        simp only [Live, hq0, hd, hd']; simp [s1]
      have hall : ∀ (P : Connected → Prop), (∀ e, lookup y.ports c.remote = some (.connected e) → P e) → P d := by
        intro P hP; exact hP d (by rw [hq0]; exact hd)
      refine ⟨fun hs => ?_, fun hs hl => ?_, fun hs => ?_, fun hs hl => ?_, fun h1 h2 => ?_⟩
      · obtain ⟨a, b, cc⟩ := ht.sd0 hs
        refine ⟨hL.mpr a, b, fun e he => ?_⟩
        rw [hq0, hd'] at he; injection he with he; injection he with he; subst he
        rw [s2]; exact cc d (by rw [hq0]; exact hd)
      · rcases ht.sd1 hs (hL.mp hl) with a | ⟨e, he, hf⟩
        · exact Or.inl a
        · right; refine ⟨d', by rw [hq0]; exact hd', ?_⟩
          rw [hq0, hd] at he; injection he with he; injection he with he; subst he; rw [s2]; exact hf
      · obtain ⟨a, b, cc⟩ := ht.rd0 hs
        refine ⟨hL.mpr a, b, fun e he => ?_⟩
        rw [hq0, hd'] at he; injection he with he; injection he with he; subst he
        rw [s4]; exact cc d (by rw [hq0]; exact hd)
      · rcases ht.rd1 hs (hL.mp hl) with a | ⟨e, he, hf⟩
        · exact Or.inl a
        · right; refine ⟨d', by rw [hq0]; exact hd', ?_⟩
          rw [hq0, hd] at he; injection he with he; injection he with he; subst he; rw [s4]; exact hf
      · obtain ⟨a, cc⟩ := ht.rc0 h1 h2
        refine ⟨a, fun e he => ?_⟩
        rw [hq0, hd'] at he; injection he with he; injection he with he; subst he
        rw [s3]; exact cc d (by rw [hq0]; exact hd)
    · exact ht.congr (hoth _ hq0) rfl rfl rfl Iff.rfl

/-- `y` frees its entry `q0` (both remote flags are set: nothing is in flight for it) -/
theorem PortInv.reader_free {x y y' : Ep} {w : List Msg} (h : PortInv x y w) (q0 : Nat) (d : Connected)
    (hd : lookup y.ports q0 = some (.connected d)) (hd' : lookup y'.ports q0 = none)
    (f1 : d.remoteSendFinished = true) (f2 : d.remoteRecvDropped = true)
    (hoth : ∀ q, q ≠ q0 → lookup y'.ports q = lookup y.ports q) :
    PortInv x y' w := by
  obtain ⟨r1, _, r3⟩ := h.rx_conn q0 d hd
  have hnone : noneFor w q0 := ⟨r1 f1, (r3 f2).2, (r3 f2).1⟩
  refine ⟨fun q hq => ?_, h.rx_le, fun q e he => ?_, ?_, fun p c hc => ?_⟩
  · by_cases hq0 : q = q0
    · subst hq0; exact hnone
    · rw [hoth q hq0] at hq; exact h.rx_none q hq
  · by_cases hq0 : q = q0
    · subst hq0; rw [hd'] at he; simp at he
    · rw [hoth q hq0] at he; exact h.rx_conn q e he
  · refine okOrder_forget w _ _ (fun q hq => ?_) h.order
    by_cases hq0 : q = q0
    · subst hq0; exact Or.inr hnone
    · left; rw [isConnected_congr _ _ _ (hoth q hq0)]; exact hq
  · have ht := h.tx p c hc
    by_cases hq0 : c.remote = q0
    · have hnl : ¬ Live y' w p c.remote := by
        rw [hq0]; intro hl; exact hl.ne_none hd'
      have hdd : lookup y.ports c.remote = some (.connected d) := by rw [hq0]; exact hd
      refine TxOk.dead ?_ ?_ hnl
      · cases hs : c.senderDropped with
        | true => rfl
        | false => have := (ht.sd0 hs).2.2 d hdd; rw [f1] at this; simp at this
      · cases hs : c.receiverDropped with
        | true => rfl
        | false => have := (ht.rd0 hs).2.2 d hdd; rw [f2] at this; simp at this
    · exact ht.congr (hoth _ hq0) rfl rfl rfl Iff.rfl

/-- `y` starts connecting on the fresh port `q0` (no answer for it can be in the wire) -/
theorem PortInv.reader_connecting {x y y' : Ep} {w : List Msg} (h : PortInv x y w) (q0 : Nat)
    (hd : lookup y.ports q0 = none) (hd' : lookup y'.ports q0 = some .connecting)
    (hnr : q0 ∉ respPorts w) (hoth : ∀ q, q ≠ q0 → lookup y'.ports q = lookup y.ports q) :
    PortInv x y' w := by
  have hop := opened_false_of_not_resp w q0 hnr
  refine ⟨fun q hq => ?_, h.rx_le, fun q e he => ?_, ?_, fun p c hc => ?_⟩
  · by_cases hq0 : q = q0
    · subst hq0; rw [hd'] at hq; simp at hq
    · rw [hoth q hq0] at hq; exact h.rx_none q hq
  · by_cases hq0 : q = q0
    · subst hq0; rw [hd'] at he; simp at he
    · rw [hoth q hq0] at he; exact h.rx_conn q e he
  · have : ∀ q, isConnected y' q = isConnected y q := by
      intro q; by_cases hq0 : q = q0
      · subst hq0; simp [isConnected, hd, hd']
      · exact isConnected_congr _ _ _ (hoth q hq0)
    rw [okOrder_congr w _ _ this]; exact h.order
  · have ht := h.tx p c hc
    by_cases hq0 : c.remote = q0
    · have hnl : ¬ Live y w p c.remote := by rw [hq0]; intro hl; exact hl.ne_none hd
      obtain ⟨a, b⟩ := ht.flags_of_dead hnl
      refine TxOk.dead a b ?_
      rw [hq0]; rintro (⟨e, he, _⟩ | ⟨_, hp⟩)
      · rw [hd'] at he; simp at he
      · have := (opened_iff w q0).mpr ⟨p, hp⟩; rw [hop] at this; simp at this
    · exact ht.congr (hoth _ hq0) rfl rfl rfl Iff.rfl

/-- `y` accepts a request on the fresh port `q0`: connected to `rp`, which is still connecting at `x` -/
theorem PortInv.reader_accept {x y y' : Ep} {w : List Msg} (h : PortInv x y w) (q0 rp : Nat) (d' : Connected)
    (hd : lookup y.ports q0 = none) (hd' : lookup y'.ports q0 = some (.connected d'))
    (hr : d'.remote = rp) (f1 : d'.remoteSendFinished = false) (f2 : d'.remoteRecvClosed = false)
    (f3 : d'.remoteRecvDropped = false)
    (hxc : lookup x.ports rp = some .connecting) (hoth : ∀ q, q ≠ q0 → lookup y'.ports q = lookup y.ports q) :
    PortInv x y' w := by
  refine ⟨fun q hq => ?_, h.rx_le, fun q e he => ?_, ?_, fun p c hc => ?_⟩
  · by_cases hq0 : q = q0
    · subst hq0; rw [hd'] at hq; simp at hq
    · rw [hoth q hq0] at hq; exact h.rx_none q hq
  · by_cases hq0 : q = q0
    · subst hq0; rw [hd'] at he; injection he with he; injection he with he; subst he
      exact ⟨fun h' => by rw [f1] at h'; simp at h', fun h' => by rw [f2] at h'; simp at h',
             fun h' => by rw [f3] at h'; simp at h'⟩
    · rw [hoth q hq0] at he; exact h.rx_conn q e he
  · refine okOrder_mono w _ _ (fun q hq => ?_) h.order
    by_cases hq0 : q = q0
    · subst hq0; simp [isConnected, hd']
    · rw [isConnected_congr _ _ _ (hoth q hq0)]; exact hq
  · have ht := h.tx p c hc
    by_cases hq0 : c.remote = q0
    · have hnl : ¬ Live y w p c.remote := by rw [hq0]; intro hl; exact hl.ne_none hd
      obtain ⟨a, b⟩ := ht.flags_of_dead hnl
      refine TxOk.dead a b ?_
      rw [hq0]; rintro (⟨e, he, hp⟩ | ⟨he, _⟩)
      · rw [hd'] at he; injection he with he; injection he with he; subst he
        rw [hr] at hp; subst hp; rw [hc] at hxc; simp at hxc
      · rw [hd'] at he; simp at he
    · exact ht.congr (hoth _ hq0) rfl rfl rfl Iff.rfl

/-- `y`'s connected entries and connecting entries are unchanged -/
theorem PortInv.reader_same {x y y' : Ep} {w : List Msg} (h : PortInv x y w)
    (hsame : ∀ q, lookup y'.ports q = lookup y.ports q) : PortInv x y' w := by
  refine ⟨fun q hq => h.rx_none q (by rw [← hsame q]; exact hq), h.rx_le,
          fun q e he => h.rx_conn q e (by rw [← hsame q]; exact he), ?_,
          fun p c hc => (h.tx p c hc).congr (hsame _) rfl rfl rfl Iff.rfl⟩
  rw [okOrder_congr w _ _ (fun q => isConnected_congr _ _ q (hsame q))]; exact h.order

theorem free_flags (c : Connected) (h : c.free = true) :
    c.senderDropped = true ∧ c.receiverDropped = true ∧ c.remoteSendFinished = true ∧ c.remoteRecvDropped = true := by
  simp only [Connected.free, Bool.and_eq_true] at h
  exact ⟨h.1.1.1, h.1.1.2, h.1.2, h.2⟩

/-- `y` rewrites its entry `q0` without touching the remote view, then `maybe_free_port` -/
theorem PortInv.reader_set_free {x y : Ep} {w : List Msg} (h : PortInv x y w) (q0 : Nat) (d d1 : Connected)
    (hd : lookup y.ports q0 = some (.connected d)) (hs : SameRemote d1 d) :
    PortInv x (maybeFree { y with ports := setPort y.ports q0 (.connected d1) } q0) w := by
  have hoth : ∀ q, q ≠ q0 →
      lookup (maybeFree { y with ports := setPort y.ports q0 (.connected d1) } q0).ports q = lookup y.ports q := by
    intro q hq
    rcases maybeFree_lookup { y with ports := setPort y.ports q0 (.connected d1) } q0 q with h' | ⟨h', _⟩
    · rw [h']; simp [lookup_setPort, hq]
    · exact absurd h' hq
  rcases maybeFree_lookup { y with ports := setPort y.ports q0 (.connected d1) } q0 q0 with h' | ⟨_, h'⟩
  · exact h.reader_local q0 d d1 hd (by rw [h']; simp [lookup_setPort]) hs hoth
  · have hf := maybeFree_removed { y with ports := setPort y.ports q0 (.connected d1) } q0 d1
      (by simp [lookup_setPort]) h'
    obtain ⟨_, _, g1, g2⟩ := free_flags d1 hf
    exact h.reader_free q0 d hd h' (by rw [← hs.2.1]; exact g1) (by rw [← hs.2.2.2]; exact g2) hoth

/-- **reader side, local event**: `y` handles an event (the wire x → y is unchanged) -/
theorem port_rx_evt (x y y' : Ep) (w : List Msg) (ev : Evt) (m : Option Msg)
    (he : handleEvt y ev = some (y', m)) (h : PortInv x y w)
    (hresp : ∀ cp ∈ respPorts w, lookup y.ports cp = some .connecting)
    (hout : ∀ rp ∈ y.outstanding, lookup x.ports rp = some .connecting) :
    PortInv x y' w := by
  cases ev with
  | connectReq p wt i =>
    simp only [handleEvt] at he
    split at he
    · simp at he
    · rename_i hn
      have hn' : lookup y.ports p = none := by simpa using hn
      split at he
      · simp only [Option.some.injEq, Prod.mk.injEq] at he
        obtain ⟨rfl, rfl⟩ := he
        exact h.reader_same (fun q => rfl)
      · simp only [Option.some.injEq, Prod.mk.injEq] at he
        obtain ⟨rfl, rfl⟩ := he
        refine h.reader_connecting p hn' (by simp [lookup_setPort]) ?_ (fun q hq => by simp [lookup_setPort, hq])
        intro hin; have := hresp p hin; rw [hn'] at this; simp at this
  | accepted lp rp =>
    simp only [handleEvt] at he
    split at he
    · simp at he
    · rename_i hg
      simp only [Option.some.injEq, Prod.mk.injEq] at he
      obtain ⟨rfl, rfl⟩ := he
      have hin : rp ∈ y.outstanding := by
        by_cases hc : y.outstanding.contains rp
        · simpa using hc
        · exact absurd (Or.inl hc) hg
      have hn : lookup y.ports lp = none := by
        cases hl : lookup y.ports lp with
        | none => rfl
        | some st => exact absurd (Or.inr (by simp [hl])) hg
      exact h.reader_accept lp rp { remote := rp, pool := y.cfg.remoteBuf } hn (by simp [lookup_setPort]) rfl rfl rfl rfl (hout rp hin)
        (fun q hq => by simp [lookup_setPort, hq])
  | rejected rp np =>
    simp only [handleEvt] at he
    split at he
    · simp at he
    · simp only [Option.some.injEq, Prod.mk.injEq] at he
      obtain ⟨rfl, rfl⟩ := he
      exact h.reader_same (fun q => rfl)
  | senderDropped p =>
    simp only [handleEvt] at he
    split at he
    · rename_i c hc
      split at he
      · simp at he
      · simp only [Option.some.injEq, Prod.mk.injEq] at he
        obtain ⟨rfl, rfl⟩ := he
        exact h.reader_set_free p c _ hc ⟨rfl, rfl, rfl, rfl⟩
    · simp at he
  | receiverClosed p =>
    simp only [handleEvt] at he
    split at he
    · rename_i c hc
      split at he
      · simp at he
      · simp only [Option.some.injEq, Prod.mk.injEq] at he
        obtain ⟨rfl, rfl⟩ := he
        exact h.reader_local p c { c with receiverClosed := true } hc (by simp [lookup_setPort]) ⟨rfl, rfl, rfl, rfl⟩
          (fun q hq => by simp [lookup_setPort, hq])
    · simp at he
  | receiverDropped p =>
    simp only [handleEvt] at he
    split at he
    · rename_i c hc
      split at he
      · simp at he
      · simp only [Option.some.injEq, Prod.mk.injEq] at he
        obtain ⟨rfl, rfl⟩ := he
        exact h.reader_set_free p c _ hc ⟨rfl, rfl, rfl, rfl⟩
    · simp at he
  | allClientsDropped =>
    simp only [handleEvt] at he
    split at he
    · simp at he
    · simp only [Option.some.injEq, Prod.mk.injEq] at he
      obtain ⟨rfl, rfl⟩ := he
      exact h.reader_same (fun q => rfl)
  | listenerDropped =>
    simp only [handleEvt] at he
    split at he
    · simp at he
    · simp only [Option.some.injEq, Prod.mk.injEq] at he
      obtain ⟨rfl, rfl⟩ := he
      exact h.reader_same (fun q => rfl)
  | sendGoodbye =>
    simp only [handleEvt] at he
    split at he
    · simp at he
    · simp only [Option.some.injEq, Prod.mk.injEq] at he
      obtain ⟨rfl, rfl⟩ := he
      exact h.reader_same (fun q => rfl)

theorem cnt_cons_plain (w : List Msg) (m : Msg) (hm : isPortMsg m = false) (q : Nat) :
    cntSF (m :: w) q = cntSF w q ∧ cntRC (m :: w) q = cntRC w q ∧ cntRF (m :: w) q = cntRF w q := by
  cases m <;> simp [isPortMsg] at hm <;> simp [cntSF, cntRC, cntRF, List.count_cons]

/-- the head of the wire is not about ports and leaves `y`'s table alone -/
theorem PortInv.pop_plain {x y : Ep} {rest : List Msg} {m : Msg} (h : PortInv x y (m :: rest))
    (hm : isPortMsg m = false) : PortInv x y rest := by
  have hc := cnt_cons_plain rest m hm
  have hpo : ∀ q p, Msg.portOpened q p ∈ m :: rest ↔ Msg.portOpened q p ∈ rest := by
    intro q p; cases m <;> simp [isPortMsg] at hm <;> simp
  refine ⟨fun q hq => ?_, fun q => ?_, fun q d hd => ?_, ?_, fun p c hc' => ?_⟩
  · have := h.rx_none q hq; rw [(hc q).1, (hc q).2.1, (hc q).2.2] at this; exact this
  · have := h.rx_le q; rw [(hc q).1, (hc q).2.1, (hc q).2.2] at this; exact this
  · have := h.rx_conn q d hd; rw [(hc q).1, (hc q).2.1, (hc q).2.2] at this; exact this
  · have := h.order; cases m <;> simp [isPortMsg] at hm <;> simpa [okOrder] using this
  · exact (h.tx p c hc').congr rfl (hc _).1.symm (hc _).2.1.symm (hc _).2.2.symm (hpo _ _).symm

/-- general form of `maybe_free_port` on the reader side -/
theorem PortInv.reader_maybeFree {x y : Ep} {w : List Msg} (h : PortInv x y w) (q0 : Nat) :
    PortInv x (maybeFree y q0) w := by
  rcases maybeFree_lookup y q0 q0 with h' | ⟨_, h'⟩
  · refine h.reader_same (fun q => ?_)
    rcases maybeFree_lookup y q0 q with h2 | ⟨rfl, _⟩
    · exact h2
    · exact h'
  · cases hl : lookup y.ports q0 with
    | none =>
      refine h.reader_same (fun q => ?_)
      rcases maybeFree_lookup y q0 q with h2 | ⟨rfl, h2⟩
      · exact h2
      · rw [h2, hl]
    | some st =>
      cases st with
      | connecting =>
        have : maybeFree y q0 = y := by unfold maybeFree; rw [hl]
        rw [this]; exact h
      | connected d =>
        obtain ⟨_, _, g1, g2⟩ := free_flags d (maybeFree_removed y q0 d hl h')
        refine h.reader_free q0 d hl h' g1 g2 (fun q hq => ?_)
        rcases maybeFree_lookup y q0 q with h2 | ⟨h2, _⟩
        · exact h2
        · exact absurd h2 hq

theorem cnt_cons_sf (w : List Msg) (q q' : Nat) :
    cntSF (.sendFinish q :: w) q' = cntSF w q' + (if q' = q then 1 else 0) ∧
    cntRC (.sendFinish q :: w) q' = cntRC w q' ∧ cntRF (.sendFinish q :: w) q' = cntRF w q' := by
  by_cases h : q' = q
  · subst h; simp [cntSF, cntRC, cntRF, List.count_cons]
  · have : ¬ q = q' := fun h' => h h'.symm
    simp [cntSF, cntRC, cntRF, List.count_cons, h, this]

/-- `y` takes `SendFinish q0` off the wire and sets the flag (before `maybe_free_port`) -/
theorem PortInv.pop_sf {x y y1 : Ep} {rest : List Msg} {q0 : Nat} {d d1 : Connected}
    (h : PortInv x y (.sendFinish q0 :: rest))
    (hd : lookup y.ports q0 = some (.connected d)) (hd1 : lookup y1.ports q0 = some (.connected d1))
    (hoth : ∀ q, q ≠ q0 → lookup y1.ports q = lookup y.ports q)
    (e1 : d1.remote = d.remote) (e2 : d1.remoteSendFinished = true)
    (e3 : d1.remoteRecvClosed = d.remoteRecvClosed) (e4 : d1.remoteRecvDropped = d.remoteRecvDropped) :
    PortInv x y1 rest := by
  have hc := cnt_cons_sf rest q0
  have hpo : ∀ q p, Msg.portOpened q p ∈ Msg.sendFinish q0 :: rest ↔ Msg.portOpened q p ∈ rest := by
    intro q p; simp
  have hle := h.rx_le q0
  have h0 : cntSF rest q0 = 0 := by have := (hc q0).1; simp only [if_true] at this; omega
  have hcon : ∀ q, isConnected y1 q = isConnected y q := by
    intro q; by_cases hq : q = q0
    · subst hq; simp [isConnected, hd, hd1]
    · exact isConnected_congr _ _ _ (hoth q hq)
  refine ⟨fun q hq => ?_, fun q => ?_, fun q e he => ?_, ?_, fun p c hc' => ?_⟩
  · have hne : q ≠ q0 := by intro h'; subst h'; rw [hd1] at hq; simp at hq
    have := h.rx_none q (by rw [← hoth q hne]; exact hq)
    rw [(hc q).1, (hc q).2.1, (hc q).2.2] at this; simp only [hne, if_false, Nat.add_zero] at this; exact this
  · have := h.rx_le q; rw [(hc q).1, (hc q).2.1, (hc q).2.2] at this
    exact ⟨by omega, this.2.1, this.2.2⟩
  · by_cases hq : q = q0
    · subst hq; rw [hd1] at he; injection he with he; injection he with he; subst he
      have := h.rx_conn q d hd; rw [(hc q).2.1, (hc q).2.2] at this
      rw [e3, e4]; exact ⟨fun _ => h0, this.2.1, this.2.2⟩
    · rw [hoth q hq] at he
      have := h.rx_conn q e he
      rw [(hc q).1, (hc q).2.1, (hc q).2.2] at this; simp only [hq, if_false, Nat.add_zero] at this; exact this
  · have := h.order; simp only [okOrder, Bool.and_eq_true] at this
    rw [okOrder_congr rest _ _ hcon]; exact this.2
  · have ht := h.tx p c hc'
    by_cases hq : c.remote = q0
    · have hdd : lookup y.ports c.remote = some (.connected d) := by rw [hq]; exact hd
      have hdd1 : lookup y1.ports c.remote = some (.connected d1) := by rw [hq]; exact hd1
      have hL : Live y1 rest p c.remote ↔ Live y (.sendFinish q0 :: rest) p c.remote := by
        simp only [Live, hdd, hdd1]; simp [e1]
      have hsd : c.senderDropped = true := by
        cases hs : c.senderDropped with
        | true => rfl
        | false =>
          have := (ht.sd0 hs).2.1; rw [hq, (hc q0).1] at this; simp at this
      have hv : ∀ e, lookup y1.ports c.remote = some (.connected e) → e = d1 := by
        intro e he; rw [hdd1] at he; injection he with he; injection he with he; exact he.symm
      refine ⟨fun hs => by rw [hsd] at hs; simp at hs, fun _ _ => Or.inr ⟨d1, hdd1, e2⟩,
              fun hs => ?_, fun hs hl => ?_, fun a1 a2 => ?_⟩
      · obtain ⟨a, b, cc⟩ := ht.rd0 hs
        rw [hq, (hc q0).2.2] at b
        exact ⟨hL.mpr a, by rw [hq]; exact b, fun e he => by rw [hv e he, e4]; exact cc d hdd⟩
      · rcases ht.rd1 hs (hL.mp hl) with a | ⟨e, he, hf⟩
        · left; rw [hq, (hc q0).2.2] at a; rw [hq]; exact a
        · right; rw [hdd] at he; injection he with he; injection he with he; subst he
          exact ⟨d1, hdd1, by rw [e4]; exact hf⟩
      · obtain ⟨a, cc⟩ := ht.rc0 a1 a2
        rw [hq, (hc q0).2.1] at a
        exact ⟨by rw [hq]; exact a, fun e he => by rw [hv e he, e3]; exact cc d hdd⟩
    · refine ht.congr (hoth _ hq) ?_ (hc _).2.1.symm (hc _).2.2.symm (hpo _ _).symm
      rw [(hc _).1]; simp [hq]

theorem cnt_cons_rf (w : List Msg) (q q' : Nat) :
    cntRF (.receiveFinish q :: w) q' = cntRF w q' + (if q' = q then 1 else 0) ∧
    cntRC (.receiveFinish q :: w) q' = cntRC w q' ∧ cntSF (.receiveFinish q :: w) q' = cntSF w q' := by
  by_cases h : q' = q
  · subst h; simp [cntSF, cntRC, cntRF, List.count_cons]
  · have : ¬ q = q' := fun h' => h h'.symm
    simp [cntSF, cntRC, cntRF, List.count_cons, h, this]

theorem cnt_cons_rc (w : List Msg) (q q' : Nat) :
    cntRC (.receiveClose q :: w) q' = cntRC w q' + (if q' = q then 1 else 0) ∧
    cntRF (.receiveClose q :: w) q' = cntRF w q' ∧ cntSF (.receiveClose q :: w) q' = cntSF w q' := by
  by_cases h : q' = q
  · subst h; simp [cntSF, cntRC, cntRF, List.count_cons]
  · have : ¬ q = q' := fun h' => h h'.symm
    simp [cntSF, cntRC, cntRF, List.count_cons, h, this]

/-- `y` takes `ReceiveFinish q0` off the wire and sets the flags (before `maybe_free_port`) -/
theorem PortInv.pop_rf {x y y1 : Ep} {rest : List Msg} {q0 : Nat} {d d1 : Connected}
    (h : PortInv x y (.receiveFinish q0 :: rest))
    (hd : lookup y.ports q0 = some (.connected d)) (hd1 : lookup y1.ports q0 = some (.connected d1))
    (hoth : ∀ q, q ≠ q0 → lookup y1.ports q = lookup y.ports q)
    (e1 : d1.remote = d.remote) (e2 : d1.remoteSendFinished = d.remoteSendFinished)
    (e3 : d1.remoteRecvClosed = true) (e4 : d1.remoteRecvDropped = true) :
    PortInv x y1 rest := by
  have hc := cnt_cons_rf rest q0
  have hpo : ∀ q p, Msg.portOpened q p ∈ Msg.receiveFinish q0 :: rest ↔ Msg.portOpened q p ∈ rest := by
    intro q p; simp
  have hle := h.rx_le q0
  have h0 : cntRF rest q0 = 0 := by have := (hc q0).1; simp only [if_true] at this; omega
  have hord := h.order; simp only [okOrder, Bool.and_eq_true] at hord
  have h0c : cntRC rest q0 = 0 := by
    have := hord.1.2; simp only [Bool.not_eq_true'] at this
    cases hz : cntRC rest q0 with
    | zero => rfl
    | succ n =>
      have hin : Msg.receiveClose q0 ∈ rest := List.count_pos_iff.mp (by simp only [cntRC] at hz; omega)
      have : rest.contains (Msg.receiveClose q0) = true := by simpa using hin
      simp_all
  have hcon : ∀ q, isConnected y1 q = isConnected y q := by
    intro q; by_cases hq : q = q0
    · subst hq; simp [isConnected, hd, hd1]
    · exact isConnected_congr _ _ _ (hoth q hq)
  refine ⟨fun q hq => ?_, fun q => ?_, fun q e he => ?_, ?_, fun p c hc' => ?_⟩
  · have hne : q ≠ q0 := by intro h'; subst h'; rw [hd1] at hq; simp at hq
    have := h.rx_none q (by rw [← hoth q hne]; exact hq)
    rw [(hc q).1, (hc q).2.1, (hc q).2.2] at this; simp only [hne, if_false, Nat.add_zero] at this
    exact ⟨this.1, this.2.1, this.2.2⟩
  · have := h.rx_le q; rw [(hc q).1, (hc q).2.1, (hc q).2.2] at this
    exact ⟨this.1, this.2.1, by omega⟩
  · by_cases hq : q = q0
    · subst hq; rw [hd1] at he; injection he with he; injection he with he; subst he
      have := h.rx_conn q d hd; rw [(hc q).2.2] at this
      rw [e2]; exact ⟨this.1, fun _ => h0c, fun _ => ⟨h0, h0c⟩⟩
    · rw [hoth q hq] at he
      have := h.rx_conn q e he
      rw [(hc q).1, (hc q).2.1, (hc q).2.2] at this; simp only [hq, if_false, Nat.add_zero] at this; exact this
  · rw [okOrder_congr rest _ _ hcon]; exact hord.2
  · have ht := h.tx p c hc'
    by_cases hq : c.remote = q0
    · have hdd : lookup y.ports c.remote = some (.connected d) := by rw [hq]; exact hd
      have hdd1 : lookup y1.ports c.remote = some (.connected d1) := by rw [hq]; exact hd1
      have hL : Live y1 rest p c.remote ↔ Live y (.receiveFinish q0 :: rest) p c.remote := by
        simp only [Live, hdd, hdd1]; simp [e1]
      have hrd : c.receiverDropped = true := by
        cases hs : c.receiverDropped with
        | true => rfl
        | false =>
          have := (ht.rd0 hs).2.1; rw [hq, (hc q0).1] at this; simp at this
      have hv : ∀ e, lookup y1.ports c.remote = some (.connected e) → e = d1 := by
        intro e he; rw [hdd1] at he; injection he with he; injection he with he; exact he.symm
      refine ⟨fun hs => ?_, fun hs hl => ?_, fun hs => by rw [hrd] at hs; simp at hs,
              fun _ _ => Or.inr ⟨d1, hdd1, e4⟩, fun _ a2 => by rw [hrd] at a2; simp at a2⟩
      · obtain ⟨a, b, cc⟩ := ht.sd0 hs
        rw [hq, (hc q0).2.2] at b
        exact ⟨hL.mpr a, by rw [hq]; exact b, fun e he => by rw [hv e he, e2]; exact cc d hdd⟩
      · rcases ht.sd1 hs (hL.mp hl) with a | ⟨e, he, hf⟩
        · left; rw [hq, (hc q0).2.2] at a; rw [hq]; exact a
        · right; rw [hdd] at he; injection he with he; injection he with he; subst he
          exact ⟨d1, hdd1, by rw [e2]; exact hf⟩
    · refine ht.congr (hoth _ hq) (hc _).2.2.symm (hc _).2.1.symm ?_ (hpo _ _).symm
      rw [(hc _).1]; simp [hq]

/-- `y` takes `ReceiveClose q0` off the wire and sets the flag (before `maybe_free_port`) -/
theorem PortInv.pop_rc {x y y1 : Ep} {rest : List Msg} {q0 : Nat} {d d1 : Connected}
    (h : PortInv x y (.receiveClose q0 :: rest))
    (hd : lookup y.ports q0 = some (.connected d)) (hd1 : lookup y1.ports q0 = some (.connected d1))
    (hoth : ∀ q, q ≠ q0 → lookup y1.ports q = lookup y.ports q)
    (e1 : d1.remote = d.remote) (e2 : d1.remoteSendFinished = d.remoteSendFinished)
    (e3 : d1.remoteRecvClosed = true) (e4 : d1.remoteRecvDropped = d.remoteRecvDropped) :
    PortInv x y1 rest := by
  have hc := cnt_cons_rc rest q0
  have hpo : ∀ q p, Msg.portOpened q p ∈ Msg.receiveClose q0 :: rest ↔ Msg.portOpened q p ∈ rest := by
    intro q p; simp
  have hle := h.rx_le q0
  have h1 : cntRC (.receiveClose q0 :: rest) q0 = cntRC rest q0 + 1 := by have := (hc q0).1; simpa using this
  have h0 : cntRC rest q0 = 0 := by omega
  have hnd : d.remoteRecvDropped = false := by
    cases hs : d.remoteRecvDropped with
    | false => rfl
    | true => have := ((h.rx_conn q0 d hd).2.2 hs).2; omega
  have hcon : ∀ q, isConnected y1 q = isConnected y q := by
    intro q; by_cases hq : q = q0
    · subst hq; simp [isConnected, hd, hd1]
    · exact isConnected_congr _ _ _ (hoth q hq)
  refine ⟨fun q hq => ?_, fun q => ?_, fun q e he => ?_, ?_, fun p c hc' => ?_⟩
  · have hne : q ≠ q0 := by intro h'; subst h'; rw [hd1] at hq; simp at hq
    have := h.rx_none q (by rw [← hoth q hne]; exact hq)
    rw [(hc q).1, (hc q).2.1, (hc q).2.2] at this; simp only [hne, if_false, Nat.add_zero] at this
    exact ⟨this.1, this.2.1, this.2.2⟩
  · have := h.rx_le q; rw [(hc q).1, (hc q).2.1, (hc q).2.2] at this
    exact ⟨this.1, by omega, this.2.2⟩
  · by_cases hq : q = q0
    · subst hq; rw [hd1] at he; injection he with he; injection he with he; subst he
      have := h.rx_conn q d hd; rw [(hc q).2.2] at this
      rw [e2, e4]
      exact ⟨this.1, fun _ => h0, fun hr => by rw [hnd] at hr; simp at hr⟩
    · rw [hoth q hq] at he
      have := h.rx_conn q e he
      rw [(hc q).1, (hc q).2.1, (hc q).2.2] at this; simp only [hq, if_false, Nat.add_zero] at this; exact this
  · have := h.order; simp only [okOrder, Bool.and_eq_true] at this
    rw [okOrder_congr rest _ _ hcon]; exact this.2
  · have ht := h.tx p c hc'
    by_cases hq : c.remote = q0
    · have hdd : lookup y.ports c.remote = some (.connected d) := by rw [hq]; exact hd
      have hdd1 : lookup y1.ports c.remote = some (.connected d1) := by rw [hq]; exact hd1
      have hL : Live y1 rest p c.remote ↔ Live y (.receiveClose q0 :: rest) p c.remote := by
        simp only [Live, hdd, hdd1]; simp [e1]
      have hv : ∀ e, lookup y1.ports c.remote = some (.connected e) → e = d1 := by
        intro e he; rw [hdd1] at he; injection he with he; injection he with he; exact he.symm
      refine ⟨fun hs => ?_, fun hs hl => ?_, fun hs => ?_, fun hs hl => ?_, fun a1 a2 => ?_⟩
      · obtain ⟨a, b, cc⟩ := ht.sd0 hs
        rw [hq, (hc q0).2.2] at b
        exact ⟨hL.mpr a, by rw [hq]; exact b, fun e he => by rw [hv e he, e2]; exact cc d hdd⟩
      · rcases ht.sd1 hs (hL.mp hl) with a | ⟨e, he, hf⟩
        · left; rw [hq, (hc q0).2.2] at a; rw [hq]; exact a
        · right; rw [hdd] at he; injection he with he; injection he with he; subst he
          exact ⟨d1, hdd1, by rw [e2]; exact hf⟩
      · obtain ⟨a, b, cc⟩ := ht.rd0 hs
        rw [hq, (hc q0).2.1] at b
        exact ⟨hL.mpr a, by rw [hq]; exact b, fun e he => by rw [hv e he, e4]; exact cc d hdd⟩
      · rcases ht.rd1 hs (hL.mp hl) with a | ⟨e, he, hf⟩
        · left; rw [hq, (hc q0).2.1] at a; rw [hq]; exact a
        · right; rw [hdd] at he; injection he with he; injection he with he; subst he
          exact ⟨d1, hdd1, by rw [e4]; exact hf⟩
      · have := (ht.rc0 a1 a2).1; rw [hq] at this; omega
    · refine ht.congr (hoth _ hq) (hc _).2.2.symm ?_ (hc _).2.1.symm (hpo _ _).symm
      rw [(hc _).1]; simp [hq]

/-- `y` drops a connecting entry (`Rejected` received); no answer for it is left in the wire -/
theorem PortInv.reader_unconnect {x y y1 : Ep} {w : List Msg} (h : PortInv x y w) (cp : Nat)
    (hd : lookup y.ports cp = some .connecting) (hd1 : lookup y1.ports cp = none)
    (hnr : cp ∉ respPorts w) (hoth : ∀ q, q ≠ cp → lookup y1.ports q = lookup y.ports q) :
    PortInv x y1 w := by
  have hop := opened_false_of_not_resp w cp hnr
  have hnone : noneFor w cp := okOrder_none w _ cp h.order (by simp [isConnected, hd]) hop
  have hcon : ∀ q, isConnected y1 q = isConnected y q := by
    intro q; by_cases hq : q = cp
    · subst hq; simp [isConnected, hd, hd1]
    · exact isConnected_congr _ _ _ (hoth q hq)
  refine ⟨fun q hq => ?_, h.rx_le, fun q e he => ?_, ?_, fun p c hc => ?_⟩
  · by_cases hq0 : q = cp
    · subst hq0; exact hnone
    · rw [hoth q hq0] at hq; exact h.rx_none q hq
  · by_cases hq0 : q = cp
    · subst hq0; rw [hd1] at he; simp at he
    · rw [hoth q hq0] at he; exact h.rx_conn q e he
  · rw [okOrder_congr w _ _ hcon]; exact h.order
  · have ht := h.tx p c hc
    by_cases hq0 : c.remote = cp
    · have hnl : ¬ Live y w p c.remote := by
        rw [hq0]; rintro (⟨e, he, _⟩ | ⟨_, hp⟩)
        · rw [hd] at he; simp at he
        · have := (opened_iff w cp).mpr ⟨p, hp⟩; rw [hop] at this; simp at this
      obtain ⟨a, b⟩ := ht.flags_of_dead hnl
      exact TxOk.dead a b (by rw [hq0]; intro hl; exact hl.ne_none hd1)
    · exact ht.congr (hoth _ hq0) rfl rfl rfl Iff.rfl

/-- `y` takes `PortOpened cp sp` off the wire: its connecting entry becomes connected to `sp` -/
theorem PortInv.pop_opened {x y y1 : Ep} {rest : List Msg} {cp sp : Nat} {d1 : Connected}
    (h : PortInv x y (.portOpened cp sp :: rest))
    (hd : lookup y.ports cp = some .connecting) (hd1 : lookup y1.ports cp = some (.connected d1))
    (hoth : ∀ q, q ≠ cp → lookup y1.ports q = lookup y.ports q)
    (hnr : cp ∉ respPorts rest)
    (e1 : d1.remote = sp) (e2 : d1.remoteSendFinished = false)
    (e3 : d1.remoteRecvClosed = false) (e4 : d1.remoteRecvDropped = false) :
    PortInv x y1 rest := by
  have hc : ∀ q, cntSF (.portOpened cp sp :: rest) q = cntSF rest q ∧
      cntRC (.portOpened cp sp :: rest) q = cntRC rest q ∧ cntRF (.portOpened cp sp :: rest) q = cntRF rest q := by
    intro q; simp [cntSF, cntRC, cntRF, List.count_cons]
  have hop := opened_false_of_not_resp rest cp hnr
  have hnotin : ∀ p, Msg.portOpened cp p ∉ rest := by
    intro p hp; have := (opened_iff rest cp).mpr ⟨p, hp⟩; rw [hop] at this; simp at this
  refine ⟨fun q hq => ?_, fun q => ?_, fun q e he => ?_, ?_, fun p c hc' => ?_⟩
  · have hne : q ≠ cp := by intro h'; subst h'; rw [hd1] at hq; simp at hq
    have := h.rx_none q (by rw [← hoth q hne]; exact hq)
    rw [(hc q).1, (hc q).2.1, (hc q).2.2] at this; exact this
  · have := h.rx_le q; rw [(hc q).1, (hc q).2.1, (hc q).2.2] at this; exact this
  · by_cases hq : q = cp
    · subst hq; rw [hd1] at he; injection he with he; injection he with he; subst he
      exact ⟨fun h' => by rw [e2] at h'; simp at h', fun h' => by rw [e3] at h'; simp at h',
             fun h' => by rw [e4] at h'; simp at h'⟩
    · rw [hoth q hq] at he
      have := h.rx_conn q e he
      rw [(hc q).1, (hc q).2.1, (hc q).2.2] at this; exact this
  · have := h.order; simp only [okOrder] at this
    rw [← this]; apply okOrder_congr
    intro q; by_cases hq : q = cp
    · subst hq; simp [isConnected, hd1]
    · have : (q == cp) = false := by simp [hq]
      simp [this, isConnected_congr _ _ _ (hoth q hq)]
  · have ht := h.tx p c hc'
    by_cases hq : c.remote = cp
    · have hdd1 : lookup y1.ports c.remote = some (.connected d1) := by rw [hq]; exact hd1
      have hL : Live y1 rest p c.remote ↔ Live y (.portOpened cp sp :: rest) p c.remote := by
        rw [hq]; unfold Live
        constructor
        · rintro (⟨e, he, hp⟩ | ⟨he, _⟩)
          · rw [hd1] at he; injection he with he; injection he with he; subst he
            right; refine ⟨hd, ?_⟩; rw [← hp, e1]; simp
          · rw [hd1] at he; simp at he
        · rintro (⟨e, he, _⟩ | ⟨_, hp⟩)
          · rw [hd] at he; simp at he
          · rcases List.mem_cons.mp hp with hp | hp
            · injection hp with _ hp; left; exact ⟨d1, hd1, by rw [e1, hp]⟩
            · exact absurd hp (hnotin p)
      have hv : ∀ e, lookup y1.ports c.remote = some (.connected e) → e = d1 := by
        intro e he; rw [hdd1] at he; injection he with he; injection he with he; exact he.symm
      have hno : ∀ e, lookup y.ports c.remote = some (.connected e) → False := by
        intro e he; rw [hq, hd] at he; simp at he
      refine ⟨fun hs => ?_, fun hs hl => ?_, fun hs => ?_, fun hs hl => ?_, fun a1 a2 => ?_⟩
      · obtain ⟨a, b, _⟩ := ht.sd0 hs
        exact ⟨hL.mpr a, by rw [← (hc _).1]; exact b, fun e he => by rw [hv e he]; exact e2⟩
      · rcases ht.sd1 hs (hL.mp hl) with a | ⟨e, he, _⟩
        · left; rw [← (hc _).1]; exact a
        · exact (hno e he).elim
      · obtain ⟨a, b, _⟩ := ht.rd0 hs
        exact ⟨hL.mpr a, by rw [← (hc _).2.2]; exact b, fun e he => by rw [hv e he]; exact e4⟩
      · rcases ht.rd1 hs (hL.mp hl) with a | ⟨e, he, _⟩
        · left; rw [← (hc _).2.2]; exact a
        · exact (hno e he).elim
      · obtain ⟨a, _⟩ := ht.rc0 a1 a2
        exact ⟨by rw [← (hc _).2.1]; exact a, fun e he => by rw [hv e he]; exact e3⟩
    · refine ht.congr (hoth _ hq) (hc _).1.symm (hc _).2.1.symm (hc _).2.2.symm ?_
      simp only [List.mem_cons, Msg.portOpened.injEq]
      constructor
      · intro h'; exact Or.inr h'
      · rintro (⟨h', _⟩ | h')
        · exact absurd h' hq
        · exact h'

/-- **reader side, delivery**: `y` handles the head of the wire x → y -/
theorem port_rx_rx (x y y' : Ep) (rest : List Msg) (m : Msg) (em : Emit)
    (he : handleRx y m = .ok (y', em)) (h : PortInv x y (m :: rest))
    (hnd : (respPorts (m :: rest)).Nodup) (hctl : isCtl m = true) :
    PortInv x y' rest := by
  cases m with
  | openPort cp wt id =>
    obtain ⟨_, h1, _⟩ := handleRx_openPort _ _ _ _ _ _ he
    exact (h.pop_plain rfl).reader_same (fun q => by rw [h1])
  | portOpened cp sp =>
    simp only [handleRx] at he
    split at he
    · rename_i hl
      simp only [Except.ok.injEq, Prod.mk.injEq] at he
      obtain ⟨rfl, _⟩ := he
      have hnr : cp ∉ respPorts rest := by
        simp only [respPorts, List.nodup_cons] at hnd; exact hnd.1
      exact h.pop_opened (d1 := { remote := sp, pool := y.cfg.remoteBuf }) hl (by simp [lookup_setPort]) (fun q hq => by simp [lookup_setPort, hq]) hnr rfl rfl rfl rfl
    · simp at he
  | rejected cp np =>
    simp only [handleRx] at he
    split at he
    · rename_i hl
      simp only [Except.ok.injEq, Prod.mk.injEq] at he
      obtain ⟨rfl, _⟩ := he
      have hnr : cp ∉ respPorts rest := by
        simp only [respPorts, List.nodup_cons] at hnd; exact hnd.1
      exact (h.pop_plain rfl).reader_unconnect cp hl (by simp [lookup_erase]) hnr
        (fun q hq => by simp [lookup_erase, hq])
    · simp at he
  | sendFinish q0 =>
    simp only [handleRx] at he
    (repeat' split at he) <;> first
      | (simp at he; done)
      | (rename_i c hc _
         simp only [Except.ok.injEq, Prod.mk.injEq] at he
         obtain ⟨rfl, _⟩ := he
         refine PortInv.reader_maybeFree ?_ q0
         exact h.pop_sf (d1 := { c with remoteSendFinished := true, rxq := c.rxq ++ [0] }) hc (by simp [lookup_setPort]) (fun q hq => by simp [lookup_setPort, hq]) rfl rfl rfl rfl)
  | receiveClose q0 =>
    simp only [handleRx] at he
    (repeat' split at he) <;> first
      | (simp at he; done)
      | (rename_i c hc _
         simp only [Except.ok.injEq, Prod.mk.injEq] at he
         obtain ⟨rfl, _⟩ := he
         refine PortInv.reader_maybeFree ?_ q0
         exact h.pop_rc (d1 := { c with remoteRecvClosed := true }) hc (by simp [lookup_setPort]) (fun q hq => by simp [lookup_setPort, hq]) rfl rfl rfl rfl)
  | receiveFinish q0 =>
    simp only [handleRx] at he
    (repeat' split at he) <;> first
      | (simp at he; done)
      | (rename_i c hc
         simp only [Except.ok.injEq, Prod.mk.injEq] at he
         obtain ⟨rfl, _⟩ := he
         refine PortInv.reader_maybeFree ?_ q0
         exact h.pop_rf (d1 := { c with remoteRecvClosed := true, remoteRecvDropped := true }) hc (by simp [lookup_setPort]) (fun q hq => by simp [lookup_setPort, hq]) rfl rfl rfl rfl)
  | clientFinish =>
    simp only [handleRx] at he
    (repeat' split at he) <;> first
      | (simp at he; done)
      | (simp only [Except.ok.injEq, Prod.mk.injEq] at he
         obtain ⟨rfl, _⟩ := he
         exact (h.pop_plain rfl).reader_same (fun q => rfl))
  | listenerFinish =>
    simp only [handleRx, Except.ok.injEq, Prod.mk.injEq] at he
    obtain ⟨rfl, _⟩ := he
    exact (h.pop_plain rfl).reader_same (fun q => rfl)
  | goodbye =>
    simp only [handleRx, Except.ok.injEq, Prod.mk.injEq] at he
    obtain ⟨rfl, _⟩ := he
    exact (h.pop_plain rfl).reader_same (fun q => rfl)
  | _ => simp [isCtl, isOther] at hctl

end Remoc.Table.Sys
