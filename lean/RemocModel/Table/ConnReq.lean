import RemocModel.Table.ConnLemmas
set_option linter.unusedSimpArgs false
set_option linter.unusedVariables false
/-
The request/credit invariant of the two-endpoint system, one direction: `c` is the side whose
client sends requests, `v` the side whose listener answers them.
-/
namespace Remoc.Table.Sys
open Remoc.Wire Remoc.Table

/-- the messages a conforming endpoint of this model puts on the wire -/
def isCtl : Msg → Bool
  | .openPort _ _ _ | .portOpened _ _ | .rejected _ _ => true
  | m => isOther m

def isConnEvt : Evt → Bool
  | .connectReq _ _ _ | .allClientsDropped => true
  | _ => false
def isPortEvt : Evt → Bool
  | .accepted _ _ | .rejected _ _ | .senderDropped _ | .receiverClosed _ | .receiverDropped _ => true
  | _ => false

/-- typing of the two event queues (`connect_rx` carries `ConnectRequest`s and ends with the drop of
all clients; `channel_rx` carries `PortEvt`s) -/
structure QType (s : Side) : Prop where
  conn : ∀ ev ∈ s.connQ, isConnEvt ev = true
  port : ∀ ev ∈ s.portQ, isPortEvt ev = true

theorem isPortEvt_noReq (ev : Evt) (h : isPortEvt ev = true) : isConnReq ev = false := by
  cases ev <;> simp [isPortEvt, isConnReq] at h ⊢
theorem isConnEvt_noAns (ev : Evt) (h : isConnEvt ev = true) : ansPorts [ev] = [] := by
  cases ev <;> simp [isConnEvt, ansPorts] at h ⊢

structure ReqInv (c v : Side) (wcv wvc : List Msg) : Prop where
  /-- every request is in exactly one place -/
  nodup : (reqWhere v.ep wcv wvc).Nodup
  /-- the requests that are somewhere are exactly the connecting ports of the client side -/
  conn : ∀ p, lookup c.ep.ports p = some .connecting ↔ p ∈ reqWhere v.ep wcv wvc
  /-- `clientPending` counts them -/
  pend : c.ep.clientPending = (reqWhere v.ep wcv wvc).length
  cfg : c.ep.cfg.remoteCq = v.ep.cfg.cq
  /-- permits in use never exceed the semaphore -/
  perm : c.permits ≤ c.ep.cfg.remoteCq
  /-- the outstanding requests of the server side are in the listener queue, held by the
  application, or answered with the answer event queued -/
  outNodup : (outWhere v).Nodup
  outMem : ∀ p, p ∈ outWhere v ↔ p ∈ v.ep.outstanding
  /-- the queues of a dropped listener are gone -/
  lq : v.listenerAlive = false → v.ep.listenQ = []

@[simp] theorem rxHandles_ep (s : Side) (m : Msg) : (rxHandles s m).ep = s.ep := by
  cases m <;> rfl
@[simp] theorem rxHandles_connQ (s : Side) (m : Msg) : (rxHandles s m).connQ = s.connQ := by
  cases m <;> rfl
@[simp] theorem rxHandles_portQ (s : Side) (m : Msg) : (rxHandles s m).portQ = s.portQ := by
  cases m <;> rfl
@[simp] theorem rxHandles_held (s : Side) (m : Msg) : (rxHandles s m).held = s.held := by
  cases m <;> rfl
@[simp] theorem evtHandles_ep (s : Side) (ev : Evt) : (evtHandles s ev).ep = s.ep := by
  cases ev <;> rfl
@[simp] theorem evtHandles_connQ (s : Side) (ev : Evt) : (evtHandles s ev).connQ = s.connQ := by
  cases ev <;> rfl
@[simp] theorem evtHandles_portQ (s : Side) (ev : Evt) : (evtHandles s ev).portQ = s.portQ := by
  cases ev <;> rfl
@[simp] theorem evtHandles_held (s : Side) (ev : Evt) : (evtHandles s ev).held = s.held := by
  cases ev <;> rfl
@[simp] theorem requeue_ports (e : Ep) (em : List Msg) : (requeue e em).ports = e.ports := rfl
@[simp] theorem requeue_clientPending (e : Ep) (em : List Msg) : (requeue e em).clientPending = e.clientPending := rfl
@[simp] theorem requeue_cfg (e : Ep) (em : List Msg) : (requeue e em).cfg = e.cfg := rfl
@[simp] theorem requeue_listenQ (e : Ep) (em : List Msg) : (requeue e em).listenQ = e.listenQ := rfl
theorem requeue_nil (e : Ep) : requeue e [] = e := by simp [requeue, autoEvts]

/-- client-role frame: a step that leaves the client-role projections of `c` alone -/
theorem ReqInv.client_frame {c c' v : Side} {wcv wvc : List Msg} (hi : ReqInv c v wcv wvc)
    (h1 : c'.ep.ports = c.ep.ports) (h2 : c'.ep.clientPending = c.ep.clientPending)
    (h3 : c'.ep.cfg = c.ep.cfg) (h4 : c'.permits ≤ c.permits) : ReqInv c' v wcv wvc :=
  ⟨hi.nodup, by rw [h1]; exact hi.conn, by rw [h2]; exact hi.pend, by rw [h3]; exact hi.cfg,
   by rw [h3]; exact Nat.le_trans h4 hi.perm, hi.outNodup, hi.outMem, hi.lq⟩

theorem permits_snoc_other (s : Side) (ev : Evt) (h : isConnReq ev = false) :
    ((s.connQ ++ [ev]).filter isConnReq).length = (s.connQ.filter isConnReq).length := by
  simp [List.filter_append, List.filter, h]

/-- environment labels, client role -/
theorem req_client_env (c c' v : Side) (wcv wvc inW' out : List Msg) (l : Lab) (hl : l.internal = false)
    (hs : stepSide c wvc l = some (c', inW', out)) (hi : ReqInv c v wcv wvc) :
    inW' = wvc ∧ out = [] ∧ ReqInv c' v wcv wvc := by
  cases l <;> simp [Lab.internal] at hl <;> simp only [stepSide] at hs
  case startConnect p w =>
    split at hs
    · rename_i hg
      simp only [Option.some.injEq, Prod.mk.injEq] at hs
      obtain ⟨rfl, rfl, rfl⟩ := hs
      simp only [Bool.and_eq_true, decide_eq_true_eq] at hg
      refine ⟨rfl, rfl, hi.nodup, hi.conn, hi.pend, hi.cfg, ?_, hi.outNodup, hi.outMem, hi.lq⟩
      simp only [Side.permits, List.filter_append, List.length_append] at hg ⊢
      simp [List.filter, isConnReq]; omega
    · simp at hs
  case dropClients =>
    split at hs
    · simp only [Option.some.injEq, Prod.mk.injEq] at hs
      obtain ⟨rfl, rfl, rfl⟩ := hs
      refine ⟨rfl, rfl, hi.client_frame rfl rfl rfl ?_⟩
      simp only [Side.permits]; rw [permits_snoc_other c _ rfl]; exact Nat.le_refl _
    · simp at hs
  all_goals
    (repeat' split at hs) <;> first
      | (simp at hs; done)
      | (simp only [Option.some.injEq, Prod.mk.injEq] at hs
         obtain ⟨rfl, rfl, rfl⟩ := hs
         exact ⟨rfl, rfl, hi.client_frame rfl rfl rfl (Nat.le_refl _)⟩)

theorem core_add {L L' : List Nat} {p : Nat} (hp : L'.Perm (p :: L)) (hnd : L.Nodup) (hnp : p ∉ L) :
    L'.Nodup ∧ (∀ q, q ∈ L' ↔ (q = p ∨ q ∈ L)) ∧ L'.length = L.length + 1 := by
  refine ⟨hp.nodup_iff.mpr (List.nodup_cons.mpr ⟨hnp, hnd⟩), fun q => ?_, ?_⟩
  · rw [hp.mem_iff]; simp
  · rw [hp.length_eq]; simp

theorem core_remove {L L' : List Nat} {p : Nat} (hp : L.Perm (p :: L')) (hnd : L.Nodup) :
    L'.Nodup ∧ (∀ q, q ∈ L' ↔ (q ≠ p ∧ q ∈ L)) ∧ L'.length = L.length - 1 := by
  have h2 := hp.nodup_iff.mp hnd
  rw [List.nodup_cons] at h2
  refine ⟨h2.2, fun q => ?_, ?_⟩
  · rw [hp.mem_iff]; simp only [List.mem_cons]
    constructor
    · intro hq; exact ⟨fun h => h2.1 (h ▸ hq), Or.inr hq⟩
    · rintro ⟨h1, h | h⟩
      · exact absurd h h1
      · exact h
  · rw [hp.length_eq]; simp

/-- the dispatcher of the client side handles a local event -/
theorem req_client_evt (c v : Side) (wcv wvc : List Msg) (ev : Evt) (e' : Ep) (m : Option Msg)
    (c' : Side) (hi : ReqInv c v wcv wvc) (h : handleEvt c.ep ev = some (e', m))
    (hep : c'.ep = e')
    (hperm : (c'.connQ.filter isConnReq).length + (if isConnReq ev then 1 else 0) = (c.connQ.filter isConnReq).length) :
    ReqInv c' v (wcv ++ emitList m) wvc := by
  have hcfg := handleEvt_cfg _ _ _ _ h
  cases hev : isConnReq ev with
  | false =>
    obtain ⟨h1, h2, h3⟩ := handleEvt_client _ _ _ _ h hev
    simp only [hev, Bool.false_eq_true, if_false, Nat.add_zero] at hperm
    have hL : reqWhere v.ep (wcv ++ emitList m) wvc = reqWhere v.ep wcv wvc := by
      simp [reqWhere, reqPorts_append, h3]
    refine ⟨by rw [hL]; exact hi.nodup, fun q => by rw [hL, hep, h1]; exact hi.conn q,
            by rw [hL, hep, h2]; exact hi.pend, by rw [hep, hcfg]; exact hi.cfg, ?_, hi.outNodup, hi.outMem, hi.lq⟩
    have := hi.perm
    simp only [Side.permits, hep, hcfg, h2, hperm] at this ⊢; omega
  | true =>
    cases ev <;> simp [isConnReq] at hev
    rename_i p w i
    simp only [isConnReq, if_true] at hperm
    obtain ⟨hn, _, _, _, hc⟩ := handleEvt_connectReq _ _ _ _ _ _ h
    rcases hc with ⟨rfl, h1, h2⟩ | ⟨⟨i', rfl⟩, h1, h2⟩
    · have hL : reqWhere v.ep (wcv ++ emitList none) wvc = reqWhere v.ep wcv wvc := by simp [emitList]
      refine ⟨by rw [hL]; exact hi.nodup, fun q => by rw [hL, hep, h1]; exact hi.conn q,
              by rw [hL, hep, h2]; exact hi.pend, by rw [hep, hcfg]; exact hi.cfg, ?_, hi.outNodup, hi.outMem, hi.lq⟩
      have := hi.perm
      simp only [Side.permits, hep, hcfg, h2] at this ⊢; omega
    · have hnp : p ∉ reqWhere v.ep wcv wvc := by
        intro hin; have := (hi.conn p).mpr hin; rw [hn] at this; simp at this
      have hP : (reqWhere v.ep (wcv ++ emitList (some (Msg.openPort p w i'))) wvc).Perm (p :: reqWhere v.ep wcv wvc) := by
        simp only [reqWhere, emitList, reqPorts_append, reqPorts, List.append_assoc]
        exact List.perm_middle
      obtain ⟨a1, a2, a3⟩ := core_add hP hi.nodup hnp
      refine ⟨a1, fun q => ?_, ?_, by rw [hep, hcfg]; exact hi.cfg, ?_, hi.outNodup, hi.outMem, hi.lq⟩
      · rw [hep, h1, a2, hi.conn]
      · rw [hep, h2, a3, hi.pend]
      · have := hi.perm
        simp only [Side.permits, hep, hcfg, h2] at this ⊢; omega

theorem isCtl_cases (m : Msg) (h : isCtl m = true) :
    (∃ cp w id, m = .openPort cp w id) ∨ (∃ cp, respPorts [m] = [cp] ∧ reqPorts [m] = []) ∨
    (isOther m = true ∧ respPorts [m] = [] ∧ reqPorts [m] = []) := by
  cases m <;> simp [isCtl, isOther, respPorts, reqPorts] at h ⊢

theorem respPorts_cons (m : Msg) (w : List Msg) : respPorts (m :: w) = respPorts [m] ++ respPorts w := by
  cases m <;> simp [respPorts]
theorem reqPorts_cons (m : Msg) (w : List Msg) : reqPorts (m :: w) = reqPorts [m] ++ reqPorts w := by
  cases m <;> simp [reqPorts]

/-- the client side handles the head of its incoming wire -/
theorem req_client_rx (c v : Side) (wcv rest : List Msg) (m : Msg) (e' : Ep) (em : Emit) (c' : Side)
    (hi : ReqInv c v wcv (m :: rest)) (hm : isCtl m = true) (h : handleRx c.rxView m = .ok (e', em))
    (hep : c'.ep = requeue { e' with listenerDropped := c.ep.listenerDropped } em)
    (hcq : c'.connQ = c.connQ) :
    ReqInv c' v wcv rest := by
  have hports : c'.ep.ports = e'.ports := by rw [hep]; rfl
  have hpend : c'.ep.clientPending = e'.clientPending := by rw [hep]; rfl
  have hcfg : c'.ep.cfg = e'.cfg := by rw [hep]; rfl
  rcases isCtl_cases m hm with ⟨cp, w, id, rfl⟩ | ⟨cp, hr, _⟩ | ⟨ho, hr, _⟩
  · obtain ⟨_, h1, h2, h3, _, h5⟩ := handleRx_openPort _ _ _ _ _ _ h
    have hL : reqWhere v.ep wcv (Msg.openPort cp w id :: rest) = reqWhere v.ep wcv rest := by
      simp [reqWhere, respPorts]
    have hnd := hi.nodup; have hcn := hi.conn; have hpd := hi.pend
    rw [hL] at hnd hcn hpd
    refine ⟨hnd, by rw [hports, h1]; exact hcn, by rw [hpend, h2]; exact hpd,
            by rw [hcfg, h3]; exact hi.cfg, ?_, hi.outNodup, hi.outMem, hi.lq⟩
    · have := hi.perm
      simp only [Side.permits, hcq, hpend, hcfg, h2, h3] at this ⊢; exact this
  · obtain ⟨_, h1, h2, _, _, h3, rfl⟩ := handleRx_response _ _ _ _ _ hr h
    have hP : (reqWhere v.ep wcv (m :: rest)).Perm (cp :: reqWhere v.ep wcv rest) := by
      simp only [reqWhere]; rw [respPorts_cons, hr]
      simp only [List.singleton_append, ← List.append_assoc]
      exact List.perm_middle
    obtain ⟨a1, a2, a3⟩ := core_remove hP hi.nodup
    refine ⟨a1, fun q => ?_, ?_, by rw [hcfg, h3]; exact hi.cfg, ?_, hi.outNodup, hi.outMem, hi.lq⟩
    · rw [hports, h1, a2]
      have := hi.conn q; simp only [Side.rxView] at this ⊢; rw [this]
    · rw [hpend, h2, a3]; have := hi.pend; simp only [Side.rxView] at this ⊢; rw [this]
    · have := hi.perm
      simp only [Side.permits, hcq, hpend, hcfg, h2, h3, Side.rxView] at this ⊢; omega
  · obtain ⟨h1, h2, _, _, h3, rfl⟩ := handleRx_other _ _ _ _ ho h
    have hL : reqWhere v.ep wcv (m :: rest) = reqWhere v.ep wcv rest := by
      simp only [reqWhere]; rw [respPorts_cons, hr]; rfl
    have hnd := hi.nodup; have hcn := hi.conn; have hpd := hi.pend
    rw [hL] at hnd hcn hpd
    refine ⟨hnd, fun q => by rw [hports, h1]; exact hcn q, by rw [hpend, h2]; exact hpd,
            by rw [hcfg, h3]; exact hi.cfg, ?_, hi.outNodup, hi.outMem, hi.lq⟩
    · have := hi.perm
      simp only [Side.permits, hcq, hpend, hcfg, h2, h3, Side.rxView] at this ⊢; exact this

theorem autoEvts_noReq (em : List Msg) : ∀ ev ∈ autoEvts em, isConnReq ev = false := by
  induction em with
  | nil => simp [autoEvts]
  | cons m w ih =>
    cases m <;> simp only [autoEvts] <;> try exact ih
    intro ev hev; simp only [List.mem_cons] at hev
    rcases hev with h | h
    · subst h; rfl
    · exact ih ev h

/-- internal labels, client role -/
theorem req_client_int (c c' v : Side) (wcv wvc inW' out : List Msg) (l : Lab)
    (hs : stepSide c wvc l = some (c', inW', out)) (hi : ReqInv c v wcv wvc)
    (hw : ∀ m ∈ wvc, isCtl m = true) (hq : QType c) (hl : l.internal = true) :
    ReqInv c' v (wcv ++ out) inW' := by
  cases l <;> simp [Lab.internal] at hl <;> simp only [stepSide] at hs
  case dispConn =>
    split at hs
    · split at hs
      · rename_i ev rest hq'
        split at hs
        · rename_i e' m he
          simp only [Option.some.injEq, Prod.mk.injEq] at hs
          obtain ⟨rfl, rfl, rfl⟩ := hs
          refine req_client_evt c v wcv _ ev e' m _ hi he rfl ?_
          simp only [hq']
          cases hev : isConnReq ev <;> simp [List.filter, hev]
        · simp at hs
      · simp at hs
    · simp at hs
  case dispPort =>
    split at hs
    · split at hs
      · rename_i ev rest hq'
        split at hs
        · rename_i e' m he
          simp only [Option.some.injEq, Prod.mk.injEq] at hs
          obtain ⟨rfl, rfl, rfl⟩ := hs
          have hne : isConnReq ev = false := isPortEvt_noReq ev (hq.port ev (by rw [hq']; simp))
          exact req_client_evt c v wcv _ ev e' m _ hi he (by simp) (by simp [hne])
        · simp at hs
      · simp at hs
    · simp at hs
  case dispListener =>
    split at hs
    · split at hs
      · rename_i e' m he
        simp only [Option.some.injEq, Prod.mk.injEq] at hs
        obtain ⟨rfl, rfl, rfl⟩ := hs
        exact req_client_evt c v wcv _ _ e' m _ hi he rfl (by simp [isConnReq])
      · simp at hs
    · simp at hs
  case goodbye =>
    split at hs
    · split at hs
      · rename_i e' m he
        simp only [Option.some.injEq, Prod.mk.injEq] at hs
        obtain ⟨rfl, rfl, rfl⟩ := hs
        exact req_client_evt c v wcv _ _ e' m _ hi he rfl (by simp [isConnReq])
      · simp at hs
    · simp at hs
  case deliver =>
    split at hs
    · simp at hs
    · split at hs
      · rename_i m rest
        split at hs
        · rename_i e' em he
          simp only [Option.some.injEq, Prod.mk.injEq] at hs
          obtain ⟨rfl, rfl, rfl⟩ := hs
          simp only [List.append_nil]
          exact req_client_rx c v wcv _ m e' em _ hi (hw m (by simp)) he (by simp) (by simp)
        · simp at hs
      · simp at hs

theorem reqWhere_congr (e e' : Ep) (a b : List Msg) (h : e'.outstanding = e.outstanding) :
    reqWhere e' a b = reqWhere e a b := by simp [reqWhere, h]

/-- server-role frame: `outstanding` unchanged, its API-side locations only permuted -/
theorem ReqInv.server_frame {c v v' : Side} {wcv wvc : List Msg} (hi : ReqInv c v wcv wvc)
    (h1 : v'.ep.outstanding = v.ep.outstanding) (h2 : v'.ep.cfg = v.ep.cfg)
    (h3 : (outWhere v').Perm (outWhere v)) (h4 : v'.listenerAlive = false → v'.ep.listenQ = []) :
    ReqInv c v' wcv wvc := by
  refine ⟨by rw [reqWhere_congr _ _ _ _ h1]; exact hi.nodup, by rw [reqWhere_congr _ _ _ _ h1]; exact hi.conn,
          by rw [reqWhere_congr _ _ _ _ h1]; exact hi.pend, by rw [h2]; exact hi.cfg, hi.perm,
          h3.nodup_iff.mpr hi.outNodup, fun p => by rw [h3.mem_iff, h1]; exact hi.outMem p, h4⟩

theorem takeFirst_perm (q : List (Nat × Bool)) (w : Bool) (rp : Nat) (rest : List (Nat × Bool))
    (h : takeFirst q w = some (rp, rest)) : (q.map (·.1)).Perm (rp :: rest.map (·.1)) := by
  induction q generalizing rp rest with
  | nil => simp [takeFirst] at h
  | cons a as ih =>
    obtain ⟨p, w'⟩ := a
    simp only [takeFirst] at h
    split at h
    · simp only [Option.some.injEq, Prod.mk.injEq] at h
      obtain ⟨rfl, rfl⟩ := h
      exact List.Perm.refl _
    · split at h
      · rename_i r rest' hr
        simp only [Option.some.injEq, Prod.mk.injEq] at h
        obtain ⟨rfl, rfl⟩ := h
        simp only [List.map_cons]
        exact (List.Perm.cons p (ih _ _ hr)).trans (List.Perm.swap _ _ _)
      · simp at h

theorem ansPorts_other (q : List Evt) (ev : Evt) (h : ansPorts [ev] = []) : ansPorts (q ++ [ev]) = ansPorts q := by
  rw [ansPorts_append, h]; simp

theorem ansPorts_rejectAll (q : List (Nat × Bool)) :
    ansPorts (q.map (fun r => Evt.rejected r.1 false)) = q.map (·.1) := by
  induction q with
  | nil => rfl
  | cons a as ih => simp [ansPorts, ih]

/-- environment labels, server role -/
theorem req_server_env (c v v' : Side) (wcv wvc inW' out : List Msg) (l : Lab) (hl : l.internal = false)
    (hs : stepSide v wcv l = some (v', inW', out)) (hi : ReqInv c v wcv wvc) :
    ReqInv c v' wcv wvc := by
  cases l <;> simp [Lab.internal] at hl <;> simp only [stepSide] at hs
  case takeReq w =>
    split at hs
    · rename_i hla
      split at hs
      · rename_i rp rest ht
        simp only [Option.some.injEq, Prod.mk.injEq] at hs
        obtain ⟨rfl, rfl, rfl⟩ := hs
        refine hi.server_frame rfl rfl ?_ (by intro h; simp [hla] at h)
        have hp := takeFirst_perm _ _ _ _ ht
        rw [List.perm_iff_count] at hp ⊢
        intro a; have := hp a
        simp only [outWhere, List.count_append, List.count_cons, List.count_nil] at this ⊢; omega
      · simp at hs
    · simp at hs
  case acceptReq rp lp =>
    split at hs
    · rename_i hg
      simp only [Option.some.injEq, Prod.mk.injEq] at hs
      obtain ⟨rfl, rfl, rfl⟩ := hs
      simp only [Bool.and_eq_true, List.contains_iff_mem] at hg
      refine hi.server_frame rfl rfl ?_ hi.lq
      have hp := List.perm_cons_erase hg.1
      rw [List.perm_iff_count] at hp ⊢
      intro a; have := hp a
      simp only [outWhere, ansPorts_append, ansPorts, List.count_append, List.count_cons, List.count_nil] at this ⊢; omega
    · simp at hs
  case rejectReq rp np =>
    split at hs
    · rename_i hg
      simp only [Option.some.injEq, Prod.mk.injEq] at hs
      obtain ⟨rfl, rfl, rfl⟩ := hs
      simp only [List.contains_iff_mem] at hg
      refine hi.server_frame rfl rfl ?_ hi.lq
      have hp := List.perm_cons_erase hg
      rw [List.perm_iff_count] at hp ⊢
      intro a; have := hp a
      simp only [outWhere, ansPorts_append, ansPorts, List.count_append, List.count_cons, List.count_nil] at this ⊢; omega
    · simp at hs
  case dropListener =>
    split at hs
    · simp only [Option.some.injEq, Prod.mk.injEq] at hs
      obtain ⟨rfl, rfl, rfl⟩ := hs
      refine hi.server_frame rfl rfl ?_ (fun _ => rfl)
      rw [List.perm_iff_count]
      intro a
      simp only [outWhere, ansPorts_append, ansPorts_rejectAll, List.count_append, List.map_nil, List.count_nil]; omega
    · simp at hs
  all_goals
    (repeat' split at hs) <;> first
      | (simp at hs; done)
      | (simp only [Option.some.injEq, Prod.mk.injEq] at hs
         obtain ⟨rfl, rfl, rfl⟩ := hs
         exact hi.server_frame rfl rfl (by simp [outWhere, ansPorts_append, ansPorts]) hi.lq)

theorem perm_filter_ne (l : List Nat) (rp : Nat) (hnd : l.Nodup) (h : rp ∈ l) :
    l.Perm (rp :: l.filter (· != rp)) := by
  induction l with
  | nil => simp at h
  | cons a as ih =>
    rw [List.nodup_cons] at hnd
    by_cases ha : a = rp
    · subst ha
      have : as.filter (· != a) = as := by
        apply List.filter_eq_self.mpr
        intro b hb; simp; intro hab; subst hab; exact hnd.1 hb
      simp [List.filter, this]
    · have hin : rp ∈ as := by
        rcases List.mem_cons.mp h with h | h
        · exact absurd h.symm ha
        · exact h
      have hne : (a != rp) = true := by simp [ha]
      simp only [List.filter, hne]
      exact (List.Perm.cons a (ih hnd.2 hin)).trans (List.Perm.swap _ _ _)

/-- the server side's dispatcher handles a non-answer event -/
theorem req_server_evt_other (c v v' : Side) (wcv wvc : List Msg) (ev : Evt) (e' : Ep) (m : Option Msg)
    (hi : ReqInv c v wcv wvc) (h : handleEvt v.ep ev = some (e', m)) (hev : ansPorts [ev] = [])
    (hep : v'.ep = e') (hheld : v'.held = v.held) (hla : v'.listenerAlive = v.listenerAlive)
    (hpq : ansPorts v'.portQ = ansPorts v.portQ) (hlq : e'.listenQ = v.ep.listenQ) :
    ReqInv c v' wcv (wvc ++ emitList m) := by
  obtain ⟨h1, h2, _⟩ := handleEvt_noAnswer _ _ _ _ h hev
  have hcfg := handleEvt_cfg _ _ _ _ h
  have hL : reqWhere v'.ep wcv (wvc ++ emitList m) = reqWhere v.ep wcv wvc := by
    simp [reqWhere, respPorts_append, h2, hep, h1]
  have hO : outWhere v' = outWhere v := by simp [outWhere, hep, hlq, hheld, hpq]
  exact ⟨by rw [hL]; exact hi.nodup, by rw [hL]; exact hi.conn, by rw [hL]; exact hi.pend,
         by rw [hep, hcfg]; exact hi.cfg, hi.perm, by rw [hO]; exact hi.outNodup,
         fun p => by rw [hO, hep, h1]; exact hi.outMem p, by rw [hla, hep, hlq]; exact hi.lq⟩

/-- the server side's dispatcher handles an answer event (head of its port-event queue) -/
theorem req_server_evt_answer (c v v' : Side) (wcv wvc : List Msg) (ev : Evt) (rest : List Evt) (e' : Ep)
    (m : Option Msg) (rp : Nat)
    (hi : ReqInv c v wcv wvc) (h : handleEvt v.ep ev = some (e', m)) (hev : ansPorts [ev] = [rp])
    (hq : v.portQ = ev :: rest)
    (hep : v'.ep = e') (hheld : v'.held = v.held) (hla : v'.listenerAlive = v.listenerAlive)
    (hpq : v'.portQ = rest) :
    ReqInv c v' wcv (wvc ++ emitList m) := by
  obtain ⟨h0, h1, h2, h3⟩ := handleEvt_answer _ _ _ _ h rp hev
  have hcfg := handleEvt_cfg _ _ _ _ h
  have hndo : v.ep.outstanding.Nodup := by
    have := hi.nodup; simp only [reqWhere] at this
    exact (List.nodup_append.mp (List.nodup_append.mp this).1).2.1
  have hpo := perm_filter_ne _ _ hndo h0
  have hP : (reqWhere v'.ep wcv (wvc ++ emitList m)).Perm (reqWhere v.ep wcv wvc) := by
    rw [List.perm_iff_count] at hpo ⊢
    intro a; have := hpo a
    simp only [reqWhere, respPorts_append, h3, hep, h1, List.count_append, List.count_cons, List.count_nil] at this ⊢
    omega
  have hA : ansPorts v.portQ = rp :: ansPorts rest := by
    rw [hq]; have := ansPorts_append [ev] rest; simp only [List.singleton_append] at this; rw [this, hev]; rfl
  have hPO : (outWhere v).Perm (rp :: outWhere v') := by
    simp only [outWhere, hep, h2, hheld, hpq, hA]
    exact List.perm_middle
  obtain ⟨a1, a2, _⟩ := core_remove hPO hi.outNodup
  refine ⟨hP.nodup_iff.mpr hi.nodup, fun p => by rw [hP.mem_iff]; exact hi.conn p,
          by rw [hP.length_eq]; exact hi.pend, by rw [hep, hcfg]; exact hi.cfg, hi.perm, a1, fun p => ?_,
          by rw [hla, hep, h2]; exact hi.lq⟩
  rw [a2, hi.outMem, hep, h1]; simp [List.mem_filter, and_comm]

/-- the server side handles the head of its incoming wire -/
theorem req_server_rx (c v v' : Side) (rest wvc : List Msg) (m : Msg) (e' : Ep) (em : Emit)
    (hi : ReqInv c v (m :: rest) wvc) (hm : isCtl m = true) (h : handleRx v.rxView m = .ok (e', em))
    (hep : v'.ep = requeue { e' with listenerDropped := v.ep.listenerDropped } em)
    (hheld : v'.held = v.held) (hla : v'.listenerAlive = v.listenerAlive)
    (hpq : v'.portQ = v.portQ ++ autoEvts em) :
    ReqInv c v' rest wvc := by
  have hout : v'.ep.outstanding = (requeue e' em).outstanding := by rw [hep]; rfl
  have hlq : v'.ep.listenQ = e'.listenQ := by rw [hep]; rfl
  have hcfg : v'.ep.cfg = e'.cfg := by rw [hep]; rfl
  rcases isCtl_cases m hm with ⟨cp, w, id, rfl⟩ | ⟨cp, hr, hq⟩ | ⟨ho, hr, hq⟩
  · obtain ⟨h0, _, _, h3, h4, h5⟩ := handleRx_openPort _ _ _ _ _ _ h
    have h0' : cp ∉ v.ep.outstanding := h0
    have hP : (reqWhere v'.ep rest wvc).Perm (reqWhere v.ep (Msg.openPort cp w id :: rest) wvc) := by
      rw [List.perm_iff_count]; intro a
      simp only [reqWhere, hout, h4, reqPorts, Side.rxView, List.count_append, List.count_cons, List.count_nil]
      omega
    have hnin : cp ∉ outWhere v := fun hx => h0' ((hi.outMem cp).mp hx)
    have hPO : (outWhere v').Perm (cp :: outWhere v) := by
      rw [List.perm_iff_count]; intro a
      rcases h5 with ⟨_, h6, h7⟩ | ⟨_, h6, h7⟩
      · simp only [outWhere, hlq, h7, hheld, hpq, h6, ansPorts_append, ansPorts, Side.rxView,
          List.count_append, List.count_cons, List.count_nil]; omega
      · simp only [outWhere, hlq, h7, hheld, hpq, h6, ansPorts_append, ansPorts, Side.rxView, List.map_append,
          List.map_cons, List.map_nil, List.count_append, List.count_cons, List.count_nil]; omega
    obtain ⟨a1, a2, _⟩ := core_add hPO hi.outNodup hnin
    refine ⟨hP.nodup_iff.mpr hi.nodup, fun p => by rw [hP.mem_iff]; exact hi.conn p,
            by rw [hP.length_eq]; exact hi.pend, by rw [hcfg, h3]; exact hi.cfg, hi.perm, a1, fun p => ?_, ?_⟩
    · rw [a2, hout, h4, hi.outMem]; simp only [Side.rxView, List.mem_append, List.mem_singleton]
      exact Or.comm
    · intro hal; rw [hla] at hal
      rcases h5 with ⟨_, _, h7⟩ | ⟨h8, _, _⟩
      · rw [hlq, h7]; exact hi.lq hal
      · simp [Side.rxView, hal] at h8
  · obtain ⟨_, _, _, h4, h5, h3, rfl⟩ := handleRx_response _ _ _ _ _ hr h
    have hL : reqWhere v'.ep rest wvc = reqWhere v.ep (m :: rest) wvc := by
      simp only [reqWhere, hout, requeue_nil, h4]; rw [reqPorts_cons m, hq]; rfl
    have hO : outWhere v' = outWhere v := by
      simp [outWhere, hlq, h5, hheld, hpq, autoEvts, Side.rxView]
    exact ⟨by rw [hL]; exact hi.nodup, by rw [hL]; exact hi.conn, by rw [hL]; exact hi.pend,
           by rw [hcfg, h3]; exact hi.cfg, hi.perm, by rw [hO]; exact hi.outNodup,
           fun p => by rw [hO, hout, requeue_nil, h4]; exact hi.outMem p,
           by rw [hla, hlq, h5]; exact hi.lq⟩
  · obtain ⟨_, _, h4, h5, h3, rfl⟩ := handleRx_other _ _ _ _ ho h
    have hL : reqWhere v'.ep rest wvc = reqWhere v.ep (m :: rest) wvc := by
      simp only [reqWhere, hout, requeue_nil, h4]; rw [reqPorts_cons m, hq]; rfl
    have hO : outWhere v' = outWhere v := by
      simp [outWhere, hlq, h5, hheld, hpq, autoEvts, Side.rxView]
    exact ⟨by rw [hL]; exact hi.nodup, by rw [hL]; exact hi.conn, by rw [hL]; exact hi.pend,
           by rw [hcfg, h3]; exact hi.cfg, hi.perm, by rw [hO]; exact hi.outNodup,
           fun p => by rw [hO, hout, requeue_nil, h4]; exact hi.outMem p,
           by rw [hla, hlq, h5]; exact hi.lq⟩

theorem ansPorts_cases (ev : Evt) : ansPorts [ev] = [] ∨ ∃ rp, ansPorts [ev] = [rp] := by
  cases ev <;> simp [ansPorts]

theorem ansPorts_cons (ev : Evt) (q : List Evt) : ansPorts (ev :: q) = ansPorts [ev] ++ ansPorts q := by
  cases ev <;> simp [ansPorts]

@[simp] theorem evtHandles_listenerAlive (s : Side) (ev : Evt) : (evtHandles s ev).listenerAlive = s.listenerAlive := by
  cases ev <;> rfl
@[simp] theorem rxHandles_listenerAlive (s : Side) (m : Msg) : (rxHandles s m).listenerAlive = s.listenerAlive := by
  cases m <;> rfl

/-- internal labels, server role -/
theorem req_server_int (c v v' : Side) (wcv wvc inW' out : List Msg) (l : Lab)
    (hs : stepSide v wcv l = some (v', inW', out)) (hi : ReqInv c v wcv wvc)
    (hw : ∀ m ∈ wcv, isCtl m = true) (hq : QType v) (hl : l.internal = true) :
    ReqInv c v' inW' (wvc ++ out) := by
  cases l <;> simp [Lab.internal] at hl <;> simp only [stepSide] at hs
  case dispConn =>
    split at hs
    · split at hs
      · rename_i ev rest hq'
        split at hs
        · rename_i e' m he
          simp only [Option.some.injEq, Prod.mk.injEq] at hs
          obtain ⟨rfl, rfl, rfl⟩ := hs
          have hce := hq.conn ev (by rw [hq']; simp)
          have hna := isConnEvt_noAns ev hce
          obtain ⟨_, _, h3⟩ := handleEvt_noAnswer _ _ _ _ he hna
          refine req_server_evt_other c v _ _ wvc ev e' m hi he hna rfl rfl rfl rfl ?_
          rcases h3 with h3 | ⟨rfl, _⟩
          · exact h3
          · simp [isConnEvt] at hce
        · simp at hs
      · simp at hs
    · simp at hs
  case dispPort =>
    split at hs
    · split at hs
      · rename_i ev rest hq'
        split at hs
        · rename_i e' m he
          simp only [Option.some.injEq, Prod.mk.injEq] at hs
          obtain ⟨rfl, rfl, rfl⟩ := hs
          have hpe := hq.port ev (by rw [hq']; simp)
          rcases ansPorts_cases ev with hna | ⟨rp, ha⟩
          · obtain ⟨_, _, h3⟩ := handleEvt_noAnswer _ _ _ _ he hna
            refine req_server_evt_other c v _ _ wvc ev e' m hi he hna (by simp) (by simp) (by simp) ?_ ?_
            · simp only [evtHandles_portQ, hq']; rw [ansPorts_cons, hna]; rfl
            · rcases h3 with h3 | ⟨rfl, _⟩
              · exact h3
              · simp [isPortEvt] at hpe
          · exact req_server_evt_answer c v _ _ wvc ev rest e' m rp hi he ha hq' (by simp) (by simp) (by simp) (by simp)
        · simp at hs
      · simp at hs
    · simp at hs
  case dispListener =>
    split at hs
    · rename_i hg
      split at hs
      · rename_i e' m he
        simp only [Option.some.injEq, Prod.mk.injEq] at hs
        obtain ⟨rfl, rfl, rfl⟩ := hs
        simp only [Bool.and_eq_true, Bool.not_eq_true'] at hg
        obtain ⟨_, _, h3⟩ := handleEvt_noAnswer _ _ _ _ he rfl
        refine req_server_evt_other c v _ _ wvc _ e' m hi he rfl rfl rfl rfl rfl ?_
        rcases h3 with h3 | ⟨_, h3⟩
        · exact h3
        · rw [h3, hi.lq hg.1.2]
      · simp at hs
    · simp at hs
  case goodbye =>
    split at hs
    · split at hs
      · rename_i e' m he
        simp only [Option.some.injEq, Prod.mk.injEq] at hs
        obtain ⟨rfl, rfl, rfl⟩ := hs
        obtain ⟨_, _, h3⟩ := handleEvt_noAnswer _ _ _ _ he rfl
        refine req_server_evt_other c v _ _ wvc _ e' m hi he rfl rfl rfl rfl rfl ?_
        rcases h3 with h3 | ⟨h4, _⟩
        · exact h3
        · simp at h4
      · simp at hs
    · simp at hs
  case deliver =>
    split at hs
    · simp at hs
    · split at hs
      · rename_i m rest
        split at hs
        · rename_i e' em he
          simp only [Option.some.injEq, Prod.mk.injEq] at hs
          obtain ⟨rfl, rfl, rfl⟩ := hs
          simp only [List.append_nil]
          exact req_server_rx c v _ _ wvc m e' em hi (hw m (by simp)) he (by simp) (by simp) (by simp) (by simp)
        · simp at hs
      · simp at hs

end Remoc.Table.Sys
