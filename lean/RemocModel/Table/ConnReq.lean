import RemocModel.Table.ConnLemmas
set_option linter.unusedSimpArgs false
set_option linter.unusedVariables false
/-
The request/credit invariant of the two-endpoint system, one direction: `c` is the side whose
client sends requests, `v` the side whose listener answers them.
-/
namespace Remoc.Table.Sys
open Remoc.Wire Remoc.Table

/-- the messages a conforming endpoint of this model puts on the wire -/
def isCtl : Msg → Bool
  | .openPort _ _ _ | .portOpened _ _ | .rejected _ _ => true
  | m => isOther m

structure ReqInv (c v : Side) (wcv wvc : List Msg) : Prop where
  /-- every request is in exactly one place -/
  nodup : (reqWhere v.ep wcv wvc).Nodup
  /-- the requests that are somewhere are exactly the connecting ports of the client side -/
  conn : ∀ p, lookup c.ep.ports p = some .connecting ↔ p ∈ reqWhere v.ep wcv wvc
  /-- `clientPending` counts them -/
  pend : c.ep.clientPending = (reqWhere v.ep wcv wvc).length
  cfg : c.ep.cfg.remoteCq = v.ep.cfg.cq
  /-- permits in use never exceed the semaphore -/
  perm : c.permits ≤ c.ep.cfg.remoteCq
  noReqInPortQ : ∀ ev ∈ c.portQ, isConnReq ev = false
  /-- the outstanding requests of the server side are in the listener queue, held by the
  application, or answered with the answer event queued -/
  outNodup : (outWhere v).Nodup
  outMem : ∀ p, p ∈ outWhere v ↔ p ∈ v.ep.outstanding

@[simp] theorem rxHandles_ep (s : Side) (m : Msg) : (rxHandles s m).ep = s.ep := by
  cases m <;> rfl
@[simp] theorem rxHandles_connQ (s : Side) (m : Msg) : (rxHandles s m).connQ = s.connQ := by
  cases m <;> rfl
@[simp] theorem rxHandles_portQ (s : Side) (m : Msg) : (rxHandles s m).portQ = s.portQ := by
  cases m <;> rfl
@[simp] theorem rxHandles_held (s : Side) (m : Msg) : (rxHandles s m).held = s.held := by
  cases m <;> rfl
@[simp] theorem evtHandles_ep (s : Side) (ev : Evt) : (evtHandles s ev).ep = s.ep := by
  cases ev <;> rfl
@[simp] theorem evtHandles_connQ (s : Side) (ev : Evt) : (evtHandles s ev).connQ = s.connQ := by
  cases ev <;> rfl
@[simp] theorem evtHandles_portQ (s : Side) (ev : Evt) : (evtHandles s ev).portQ = s.portQ := by
  cases ev <;> rfl
@[simp] theorem evtHandles_held (s : Side) (ev : Evt) : (evtHandles s ev).held = s.held := by
  cases ev <;> rfl
@[simp] theorem requeue_ports (e : Ep) (em : List Msg) : (requeue e em).ports = e.ports := rfl
@[simp] theorem requeue_clientPending (e : Ep) (em : List Msg) : (requeue e em).clientPending = e.clientPending := rfl
@[simp] theorem requeue_cfg (e : Ep) (em : List Msg) : (requeue e em).cfg = e.cfg := rfl
@[simp] theorem requeue_listenQ (e : Ep) (em : List Msg) : (requeue e em).listenQ = e.listenQ := rfl
theorem requeue_nil (e : Ep) : requeue e [] = e := by simp [requeue, autoEvts]

/-- client-role frame: a step that leaves the client-role projections of `c` alone -/
theorem ReqInv.client_frame {c c' v : Side} {wcv wvc : List Msg} (hi : ReqInv c v wcv wvc)
    (h1 : c'.ep.ports = c.ep.ports) (h2 : c'.ep.clientPending = c.ep.clientPending)
    (h3 : c'.ep.cfg = c.ep.cfg) (h4 : c'.permits ≤ c.permits)
    (h5 : ∀ ev ∈ c'.portQ, isConnReq ev = false) : ReqInv c' v wcv wvc :=
  ⟨hi.nodup, by rw [h1]; exact hi.conn, by rw [h2]; exact hi.pend, by rw [h3]; exact hi.cfg,
   by rw [h3]; exact Nat.le_trans h4 hi.perm, h5, hi.outNodup, hi.outMem⟩

end Remoc.Table.Sys
