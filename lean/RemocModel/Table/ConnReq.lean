import RemocModel.Table.ConnLemmas
set_option linter.unusedSimpArgs false
set_option linter.unusedVariables false
/-
The request/credit invariant of the two-endpoint system, one direction: `c` is the side whose
client sends requests, `v` the side whose listener answers them.
-/
namespace Remoc.Table.Sys
open Remoc.Wire Remoc.Table

/-- the messages a conforming endpoint of this model puts on the wire -/
def isCtl : Msg → Bool
  | .openPort _ _ _ | .portOpened _ _ | .rejected _ _ => true
  | m => isOther m

structure ReqInv (c v : Side) (wcv wvc : List Msg) : Prop where
  /-- every request is in exactly one place -/
  nodup : (reqWhere v.ep wcv wvc).Nodup
  /-- the requests that are somewhere are exactly the connecting ports of the client side -/
  conn : ∀ p, lookup c.ep.ports p = some .connecting ↔ p ∈ reqWhere v.ep wcv wvc
  /-- `clientPending` counts them -/
  pend : c.ep.clientPending = (reqWhere v.ep wcv wvc).length
  cfg : c.ep.cfg.remoteCq = v.ep.cfg.cq
  /-- permits in use never exceed the semaphore -/
  perm : c.permits ≤ c.ep.cfg.remoteCq
  noReqInPortQ : ∀ ev ∈ c.portQ, isConnReq ev = false
  /-- the outstanding requests of the server side are in the listener queue, held by the
  application, or answered with the answer event queued -/
  outNodup : (outWhere v).Nodup
  outMem : ∀ p, p ∈ outWhere v ↔ p ∈ v.ep.outstanding

@[simp] theorem rxHandles_ep (s : Side) (m : Msg) : (rxHandles s m).ep = s.ep := by
  cases m <;> rfl
@[simp] theorem rxHandles_connQ (s : Side) (m : Msg) : (rxHandles s m).connQ = s.connQ := by
  cases m <;> rfl
@[simp] theorem rxHandles_portQ (s : Side) (m : Msg) : (rxHandles s m).portQ = s.portQ := by
  cases m <;> rfl
@[simp] theorem rxHandles_held (s : Side) (m : Msg) : (rxHandles s m).held = s.held := by
  cases m <;> rfl
@[simp] theorem evtHandles_ep (s : Side) (ev : Evt) : (evtHandles s ev).ep = s.ep := by
  cases ev <;> rfl
@[simp] theorem evtHandles_connQ (s : Side) (ev : Evt) : (evtHandles s ev).connQ = s.connQ := by
  cases ev <;> rfl
@[simp] theorem evtHandles_portQ (s : Side) (ev : Evt) : (evtHandles s ev).portQ = s.portQ := by
  cases ev <;> rfl
@[simp] theorem evtHandles_held (s : Side) (ev : Evt) : (evtHandles s ev).held = s.held := by
  cases ev <;> rfl
@[simp] theorem requeue_ports (e : Ep) (em : List Msg) : (requeue e em).ports = e.ports := rfl
@[simp] theorem requeue_clientPending (e : Ep) (em : List Msg) : (requeue e em).clientPending = e.clientPending := rfl
@[simp] theorem requeue_cfg (e : Ep) (em : List Msg) : (requeue e em).cfg = e.cfg := rfl
@[simp] theorem requeue_listenQ (e : Ep) (em : List Msg) : (requeue e em).listenQ = e.listenQ := rfl
theorem requeue_nil (e : Ep) : requeue e [] = e := by simp [requeue, autoEvts]

/-- client-role frame: a step that leaves the client-role projections of `c` alone -/
theorem ReqInv.client_frame {c c' v : Side} {wcv wvc : List Msg} (hi : ReqInv c v wcv wvc)
    (h1 : c'.ep.ports = c.ep.ports) (h2 : c'.ep.clientPending = c.ep.clientPending)
    (h3 : c'.ep.cfg = c.ep.cfg) (h4 : c'.permits ≤ c.permits)
    (h5 : ∀ ev ∈ c'.portQ, isConnReq ev = false) : ReqInv c' v wcv wvc :=
  ⟨hi.nodup, by rw [h1]; exact hi.conn, by rw [h2]; exact hi.pend, by rw [h3]; exact hi.cfg,
   by rw [h3]; exact Nat.le_trans h4 hi.perm, h5, hi.outNodup, hi.outMem⟩

theorem permits_snoc_other (s : Side) (ev : Evt) (h : isConnReq ev = false) :
    ((s.connQ ++ [ev]).filter isConnReq).length = (s.connQ.filter isConnReq).length := by
  simp [List.filter_append, List.filter, h]

/-- environment labels, client role -/
theorem req_client_env (c c' v : Side) (wcv wvc inW' out : List Msg) (l : Lab) (hl : l.internal = false)
    (hs : stepSide c wvc l = some (c', inW', out)) (hi : ReqInv c v wcv wvc) :
    inW' = wvc ∧ out = [] ∧ ReqInv c' v wcv wvc := by
  cases l <;> simp [Lab.internal] at hl <;> simp only [stepSide] at hs
  case startConnect p w =>
    split at hs
    · rename_i hg
      simp only [Option.some.injEq, Prod.mk.injEq] at hs
      obtain ⟨rfl, rfl, rfl⟩ := hs
      simp only [Bool.and_eq_true, decide_eq_true_eq] at hg
      refine ⟨rfl, rfl, hi.nodup, hi.conn, hi.pend, hi.cfg, ?_, hi.noReqInPortQ, hi.outNodup, hi.outMem⟩
      simp only [Side.permits, List.filter_append, List.length_append] at hg ⊢
      simp [List.filter, isConnReq]; omega
    · simp at hs
  case takeReq w =>
    split at hs
    · split at hs
      · simp only [Option.some.injEq, Prod.mk.injEq] at hs
        obtain ⟨rfl, rfl, rfl⟩ := hs
        exact ⟨rfl, rfl, hi.client_frame rfl rfl rfl (Nat.le_refl _) hi.noReqInPortQ⟩
      · simp at hs
    · simp at hs
  case acceptReq rp lp =>
    split at hs
    · simp only [Option.some.injEq, Prod.mk.injEq] at hs
      obtain ⟨rfl, rfl, rfl⟩ := hs
      refine ⟨rfl, rfl, hi.client_frame rfl rfl rfl (Nat.le_refl _) ?_⟩
      intro ev hev; simp only [List.mem_append, List.mem_singleton] at hev
      rcases hev with h | h
      · exact hi.noReqInPortQ ev h
      · subst h; rfl
    · simp at hs
  case rejectReq rp np =>
    split at hs
    · simp only [Option.some.injEq, Prod.mk.injEq] at hs
      obtain ⟨rfl, rfl, rfl⟩ := hs
      refine ⟨rfl, rfl, hi.client_frame rfl rfl rfl (Nat.le_refl _) ?_⟩
      intro ev hev; simp only [List.mem_append, List.mem_singleton] at hev
      rcases hev with h | h
      · exact hi.noReqInPortQ ev h
      · subst h; rfl
    · simp at hs
  case closeReceiver p =>
    split at hs
    · simp only [Option.some.injEq, Prod.mk.injEq] at hs
      obtain ⟨rfl, rfl, rfl⟩ := hs
      refine ⟨rfl, rfl, hi.client_frame rfl rfl rfl (Nat.le_refl _) ?_⟩
      intro ev hev; simp only [List.mem_append, List.mem_singleton] at hev
      rcases hev with h | h
      · exact hi.noReqInPortQ ev h
      · subst h; rfl
    · simp at hs
  case dropReceiver p =>
    split at hs
    · simp only [Option.some.injEq, Prod.mk.injEq] at hs
      obtain ⟨rfl, rfl, rfl⟩ := hs
      refine ⟨rfl, rfl, hi.client_frame rfl rfl rfl (Nat.le_refl _) ?_⟩
      intro ev hev; simp only [List.mem_append, List.mem_singleton] at hev
      rcases hev with h | h
      · exact hi.noReqInPortQ ev h
      · subst h; rfl
    · simp at hs
  case dropSender p =>
    split at hs
    · simp only [Option.some.injEq, Prod.mk.injEq] at hs
      obtain ⟨rfl, rfl, rfl⟩ := hs
      refine ⟨rfl, rfl, hi.client_frame rfl rfl rfl (Nat.le_refl _) ?_⟩
      intro ev hev; simp only [List.mem_append, List.mem_singleton] at hev
      rcases hev with h | h
      · exact hi.noReqInPortQ ev h
      · subst h; rfl
    · simp at hs
  case dropClients =>
    split at hs
    · simp only [Option.some.injEq, Prod.mk.injEq] at hs
      obtain ⟨rfl, rfl, rfl⟩ := hs
      refine ⟨rfl, rfl, hi.client_frame rfl rfl rfl ?_ hi.noReqInPortQ⟩
      simp only [Side.permits]; rw [permits_snoc_other c _ rfl]; exact Nat.le_refl _
    · simp at hs
  case dropListener =>
    split at hs
    · simp only [Option.some.injEq, Prod.mk.injEq] at hs
      obtain ⟨rfl, rfl, rfl⟩ := hs
      refine ⟨rfl, rfl, hi.client_frame rfl rfl rfl (Nat.le_refl _) ?_⟩
      intro ev hev; simp only [List.mem_append, List.mem_map] at hev
      rcases hev with h | ⟨r, _, h⟩
      · exact hi.noReqInPortQ ev h
      · subst h; rfl
    · simp at hs

theorem core_add {L L' : List Nat} {p : Nat} (hp : L'.Perm (p :: L)) (hnd : L.Nodup) (hnp : p ∉ L) :
    L'.Nodup ∧ (∀ q, q ∈ L' ↔ (q = p ∨ q ∈ L)) ∧ L'.length = L.length + 1 := by
  refine ⟨hp.nodup_iff.mpr (List.nodup_cons.mpr ⟨hnp, hnd⟩), fun q => ?_, ?_⟩
  · rw [hp.mem_iff]; simp
  · rw [hp.length_eq]; simp

theorem core_remove {L L' : List Nat} {p : Nat} (hp : L.Perm (p :: L')) (hnd : L.Nodup) :
    L'.Nodup ∧ (∀ q, q ∈ L' ↔ (q ≠ p ∧ q ∈ L)) ∧ L'.length = L.length - 1 := by
  have h2 := hp.nodup_iff.mp hnd
  rw [List.nodup_cons] at h2
  refine ⟨h2.2, fun q => ?_, ?_⟩
  · rw [hp.mem_iff]; simp only [List.mem_cons]
    constructor
    · intro hq; exact ⟨fun h => h2.1 (h ▸ hq), Or.inr hq⟩
    · rintro ⟨h1, h | h⟩
      · exact absurd h h1
      · exact h
  · rw [hp.length_eq]; simp

/-- the dispatcher of the client side handles a local event -/
theorem req_client_evt (c v : Side) (wcv wvc : List Msg) (ev : Evt) (e' : Ep) (m : Option Msg)
    (c' : Side) (hi : ReqInv c v wcv wvc) (h : handleEvt c.ep ev = some (e', m))
    (hep : c'.ep = e') (hpq : ∀ x ∈ c'.portQ, isConnReq x = false)
    (hperm : (c'.connQ.filter isConnReq).length + (if isConnReq ev then 1 else 0) = (c.connQ.filter isConnReq).length) :
    ReqInv c' v (wcv ++ emitList m) wvc := by
  have hcfg := handleEvt_cfg _ _ _ _ h
  cases hev : isConnReq ev with
  | false =>
    obtain ⟨h1, h2, h3⟩ := handleEvt_client _ _ _ _ h hev
    simp only [hev, Bool.false_eq_true, if_false, Nat.add_zero] at hperm
    have hL : reqWhere v.ep (wcv ++ emitList m) wvc = reqWhere v.ep wcv wvc := by
      simp [reqWhere, reqPorts_append, h3]
    refine ⟨by rw [hL]; exact hi.nodup, fun q => by rw [hL, hep, h1]; exact hi.conn q,
            by rw [hL, hep, h2]; exact hi.pend, by rw [hep, hcfg]; exact hi.cfg, ?_, hpq, hi.outNodup, hi.outMem⟩
    have := hi.perm
    simp only [Side.permits, hep, hcfg, h2, hperm] at this ⊢; omega
  | true =>
    cases ev <;> simp [isConnReq] at hev
    rename_i p w i
    simp only [isConnReq, if_true] at hperm
    obtain ⟨hn, _, _, _, hc⟩ := handleEvt_connectReq _ _ _ _ _ _ h
    rcases hc with ⟨rfl, h1, h2⟩ | ⟨⟨i', rfl⟩, h1, h2⟩
    · have hL : reqWhere v.ep (wcv ++ emitList none) wvc = reqWhere v.ep wcv wvc := by simp [emitList]
      refine ⟨by rw [hL]; exact hi.nodup, fun q => by rw [hL, hep, h1]; exact hi.conn q,
              by rw [hL, hep, h2]; exact hi.pend, by rw [hep, hcfg]; exact hi.cfg, ?_, hpq, hi.outNodup, hi.outMem⟩
      have := hi.perm
      simp only [Side.permits, hep, hcfg, h2] at this ⊢; omega
    · have hnp : p ∉ reqWhere v.ep wcv wvc := by
        intro hin; have := (hi.conn p).mpr hin; rw [hn] at this; simp at this
      have hP : (reqWhere v.ep (wcv ++ emitList (some (Msg.openPort p w i'))) wvc).Perm (p :: reqWhere v.ep wcv wvc) := by
        simp only [reqWhere, emitList, reqPorts_append, reqPorts, List.append_assoc]
        exact List.perm_middle
      obtain ⟨a1, a2, a3⟩ := core_add hP hi.nodup hnp
      refine ⟨a1, fun q => ?_, ?_, by rw [hep, hcfg]; exact hi.cfg, ?_, hpq, hi.outNodup, hi.outMem⟩
      · rw [hep, h1, a2, hi.conn]
      · rw [hep, h2, a3, hi.pend]
      · have := hi.perm
        simp only [Side.permits, hep, hcfg, h2] at this ⊢; omega

theorem isCtl_cases (m : Msg) (h : isCtl m = true) :
    (∃ cp w id, m = .openPort cp w id) ∨ (∃ cp, respPorts [m] = [cp] ∧ reqPorts [m] = []) ∨
    (isOther m = true ∧ respPorts [m] = [] ∧ reqPorts [m] = []) := by
  cases m <;> simp [isCtl, isOther, respPorts, reqPorts] at h ⊢

theorem respPorts_cons (m : Msg) (w : List Msg) : respPorts (m :: w) = respPorts [m] ++ respPorts w := by
  cases m <;> simp [respPorts]
theorem reqPorts_cons (m : Msg) (w : List Msg) : reqPorts (m :: w) = reqPorts [m] ++ reqPorts w := by
  cases m <;> simp [reqPorts]

/-- the client side handles the head of its incoming wire -/
theorem req_client_rx (c v : Side) (wcv rest : List Msg) (m : Msg) (e' : Ep) (em : Emit) (c' : Side)
    (hi : ReqInv c v wcv (m :: rest)) (hm : isCtl m = true) (h : handleRx c.rxView m = .ok (e', em))
    (hep : c'.ep = requeue { e' with listenerDropped := c.ep.listenerDropped } em)
    (hcq : c'.connQ = c.connQ) (hpq : c'.portQ = c.portQ ++ autoEvts em) :
    ReqInv c' v wcv rest := by
  have hports : c'.ep.ports = e'.ports := by rw [hep]; rfl
  have hpend : c'.ep.clientPending = e'.clientPending := by rw [hep]; rfl
  have hcfg : c'.ep.cfg = e'.cfg := by rw [hep]; rfl
  rcases isCtl_cases m hm with ⟨cp, w, id, rfl⟩ | ⟨cp, hr, _⟩ | ⟨ho, hr, _⟩
  · obtain ⟨_, h1, h2, h3, _, h5⟩ := handleRx_openPort _ _ _ _ _ _ h
    have hL : reqWhere v.ep wcv (Msg.openPort cp w id :: rest) = reqWhere v.ep wcv rest := by
      simp [reqWhere, respPorts]
    have hnd := hi.nodup; have hcn := hi.conn; have hpd := hi.pend
    rw [hL] at hnd hcn hpd
    refine ⟨hnd, by rw [hports, h1]; exact hcn, by rw [hpend, h2]; exact hpd,
            by rw [hcfg, h3]; exact hi.cfg, ?_, ?_, hi.outNodup, hi.outMem⟩
    · have := hi.perm
      simp only [Side.permits, hcq, hpend, hcfg, h2, h3] at this ⊢; exact this
    · intro ev hev; rw [hpq] at hev
      rcases List.mem_append.mp hev with h' | h'
      · exact hi.noReqInPortQ ev h'
      · rcases h5 with ⟨_, h6, _⟩ | ⟨_, h6, _⟩ <;> rw [h6] at h' <;> simp at h'
        subst h'; rfl
  · obtain ⟨_, h1, h2, _, _, h3, rfl⟩ := handleRx_response _ _ _ _ _ hr h
    have hP : (reqWhere v.ep wcv (m :: rest)).Perm (cp :: reqWhere v.ep wcv rest) := by
      simp only [reqWhere]; rw [respPorts_cons, hr]
      simp only [List.singleton_append, ← List.append_assoc]
      exact List.perm_middle
    obtain ⟨a1, a2, a3⟩ := core_remove hP hi.nodup
    refine ⟨a1, fun q => ?_, ?_, by rw [hcfg, h3]; exact hi.cfg, ?_, ?_, hi.outNodup, hi.outMem⟩
    · rw [hports, h1, a2]
      have := hi.conn q; simp only [Side.rxView] at this ⊢; rw [this]
    · rw [hpend, h2, a3]; have := hi.pend; simp only [Side.rxView] at this ⊢; rw [this]
    · have := hi.perm
      simp only [Side.permits, hcq, hpend, hcfg, h2, h3, Side.rxView] at this ⊢; omega
    · intro ev hev; rw [hpq] at hev; simp [autoEvts] at hev; exact hi.noReqInPortQ ev hev
  · obtain ⟨h1, h2, _, _, h3, rfl⟩ := handleRx_other _ _ _ _ ho h
    have hL : reqWhere v.ep wcv (m :: rest) = reqWhere v.ep wcv rest := by
      simp only [reqWhere]; rw [respPorts_cons, hr]; rfl
    have hnd := hi.nodup; have hcn := hi.conn; have hpd := hi.pend
    rw [hL] at hnd hcn hpd
    refine ⟨hnd, fun q => by rw [hports, h1]; exact hcn q, by rw [hpend, h2]; exact hpd,
            by rw [hcfg, h3]; exact hi.cfg, ?_, ?_, hi.outNodup, hi.outMem⟩
    · have := hi.perm
      simp only [Side.permits, hcq, hpend, hcfg, h2, h3, Side.rxView] at this ⊢; exact this
    · intro ev hev; rw [hpq] at hev; simp [autoEvts] at hev; exact hi.noReqInPortQ ev hev

theorem autoEvts_noReq (em : List Msg) : ∀ ev ∈ autoEvts em, isConnReq ev = false := by
  induction em with
  | nil => simp [autoEvts]
  | cons m w ih =>
    cases m <;> simp only [autoEvts] <;> try exact ih
    intro ev hev; simp only [List.mem_cons] at hev
    rcases hev with h | h
    · subst h; rfl
    · exact ih ev h

/-- internal labels, client role -/
theorem req_client_int (c c' v : Side) (wcv wvc inW' out : List Msg) (l : Lab)
    (hs : stepSide c wvc l = some (c', inW', out)) (hi : ReqInv c v wcv wvc)
    (hw : ∀ m ∈ wvc, isCtl m = true) (hl : l.internal = true) :
    ReqInv c' v (wcv ++ out) inW' := by
  cases l <;> simp [Lab.internal] at hl <;> simp only [stepSide] at hs
  case dispConn =>
    split at hs
    · split at hs
      · rename_i ev rest hq
        split at hs
        · rename_i e' m he
          simp only [Option.some.injEq, Prod.mk.injEq] at hs
          obtain ⟨rfl, rfl, rfl⟩ := hs
          refine req_client_evt c v wcv _ ev e' m _ hi he rfl hi.noReqInPortQ ?_
          simp only [hq]
          cases hev : isConnReq ev <;> simp [List.filter, hev]
        · simp at hs
      · simp at hs
    · simp at hs
  case dispPort =>
    split at hs
    · split at hs
      · rename_i ev rest hq
        split at hs
        · rename_i e' m he
          simp only [Option.some.injEq, Prod.mk.injEq] at hs
          obtain ⟨rfl, rfl, rfl⟩ := hs
          have hne : isConnReq ev = false := hi.noReqInPortQ ev (by rw [hq]; simp)
          refine req_client_evt c v wcv _ ev e' m _ hi he (by simp) ?_ (by simp [hne])
          intro x hx; simp only [evtHandles_portQ] at hx
          exact hi.noReqInPortQ x (by rw [hq]; simp [hx])
        · simp at hs
      · simp at hs
    · simp at hs
  case dispListener =>
    split at hs
    · split at hs
      · rename_i e' m he
        simp only [Option.some.injEq, Prod.mk.injEq] at hs
        obtain ⟨rfl, rfl, rfl⟩ := hs
        exact req_client_evt c v wcv _ _ e' m _ hi he rfl hi.noReqInPortQ (by simp [isConnReq])
      · simp at hs
    · simp at hs
  case goodbye =>
    split at hs
    · split at hs
      · rename_i e' m he
        simp only [Option.some.injEq, Prod.mk.injEq] at hs
        obtain ⟨rfl, rfl, rfl⟩ := hs
        exact req_client_evt c v wcv _ _ e' m _ hi he rfl hi.noReqInPortQ (by simp [isConnReq])
      · simp at hs
    · simp at hs
  case deliver =>
    split at hs
    · simp at hs
    · split at hs
      · rename_i m rest
        split at hs
        · rename_i e' em he
          simp only [Option.some.injEq, Prod.mk.injEq] at hs
          obtain ⟨rfl, rfl, rfl⟩ := hs
          simp only [List.append_nil]
          exact req_client_rx c v wcv _ m e' em _ hi (hw m (by simp)) he (by simp) (by simp) (by simp)
        · simp at hs
      · simp at hs

end Remoc.Table.Sys
