import RemocModel.Table.ConnOpen
set_option linter.unusedSimpArgs false
set_option linter.unusedVariables false
/-
Connection-level flags, direction x → y over the wire `w` (written by `x`): `ClientFinish`,
`ListenerFinish` and `Goodbye` are sent once each and are either in flight or seen by the peer; no
`OpenPort` follows `ClientFinish`; nothing follows `Goodbye`.
-/
namespace Remoc.Table.Sys
open Remoc.Wire Remoc.Table

structure FlagInv (x y : Ep) (w : List Msg) : Prop where
  cf : w.count .clientFinish + b2n y.remoteClientDropped = b2n x.allClientsDropped
  lf : w.count .listenerFinish + b2n y.remoteListenerDropped = b2n x.listenerDropped
  gb : w.count .goodbye + b2n y.goodbyeReceived = b2n x.goodbyeSent
  acf : okAfterCF w = true
  rcd : y.remoteClientDropped = true → openReqs w = []
  cdq : y.clientDroppedQueued ≤ b2n y.remoteClientDropped
  last : x.goodbyeSent = true → y.goodbyeReceived = false → w.getLast? = some .goodbye
  /-- nothing is left in the wire once the reader has seen `Goodbye` -/
  done : y.goodbyeReceived = true → w = []

theorem openReqs_append (a b : List Msg) : openReqs (a ++ b) = openReqs a ++ openReqs b := by
  induction a with
  | nil => rfl
  | cons m w ih => cases m <;> simp [openReqs, ih]

/-- appending a message keeps "no `OpenPort` after `ClientFinish`" if no `ClientFinish` is in the
wire, or if the message is neither -/
theorem okAfterCF_snoc (w : List Msg) (m : Msg) (h : okAfterCF w = true)
    (hm : w.count .clientFinish = 0 ∨ (openReqs [m] = [] ∧ m ≠ .clientFinish)) :
    okAfterCF (w ++ [m]) = true := by
  induction w with
  | nil => cases m <;> simp [okAfterCF, openReqs]
  | cons a as ih =>
    cases a with
    | clientFinish =>
      rcases hm with hm | ⟨h1, h2⟩
      · simp [List.count_cons] at hm
      · simp only [okAfterCF, Bool.and_eq_true, List.isEmpty_iff, Bool.not_eq_true'] at h ⊢
        simp only [List.cons_append, okAfterCF, Bool.and_eq_true, List.isEmpty_iff, Bool.not_eq_true',
          openReqs_append, h.1, h1, List.append_nil, true_and]
        have := h.2
        cases hc : (as ++ [m]).contains Msg.clientFinish with
        | false => rfl
        | true =>
          simp only [List.contains_iff_mem, List.mem_append, List.mem_singleton] at hc
          rcases hc with hc | hc
          · have : as.contains Msg.clientFinish = true := by simpa using hc
            simp_all
          · exact absurd hc.symm h2
    | _ =>
      simp only [List.cons_append, okAfterCF] at h ⊢
      apply ih h
      rcases hm with hm | hm
      · left; simpa [List.count_cons] using hm
      · right; exact hm

theorem okAfterCF_of_noCF (w : List Msg) (h : w.contains .clientFinish = false) : okAfterCF w = true := by
  induction w with
  | nil => rfl
  | cons a as ih =>
    have h2 : as.contains Msg.clientFinish = false := by
      simp only [List.contains_cons, Bool.or_eq_false_iff] at h; exact h.2
    cases a <;> simp only [okAfterCF] <;> first
      | exact ih h2
      | (simp [List.contains_cons] at h)

theorem okAfterCF_tail (m : Msg) (w : List Msg) (h : okAfterCF (m :: w) = true) : okAfterCF w = true := by
  cases m <;> simp only [okAfterCF] at h <;> try exact h
  simp only [Bool.and_eq_true, List.isEmpty_iff, Bool.not_eq_true'] at h
  exact okAfterCF_of_noCF w h.2

/-- the connection-level flags of an endpoint -/
structure SameFlags (e' e : Ep) : Prop where
  acd : e'.allClientsDropped = e.allClientsDropped
  ld : e'.listenerDropped = e.listenerDropped
  gbs : e'.goodbyeSent = e.goodbyeSent
  rcd : e'.remoteClientDropped = e.remoteClientDropped
  rld : e'.remoteListenerDropped = e.remoteListenerDropped
  gbr : e'.goodbyeReceived = e.goodbyeReceived

theorem maybeFree_sameFlags (e : Ep) (p : Nat) : SameFlags (maybeFree e p) e := by
  unfold maybeFree; (repeat' split) <;> exact ⟨rfl, rfl, rfl, rfl, rfl, rfl⟩
theorem maybeFree_cdq (e : Ep) (p : Nat) : (maybeFree e p).clientDroppedQueued = e.clientDroppedQueued := by
  unfold maybeFree; (repeat' split) <;> rfl

@[simp] theorem mf_acd (e : Ep) (p : Nat) : (maybeFree e p).allClientsDropped = e.allClientsDropped := (maybeFree_sameFlags e p).acd
@[simp] theorem mf_ld (e : Ep) (p : Nat) : (maybeFree e p).listenerDropped = e.listenerDropped := (maybeFree_sameFlags e p).ld
@[simp] theorem mf_gbs (e : Ep) (p : Nat) : (maybeFree e p).goodbyeSent = e.goodbyeSent := (maybeFree_sameFlags e p).gbs
@[simp] theorem mf_rcd (e : Ep) (p : Nat) : (maybeFree e p).remoteClientDropped = e.remoteClientDropped := (maybeFree_sameFlags e p).rcd
@[simp] theorem mf_rld (e : Ep) (p : Nat) : (maybeFree e p).remoteListenerDropped = e.remoteListenerDropped := (maybeFree_sameFlags e p).rld
@[simp] theorem mf_gbr (e : Ep) (p : Nat) : (maybeFree e p).goodbyeReceived = e.goodbyeReceived := (maybeFree_sameFlags e p).gbr
@[simp] theorem mf_cdq (e : Ep) (p : Nat) : (maybeFree e p).clientDroppedQueued = e.clientDroppedQueued := maybeFree_cdq e p

/-- a message that is none of `OpenPort`, `ClientFinish`, `ListenerFinish`, `Goodbye` -/
def isPlainMsg : Msg → Bool
  | .openPort _ _ _ | .clientFinish | .listenerFinish | .goodbye => false
  | _ => true

theorem handleEvt_flags (e e' : Ep) (ev : Evt) (m : Option Msg) (h : handleEvt e ev = some (e', m)) :
    (SameFlags e' e ∧ e'.clientDroppedQueued = e.clientDroppedQueued ∧
      ∀ msg ∈ emitList m, (isPlainMsg msg = true ∨ (isConnReq ev = true ∧ ∃ p w i, msg = .openPort p w i))) ∨
    (ev = .allClientsDropped ∧ e.allClientsDropped = false ∧ e' = { e with allClientsDropped := true } ∧ m = some .clientFinish) ∨
    (ev = .listenerDropped ∧ e.listenerDropped = false ∧
      e' = { e with listenerDropped := true, listenQ := [], clientDroppedQueued := 0 } ∧ m = some .listenerFinish) ∨
    (ev = .sendGoodbye ∧ e.goodbyeSent = false ∧ e' = { e with goodbyeSent := true } ∧ m = some .goodbye) := by
  cases ev with
  | allClientsDropped =>
    simp only [handleEvt] at h
    split at h
    · simp at h
    · rename_i hg
      simp only [Option.some.injEq, Prod.mk.injEq] at h; obtain ⟨rfl, rfl⟩ := h
      exact Or.inr (Or.inl ⟨rfl, by simpa using hg, rfl, rfl⟩)
  | listenerDropped =>
    simp only [handleEvt] at h
    split at h
    · simp at h
    · rename_i hg
      simp only [Option.some.injEq, Prod.mk.injEq] at h; obtain ⟨rfl, rfl⟩ := h
      exact Or.inr (Or.inr (Or.inl ⟨rfl, by simpa using hg, rfl, rfl⟩))
  | sendGoodbye =>
    simp only [handleEvt] at h
    split at h
    · simp at h
    · rename_i hg
      simp only [Option.some.injEq, Prod.mk.injEq] at h; obtain ⟨rfl, rfl⟩ := h
      exact Or.inr (Or.inr (Or.inr ⟨rfl, by simpa using hg, rfl, rfl⟩))
  | connectReq p w i =>
    left
    simp only [handleEvt] at h
    (repeat' split at h) <;> first
      | (simp at h; done)
      | (simp only [Option.some.injEq, Prod.mk.injEq] at h; obtain ⟨rfl, rfl⟩ := h
         refine ⟨⟨rfl, rfl, rfl, rfl, rfl, rfl⟩, rfl, ?_⟩
         intro msg hm; simp [emitList, forPeer] at hm
         try (subst hm; right; exact ⟨rfl, _, _, _, rfl⟩))
  | senderDropped p =>
    left
    simp only [handleEvt] at h
    (repeat' split at h) <;> first
      | (simp at h; done)
      | (simp only [Option.some.injEq, Prod.mk.injEq] at h; obtain ⟨rfl, rfl⟩ := h
         obtain ⟨a, b, c, d, e, f⟩ := maybeFree_sameFlags { e with ports := setPort e.ports p _ } p
         refine ⟨⟨a, b, c, d, e, f⟩, maybeFree_cdq _ _, ?_⟩
         intro msg hm; simp [emitList] at hm; subst hm; left; rfl)
  | receiverDropped p =>
    left
    simp only [handleEvt] at h
    (repeat' split at h) <;> first
      | (simp at h; done)
      | (simp only [Option.some.injEq, Prod.mk.injEq] at h; obtain ⟨rfl, rfl⟩ := h
         obtain ⟨a, b, c, d, e, f⟩ := maybeFree_sameFlags { e with ports := setPort e.ports p _ } p
         refine ⟨⟨a, b, c, d, e, f⟩, maybeFree_cdq _ _, ?_⟩
         intro msg hm; simp [emitList] at hm; subst hm; left; rfl)
  | _ =>
    left
    simp only [handleEvt] at h
    (repeat' split at h) <;> first
      | (simp at h; done)
      | (simp only [Option.some.injEq, Prod.mk.injEq] at h; obtain ⟨rfl, rfl⟩ := h
         refine ⟨⟨rfl, rfl, rfl, rfl, rfl, rfl⟩, rfl, ?_⟩
         intro msg hm; simp [emitList] at hm; subst hm; left; rfl)

theorem plain_counts (msg : Msg) (h : isPlainMsg msg = true ∨ ∃ p w i, msg = .openPort p w i) :
    [msg].count .clientFinish = 0 ∧ [msg].count .listenerFinish = 0 ∧ [msg].count .goodbye = 0 := by
  rcases h with h | ⟨p, w, i, rfl⟩
  · cases msg <;> simp [isPlainMsg] at h <;> simp [List.count_cons]
  · simp [List.count_cons]

theorem plain_noOpen (msg : Msg) (h : isPlainMsg msg = true) : openReqs [msg] = [] ∧ msg ≠ .clientFinish := by
  cases msg <;> simp [isPlainMsg] at h <;> simp [openReqs]

/-- writer side handles a local event (only while it has not said `Goodbye`) -/
theorem flag_x_evt (x x' y : Ep) (w : List Msg) (ev : Evt) (m : Option Msg)
    (he : handleEvt x ev = some (x', m)) (h : FlagInv x y w) (hgs : x.goodbyeSent = false)
    (hreq : isConnReq ev = true → x.allClientsDropped = false) :
    FlagInv x' y (w ++ emitList m) := by
  have hgr : y.goodbyeReceived = false := by
    have := h.gb; rw [hgs] at this
    cases hr : y.goodbyeReceived with
    | false => rfl
    | true => simp [hr, b2n] at this
  have hdone : ∀ w' : List Msg, y.goodbyeReceived = true → w' = [] := fun w' hd => by rw [hgr] at hd; simp at hd
  rcases handleEvt_flags x x' ev m he with ⟨sf, _, hm⟩ | ⟨rfl, h1, rfl, rfl⟩ | ⟨rfl, h1, rfl, rfl⟩ | ⟨rfl, h1, rfl, rfl⟩
  · cases m with
    | none =>
      simp only [emitList, List.append_nil]
      exact ⟨by rw [sf.acd]; exact h.cf, by rw [sf.ld]; exact h.lf, by rw [sf.gbs]; exact h.gb, h.acf, h.rcd, h.cdq,
             by rw [sf.gbs]; exact h.last, h.done⟩
    | some msg =>
      have hmsg := hm msg (by simp [emitList])
      have hpl : isPlainMsg msg = true ∨ ∃ p w i, msg = .openPort p w i := by
        rcases hmsg with h' | ⟨_, h'⟩
        · exact Or.inl h'
        · exact Or.inr h'
      obtain ⟨c1, c2, c3⟩ := plain_counts msg hpl
      simp only [emitList]
      refine ⟨?_, ?_, ?_, ?_, ?_, h.cdq, ?_, hdone _⟩
      · rw [List.count_append, c1, sf.acd]; exact h.cf
      · rw [List.count_append, c2, sf.ld]; exact h.lf
      · rw [List.count_append, c3, sf.gbs]; exact h.gb
      · apply okAfterCF_snoc w msg h.acf
        rcases hmsg with h' | ⟨hc, _⟩
        · exact Or.inr (plain_noOpen msg h')
        · left; have := h.cf; rw [hreq hc] at this; simp only [b2n] at this; simp at this; omega
      · intro hr
        rw [openReqs_append, h.rcd hr]
        rcases hmsg with h' | ⟨hc, _⟩
        · simp [(plain_noOpen msg h').1]
        · have := h.cf; rw [hreq hc, hr] at this; simp [b2n] at this
      · intro hs; rw [sf.gbs, hgs] at hs; simp at hs
  · have hcf := h.cf; rw [h1] at hcf; simp only [b2n] at hcf
    have hc0 : w.count Msg.clientFinish = 0 := by
      cases hr : y.remoteClientDropped <;> simp [hr] at hcf <;> omega
    have hr0 : y.remoteClientDropped = false := by
      cases hr : y.remoteClientDropped with
      | false => rfl
      | true => simp [hr] at hcf
    simp only [emitList]
    refine ⟨?_, ?_, ?_, okAfterCF_snoc w _ h.acf (Or.inl hc0), fun hr => by rw [hr0] at hr; simp at hr, h.cdq, ?_, hdone _⟩
    · simp [List.count_append, hc0, hr0, b2n]
    · simpa [List.count_append] using h.lf
    · simpa [List.count_append] using h.gb
    · intro hs; exact absurd hs (by simp [hgs])
  · have hlf := h.lf; rw [h1] at hlf; simp only [b2n] at hlf
    have hc0 : w.count Msg.listenerFinish = 0 := by
      cases hr : y.remoteListenerDropped <;> simp [hr] at hlf <;> omega
    have hr0 : y.remoteListenerDropped = false := by
      cases hr : y.remoteListenerDropped with
      | false => rfl
      | true => simp [hr] at hlf
    simp only [emitList]
    refine ⟨?_, ?_, ?_, okAfterCF_snoc w _ h.acf (Or.inr ⟨rfl, by simp⟩), ?_, h.cdq, ?_, hdone _⟩
    · simpa [List.count_append] using h.cf
    · simp [List.count_append, hc0, hr0, b2n]
    · simpa [List.count_append] using h.gb
    · intro hr; rw [openReqs_append, h.rcd hr]; rfl
    · intro hs; exact absurd hs (by simp [hgs])
  · have hgb := h.gb; rw [h1] at hgb; simp only [b2n] at hgb
    have hc0 : w.count Msg.goodbye = 0 := by
      cases hr : y.goodbyeReceived <;> simp [hr] at hgb <;> omega
    have hr0 : y.goodbyeReceived = false := by
      cases hr : y.goodbyeReceived with
      | false => rfl
      | true => simp [hr] at hgb
    simp only [emitList]
    refine ⟨?_, ?_, ?_, okAfterCF_snoc w _ h.acf (Or.inr ⟨rfl, by simp⟩), ?_, h.cdq, ?_, hdone _⟩
    · simpa [List.count_append] using h.cf
    · simpa [List.count_append] using h.lf
    · simp [List.count_append, hc0, hr0, b2n]
    · intro hr; rw [openReqs_append, h.rcd hr]; rfl
    · intro _ _; simp

/-- reader side handles a local event: what it has seen of the peer does not change -/
theorem flag_y_evt (x y y' : Ep) (w : List Msg) (ev : Evt) (m : Option Msg)
    (he : handleEvt y ev = some (y', m)) (h : FlagInv x y w) : FlagInv x y' w := by
  have key : y'.remoteClientDropped = y.remoteClientDropped ∧ y'.remoteListenerDropped = y.remoteListenerDropped ∧
      y'.goodbyeReceived = y.goodbyeReceived ∧ y'.clientDroppedQueued ≤ y.clientDroppedQueued := by
    rcases handleEvt_flags y y' ev m he with ⟨sf, hq, _⟩ | ⟨_, _, rfl, _⟩ | ⟨_, _, rfl, _⟩ | ⟨_, _, rfl, _⟩
    · exact ⟨sf.rcd, sf.rld, sf.gbr, by rw [hq]; exact Nat.le_refl _⟩
    · exact ⟨rfl, rfl, rfl, Nat.le_refl _⟩
    · exact ⟨rfl, rfl, rfl, Nat.zero_le _⟩
    · exact ⟨rfl, rfl, rfl, Nat.le_refl _⟩
  obtain ⟨k1, k2, k3, k4⟩ := key
  exact ⟨by rw [k1]; exact h.cf, by rw [k2]; exact h.lf, by rw [k3]; exact h.gb, h.acf, by rw [k1]; exact h.rcd,
         by rw [k1]; exact Nat.le_trans k4 h.cdq, by rw [k3]; exact h.last, by rw [k3]; exact h.done⟩

/-- what a delivered control message does to the connection-level flags -/
theorem handleRx_flags (e e' : Ep) (m : Msg) (em : Emit) (h : handleRx e m = .ok (e', em)) (hctl : isCtl m = true) :
    e'.allClientsDropped = e.allClientsDropped ∧ e'.listenerDropped = e.listenerDropped ∧ e'.goodbyeSent = e.goodbyeSent ∧
    e'.remoteClientDropped = (e.remoteClientDropped || m == .clientFinish) ∧
    e'.remoteListenerDropped = (e.remoteListenerDropped || m == .listenerFinish) ∧
    e'.goodbyeReceived = (e.goodbyeReceived || m == .goodbye) ∧
    e'.clientDroppedQueued ≤ e.clientDroppedQueued + (if m = .clientFinish then 1 else 0) := by
  cases m with
  | openPort cp wt id =>
    simp only [handleRx] at h
    (repeat' split at h) <;> first
      | (simp at h; done)
      | (simp only [Except.ok.injEq, Prod.mk.injEq] at h; obtain ⟨rfl, _⟩ := h; simp)
  | portOpened cp sp =>
    simp only [handleRx] at h
    (repeat' split at h) <;> first
      | (simp at h; done)
      | (simp only [Except.ok.injEq, Prod.mk.injEq] at h; obtain ⟨rfl, _⟩ := h; simp)
  | rejected cp np =>
    simp only [handleRx] at h
    (repeat' split at h) <;> first
      | (simp at h; done)
      | (simp only [Except.ok.injEq, Prod.mk.injEq] at h; obtain ⟨rfl, _⟩ := h; simp)
  | sendFinish p =>
    simp only [handleRx] at h
    (repeat' split at h) <;> first
      | (simp at h; done)
      | (simp only [Except.ok.injEq, Prod.mk.injEq] at h; obtain ⟨rfl, _⟩ := h; simp)
  | receiveClose p =>
    simp only [handleRx] at h
    (repeat' split at h) <;> first
      | (simp at h; done)
      | (simp only [Except.ok.injEq, Prod.mk.injEq] at h; obtain ⟨rfl, _⟩ := h; simp)
  | receiveFinish p =>
    simp only [handleRx] at h
    (repeat' split at h) <;> first
      | (simp at h; done)
      | (simp only [Except.ok.injEq, Prod.mk.injEq] at h; obtain ⟨rfl, _⟩ := h; simp)
  | clientFinish =>
    simp only [handleRx] at h
    (repeat' split at h) <;> first
      | (simp at h; done)
      | (simp only [Except.ok.injEq, Prod.mk.injEq] at h; obtain ⟨rfl, _⟩ := h; simp)
  | listenerFinish =>
    simp only [handleRx, Except.ok.injEq, Prod.mk.injEq] at h; obtain ⟨rfl, _⟩ := h; simp
  | goodbye =>
    simp only [handleRx, Except.ok.injEq, Prod.mk.injEq] at h; obtain ⟨rfl, _⟩ := h; simp
  | _ => simp [isCtl, isOther] at hctl

theorem getLast_tail (m : Msg) (rest : List Msg) (g : Msg) (h : (m :: rest).getLast? = some g) (hm : m ≠ g) :
    rest.getLast? = some g := by
  cases rest with
  | nil => simp at h; exact absurd h hm
  | cons a as => simpa [List.getLast?_cons_cons] using h

theorem count_cons_self_or (m g : Msg) (rest : List Msg) :
    (m :: rest).count g = rest.count g + (if m = g then 1 else 0) := by
  by_cases h : m = g
  · subst h; simp
  · have : ¬ (m == g) = true := by simpa using h
    simp [List.count_cons, h, this]

/-- reader side takes the head of the wire -/
theorem flag_y_rx (x y y0 y' : Ep) (rest : List Msg) (m : Msg) (em : Emit)
    (he : handleRx y0 m = .ok (y', em)) (hctl : isCtl m = true) (h : FlagInv x y (m :: rest))
    (h0 : y0.remoteClientDropped = y.remoteClientDropped ∧ y0.remoteListenerDropped = y.remoteListenerDropped ∧
      y0.goodbyeReceived = y.goodbyeReceived ∧ y0.clientDroppedQueued = y.clientDroppedQueued)
    (y'' : Ep)
    (h2 : y''.remoteClientDropped = y'.remoteClientDropped ∧ y''.remoteListenerDropped = y'.remoteListenerDropped ∧
      y''.goodbyeReceived = y'.goodbyeReceived ∧ y''.clientDroppedQueued = y'.clientDroppedQueued) :
    FlagInv x y'' rest := by
  obtain ⟨_, _, _, f4, f5, f6, f7⟩ := handleRx_flags y0 y' m em he hctl
  obtain ⟨a1, a2, a3, a4⟩ := h0
  obtain ⟨b1, b2, b3, b4⟩ := h2
  have hcf := h.cf; have hlf := h.lf; have hgb := h.gb
  rw [count_cons_self_or] at hcf hlf hgb
  refine ⟨?_, ?_, ?_, okAfterCF_tail m rest h.acf, ?_, ?_, ?_, ?_⟩
  · rw [b1, f4, a1]
    by_cases hm : m = .clientFinish
    · subst hm; simp only [if_true, b2n] at hcf ⊢
      cases hr : y.remoteClientDropped <;> cases hx : x.allClientsDropped <;> simp [hr, hx] at hcf ⊢ <;> omega
    · have : (m == Msg.clientFinish) = false := by simpa using hm
      simp only [hm, if_false, Nat.add_zero] at hcf; simp [this]; exact hcf
  · rw [b2, f5, a2]
    by_cases hm : m = .listenerFinish
    · subst hm; simp only [if_true, b2n] at hlf ⊢
      cases hr : y.remoteListenerDropped <;> cases hx : x.listenerDropped <;> simp [hr, hx] at hlf ⊢ <;> omega
    · have : (m == Msg.listenerFinish) = false := by simpa using hm
      simp only [hm, if_false, Nat.add_zero] at hlf; simp [this]; exact hlf
  · rw [b3, f6, a3]
    by_cases hm : m = .goodbye
    · subst hm; simp only [if_true, b2n] at hgb ⊢
      cases hr : y.goodbyeReceived <;> cases hx : x.goodbyeSent <;> simp [hr, hx] at hgb ⊢ <;> omega
    · have : (m == Msg.goodbye) = false := by simpa using hm
      simp only [hm, if_false, Nat.add_zero] at hgb; simp [this]; exact hgb
  · rw [b1, f4, a1]; intro hr
    by_cases hm : m = .clientFinish
    · subst hm
      have := h.acf; simp only [okAfterCF, Bool.and_eq_true, List.isEmpty_iff] at this; exact this.1
    · have hne : (m == Msg.clientFinish) = false := by simpa using hm
      simp only [hne, Bool.or_false] at hr
      have := h.rcd hr
      cases m <;> simp [openReqs] at this ⊢ <;> exact this
  · rw [b4, b1, f4, a1]
    have hq := h.cdq
    by_cases hm : m = .clientFinish
    · subst hm
      simp only [if_true, b2n] at hcf
      have hr0 : y.remoteClientDropped = false := by
        cases hr : y.remoteClientDropped with
        | false => rfl
        | true => cases hx : x.allClientsDropped <;> simp [hr, hx] at hcf <;> omega
      rw [hr0] at hq; simp [b2n] at hq
      simp only [if_true, a4] at f7; simp [b2n]; omega
    · have hne : (m == Msg.clientFinish) = false := by simpa using hm
      simp only [hm, if_false, Nat.add_zero, a4] at f7
      simp only [hne, Bool.or_false]; exact Nat.le_trans f7 hq
  · intro hs hr
    rw [b3, f6, a3] at hr
    have hm : m ≠ .goodbye := by intro hm; subst hm; simp at hr
    have hr' : y.goodbyeReceived = false := by
      cases h' : y.goodbyeReceived with
      | false => rfl
      | true => simp [h'] at hr
    exact getLast_tail m rest _ (h.last hs hr') hm
  · intro hr
    rw [b3, f6, a3] at hr
    cases hy : y.goodbyeReceived with
    | true => have := h.done hy; simp at this
    | false =>
      simp only [hy, Bool.false_or, beq_iff_eq] at hr
      subst hr
      simp only [if_true, hy, b2n] at hgb
      have hxs : x.goodbyeSent = true := by
        cases hx : x.goodbyeSent with
        | true => rfl
        | false => simp [hx] at hgb
      have hl := h.last hxs hy
      simp only [hxs, if_true, Bool.false_eq_true, if_false, Nat.add_zero] at hgb
      cases rest with
      | nil => rfl
      | cons a as =>
        exfalso
        have h2 : (a :: as).getLast? = some Msg.goodbye := by simpa [List.getLast?_cons_cons] using hl
        have hin : Msg.goodbye ∈ a :: as := List.mem_of_getLast? h2
        have : 0 < (a :: as).count Msg.goodbye := List.count_pos_iff.mpr hin
        omega

/-- writer side handles a message from the other wire: its own flags do not change -/
theorem flag_x_rx (x x0 x' x'' y : Ep) (w : List Msg) (m : Msg) (em : Emit)
    (he : handleRx x0 m = .ok (x', em)) (hctl : isCtl m = true) (h : FlagInv x y w)
    (h0 : x0.allClientsDropped = x.allClientsDropped ∧ x0.goodbyeSent = x.goodbyeSent)
    (h2 : x''.allClientsDropped = x'.allClientsDropped ∧ x''.goodbyeSent = x'.goodbyeSent ∧
      x''.listenerDropped = x.listenerDropped) : FlagInv x'' y w := by
  obtain ⟨f1, _, f3, _⟩ := handleRx_flags x0 x' m em he hctl
  exact ⟨by rw [h2.1, f1, h0.1]; exact h.cf, by rw [h2.2.2]; exact h.lf, by rw [h2.2.1, f3, h0.2]; exact h.gb,
         h.acf, h.rcd, h.cdq, by rw [h2.2.1, f3, h0.2]; exact h.last, h.done⟩

/-! ### one side: the `Client` handles and the end of the connect queue -/

structure ClientInv (s : Side) : Prop where
  /-- once the dispatcher has seen that all clients are gone, nothing is left in `connect_rx` -/
  done : s.ep.allClientsDropped = true → s.connQ = []
  alive : s.clientsAlive = true → Evt.allClientsDropped ∉ s.connQ ∧ s.ep.allClientsDropped = false
  /-- `AllClientsDropped` is the end of the queue -/
  last : ∀ pre post, s.connQ = pre ++ Evt.allClientsDropped :: post → post = []
  /-- the drop of the last `Client` is not lost -/
  gone : s.clientsAlive = false → Evt.allClientsDropped ∈ s.connQ ∨ s.ep.allClientsDropped = true

theorem clientInv_init (e : Ep) (h : e.allClientsDropped = false) : ClientInv { ep := e } :=
  ⟨fun h' => rfl, fun _ => ⟨by simp, h⟩, fun pre post h' => by simp at h', fun h' => by simp at h'⟩

theorem append_eq_split {α} (l : List α) (x m : α) (pre post : List α) (h : l ++ [x] = pre ++ m :: post) :
    (post = [] ∧ m = x ∧ pre = l) ∨ (∃ post', post = post' ++ [x] ∧ l = pre ++ m :: post') := by
  induction pre generalizing l with
  | nil =>
    cases l with
    | nil => simp at h; left; exact ⟨h.2, h.1.symm, rfl⟩
    | cons a as =>
      simp at h
      right; exact ⟨as, h.2.symm, by simp [h.1]⟩
  | cons p ps ih =>
    cases l with
    | nil => simp at h
    | cons a as =>
      simp at h
      obtain ⟨h1, h2⟩ := h
      rcases ih as h2 with ⟨hp, hm, hpre⟩ | ⟨post', hp, hl⟩
      · left; exact ⟨hp, hm, by rw [h1, hpre]⟩
      · right; exact ⟨post', hp, by rw [h1, hl]; rfl⟩

theorem handleEvt_acd (e e' : Ep) (ev : Evt) (m : Option Msg) (h : handleEvt e ev = some (e', m)) :
    e'.allClientsDropped = (e.allClientsDropped || ev == .allClientsDropped) := by
  cases ev <;> simp only [handleEvt] at h <;> (repeat' split at h) <;>
    first
    | (simp at h; done)
    | (simp only [Option.some.injEq, Prod.mk.injEq] at h; obtain ⟨rfl, _⟩ := h; simp)

theorem clientInv_congr (s s' : Side) (h : ClientInv s) (hq : s'.connQ = s.connQ)
    (hc : s'.clientsAlive = s.clientsAlive) (ha : s'.ep.allClientsDropped = s.ep.allClientsDropped) : ClientInv s' :=
  ⟨by rw [ha, hq]; exact h.done, by rw [hc, hq, ha]; exact h.alive, by rw [hq]; exact h.last,
   by rw [hc, hq, ha]; exact h.gone⟩

@[simp] theorem rxHandles_clientsAlive (s : Side) (m : Msg) : (rxHandles s m).clientsAlive = s.clientsAlive := by
  cases m <;> rfl
@[simp] theorem evtHandles_clientsAlive (s : Side) (ev : Evt) : (evtHandles s ev).clientsAlive = s.clientsAlive := by
  cases ev <;> rfl

theorem clientInv_evt (s s' : Side) (ev : Evt) (e' : Ep) (m : Option Msg) (h : ClientInv s)
    (he : handleEvt s.ep ev = some (e', m)) (hep : s'.ep = e') (hne : ev ≠ .allClientsDropped)
    (hq : s'.connQ = s.connQ) (hc : s'.clientsAlive = s.clientsAlive) : ClientInv s' := by
  have ha : s'.ep.allClientsDropped = s.ep.allClientsDropped := by
    rw [hep, handleEvt_acd _ _ _ _ he]
    have : (ev == Evt.allClientsDropped) = false := by simpa using hne
    simp [this]
  exact ⟨by rw [ha, hq]; exact h.done, by rw [hc, hq, ha]; exact h.alive, by rw [hq]; exact h.last,
         by rw [hc, hq, ha]; exact h.gone⟩

theorem clientInv_step (s s' : Side) (inW inW' out : List Msg) (l : Lab)
    (hs : stepSide s inW l = some (s', inW', out)) (h : ClientInv s) (hq : QType s)
    (hw : ∀ m ∈ inW, isCtl m = true) : ClientInv s' := by
  cases l <;> simp only [stepSide] at hs
  case startConnect p w =>
    split at hs
    · rename_i hg
      simp only [Option.some.injEq, Prod.mk.injEq] at hs; obtain ⟨rfl, _, _⟩ := hs
      simp only [Bool.and_eq_true] at hg
      obtain ⟨h1, h2⟩ := h.alive hg.1.1
      refine ⟨fun h' => by rw [h2] at h'; simp at h', fun _ => ⟨?_, h2⟩, fun pre post hsp => ?_,
              fun h' => by rw [hg.1.1] at h'; simp at h'⟩
      · simp [h1]
      · rcases append_eq_split _ _ _ _ _ hsp with ⟨hp, _, _⟩ | ⟨post', _, hl⟩
        · exact hp
        · exact absurd (by rw [hl]; simp) h1
    · simp at hs
  case dropClients =>
    split at hs
    · rename_i hg
      simp only [Option.some.injEq, Prod.mk.injEq] at hs; obtain ⟨rfl, _, _⟩ := hs
      obtain ⟨h1, h2⟩ := h.alive hg
      refine ⟨fun h' => by rw [h2] at h'; simp at h', fun h' => by simp at h', fun pre post hsp => ?_,
              fun _ => Or.inl (by simp)⟩
      rcases append_eq_split _ _ _ _ _ hsp with ⟨hp, _, _⟩ | ⟨post', _, hl⟩
      · exact hp
      · exact absurd (by rw [hl]; simp) h1
    · simp at hs
  case dispConn =>
    (repeat' split at hs) <;> first
      | (simp at hs; done)
      | (rename_i ev rest hq' _ e' m he
         simp only [Option.some.injEq, Prod.mk.injEq] at hs; obtain ⟨rfl, _, _⟩ := hs
         have ha := handleEvt_acd _ _ _ _ he
         have hnd : s.ep.allClientsDropped = false := by
           cases hx : s.ep.allClientsDropped with
           | false => rfl
           | true => have := h.done hx; rw [hq'] at this; simp at this
         refine ⟨fun h' => ?_, fun h' => ?_, fun pre post hsp => ?_, fun h' => ?_⟩
         · simp only [ha, hnd, Bool.false_or, beq_iff_eq] at h'
           subst h'; exact h.last [] rest (by rw [hq']; rfl)
         · obtain ⟨h1, _⟩ := h.alive h'
           rw [hq'] at h1
           refine ⟨fun hin => h1 (by simp [hin]), ?_⟩
           simp only [ha, hnd, Bool.false_or, beq_eq_false_iff_ne, ne_eq]
           intro hev; apply h1; simp [hev]
         · have hsp' : rest = pre ++ Evt.allClientsDropped :: post := hsp
           exact h.last (ev :: pre) post (by rw [hq', hsp']; rfl)
         · rcases h.gone h' with hg' | hg'
           · rw [hq'] at hg'
             rcases List.mem_cons.mp hg' with hg' | hg'
             · right; rw [ha, ← hg']; simp
             · exact Or.inl hg'
           · rw [hnd] at hg'; simp at hg')
  case dispPort =>
    (repeat' split at hs) <;> first
      | (simp at hs; done)
      | (rename_i ev rest hq' _ e' m he
         simp only [Option.some.injEq, Prod.mk.injEq] at hs; obtain ⟨rfl, _, _⟩ := hs
         have hpe := hq.port ev (by rw [hq']; simp)
         exact clientInv_evt s _ ev e' m h he (by simp) (by intro h'; subst h'; simp [isPortEvt] at hpe) (by simp)
           (by simp))
  case dispListener =>
    (repeat' split at hs) <;> first
      | (simp at hs; done)
      | (rename_i _ e' m he
         simp only [Option.some.injEq, Prod.mk.injEq] at hs; obtain ⟨rfl, _, _⟩ := hs
         exact clientInv_evt s _ _ e' m h he rfl (by simp) rfl rfl)
  case goodbye =>
    (repeat' split at hs) <;> first
      | (simp at hs; done)
      | (rename_i _ e' m he
         simp only [Option.some.injEq, Prod.mk.injEq] at hs; obtain ⟨rfl, _, _⟩ := hs
         exact clientInv_evt s _ _ e' m h he rfl (by simp) rfl rfl)
  case deliver =>
    (repeat' split at hs) <;> first
      | (simp at hs; done)
      | (rename_i m rest _ e' em he
         simp only [Option.some.injEq, Prod.mk.injEq] at hs; obtain ⟨rfl, _, _⟩ := hs
         obtain ⟨f1, _⟩ := handleRx_flags _ _ _ _ he (hw m (by simp))
         exact clientInv_congr s _ h (by simp) (by simp) (by simp only [rxHandles_ep]; exact f1))
  all_goals
    (repeat' split at hs) <;> first
      | (simp at hs; done)
      | (simp only [Option.some.injEq, Prod.mk.injEq] at hs; obtain ⟨rfl, _, _⟩ := hs
         exact ⟨h.done, h.alive, h.last, h.gone⟩)

/-- the three kinds of steps of a side, with what the flag layer needs -/
theorem stepSide_flags (s s' : Side) (inW inW' out : List Msg) (l : Lab)
    (h : stepSide s inW l = some (s', inW', out)) (hq : QType s) (hc : ClientInv s) :
    (s'.ep.ports = s.ep.ports ∧ SameFlags s'.ep s.ep ∧ s'.ep.clientDroppedQueued ≤ s.ep.clientDroppedQueued ∧ inW' = inW ∧ out = []) ∨
    (∃ ev m, handleEvt s.ep ev = some (s'.ep, m) ∧ out = emitList m ∧ inW' = inW ∧ s.ep.goodbyeSent = false ∧
      (isConnReq ev = true → s.ep.allClientsDropped = false)) ∨
    (∃ m e' em, inW = m :: inW' ∧ out = [] ∧ handleRx s.rxView m = .ok (e', em) ∧
      s'.ep = requeue { e' with listenerDropped := s.ep.listenerDropped } em) := by
  cases l <;> simp only [stepSide] at h
  case dispConn =>
    (repeat' split at h) <;> first
      | (simp at h; done)
      | (rename_i hd _ ev rest hq' _ e' m he
         simp only [Option.some.injEq, Prod.mk.injEq] at h; obtain ⟨rfl, rfl, rfl⟩ := h
         refine Or.inr (Or.inl ⟨ev, m, he, rfl, rfl, by simpa [Side.dispatching] using hd, fun _ => ?_⟩)
         cases hx : s.ep.allClientsDropped with
         | false => rfl
         | true => have := hc.done hx; rw [hq'] at this; simp at this)
  case dispPort =>
    (repeat' split at h) <;> first
      | (simp at h; done)
      | (rename_i hd _ ev rest hq' _ e' m he
         simp only [Option.some.injEq, Prod.mk.injEq] at h; obtain ⟨rfl, rfl, rfl⟩ := h
         refine Or.inr (Or.inl ⟨ev, m, by simpa using he, rfl, rfl, by simpa [Side.dispatching] using hd, fun hr => ?_⟩)
         have := isPortEvt_noReq ev (hq.port ev (by rw [hq']; simp)); rw [this] at hr; simp at hr)
  case dispListener =>
    (repeat' split at h) <;> first
      | (simp at h; done)
      | (rename_i hd _ e' m he
         simp only [Option.some.injEq, Prod.mk.injEq] at h; obtain ⟨rfl, rfl, rfl⟩ := h
         simp only [Bool.and_eq_true] at hd
         exact Or.inr (Or.inl ⟨_, m, he, rfl, rfl, by simpa [Side.dispatching] using hd.1.1, fun hr => by simp [isConnReq] at hr⟩))
  case goodbye =>
    (repeat' split at h) <;> first
      | (simp at h; done)
      | (rename_i hd _ e' m he
         simp only [Option.some.injEq, Prod.mk.injEq] at h; obtain ⟨rfl, rfl, rfl⟩ := h
         simp only [Bool.and_eq_true] at hd
         exact Or.inr (Or.inl ⟨_, m, he, rfl, rfl, by simpa [Side.dispatching] using hd.1, fun hr => by simp [isConnReq] at hr⟩))
  case deliver =>
    (repeat' split at h) <;> first
      | (simp at h; done)
      | (rename_i m rest _ e' em he
         simp only [Option.some.injEq, Prod.mk.injEq] at h; obtain ⟨rfl, rfl, rfl⟩ := h
         exact Or.inr (Or.inr ⟨m, e', em, rfl, rfl, he, by simp⟩))
  case dropListener =>
    (repeat' split at h) <;> first
      | (simp at h; done)
      | (simp only [Option.some.injEq, Prod.mk.injEq] at h; obtain ⟨rfl, rfl, rfl⟩ := h
         exact Or.inl ⟨rfl, ⟨rfl, rfl, rfl, rfl, rfl, rfl⟩, Nat.zero_le _, rfl, rfl⟩)
  all_goals
    (repeat' split at h) <;> first
      | (simp at h; done)
      | (simp only [Option.some.injEq, Prod.mk.injEq] at h; obtain ⟨rfl, rfl, rfl⟩ := h
         exact Or.inl ⟨rfl, ⟨rfl, rfl, rfl, rfl, rfl, rfl⟩, Nat.le_refl _, rfl, rfl⟩)

/-- one side steps: both flag invariants it takes part in are preserved -/
theorem flag_step_side (x y x' : Side) (wxy wyx inW' out : List Msg) (l : Lab)
    (hs : stepSide x wyx l = some (x', inW', out))
    (F1 : FlagInv x.ep y.ep wxy) (F2 : FlagInv y.ep x.ep wyx) (hq : QType x) (hc : ClientInv x)
    (hw : ∀ m ∈ wyx, isCtl m = true) :
    FlagInv x'.ep y.ep (wxy ++ out) ∧ FlagInv y.ep x'.ep inW' := by
  rcases stepSide_flags x x' wyx inW' out l hs hq hc with ⟨_, sf, hcd, rfl, rfl⟩ | ⟨ev, m, he, rfl, rfl, hg, hr⟩ | ⟨m, e', em, rfl, rfl, he, hep⟩
  · simp only [List.append_nil]
    exact ⟨⟨by rw [sf.acd]; exact F1.cf, by rw [sf.ld]; exact F1.lf, by rw [sf.gbs]; exact F1.gb, F1.acf, F1.rcd, F1.cdq,
            by rw [sf.gbs]; exact F1.last, F1.done⟩,
           ⟨by rw [sf.rcd]; exact F2.cf, by rw [sf.rld]; exact F2.lf, by rw [sf.gbr]; exact F2.gb, F2.acf,
            by rw [sf.rcd]; exact F2.rcd, by rw [sf.rcd]; exact Nat.le_trans hcd F2.cdq, by rw [sf.gbr]; exact F2.last,
            by rw [sf.gbr]; exact F2.done⟩⟩
  · exact ⟨flag_x_evt x.ep x'.ep y.ep wxy ev m he F1 hg hr, flag_y_evt y.ep x.ep x'.ep inW' ev m he F2⟩
  · simp only [List.append_nil]
    have hctl := hw m (by simp)
    exact ⟨flag_x_rx x.ep x.rxView e' x'.ep y.ep wxy m em he hctl F1 ⟨rfl, rfl⟩ (by rw [hep]; exact ⟨rfl, rfl, rfl⟩),
           flag_y_rx y.ep x.ep x.rxView e' inW' m em he hctl F2 ⟨rfl, rfl, rfl, rfl⟩ x'.ep
             (by rw [hep]; exact ⟨rfl, rfl, rfl, rfl⟩)⟩

end Remoc.Table.Sys
