import RemocModel.Table.ConnSafe
set_option linter.unusedSimpArgs false
set_option linter.unusedVariables false
/-
Ingredients of clean termination: no table entry has all four flags (`maybe_free_port` runs after
every flag change); a connected entry that has not seen the peer's finish is still owed it (the
message is in flight or the peer's half is alive); the first endpoint to say `Goodbye` has an empty
table.
-/
namespace Remoc.Table.Sys
open Remoc.Wire Remoc.Table

/-- no entry with all four flags stays in the table -/
def NotFree (e : Ep) : Prop := ∀ p c, lookup e.ports p = some (.connected c) → c.free = false

theorem notFree_congr {e e' : Ep} (h : NotFree e) (hp : e'.ports = e.ports) : NotFree e' :=
  fun p c hc => h p c (by rw [← hp]; exact hc)

theorem maybeFree_present (e : Ep) (p : Nat) (c : Connected)
    (h : lookup (maybeFree e p).ports p = some (.connected c)) : c.free = false := by
  have h0 := maybeFree_sub e p p _ h
  cases hf : c.free with
  | false => rfl
  | true =>
    unfold maybeFree at h
    rw [h0] at h; simp only [hf, if_true, lookup_erase] at h; simp at h

theorem notFree_set_free {e : Ep} (h : NotFree e) (p : Nat) (c1 : Connected) :
    NotFree (maybeFree { e with ports := setPort e.ports p (.connected c1) } p) := by
  intro q c hc
  by_cases hq : q = p
  · subst hq; exact maybeFree_present _ _ _ hc
  · have := maybeFree_sub _ _ _ _ hc
    simp only [lookup_setPort, hq, if_false] at this
    exact h q c this

theorem notFree_set {e : Ep} (h : NotFree e) (p : Nat) (c1 : Connected) (hf : c1.free = false) :
    NotFree { e with ports := setPort e.ports p (.connected c1) } := by
  intro q c hc
  rcases setPort_cases _ _ _ _ _ hc with ⟨_, h2⟩ | ⟨_, h2⟩
  · injection h2 with h2; subst h2; exact hf
  · exact h q c h2

theorem notFree_setConnecting {e : Ep} (h : NotFree e) (p : Nat) :
    NotFree { e with ports := setPort e.ports p .connecting } := by
  intro q c hc
  rcases setPort_cases _ _ _ _ _ hc with ⟨_, h2⟩ | ⟨_, h2⟩
  · simp at h2
  · exact h q c h2

theorem notFree_evt (e e' : Ep) (ev : Evt) (m : Option Msg) (he : handleEvt e ev = some (e', m)) (h : NotFree e) :
    NotFree e' := by
  cases ev with
  | connectReq p w i =>
    simp only [handleEvt] at he
    (repeat' split at he) <;> first
      | (simp at he; done)
      | (simp only [Option.some.injEq, Prod.mk.injEq] at he; obtain ⟨rfl, _⟩ := he
         first | exact notFree_congr h rfl | exact notFree_setConnecting h p)
  | accepted lp rp =>
    simp only [handleEvt] at he
    (repeat' split at he) <;> first
      | (simp at he; done)
      | (simp only [Option.some.injEq, Prod.mk.injEq] at he; obtain ⟨rfl, _⟩ := he
         exact notFree_set h lp _ rfl)
  | senderDropped p =>
    simp only [handleEvt] at he
    (repeat' split at he) <;> first
      | (simp at he; done)
      | (simp only [Option.some.injEq, Prod.mk.injEq] at he; obtain ⟨rfl, _⟩ := he
         exact notFree_set_free h p _)
  | receiverDropped p =>
    simp only [handleEvt] at he
    (repeat' split at he) <;> first
      | (simp at he; done)
      | (simp only [Option.some.injEq, Prod.mk.injEq] at he; obtain ⟨rfl, _⟩ := he
         exact notFree_set_free h p _)
  | receiverClosed p =>
    simp only [handleEvt] at he
    (repeat' split at he) <;> first
      | (simp at he; done)
      | (rename_i c hc _
         simp only [Option.some.injEq, Prod.mk.injEq] at he; obtain ⟨rfl, _⟩ := he
         exact notFree_set h p _ (by have := h p c hc; simpa [Connected.free] using this))
  | _ =>
    simp only [handleEvt] at he
    (repeat' split at he) <;> first
      | (simp at he; done)
      | (simp only [Option.some.injEq, Prod.mk.injEq] at he; obtain ⟨rfl, _⟩ := he
         exact notFree_congr h rfl)

theorem notFree_rx (e e' : Ep) (m : Msg) (em : Emit) (he : handleRx e m = .ok (e', em)) (h : NotFree e) :
    NotFree e' := by
  cases m with
  | reset => simp [handleRx] at he
  | hello v c => simp [handleRx] at he
  | portOpened cp sp =>
    simp only [handleRx] at he
    (repeat' split at he) <;> first
      | (simp at he; done)
      | (simp only [Except.ok.injEq, Prod.mk.injEq] at he; obtain ⟨rfl, _⟩ := he
         exact notFree_set h cp _ rfl)
  | rejected cp np =>
    simp only [handleRx] at he
    (repeat' split at he) <;> first
      | (simp at he; done)
      | (simp only [Except.ok.injEq, Prod.mk.injEq] at he; obtain ⟨rfl, _⟩ := he
         intro q c hc
         simp only [lookup_erase] at hc
         by_cases hq : q = cp
         · simp [hq] at hc
         · simp only [hq, if_false] at hc; exact h q c hc)
  | sendFinish p =>
    simp only [handleRx] at he
    (repeat' split at he) <;> first
      | (simp at he; done)
      | (simp only [Except.ok.injEq, Prod.mk.injEq] at he; obtain ⟨rfl, _⟩ := he
         exact notFree_set_free h p _)
  | receiveClose p =>
    simp only [handleRx] at he
    (repeat' split at he) <;> first
      | (simp at he; done)
      | (simp only [Except.ok.injEq, Prod.mk.injEq] at he; obtain ⟨rfl, _⟩ := he
         exact notFree_set_free h p _)
  | receiveFinish p =>
    simp only [handleRx] at he
    (repeat' split at he) <;> first
      | (simp at he; done)
      | (simp only [Except.ok.injEq, Prod.mk.injEq] at he; obtain ⟨rfl, _⟩ := he
         exact notFree_set_free h p _)
  | portData p f l w ps ids =>
    simp only [handleRx] at he
    (repeat' split at he) <;> first
      | (simp at he; done)
      | (rename_i c hc _ _ _ _
         simp only [Except.ok.injEq, Prod.mk.injEq] at he; obtain ⟨rfl, _⟩ := he
         exact notFree_set h p _ (by have := h p c hc; simpa [Connected.free] using this))
  | portCredits p n =>
    simp only [handleRx] at he
    (repeat' split at he) <;> first
      | (simp at he; done)
      | (rename_i c hc _
         simp only [Except.ok.injEq, Prod.mk.injEq] at he; obtain ⟨rfl, _⟩ := he
         exact notFree_set h p _ (by have := h p c hc; simpa [Connected.free] using this))
  | _ =>
    simp only [handleRx] at he
    (repeat' split at he) <;> first
      | (simp at he; done)
      | (simp only [Except.ok.injEq, Prod.mk.injEq] at he; obtain ⟨rfl, _⟩ := he
         exact notFree_congr h rfl)

theorem notFree_step (s s' : Side) (inW inW' out : List Msg) (l : Lab)
    (hs : stepSide s inW l = some (s', inW', out)) (h : NotFree s.ep) : NotFree s'.ep := by
  rcases stepSide_kinds s s' inW inW' out l hs with ⟨hp, _⟩ | ⟨ev, m, he, _⟩ | ⟨m, e', em, _, _, he, hp⟩
  · exact notFree_congr h hp
  · exact notFree_evt _ _ _ _ he h
  · exact notFree_congr (notFree_rx _ _ _ _ he (notFree_congr h rfl)) hp

/-! ### what a connected entry is still owed by its peer -/

def remoteFlag (k : Bool) (c : Connected) : Bool := if k then c.remoteSendFinished else c.remoteRecvDropped
def localFlag (k : Bool) (d : Connected) : Bool := if k then d.senderDropped else d.receiverDropped
def cntK (k : Bool) (w : List Msg) (p : Nat) : Nat := if k then cntSF w p else cntRF w p
def finishMsg (k : Bool) (r : Nat) : Msg := if k then .sendFinish r else .receiveFinish r

def PartnerAlive (k : Bool) (y : Ep) (p q : Nat) : Prop :=
  ∃ d, lookup y.ports q = some (.connected d) ∧ d.remote = p ∧ localFlag k d = false
def Opening (y : Ep) (wxy : List Msg) (p q : Nat) : Prop :=
  lookup y.ports q = some .connecting ∧ Msg.portOpened q p ∈ wxy

/-- `x` reads `wyx`, `y` reads `wxy`: every connected entry of `x` that has not seen the peer's
`SendFinish` (`k = true`) / `ReceiveFinish` (`k = false`) is still owed it -/
def Owed (x y : Ep) (wxy wyx : List Msg) : Prop :=
  ∀ (k : Bool) p c, lookup x.ports p = some (.connected c) → remoteFlag k c = false →
    1 ≤ cntK k wyx p ∨ PartnerAlive k y p c.remote ∨ Opening y wxy p c.remote

theorem cntK_append (k : Bool) (a b : List Msg) (p : Nat) : cntK k (a ++ b) p = cntK k a p + cntK k b p := by
  cases k <;> simp [cntK, cntSF_append, cntRF_append]

theorem cntK_finish (k : Bool) (r : Nat) : cntK k [finishMsg k r] r = 1 := by
  cases k <;> simp [cntK, finishMsg, cntSF, cntRF]

/-- entries after "set the entry of `p` to `c1`, then `maybe_free_port p`" -/
theorem set_free_lookup (e : Ep) (p : Nat) (c1 : Connected) (q : Nat) :
    (q ≠ p ∧ lookup (maybeFree { e with ports := setPort e.ports p (.connected c1) } p).ports q = lookup e.ports q) ∨
    (q = p ∧ lookup (maybeFree { e with ports := setPort e.ports p (.connected c1) } p).ports q = some (.connected c1)) ∨
    (q = p ∧ c1.free = true) := by
  rcases maybeFree_lookup { e with ports := setPort e.ports p (.connected c1) } p q with h' | ⟨rfl, h'⟩
  · by_cases hq : q = p
    · right; left; exact ⟨hq, by rw [h']; simp [lookup_setPort, hq]⟩
    · left; exact ⟨hq, by rw [h']; simp [lookup_setPort, hq]⟩
  · right; right
    exact ⟨rfl, maybeFree_removed _ q c1 (by simp [lookup_setPort]) h'⟩

theorem localFlag_free (k : Bool) (c : Connected) (h : c.free = true) : localFlag k c = true := by
  obtain ⟨a, b, _, _⟩ := free_flags c h
  cases k <;> simp [localFlag, a, b]

/-- a local event of `y` keeps a connected entry whose `k`-half is alive, unless it is the drop of
that very half, in which case the finish message is emitted -/
theorem handleEvt_partner (y y' : Ep) (ev : Evt) (m : Option Msg) (he : handleEvt y ev = some (y', m))
    (k : Bool) (q : Nat) (d : Connected) (hd : lookup y.ports q = some (.connected d)) (hf : localFlag k d = false) :
    (∃ d', lookup y'.ports q = some (.connected d') ∧ d'.remote = d.remote ∧ localFlag k d' = false) ∨
    m = some (finishMsg k d.remote) := by
  cases ev with
  | senderDropped p =>
    simp only [handleEvt] at he
    (repeat' split at he) <;> first
      | (simp at he; done)
      | (rename_i c hc _
         simp only [Option.some.injEq, Prod.mk.injEq] at he; obtain ⟨rfl, rfl⟩ := he
         rcases set_free_lookup y p { c with senderDropped := true } q with ⟨_, h2⟩ | ⟨h1, h2⟩ | ⟨h1, h2⟩
         · exact Or.inl ⟨d, by rw [h2]; exact hd, rfl, hf⟩
         · subst h1; rw [hd] at hc; injection hc with hc; injection hc with hc; subst hc
           cases k with
           | true => right; rfl
           | false => exact Or.inl ⟨_, h2, rfl, by simpa [localFlag] using hf⟩
         · subst h1; rw [hd] at hc; injection hc with hc; injection hc with hc; subst hc
           cases k with
           | true => right; rfl
           | false => have := localFlag_free false _ h2; simp [localFlag] at this hf; rw [hf] at this; simp at this)
  | receiverDropped p =>
    simp only [handleEvt] at he
    (repeat' split at he) <;> first
      | (simp at he; done)
      | (rename_i c hc _
         simp only [Option.some.injEq, Prod.mk.injEq] at he; obtain ⟨rfl, rfl⟩ := he
         rcases set_free_lookup y p { c with receiverDropped := true } q with ⟨_, h2⟩ | ⟨h1, h2⟩ | ⟨h1, h2⟩
         · exact Or.inl ⟨d, by rw [h2]; exact hd, rfl, hf⟩
         · subst h1; rw [hd] at hc; injection hc with hc; injection hc with hc; subst hc
           cases k with
           | false => right; rfl
           | true => exact Or.inl ⟨_, h2, rfl, by simpa [localFlag] using hf⟩
         · subst h1; rw [hd] at hc; injection hc with hc; injection hc with hc; subst hc
           cases k with
           | false => right; rfl
           | true => have := localFlag_free true _ h2; simp [localFlag] at this hf; rw [hf] at this; simp at this)
  | receiverClosed p =>
    simp only [handleEvt] at he
    (repeat' split at he) <;> first
      | (simp at he; done)
      | (rename_i c hc _
         simp only [Option.some.injEq, Prod.mk.injEq] at he; obtain ⟨rfl, rfl⟩ := he
         left
         by_cases hq : q = p
         · subst hq; rw [hd] at hc; injection hc with hc; injection hc with hc; subst hc
           exact ⟨{ d with receiverClosed := true }, by simp [lookup_setPort], rfl, by cases k <;> simpa [localFlag] using hf⟩
         · exact ⟨d, by simp [lookup_setPort, hq, hd], rfl, hf⟩)
  | accepted lp rp =>
    simp only [handleEvt] at he
    split at he
    · simp at he
    · rename_i hg
      simp only [Option.some.injEq, Prod.mk.injEq] at he; obtain ⟨rfl, rfl⟩ := he
      have hne : q ≠ lp := by intro h'; subst h'; apply hg; right; simp [hd]
      exact Or.inl ⟨d, by simp [lookup_setPort, hne, hd], rfl, hf⟩
  | _ =>
    left
    have hlive : d.senderDropped = false ∨ d.receiverDropped = false := by
      cases k <;> simp [localFlag] at hf
      · exact Or.inr hf
      · exact Or.inl hf
    obtain ⟨hk, _⟩ := handleEvt_plain_table y y' _ m he trivial
    obtain ⟨d', h1, h2⟩ := hk q d hd hlive
    refine ⟨d', h1, h2.1, ?_⟩
    cases k <;> simp only [localFlag] at hf ⊢ <;> simp at hf ⊢
    · rw [h2.2.2.1]; exact hf
    · rw [h2.2.1]; exact hf

theorem handleEvt_connecting_fwd (y y' : Ep) (ev : Evt) (m : Option Msg) (he : handleEvt y ev = some (y', m))
    (q : Nat) (h : lookup y.ports q = some .connecting) : lookup y'.ports q = some .connecting := by
  cases hc : isConnReq ev with
  | false => exact ((handleEvt_client _ _ _ _ he hc).1 q).mpr h
  | true =>
    cases ev <;> simp [isConnReq] at hc
    obtain ⟨_, _, _, _, hcases⟩ := handleEvt_connectReq _ _ _ _ _ _ he
    rcases hcases with ⟨_, h1, _⟩ | ⟨_, h1, _⟩
    · exact (h1 q).mpr h
    · exact (h1 q).mpr (Or.inr h)

/-- the writer `y` of `wyx` handles a local event -/
theorem owed_y_evt (x y y' : Ep) (wxy wyx : List Msg) (ev : Evt) (m : Option Msg)
    (he : handleEvt y ev = some (y', m)) (h : Owed x y wxy wyx) : Owed x y' wxy (wyx ++ emitList m) := by
  intro k p c hc hf
  rcases h k p c hc hf with h1 | ⟨d, hd, hr, hl⟩ | ⟨h1, h2⟩
  · left; rw [cntK_append]; omega
  · rcases handleEvt_partner y y' ev m he k c.remote d hd hl with ⟨d', h1, h2, h3⟩ | hm
    · exact Or.inr (Or.inl ⟨d', h1, by rw [h2]; exact hr, h3⟩)
    · left; rw [hm, hr]; simp only [emitList, cntK_append, cntK_finish]; omega
  · exact Or.inr (Or.inr ⟨handleEvt_connecting_fwd y y' ev m he _ h1, h2⟩)

theorem handleRx_connecting_fwd (e e' : Ep) (m : Msg) (em : Emit) (he : handleRx e m = .ok (e', em))
    (hctl : isCtl m = true) (q : Nat) (h : lookup e.ports q = some .connecting) (hq : respPorts [m] ≠ [q]) :
    lookup e'.ports q = some .connecting := by
  rcases isCtl_cases m hctl with ⟨cp, w, id, rfl⟩ | ⟨cp, hr, _⟩ | ⟨ho, _, _⟩
  · obtain ⟨_, h1, _⟩ := handleRx_openPort _ _ _ _ _ _ he
    rw [h1]; exact h
  · obtain ⟨_, h1, _⟩ := handleRx_response _ _ _ _ _ hr he
    exact (h1 q).mpr ⟨fun hc => hq (by rw [hr, hc]), h⟩
  · obtain ⟨h1, _⟩ := handleRx_other _ _ _ _ ho he
    exact (h1 q).mpr h

/-- the reader `y` of `wxy` takes the head of that wire -/
theorem owed_y_rx (x y y' : Ep) (rest wyx : List Msg) (m : Msg) (em : Emit)
    (he : handleRx y m = .ok (y', em)) (hctl : isCtl m = true) (hnd : (respPorts (m :: rest)).Nodup)
    (h : Owed x y (m :: rest) wyx) : Owed x y' rest wyx := by
  intro k p c hc hf
  rcases h k p c hc hf with h1 | ⟨d, hd, hr, hl⟩ | ⟨h1, h2⟩
  · exact Or.inl h1
  · have hlive : d.senderDropped = false ∨ d.receiverDropped = false := by
      cases k <;> simp [localFlag] at hl
      · exact Or.inr hl
      · exact Or.inl hl
    obtain ⟨d', g1, g2⟩ := handleRx_keeps_live y y' m em he c.remote d hd hlive
    refine Or.inr (Or.inl ⟨d', g1, by rw [g2.1]; exact hr, ?_⟩)
    cases k <;> simp only [localFlag] at hl ⊢ <;> simp at hl ⊢
    · rw [g2.2.2.1]; exact hl
    · rw [g2.2.1]; exact hl
  · rcases List.mem_cons.mp h2 with h2 | h2
    · -- the head is the answer that opens the partner
      subst h2
      simp only [handleRx, h1] at he
      simp only [Except.ok.injEq, Prod.mk.injEq] at he; obtain ⟨rfl, _⟩ := he
      exact Or.inr (Or.inl ⟨{ remote := p, pool := y.cfg.remoteBuf }, by simp [lookup_setPort], rfl, by cases k <;> rfl⟩)
    · have hin : c.remote ∈ respPorts rest := portOpened_mem_resp rest _ _ h2
      have hne : respPorts [m] ≠ [c.remote] := by
        intro hm
        rw [respPorts_cons, hm] at hnd
        exact (List.nodup_cons.mp hnd).1 hin
      exact Or.inr (Or.inr ⟨handleRx_connecting_fwd y y' m em he hctl _ h1 hne, h2⟩)

/-- where the connected entries of `x` come from after a local event -/
theorem handleEvt_remote_back (x x' : Ep) (ev : Evt) (m : Option Msg) (he : handleEvt x ev = some (x', m))
    (p : Nat) (c' : Connected) (hc' : lookup x'.ports p = some (.connected c')) :
    (∃ c, lookup x.ports p = some (.connected c) ∧ c'.remote = c.remote ∧
      c'.remoteSendFinished = c.remoteSendFinished ∧ c'.remoteRecvDropped = c.remoteRecvDropped) ∨
    (∃ rp, rp ∈ x.outstanding ∧ c'.remote = rp ∧ m = some (.portOpened rp p)) := by
  cases ev with
  | accepted lp rp =>
    simp only [handleEvt] at he
    split at he
    · simp at he
    · rename_i hg
      simp only [Option.some.injEq, Prod.mk.injEq] at he; obtain ⟨rfl, rfl⟩ := he
      rcases setPort_cases _ _ _ _ _ hc' with ⟨h1, h2⟩ | ⟨_, h2⟩
      · right; injection h2 with h2; subst h2; subst h1
        refine ⟨rp, ?_, rfl, rfl⟩
        by_cases hc : x.outstanding.contains rp
        · simpa using hc
        · exact absurd (Or.inl hc) hg
      · exact Or.inl ⟨c', h2, rfl, rfl, rfl⟩
  | senderDropped q =>
    simp only [handleEvt] at he
    (repeat' split at he) <;> first
      | (simp at he; done)
      | (rename_i c hc _
         simp only [Option.some.injEq, Prod.mk.injEq] at he; obtain ⟨rfl, _⟩ := he
         rcases maybeFree_set_cases _ _ _ _ _ hc' with ⟨h1, h2⟩ | ⟨_, h2⟩
         · injection h2 with h2; subst h2; subst h1; exact Or.inl ⟨c, hc, rfl, rfl, rfl⟩
         · exact Or.inl ⟨c', h2, rfl, rfl, rfl⟩)
  | receiverDropped q =>
    simp only [handleEvt] at he
    (repeat' split at he) <;> first
      | (simp at he; done)
      | (rename_i c hc _
         simp only [Option.some.injEq, Prod.mk.injEq] at he; obtain ⟨rfl, _⟩ := he
         rcases maybeFree_set_cases _ _ _ _ _ hc' with ⟨h1, h2⟩ | ⟨_, h2⟩
         · injection h2 with h2; subst h2; subst h1; exact Or.inl ⟨c, hc, rfl, rfl, rfl⟩
         · exact Or.inl ⟨c', h2, rfl, rfl, rfl⟩)
  | receiverClosed q =>
    simp only [handleEvt] at he
    (repeat' split at he) <;> first
      | (simp at he; done)
      | (rename_i c hc _
         simp only [Option.some.injEq, Prod.mk.injEq] at he; obtain ⟨rfl, _⟩ := he
         rcases setPort_cases _ _ _ _ _ hc' with ⟨h1, h2⟩ | ⟨_, h2⟩
         · injection h2 with h2; subst h2; subst h1; exact Or.inl ⟨c, hc, rfl, rfl, rfl⟩
         · exact Or.inl ⟨c', h2, rfl, rfl, rfl⟩)
  | _ =>
    obtain ⟨_, hn⟩ := handleEvt_plain_table x x' _ m he trivial
    -- `NoNew` only speaks about local flags; the remote flags are untouched as well
    left
    simp only [handleEvt] at he
    (repeat' split at he) <;> first
      | (simp at he; done)
      | (simp only [Option.some.injEq, Prod.mk.injEq] at he; obtain ⟨rfl, _⟩ := he
         first
           | exact ⟨c', hc', rfl, rfl, rfl⟩
           | (rcases setPort_cases _ _ _ _ _ hc' with ⟨_, h2⟩ | ⟨_, h2⟩
              · simp at h2
              · exact ⟨c', h2, rfl, rfl, rfl⟩))

/-- the reader `x` of `wyx` handles a local event (it writes `wxy`) -/
theorem owed_x_evt (x x' y : Ep) (wxy wyx : List Msg) (ev : Evt) (m : Option Msg)
    (he : handleEvt x ev = some (x', m)) (h : Owed x y wxy wyx)
    (hout : ∀ rp ∈ x.outstanding, lookup y.ports rp = some .connecting) : Owed x' y (wxy ++ emitList m) wyx := by
  intro k p c' hc' hf
  rcases handleEvt_remote_back x x' ev m he p c' hc' with ⟨c, hc, r1, r2, r3⟩ | ⟨rp, hrp, r1, rfl⟩
  · have hf0 : remoteFlag k c = false := by
      cases k <;> simp only [remoteFlag] at hf ⊢ <;> simp at hf ⊢
      · rw [← r3]; exact hf
      · rw [← r2]; exact hf
    rcases h k p c hc hf0 with h1 | h1 | ⟨h1, h2⟩
    · exact Or.inl h1
    · exact Or.inr (Or.inl (by rw [r1]; exact h1))
    · exact Or.inr (Or.inr ⟨by rw [r1]; exact h1, by rw [r1]; exact List.mem_append.mpr (Or.inl h2)⟩)
  · exact Or.inr (Or.inr ⟨by rw [r1]; exact hout rp hrp, by rw [r1]; simp [emitList]⟩)

theorem erase_lookup_sub (ps : List (Nat × PortSt)) (p q : Nat) (st : PortSt)
    (h : lookup (erase ps p) q = some st) : lookup ps q = some st := by
  rw [lookup_erase] at h
  by_cases hqp : q = p
  · simp [hqp] at h
  · simpa [hqp] using h

/-- where the connected entries of `x` come from after a delivered control message -/
theorem handleRx_remote_back (x x' : Ep) (m : Msg) (em : Emit) (he : handleRx x m = .ok (x', em))
    (hctl : isCtl m = true) (p : Nat) (c' : Connected) (hc' : lookup x'.ports p = some (.connected c')) :
    (∃ c, lookup x.ports p = some (.connected c) ∧ c'.remote = c.remote ∧
      ((m = .sendFinish p ∧ c'.remoteSendFinished = true) ∨ (m ≠ .sendFinish p ∧ c'.remoteSendFinished = c.remoteSendFinished)) ∧
      ((m = .receiveFinish p ∧ c'.remoteRecvDropped = true) ∨ (m ≠ .receiveFinish p ∧ c'.remoteRecvDropped = c.remoteRecvDropped))) ∨
    (∃ sp, m = .portOpened p sp ∧ c'.remote = sp ∧ lookup x.ports p = some .connecting) := by
  cases m with
  | openPort cp w id =>
    obtain ⟨_, h1, _⟩ := handleRx_openPort _ _ _ _ _ _ he
    rw [h1] at hc'
    exact Or.inl ⟨c', hc', rfl, Or.inr ⟨by simp, rfl⟩, Or.inr ⟨by simp, rfl⟩⟩
  | portOpened cp sp =>
    simp only [handleRx] at he
    split at he
    · rename_i hl
      simp only [Except.ok.injEq, Prod.mk.injEq] at he; obtain ⟨rfl, _⟩ := he
      rcases setPort_cases _ _ _ _ _ hc' with ⟨h1, h2⟩ | ⟨_, h2⟩
      · injection h2 with h2; subst h2; subst h1
        exact Or.inr ⟨sp, rfl, rfl, hl⟩
      · exact Or.inl ⟨c', h2, rfl, Or.inr ⟨by simp, rfl⟩, Or.inr ⟨by simp, rfl⟩⟩
    · simp at he
  | rejected cp np =>
    simp only [handleRx] at he
    split at he
    · simp only [Except.ok.injEq, Prod.mk.injEq] at he; obtain ⟨rfl, _⟩ := he
      have := erase_lookup_sub x.ports cp p _ hc'
      exact Or.inl ⟨c', this, rfl, Or.inr ⟨by simp, rfl⟩, Or.inr ⟨by simp, rfl⟩⟩
    · simp at he
  | sendFinish q =>
    simp only [handleRx] at he
    (repeat' split at he) <;> first
      | (simp at he; done)
      | (rename_i c hc _
         simp only [Except.ok.injEq, Prod.mk.injEq] at he; obtain ⟨rfl, _⟩ := he
         rcases maybeFree_set_cases _ _ _ _ _ hc' with ⟨h1, h2⟩ | ⟨h1, h2⟩
         · injection h2 with h2; subst h2; subst h1
           exact Or.inl ⟨c, hc, rfl, Or.inl ⟨rfl, rfl⟩, Or.inr ⟨by simp, rfl⟩⟩
         · exact Or.inl ⟨c', h2, rfl, Or.inr ⟨by simp; exact fun h => h1 h.symm, rfl⟩, Or.inr ⟨by simp, rfl⟩⟩)
  | receiveClose q =>
    simp only [handleRx] at he
    (repeat' split at he) <;> first
      | (simp at he; done)
      | (rename_i c hc _
         simp only [Except.ok.injEq, Prod.mk.injEq] at he; obtain ⟨rfl, _⟩ := he
         rcases maybeFree_set_cases _ _ _ _ _ hc' with ⟨h1, h2⟩ | ⟨h1, h2⟩
         · injection h2 with h2; subst h2; subst h1
           exact Or.inl ⟨c, hc, rfl, Or.inr ⟨by simp, rfl⟩, Or.inr ⟨by simp, rfl⟩⟩
         · exact Or.inl ⟨c', h2, rfl, Or.inr ⟨by simp, rfl⟩, Or.inr ⟨by simp, rfl⟩⟩)
  | receiveFinish q =>
    simp only [handleRx] at he
    (repeat' split at he) <;> first
      | (simp at he; done)
      | (rename_i c hc
         simp only [Except.ok.injEq, Prod.mk.injEq] at he; obtain ⟨rfl, _⟩ := he
         rcases maybeFree_set_cases _ _ _ _ _ hc' with ⟨h1, h2⟩ | ⟨h1, h2⟩
         · injection h2 with h2; subst h2; subst h1
           exact Or.inl ⟨c, hc, rfl, Or.inr ⟨by simp, rfl⟩, Or.inl ⟨rfl, rfl⟩⟩
         · exact Or.inl ⟨c', h2, rfl, Or.inr ⟨by simp, rfl⟩, Or.inr ⟨by simp; exact fun h => h1 h.symm, rfl⟩⟩)
  | clientFinish =>
    simp only [handleRx] at he
    (repeat' split at he) <;> first
      | (simp at he; done)
      | (simp only [Except.ok.injEq, Prod.mk.injEq] at he; obtain ⟨rfl, _⟩ := he
         exact Or.inl ⟨c', hc', rfl, Or.inr ⟨by simp, rfl⟩, Or.inr ⟨by simp, rfl⟩⟩)
  | listenerFinish =>
    simp only [handleRx, Except.ok.injEq, Prod.mk.injEq] at he; obtain ⟨rfl, _⟩ := he
    exact Or.inl ⟨c', hc', rfl, Or.inr ⟨by simp, rfl⟩, Or.inr ⟨by simp, rfl⟩⟩
  | goodbye =>
    simp only [handleRx, Except.ok.injEq, Prod.mk.injEq] at he; obtain ⟨rfl, _⟩ := he
    exact Or.inl ⟨c', hc', rfl, Or.inr ⟨by simp, rfl⟩, Or.inr ⟨by simp, rfl⟩⟩
  | _ => simp [isCtl, isOther] at hctl

theorem cntK_cons (k : Bool) (m : Msg) (rest : List Msg) (p : Nat) :
    cntK k (m :: rest) p = cntK k rest p + (if m = finishMsg k p then 1 else 0) := by
  cases k
  · simp only [cntK, finishMsg, cntRF, Bool.false_eq_true, if_false]; exact count_cons_self_or _ _ _
  · simp only [cntK, finishMsg, cntSF, if_true]; exact count_cons_self_or _ _ _

/-- the reader `x` of `wyx` takes the head of that wire -/
theorem owed_x_rx (x x' y : Ep) (wxy rest : List Msg) (m : Msg) (em : Emit)
    (he : handleRx x m = .ok (x', em)) (hctl : isCtl m = true) (h : Owed x y wxy (m :: rest))
    (hp : PortInv y x (m :: rest)) (hop : ∀ cp sp, m = .portOpened cp sp → FreshPartner y wxy cp sp) :
    Owed x' y wxy rest := by
  intro k p c' hc' hf
  rcases handleRx_remote_back x x' m em he hctl p c' hc' with ⟨c, hc, r1, r2, r3⟩ | ⟨sp, rfl, r1, hcn⟩
  · -- an entry that was there before
    have hne : m ≠ finishMsg k p := by
      intro hm
      cases k with
      | true =>
        simp only [finishMsg] at hm
        rcases r2 with ⟨_, r2⟩ | ⟨r2, _⟩
        · simp [remoteFlag, r2] at hf
        · exact r2 hm
      | false =>
        simp only [finishMsg] at hm
        rcases r3 with ⟨_, r3⟩ | ⟨r3, _⟩
        · simp [remoteFlag, r3] at hf
        · exact r3 hm
    have hf0 : remoteFlag k c = false := by
      cases k with
      | true =>
        rcases r2 with ⟨r2, _⟩ | ⟨_, r2⟩
        · exact absurd r2 hne
        · simp only [remoteFlag] at hf ⊢; simp at hf ⊢; rw [← r2]; exact hf
      | false =>
        rcases r3 with ⟨r3, _⟩ | ⟨_, r3⟩
        · exact absurd r3 hne
        · simp only [remoteFlag] at hf ⊢; simp at hf ⊢; rw [← r3]; exact hf
    rcases h k p c hc hf0 with h1 | h1 | h1
    · left; rw [cntK_cons] at h1; simp only [hne, if_false, Nat.add_zero] at h1; exact h1
    · exact Or.inr (Or.inl (by rw [r1]; exact h1))
    · exact Or.inr (Or.inr (by rw [r1]; exact h1))
  · -- the entry just opened by the delivered `PortOpened p sp`
    obtain ⟨d, hd, hr, _, _, _, _⟩ := hop p sp rfl
    cases hl : localFlag k d with
    | false => exact Or.inr (Or.inl ⟨d, by rw [r1]; exact hd, hr, hl⟩)
    | true =>
      left
      have ht := hp.tx sp d hd
      have hlive : Live x (Msg.portOpened p sp :: rest) sp d.remote := by
        rw [hr]; exact Or.inr ⟨hcn, by simp⟩
      have hno : ∀ e, lookup x.ports d.remote = some (.connected e) → False := by
        intro e he'; rw [hr, hcn] at he'; simp at he'
      cases k with
      | true =>
        simp only [localFlag] at hl; simp at hl
        rcases ht.sd1 hl hlive with h1 | ⟨e, he', _⟩
        · rw [hr] at h1; simp only [cntK, if_true]; simp only [cntSF, List.count_cons] at h1 ⊢; simp at h1; omega
        · exact (hno e he').elim
      | false =>
        simp only [localFlag] at hl; simp at hl
        rcases ht.rd1 hl hlive with h1 | ⟨e, he', _⟩
        · rw [hr] at h1; simp only [cntK, Bool.false_eq_true, if_false]; simp only [cntRF, List.count_cons] at h1 ⊢; simp at h1; omega
        · exact (hno e he').elim

/-! ### the first endpoint to say `Goodbye` has an empty table -/

def TermInv (x y : Ep) : Prop :=
  x.goodbyeSent = true → x.ports = [] ∨ (y.goodbyeSent = true ∧ y.ports = [])

theorem lookup_nil (p : Nat) : lookup [] p = none := rfl

theorem handleRx_ports_empty (e e' : Ep) (m : Msg) (em : Emit) (he : handleRx e m = .ok (e', em))
    (hctl : isCtl m = true) (h : e.ports = []) : e'.ports = [] := by
  cases m with
  | openPort cp w id =>
    obtain ⟨_, h1, _⟩ := handleRx_openPort _ _ _ _ _ _ he; rw [h1]; exact h
  | clientFinish =>
    simp only [handleRx] at he
    (repeat' split at he) <;> first
      | (simp at he; done)
      | (simp only [Except.ok.injEq, Prod.mk.injEq] at he; obtain ⟨rfl, _⟩ := he; exact h)
  | listenerFinish => simp only [handleRx, Except.ok.injEq, Prod.mk.injEq] at he; obtain ⟨rfl, _⟩ := he; exact h
  | goodbye => simp only [handleRx, Except.ok.injEq, Prod.mk.injEq] at he; obtain ⟨rfl, _⟩ := he; exact h
  | portOpened cp sp => simp [handleRx, h, lookup] at he
  | rejected cp np => simp [handleRx, h, lookup] at he
  | sendFinish p => simp [handleRx, h, lookup] at he
  | receiveClose p => simp [handleRx, h, lookup] at he
  | receiveFinish p => simp [handleRx, h, lookup] at he
  | _ => simp [isCtl, isOther] at hctl

/-- `Goodbye` is only sent when `should_terminate` holds; no other step sets the flag -/
theorem step_goodbye_guard (s s' : Side) (inW inW' out : List Msg) (l : Lab)
    (hs : stepSide s inW l = some (s', inW', out)) (hq : QType s) (hw : ∀ m ∈ inW, isCtl m = true)
    (h0 : s.ep.goodbyeSent = false) (h1 : s'.ep.goodbyeSent = true) :
    shouldTerminate s.ep = true ∧ s'.ep.ports = s.ep.ports := by
  cases l <;> simp only [stepSide] at hs
  case goodbye =>
    (repeat' split at hs) <;> first
      | (simp at hs; done)
      | (rename_i hg _ e' m he
         simp only [Option.some.injEq, Prod.mk.injEq] at hs; obtain ⟨rfl, _, _⟩ := hs
         simp only [Bool.and_eq_true] at hg
         simp only [handleEvt] at he
         split at he
         · simp at he
         · simp only [Option.some.injEq, Prod.mk.injEq] at he; obtain ⟨rfl, _⟩ := he
           exact ⟨hg.2, rfl⟩)
  case dispConn =>
    (repeat' split at hs) <;> first
      | (simp at hs; done)
      | (rename_i ev rest hq' _ e' m he
         simp only [Option.some.injEq, Prod.mk.injEq] at hs; obtain ⟨rfl, _, _⟩ := hs
         have hce := hq.conn ev (by rw [hq']; simp)
         rcases handleEvt_flags _ _ _ _ he with ⟨sf, _, _⟩ | ⟨_, _, rfl, _⟩ | ⟨_, _, rfl, _⟩ | ⟨rfl, _, _, _⟩
         · have := sf.gbs; simp only [] at h1; rw [h1, h0] at this; simp at this
         · simp only [] at h1; rw [h0] at h1; simp at h1
         · simp only [] at h1; rw [h0] at h1; simp at h1
         · simp [isConnEvt] at hce)
  case dispPort =>
    (repeat' split at hs) <;> first
      | (simp at hs; done)
      | (rename_i ev rest hq' _ e' m he
         simp only [Option.some.injEq, Prod.mk.injEq] at hs; obtain ⟨rfl, _, _⟩ := hs
         have hpe := hq.port ev (by rw [hq']; simp)
         simp only [evtHandles_ep] at h1
         rcases handleEvt_flags _ _ _ _ he with ⟨sf, _, _⟩ | ⟨_, _, rfl, _⟩ | ⟨_, _, rfl, _⟩ | ⟨rfl, _, _, _⟩
         · have := sf.gbs; rw [h1, h0] at this; simp at this
         · simp only [] at h1; rw [h0] at h1; simp at h1
         · simp only [] at h1; rw [h0] at h1; simp at h1
         · simp [isPortEvt] at hpe)
  case dispListener =>
    (repeat' split at hs) <;> first
      | (simp at hs; done)
      | (rename_i _ e' m he
         simp only [Option.some.injEq, Prod.mk.injEq] at hs; obtain ⟨rfl, _, _⟩ := hs
         simp only [handleEvt] at he
         split at he
         · simp at he
         · simp only [Option.some.injEq, Prod.mk.injEq] at he; obtain ⟨rfl, _⟩ := he
           simp only [] at h1; rw [h0] at h1; simp at h1)
  case deliver =>
    (repeat' split at hs) <;> first
      | (simp at hs; done)
      | (rename_i m rest _ e' em he
         simp only [Option.some.injEq, Prod.mk.injEq] at hs; obtain ⟨rfl, _, _⟩ := hs
         obtain ⟨_, _, f3, _⟩ := handleRx_flags _ _ _ _ he (hw m (by simp))
         simp only [rxHandles_ep] at h1
         have : e'.goodbyeSent = true := h1
         rw [f3] at this; simp only [Side.rxView] at this; rw [h0] at this; simp at this)
  all_goals
    (repeat' split at hs) <;> first
      | (simp at hs; done)
      | (simp only [Option.some.injEq, Prod.mk.injEq] at hs; obtain ⟨rfl, _, _⟩ := hs
         simp only [] at h1; rw [h0] at h1; simp at h1)

/-- one side steps: both `TermInv`s it takes part in are preserved -/
theorem term_step_side (x y x' : Side) (wyx inW' out : List Msg) (l : Lab)
    (hs : stepSide x wyx l = some (x', inW', out))
    (T1 : TermInv x.ep y.ep) (T2 : TermInv y.ep x.ep) (F2 : FlagInv y.ep x.ep wyx)
    (hq : QType x) (hc : ClientInv x) (hw : ∀ m ∈ wyx, isCtl m = true) :
    TermInv x'.ep y.ep ∧ TermInv y.ep x'.ep := by
  cases hx : x.ep.goodbyeSent with
  | false =>
    refine ⟨fun h1 => ?_, fun hy => ?_⟩
    · obtain ⟨hst, hports⟩ := step_goodbye_guard x x' wyx inW' out l hs hq hw hx h1
      simp only [shouldTerminate, hx, Bool.or_false, Bool.or_eq_true, Bool.and_eq_true, List.isEmpty_iff] at hst
      rcases hst with hst | hgr
      · left; rw [hports]; exact hst.1.1.1
      · right
        have hgb := F2.gb; rw [hgr] at hgb
        have hys : y.ep.goodbyeSent = true := by
          cases hy : y.ep.goodbyeSent with
          | true => rfl
          | false => simp [hy, b2n] at hgb
        rcases T2 hys with h' | ⟨h', _⟩
        · exact ⟨hys, h'⟩
        · rw [hx] at h'; simp at h'
    · rcases T2 hy with h' | ⟨h', _⟩
      · exact Or.inl h'
      · rw [hx] at h'; simp at h'
  | true =>
    rcases stepSide_flags x x' wyx inW' out l hs hq hc with ⟨hp, sf, _⟩ | ⟨ev, m, he, _, _, hg, _⟩ | ⟨m, e', em, rfl, _, he, hep⟩
    · refine ⟨fun _ => ?_, fun hy => ?_⟩
      · rcases T1 hx with h' | h'
        · left; rw [hp]; exact h'
        · exact Or.inr h'
      · rcases T2 hy with h' | ⟨h1, h2⟩
        · exact Or.inl h'
        · right; exact ⟨by rw [sf.gbs]; exact h1, by rw [hp]; exact h2⟩
    · rw [hx] at hg; simp at hg
    · have hctl := hw m (by simp)
      obtain ⟨_, _, f3, _⟩ := handleRx_flags _ _ _ _ he hctl
      have hgs : x'.ep.goodbyeSent = x.ep.goodbyeSent := by rw [hep]; exact f3
      have hpe : x.ep.ports = [] → x'.ep.ports = [] := by
        intro h0
        have : e'.ports = [] := handleRx_ports_empty x.rxView e' m em he hctl h0
        rw [hep]; exact this
      refine ⟨fun _ => ?_, fun hy => ?_⟩
      · rcases T1 hx with h' | h'
        · exact Or.inl (hpe h')
        · exact Or.inr h'
      · rcases T2 hy with h' | ⟨h1, h2⟩
        · exact Or.inl h'
        · right; exact ⟨by rw [hgs]; exact h1, hpe h2⟩

theorem Owed.congr_ports {x x' y y' : Ep} {a b : List Msg} (hx : x'.ports = x.ports) (hy : y'.ports = y.ports)
    (h : Owed x y a b) : Owed x' y' a b := by
  intro k p c hc hf
  rcases h k p c (by rw [← hx]; exact hc) hf with h1 | ⟨d, hd, r⟩ | ⟨h1, h2⟩
  · exact Or.inl h1
  · exact Or.inr (Or.inl ⟨d, by rw [hy]; exact hd, r⟩)
  · exact Or.inr (Or.inr ⟨by rw [hy]; exact h1, h2⟩)

/-- one side steps: both `Owed` invariants it takes part in are preserved -/
theorem owed_step_side (x y x' : Side) (wxy wyx inW' out : List Msg) (l : Lab)
    (hs : stepSide x wyx l = some (x', inW', out))
    (W1 : Owed x.ep y.ep wxy wyx) (W2 : Owed y.ep x.ep wyx wxy)
    (P2 : PortInv y.ep x.ep wyx) (O1 : OpenInv y.ep wxy wyx)
    (rc : ReqInv x y wxy wyx) (rv : ReqInv y x wyx wxy) (hw : ∀ m ∈ wyx, isCtl m = true) :
    Owed x'.ep y.ep (wxy ++ out) inW' ∧ Owed y.ep x'.ep inW' (wxy ++ out) := by
  rcases stepSide_kinds x x' wyx inW' out l hs with ⟨hp, _, rfl, rfl⟩ | ⟨ev, m, he, rfl, rfl⟩ | ⟨m, e', em, rfl, rfl, he, hp⟩
  · simp only [List.append_nil]
    exact ⟨W1.congr_ports hp rfl, W2.congr_ports rfl hp⟩
  · exact ⟨owed_x_evt x.ep x'.ep y.ep wxy inW' ev m he W1 (fun rp hrp => (reqInv_out_connecting rv rp hrp).1),
           owed_y_evt y.ep x.ep x'.ep inW' wxy ev m he W2⟩
  · simp only [List.append_nil]
    have hctl := hw m (by simp)
    have hv : x.rxView.ports = x.ep.ports := rfl
    refine ⟨?_, ?_⟩
    · refine (owed_x_rx x.rxView e' y.ep wxy inW' m em he hctl (W1.congr_ports hv rfl) (P2.congr_ports rfl hv) ?_).congr_ports hp rfl
      intro cp sp hm; exact O1 cp sp (by rw [hm]; simp)
    · exact (owed_y_rx y.ep x.rxView e' inW' wxy m em he hctl (reqInv_resp_nodup rc) (W2.congr_ports rfl hv)).congr_ports rfl hp

/-- the global invariant with the termination layer -/
structure Inv5 (s : St) : Prop where
  i4 : Inv4 s
  nfa : NotFree s.a.ep
  nfb : NotFree s.b.ep
  /-- `a` reads `toA` -/
  wa : Owed s.a.ep s.b.ep s.toB s.toA
  wb : Owed s.b.ep s.a.ep s.toA s.toB
  ta : TermInv s.a.ep s.b.ep
  tb : TermInv s.b.ep s.a.ep

theorem inv5_init (mpA cqA mpB cqB : Nat) : Inv5 (init mpA cqA mpB cqB) :=
  ⟨inv4_init mpA cqA mpB cqB, fun p c hc => by simp [init, initEp, lookup] at hc, fun p c hc => by simp [init, initEp, lookup] at hc,
   fun k p c hc => by simp [init, initEp, lookup] at hc, fun k p c hc => by simp [init, initEp, lookup] at hc,
   fun h => by simp [init, initEp] at h, fun h => by simp [init, initEp] at h⟩

theorem inv5_step (s s' : St) (x : Who) (l : Lab) (hi : Inv5 s) (h : step s x l = some s') : Inv5 s' := by
  have h4 := inv4_step s s' x l hi.i4 h
  have i3 := hi.i4.i3
  cases x with
  | A =>
    simp only [step, Option.map_eq_some_iff] at h
    obtain ⟨⟨a', inW, out⟩, hs, rfl⟩ := h
    obtain ⟨w1, w2⟩ := owed_step_side s.a s.b a' s.toB s.toA inW out l hs hi.wa hi.wb i3.i2.pba i3.i2.ob
      i3.i2.r.ab i3.i2.r.ba i3.i2.r.wa
    obtain ⟨t1, t2⟩ := term_step_side s.a s.b a' s.toA inW out l hs hi.ta hi.tb i3.fba i3.i2.r.qa i3.ca i3.i2.r.wa
    exact ⟨h4, notFree_step _ _ _ _ _ _ hs hi.nfa, hi.nfb, w1, w2, t1, t2⟩
  | B =>
    simp only [step, Option.map_eq_some_iff] at h
    obtain ⟨⟨b', inW, out⟩, hs, rfl⟩ := h
    obtain ⟨w1, w2⟩ := owed_step_side s.b s.a b' s.toA s.toB inW out l hs hi.wb hi.wa i3.i2.pab i3.i2.oa
      i3.i2.r.ba i3.i2.r.ab i3.i2.r.wb
    obtain ⟨t1, t2⟩ := term_step_side s.b s.a b' s.toB inW out l hs hi.tb hi.ta i3.fab i3.i2.r.qb i3.cb i3.i2.r.wb
    exact ⟨h4, hi.nfa, notFree_step _ _ _ _ _ _ hs hi.nfb, w2, w1, t2, t1⟩

theorem inv5_run (s : St) (ls : List (Who × Lab)) (hi : Inv5 s) : Inv5 (run s ls) := by
  induction ls generalizing s with
  | nil => exact hi
  | cons xl ls ih =>
    obtain ⟨x, l⟩ := xl
    simp only [run]
    split
    · rename_i s' hs; exact ih s' (inv5_step s s' x l hi hs)
    · exact ih s hi

/-! ### quiescence -/

/-- every API object of the side has been dropped -/
def AllDropped (s : Side) : Prop :=
  s.clientsAlive = false ∧ s.listenerAlive = false ∧ s.held = [] ∧ s.senders = [] ∧ s.receivers = []

/-- no internal label of the side is enabled -/
def NoInt (x : Side) (inW : List Msg) : Prop := ∀ l, l.internal = true → stepSide x inW l = none

/-- a dispatcher that has not said `Goodbye` and has nothing enabled: its queues are empty, it has
noticed the dropped listener, and `should_terminate` is false -/
theorem noInt_dispatching (x : Side) (inW : List Msg) (hn : NoInt x inW) (hd : x.ep.goodbyeSent = false)
    (h1 : ∀ ev rest, x.connQ = ev :: rest → (handleEvt x.ep ev).isSome = true)
    (h2 : ∀ ev rest, x.portQ = ev :: rest → (handleEvt x.ep ev).isSome = true) :
    x.connQ = [] ∧ x.portQ = [] ∧ (x.listenerAlive = false → x.ep.listenerDropped = true) ∧
    shouldTerminate x.ep = false := by
  have hdisp : x.dispatching = true := by simp [Side.dispatching, hd]
  refine ⟨?_, ?_, ?_, ?_⟩
  · cases hq : x.connQ with
    | nil => rfl
    | cons ev rest =>
      exfalso
      have := hn .dispConn rfl
      obtain ⟨r, hr⟩ := Option.isSome_iff_exists.mp (h1 ev rest hq)
      simp [stepSide, hdisp, hq, hr] at this
  · cases hq : x.portQ with
    | nil => rfl
    | cons ev rest =>
      exfalso
      have := hn .dispPort rfl
      obtain ⟨r, hr⟩ := Option.isSome_iff_exists.mp (h2 ev rest hq)
      simp [stepSide, hdisp, hq, hr] at this
  · intro hla
    cases hl : x.ep.listenerDropped with
    | true => rfl
    | false =>
      exfalso
      have := hn .dispListener rfl
      simp [stepSide, hdisp, hla, hl, handleEvt] at this
  · cases hst : shouldTerminate x.ep with
    | false => rfl
    | true =>
      exfalso
      have := hn .goodbye rfl
      simp [stepSide, hdisp, hst, handleEvt, hd] at this

/-- nothing deliverable is left: the incoming wire is empty or `Goodbye` was received -/
theorem noInt_wire (x : Side) (inW : List Msg) (hn : NoInt x inW)
    (hok : ∀ m rest, inW = m :: rest → ∃ e' em, handleRx x.rxView m = .ok (e', em)) :
    inW = [] ∨ x.ep.goodbyeReceived = true := by
  cases hw : inW with
  | nil => exact Or.inl rfl
  | cons m rest =>
    right
    cases hg : x.ep.goodbyeReceived with
    | true => rfl
    | false =>
      exfalso
      have := hn .deliver rfl
      obtain ⟨e', em, he⟩ := hok m rest hw
      simp [stepSide, hw, hg, he] at this

theorem ports_nil_of_lookup (ps : List (Nat × PortSt)) (h : ∀ p, lookup ps p = none) : ps = [] := by
  cases ps with
  | nil => rfl
  | cons a as =>
    obtain ⟨k, v⟩ := a
    have := h k; simp [lookup] at this

/-- an entry whose local halves are dropped, whose peer owes it nothing any more, is not in the table -/
theorem no_connected_of_owed (x y : Ep) (wxy : List Msg) (hw : Owed x y wxy []) (hnf : NotFree x)
    (hloc : ∀ p c, lookup x.ports p = some (.connected c) → c.senderDropped = true ∧ c.receiverDropped = true)
    (hnp : ∀ k p q, ¬ PartnerAlive k y p q) (hno : ∀ p q, ¬ Opening y wxy p q) :
    ∀ p c, lookup x.ports p ≠ some (.connected c) := by
  intro p c hc
  obtain ⟨h1, h2⟩ := hloc p c hc
  have h3 : c.remoteSendFinished = true := by
    cases hs : c.remoteSendFinished with
    | true => rfl
    | false =>
      rcases hw true p c hc (by simp [remoteFlag, hs]) with h' | h' | h'
      · simp [cntK, cntSF] at h'
      · exact absurd h' (hnp _ _ _)
      · exact absurd h' (hno _ _)
  have h4 : c.remoteRecvDropped = true := by
    cases hs : c.remoteRecvDropped with
    | true => rfl
    | false =>
      rcases hw false p c hc (by simp [remoteFlag, hs]) with h' | h' | h'
      · simp [cntK, cntRF] at h'
      · exact absurd h' (hnp _ _ _)
      · exact absurd h' (hno _ _)
  have := hnf p c hc
  simp [Connected.free, h1, h2, h3, h4] at this

/-- handles gone and no handle event queued: every connected entry has both local flags -/
theorem local_flags_of_dropped (x : Side) (hh : HandleInv x) (hd : AllDropped x) (hq : x.portQ = []) :
    ∀ p c, lookup x.ep.ports p = some (.connected c) → c.senderDropped = true ∧ c.receiverDropped = true := by
  intro p c hc
  obtain ⟨_, _, _, hs, hr⟩ := hd
  constructor
  · cases h : c.senderDropped with
    | true => rfl
    | false => have := hh.sdc p c hc h; simp [hs, hq, sdPorts] at this
  · cases h : c.receiverDropped with
    | true => rfl
    | false => have := hh.rdc p c hc h; simp [hr, hq, rdPorts] at this

theorem no_partner_of_dropped (y : Side) (hh : HandleInv y) (hd : AllDropped y) (hq : y.portQ = []) :
    ∀ k p q, ¬ PartnerAlive k y.ep p q := by
  rintro k p q ⟨d, hd', _, hl⟩
  obtain ⟨h1, h2⟩ := local_flags_of_dropped y hh hd hq q d hd'
  cases k <;> simp [localFlag, h1, h2] at hl

/-- nothing outstanding when the listener, every held request and every queued answer are gone -/
theorem outstanding_nil (c v : Side) (wcv wvc : List Msg) (r : ReqInv c v wcv wvc) (hd : AllDropped v)
    (hq : v.portQ = []) : v.ep.outstanding = [] := by
  obtain ⟨_, hl, hh, _, _⟩ := hd
  have hlq := r.lq hl
  cases ho : v.ep.outstanding with
  | nil => rfl
  | cons a as =>
    have := (r.outMem a).mpr (by rw [ho]; simp)
    simp [outWhere, hlq, hh, hq, ansPorts] at this

/-- all invariants of a state, seen from one side `x` (peer `y`; `x` writes `wxy` and reads `wyx`) -/
structure View (x y : Side) (wxy wyx : List Msg) : Prop where
  rxy : ReqInv x y wxy wyx
  ryx : ReqInv y x wyx wxy
  pxy : PortInv x.ep y.ep wxy
  pyx : PortInv y.ep x.ep wyx
  fxy : FlagInv x.ep y.ep wxy
  fyx : FlagInv y.ep x.ep wyx
  qx : QType x
  qy : QType y
  cx : ClientInv x
  cy : ClientInv y
  ax : AllocInv x
  ay : AllocInv y
  hx : HandleInv x
  hy : HandleInv y
  nx : NotFree x.ep
  ny : NotFree y.ep
  wx : Owed x.ep y.ep wxy wyx
  wy : Owed y.ep x.ep wyx wxy
  tx : TermInv x.ep y.ep
  ty : TermInv y.ep x.ep
  ctlx : ∀ m ∈ wyx, isCtl m = true
  ctly : ∀ m ∈ wxy, isCtl m = true

theorem View.swap {x y : Side} {wxy wyx : List Msg} (v : View x y wxy wyx) : View y x wyx wxy :=
  ⟨v.ryx, v.rxy, v.pyx, v.pxy, v.fyx, v.fxy, v.qy, v.qx, v.cy, v.cx, v.ay, v.ax, v.hy, v.hx, v.ny, v.nx, v.wy, v.wx,
   v.ty, v.tx, v.ctly, v.ctlx⟩

theorem Inv5.view {s : St} (h : Inv5 s) : View s.a s.b s.toB s.toA :=
  let i3 := h.i4.i3
  ⟨i3.i2.r.ab, i3.i2.r.ba, i3.i2.pab, i3.i2.pba, i3.fab, i3.fba, i3.i2.r.qa, i3.i2.r.qb, i3.ca, i3.cb, h.i4.aa, h.i4.ab,
   h.i4.ha, h.i4.hb, h.nfa, h.nfb, h.wa, h.wb, h.ta, h.tb, i3.i2.r.wa, i3.i2.r.wb⟩

/-- facts about a quiescent side that has not said `Goodbye` -/
theorem View.idle {x y : Side} {wxy wyx : List Msg} (v : View x y wxy wyx) (hd : AllDropped x)
    (hn : NoInt x wyx) (hg : x.ep.goodbyeSent = false) :
    x.connQ = [] ∧ x.portQ = [] ∧ x.ep.listenerDropped = true ∧ x.ep.allClientsDropped = true ∧
    x.ep.outstanding = [] ∧ shouldTerminate x.ep = false ∧ x.ep.goodbyeReceived = false ∧ wyx = [] := by
  obtain ⟨e1, e2⟩ := evt_ok y x wyx wxy v.ryx v.qx v.cx v.ax v.hx
  obtain ⟨h1, h2, h3, h4⟩ := noInt_dispatching x wyx hn hg e1 e2
  have hgr : x.ep.goodbyeReceived = false := by
    cases hr : x.ep.goodbyeReceived with
    | false => rfl
    | true => simp [shouldTerminate, hr] at h4
  have hw : wyx = [] := by
    rcases noInt_wire x wyx hn (fun m rest hw => by
        subst hw
        exact rx_ok y x m rest wxy v.ryx v.rxy v.pyx v.fyx (v.ctlx m (by simp))) with h' | h'
    · exact h'
    · rw [hgr] at h'; simp at h'
  have hacd : x.ep.allClientsDropped = true := by
    rcases v.cx.gone hd.1 with h' | h'
    · rw [h1] at h'; simp at h'
    · exact h'
  exact ⟨h1, h2, h3 hd.2.1, hacd, outstanding_nil y x wyx wxy v.ryx hd h2, h4, hgr, hw⟩

/-- **a quiescent side whose API objects (and its peer's) are all dropped has said `Goodbye`** -/
theorem View.goodbye_sent {x y : Side} {wxy wyx : List Msg} (v : View x y wxy wyx)
    (hdx : AllDropped x) (hdy : AllDropped y) (hnx : NoInt x wyx) (hny : NoInt y wxy) :
    x.ep.goodbyeSent = true := by
  cases hg : x.ep.goodbyeSent with
  | true => rfl
  | false =>
    exfalso
    obtain ⟨x1, x2, x3, x4, x5, x6, x7, x8⟩ := v.idle hdx hnx hg
    subst x8
    cases hgy : y.ep.goodbyeSent with
    | true =>
      -- the peer's `Goodbye` is neither in flight nor received
      have := v.fyx.gb; rw [hgy, x7] at this; simp [b2n] at this
    | false =>
      obtain ⟨y1, y2, y3, y4, y5, y6, y7, y8⟩ := v.swap.idle hdy hny hgy
      subst y8
      -- no connected entry
      have hnc : ∀ p c, lookup x.ep.ports p ≠ some (.connected c) :=
        no_connected_of_owed x.ep y.ep [] v.wx v.nx (local_flags_of_dropped x v.hx hdx x2)
          (no_partner_of_dropped y v.hy hdy y2) (fun p q h => by simp [Opening] at h)
      -- no connecting entry
      have hnn : ∀ p, lookup x.ep.ports p = none := by
        intro p
        cases hl : lookup x.ep.ports p with
        | none => rfl
        | some st =>
          cases st with
          | connected c => exact absurd hl (hnc p c)
          | connecting =>
            have := (v.rxy.conn p).mp hl
            simp [reqWhere, reqPorts, respPorts, y5] at this
      have hp := ports_nil_of_lookup _ hnn
      simp [shouldTerminate, hp, x4, x3, x5] at x6

theorem View.goodbye_received {x y : Side} {wxy wyx : List Msg} (v : View x y wxy wyx)
    (hgy : y.ep.goodbyeSent = true) (hnx : NoInt x wyx) : x.ep.goodbyeReceived = true ∧ wyx = [] := by
  have hr : x.ep.goodbyeReceived = true := by
    rcases noInt_wire x wyx hnx (fun m rest hw => by
        subst hw
        exact rx_ok y x m rest wxy v.ryx v.rxy v.pyx v.fyx (v.ctlx m (by simp))) with h' | h'
    · have := v.fyx.gb; rw [h', hgy] at this
      cases hx : x.ep.goodbyeReceived with
      | true => rfl
      | false => simp [hx, b2n] at this
    · exact h'
  exact ⟨hr, v.fyx.done hr⟩

/-- with an empty table at `x`, no wire traffic and both exited, `y` has no connected entry either -/
theorem View.no_connected_peer {x y : Side} {wxy wyx : List Msg} (v : View x y wxy wyx)
    (hp : x.ep.ports = []) (hw : wxy = []) : ∀ p c, lookup y.ep.ports p ≠ some (.connected c) := by
  subst hw
  have hxn : ∀ q, lookup x.ep.ports q = none := fun q => by rw [hp]; rfl
  refine no_connected_of_owed y.ep x.ep wyx v.wy v.ny (fun p c hc => ?_) ?_ ?_
  · exact (v.pyx.tx p c hc).flags_of_dead (fun hl => hl.ne_none (hxn _))
  · rintro k p q ⟨d, hd, _⟩; rw [hxn q] at hd; simp at hd
  · rintro p q ⟨h1, _⟩; rw [hxn q] at h1; simp at h1

/-- **clean termination, core**: both endpoints have exchanged `Goodbye`, nothing is in flight and no
connected entry is left in either table -/
theorem View.terminated {x y : Side} {wxy wyx : List Msg} (v : View x y wxy wyx)
    (hdx : AllDropped x) (hdy : AllDropped y) (hnx : NoInt x wyx) (hny : NoInt y wxy) :
    x.ep.goodbyeSent = true ∧ y.ep.goodbyeSent = true ∧ x.ep.goodbyeReceived = true ∧ y.ep.goodbyeReceived = true ∧
    wxy = [] ∧ wyx = [] ∧ (∀ p c, lookup x.ep.ports p ≠ some (.connected c)) ∧
    (∀ p c, lookup y.ep.ports p ≠ some (.connected c)) := by
  have gx := v.goodbye_sent hdx hdy hnx hny
  have gy := v.swap.goodbye_sent hdy hdx hny hnx
  obtain ⟨rx, wx⟩ := v.goodbye_received gy hnx
  obtain ⟨ry, wy⟩ := v.swap.goodbye_received gx hny
  refine ⟨gx, gy, rx, ry, wy, wx, ?_, ?_⟩
  · rcases v.tx gx with hp | ⟨_, hp⟩
    · intro p c hc; rw [hp] at hc; simp [lookup] at hc
    · exact v.swap.no_connected_peer hp wx
  · rcases v.tx gx with hp | ⟨_, hp⟩
    · exact v.no_connected_peer hp wy
    · intro p c hc; rw [hp] at hc; simp [lookup] at hc

/-! ### a measure that every internal step decreases (no livelock) -/

def wEvt (ev : Evt) : Nat := if isConnReq ev then 4 else 2
def wMsg : Msg → Nat
  | .openPort _ _ _ => 3
  | _ => 1
def wQ (q : List Evt) : Nat := (q.map wEvt).sum
def wW (w : List Msg) : Nat := (w.map wMsg).sum
def sidePot (s : Side) : Nat :=
  wQ s.connQ + wQ s.portQ + (if s.ep.listenerDropped then 0 else 2) + (if s.ep.goodbyeSent then 0 else 2)
/-- potential of a state: what the runtime still has to do on its own -/
def potential (s : St) : Nat := sidePot s.a + sidePot s.b + wW s.toA + wW s.toB

theorem wW_append (a b : List Msg) : wW (a ++ b) = wW a + wW b := by simp [wW, List.sum_append]
theorem wQ_append (a b : List Evt) : wQ (a ++ b) = wQ a + wQ b := by simp [wQ, List.sum_append]

theorem handleEvt_weight (e e' : Ep) (ev : Evt) (m : Option Msg) (h : handleEvt e ev = some (e', m)) :
    wW (emitList m) + 1 ≤ wEvt ev := by
  cases ev <;> simp only [handleEvt] at h <;> (repeat' split at h) <;>
    first
    | (simp at h; done)
    | (simp only [Option.some.injEq, Prod.mk.injEq] at h; obtain ⟨_, rfl⟩ := h
       simp [wW, wEvt, isConnReq, emitList, wMsg, forPeer])

theorem handleRx_weight (e e' : Ep) (m : Msg) (em : Emit) (h : handleRx e m = .ok (e', em)) :
    wQ (autoEvts em) + 1 ≤ wMsg m := by
  cases m <;> simp only [handleRx] at h <;> (repeat' split at h) <;>
    first
    | (simp at h; done)
    | (simp only [Except.ok.injEq, Prod.mk.injEq] at h; obtain ⟨_, rfl⟩ := h
       simp [wQ, autoEvts, wMsg, wEvt, isConnReq])

theorem handleEvt_ld_mono (e e' : Ep) (ev : Evt) (m : Option Msg) (h : handleEvt e ev = some (e', m)) :
    (e.listenerDropped = true → e'.listenerDropped = true) ∧ (e.goodbyeSent = true → e'.goodbyeSent = true) := by
  rcases handleEvt_flags e e' ev m h with ⟨sf, _, _⟩ | ⟨_, _, rfl, _⟩ | ⟨_, _, rfl, _⟩ | ⟨_, _, rfl, _⟩
  · exact ⟨fun h' => by rw [sf.ld]; exact h', fun h' => by rw [sf.gbs]; exact h'⟩
  · exact ⟨fun h' => h', fun h' => h'⟩
  · exact ⟨fun _ => rfl, fun h' => h'⟩
  · exact ⟨fun h' => h', fun _ => rfl⟩

theorem handleRx_gbs (e e' : Ep) (m : Msg) (em : Emit) (h : handleRx e m = .ok (e', em)) :
    e'.goodbyeSent = e.goodbyeSent := by
  cases m <;> simp only [handleRx] at h <;> (repeat' split at h) <;>
    first
    | (simp at h; done)
    | (simp only [Except.ok.injEq, Prod.mk.injEq] at h; obtain ⟨rfl, _⟩ := h; simp)

theorem sidePot_of (s t : Side) (evs : List Evt) (h1 : t.ep.listenerDropped = s.ep.listenerDropped)
    (h2 : t.ep.goodbyeSent = s.ep.goodbyeSent) (h3 : t.connQ = s.connQ) (h4 : t.portQ = s.portQ ++ evs) :
    sidePot t = sidePot s + wQ evs := by
  simp only [sidePot, h1, h2, h3, h4, wQ_append]; omega

/-- one internal step of a side: its own potential plus what it adds to the outgoing wire is
smaller than before plus what it took from the incoming wire -/
theorem sidePot_step (s s' : Side) (inW inW' out : List Msg) (l : Lab) (hl : l.internal = true)
    (hs : stepSide s inW l = some (s', inW', out)) :
    sidePot s' + wW inW' + wW out < sidePot s + wW inW := by
  cases l <;> simp [Lab.internal] at hl <;> simp only [stepSide] at hs
  case dispConn =>
    (repeat' split at hs) <;> first
      | (simp at hs; done)
      | (rename_i ev rest hq' _ e' m he
         simp only [Option.some.injEq, Prod.mk.injEq] at hs; obtain ⟨rfl, rfl, rfl⟩ := hs
         have hw := handleEvt_weight _ _ _ _ he
         obtain ⟨m1, m2⟩ := handleEvt_ld_mono _ _ _ _ he
         simp only [sidePot, hq', wQ, List.map_cons, List.sum_cons]
         cases h1 : s.ep.listenerDropped <;> cases h2 : e'.listenerDropped <;>
           cases h3 : s.ep.goodbyeSent <;> cases h4 : e'.goodbyeSent <;> simp_all <;> omega)
  case dispPort =>
    (repeat' split at hs) <;> first
      | (simp at hs; done)
      | (rename_i ev rest hq' _ e' m he
         simp only [Option.some.injEq, Prod.mk.injEq] at hs; obtain ⟨rfl, rfl, rfl⟩ := hs
         have hw := handleEvt_weight _ _ _ _ he
         obtain ⟨m1, m2⟩ := handleEvt_ld_mono _ _ _ _ he
         simp only [sidePot, hq', wQ, List.map_cons, List.sum_cons, evtHandles_ep, evtHandles_connQ, evtHandles_portQ]
         cases h1 : s.ep.listenerDropped <;> cases h2 : e'.listenerDropped <;>
           cases h3 : s.ep.goodbyeSent <;> cases h4 : e'.goodbyeSent <;> simp_all <;> omega)
  case dispListener =>
    (repeat' split at hs) <;> first
      | (simp at hs; done)
      | (rename_i hg _ e' m he
         simp only [Option.some.injEq, Prod.mk.injEq] at hs; obtain ⟨rfl, rfl, rfl⟩ := hs
         simp only [Bool.and_eq_true, Bool.not_eq_true'] at hg
         simp only [handleEvt, hg.2, Bool.false_eq_true, if_false, Option.some.injEq, Prod.mk.injEq] at he
         obtain ⟨rfl, rfl⟩ := he
         have hm : wMsg Msg.listenerFinish = 1 := rfl
         simp only [sidePot, hg.2, emitList, wW, List.map_cons, List.map_nil, List.sum_cons, List.sum_nil, hm]
         simp; omega)
  case goodbye =>
    (repeat' split at hs) <;> first
      | (simp at hs; done)
      | (rename_i hg _ e' m he
         simp only [Option.some.injEq, Prod.mk.injEq] at hs; obtain ⟨rfl, rfl, rfl⟩ := hs
         simp only [Bool.and_eq_true, Side.dispatching, Bool.not_eq_true'] at hg
         simp only [handleEvt, hg.1, Bool.false_eq_true, if_false, Option.some.injEq, Prod.mk.injEq] at he
         obtain ⟨rfl, rfl⟩ := he
         have hm : wMsg Msg.goodbye = 1 := rfl
         simp only [sidePot, hg.1, emitList, wW, List.map_cons, List.map_nil, List.sum_cons, List.sum_nil, hm]
         simp; omega)
  case deliver =>
    (repeat' split at hs) <;> first
      | (simp at hs; done)
      | (rename_i m rest _ e' em he
         simp only [Option.some.injEq, Prod.mk.injEq] at hs; obtain ⟨rfl, rfl, rfl⟩ := hs
         have hw := handleRx_weight _ _ _ _ he
         have hg2 : e'.goodbyeSent = s.ep.goodbyeSent := handleRx_gbs s.rxView e' m em he
         rw [sidePot_of s _ (autoEvts em) (by simp [requeue]) (by simp [requeue, hg2]) (by simp) (by simp)]
         simp only [wW, List.map_cons, List.sum_cons, List.map_nil, List.sum_nil] at hw ⊢
         omega)

/-- **no livelock**: every internal step strictly decreases the potential -/
theorem potential_decreases (s s' : St) (x : Who) (l : Lab) (hl : l.internal = true) (h : step s x l = some s') :
    potential s' < potential s := by
  cases x with
  | A =>
    simp only [step, Option.map_eq_some_iff] at h
    obtain ⟨⟨a', inW, out⟩, hs, rfl⟩ := h
    have := sidePot_step s.a a' s.toA inW out l hl hs
    simp only [potential, wW_append]; omega
  | B =>
    simp only [step, Option.map_eq_some_iff] at h
    obtain ⟨⟨b', inW, out⟩, hs, rfl⟩ := h
    have := sidePot_step s.b b' s.toB inW out l hl hs
    simp only [potential, wW_append]; omega

/-- no internal label enabled anywhere -/
def Quiescent (s : St) : Prop := ∀ x l, l.internal = true → step s x l = none

theorem Quiescent.noInt (s : St) (h : Quiescent s) : NoInt s.a s.toA ∧ NoInt s.b s.toB := by
  constructor
  · intro l hl
    have := h .A l hl
    simpa [step] using this
  · intro l hl
    have := h .B l hl
    simpa [step] using this

end Remoc.Table.Sys
