import RemocModel.Table.Model
/-
M_table as a SYSTEM: two chmux endpoints (`Ep`, the dispatcher functions of `Table/Model.lean`,
used unchanged), the two FIFO wires between them and the API-side state that decides what a
*conforming application* can make the dispatcher do.  Sources: chmux/mux.rs (`run`: the event
selection in `send_prep_task`, `handle_event`, `handle_received_msg`), chmux/client.rs
(`Client::connect_ext`, `ConnectRequestCrediter`: a permit is held from the moment the request is
queued until its response was handled), chmux/listener.rs (`Listener::inspect`, `Request::accept_from`,
`Request::reject`, `Request::new`: a dropped request is rejected), chmux/port_allocator.rs
(`try_allocate`: a fresh number while fewer than `max_ports` are in use), chmux/sender.rs /
receiver.rs (drop tasks queue `SenderDropped` / `ReceiverDropped`, `Receiver::close`).

Every step changes ONE side: it may take the head of the wire towards that side and append to the
wire leaving it.  Data frames and credits are M_link's business and are left out.  No Mathlib.
-/
namespace Remoc.Table.Sys
open Remoc.Wire Remoc.Table

/-- One endpoint: dispatcher state plus the API objects of its application. -/
structure Side where
  ep : Ep
  /-- some `Client` handle is alive -/
  clientsAlive : Bool := true
  /-- the `Listener` object is alive (`ep.listenerDropped` is what the dispatcher has noticed) -/
  listenerAlive : Bool := true
  /-- `connect_rx`: queued `ConnectReq`s, FIFO; `AllClientsDropped` is the end of this queue -/
  connQ : List Evt := []
  /-- `channel_rx`: events queued by requests, senders and receivers, FIFO -/
  portQ : List Evt := []
  /-- remote ports of `Request` objects taken out of the listener queue, unanswered -/
  held : List Nat := []
  /-- local ports whose `Sender` handle is alive -/
  senders : List Nat := []
  /-- local ports whose `Receiver` handle is alive, with its `closed` flag -/
  receivers : List (Nat × Bool) := []
deriving Repr, DecidableEq

/-- Labels; each acts on one side.  Environment labels = what the application does;
internal labels = what the runtime does on its own. -/
inductive Lab where
  /-- `Client::connect_ext`: port number allocated, permit obtained, request queued -/
  | startConnect (p : Nat) (wait : Bool)
  /-- `Listener::inspect` returns the oldest request with the given wait flag -/
  | takeReq (wait : Bool)
  /-- `Request::accept_from` on a held request with a freshly allocated local port -/
  | acceptReq (rp lp : Nat)
  /-- `Request::reject`, or dropping the request (`noPorts = false`) -/
  | rejectReq (rp : Nat) (noPorts : Bool)
  | closeReceiver (p : Nat)
  | dropReceiver (p : Nat)
  | dropSender (p : Nat)
  | dropClients
  | dropListener
  /-- internal: the dispatcher takes the next connect request / notices that all clients are gone -/
  | dispConn
  /-- internal: the dispatcher takes the next port event -/
  | dispPort
  /-- internal: the dispatcher notices the dropped listener -/
  | dispListener
  /-- internal: `should_terminate` holds, `Goodbye` is sent -/
  | goodbye
  /-- internal: the head of the incoming wire is handled -/
  | deliver
deriving Repr, DecidableEq

def Lab.internal : Lab → Bool
  | .dispConn | .dispPort | .dispListener | .goodbye | .deliver => true
  | _ => false

def isConnReq : Evt → Bool
  | .connectReq _ _ _ => true
  | _ => false

/-- permits of the connect-credit semaphore in use -/
def Side.permits (s : Side) : Nat := (s.connQ.filter isConnReq).length + s.ep.clientPending

/-- `PortAllocator::try_allocate` hands out `p` -/
def canAlloc (e : Ep) (p : Nat) : Bool := !e.allocated.contains p && e.allocated.length < e.cfg.maxPorts

/-- first request of the listener queue with the given wait flag -/
def takeFirst (q : List (Nat × Bool)) (w : Bool) : Option (Nat × List (Nat × Bool)) :=
  match q with
  | [] => none
  | (p, w') :: rest =>
    if w' = w then some (p, rest)
    else match takeFirst rest w with
      | some (r, rest') => some (r, (p, w') :: rest')
      | none => none

/-- what `handle_received_msg` sees: a listener whose queues are closed behaves as dropped
(`try_send` fails with `Closed`, not `Full`; the request object is dropped = rejected) -/
def Side.rxView (s : Side) : Ep := { s.ep with listenerDropped := s.ep.listenerDropped || !s.listenerAlive }

/-- the dispatcher handles local events only while its send task is alive (until `Goodbye` is sent) -/
def Side.dispatching (s : Side) : Bool := !s.ep.goodbyeSent

def emitList : Option Msg → List Msg
  | some m => [m]
  | none => []

/-- new API handles after a local event: `create_port` returns a sender and a receiver -/
def withHandles (s : Side) (p : Nat) : Side :=
  { s with senders := s.senders ++ [p], receivers := s.receivers ++ [(p, false)] }

def setClosed (rs : List (Nat × Bool)) (p : Nat) : List (Nat × Bool) :=
  rs.map (fun r => if r.1 = p then (p, true) else r)

/-- handles created by handling a local event -/
def evtHandles (s : Side) : Evt → Side
  | .accepted lp _ => withHandles s lp
  | _ => s

/-- handles created by handling a received message -/
def rxHandles (s : Side) : Msg → Side
  | .portOpened cp _ => withHandles s cp
  | _ => s

/-- The automatic answer of `handle_received_msg` (an `OpenPort` nobody can take: the `Request` object
is dropped at once) is not sent by the dispatcher itself: the request's drop task queues a `Rejected`
event (`Request::new`), and the request stays in `outstanding_remote_port_requests` until that event
is handled.  `handleRx` reports the answer as an emission; here it goes through the event queue. -/
def autoEvts : List Msg → List Evt
  | .rejected cp np :: rest => .rejected cp np :: autoEvts rest
  | _ :: rest => autoEvts rest
  | [] => []

def requeue (e : Ep) (em : List Msg) : Ep :=
  { e with outstanding := e.outstanding ++ (autoEvts em).filterMap (fun ev => match ev with | .rejected cp _ => some cp | _ => none) }

/-- One step of one side.  `inW` is the wire towards this side; the result is the new side, the
rest of the incoming wire and the messages appended to the outgoing wire. -/
def stepSide (s : Side) (inW : List Msg) : Lab → Option (Side × List Msg × List Msg)
  | .startConnect p wait =>
    if s.clientsAlive && canAlloc s.ep p && decide (s.permits < s.ep.cfg.remoteCq) then
      some ({ s with ep := { s.ep with allocated := s.ep.allocated ++ [p] },
                     connQ := s.connQ ++ [.connectReq p wait p] }, inW, [])
    else none
  | .takeReq w =>
    if s.listenerAlive then
      match takeFirst s.ep.listenQ w with
      | some (rp, rest) => some ({ s with ep := { s.ep with listenQ := rest }, held := s.held ++ [rp] }, inW, [])
      | none => none
    else none
  | .acceptReq rp lp =>
    if s.held.contains rp && canAlloc s.ep lp then
      some ({ s with ep := { s.ep with allocated := s.ep.allocated ++ [lp] }, held := s.held.erase rp,
                     portQ := s.portQ ++ [.accepted lp rp] }, inW, [])
    else none
  | .rejectReq rp np =>
    if s.held.contains rp then
      some ({ s with held := s.held.erase rp, portQ := s.portQ ++ [.rejected rp np] }, inW, [])
    else none
  | .closeReceiver p =>
    if s.receivers.contains (p, false) then
      some ({ s with receivers := setClosed s.receivers p, portQ := s.portQ ++ [.receiverClosed p] }, inW, [])
    else none
  | .dropReceiver p =>
    if s.receivers.any (·.1 == p) then
      some ({ s with receivers := s.receivers.filter (·.1 != p), portQ := s.portQ ++ [.receiverDropped p] }, inW, [])
    else none
  | .dropSender p =>
    if s.senders.contains p then
      some ({ s with senders := s.senders.filter (· != p), portQ := s.portQ ++ [.senderDropped p] }, inW, [])
    else none
  | .dropClients =>
    if s.clientsAlive then
      some ({ s with clientsAlive := false, connQ := s.connQ ++ [.allClientsDropped] }, inW, [])
    else none
  | .dropListener =>
    if s.listenerAlive then
      -- the queued `Request` objects are dropped with the queues: each is rejected by its drop task
      some ({ s with listenerAlive := false,
                     portQ := s.portQ ++ s.ep.listenQ.map (fun r => Evt.rejected r.1 false),
                     ep := { s.ep with listenQ := [], clientDroppedQueued := 0 } }, inW, [])
    else none
  | .dispConn =>
    if s.dispatching then
      match s.connQ with
      | ev :: rest =>
        match handleEvt s.ep ev with
        | some (e', m) => some ({ s with ep := e', connQ := rest }, inW, emitList m)
        | none => none
      | [] => none
    else none
  | .dispPort =>
    if s.dispatching then
      match s.portQ with
      | ev :: rest =>
        match handleEvt s.ep ev with
        | some (e', m) => some (evtHandles { s with ep := e', portQ := rest } ev, inW, emitList m)
        | none => none
      | [] => none
    else none
  | .dispListener =>
    if s.dispatching && !s.listenerAlive && !s.ep.listenerDropped then
      match handleEvt s.ep .listenerDropped with
      | some (e', m) => some ({ s with ep := e' }, inW, emitList m)
      | none => none
    else none
  | .goodbye =>
    if s.dispatching && shouldTerminate s.ep then
      match handleEvt s.ep .sendGoodbye with
      | some (e', m) => some ({ s with ep := e' }, inW, emitList m)
      | none => none
    else none
  | .deliver =>
    if s.ep.goodbyeReceived then none else
    match inW with
    | m :: rest =>
      match handleRx s.rxView m with
      | .ok (e', em) =>
        some (rxHandles { s with ep := requeue { e' with listenerDropped := s.ep.listenerDropped } em,
                                 portQ := s.portQ ++ autoEvts em } m, rest, [])
      | .error _ => none
    | [] => none

inductive Who where | A | B
deriving Repr, DecidableEq

/-- The system: two sides and the wire towards each. -/
structure St where
  a : Side
  b : Side
  /-- wire towards `a` (written by `b`) -/
  toA : List Msg := []
  /-- wire towards `b` (written by `a`) -/
  toB : List Msg := []
deriving Repr, DecidableEq

def step (s : St) (x : Who) (l : Lab) : Option St :=
  match x with
  | .A => (stepSide s.a s.toA l).map (fun (a', inW, out) => { s with a := a', toA := inW, toB := s.toB ++ out })
  | .B => (stepSide s.b s.toB l).map (fun (b', inW, out) => { s with b := b', toB := inW, toA := s.toA ++ out })

def run (s : St) : List (Who × Lab) → St
  | [] => s
  | (x, l) :: ls => match step s x l with
    | some s' => run s' ls
    | none => run s ls

/-- initial state: both endpoints after the `Hello` exchange (each knows the other's `cq`) -/
def initEp (maxPorts cq remoteCq : Nat) : Ep :=
  { cfg := { maxPorts := maxPorts, cq := cq, chunk := 0, buf := 0, remoteCq := remoteCq } }

def init (mpA cqA mpB cqB : Nat) : St :=
  { a := { ep := initEp mpA cqA cqB }, b := { ep := initEp mpB cqB cqA } }

end Remoc.Table.Sys
