import RemocModel.Table.ConnInv
import RemocModel.Table.Lemmas
set_option linter.unusedSimpArgs false
set_option linter.unusedVariables false
/-
Effect lemmas: what `handleEvt` / `handleRx` / `maybeFree` do to the projections the system
invariants speak about (connecting ports, `clientPending`, `outstanding`, configuration).
-/
namespace Remoc.Table.Sys
open Remoc.Wire Remoc.Table

theorem maybeFree_connecting (e : Ep) (p q : Nat) :
    lookup (maybeFree e p).ports q = some .connecting ↔ lookup e.ports q = some .connecting := by
  unfold maybeFree
  split
  · rename_i c hc
    split
    · rw [lookup_erase]
      by_cases hq : q = p
      · subst hq; simp [hc]
      · simp [hq]
    · exact Iff.rfl
  · exact Iff.rfl

theorem maybeFree_cfg (e : Ep) (p : Nat) : (maybeFree e p).cfg = e.cfg := by
  unfold maybeFree; (repeat' split) <;> rfl
theorem maybeFree_outstanding (e : Ep) (p : Nat) : (maybeFree e p).outstanding = e.outstanding := by
  unfold maybeFree; (repeat' split) <;> rfl
theorem maybeFree_clientPending (e : Ep) (p : Nat) : (maybeFree e p).clientPending = e.clientPending := by
  unfold maybeFree; (repeat' split) <;> rfl
theorem maybeFree_listenQ (e : Ep) (p : Nat) : (maybeFree e p).listenQ = e.listenQ := by
  unfold maybeFree; (repeat' split) <;> rfl

/-- setting a connected entry at a port that is not connecting leaves the connecting ports alone -/
theorem setConnected_connecting (ps : List (Nat × PortSt)) (p q : Nat) (c : Connected)
    (hp : lookup ps p ≠ some .connecting) :
    lookup (setPort ps p (.connected c)) q = some .connecting ↔ lookup ps q = some .connecting := by
  rw [lookup_setPort]
  by_cases hq : q = p
  · subst hq; simp [hp]
  · simp [hq]

theorem reqPorts_append (a b : List Msg) : reqPorts (a ++ b) = reqPorts a ++ reqPorts b := by
  induction a with
  | nil => rfl
  | cons m w ih => cases m <;> simp [reqPorts, ih]

theorem respPorts_append (a b : List Msg) : respPorts (a ++ b) = respPorts a ++ respPorts b := by
  induction a with
  | nil => rfl
  | cons m w ih => cases m <;> simp [respPorts, ih]

theorem ansPorts_append (a b : List Evt) : ansPorts (a ++ b) = ansPorts a ++ ansPorts b := by
  induction a with
  | nil => rfl
  | cons m w ih => cases m <;> simp [ansPorts, ih]

def Evt.isConnReq (ev : Evt) : Bool := Sys.isConnReq ev
def isAnswer : Evt → Bool
  | .accepted _ _ | .rejected _ _ => true
  | _ => false

theorem handleEvt_cfg (e e' : Ep) (ev : Evt) (m : Option Msg) (h : handleEvt e ev = some (e', m)) :
    e'.cfg = e.cfg := by
  cases ev <;> simp only [handleEvt] at h <;> (repeat' split at h) <;>
    first
    | (simp at h; done)
    | (simp only [Option.some.injEq, Prod.mk.injEq] at h; rw [← h.1]; try exact maybeFree_cfg _ _)

/-- events other than a connect request leave the client-role projections alone -/
theorem handleEvt_client (e e' : Ep) (ev : Evt) (m : Option Msg) (h : handleEvt e ev = some (e', m))
    (hev : isConnReq ev = false) :
    (∀ q, lookup e'.ports q = some .connecting ↔ lookup e.ports q = some .connecting) ∧
    e'.clientPending = e.clientPending ∧ reqPorts (emitList m) = [] := by
  cases ev with
  | connectReq p w i => simp [isConnReq] at hev
  | accepted lp rp =>
    simp only [handleEvt] at h
    split at h
    · simp at h
    · rename_i hg
      simp only [Option.some.injEq, Prod.mk.injEq] at h
      obtain ⟨rfl, rfl⟩ := h
      refine ⟨fun q => setConnected_connecting _ _ _ _ ?_, rfl, rfl⟩
      intro hc; apply hg; right; simp [hc]
  | rejected rp np =>
    simp only [handleEvt] at h
    split at h
    · simp at h
    · simp only [Option.some.injEq, Prod.mk.injEq] at h
      obtain ⟨rfl, rfl⟩ := h
      exact ⟨fun q => Iff.rfl, rfl, rfl⟩
  | senderDropped p =>
    simp only [handleEvt] at h
    split at h
    · rename_i c hc
      split at h
      · simp at h
      · simp only [Option.some.injEq, Prod.mk.injEq] at h
        obtain ⟨rfl, rfl⟩ := h
        refine ⟨fun q => ?_, by rw [maybeFree_clientPending], rfl⟩
        rw [maybeFree_connecting]; exact setConnected_connecting _ _ _ _ (by simp [hc])
    · simp at h
  | receiverClosed p =>
    simp only [handleEvt] at h
    split at h
    · rename_i c hc
      split at h
      · simp at h
      · simp only [Option.some.injEq, Prod.mk.injEq] at h
        obtain ⟨rfl, rfl⟩ := h
        exact ⟨fun q => setConnected_connecting _ _ _ _ (by simp [hc]), rfl, rfl⟩
    · simp at h
  | receiverDropped p =>
    simp only [handleEvt] at h
    split at h
    · rename_i c hc
      split at h
      · simp at h
      · simp only [Option.some.injEq, Prod.mk.injEq] at h
        obtain ⟨rfl, rfl⟩ := h
        refine ⟨fun q => ?_, by rw [maybeFree_clientPending], rfl⟩
        rw [maybeFree_connecting]; exact setConnected_connecting _ _ _ _ (by simp [hc])
    · simp at h
  | allClientsDropped =>
    simp only [handleEvt] at h
    split at h
    · simp at h
    · simp only [Option.some.injEq, Prod.mk.injEq] at h
      obtain ⟨rfl, rfl⟩ := h
      exact ⟨fun q => Iff.rfl, rfl, rfl⟩
  | listenerDropped =>
    simp only [handleEvt] at h
    split at h
    · simp at h
    · simp only [Option.some.injEq, Prod.mk.injEq] at h
      obtain ⟨rfl, rfl⟩ := h
      exact ⟨fun q => Iff.rfl, rfl, rfl⟩
  | sendGoodbye =>
    simp only [handleEvt] at h
    split at h
    · simp at h
    · simp only [Option.some.injEq, Prod.mk.injEq] at h
      obtain ⟨rfl, rfl⟩ := h
      exact ⟨fun q => Iff.rfl, rfl, rfl⟩

theorem forPeer_openPort (v p : Nat) (w : Bool) (i : Option Nat) :
    ∃ i', forPeer v (.openPort p w i) = .openPort p w i' := ⟨_, rfl⟩

theorem handleEvt_connectReq (e e' : Ep) (p i : Nat) (w : Bool) (m : Option Msg)
    (h : handleEvt e (.connectReq p w i) = some (e', m)) :
    lookup e.ports p = none ∧ e'.outstanding = e.outstanding ∧ e'.listenQ = e.listenQ ∧ respPorts (emitList m) = [] ∧
    ((m = none ∧ (∀ q, lookup e'.ports q = some .connecting ↔ lookup e.ports q = some .connecting) ∧
        e'.clientPending = e.clientPending) ∨
     ((∃ i', m = some (.openPort p w i')) ∧
        (∀ q, lookup e'.ports q = some .connecting ↔ (q = p ∨ lookup e.ports q = some .connecting)) ∧
        e'.clientPending = e.clientPending + 1)) := by
  simp only [handleEvt] at h
  split at h
  · simp at h
  · rename_i hn
    have hn' : lookup e.ports p = none := by simpa using hn
    split at h
    · simp only [Option.some.injEq, Prod.mk.injEq] at h
      obtain ⟨rfl, rfl⟩ := h
      exact ⟨hn', rfl, rfl, rfl, Or.inl ⟨rfl, fun q => Iff.rfl, rfl⟩⟩
    · simp only [Option.some.injEq, Prod.mk.injEq] at h
      obtain ⟨rfl, rfl⟩ := h
      refine ⟨hn', rfl, rfl, by simp [emitList, forPeer, respPorts], Or.inr ⟨⟨_, rfl⟩, fun q => ?_, rfl⟩⟩
      simp only [lookup_setPort]
      by_cases hq : q = p
      · simp [hq]
      · simp [hq]

/-- an answer event removes its request from `outstanding` and puts exactly one answer on the wire -/
theorem handleEvt_answer (e e' : Ep) (ev : Evt) (m : Option Msg) (h : handleEvt e ev = some (e', m))
    (rp : Nat) (hev : ansPorts [ev] = [rp]) :
    rp ∈ e.outstanding ∧ e'.outstanding = e.outstanding.filter (· != rp) ∧ e'.listenQ = e.listenQ ∧
    respPorts (emitList m) = [rp] := by
  cases ev with
  | accepted lp rp' =>
    simp [ansPorts] at hev
    subst hev
    simp only [handleEvt] at h
    split at h
    · simp at h
    · rename_i hg
      simp only [Option.some.injEq, Prod.mk.injEq] at h
      obtain ⟨rfl, rfl⟩ := h
      refine ⟨?_, rfl, rfl, rfl⟩
      by_cases hc : e.outstanding.contains rp'
      · simpa using hc
      · exact absurd (Or.inl hc) hg
  | rejected rp' np =>
    simp [ansPorts] at hev
    subst hev
    simp only [handleEvt] at h
    split at h
    · simp at h
    · rename_i hg
      simp only [Option.some.injEq, Prod.mk.injEq] at h
      obtain ⟨rfl, rfl⟩ := h
      exact ⟨by simpa using hg, rfl, rfl, rfl⟩
  | _ => simp [ansPorts] at hev

/-- other events leave `outstanding` alone and put no answer on the wire -/
theorem handleEvt_noAnswer (e e' : Ep) (ev : Evt) (m : Option Msg) (h : handleEvt e ev = some (e', m))
    (hev : ansPorts [ev] = []) :
    e'.outstanding = e.outstanding ∧ respPorts (emitList m) = [] ∧
    (e'.listenQ = e.listenQ ∨ (ev = .listenerDropped ∧ e'.listenQ = [])) := by
  cases ev with
  | connectReq p w i =>
    obtain ⟨_, h1, h2, h3, _⟩ := handleEvt_connectReq e e' p i w m h
    exact ⟨h1, h3, Or.inl h2⟩
  | accepted lp rp => simp [ansPorts] at hev
  | rejected rp np => simp [ansPorts] at hev
  | listenerDropped =>
    simp only [handleEvt] at h
    split at h
    · simp at h
    · simp only [Option.some.injEq, Prod.mk.injEq] at h
      obtain ⟨rfl, rfl⟩ := h
      exact ⟨rfl, rfl, Or.inr ⟨rfl, rfl⟩⟩
  | senderDropped p =>
    simp only [handleEvt] at h
    (repeat' split at h) <;> first
      | (simp at h; done)
      | (simp only [Option.some.injEq, Prod.mk.injEq] at h; obtain ⟨rfl, rfl⟩ := h
         exact ⟨by rw [maybeFree_outstanding], rfl, Or.inl (by rw [maybeFree_listenQ])⟩)
  | receiverDropped p =>
    simp only [handleEvt] at h
    (repeat' split at h) <;> first
      | (simp at h; done)
      | (simp only [Option.some.injEq, Prod.mk.injEq] at h; obtain ⟨rfl, rfl⟩ := h
         exact ⟨by rw [maybeFree_outstanding], rfl, Or.inl (by rw [maybeFree_listenQ])⟩)
  | receiverClosed p =>
    simp only [handleEvt] at h
    (repeat' split at h) <;> first
      | (simp at h; done)
      | (simp only [Option.some.injEq, Prod.mk.injEq] at h; obtain ⟨rfl, rfl⟩ := h
         exact ⟨rfl, rfl, Or.inl rfl⟩)
  | allClientsDropped =>
    simp only [handleEvt] at h
    (repeat' split at h) <;> first
      | (simp at h; done)
      | (simp only [Option.some.injEq, Prod.mk.injEq] at h; obtain ⟨rfl, rfl⟩ := h
         exact ⟨rfl, rfl, Or.inl rfl⟩)
  | sendGoodbye =>
    simp only [handleEvt] at h
    (repeat' split at h) <;> first
      | (simp at h; done)
      | (simp only [Option.some.injEq, Prod.mk.injEq] at h; obtain ⟨rfl, rfl⟩ := h
         exact ⟨rfl, rfl, Or.inl rfl⟩)

theorem filter_ne_snoc (l : List Nat) (cp : Nat) (h : cp ∉ l) : (l ++ [cp]).filter (· != cp) = l := by
  rw [List.filter_append]
  have : l.filter (· != cp) = l := by
    apply List.filter_eq_self.mpr
    intro a ha; simp; intro hac; subst hac; exact h ha
  simp [this]

theorem handleRx_openPort (e e' : Ep) (cp : Nat) (w : Bool) (id : Option Nat) (em : Emit)
    (h : handleRx e (.openPort cp w id) = .ok (e', em)) :
    cp ∉ e.outstanding ∧ e'.ports = e.ports ∧ e'.clientPending = e.clientPending ∧ e'.cfg = e.cfg ∧
    (requeue e' em).outstanding = e.outstanding ++ [cp] ∧
    ((e.listenerDropped = true ∧ autoEvts em = [.rejected cp false] ∧ e'.listenQ = e.listenQ) ∨
     (e.listenerDropped = false ∧ autoEvts em = [] ∧ e'.listenQ = e.listenQ ++ [(cp, w)])) := by
  simp only [handleRx] at h
  split at h
  · simp at h
  · rename_i hc
    have hc' : cp ∉ e.outstanding := by simpa using hc
    split at h
    · rename_i hl
      simp only [Except.ok.injEq, Prod.mk.injEq] at h
      obtain ⟨rfl, rfl⟩ := h
      refine ⟨hc', rfl, rfl, rfl, ?_, Or.inl ⟨hl, rfl, rfl⟩⟩
      simp only [requeue, autoEvts, List.filterMap]
      rw [filter_ne_snoc _ _ hc']
    · rename_i hl
      split at h
      · simp at h
      · simp only [Except.ok.injEq, Prod.mk.injEq] at h
        obtain ⟨rfl, rfl⟩ := h
        refine ⟨hc', rfl, rfl, rfl, by simp [requeue, autoEvts], Or.inr ⟨by simpa using hl, rfl, rfl⟩⟩

theorem handleRx_response (e e' : Ep) (m : Msg) (cp : Nat) (em : Emit) (hm : respPorts [m] = [cp])
    (h : handleRx e m = .ok (e', em)) :
    lookup e.ports cp = some .connecting ∧
    (∀ q, lookup e'.ports q = some .connecting ↔ (q ≠ cp ∧ lookup e.ports q = some .connecting)) ∧
    e'.clientPending = e.clientPending - 1 ∧ e'.outstanding = e.outstanding ∧ e'.listenQ = e.listenQ ∧
    e'.cfg = e.cfg ∧ em = [] := by
  cases m with
  | portOpened cp' sp =>
    simp [respPorts] at hm; subst hm
    simp only [handleRx] at h
    split at h
    · rename_i hl
      simp only [Except.ok.injEq, Prod.mk.injEq] at h
      obtain ⟨rfl, rfl⟩ := h
      refine ⟨hl, fun q => ?_, rfl, rfl, rfl, rfl, rfl⟩
      simp only [lookup_setPort]
      by_cases hq : q = cp' <;> simp [hq]
    · simp at h
  | rejected cp' np =>
    simp [respPorts] at hm; subst hm
    simp only [handleRx] at h
    split at h
    · rename_i hl
      simp only [Except.ok.injEq, Prod.mk.injEq] at h
      obtain ⟨rfl, rfl⟩ := h
      refine ⟨hl, fun q => ?_, rfl, rfl, rfl, rfl, rfl⟩
      simp only [lookup_erase]
      by_cases hq : q = cp' <;> simp [hq]
    · simp at h
  | _ => simp [respPorts] at hm

/-- messages about ports and the connection other than requests and answers -/
def isOther : Msg → Bool
  | .sendFinish _ | .receiveClose _ | .receiveFinish _ | .clientFinish | .listenerFinish | .goodbye => true
  | _ => false

theorem handleRx_other (e e' : Ep) (m : Msg) (em : Emit) (hm : isOther m = true)
    (h : handleRx e m = .ok (e', em)) :
    (∀ q, lookup e'.ports q = some .connecting ↔ lookup e.ports q = some .connecting) ∧
    e'.clientPending = e.clientPending ∧ e'.outstanding = e.outstanding ∧ e'.listenQ = e.listenQ ∧
    e'.cfg = e.cfg ∧ em = [] := by
  cases m with
  | sendFinish p =>
    simp only [handleRx] at h
    (repeat' split at h) <;> first
      | (simp at h; done)
      | (rename_i c hc _
         simp only [Except.ok.injEq, Prod.mk.injEq] at h; obtain ⟨rfl, rfl⟩ := h
         refine ⟨fun q => ?_, by rw [maybeFree_clientPending], by rw [maybeFree_outstanding],
                 by rw [maybeFree_listenQ], by rw [maybeFree_cfg], rfl⟩
         rw [maybeFree_connecting]; exact setConnected_connecting _ _ _ _ (by simp [hc]))
  | receiveClose p =>
    simp only [handleRx] at h
    (repeat' split at h) <;> first
      | (simp at h; done)
      | (rename_i c hc _
         simp only [Except.ok.injEq, Prod.mk.injEq] at h; obtain ⟨rfl, rfl⟩ := h
         refine ⟨fun q => ?_, by rw [maybeFree_clientPending], by rw [maybeFree_outstanding],
                 by rw [maybeFree_listenQ], by rw [maybeFree_cfg], rfl⟩
         rw [maybeFree_connecting]; exact setConnected_connecting _ _ _ _ (by simp [hc]))
  | receiveFinish p =>
    simp only [handleRx] at h
    (repeat' split at h) <;> first
      | (simp at h; done)
      | (rename_i c hc
         simp only [Except.ok.injEq, Prod.mk.injEq] at h; obtain ⟨rfl, rfl⟩ := h
         refine ⟨fun q => ?_, by rw [maybeFree_clientPending], by rw [maybeFree_outstanding],
                 by rw [maybeFree_listenQ], by rw [maybeFree_cfg], rfl⟩
         rw [maybeFree_connecting]; exact setConnected_connecting _ _ _ _ (by simp [hc]))
  | clientFinish =>
    simp only [handleRx] at h
    (repeat' split at h) <;> first
      | (simp at h; done)
      | (simp only [Except.ok.injEq, Prod.mk.injEq] at h; obtain ⟨rfl, rfl⟩ := h
         exact ⟨fun q => Iff.rfl, rfl, rfl, rfl, rfl, rfl⟩)
  | listenerFinish =>
    simp only [handleRx, Except.ok.injEq, Prod.mk.injEq] at h; obtain ⟨rfl, rfl⟩ := h
    exact ⟨fun q => Iff.rfl, rfl, rfl, rfl, rfl, rfl⟩
  | goodbye =>
    simp only [handleRx, Except.ok.injEq, Prod.mk.injEq] at h; obtain ⟨rfl, rfl⟩ := h
    exact ⟨fun q => Iff.rfl, rfl, rfl, rfl, rfl, rfl⟩
  | _ => simp [isOther] at hm

theorem maybeFree_sub (e : Ep) (p q : Nat) (st : PortSt) (h : lookup (maybeFree e p).ports q = some st) :
    lookup e.ports q = some st := by
  unfold maybeFree at h
  split at h
  · split at h
    · rw [lookup_erase] at h
      by_cases hq : q = p
      · simp [hq] at h
      · simpa [hq] using h
    · exact h
  · exact h

/-- entries after "set the entry of `p`, then `maybe_free_port p`" -/
theorem maybeFree_set_cases (e : Ep) (p : Nat) (c1 : Connected) (p' : Nat) (st : PortSt)
    (h : lookup (maybeFree { e with ports := setPort e.ports p (.connected c1) } p).ports p' = some st) :
    (p' = p ∧ st = .connected c1) ∨ (p' ≠ p ∧ lookup e.ports p' = some st) := by
  have := maybeFree_sub _ _ _ _ h
  simp only [lookup_setPort] at this
  by_cases hq : p' = p
  · left; simp only [hq, if_true, Option.some.injEq] at this; exact ⟨hq, this.symm⟩
  · right; simp only [hq, if_false] at this; exact ⟨hq, this⟩

theorem setPort_cases (ps : List (Nat × PortSt)) (p : Nat) (s1 : PortSt) (p' : Nat) (st : PortSt)
    (h : lookup (setPort ps p s1) p' = some st) :
    (p' = p ∧ st = s1) ∨ (p' ≠ p ∧ lookup ps p' = some st) := by
  simp only [lookup_setPort] at h
  by_cases hq : p' = p
  · left; simp only [hq, if_true, Option.some.injEq] at h; exact ⟨hq, h.symm⟩
  · right; simp only [hq, if_false] at h; exact ⟨hq, h⟩

/-- when `maybe_free_port` removes the entry, all four flags were set -/
theorem maybeFree_removed (e : Ep) (p : Nat) (c : Connected) (h : lookup e.ports p = some (.connected c))
    (hn : lookup (maybeFree e p).ports p = none) : c.free = true := by
  unfold maybeFree at hn
  rw [h] at hn
  simp only [] at hn
  by_cases hf : c.free
  · exact hf
  · simp only [hf, Bool.false_eq_true, if_false, h] at hn; simp at hn

theorem maybeFree_lookup (e : Ep) (p q : Nat) :
    lookup (maybeFree e p).ports q = lookup e.ports q ∨ (q = p ∧ lookup (maybeFree e p).ports q = none) := by
  unfold maybeFree
  split
  · split
    · rw [lookup_erase]
      by_cases hq : q = p
      · right; simp [hq]
      · left; simp [hq]
    · left; rfl
  · left; rfl

end Remoc.Table.Sys
