import RemocModel.Table.Model
set_option linter.unusedSimpArgs false

namespace Remoc.Table

theorem lookup_erase (ps : List (Nat × PortSt)) (p q : Nat) :
    lookup (erase ps p) q = if q = p then none else lookup ps q := by
  induction ps with
  | nil => simp [lookup, erase]
  | cons a as ih =>
    obtain ⟨k, v⟩ := a
    simp only [lookup, erase]
    by_cases h1 : k = p
    · simp only [h1, if_true]
      rw [ih]
      by_cases h2 : q = p
      · simp [h2]
      · have : ¬ (p = q) := fun h => h2 h.symm
        simp [h2, this]
    · simp only [h1, if_false, lookup]
      by_cases h3 : k = q
      · have : ¬ (q = p) := by omega
        simp [h3, this]
      · simp only [h3, if_false]; exact ih

theorem lookup_setPort (ps : List (Nat × PortSt)) (p q : Nat) (s : PortSt) :
    lookup (setPort ps p s) q = if q = p then some s else lookup ps q := by
  simp only [setPort, lookup]
  by_cases h : p = q
  · simp [h]
  · have : ¬ (q = p) := fun h' => h h'.symm
    simp [h, this, lookup_erase]

end Remoc.Table
