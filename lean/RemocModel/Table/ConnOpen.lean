import RemocModel.Table.ConnPortY
set_option linter.unusedSimpArgs false
set_option linter.unusedVariables false
/-
Every `PortOpened cp sp` in flight (sent by the server side `y`, wire `wyx`) has a fresh partner:
`y[sp]` is connected to `cp` with no remote flag set and `x` has sent nothing for `sp` yet.
-/
namespace Remoc.Table.Sys
open Remoc.Wire Remoc.Table

def OpenInv (y : Ep) (wxy wyx : List Msg) : Prop :=
  ∀ cp sp, Msg.portOpened cp sp ∈ wyx → FreshPartner y wxy cp sp

theorem portOpened_mem_resp (w : List Msg) (cp sp : Nat) (h : Msg.portOpened cp sp ∈ w) : cp ∈ respPorts w := by
  induction w with
  | nil => simp at h
  | cons a as ih =>
    rw [respPorts_cons]
    rcases List.mem_cons.mp h with h' | h'
    · subst h'; simp [respPorts]
    · exact List.mem_append.mpr (Or.inr (ih h'))

/-- a port message emitted by a local event names the remote port of a port with a live partner -/
theorem evt_names_live (x x' y : Ep) (w : List Msg) (ev : Evt) (m : Msg) (q : Nat)
    (he : handleEvt x ev = some (x', some m)) (h : PortInv x y w) (hq : q ∈ namedPorts [m]) :
    ∃ p c, lookup x.ports p = some (.connected c) ∧ Live y w p q := by
  cases ev <;> simp only [handleEvt] at he <;> (repeat' split at he) <;>
    first
    | (simp at he; done)
    | (simp only [Option.some.injEq, Prod.mk.injEq] at he; obtain ⟨_, rfl⟩ := he
       simp [namedPorts, forPeer] at hq; done)
    | (rename_i c hc hs
       simp only [Option.some.injEq, Prod.mk.injEq] at he; obtain ⟨_, rfl⟩ := he
       simp only [namedPorts, List.mem_singleton] at hq; subst hq
       refine ⟨_, c, hc, ?_⟩
       first
         | exact ((h.tx _ c hc).sd0 (by simpa using hs)).1
         | exact ((h.tx _ c hc).rd0 (by simpa using hs)).1
         | (simp only [not_or, Bool.not_eq_true] at hs; exact ((h.tx _ c hc).rd0 hs.2).1))

theorem noneFor_snoc (w : List Msg) (m : Msg) (q : Nat) (h : noneFor w q) (hq : q ∉ namedPorts [m]) :
    noneFor (w ++ [m]) q := by
  obtain ⟨h1, h2, h3⟩ := h
  cases m <;> simp [namedPorts] at hq <;>
    simp [noneFor, cntSF, cntRC, cntRF, List.count_append, List.count_cons] <;>
    simp only [cntSF, cntRC, cntRF] at h1 h2 h3 <;> (try omega) <;>
    (refine ⟨?_, ?_, ?_⟩ <;> first | assumption | (intro h'; exact absurd h'.symm hq) | (intro h'; exact absurd h' hq) | omega)

/-- writer side of the data wire (`x`) handles a local event -/
theorem open_x_evt (x x' y : Ep) (wxy wyx : List Msg) (ev : Evt) (m : Option Msg)
    (he : handleEvt x ev = some (x', m)) (h : PortInv x y wxy) (ho : OpenInv y wxy wyx)
    (hresp : ∀ cp ∈ respPorts wyx, lookup x.ports cp = some .connecting) :
    OpenInv y (wxy ++ emitList m) wyx := by
  intro cp sp hin
  obtain ⟨d, hd, hr, f1, f2, f3, hn⟩ := ho cp sp hin
  refine ⟨d, hd, hr, f1, f2, f3, ?_⟩
  cases m with
  | none => simpa [emitList] using hn
  | some m =>
    refine noneFor_snoc wxy m sp hn (fun hq => ?_)
    obtain ⟨p, c, hc, hl⟩ := evt_names_live x x' y wxy ev m sp he h hq
    have hcp : lookup x.ports cp = some .connecting := hresp cp (portOpened_mem_resp wyx cp sp hin)
    rcases hl with ⟨d', hd', hp⟩ | ⟨hcn, _⟩
    · rw [hd] at hd'; injection hd' with h'; injection h' with h'; subst h'
      rw [hr] at hp; subst hp; rw [hc] at hcp; simp at hcp
    · rw [hd] at hcn; simp at hcn

theorem open_x_rx (y : Ep) (wxy rest : List Msg) (m : Msg) (ho : OpenInv y wxy (m :: rest)) :
    OpenInv y wxy rest := fun cp sp hin => ho cp sp (List.mem_cons_of_mem _ hin)

theorem maybeFree_keeps_unfinished (e : Ep) (p q : Nat) (d : Connected)
    (h : lookup e.ports q = some (.connected d)) (hf : d.remoteSendFinished = false) :
    lookup (maybeFree e p).ports q = some (.connected d) := by
  rcases maybeFree_lookup e p q with h' | ⟨rfl, h'⟩
  · rw [h', h]
  · have := maybeFree_removed e q d h h'
    obtain ⟨_, _, g, _⟩ := free_flags d this
    rw [hf] at g; simp at g

/-- a local event keeps every connected entry whose remote sender has not finished, with the same
remote view -/
theorem handleEvt_keeps_conn (e e' : Ep) (ev : Evt) (m : Option Msg) (h : handleEvt e ev = some (e', m))
    (q : Nat) (d : Connected) (hd : lookup e.ports q = some (.connected d)) (hf : d.remoteSendFinished = false) :
    ∃ d', lookup e'.ports q = some (.connected d') ∧ SameRemote d' d := by
  cases ev with
  | connectReq p wt i =>
    simp only [handleEvt] at h
    (repeat' split at h) <;> first
      | (simp at h; done)
      | (simp only [Option.some.injEq, Prod.mk.injEq] at h; obtain ⟨rfl, _⟩ := h
         exact ⟨d, hd, rfl, rfl, rfl, rfl⟩)
      | (rename_i hn _
         simp only [Option.some.injEq, Prod.mk.injEq] at h; obtain ⟨rfl, _⟩ := h
         have hne : q ≠ p := by intro h'; subst h'; rw [hd] at hn; simp at hn
         exact ⟨d, by simp [lookup_setPort, hne, hd], rfl, rfl, rfl, rfl⟩)
  | accepted lp rp =>
    simp only [handleEvt] at h
    split at h
    · simp at h
    · rename_i hg
      simp only [Option.some.injEq, Prod.mk.injEq] at h; obtain ⟨rfl, _⟩ := h
      have hne : q ≠ lp := by intro h'; subst h'; apply hg; right; simp [hd]
      exact ⟨d, by simp [lookup_setPort, hne, hd], rfl, rfl, rfl, rfl⟩
  | senderDropped p =>
    simp only [handleEvt] at h
    (repeat' split at h) <;> first
      | (simp at h; done)
      | (rename_i c hc _
         simp only [Option.some.injEq, Prod.mk.injEq] at h; obtain ⟨rfl, _⟩ := h
         by_cases hq : q = p
         · subst hq; rw [hd] at hc; injection hc with hc; injection hc with hc; subst hc
           exact ⟨_, maybeFree_keeps_unfinished _ _ _ { d with senderDropped := true } (by simp [lookup_setPort]) hf,
                  rfl, rfl, rfl, rfl⟩
         · exact ⟨d, maybeFree_keeps_unfinished _ _ _ d (by simp [lookup_setPort, hq, hd]) hf, rfl, rfl, rfl, rfl⟩)
  | receiverDropped p =>
    simp only [handleEvt] at h
    (repeat' split at h) <;> first
      | (simp at h; done)
      | (rename_i c hc _
         simp only [Option.some.injEq, Prod.mk.injEq] at h; obtain ⟨rfl, _⟩ := h
         by_cases hq : q = p
         · subst hq; rw [hd] at hc; injection hc with hc; injection hc with hc; subst hc
           exact ⟨_, maybeFree_keeps_unfinished _ _ _ { d with receiverDropped := true } (by simp [lookup_setPort]) hf,
                  rfl, rfl, rfl, rfl⟩
         · exact ⟨d, maybeFree_keeps_unfinished _ _ _ d (by simp [lookup_setPort, hq, hd]) hf, rfl, rfl, rfl, rfl⟩)
  | receiverClosed p =>
    simp only [handleEvt] at h
    (repeat' split at h) <;> first
      | (simp at h; done)
      | (rename_i c hc _
         simp only [Option.some.injEq, Prod.mk.injEq] at h; obtain ⟨rfl, _⟩ := h
         by_cases hq : q = p
         · subst hq; rw [hd] at hc; injection hc with hc; injection hc with hc; subst hc
           exact ⟨{ d with receiverClosed := true }, by simp [lookup_setPort], rfl, rfl, rfl, rfl⟩
         · exact ⟨d, by simp [lookup_setPort, hq, hd], rfl, rfl, rfl, rfl⟩)
  | rejected rp np =>
    simp only [handleEvt] at h
    (repeat' split at h) <;> first
      | (simp at h; done)
      | (simp only [Option.some.injEq, Prod.mk.injEq] at h; obtain ⟨rfl, _⟩ := h
         exact ⟨d, hd, rfl, rfl, rfl, rfl⟩)
  | allClientsDropped =>
    simp only [handleEvt] at h
    (repeat' split at h) <;> first
      | (simp at h; done)
      | (simp only [Option.some.injEq, Prod.mk.injEq] at h; obtain ⟨rfl, _⟩ := h
         exact ⟨d, hd, rfl, rfl, rfl, rfl⟩)
  | listenerDropped =>
    simp only [handleEvt] at h
    (repeat' split at h) <;> first
      | (simp at h; done)
      | (simp only [Option.some.injEq, Prod.mk.injEq] at h; obtain ⟨rfl, _⟩ := h
         exact ⟨d, hd, rfl, rfl, rfl, rfl⟩)
  | sendGoodbye =>
    simp only [handleEvt] at h
    (repeat' split at h) <;> first
      | (simp at h; done)
      | (simp only [Option.some.injEq, Prod.mk.injEq] at h; obtain ⟨rfl, _⟩ := h
         exact ⟨d, hd, rfl, rfl, rfl, rfl⟩)

theorem handleEvt_emits_opened (e e' : Ep) (ev : Evt) (cp sp : Nat)
    (h : handleEvt e ev = some (e', some (.portOpened cp sp))) :
    lookup e.ports sp = none ∧
    ∃ d, lookup e'.ports sp = some (.connected d) ∧ d.remote = cp ∧ d.remoteSendFinished = false ∧
      d.remoteRecvClosed = false ∧ d.remoteRecvDropped = false := by
  cases ev with
  | accepted lp rp =>
    simp only [handleEvt] at h
    split at h
    · simp at h
    · rename_i hg
      simp only [Option.some.injEq, Prod.mk.injEq, Msg.portOpened.injEq] at h
      obtain ⟨rfl, rfl, rfl⟩ := h
      refine ⟨?_, { remote := rp, pool := e.cfg.remoteBuf }, by simp [lookup_setPort], rfl, rfl, rfl, rfl⟩
      cases hl : lookup e.ports lp with
      | none => rfl
      | some st => exact absurd (Or.inr (by simp [hl])) hg
  | _ =>
    simp only [handleEvt] at h
    (repeat' split at h) <;> first
      | (simp at h; done)
      | (simp only [Option.some.injEq, Prod.mk.injEq, forPeer] at h; obtain ⟨_, h2⟩ := h; simp at h2; done)

/-- reader side of the data wire (`y`, the server of the in-flight answers) handles a local event -/
theorem open_y_evt (x y y' : Ep) (wxy wyx : List Msg) (ev : Evt) (m : Option Msg)
    (he : handleEvt y ev = some (y', m)) (h : PortInv x y wxy) (ho : OpenInv y wxy wyx) :
    OpenInv y' wxy (wyx ++ emitList m) := by
  intro cp sp hin
  rcases List.mem_append.mp hin with hin | hin
  · obtain ⟨d, hd, hr, f1, f2, f3, hn⟩ := ho cp sp hin
    obtain ⟨d', hd', s1, s2, s3, s4⟩ := handleEvt_keeps_conn y y' ev m he sp d hd f1
    exact ⟨d', hd', by rw [s1]; exact hr, by rw [s2]; exact f1, by rw [s3]; exact f2, by rw [s4]; exact f3, hn⟩
  · cases m with
    | none => simp [emitList] at hin
    | some m =>
      simp only [emitList, List.mem_singleton] at hin; subst hin
      obtain ⟨hnone, d, hd, g1, g2, g3, g4⟩ := handleEvt_emits_opened y y' ev cp sp he
      exact ⟨d, hd, g1, g2, g3, g4, h.rx_none sp hnone⟩

/-- a delivered control message leaves connected entries it does not name alone -/
theorem handleRx_keeps_unnamed (e e' : Ep) (m : Msg) (em : Emit) (h : handleRx e m = .ok (e', em))
    (hctl : isCtl m = true) (q : Nat) (d : Connected) (hd : lookup e.ports q = some (.connected d))
    (hq : q ∉ namedPorts [m]) : lookup e'.ports q = some (.connected d) := by
  cases m with
  | openPort cp wt id =>
    obtain ⟨_, h1, _⟩ := handleRx_openPort _ _ _ _ _ _ h
    rw [h1]; exact hd
  | portOpened cp sp =>
    simp only [handleRx] at h
    split at h
    · rename_i hl
      simp only [Except.ok.injEq, Prod.mk.injEq] at h; obtain ⟨rfl, _⟩ := h
      have hne : q ≠ cp := by intro h'; subst h'; rw [hd] at hl; simp at hl
      simp [lookup_setPort, hne, hd]
    · simp at h
  | rejected cp np =>
    simp only [handleRx] at h
    split at h
    · rename_i hl
      simp only [Except.ok.injEq, Prod.mk.injEq] at h; obtain ⟨rfl, _⟩ := h
      have hne : q ≠ cp := by intro h'; subst h'; rw [hd] at hl; simp at hl
      simp [lookup_erase, hne, hd]
    · simp at h
  | sendFinish p =>
    have hne : q ≠ p := by simpa [namedPorts] using hq
    simp only [handleRx] at h
    (repeat' split at h) <;> first
      | (simp at h; done)
      | (simp only [Except.ok.injEq, Prod.mk.injEq] at h; obtain ⟨rfl, _⟩ := h
         rcases maybeFree_lookup { e with ports := setPort e.ports p _ } p q with h' | ⟨h', _⟩
         · rw [h']; simp [lookup_setPort, hne, hd]
         · exact absurd h' hne)
  | receiveClose p =>
    have hne : q ≠ p := by simpa [namedPorts] using hq
    simp only [handleRx] at h
    (repeat' split at h) <;> first
      | (simp at h; done)
      | (simp only [Except.ok.injEq, Prod.mk.injEq] at h; obtain ⟨rfl, _⟩ := h
         rcases maybeFree_lookup { e with ports := setPort e.ports p _ } p q with h' | ⟨h', _⟩
         · rw [h']; simp [lookup_setPort, hne, hd]
         · exact absurd h' hne)
  | receiveFinish p =>
    have hne : q ≠ p := by simpa [namedPorts] using hq
    simp only [handleRx] at h
    (repeat' split at h) <;> first
      | (simp at h; done)
      | (simp only [Except.ok.injEq, Prod.mk.injEq] at h; obtain ⟨rfl, _⟩ := h
         rcases maybeFree_lookup { e with ports := setPort e.ports p _ } p q with h' | ⟨h', _⟩
         · rw [h']; simp [lookup_setPort, hne, hd]
         · exact absurd h' hne)
  | clientFinish =>
    simp only [handleRx] at h
    (repeat' split at h) <;> first
      | (simp at h; done)
      | (simp only [Except.ok.injEq, Prod.mk.injEq] at h; obtain ⟨rfl, _⟩ := h; exact hd)
  | listenerFinish =>
    simp only [handleRx, Except.ok.injEq, Prod.mk.injEq] at h; obtain ⟨rfl, _⟩ := h; exact hd
  | goodbye =>
    simp only [handleRx, Except.ok.injEq, Prod.mk.injEq] at h; obtain ⟨rfl, _⟩ := h; exact hd
  | _ => simp [isCtl, isOther] at hctl

theorem noneFor_head_unnamed (m : Msg) (rest : List Msg) (q : Nat) (h : noneFor (m :: rest) q) :
    q ∉ namedPorts [m] := by
  obtain ⟨h1, h2, h3⟩ := h
  cases m <;> simp [namedPorts] <;> intro hq <;> subst hq <;>
    simp [cntSF, cntRC, cntRF, List.count_cons] at h1 h2 h3

/-- reader side of the data wire handles the head of that wire -/
theorem open_y_rx (y y' : Ep) (rest wyx : List Msg) (m : Msg) (em : Emit)
    (he : handleRx y m = .ok (y', em)) (hctl : isCtl m = true) (ho : OpenInv y (m :: rest) wyx) :
    OpenInv y' rest wyx := by
  intro cp sp hin
  obtain ⟨d, hd, hr, f1, f2, f3, hn⟩ := ho cp sp hin
  exact ⟨d, handleRx_keeps_unnamed y y' m em he hctl sp d hd (noneFor_head_unnamed m rest sp hn),
         hr, f1, f2, f3, noneFor_tail m rest sp hn⟩

/-! ### the port layer only reads the port tables -/

theorem Live.congr_ports {y y' : Ep} {w : List Msg} {p q : Nat} (h : y'.ports = y.ports) :
    Live y' w p q ↔ Live y w p q := by simp only [Live, h]

theorem TxOk.congr_ports {y y' : Ep} {w : List Msg} {p : Nat} {c : Connected} (h : y'.ports = y.ports)
    (ht : TxOk y w p c) : TxOk y' w p c := ht.congr (by rw [h]) rfl rfl rfl Iff.rfl

theorem PortInv.congr_ports {x x' y y' : Ep} {w : List Msg} (hx : x'.ports = x.ports) (hy : y'.ports = y.ports)
    (h : PortInv x y w) : PortInv x' y' w := by
  refine ⟨fun q hq => h.rx_none q (by rw [← hy]; exact hq), h.rx_le,
          fun q d hd => h.rx_conn q d (by rw [← hy]; exact hd), ?_,
          fun p c hc => (h.tx p c (by rw [← hx]; exact hc)).congr_ports hy⟩
  rw [okOrder_congr w (isConnected y') (isConnected y) (fun q => isConnected_congr _ _ q (by rw [hy]))]; exact h.order

theorem OpenInv.congr_ports {y y' : Ep} {a b : List Msg} (hy : y'.ports = y.ports) (h : OpenInv y a b) :
    OpenInv y' a b := by
  intro cp sp hin
  obtain ⟨d, hd, r⟩ := h cp sp hin
  exact ⟨d, by rw [hy]; exact hd, r⟩

/-- the three kinds of steps of a side, as far as the dispatcher state and the wires go -/
theorem stepSide_kinds (s s' : Side) (inW inW' out : List Msg) (l : Lab)
    (h : stepSide s inW l = some (s', inW', out)) :
    (s'.ep.ports = s.ep.ports ∧ s'.ep.outstanding = s.ep.outstanding ∧ inW' = inW ∧ out = []) ∨
    (∃ ev m, handleEvt s.ep ev = some (s'.ep, m) ∧ out = emitList m ∧ inW' = inW) ∨
    (∃ m e' em, inW = m :: inW' ∧ out = [] ∧ handleRx s.rxView m = .ok (e', em) ∧ s'.ep.ports = e'.ports) := by
  cases l <;> simp only [stepSide] at h
  case dispConn =>
    (repeat' split at h) <;> first
      | (simp at h; done)
      | (rename_i ev rest _ _ e' m he
         simp only [Option.some.injEq, Prod.mk.injEq] at h; obtain ⟨rfl, rfl, rfl⟩ := h
         exact Or.inr (Or.inl ⟨ev, m, he, rfl, rfl⟩))
  case dispPort =>
    (repeat' split at h) <;> first
      | (simp at h; done)
      | (rename_i ev rest _ _ e' m he
         simp only [Option.some.injEq, Prod.mk.injEq] at h; obtain ⟨rfl, rfl, rfl⟩ := h
         exact Or.inr (Or.inl ⟨ev, m, by simpa using he, rfl, rfl⟩))
  case dispListener =>
    (repeat' split at h) <;> first
      | (simp at h; done)
      | (rename_i _ e' m he
         simp only [Option.some.injEq, Prod.mk.injEq] at h; obtain ⟨rfl, rfl, rfl⟩ := h
         exact Or.inr (Or.inl ⟨_, m, he, rfl, rfl⟩))
  case goodbye =>
    (repeat' split at h) <;> first
      | (simp at h; done)
      | (rename_i _ e' m he
         simp only [Option.some.injEq, Prod.mk.injEq] at h; obtain ⟨rfl, rfl, rfl⟩ := h
         exact Or.inr (Or.inl ⟨_, m, he, rfl, rfl⟩))
  case deliver =>
    (repeat' split at h) <;> first
      | (simp at h; done)
      | (rename_i m rest _ e' em he
         simp only [Option.some.injEq, Prod.mk.injEq] at h; obtain ⟨rfl, rfl, rfl⟩ := h
         exact Or.inr (Or.inr ⟨m, e', em, rfl, rfl, he, by simp⟩))
  all_goals
    (repeat' split at h) <;> first
      | (simp at h; done)
      | (simp only [Option.some.injEq, Prod.mk.injEq] at h; obtain ⟨rfl, rfl, rfl⟩ := h
         exact Or.inl ⟨rfl, rfl, rfl, rfl⟩)

end Remoc.Table.Sys
