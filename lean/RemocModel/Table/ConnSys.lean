import RemocModel.Table.ConnReq
import RemocModel.Table.ConnOpen
import RemocModel.Table.ConnFlag
import RemocModel.Table.ConnHandle
set_option linter.unusedSimpArgs false
set_option linter.unusedVariables false
/-
Global invariants of the two-endpoint system and their preservation by every step.
-/
namespace Remoc.Table.Sys
open Remoc.Wire Remoc.Table

theorem handleEvt_emit_ctl (e e' : Ep) (ev : Evt) (m : Msg) (h : handleEvt e ev = some (e', some m)) :
    isCtl m = true := by
  cases ev <;> simp only [handleEvt] at h <;> (repeat' split at h) <;>
    first
    | (simp at h; done)
    | (simp only [Option.some.injEq, Prod.mk.injEq] at h; obtain ⟨_, rfl⟩ := h; rfl)

theorem autoEvts_port (em : List Msg) : ∀ ev ∈ autoEvts em, isPortEvt ev = true := by
  induction em with
  | nil => simp [autoEvts]
  | cons m w ih =>
    cases m <;> simp only [autoEvts] <;> try exact ih
    intro ev hev; simp only [List.mem_cons] at hev
    rcases hev with h | h
    · subst h; rfl
    · exact ih ev h

theorem mem_snoc_all {α} {P : α → Prop} {l : List α} {x : α} (h : ∀ a ∈ l, P a) (hx : P x) :
    ∀ a ∈ l ++ [x], P a := by
  intro a ha; rcases List.mem_append.mp ha with h' | h'
  · exact h a h'
  · simp at h'; subst h'; exact hx

/-- queue typing and the kind of emitted messages, for every step of a side -/
theorem qtype_step (s s' : Side) (inW inW' out : List Msg) (l : Lab)
    (hs : stepSide s inW l = some (s', inW', out)) (hq : QType s) :
    QType s' ∧ (∀ m ∈ out, isCtl m = true) ∧ (∃ k, inW = k ++ inW' ∧ k.length ≤ 1) := by
  cases l <;> simp only [stepSide] at hs
  case dispConn =>
    (repeat' split at hs) <;> first
      | (simp at hs; done)
      | (rename_i ev rest hq' _ e' m he
         simp only [Option.some.injEq, Prod.mk.injEq] at hs
         obtain ⟨rfl, rfl, rfl⟩ := hs
         refine ⟨⟨fun x hx => hq.conn x (by rw [hq']; simp [hx]), hq.port⟩, ?_, ⟨[], rfl, by simp⟩⟩
         intro x hx; cases m <;> simp [emitList] at hx
         subst hx; exact handleEvt_emit_ctl _ _ _ _ he)
  case dispPort =>
    (repeat' split at hs) <;> first
      | (simp at hs; done)
      | (rename_i ev rest hq' _ e' m he
         simp only [Option.some.injEq, Prod.mk.injEq] at hs
         obtain ⟨rfl, rfl, rfl⟩ := hs
         refine ⟨⟨by simpa using hq.conn, fun x hx => hq.port x (by rw [hq']; simp at hx; simp [hx])⟩, ?_, ⟨[], rfl, by simp⟩⟩
         intro x hx; cases m <;> simp [emitList] at hx
         subst hx; exact handleEvt_emit_ctl _ _ _ _ he)
  case dispListener =>
    (repeat' split at hs) <;> first
      | (simp at hs; done)
      | (rename_i _ e' m he
         simp only [Option.some.injEq, Prod.mk.injEq] at hs
         obtain ⟨rfl, rfl, rfl⟩ := hs
         refine ⟨⟨hq.conn, hq.port⟩, ?_, ⟨[], rfl, by simp⟩⟩
         intro x hx; cases m <;> simp [emitList] at hx
         subst hx; exact handleEvt_emit_ctl _ _ _ _ he)
  case goodbye =>
    (repeat' split at hs) <;> first
      | (simp at hs; done)
      | (rename_i _ e' m he
         simp only [Option.some.injEq, Prod.mk.injEq] at hs
         obtain ⟨rfl, rfl, rfl⟩ := hs
         refine ⟨⟨hq.conn, hq.port⟩, ?_, ⟨[], rfl, by simp⟩⟩
         intro x hx; cases m <;> simp [emitList] at hx
         subst hx; exact handleEvt_emit_ctl _ _ _ _ he)
  case deliver =>
    (repeat' split at hs) <;> first
      | (simp at hs; done)
      | (rename_i m rest _ e' em he
         simp only [Option.some.injEq, Prod.mk.injEq] at hs
         obtain ⟨rfl, rfl, rfl⟩ := hs
         refine ⟨⟨by simpa using hq.conn, ?_⟩, by simp, ⟨[m], rfl, by simp⟩⟩
         intro x hx; simp only [rxHandles_portQ] at hx
         rcases List.mem_append.mp hx with h | h
         · exact hq.port x h
         · exact autoEvts_port em x h)
  case dropListener =>
    split at hs
    · simp only [Option.some.injEq, Prod.mk.injEq] at hs
      obtain ⟨rfl, rfl, rfl⟩ := hs
      refine ⟨⟨hq.conn, ?_⟩, by simp, ⟨[], rfl, by simp⟩⟩
      intro x hx; rcases List.mem_append.mp hx with h | h
      · exact hq.port x h
      · simp only [List.mem_map] at h; obtain ⟨r, _, rfl⟩ := h; rfl
    · simp at hs
  all_goals
    (repeat' split at hs) <;> first
      | (simp at hs; done)
      | (simp only [Option.some.injEq, Prod.mk.injEq] at hs
         obtain ⟨rfl, rfl, rfl⟩ := hs
         refine ⟨⟨?_, ?_⟩, by simp, ⟨[], rfl, by simp⟩⟩
         · first | exact hq.conn | exact mem_snoc_all hq.conn rfl
         · first | exact hq.port | exact mem_snoc_all hq.port rfl)

/-- the request/credit layer of the global invariant -/
structure Inv1 (s : St) : Prop where
  ab : ReqInv s.a s.b s.toB s.toA
  ba : ReqInv s.b s.a s.toA s.toB
  qa : QType s.a
  qb : QType s.b
  wa : ∀ m ∈ s.toA, isCtl m = true
  wb : ∀ m ∈ s.toB, isCtl m = true

theorem inv1_init (mpA cqA mpB cqB : Nat) : Inv1 (init mpA cqA mpB cqB) := by
  refine ⟨?_, ?_, ⟨by simp [init], by simp [init]⟩, ⟨by simp [init], by simp [init]⟩, by simp [init], by simp [init]⟩ <;>
  · constructor <;> simp [init, initEp, reqWhere, reqPorts, respPorts, outWhere, ansPorts, lookup, Side.permits]

/-- one side steps: both roles of that side are preserved -/
theorem req_step_side (x y x' : Side) (wxy wyx inW' out : List Msg) (l : Lab)
    (hs : stepSide x wyx l = some (x', inW', out))
    (hc : ReqInv x y wxy wyx) (hv : ReqInv y x wyx wxy) (hq : QType x) (hw : ∀ m ∈ wyx, isCtl m = true) :
    ReqInv x' y (wxy ++ out) inW' ∧ ReqInv y x' inW' (wxy ++ out) := by
  cases hl : l.internal with
  | true =>
    exact ⟨req_client_int x x' y wxy wyx inW' out l hs hc hw hq hl,
           req_server_int y x x' wyx wxy inW' out l hs hv hw hq hl⟩
  | false =>
    obtain ⟨rfl, rfl, h1⟩ := req_client_env x x' y wxy wyx inW' out l hl hs hc
    have h2 := req_server_env y x x' inW' wxy inW' [] l hl hs hv
    simp only [List.append_nil]
    exact ⟨h1, h2⟩

theorem inv1_step (s s' : St) (x : Who) (l : Lab) (hi : Inv1 s) (h : step s x l = some s') : Inv1 s' := by
  cases x with
  | A =>
    simp only [step, Option.map_eq_some_iff] at h
    obtain ⟨⟨a', inW, out⟩, hs, rfl⟩ := h
    obtain ⟨h1, h2⟩ := req_step_side s.a s.b a' s.toB s.toA inW out l hs hi.ab hi.ba hi.qa hi.wa
    obtain ⟨q1, q2, k, hk, _⟩ := qtype_step _ _ _ _ _ _ hs hi.qa
    refine ⟨h1, h2, q1, hi.qb, ?_, ?_⟩
    · intro m hm; exact hi.wa m (by rw [hk]; simp [hm])
    · intro m hm; rcases List.mem_append.mp hm with h' | h'
      · exact hi.wb m h'
      · exact q2 m h'
  | B =>
    simp only [step, Option.map_eq_some_iff] at h
    obtain ⟨⟨b', inW, out⟩, hs, rfl⟩ := h
    obtain ⟨h1, h2⟩ := req_step_side s.b s.a b' s.toA s.toB inW out l hs hi.ba hi.ab hi.qb hi.wb
    obtain ⟨q1, q2, k, hk, _⟩ := qtype_step _ _ _ _ _ _ hs hi.qb
    refine ⟨h2, h1, hi.qa, q1, ?_, ?_⟩
    · intro m hm; rcases List.mem_append.mp hm with h' | h'
      · exact hi.wa m h'
      · exact q2 m h'
    · intro m hm; exact hi.wb m (by rw [hk]; simp [hm])

theorem inv1_run (s : St) (ls : List (Who × Lab)) (hi : Inv1 s) : Inv1 (run s ls) := by
  induction ls generalizing s with
  | nil => exact hi
  | cons xl ls ih =>
    obtain ⟨x, l⟩ := xl
    simp only [run]
    split
    · rename_i s' hs; exact ih s' (inv1_step s s' x l hi hs)
    · exact ih s hi

/-! ### port layer -/

theorem reqInv_resp_nodup {c v : Side} {wcv wvc : List Msg} (h : ReqInv c v wcv wvc) : (respPorts wvc).Nodup := by
  have := h.nodup; simp only [reqWhere] at this
  exact (List.nodup_append.mp this).2.1

theorem reqInv_resp_connecting {c v : Side} {wcv wvc : List Msg} (h : ReqInv c v wcv wvc) :
    ∀ cp ∈ respPorts wvc, lookup c.ep.ports cp = some .connecting := by
  intro cp hcp; exact (h.conn cp).mpr (by simp [reqWhere, hcp])

theorem reqInv_out_connecting {c v : Side} {wcv wvc : List Msg} (h : ReqInv c v wcv wvc) :
    ∀ rp ∈ v.ep.outstanding, lookup c.ep.ports rp = some .connecting ∧ rp ∉ respPorts wvc := by
  intro rp hrp
  refine ⟨(h.conn rp).mpr (by simp [reqWhere, hrp]), ?_⟩
  have := h.nodup; simp only [reqWhere] at this
  intro hin
  exact (List.nodup_append.mp this).2.2 rp (List.mem_append.mpr (Or.inr hrp)) rp hin rfl

/-- one side steps: the four port-layer invariants it takes part in are preserved -/
theorem port_step_side (x y x' : Side) (wxy wyx inW' out : List Msg) (l : Lab)
    (hs : stepSide x wyx l = some (x', inW', out))
    (P1 : PortInv x.ep y.ep wxy) (P2 : PortInv y.ep x.ep wyx)
    (O1 : OpenInv y.ep wxy wyx) (O2 : OpenInv x.ep wyx wxy)
    (rc : ReqInv x y wxy wyx) (rv : ReqInv y x wyx wxy) (hw : ∀ m ∈ wyx, isCtl m = true) :
    PortInv x'.ep y.ep (wxy ++ out) ∧ PortInv y.ep x'.ep inW' ∧
    OpenInv y.ep (wxy ++ out) inW' ∧ OpenInv x'.ep inW' (wxy ++ out) := by
  rcases stepSide_kinds x x' wyx inW' out l hs with ⟨hp, _, rfl, rfl⟩ | ⟨ev, m, he, rfl, rfl⟩ | ⟨m, e', em, rfl, rfl, he, hp⟩
  · simp only [List.append_nil]
    exact ⟨P1.congr_ports hp rfl, P2.congr_ports rfl hp, O1, O2.congr_ports hp⟩
  · refine ⟨?_, ?_, ?_, ?_⟩
    · exact port_tx_evt x.ep x'.ep y.ep wxy ev m he P1 (reqInv_resp_nodup rv) (reqInv_out_connecting rv)
    · exact port_rx_evt y.ep x.ep x'.ep inW' ev m he P2 (reqInv_resp_connecting rc)
        (fun rp hrp => (reqInv_out_connecting rv rp hrp).1)
    · exact open_x_evt x.ep x'.ep y.ep wxy inW' ev m he P1 O1 (reqInv_resp_connecting rc)
    · exact open_y_evt y.ep x.ep x'.ep inW' wxy ev m he P2 O2
  · simp only [List.append_nil]
    have hctl := hw m (by simp)
    have hv : x.rxView.ports = x.ep.ports := rfl
    refine ⟨?_, ?_, open_x_rx y.ep wxy inW' m O1, ?_⟩
    · refine (port_tx_rx x.rxView e' y.ep wxy m em he (P1.congr_ports hv rfl) ?_).congr_ports hp rfl
      intro cp sp hm; exact O1 cp sp (by rw [hm]; simp)
    · exact (port_rx_rx y.ep x.rxView e' inW' m em he (P2.congr_ports rfl hv) (reqInv_resp_nodup rc) hctl).congr_ports rfl hp
    · exact (open_y_rx x.rxView e' inW' wxy m em he hctl (O2.congr_ports hv)).congr_ports hp

/-- requests + ports: the wire-related part of the global invariant -/
structure Inv2 (s : St) : Prop where
  r : Inv1 s
  pab : PortInv s.a.ep s.b.ep s.toB
  pba : PortInv s.b.ep s.a.ep s.toA
  /-- answers in flight towards `a` (sent by `b`) have a fresh partner at `b` -/
  ob : OpenInv s.b.ep s.toB s.toA
  oa : OpenInv s.a.ep s.toA s.toB

theorem portInv_init (x y : Ep) (hx : x.ports = []) (hy : y.ports = []) : PortInv x y [] := by
  refine ⟨fun q _ => by simp [cntSF, cntRC, cntRF], fun q => by simp [cntSF, cntRC, cntRF],
          fun q d hd => by rw [hy] at hd; simp [lookup] at hd, rfl, fun p c hc => by rw [hx] at hc; simp [lookup] at hc⟩

theorem inv2_init (mpA cqA mpB cqB : Nat) : Inv2 (init mpA cqA mpB cqB) :=
  ⟨inv1_init mpA cqA mpB cqB, portInv_init _ _ rfl rfl, portInv_init _ _ rfl rfl,
   fun cp sp h => by simp [init] at h, fun cp sp h => by simp [init] at h⟩

theorem inv2_step (s s' : St) (x : Who) (l : Lab) (hi : Inv2 s) (h : step s x l = some s') : Inv2 s' := by
  have h1 := inv1_step s s' x l hi.r h
  cases x with
  | A =>
    simp only [step, Option.map_eq_some_iff] at h
    obtain ⟨⟨a', inW, out⟩, hs, rfl⟩ := h
    obtain ⟨p1, p2, o1, o2⟩ := port_step_side s.a s.b a' s.toB s.toA inW out l hs hi.pab hi.pba hi.ob hi.oa
      hi.r.ab hi.r.ba hi.r.wa
    exact ⟨h1, p1, p2, o1, o2⟩
  | B =>
    simp only [step, Option.map_eq_some_iff] at h
    obtain ⟨⟨b', inW, out⟩, hs, rfl⟩ := h
    obtain ⟨p1, p2, o1, o2⟩ := port_step_side s.b s.a b' s.toA s.toB inW out l hs hi.pba hi.pab hi.oa hi.ob
      hi.r.ba hi.r.ab hi.r.wb
    exact ⟨h1, p2, p1, o2, o1⟩

theorem inv2_run (s : St) (ls : List (Who × Lab)) (hi : Inv2 s) : Inv2 (run s ls) := by
  induction ls generalizing s with
  | nil => exact hi
  | cons xl ls ih =>
    obtain ⟨x, l⟩ := xl
    simp only [run]
    split
    · rename_i s' hs; exact ih s' (inv2_step s s' x l hi hs)
    · exact ih s hi

theorem run_append (s : St) (l1 l2 : List (Who × Lab)) : run s (l1 ++ l2) = run (run s l1) l2 := by
  induction l1 generalizing s with
  | nil => rfl
  | cons a as ih =>
    obtain ⟨y, k⟩ := a
    simp only [List.cons_append, run]
    split <;> exact ih _

/-- requests + ports + connection flags -/
structure Inv3 (s : St) : Prop where
  i2 : Inv2 s
  fab : FlagInv s.a.ep s.b.ep s.toB
  fba : FlagInv s.b.ep s.a.ep s.toA
  ca : ClientInv s.a
  cb : ClientInv s.b

theorem flagInv_init (x y : Ep) (h1 : x.allClientsDropped = false) (h2 : x.listenerDropped = false)
    (h3 : x.goodbyeSent = false) (h4 : y.remoteClientDropped = false) (h5 : y.remoteListenerDropped = false)
    (h6 : y.goodbyeReceived = false) (h7 : y.clientDroppedQueued = 0) : FlagInv x y [] :=
  ⟨by simp [h1, h4, b2n], by simp [h2, h5, b2n], by simp [h3, h6, b2n], rfl, fun _ => rfl, by simp [h7],
   fun h => by rw [h3] at h; simp at h, fun _ => rfl⟩

theorem inv3_init (mpA cqA mpB cqB : Nat) : Inv3 (init mpA cqA mpB cqB) :=
  ⟨inv2_init mpA cqA mpB cqB, flagInv_init _ _ rfl rfl rfl rfl rfl rfl rfl, flagInv_init _ _ rfl rfl rfl rfl rfl rfl rfl,
   clientInv_init _ rfl, clientInv_init _ rfl⟩

theorem inv3_step (s s' : St) (x : Who) (l : Lab) (hi : Inv3 s) (h : step s x l = some s') : Inv3 s' := by
  have h2 := inv2_step s s' x l hi.i2 h
  cases x with
  | A =>
    simp only [step, Option.map_eq_some_iff] at h
    obtain ⟨⟨a', inW, out⟩, hs, rfl⟩ := h
    obtain ⟨f1, f2⟩ := flag_step_side s.a s.b a' s.toB s.toA inW out l hs hi.fab hi.fba hi.i2.r.qa hi.ca hi.i2.r.wa
    exact ⟨h2, f1, f2, clientInv_step _ _ _ _ _ _ hs hi.ca hi.i2.r.qa hi.i2.r.wa, hi.cb⟩
  | B =>
    simp only [step, Option.map_eq_some_iff] at h
    obtain ⟨⟨b', inW, out⟩, hs, rfl⟩ := h
    obtain ⟨f1, f2⟩ := flag_step_side s.b s.a b' s.toA s.toB inW out l hs hi.fba hi.fab hi.i2.r.qb hi.cb hi.i2.r.wb
    exact ⟨h2, f2, f1, hi.ca, clientInv_step _ _ _ _ _ _ hs hi.cb hi.i2.r.qb hi.i2.r.wb⟩

theorem inv3_run (s : St) (ls : List (Who × Lab)) (hi : Inv3 s) : Inv3 (run s ls) := by
  induction ls generalizing s with
  | nil => exact hi
  | cons xl ls ih =>
    obtain ⟨x, l⟩ := xl
    simp only [run]
    split
    · rename_i s' hs; exact ih s' (inv3_step s s' x l hi hs)
    · exact ih s hi

/-- the complete global invariant -/
structure Inv4 (s : St) : Prop where
  i3 : Inv3 s
  aa : AllocInv s.a
  ab : AllocInv s.b
  ha : HandleInv s.a
  hb : HandleInv s.b

theorem allocInv_init (e : Ep) (h1 : e.ports = []) (h2 : e.allocated = []) : AllocInv { ep := e } :=
  ⟨⟨fun q => by simp [h1, h2, lookup, heldNums, connPorts, accPorts], fun q hq => by simp [heldNums, connPorts, accPorts] at hq,
    by simp [h2], by simp [h2]⟩, by simp [heldNums, connPorts, accPorts]⟩

theorem handleInv_init (e : Ep) (h1 : e.ports = []) : HandleInv { ep := e } := by
  refine ⟨?_, by simp [sdPorts], ?_, ?_, ?_, by simp [rdPorts], ?_, ?_, ?_, by simp [rcPorts], ?_, rfl⟩ <;>
    simp [sdPorts, rdPorts, rcPorts, h1, lookup]

theorem inv4_init (mpA cqA mpB cqB : Nat) : Inv4 (init mpA cqA mpB cqB) :=
  ⟨inv3_init mpA cqA mpB cqB, allocInv_init _ rfl rfl, allocInv_init _ rfl rfl, handleInv_init _ rfl, handleInv_init _ rfl⟩

theorem inv4_step (s s' : St) (x : Who) (l : Lab) (hi : Inv4 s) (h : step s x l = some s') : Inv4 s' := by
  have h3 := inv3_step s s' x l hi.i3 h
  cases x with
  | A =>
    simp only [step, Option.map_eq_some_iff] at h
    obtain ⟨⟨a', inW, out⟩, hs, rfl⟩ := h
    exact ⟨h3, allocInv_step _ _ _ _ _ _ hs hi.aa hi.i3.i2.r.qa, hi.ab,
           handleInv_step _ _ _ _ _ _ hs hi.ha hi.i3.i2.r.qa hi.i3.i2.r.wa, hi.hb⟩
  | B =>
    simp only [step, Option.map_eq_some_iff] at h
    obtain ⟨⟨b', inW, out⟩, hs, rfl⟩ := h
    exact ⟨h3, hi.aa, allocInv_step _ _ _ _ _ _ hs hi.ab hi.i3.i2.r.qb,
           hi.ha, handleInv_step _ _ _ _ _ _ hs hi.hb hi.i3.i2.r.qb hi.i3.i2.r.wb⟩

theorem inv4_run (s : St) (ls : List (Who × Lab)) (hi : Inv4 s) : Inv4 (run s ls) := by
  induction ls generalizing s with
  | nil => exact hi
  | cons xl ls ih =>
    obtain ⟨x, l⟩ := xl
    simp only [run]
    split
    · rename_i s' hs; exact ih s' (inv4_step s s' x l hi hs)
    · exact ih s hi

def side (s : St) : Who → Side
  | .A => s.a
  | .B => s.b

/-- the wire towards side `x` -/
def wireTo (s : St) : Who → List Msg
  | .A => s.toA
  | .B => s.toB


end Remoc.Table.Sys
