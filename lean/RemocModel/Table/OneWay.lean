/-
M_pair (one direction): everything one endpoint ("source") ever sends about one port to the other
endpoint ("destination"), over the connection's FIFO.  The source's sender half produces `data` and,
when dropped, one `sendFinish`; its receiver half produces `credit`, possibly `recvClose`, and, when
dropped, one `recvFinish`.  The destination records `SendFinish` / `ReceiveFinish` in the two
"remote" flags of its port entry; together with its own two flags they decide when the port number
is released (`maybe_free_port`).  The theorem: once both remote flags are set, no frame for that
port is in flight — so releasing and re-using the number is safe.
-/
namespace Remoc.OneWay

inductive PFrame where
  | data | sendFinish | credit | recvClose | recvFinish
deriving Repr, DecidableEq

structure St where
  srcSenderDropped : Bool := false
  srcReceiverDropped : Bool := false
  dstSendFinished : Bool := false
  dstRecvDropped : Bool := false
  wire : List PFrame := []
deriving Repr, DecidableEq

inductive Label where
  | data | credit | recvClose | dropSender | dropReceiver | deliver
deriving Repr, DecidableEq

def step (s : St) : Label → Option St
  | .data => if s.srcSenderDropped then none else some { s with wire := s.wire ++ [.data] }
  | .credit => if s.srcReceiverDropped then none else some { s with wire := s.wire ++ [.credit] }
  | .recvClose => if s.srcReceiverDropped then none else some { s with wire := s.wire ++ [.recvClose] }
  | .dropSender =>
    if s.srcSenderDropped then none else some { s with srcSenderDropped := true, wire := s.wire ++ [.sendFinish] }
  | .dropReceiver =>
    if s.srcReceiverDropped then none else some { s with srcReceiverDropped := true, wire := s.wire ++ [.recvFinish] }
  | .deliver =>
    match s.wire with
    | [] => none
    | f :: rest =>
      match f with
      | .sendFinish => some { s with wire := rest, dstSendFinished := true }
      | .recvFinish => some { s with wire := rest, dstRecvDropped := true }
      | _ => some { s with wire := rest }

def run (s : St) : List Label → St
  | [] => s
  | l :: ls => match step s l with
    | some s' => run s' ls
    | none => run s ls

def senderKind : PFrame → Bool
  | .data | .sendFinish => true
  | _ => false

def receiverKind : PFrame → Bool
  | .credit | .recvClose | .recvFinish => true
  | _ => false

/-- invariant -/
structure Inv (s : St) : Prop where
  /-- after the sender half is dropped it produces nothing; its `sendFinish` is the last frame of
  its kind on the wire, or already delivered -/
  sf1 : s.srcSenderDropped = false → (∀ f ∈ s.wire, f ≠ .sendFinish) ∧ s.dstSendFinished = false
  sf2 : s.dstSendFinished = true → ∀ f ∈ s.wire, senderKind f = false
  sf3 : ∀ pre post, s.wire = pre ++ .sendFinish :: post → ∀ f ∈ post, senderKind f = false
  rf1 : s.srcReceiverDropped = false → (∀ f ∈ s.wire, f ≠ .recvFinish) ∧ s.dstRecvDropped = false
  rf2 : s.dstRecvDropped = true → ∀ f ∈ s.wire, receiverKind f = false
  rf3 : ∀ pre post, s.wire = pre ++ .recvFinish :: post → ∀ f ∈ post, receiverKind f = false

theorem inv_init : Inv {} := by
  constructor <;> simp

/-- splitting `l ++ [x]` at a marker: the marker is `x` itself or lies in `l` -/
theorem split_snoc {α} (l : List α) (x m : α) (pre post : List α) (h : l ++ [x] = pre ++ m :: post) :
    (post = [] ∧ m = x ∧ pre = l) ∨ (∃ post', post = post' ++ [x] ∧ l = pre ++ m :: post') := by
  induction pre generalizing l with
  | nil =>
    cases l with
    | nil => simp at h; left; exact ⟨h.2, h.1.symm, rfl⟩
    | cons a as =>
      simp at h
      right; exact ⟨as, h.2.symm, by simp [h.1]⟩
  | cons p ps ih =>
    cases l with
    | nil =>
      simp at h
    | cons a as =>
      simp at h
      obtain ⟨h1, h2⟩ := h
      rcases ih as h2 with ⟨hp, hm, hpre⟩ | ⟨post', hp, hl⟩
      · left; exact ⟨hp, hm, by rw [h1, hpre]⟩
      · right; exact ⟨post', hp, by rw [h1, hl]; rfl⟩

theorem inv_step (s s' : St) (l : Label) (hi : Inv s) (h : step s l = some s') : Inv s' := by
  obtain ⟨sf1, sf2, sf3, rf1, rf2, rf3⟩ := hi
  cases l with
  | data =>
    simp only [step] at h
    split at h
    · simp at h
    · rename_i hd
      obtain rfl := Option.some.inj h
      have hd' : s.srcSenderDropped = false := by simpa using hd
      obtain ⟨hno, hdst⟩ := sf1 hd'
      constructor
      · intro _; exact ⟨by intro f hf; rcases List.mem_append.mp hf with h1 | h1; exact hno f h1; simp at h1; simp [h1], hdst⟩
      · intro hc; simp only [] at hc; rw [hdst] at hc; simp at hc
      · intro pre post hsp
        rcases split_snoc _ _ _ _ _ hsp with ⟨_, hm, _⟩ | ⟨post', _, hl⟩
        · simp at hm
        · exact absurd (by rw [hl]; simp) (fun hmem => hno .sendFinish hmem rfl)
      · intro hr; obtain ⟨a, b⟩ := rf1 hr
        exact ⟨by intro f hf; rcases List.mem_append.mp hf with h1 | h1; exact a f h1; simp at h1; simp [h1], b⟩
      · intro hc f hf
        rcases List.mem_append.mp hf with h1 | h1
        · exact rf2 hc f h1
        · simp at h1; simp [h1, receiverKind]
      · intro pre post hsp f hf
        rcases split_snoc _ _ _ _ _ hsp with ⟨hp, _, _⟩ | ⟨post', hp, hl⟩
        · simp [hp] at hf
        · rw [hp] at hf
          rcases List.mem_append.mp hf with h1 | h1
          · exact rf3 pre post' hl f h1
          · simp at h1; simp [h1, receiverKind]
  | credit =>
    simp only [step] at h
    split at h
    · simp at h
    · rename_i hd
      obtain rfl := Option.some.inj h
      have hd' : s.srcReceiverDropped = false := by simpa using hd
      obtain ⟨hno, hdst⟩ := rf1 hd'
      constructor
      · intro hr; obtain ⟨a, b⟩ := sf1 hr
        exact ⟨by intro f hf; rcases List.mem_append.mp hf with h1 | h1; exact a f h1; simp at h1; simp [h1], b⟩
      · intro hc f hf
        rcases List.mem_append.mp hf with h1 | h1
        · exact sf2 hc f h1
        · simp at h1; simp [h1, senderKind]
      · intro pre post hsp f hf
        rcases split_snoc _ _ _ _ _ hsp with ⟨hp, _, _⟩ | ⟨post', hp, hl⟩
        · simp [hp] at hf
        · rw [hp] at hf
          rcases List.mem_append.mp hf with h1 | h1
          · exact sf3 pre post' hl f h1
          · simp at h1; simp [h1, senderKind]
      · intro _; exact ⟨by intro f hf; rcases List.mem_append.mp hf with h1 | h1; exact hno f h1; simp at h1; simp [h1], hdst⟩
      · intro hc; simp only [] at hc; rw [hdst] at hc; simp at hc
      · intro pre post hsp
        rcases split_snoc _ _ _ _ _ hsp with ⟨_, hm, _⟩ | ⟨post', _, hl⟩
        · simp at hm
        · exact absurd (by rw [hl]; simp) (fun hmem => hno .recvFinish hmem rfl)
  | recvClose =>
    simp only [step] at h
    split at h
    · simp at h
    · rename_i hd
      obtain rfl := Option.some.inj h
      have hd' : s.srcReceiverDropped = false := by simpa using hd
      obtain ⟨hno, hdst⟩ := rf1 hd'
      constructor
      · intro hr; obtain ⟨a, b⟩ := sf1 hr
        exact ⟨by intro f hf; rcases List.mem_append.mp hf with h1 | h1; exact a f h1; simp at h1; simp [h1], b⟩
      · intro hc f hf
        rcases List.mem_append.mp hf with h1 | h1
        · exact sf2 hc f h1
        · simp at h1; simp [h1, senderKind]
      · intro pre post hsp f hf
        rcases split_snoc _ _ _ _ _ hsp with ⟨hp, _, _⟩ | ⟨post', hp, hl⟩
        · simp [hp] at hf
        · rw [hp] at hf
          rcases List.mem_append.mp hf with h1 | h1
          · exact sf3 pre post' hl f h1
          · simp at h1; simp [h1, senderKind]
      · intro _; exact ⟨by intro f hf; rcases List.mem_append.mp hf with h1 | h1; exact hno f h1; simp at h1; simp [h1], hdst⟩
      · intro hc; simp only [] at hc; rw [hdst] at hc; simp at hc
      · intro pre post hsp
        rcases split_snoc _ _ _ _ _ hsp with ⟨_, hm, _⟩ | ⟨post', _, hl⟩
        · simp at hm
        · exact absurd (by rw [hl]; simp) (fun hmem => hno .recvFinish hmem rfl)
  | dropSender =>
    simp only [step] at h
    split at h
    · simp at h
    · rename_i hd
      obtain rfl := Option.some.inj h
      have hd' : s.srcSenderDropped = false := by simpa using hd
      obtain ⟨hno, hdst⟩ := sf1 hd'
      constructor
      · intro hc; simp at hc
      · intro hc; simp only [] at hc; rw [hdst] at hc; simp at hc
      · intro pre post hsp f hf
        rcases split_snoc _ _ _ _ _ hsp with ⟨hp, _, _⟩ | ⟨post', _, hl⟩
        · simp [hp] at hf
        · exact absurd (by rw [hl]; simp) (fun hmem => hno .sendFinish hmem rfl)
      · intro hr; obtain ⟨a, b⟩ := rf1 hr
        exact ⟨by intro f hf; rcases List.mem_append.mp hf with h1 | h1; exact a f h1; simp at h1; simp [h1], b⟩
      · intro hc f hf
        rcases List.mem_append.mp hf with h1 | h1
        · exact rf2 hc f h1
        · simp at h1; simp [h1, receiverKind]
      · intro pre post hsp f hf
        rcases split_snoc _ _ _ _ _ hsp with ⟨hp, hm, _⟩ | ⟨post', hp, hl⟩
        · simp at hm
        · rw [hp] at hf
          rcases List.mem_append.mp hf with h1 | h1
          · exact rf3 pre post' hl f h1
          · simp at h1; simp [h1, receiverKind]
  | dropReceiver =>
    simp only [step] at h
    split at h
    · simp at h
    · rename_i hd
      obtain rfl := Option.some.inj h
      have hd' : s.srcReceiverDropped = false := by simpa using hd
      obtain ⟨hno, hdst⟩ := rf1 hd'
      constructor
      · intro hr; obtain ⟨a, b⟩ := sf1 hr
        exact ⟨by intro f hf; rcases List.mem_append.mp hf with h1 | h1; exact a f h1; simp at h1; simp [h1], b⟩
      · intro hc f hf
        rcases List.mem_append.mp hf with h1 | h1
        · exact sf2 hc f h1
        · simp at h1; simp [h1, senderKind]
      · intro pre post hsp f hf
        rcases split_snoc _ _ _ _ _ hsp with ⟨hp, hm, _⟩ | ⟨post', hp, hl⟩
        · simp at hm
        · rw [hp] at hf
          rcases List.mem_append.mp hf with h1 | h1
          · exact sf3 pre post' hl f h1
          · simp at h1; simp [h1, senderKind]
      · intro hc; simp at hc
      · intro hc; simp only [] at hc; rw [hdst] at hc; simp at hc
      · intro pre post hsp f hf
        rcases split_snoc _ _ _ _ _ hsp with ⟨hp, _, _⟩ | ⟨post', _, hl⟩
        · simp [hp] at hf
        · exact absurd (by rw [hl]; simp) (fun hmem => hno .recvFinish hmem rfl)
  | deliver =>
    simp only [step] at h
    split at h
    · simp at h
    · rename_i f rest hw
      have hsub : ∀ g, g ∈ rest → g ∈ s.wire := by intro g hg; rw [hw]; simp [hg]
      have tail3s : ∀ pre post, rest = pre ++ PFrame.sendFinish :: post → ∀ g ∈ post, senderKind g = false := by
        intro pre post hsp; exact sf3 (f :: pre) post (by rw [hw, hsp]; rfl)
      have tail3r : ∀ pre post, rest = pre ++ PFrame.recvFinish :: post → ∀ g ∈ post, receiverKind g = false := by
        intro pre post hsp; exact rf3 (f :: pre) post (by rw [hw, hsp]; rfl)
      cases f with
      | sendFinish =>
        simp only [Option.some.injEq] at h; subst h
        have hpost := sf3 [] rest (by rw [hw]; rfl)
        constructor
        · intro hc
          have := (sf1 hc).1 .sendFinish (by rw [hw]; simp)
          simp at this
        · intro _; exact hpost
        · exact tail3s
        · intro hr; exact ⟨fun g hg => (rf1 hr).1 g (hsub g hg), (rf1 hr).2⟩
        · intro hc g hg; exact rf2 hc g (hsub g hg)
        · exact tail3r
      | recvFinish =>
        simp only [Option.some.injEq] at h; subst h
        have hpost := rf3 [] rest (by rw [hw]; rfl)
        constructor
        · intro hr; exact ⟨fun g hg => (sf1 hr).1 g (hsub g hg), (sf1 hr).2⟩
        · intro hc g hg; exact sf2 hc g (hsub g hg)
        · exact tail3s
        · intro hc
          have := (rf1 hc).1 .recvFinish (by rw [hw]; simp)
          simp at this
        · intro _; exact hpost
        · exact tail3r
      | data =>
        simp only [Option.some.injEq] at h; subst h
        exact ⟨fun hr => ⟨fun g hg => (sf1 hr).1 g (hsub g hg), (sf1 hr).2⟩, fun hc g hg => sf2 hc g (hsub g hg), tail3s,
               fun hr => ⟨fun g hg => (rf1 hr).1 g (hsub g hg), (rf1 hr).2⟩, fun hc g hg => rf2 hc g (hsub g hg), tail3r⟩
      | credit =>
        simp only [Option.some.injEq] at h; subst h
        exact ⟨fun hr => ⟨fun g hg => (sf1 hr).1 g (hsub g hg), (sf1 hr).2⟩, fun hc g hg => sf2 hc g (hsub g hg), tail3s,
               fun hr => ⟨fun g hg => (rf1 hr).1 g (hsub g hg), (rf1 hr).2⟩, fun hc g hg => rf2 hc g (hsub g hg), tail3r⟩
      | recvClose =>
        simp only [Option.some.injEq] at h; subst h
        exact ⟨fun hr => ⟨fun g hg => (sf1 hr).1 g (hsub g hg), (sf1 hr).2⟩, fun hc g hg => sf2 hc g (hsub g hg), tail3s,
               fun hr => ⟨fun g hg => (rf1 hr).1 g (hsub g hg), (rf1 hr).2⟩, fun hc g hg => rf2 hc g (hsub g hg), tail3r⟩

theorem inv_run (s : St) (ls : List Label) (h : Inv s) : Inv (run s ls) := by
  induction ls generalizing s with
  | nil => exact h
  | cons l ls ih =>
    simp only [run]; split
    · rename_i s' hs; exact ih s' (inv_step s s' l h hs)
    · exact ih s h

end Remoc.OneWay
