import RemocModel.Table.ConnPort
set_option linter.unusedSimpArgs false
set_option linter.unusedVariables false
/-
Port layer, steps of the WRITER `x` of the wire `w` (direction x → y): local events append to `w`
and change `x`'s table; received messages change `x`'s table only.
-/
namespace Remoc.Table.Sys
open Remoc.Wire Remoc.Table

def isPortMsg : Msg → Bool
  | .portOpened _ _ | .sendFinish _ | .receiveClose _ | .receiveFinish _ => true
  | _ => false

theorem cnt_snoc_plain (w : List Msg) (m : Msg) (hm : isPortMsg m = false) (q : Nat) :
    cntSF (w ++ [m]) q = cntSF w q ∧ cntRC (w ++ [m]) q = cntRC w q ∧ cntRF (w ++ [m]) q = cntRF w q := by
  cases m <;> simp [isPortMsg] at hm <;> simp [cntSF, cntRC, cntRF, List.count_append, List.count_cons]

theorem po_snoc_plain (w : List Msg) (m : Msg) (hm : isPortMsg m = false) (q p : Nat) :
    Msg.portOpened q p ∈ w ++ [m] ↔ Msg.portOpened q p ∈ w := by
  cases m <;> simp [isPortMsg] at hm <;> simp

/-- the table of `x` loses or keeps connected entries (nothing new) -/
theorem PortInv.shrink_tx {x x' y : Ep} {w : List Msg} (h : PortInv x y w)
    (hx : ∀ p c, lookup x'.ports p = some (.connected c) →
      ∃ c0, lookup x.ports p = some (.connected c0) ∧ c.remote = c0.remote ∧ c.senderDropped = c0.senderDropped ∧
        c.receiverDropped = c0.receiverDropped ∧ c.receiverClosed = c0.receiverClosed) : PortInv x' y w :=
  ⟨h.rx_none, h.rx_le, h.rx_conn, h.order, fun p c hc => by
    obtain ⟨c0, h0, h1, h2, h3, h4⟩ := hx p c hc
    exact (h.tx p c0 h0).flags h1 h2 h3 h4⟩

/-- appending a message that is not about ports -/
theorem PortInv.snoc_plain {x y : Ep} {w : List Msg} (h : PortInv x y w) (m : Msg) (hm : isPortMsg m = false) :
    PortInv x y (w ++ [m]) := by
  have hc := cnt_snoc_plain w m hm
  refine ⟨fun q hq => ?_, fun q => ?_, fun q d hd => ?_, ?_, fun p c hc' => ?_⟩
  · rw [(hc q).1, (hc q).2.1, (hc q).2.2]; exact h.rx_none q hq
  · rw [(hc q).1, (hc q).2.1, (hc q).2.2]; exact h.rx_le q
  · rw [(hc q).1, (hc q).2.1, (hc q).2.2]; exact h.rx_conn q d hd
  · rw [okOrder_snoc, h.order]; cases m <;> simp [isPortMsg] at hm <;> rfl
  · exact (h.tx p c hc').congr rfl (hc _).1 (hc _).2.1 (hc _).2.2 (po_snoc_plain w m hm _ _)

theorem emitList_some (m : Msg) : emitList (some m) = [m] := rfl

/-- a port whose partner is gone has dropped both halves and owes nothing -/
theorem TxOk.dead {y : Ep} {w : List Msg} {p : Nat} {c : Connected}
    (h1 : c.senderDropped = true) (h2 : c.receiverDropped = true) (hnl : ¬ Live y w p c.remote) : TxOk y w p c :=
  ⟨fun h => by rw [h1] at h; simp at h, fun _ hl => absurd hl hnl, fun h => by rw [h2] at h; simp at h,
   fun _ hl => absurd hl hnl, fun _ h => by rw [h2] at h; simp at h⟩

theorem TxOk.flags_of_dead {y : Ep} {w : List Msg} {p : Nat} {c : Connected} (h : TxOk y w p c)
    (hnl : ¬ Live y w p c.remote) : c.senderDropped = true ∧ c.receiverDropped = true := by
  constructor
  · cases hs : c.senderDropped with
    | true => rfl
    | false => exact absurd (h.sd0 hs).1 hnl
  · cases hs : c.receiverDropped with
    | true => rfl
    | false => exact absurd (h.rd0 hs).1 hnl

theorem Live.ne_none {y : Ep} {w : List Msg} {p q : Nat} (h : Live y w p q) : lookup y.ports q ≠ none := by
  rcases h with ⟨d, hd, _⟩ | ⟨hc, _⟩
  · rw [hd]; simp
  · rw [hc]; simp

theorem Live.known {y : Ep} {w : List Msg} {p q : Nat} (h : Live y w p q) :
    (isConnected y q || opened w q) = true := by
  rcases h with ⟨d, hd, _⟩ | ⟨_, hp⟩
  · simp [isConnected, hd]
  · simp [(opened_iff w q).mpr ⟨p, hp⟩]

/-- another port of `x` with the same remote as a port with a live partner is dead -/
theorem TxOk.other_dead {y : Ep} {w w' : List Msg} {p p' : Nat} {c' : Connected} {q : Nat}
    (hnd : (respPorts w).Nodup) (hl : Live y w p q) (hne : p' ≠ p) (hq : c'.remote = q)
    (hpo : Msg.portOpened q p' ∈ w' ↔ Msg.portOpened q p' ∈ w)
    (h : TxOk y w p' c') : TxOk y w' p' c' := by
  have hnl : ¬ Live y w p' c'.remote := by
    rw [hq]; intro hl'; exact hne (Live.unique hnd hl' hl)
  obtain ⟨h1, h2⟩ := h.flags_of_dead hnl
  refine TxOk.dead h1 h2 ?_
  rw [hq] at hnl ⊢
  rw [Live.congr rfl hpo]; exact hnl

theorem cnt_snoc_sf (w : List Msg) (q q' : Nat) :
    cntSF (w ++ [.sendFinish q]) q' = cntSF w q' + (if q' = q then 1 else 0) ∧
    cntRC (w ++ [.sendFinish q]) q' = cntRC w q' ∧ cntRF (w ++ [.sendFinish q]) q' = cntRF w q' := by
  by_cases h : q' = q
  · subst h; simp [cntSF, cntRC, cntRF, List.count_append, List.count_cons]
  · have : ¬ q = q' := fun h' => h h'.symm
    simp [cntSF, cntRC, cntRF, List.count_append, List.count_cons, h, this]

/-- the local sender of port `p` is dropped: `SendFinish` goes on the wire -/
theorem PortInv.send_finish {x x' y : Ep} {w : List Msg} {p : Nat} {c : Connected}
    (hp : lookup x.ports p = some (.connected c)) (hsd : c.senderDropped = false)
    (hnd : (respPorts w).Nodup)
    (hx' : ∀ p' c', lookup x'.ports p' = some (.connected c') →
      (p' = p ∧ c' = { c with senderDropped := true }) ∨ (p' ≠ p ∧ lookup x.ports p' = some (.connected c')))
    (h : PortInv x y w) : PortInv x' y (w ++ [.sendFinish c.remote]) := by
  obtain ⟨hL, h0, hd⟩ := (h.tx p c hp).sd0 hsd
  have hc := cnt_snoc_sf w c.remote
  have hpo : ∀ q p0, Msg.portOpened q p0 ∈ w ++ [Msg.sendFinish c.remote] ↔ Msg.portOpened q p0 ∈ w := by
    intro q p0; simp
  refine ⟨fun q hq => ?_, fun q => ?_, fun q d hd' => ?_, ?_, fun p' c' hc' => ?_⟩
  · have hne : q ≠ c.remote := by intro h'; subst h'; exact hL.ne_none hq
    rw [(hc q).1, (hc q).2.1, (hc q).2.2]; simp only [hne, if_false, Nat.add_zero]; exact h.rx_none q hq
  · rw [(hc q).1, (hc q).2.1, (hc q).2.2]
    have := h.rx_le q
    by_cases hq : q = c.remote
    · subst hq; simp only [if_true]; omega
    · simp only [hq, if_false]; omega
  · rw [(hc q).1, (hc q).2.1, (hc q).2.2]
    have := h.rx_conn q d hd'
    by_cases hq : q = c.remote
    · subst hq
      refine ⟨fun hr => ?_, this.2.1, this.2.2⟩
      rw [hd d hd'] at hr; simp at hr
    · simp only [hq, if_false, Nat.add_zero]; exact this
  · rw [okOrder_snoc, h.order]; simp only [snocOk, Bool.true_and]; exact hL.known
  · rcases hx' p' c' hc' with ⟨rfl, rfl⟩ | ⟨hne, hold⟩
    · have ht := h.tx p' c hp
      refine ⟨fun hs => by simp at hs, fun _ _ => Or.inl ?_, ?_, ?_, ?_⟩
      · show cntSF _ c.remote = 1
        rw [(hc c.remote).1, h0]; simp
      · show c.receiverDropped = false → _
        rw [Live.congr rfl (hpo _ _), (hc c.remote).2.2]; exact ht.rd0
      · show c.receiverDropped = true → _
        rw [Live.congr rfl (hpo _ _), (hc c.remote).2.2]; exact ht.rd1
      · show c.receiverClosed = false → c.receiverDropped = false → _
        rw [(hc c.remote).2.1]; exact ht.rc0
    · have ht := h.tx p' c' hold
      by_cases hq : c'.remote = c.remote
      · exact ht.other_dead hnd hL hne hq (hpo _ _)
      · exact ht.congr rfl (by rw [(hc _).1]; simp [hq]) (hc _).2.1 (hc _).2.2 (hpo _ _)

theorem cnt_snoc_rf (w : List Msg) (q q' : Nat) :
    cntRF (w ++ [.receiveFinish q]) q' = cntRF w q' + (if q' = q then 1 else 0) ∧
    cntRC (w ++ [.receiveFinish q]) q' = cntRC w q' ∧ cntSF (w ++ [.receiveFinish q]) q' = cntSF w q' := by
  by_cases h : q' = q
  · subst h; simp [cntSF, cntRC, cntRF, List.count_append, List.count_cons]
  · have : ¬ q = q' := fun h' => h h'.symm
    simp [cntSF, cntRC, cntRF, List.count_append, List.count_cons, h, this]

theorem cnt_snoc_rc (w : List Msg) (q q' : Nat) :
    cntRC (w ++ [.receiveClose q]) q' = cntRC w q' + (if q' = q then 1 else 0) ∧
    cntRF (w ++ [.receiveClose q]) q' = cntRF w q' ∧ cntSF (w ++ [.receiveClose q]) q' = cntSF w q' := by
  by_cases h : q' = q
  · subst h; simp [cntSF, cntRC, cntRF, List.count_append, List.count_cons]
  · have : ¬ q = q' := fun h' => h h'.symm
    simp [cntSF, cntRC, cntRF, List.count_append, List.count_cons, h, this]

/-- the local receiver of port `p` is dropped: `ReceiveFinish` goes on the wire -/
theorem PortInv.recv_finish {x x' y : Ep} {w : List Msg} {p : Nat} {c : Connected}
    (hp : lookup x.ports p = some (.connected c)) (hrd : c.receiverDropped = false)
    (hnd : (respPorts w).Nodup)
    (hx' : ∀ p' c', lookup x'.ports p' = some (.connected c') →
      (p' = p ∧ c' = { c with receiverDropped := true }) ∨ (p' ≠ p ∧ lookup x.ports p' = some (.connected c')))
    (h : PortInv x y w) : PortInv x' y (w ++ [.receiveFinish c.remote]) := by
  obtain ⟨hL, h0, hd⟩ := (h.tx p c hp).rd0 hrd
  have hc := cnt_snoc_rf w c.remote
  have hpo : ∀ q p0, Msg.portOpened q p0 ∈ w ++ [Msg.receiveFinish c.remote] ↔ Msg.portOpened q p0 ∈ w := by
    intro q p0; simp
  refine ⟨fun q hq => ?_, fun q => ?_, fun q d hd' => ?_, ?_, fun p' c' hc' => ?_⟩
  · have hne : q ≠ c.remote := by intro h'; subst h'; exact hL.ne_none hq
    rw [(hc q).1, (hc q).2.1, (hc q).2.2]; simp only [hne, if_false, Nat.add_zero]; exact h.rx_none q hq
  · rw [(hc q).1, (hc q).2.1, (hc q).2.2]
    have := h.rx_le q
    by_cases hq : q = c.remote
    · subst hq; simp only [if_true]; omega
    · simp only [hq, if_false]; omega
  · rw [(hc q).1, (hc q).2.1, (hc q).2.2]
    have := h.rx_conn q d hd'
    by_cases hq : q = c.remote
    · subst hq
      refine ⟨this.1, this.2.1, fun hr => ?_⟩
      rw [hd d hd'] at hr; simp at hr
    · simp only [hq, if_false, Nat.add_zero]; exact this
  · rw [okOrder_snoc, h.order]; simp only [snocOk, Bool.true_and]; exact hL.known
  · rcases hx' p' c' hc' with ⟨rfl, rfl⟩ | ⟨hne, hold⟩
    · have ht := h.tx p' c hp
      refine ⟨?_, ?_, fun hs => by simp at hs, fun _ _ => Or.inl ?_, fun _ hs => by simp at hs⟩
      · show c.senderDropped = false → _
        rw [Live.congr rfl (hpo _ _), (hc c.remote).2.2]; exact ht.sd0
      · show c.senderDropped = true → _
        rw [Live.congr rfl (hpo _ _), (hc c.remote).2.2]; exact ht.sd1
      · show cntRF _ c.remote = 1
        rw [(hc c.remote).1, h0]; simp
    · have ht := h.tx p' c' hold
      by_cases hq : c'.remote = c.remote
      · exact ht.other_dead hnd hL hne hq (hpo _ _)
      · exact ht.congr rfl (hc _).2.2 (hc _).2.1 (by rw [(hc _).1]; simp [hq]) (hpo _ _)

/-- the local receiver of port `p` is closed: `ReceiveClose` goes on the wire -/
theorem PortInv.recv_close {x x' y : Ep} {w : List Msg} {p : Nat} {c : Connected}
    (hp : lookup x.ports p = some (.connected c)) (hrc : c.receiverClosed = false) (hrd : c.receiverDropped = false)
    (hnd : (respPorts w).Nodup)
    (hx' : ∀ p' c', lookup x'.ports p' = some (.connected c') →
      (p' = p ∧ c' = { c with receiverClosed := true }) ∨ (p' ≠ p ∧ lookup x.ports p' = some (.connected c')))
    (h : PortInv x y w) : PortInv x' y (w ++ [.receiveClose c.remote]) := by
  obtain ⟨hL, h0, hd⟩ := (h.tx p c hp).rd0 hrd
  obtain ⟨h0c, hdc⟩ := (h.tx p c hp).rc0 hrc hrd
  have hc := cnt_snoc_rc w c.remote
  have hpo : ∀ q p0, Msg.portOpened q p0 ∈ w ++ [Msg.receiveClose c.remote] ↔ Msg.portOpened q p0 ∈ w := by
    intro q p0; simp
  refine ⟨fun q hq => ?_, fun q => ?_, fun q d hd' => ?_, ?_, fun p' c' hc' => ?_⟩
  · have hne : q ≠ c.remote := by intro h'; subst h'; exact hL.ne_none hq
    rw [(hc q).1, (hc q).2.1, (hc q).2.2]; simp only [hne, if_false, Nat.add_zero]; exact h.rx_none q hq
  · rw [(hc q).1, (hc q).2.1, (hc q).2.2]
    have := h.rx_le q
    by_cases hq : q = c.remote
    · subst hq; simp only [if_true]; omega
    · simp only [hq, if_false]; omega
  · rw [(hc q).1, (hc q).2.1, (hc q).2.2]
    have := h.rx_conn q d hd'
    by_cases hq : q = c.remote
    · subst hq
      refine ⟨this.1, fun hr => ?_, fun hr => ?_⟩
      · rw [hdc d hd'] at hr; simp at hr
      · rw [hd d hd'] at hr; simp at hr
    · simp only [hq, if_false, Nat.add_zero]; exact this
  · rw [okOrder_snoc, h.order]; simp only [snocOk, Bool.true_and, Bool.and_eq_true]
    refine ⟨hL.known, ?_⟩
    simp only [Bool.not_eq_true']
    cases hcon : w.contains (Msg.receiveFinish c.remote) with
    | false => rfl
    | true =>
      have hin : Msg.receiveFinish c.remote ∈ w := by simpa using hcon
      have : 0 < cntRF w c.remote := List.count_pos_iff.mpr hin
      omega
  · rcases hx' p' c' hc' with ⟨rfl, rfl⟩ | ⟨hne, hold⟩
    · have ht := h.tx p' c hp
      refine ⟨?_, ?_, ?_, ?_, fun hs => by simp at hs⟩
      · show c.senderDropped = false → _
        rw [Live.congr rfl (hpo _ _), (hc c.remote).2.2]; exact ht.sd0
      · show c.senderDropped = true → _
        rw [Live.congr rfl (hpo _ _), (hc c.remote).2.2]; exact ht.sd1
      · show c.receiverDropped = false → _
        rw [Live.congr rfl (hpo _ _), (hc c.remote).2.1]; exact ht.rd0
      · show c.receiverDropped = true → _
        rw [Live.congr rfl (hpo _ _), (hc c.remote).2.1]; exact ht.rd1
    · have ht := h.tx p' c' hold
      by_cases hq : c'.remote = c.remote
      · exact ht.other_dead hnd hL hne hq (hpo _ _)
      · exact ht.congr rfl (hc _).2.2 (by rw [(hc _).1]; simp [hq]) (hc _).2.1 (hpo _ _)

theorem cnt_snoc_po (w : List Msg) (a b q : Nat) :
    cntSF (w ++ [.portOpened a b]) q = cntSF w q ∧ cntRC (w ++ [.portOpened a b]) q = cntRC w q ∧
    cntRF (w ++ [.portOpened a b]) q = cntRF w q := by
  simp [cntSF, cntRC, cntRF, List.count_append, List.count_cons]

/-- the local listener accepted request `rp` on the fresh port `lp`: `PortOpened` goes on the wire -/
theorem PortInv.accept {x x' y : Ep} {w : List Msg} {lp rp : Nat}
    (hyc : lookup y.ports rp = some .connecting) (hnr : rp ∉ respPorts w)
    (hx' : ∀ p' c', lookup x'.ports p' = some (.connected c') →
      (p' = lp ∧ c'.remote = rp ∧ c'.senderDropped = false ∧ c'.receiverDropped = false ∧ c'.receiverClosed = false) ∨
      (p' ≠ lp ∧ lookup x.ports p' = some (.connected c')))
    (h : PortInv x y w) : PortInv x' y (w ++ [.portOpened rp lp]) := by
  have hc := cnt_snoc_po w rp lp
  have hnone : noneFor w rp :=
    okOrder_none w _ rp h.order (by simp [isConnected, hyc]) (opened_false_of_not_resp w rp hnr)
  refine ⟨fun q hq => ?_, fun q => ?_, fun q d hd' => ?_, ?_, fun p' c' hc' => ?_⟩
  · rw [(hc q).1, (hc q).2.1, (hc q).2.2]; exact h.rx_none q hq
  · rw [(hc q).1, (hc q).2.1, (hc q).2.2]; exact h.rx_le q
  · rw [(hc q).1, (hc q).2.1, (hc q).2.2]; exact h.rx_conn q d hd'
  · rw [okOrder_snoc, h.order]; rfl
  · rcases hx' p' c' hc' with ⟨rfl, hr, h1, h2, h3⟩ | ⟨hne, hold⟩
    · have hL : Live y (w ++ [Msg.portOpened rp p']) p' c'.remote := by
        rw [hr]; exact Or.inr ⟨hyc, by simp⟩
      have hv : ∀ d, lookup y.ports c'.remote = some (.connected d) → False := by
        intro d hd; rw [hr, hyc] at hd; simp at hd
      refine ⟨fun _ => ⟨hL, ?_, fun d hd => (hv d hd).elim⟩, fun hs => by rw [h1] at hs; simp at hs,
              fun _ => ⟨hL, ?_, fun d hd => (hv d hd).elim⟩, fun hs => by rw [h2] at hs; simp at hs,
              fun _ _ => ⟨?_, fun d hd => (hv d hd).elim⟩⟩
      · rw [hr, (hc rp).1]; exact hnone.1
      · rw [hr, (hc rp).2.2]; exact hnone.2.2
      · rw [hr, (hc rp).2.1]; exact hnone.2.1
    · refine (h.tx p' c' hold).congr rfl (hc _).1 (hc _).2.1 (hc _).2.2 ?_
      simp only [List.mem_append, List.mem_singleton, Msg.portOpened.injEq]
      constructor
      · rintro (h' | ⟨_, h'⟩)
        · exact h'
        · exact absurd h' hne
      · intro h'; exact Or.inl h'

/-- **writer side, local event**: `x` handles an event and appends what it emits to the wire -/
theorem port_tx_evt (x x' y : Ep) (w : List Msg) (ev : Evt) (m : Option Msg)
    (he : handleEvt x ev = some (x', m)) (h : PortInv x y w)
    (hnd : (respPorts w).Nodup)
    (hout : ∀ rp ∈ x.outstanding, lookup y.ports rp = some .connecting ∧ rp ∉ respPorts w) :
    PortInv x' y (w ++ emitList m) := by
  cases ev with
  | connectReq p wt i =>
    simp only [handleEvt] at he
    split at he
    · simp at he
    · rename_i hn
      have hn' : lookup x.ports p = none := by simpa using hn
      split at he
      · simp only [Option.some.injEq, Prod.mk.injEq] at he
        obtain ⟨rfl, rfl⟩ := he
        simp only [emitList, List.append_nil]
        exact h.shrink_tx (fun p' c hc => ⟨c, hc, rfl, rfl, rfl, rfl⟩)
      · simp only [Option.some.injEq, Prod.mk.injEq] at he
        obtain ⟨rfl, rfl⟩ := he
        simp only [emitList, forPeer]
        refine (h.snoc_plain _ rfl).shrink_tx (fun p' c hc => ?_)
        rcases setPort_cases _ _ _ _ _ hc with ⟨_, h2⟩ | ⟨_, h2⟩
        · simp at h2
        · exact ⟨c, h2, rfl, rfl, rfl, rfl⟩
  | accepted lp rp =>
    simp only [handleEvt] at he
    split at he
    · simp at he
    · rename_i hg
      simp only [Option.some.injEq, Prod.mk.injEq] at he
      obtain ⟨rfl, rfl⟩ := he
      have hin : rp ∈ x.outstanding := by
        by_cases hc : x.outstanding.contains rp
        · simpa using hc
        · exact absurd (Or.inl hc) hg
      obtain ⟨h1, h2⟩ := hout rp hin
      simp only [emitList]
      refine h.accept h1 h2 (fun p' c' hc' => ?_)
      rcases setPort_cases _ _ _ _ _ hc' with ⟨h3, h4⟩ | ⟨h3, h4⟩
      · left; injection h4 with h4; subst h4; exact ⟨h3, rfl, rfl, rfl, rfl⟩
      · right; exact ⟨h3, h4⟩
  | rejected rp np =>
    simp only [handleEvt] at he
    split at he
    · simp at he
    · simp only [Option.some.injEq, Prod.mk.injEq] at he
      obtain ⟨rfl, rfl⟩ := he
      exact (h.snoc_plain _ rfl).shrink_tx (fun p' c hc => ⟨c, hc, rfl, rfl, rfl, rfl⟩)
  | senderDropped p =>
    simp only [handleEvt] at he
    split at he
    · rename_i c hc
      split at he
      · simp at he
      · rename_i hs
        simp only [Option.some.injEq, Prod.mk.injEq] at he
        obtain ⟨rfl, rfl⟩ := he
        refine h.send_finish hc (by simpa using hs) hnd (fun p' c' hc' => ?_)
        rcases maybeFree_set_cases _ _ _ _ _ hc' with ⟨h3, h4⟩ | ⟨h3, h4⟩
        · left; injection h4 with h4; exact ⟨h3, h4⟩
        · right; exact ⟨h3, h4⟩
    · simp at he
  | receiverClosed p =>
    simp only [handleEvt] at he
    split at he
    · rename_i c hc
      split at he
      · simp at he
      · rename_i hs
        simp only [Option.some.injEq, Prod.mk.injEq] at he
        obtain ⟨rfl, rfl⟩ := he
        have hs' : c.receiverClosed = false ∧ c.receiverDropped = false := by
          simp only [not_or, Bool.not_eq_true] at hs; exact hs
        refine h.recv_close hc hs'.1 hs'.2 hnd (fun p' c' hc' => ?_)
        rcases setPort_cases _ _ _ _ _ hc' with ⟨h3, h4⟩ | ⟨h3, h4⟩
        · left; injection h4 with h4; exact ⟨h3, h4⟩
        · right; exact ⟨h3, h4⟩
    · simp at he
  | receiverDropped p =>
    simp only [handleEvt] at he
    split at he
    · rename_i c hc
      split at he
      · simp at he
      · rename_i hs
        simp only [Option.some.injEq, Prod.mk.injEq] at he
        obtain ⟨rfl, rfl⟩ := he
        refine h.recv_finish hc (by simpa using hs) hnd (fun p' c' hc' => ?_)
        rcases maybeFree_set_cases _ _ _ _ _ hc' with ⟨h3, h4⟩ | ⟨h3, h4⟩
        · left; injection h4 with h4; exact ⟨h3, h4⟩
        · right; exact ⟨h3, h4⟩
    · simp at he
  | allClientsDropped =>
    simp only [handleEvt] at he
    split at he
    · simp at he
    · simp only [Option.some.injEq, Prod.mk.injEq] at he
      obtain ⟨rfl, rfl⟩ := he
      exact (h.snoc_plain _ rfl).shrink_tx (fun p' c hc => ⟨c, hc, rfl, rfl, rfl, rfl⟩)
  | listenerDropped =>
    simp only [handleEvt] at he
    split at he
    · simp at he
    · simp only [Option.some.injEq, Prod.mk.injEq] at he
      obtain ⟨rfl, rfl⟩ := he
      exact (h.snoc_plain _ rfl).shrink_tx (fun p' c hc => ⟨c, hc, rfl, rfl, rfl, rfl⟩)
  | sendGoodbye =>
    simp only [handleEvt] at he
    split at he
    · simp at he
    · simp only [Option.some.injEq, Prod.mk.injEq] at he
      obtain ⟨rfl, rfl⟩ := he
      exact (h.snoc_plain _ rfl).shrink_tx (fun p' c hc => ⟨c, hc, rfl, rfl, rfl, rfl⟩)

/-- local-flag view of a connected entry -/
def SameLocal (c c0 : Connected) : Prop :=
  c.remote = c0.remote ∧ c.senderDropped = c0.senderDropped ∧
  c.receiverDropped = c0.receiverDropped ∧ c.receiverClosed = c0.receiverClosed

theorem SameLocal.rfl' (c : Connected) : SameLocal c c := ⟨rfl, rfl, rfl, rfl⟩

/-- a received message other than `PortOpened` creates no connected entry and changes no local flag -/
theorem handleRx_keeps_local (e e' : Ep) (m : Msg) (em : Emit) (h : handleRx e m = .ok (e', em))
    (hm : ∀ cp sp, m ≠ .portOpened cp sp) :
    ∀ p c, lookup e'.ports p = some (.connected c) → ∃ c0, lookup e.ports p = some (.connected c0) ∧ SameLocal c c0 := by
  intro p c hc
  cases m with
  | portOpened cp sp => exact absurd rfl (hm cp sp)
  | reset => simp [handleRx] at h
  | hello v cfg => simp [handleRx] at h
  | ping =>
    simp only [handleRx, Except.ok.injEq, Prod.mk.injEq] at h; obtain ⟨rfl, _⟩ := h; exact ⟨c, hc, .rfl' c⟩
  | data q f l =>
    simp only [handleRx, Except.ok.injEq, Prod.mk.injEq] at h; obtain ⟨rfl, _⟩ := h; exact ⟨c, hc, .rfl' c⟩
  | listenerFinish =>
    simp only [handleRx, Except.ok.injEq, Prod.mk.injEq] at h; obtain ⟨rfl, _⟩ := h; exact ⟨c, hc, .rfl' c⟩
  | goodbye =>
    simp only [handleRx, Except.ok.injEq, Prod.mk.injEq] at h; obtain ⟨rfl, _⟩ := h; exact ⟨c, hc, .rfl' c⟩
  | clientFinish =>
    simp only [handleRx] at h
    (repeat' split at h) <;> first
      | (simp at h; done)
      | (simp only [Except.ok.injEq, Prod.mk.injEq] at h; obtain ⟨rfl, _⟩ := h; exact ⟨c, hc, .rfl' c⟩)
  | openPort cp w id =>
    simp only [handleRx] at h
    (repeat' split at h) <;> first
      | (simp at h; done)
      | (simp only [Except.ok.injEq, Prod.mk.injEq] at h; obtain ⟨rfl, _⟩ := h; exact ⟨c, hc, .rfl' c⟩)
  | rejected cp np =>
    simp only [handleRx] at h
    split at h
    · simp only [Except.ok.injEq, Prod.mk.injEq] at h; obtain ⟨rfl, _⟩ := h
      simp only [lookup_erase] at hc
      by_cases hq : p = cp
      · simp [hq] at hc
      · simp only [hq, if_false] at hc; exact ⟨c, hc, .rfl' c⟩
    · simp at h
  | portData q f l wt ps ids =>
    simp only [handleRx] at h
    (repeat' split at h) <;> first
      | (simp at h; done)
      | (rename_i c1 hc1 _ _ _ _
         simp only [Except.ok.injEq, Prod.mk.injEq] at h; obtain ⟨rfl, _⟩ := h
         rcases setPort_cases _ _ _ _ _ hc with ⟨h3, h4⟩ | ⟨h3, h4⟩
         · injection h4 with h4; subst h4; subst h3; exact ⟨c1, hc1, rfl, rfl, rfl, rfl⟩
         · exact ⟨c, h4, .rfl' c⟩)
  | portCredits q n =>
    simp only [handleRx] at h
    (repeat' split at h) <;> first
      | (simp at h; done)
      | (rename_i c1 hc1 _
         simp only [Except.ok.injEq, Prod.mk.injEq] at h; obtain ⟨rfl, _⟩ := h
         rcases setPort_cases _ _ _ _ _ hc with ⟨h3, h4⟩ | ⟨h3, h4⟩
         · injection h4 with h4; subst h4; subst h3; exact ⟨c1, hc1, rfl, rfl, rfl, rfl⟩
         · exact ⟨c, h4, .rfl' c⟩)
  | sendFinish q =>
    simp only [handleRx] at h
    (repeat' split at h) <;> first
      | (simp at h; done)
      | (rename_i c1 hc1 _
         simp only [Except.ok.injEq, Prod.mk.injEq] at h; obtain ⟨rfl, _⟩ := h
         rcases maybeFree_set_cases _ _ _ _ _ hc with ⟨h3, h4⟩ | ⟨h3, h4⟩
         · injection h4 with h4; subst h4; subst h3; exact ⟨c1, hc1, rfl, rfl, rfl, rfl⟩
         · exact ⟨c, h4, .rfl' c⟩)
  | receiveClose q =>
    simp only [handleRx] at h
    (repeat' split at h) <;> first
      | (simp at h; done)
      | (rename_i c1 hc1 _
         simp only [Except.ok.injEq, Prod.mk.injEq] at h; obtain ⟨rfl, _⟩ := h
         rcases maybeFree_set_cases _ _ _ _ _ hc with ⟨h3, h4⟩ | ⟨h3, h4⟩
         · injection h4 with h4; subst h4; subst h3; exact ⟨c1, hc1, rfl, rfl, rfl, rfl⟩
         · exact ⟨c, h4, .rfl' c⟩)
  | receiveFinish q =>
    simp only [handleRx] at h
    (repeat' split at h) <;> first
      | (simp at h; done)
      | (rename_i c1 hc1
         simp only [Except.ok.injEq, Prod.mk.injEq] at h; obtain ⟨rfl, _⟩ := h
         rcases maybeFree_set_cases _ _ _ _ _ hc with ⟨h3, h4⟩ | ⟨h3, h4⟩
         · injection h4 with h4; subst h4; subst h3; exact ⟨c1, hc1, rfl, rfl, rfl, rfl⟩
         · exact ⟨c, h4, .rfl' c⟩)

/-- what an in-flight `PortOpened cp sp` (sent by `y`, towards `x`) guarantees: `y[sp]` is the fresh
port connected to `cp`, and `x` has sent nothing for it (`w` is the wire x → y) -/
def FreshPartner (y : Ep) (w : List Msg) (cp sp : Nat) : Prop :=
  ∃ d, lookup y.ports sp = some (.connected d) ∧ d.remote = cp ∧ d.remoteSendFinished = false ∧
    d.remoteRecvClosed = false ∧ d.remoteRecvDropped = false ∧ noneFor w sp

/-- **writer side, received message**: `x` handles a message from the other wire -/
theorem port_tx_rx (x x' y : Ep) (w : List Msg) (m : Msg) (em : Emit)
    (he : handleRx x m = .ok (x', em)) (h : PortInv x y w)
    (hop : ∀ cp sp, m = .portOpened cp sp → FreshPartner y w cp sp) :
    PortInv x' y w := by
  by_cases hm : ∃ cp sp, m = .portOpened cp sp
  · obtain ⟨cp, sp, rfl⟩ := hm
    obtain ⟨d, hd, hr, f1, f2, f3, hn⟩ := hop cp sp rfl
    simp only [handleRx] at he
    split at he
    · simp only [Except.ok.injEq, Prod.mk.injEq] at he
      obtain ⟨rfl, _⟩ := he
      refine ⟨h.rx_none, h.rx_le, h.rx_conn, h.order, fun p c hc => ?_⟩
      rcases setPort_cases _ _ _ _ _ hc with ⟨h3, h4⟩ | ⟨h3, h4⟩
      · injection h4 with h4; subst h4; subst h3
        have hL : Live y w p sp := Or.inl ⟨d, hd, hr⟩
        have hv : ∀ d', lookup y.ports sp = some (.connected d') → d' = d := by
          intro d' hd'; rw [hd] at hd'; injection hd' with h'; injection h' with h'; exact h'.symm
        exact ⟨fun _ => ⟨hL, hn.1, fun d' hd' => by rw [hv d' hd']; exact f1⟩, fun hs => by simp at hs,
               fun _ => ⟨hL, hn.2.2, fun d' hd' => by rw [hv d' hd']; exact f3⟩, fun hs => by simp at hs,
               fun _ _ => ⟨hn.2.1, fun d' hd' => by rw [hv d' hd']; exact f2⟩⟩
      · exact h.tx p c h4
    · simp at he
  · refine h.shrink_tx (fun p c hc => ?_)
    obtain ⟨c0, h0, h1, h2, h3, h4⟩ := handleRx_keeps_local x x' m em he (fun cp sp hc' => hm ⟨cp, sp, hc'⟩) p c hc
    exact ⟨c0, h0, h1, h2, h3, h4⟩

end Remoc.Table.Sys
