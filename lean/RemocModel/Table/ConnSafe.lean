import RemocModel.Table.ConnSys
set_option linter.unusedSimpArgs false
set_option linter.unusedVariables false
/-
From the global invariant: the head of a wire is always handled without a protocol error.
-/
namespace Remoc.Table.Sys
open Remoc.Wire Remoc.Table

theorem filter_length_le {α} (l : List α) (p : α → Bool) : (l.filter p).length ≤ l.length :=
  List.length_filter_le p l

/-- **delivery never fails between conforming endpoints** (one direction: `y` reads `m :: rest`
written by `x`) -/
theorem rx_ok (x y : Side) (m : Msg) (rest wyx : List Msg)
    (rxy : ReqInv x y (m :: rest) wyx) (ryx : ReqInv y x wyx (m :: rest))
    (hp : PortInv x.ep y.ep (m :: rest)) (hf : FlagInv x.ep y.ep (m :: rest)) (hctl : isCtl m = true) :
    ∃ e' em, handleRx y.rxView m = .ok (e', em) := by
  cases m with
  | openPort cp wt id =>
    have hnd := rxy.nodup
    simp only [reqWhere, reqPorts, List.cons_append, List.nodup_cons, List.mem_append] at hnd
    have hnot : cp ∉ y.ep.outstanding := fun h => hnd.1 (Or.inl (Or.inr h))
    have hcon : y.rxView.outstanding.contains cp = false := by
      simp only [Side.rxView]; simpa using hnot
    simp only [handleRx, hcon, Bool.false_eq_true, if_false]
    split
    · exact ⟨_, _, rfl⟩
    · split
      · rename_i hfull
        exfalso
        -- the listener queue has room
        have hrcd : y.ep.remoteClientDropped = false := by
          cases hr : y.ep.remoteClientDropped with
          | false => rfl
          | true => have := hf.rcd hr; simp [openReqs] at this
        have hcdq : y.ep.clientDroppedQueued = 0 := by
          have := hf.cdq; rw [hrcd] at this; simpa [b2n] using this
        have hpend := rxy.pend
        have hperm := rxy.perm
        have hcfg := rxy.cfg
        have hndo : y.ep.outstanding.Nodup := by
          have := rxy.nodup; simp only [reqWhere] at this
          exact (List.nodup_append.mp (List.nodup_append.mp this).1).2.1
        have hl := ((List.perm_ext_iff_of_nodup rxy.outNodup hndo).mpr rxy.outMem).length_eq
        simp only [reqWhere, reqPorts, outWhere, List.length_append, List.length_map, List.length_cons,
          Side.permits] at hpend hperm hl
        simp only [queuedFor, Side.rxView, hcdq, Nat.add_zero] at hfull
        have := filter_length_le y.ep.listenQ (fun x => x.2 == wt)
        omega
      · exact ⟨_, _, rfl⟩
  | portOpened cp sp =>
    have := (ryx.conn cp).mpr (by simp [reqWhere, respPorts])
    have hl : lookup y.rxView.ports cp = some .connecting := this
    simp only [handleRx, hl]; exact ⟨_, _, rfl⟩
  | rejected cp np =>
    have := (ryx.conn cp).mpr (by simp [reqWhere, respPorts])
    have hl : lookup y.rxView.ports cp = some .connecting := this
    simp only [handleRx, hl]; exact ⟨_, _, rfl⟩
  | sendFinish q =>
    have ho := hp.order; simp only [okOrder, Bool.and_eq_true] at ho
    have hc := ho.1; simp only [isConnected] at hc
    split at hc
    · rename_i d hd
      have hl : lookup y.rxView.ports q = some (.connected d) := hd
      have hns : d.remoteSendFinished = false := by
        cases hs : d.remoteSendFinished with
        | false => rfl
        | true => have := (hp.rx_conn q d hd).1 hs; simp [cntSF] at this
      simp only [handleRx, hl, hns]; exact ⟨_, _, rfl⟩
    · simp at hc
  | receiveClose q =>
    have ho := hp.order; simp only [okOrder, Bool.and_eq_true] at ho
    have hc := ho.1; simp only [isConnected] at hc
    split at hc
    · rename_i d hd
      have hl : lookup y.rxView.ports q = some (.connected d) := hd
      have hns : d.remoteRecvClosed = false := by
        cases hs : d.remoteRecvClosed with
        | false => rfl
        | true => have := (hp.rx_conn q d hd).2.1 hs; simp [cntRC] at this
      simp only [handleRx, hl, hns]; exact ⟨_, _, rfl⟩
    · simp at hc
  | receiveFinish q =>
    have ho := hp.order; simp only [okOrder, Bool.and_eq_true] at ho
    have hc := ho.1.1; simp only [isConnected] at hc
    split at hc
    · rename_i d hd
      have hl : lookup y.rxView.ports q = some (.connected d) := hd
      simp only [handleRx, hl]; exact ⟨_, _, rfl⟩
    · simp at hc
  | clientFinish =>
    simp only [handleRx]
    split
    · exact ⟨_, _, rfl⟩
    · split
      · rename_i hfull
        exfalso
        have hcf := hf.cf
        have hrcd : y.ep.remoteClientDropped = false := by
          cases hr : y.ep.remoteClientDropped with
          | false => rfl
          | true =>
            rw [hr] at hcf; simp only [List.count_cons_self, b2n] at hcf
            cases hx : x.ep.allClientsDropped <;> simp [hx] at hcf <;> omega
        have hcdq : y.ep.clientDroppedQueued = 0 := by
          have := hf.cdq; rw [hrcd] at this; simpa [b2n] using this
        have hpend := rxy.pend
        have hperm := rxy.perm
        have hcfg := rxy.cfg
        have hndo : y.ep.outstanding.Nodup := by
          have := rxy.nodup; simp only [reqWhere] at this
          exact (List.nodup_append.mp (List.nodup_append.mp this).1).2.1
        have hl := ((List.perm_ext_iff_of_nodup rxy.outNodup hndo).mpr rxy.outMem).length_eq
        simp only [reqWhere, reqPorts, outWhere, List.length_append, List.length_map,
          Side.permits] at hpend hperm hl
        simp only [queuedFor, Side.rxView, hcdq, Nat.add_zero] at hfull
        have h1 := filter_length_le y.ep.listenQ (fun x => x.2 == true)
        have h2 := filter_length_le y.ep.listenQ (fun x => x.2 == false)
        omega
      · exact ⟨_, _, rfl⟩
  | listenerFinish => exact ⟨_, _, rfl⟩
  | goodbye => exact ⟨_, _, rfl⟩
  | _ => simp [isCtl, isOther] at hctl

theorem mem_accPorts_head (lp rp : Nat) (rest : List Evt) : lp ∈ accPorts (Evt.accepted lp rp :: rest) := by
  simp [accPorts]

/-- **no queued event makes the dispatcher panic**: the head of either event queue of side `v` is
handled by `handle_event` (`c` is the peer) -/
theorem evt_ok (c v : Side) (wcv wvc : List Msg) (r : ReqInv c v wcv wvc) (hq : QType v) (hc : ClientInv v)
    (ha : AllocInv v) (hh : HandleInv v) :
    (∀ ev rest, v.connQ = ev :: rest → (handleEvt v.ep ev).isSome = true) ∧
    (∀ ev rest, v.portQ = ev :: rest → (handleEvt v.ep ev).isSome = true) := by
  constructor
  · intro ev rest hcq
    have hce := hq.conn ev (by rw [hcq]; simp)
    cases ev with
    | connectReq p w i =>
      have hin : p ∈ heldNums v := by simp [heldNums, hcq, connPorts]
      have hn := ha.core.disj p hin
      simp only [handleEvt, hn, Option.isSome_none, Bool.false_eq_true, if_false]
      split <;> rfl
    | allClientsDropped =>
      have hnd : v.ep.allClientsDropped = false := by
        cases hx : v.ep.allClientsDropped with
        | false => rfl
        | true => have := hc.done hx; rw [hcq] at this; simp at this
      simp [handleEvt, hnd]
    | _ => simp [isConnEvt] at hce
  · intro ev rest hpq
    have hpe := hq.port ev (by rw [hpq]; simp)
    cases ev with
    | accepted lp rp =>
      have hin : lp ∈ heldNums v := by simp [heldNums, hpq, accPorts]
      have hn := ha.core.disj lp hin
      have hout : rp ∈ v.ep.outstanding := (r.outMem rp).mp (by simp [outWhere, hpq, ansPorts])
      have hcon : v.ep.outstanding.contains rp = true := by simpa using hout
      simp [handleEvt, hn, hout]
    | rejected rp np =>
      have hout : rp ∈ v.ep.outstanding := (r.outMem rp).mp (by simp [outWhere, hpq, ansPorts])
      simp [handleEvt, hout]
    | senderDropped p =>
      obtain ⟨c0, h1, h2⟩ := hh.sd p (Or.inr (by simp [hpq, sdPorts]))
      simp [handleEvt, h1, h2]
    | receiverClosed p =>
      obtain ⟨c0, h1, h2, h3⟩ := hh.rc p (Or.inr (by simp [hpq, rcPorts]))
      simp [handleEvt, h1, h2, h3]
    | receiverDropped p =>
      obtain ⟨c0, h1, h2⟩ := hh.rd p (Or.inr (by simp [hpq, rdPorts]))
      simp [handleEvt, h1, h2]
    | _ => simp [isPortEvt] at hpe

end Remoc.Table.Sys
