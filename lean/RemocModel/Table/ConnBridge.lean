import RemocModel.Table.ConnLog
set_option linter.unusedSimpArgs false
set_option linter.unusedVariables false
/-
Bridge: the decidable predicate `wireInvB` that `Driver/Conn.lean` evaluates on the real traces is
implied by the proved invariants, so it holds in every reachable state of the system model.
-/
namespace Remoc.Table.Sys
open Remoc.Wire Remoc.Table

/-- the port table has one entry per port number -/
def KeysNodup (e : Ep) : Prop := (e.ports.map (·.1)).Nodup

theorem keys_erase (ps : List (Nat × PortSt)) (p : Nat) :
    (erase ps p).map (·.1) = (ps.map (·.1)).filter (· != p) := by
  induction ps with
  | nil => rfl
  | cons a as ih =>
    obtain ⟨k, v⟩ := a
    simp only [erase, List.map_cons, List.filter_cons]
    by_cases hk : k = p
    · simp [hk, ih]
    · simp [hk, ih]

theorem keysNodup_erase (ps : List (Nat × PortSt)) (p : Nat) (h : (ps.map (·.1)).Nodup) :
    ((erase ps p).map (·.1)).Nodup := by rw [keys_erase]; exact h.filter _

theorem keysNodup_setPort (ps : List (Nat × PortSt)) (p : Nat) (st : PortSt) (h : (ps.map (·.1)).Nodup) :
    ((setPort ps p st).map (·.1)).Nodup := by
  simp only [setPort, List.map_cons, List.nodup_cons]
  refine ⟨?_, keysNodup_erase ps p h⟩
  rw [keys_erase]; simp [List.mem_filter]

theorem keysNodup_maybeFree (e : Ep) (p : Nat) (h : KeysNodup e) : KeysNodup (maybeFree e p) := by
  unfold maybeFree
  (repeat' split) <;> first | exact h | exact keysNodup_erase _ _ h

theorem keysNodup_evt (e e' : Ep) (ev : Evt) (m : Option Msg) (he : handleEvt e ev = some (e', m)) (h : KeysNodup e) :
    KeysNodup e' := by
  cases ev <;> simp only [handleEvt] at he <;> (repeat' split at he) <;>
    first
    | (simp at he; done)
    | (simp only [Option.some.injEq, Prod.mk.injEq] at he; obtain ⟨rfl, _⟩ := he
       first
         | exact h
         | exact keysNodup_setPort _ _ _ h
         | exact keysNodup_maybeFree _ _ (keysNodup_setPort _ _ _ h))

theorem keysNodup_rx (e e' : Ep) (m : Msg) (em : Emit) (he : handleRx e m = .ok (e', em)) (h : KeysNodup e) :
    KeysNodup e' := by
  cases m <;> simp only [handleRx] at he <;> (repeat' split at he) <;>
    first
    | (simp at he; done)
    | (simp only [Except.ok.injEq, Prod.mk.injEq] at he; obtain ⟨rfl, _⟩ := he
       first
         | exact h
         | exact keysNodup_setPort _ _ _ h
         | exact keysNodup_erase _ _ h
         | exact keysNodup_maybeFree _ _ (keysNodup_setPort _ _ _ h))

theorem keysNodup_step (s s' : Side) (inW inW' out : List Msg) (l : Lab)
    (hs : stepSide s inW l = some (s', inW', out)) (h : KeysNodup s.ep) : KeysNodup s'.ep := by
  rcases stepSide_kinds s s' inW inW' out l hs with ⟨hp, _⟩ | ⟨ev, m, he, _⟩ | ⟨m, e', em, _, _, he, hp⟩
  · unfold KeysNodup; rw [hp]; exact h
  · exact keysNodup_evt _ _ _ _ he h
  · have := keysNodup_rx _ _ _ _ he (show KeysNodup s.rxView from h)
    unfold KeysNodup; rw [hp]; exact this

theorem keysNodup_run (mpA cqA mpB cqB : Nat) (ls : List (Who × Lab)) :
    KeysNodup (run (init mpA cqA mpB cqB) ls).a.ep ∧ KeysNodup (run (init mpA cqA mpB cqB) ls).b.ep := by
  suffices h : ∀ s : St, KeysNodup s.a.ep → KeysNodup s.b.ep → KeysNodup (run s ls).a.ep ∧ KeysNodup (run s ls).b.ep from
    h _ (by simp [KeysNodup, init, initEp]) (by simp [KeysNodup, init, initEp])
  induction ls with
  | nil => intro s ha hb; exact ⟨ha, hb⟩
  | cons xl ls ih =>
    obtain ⟨x, l⟩ := xl
    intro s ha hb
    simp only [run]
    cases hst : step s x l with
    | none => exact ih s ha hb
    | some s' =>
      simp only []
      cases x with
      | A =>
        simp only [step, Option.map_eq_some_iff] at hst
        obtain ⟨⟨a', inW, out⟩, hs, rfl⟩ := hst
        exact ih _ (keysNodup_step _ _ _ _ _ _ hs ha) hb
      | B =>
        simp only [step, Option.map_eq_some_iff] at hst
        obtain ⟨⟨b', inW, out⟩, hs, rfl⟩ := hst
        exact ih _ ha (keysNodup_step _ _ _ _ _ _ hs hb)

theorem lookup_of_mem (ps : List (Nat × PortSt)) (h : (ps.map (·.1)).Nodup) (k : Nat) (v : PortSt)
    (hm : (k, v) ∈ ps) : lookup ps k = some v := by
  induction ps with
  | nil => simp at hm
  | cons a as ih =>
    obtain ⟨k0, v0⟩ := a
    simp only [List.map_cons, List.nodup_cons] at h
    rcases List.mem_cons.mp hm with hm | hm
    · injection hm with h1 h2; subst h1; subst h2; simp [lookup]
    · have hne : k0 ≠ k := by
        intro hk; subst hk; exact h.1 (List.mem_map.mpr ⟨(k0, v), hm, rfl⟩)
      simp only [lookup, hne, if_false]; exact ih h.2 hm

theorem reqInvB_of (c v : Side) (wcv wvc : List Msg) (r : ReqInv c v wcv wvc) (hk : KeysNodup c.ep) :
    reqInvB c.ep v.ep wcv wvc = true := by
  have hperm := r.perm; have hcfg := r.cfg; have hpend := r.pend
  simp only [reqInvB, reqEqB, Bool.and_eq_true, decide_eq_true_eq, List.all_eq_true, beq_iff_eq, Bool.or_eq_true,
    bne_iff_ne, ne_eq, List.contains_iff_mem]
  refine ⟨⟨⟨⟨⟨r.nodup, fun p hp => ?_⟩, fun kv hkv => ?_⟩, hpend⟩, ?_⟩, hcfg⟩
  · simp [isConnecting, (r.conn p).mpr hp]
  · by_cases h2 : kv.2 = PortSt.connecting
    · right
      have := lookup_of_mem c.ep.ports hk kv.1 kv.2 (by cases kv; exact hkv)
      rw [h2] at this; exact (r.conn kv.1).mp this
    · left; exact h2
  · simp only [Side.permits] at hperm; omega

theorem flagInvB_of (x y : Ep) (w : List Msg) (h : FlagInv x y w) : flagInvB x y w = true := by
  simp only [flagInvB, Bool.and_eq_true, beq_iff_eq, decide_eq_true_eq, Bool.or_eq_true, Bool.not_eq_true',
    List.isEmpty_iff]
  refine ⟨⟨⟨⟨⟨⟨h.cf, h.lf⟩, h.gb⟩, h.acf⟩, ?_⟩, h.cdq⟩, ?_⟩
  · cases hr : y.remoteClientDropped with
    | false => exact Or.inl rfl
    | true => exact Or.inr (h.rcd hr)
  · cases hs : x.goodbyeSent with
    | false => left; simp
    | true =>
      cases hr : y.goodbyeReceived with
      | true => left; simp
      | false => right; exact h.last hs hr

theorem livePartner_iff (y : Ep) (w : List Msg) (p q : Nat) : livePartner y w p q = true ↔ Live y w p q := by
  unfold livePartner Live
  cases hl : lookup y.ports q with
  | none => simp
  | some st =>
    cases st with
    | connecting => simp
    | connected d => simp

theorem rxPortB_of (x y : Ep) (w : List Msg) (h : PortInv x y w) (q : Nat) : rxPortB y w q = true := by
  unfold rxPortB
  obtain ⟨l1, l2, l3⟩ := h.rx_le q
  cases hl : lookup y.ports q with
  | none =>
    obtain ⟨a, b, c⟩ := h.rx_none q hl
    simp [a, b, c]
  | some st =>
    cases st with
    | connecting => simp [l1, l2, l3]
    | connected d =>
      obtain ⟨a, b, c⟩ := h.rx_conn q d hl
      simp only [Bool.and_eq_true, decide_eq_true_eq, Bool.or_eq_true, Bool.not_eq_true', beq_iff_eq]
      refine ⟨⟨⟨⟨⟨l1, l2⟩, l3⟩, ?_⟩, ?_⟩, ?_⟩
      · cases hf : d.remoteSendFinished with
        | false => exact Or.inl rfl
        | true => exact Or.inr (a hf)
      · cases hf : d.remoteRecvClosed with
        | false => exact Or.inl rfl
        | true => exact Or.inr (b hf)
      · cases hf : d.remoteRecvDropped with
        | false => exact Or.inl rfl
        | true => exact Or.inr (c hf)

theorem connectedAt_some (y : Ep) (q : Nat) (d : Connected) : connectedAt y q = some d ↔ lookup y.ports q = some (.connected d) := by
  unfold connectedAt
  cases hl : lookup y.ports q with
  | none => simp
  | some st => cases st <;> simp

theorem txPortB_of (x y : Ep) (w : List Msg) (p : Nat) (c : Connected) (h : TxOk y w p c) : txPortB x y w p c = true := by
  unfold txPortB
  simp only []
  cases hlv : livePartner y w p c.remote with
  | false =>
    have hnl : ¬ Live y w p c.remote := by rw [← livePartner_iff, hlv]; simp
    obtain ⟨h1, h2⟩ := h.flags_of_dead hnl
    simp [h1, h2]
  | true =>
    have hl : Live y w p c.remote := (livePartner_iff _ _ _ _).mp hlv
    simp only [if_true, Bool.true_and, Bool.and_true, Bool.and_eq_true, Bool.or_eq_true, Bool.not_eq_true',
      beq_iff_eq, Bool.not_eq_eq_eq_not, Bool.not_true]
    refine ⟨⟨⟨⟨?_, ?_⟩, ?_⟩, ?_⟩, ?_⟩
    · cases hs : c.senderDropped with
      | true => exact Or.inl rfl
      | false =>
        right
        obtain ⟨_, b, cc⟩ := h.sd0 hs
        refine ⟨b, ?_⟩
        cases hd : connectedAt y c.remote with
        | none => rfl
        | some d => simp [cc d ((connectedAt_some _ _ _).mp hd)]
    · cases hs : c.senderDropped with
      | false => exact Or.inl (Or.inl rfl)
      | true =>
        rcases h.sd1 hs hl with h' | ⟨d, hd, hf⟩
        · exact Or.inl (Or.inr h')
        · right; rw [(connectedAt_some _ _ _).mpr hd]; simp [hf]
    · cases hs : c.receiverDropped with
      | true => exact Or.inl rfl
      | false =>
        right
        obtain ⟨_, b, cc⟩ := h.rd0 hs
        refine ⟨b, ?_⟩
        cases hd : connectedAt y c.remote with
        | none => rfl
        | some d => simp [cc d ((connectedAt_some _ _ _).mp hd)]
    · cases hs : c.receiverDropped with
      | false => exact Or.inl (Or.inl rfl)
      | true =>
        rcases h.rd1 hs hl with h' | ⟨d, hd, hf⟩
        · exact Or.inl (Or.inr h')
        · right; rw [(connectedAt_some _ _ _).mpr hd]; simp [hf]
    · cases h1 : c.receiverClosed with
      | true => exact Or.inl (Or.inl rfl)
      | false =>
        cases h2 : c.receiverDropped with
        | true => exact Or.inl (Or.inr rfl)
        | false =>
          right
          obtain ⟨b, cc⟩ := h.rc0 h1 h2
          refine ⟨b, ?_⟩
          cases hd : connectedAt y c.remote with
          | none => rfl
          | some d => simp [cc d ((connectedAt_some _ _ _).mp hd)]

theorem portInvB_of (x y : Ep) (w : List Msg) (h : PortInv x y w) (hk : KeysNodup x) : portInvB x y w = true := by
  simp only [portInvB, Bool.and_eq_true, List.all_eq_true]
  refine ⟨⟨fun q _ => rxPortB_of x y w h q, h.order⟩, fun kv hkv => ?_⟩
  obtain ⟨k, v⟩ := kv
  cases v with
  | connecting => rfl
  | connected c => exact txPortB_of x y w k c (h.tx k c (lookup_of_mem x.ports hk k _ hkv))

/-- **the predicate evaluated on the real traces holds in every reachable state of the model** -/
theorem wireInvB_reachable (mpA cqA mpB cqB : Nat) (ls : List (Who × Lab)) :
    wireInvB (run (init mpA cqA mpB cqB) ls).a.ep (run (init mpA cqA mpB cqB) ls).b.ep
      (run (init mpA cqA mpB cqB) ls).toA (run (init mpA cqA mpB cqB) ls).toB = true := by
  have hi := inv3_run _ ls (inv3_init mpA cqA mpB cqB)
  obtain ⟨ka, kb⟩ := keysNodup_run mpA cqA mpB cqB ls
  simp only [wireInvB, Bool.and_eq_true]
  exact ⟨⟨⟨⟨⟨reqInvB_of _ _ _ _ hi.i2.r.ab ka, reqInvB_of _ _ _ _ hi.i2.r.ba kb⟩, portInvB_of _ _ _ hi.i2.pab ka⟩,
    portInvB_of _ _ _ hi.i2.pba kb⟩, flagInvB_of _ _ _ hi.fab⟩, flagInvB_of _ _ _ hi.fba⟩

end Remoc.Table.Sys
