import RemocModel.Table.ConnReq
set_option linter.unusedSimpArgs false
set_option linter.unusedVariables false
/-
The port layer of the global invariant, direction x → y (wire `w` written by `x`, read by `y`):
pairing of the two tables, one finish message per flag, nothing in flight for a port that is not
in the receiver's table (safe reuse), order of `PortOpened` / `ReceiveClose` / `ReceiveFinish`.
This file: the Prop form and lemmas about the wire functions.
-/
namespace Remoc.Table.Sys
open Remoc.Wire Remoc.Table

/-- a `PortOpened q _` is in the wire -/
def opened (w : List Msg) (q : Nat) : Bool :=
  w.any (fun m => match m with | .portOpened cp _ => cp == q | _ => false)

/-- `y[q]` is the live partner of `x`'s port `p` -/
def Live (y : Ep) (w : List Msg) (p q : Nat) : Prop :=
  (∃ d, lookup y.ports q = some (.connected d) ∧ d.remote = p) ∨
  (lookup y.ports q = some .connecting ∧ Msg.portOpened q p ∈ w)

/-- sender-side view of one connected port `p` of `x` -/
structure TxOk (y : Ep) (w : List Msg) (p : Nat) (c : Connected) : Prop where
  sd0 : c.senderDropped = false → Live y w p c.remote ∧ cntSF w c.remote = 0 ∧
          ∀ d, lookup y.ports c.remote = some (.connected d) → d.remoteSendFinished = false
  sd1 : c.senderDropped = true → Live y w p c.remote →
          cntSF w c.remote = 1 ∨ ∃ d, lookup y.ports c.remote = some (.connected d) ∧ d.remoteSendFinished = true
  rd0 : c.receiverDropped = false → Live y w p c.remote ∧ cntRF w c.remote = 0 ∧
          ∀ d, lookup y.ports c.remote = some (.connected d) → d.remoteRecvDropped = false
  rd1 : c.receiverDropped = true → Live y w p c.remote →
          cntRF w c.remote = 1 ∨ ∃ d, lookup y.ports c.remote = some (.connected d) ∧ d.remoteRecvDropped = true
  rc0 : c.receiverClosed = false → c.receiverDropped = false → cntRC w c.remote = 0 ∧
          ∀ d, lookup y.ports c.remote = some (.connected d) → d.remoteRecvClosed = false

structure PortInv (x y : Ep) (w : List Msg) : Prop where
  /-- **nothing in flight for a port that is not in the table** -/
  rx_none : ∀ q, lookup y.ports q = none → cntSF w q = 0 ∧ cntRC w q = 0 ∧ cntRF w q = 0
  rx_le : ∀ q, cntSF w q ≤ 1 ∧ cntRC w q ≤ 1 ∧ cntRF w q ≤ 1
  rx_conn : ∀ q d, lookup y.ports q = some (.connected d) →
      (d.remoteSendFinished = true → cntSF w q = 0) ∧ (d.remoteRecvClosed = true → cntRC w q = 0) ∧
      (d.remoteRecvDropped = true → cntRF w q = 0 ∧ cntRC w q = 0)
  order : okOrder (isConnected y) w = true
  tx : ∀ p c, lookup x.ports p = some (.connected c) → TxOk y w p c

/-! ### wire functions -/

theorem cntSF_append (a b : List Msg) (q : Nat) : cntSF (a ++ b) q = cntSF a q + cntSF b q := by
  simp [cntSF, List.count_append]
theorem cntRC_append (a b : List Msg) (q : Nat) : cntRC (a ++ b) q = cntRC a q + cntRC b q := by
  simp [cntRC, List.count_append]
theorem cntRF_append (a b : List Msg) (q : Nat) : cntRF (a ++ b) q = cntRF a q + cntRF b q := by
  simp [cntRF, List.count_append]

theorem opened_append (a b : List Msg) (q : Nat) : opened (a ++ b) q = (opened a q || opened b q) := by
  simp [opened, List.any_append]

theorem opened_iff (w : List Msg) (q : Nat) : opened w q = true ↔ ∃ sp, Msg.portOpened q sp ∈ w := by
  induction w with
  | nil => simp [opened]
  | cons m w ih =>
    simp only [opened, List.any_cons, Bool.or_eq_true] at ih ⊢
    rw [ih]
    constructor
    · rintro (h | ⟨sp, h⟩)
      · cases m <;> simp at h
        subst h; exact ⟨_, List.mem_cons_self⟩
      · exact ⟨sp, by simp [h]⟩
    · rintro ⟨sp, h⟩
      rcases List.mem_cons.mp h with h | h
      · subst h; left; simp
      · right; exact ⟨sp, h⟩

theorem okOrder_congr (w : List Msg) (k k' : Nat → Bool) (h : ∀ q, k q = k' q) : okOrder k w = okOrder k' w := by
  have : k = k' := funext h
  rw [this]

theorem okOrder_mono (w : List Msg) (k k' : Nat → Bool) (h : ∀ q, k q = true → k' q = true)
    (ho : okOrder k w = true) : okOrder k' w = true := by
  induction w generalizing k k' with
  | nil => rfl
  | cons m w ih =>
    cases m <;> simp only [okOrder, Bool.and_eq_true] at ho ⊢ <;>
      first
      | exact ih _ _ h ho
      | exact ⟨h _ ho.1, ih _ _ h ho.2⟩
      | exact ⟨⟨h _ ho.1.1, ho.1.2⟩, ih _ _ h ho.2⟩
      | (refine ih _ _ ?_ ho
         intro q hq; simp only [Bool.or_eq_true] at hq ⊢
         rcases hq with hq | hq
         · exact Or.inl hq
         · exact Or.inr (h q hq))

/-- what appending one message to the wire requires for the order predicate -/
def snocOk (k : Nat → Bool) (w : List Msg) : Msg → Bool
  | .sendFinish q => k q || opened w q
  | .receiveClose q => (k q || opened w q) && !w.contains (.receiveFinish q)
  | .receiveFinish q => k q || opened w q
  | _ => true

theorem snocOk_ext (k k' : Nat → Bool) (w w' : List Msg) (m : Msg)
    (h1 : ∀ q, (k q || opened w q) = (k' q || opened w' q))
    (h2 : ∀ q, w.contains (.receiveFinish q) = w'.contains (.receiveFinish q)) :
    snocOk k w m = snocOk k' w' m := by
  cases m <;> simp only [snocOk, h1, h2]

theorem okOrder_snoc (w : List Msg) (k : Nat → Bool) (m : Msg) :
    okOrder k (w ++ [m]) = (okOrder k w && snocOk k w m) := by
  induction w generalizing k with
  | nil => cases m <;> simp [okOrder, snocOk, opened]
  | cons h w ih =>
    cases h with
    | portOpened cp sp =>
      simp only [List.cons_append, okOrder, ih]
      congr 1
      apply snocOk_ext
      · intro q; simp only [opened, List.any_cons]
        by_cases hq : q = cp
        · subst hq; simp
        · have h1 : (cp == q) = false := by simp; exact fun h => hq h.symm
          have h2 : (q == cp) = false := by simp [hq]
          simp [h1, h2]
      · intro q; simp [List.contains_cons]
    | receiveFinish q0 =>
      simp only [List.cons_append, okOrder, ih]
      cases m with
      | receiveClose q1 =>
        by_cases hq : q0 = q1
        · subst hq; simp [snocOk, List.contains_cons]
        · have hq' : ¬ q1 = q0 := fun h => hq h.symm
          simp [snocOk, opened, List.any_cons, List.contains_cons, hq, hq', Bool.and_assoc, Bool.and_comm, Bool.and_left_comm]
      | _ => simp [snocOk, opened, List.any_cons, List.contains_cons, Bool.and_assoc, Bool.and_comm, Bool.and_left_comm]
    | _ =>
      simp only [List.cons_append, okOrder, ih, Bool.and_assoc]
      first
        | rfl
        | (congr 1; apply snocOk_ext
           · intro q; simp [opened, List.any_cons]
           · intro q; simp [List.contains_cons])
        | (congr 2; apply snocOk_ext
           · intro q; simp [opened, List.any_cons]
           · intro q; simp [List.contains_cons])

def noneFor (w : List Msg) (q : Nat) : Prop := cntSF w q = 0 ∧ cntRC w q = 0 ∧ cntRF w q = 0

theorem noneFor_tail (m : Msg) (w : List Msg) (q : Nat) (h : noneFor (m :: w) q) : noneFor w q := by
  obtain ⟨h1, h2, h3⟩ := h
  simp only [cntSF, cntRC, cntRF, List.count_cons] at h1 h2 h3
  exact ⟨by simp only [cntSF]; omega, by simp only [cntRC]; omega, by simp only [cntRF]; omega⟩

theorem noneFor_nil (q : Nat) : noneFor [] q := by simp [noneFor, cntSF, cntRC, cntRF]

/-- a port that is neither connected nor being opened by the wire has nothing in flight -/
theorem okOrder_none (w : List Msg) (k : Nat → Bool) (q : Nat) (ho : okOrder k w = true)
    (hk : k q = false) (hop : opened w q = false) : noneFor w q := by
  induction w generalizing k with
  | nil => exact noneFor_nil q
  | cons m w ih =>
    have hop' : opened w q = false := by
      simp only [opened, List.any_cons, Bool.or_eq_false_iff] at hop; exact hop.2
    cases m with
    | portOpened cp sp =>
      simp only [okOrder] at ho
      have hne : (q == cp) = false := by
        simp only [opened, List.any_cons, Bool.or_eq_false_iff] at hop
        have := hop.1; simp at this; simp; exact fun h => this h.symm
      have := ih _ ho (by simp [hne, hk]) hop'
      simpa [noneFor, cntSF, cntRC, cntRF, List.count_cons] using this
    | sendFinish q0 =>
      simp only [okOrder, Bool.and_eq_true] at ho
      have hne : q0 ≠ q := by intro h; subst h; rw [hk] at ho; simp at ho
      have := ih _ ho.2 hk hop'
      simp only [noneFor, cntSF, cntRC, cntRF, List.count_cons] at this ⊢
      simp [hne, this]
    | receiveClose q0 =>
      simp only [okOrder, Bool.and_eq_true] at ho
      have hne : q0 ≠ q := by intro h; subst h; rw [hk] at ho; simp at ho
      have := ih _ ho.2 hk hop'
      simp only [noneFor, cntSF, cntRC, cntRF, List.count_cons] at this ⊢
      simp [hne, this]
    | receiveFinish q0 =>
      simp only [okOrder, Bool.and_eq_true] at ho
      have hne : q0 ≠ q := by intro h; subst h; rw [hk] at ho; simp at ho
      have := ih _ ho.2 hk hop'
      simp only [noneFor, cntSF, cntRC, cntRF, List.count_cons] at this ⊢
      simp [hne, this]
    | _ =>
      simp only [okOrder] at ho
      have := ih _ ho hk hop'
      simpa [noneFor, cntSF, cntRC, cntRF, List.count_cons] using this

/-- `known` may shrink at ports that have nothing in flight -/
theorem okOrder_forget (w : List Msg) (k k' : Nat → Bool)
    (h : ∀ q, k q = true → k' q = true ∨ noneFor w q) (ho : okOrder k w = true) : okOrder k' w = true := by
  induction w generalizing k k' with
  | nil => rfl
  | cons m w ih =>
    have htail : ∀ q, k q = true → k' q = true ∨ noneFor w q := by
      intro q hq; rcases h q hq with h' | h'
      · exact Or.inl h'
      · exact Or.inr (noneFor_tail m w q h')
    cases m with
    | portOpened cp sp =>
      simp only [okOrder] at ho ⊢
      refine ih _ _ ?_ ho
      intro q hq; simp only [Bool.or_eq_true] at hq ⊢
      rcases hq with hq | hq
      · exact Or.inl (Or.inl hq)
      · rcases htail q hq with h' | h'
        · exact Or.inl (Or.inr h')
        · exact Or.inr h'
    | sendFinish q0 =>
      simp only [okOrder, Bool.and_eq_true] at ho ⊢
      refine ⟨?_, ih _ _ htail ho.2⟩
      rcases h q0 ho.1 with h' | h'
      · exact h'
      · have := h'.1; simp [cntSF, List.count_cons] at this
    | receiveClose q0 =>
      simp only [okOrder, Bool.and_eq_true] at ho ⊢
      refine ⟨?_, ih _ _ htail ho.2⟩
      rcases h q0 ho.1 with h' | h'
      · exact h'
      · have := h'.2.1; simp [cntRC, List.count_cons] at this
    | receiveFinish q0 =>
      simp only [okOrder, Bool.and_eq_true] at ho ⊢
      refine ⟨⟨?_, ho.1.2⟩, ih _ _ htail ho.2⟩
      rcases h q0 ho.1.1 with h' | h'
      · exact h'
      · have := h'.2.2; simp [cntRF, List.count_cons] at this
    | _ =>
      simp only [okOrder] at ho ⊢
      exact ih _ _ htail ho

theorem Live.congr {y y' : Ep} {w w' : List Msg} {p q : Nat}
    (hl : lookup y'.ports q = lookup y.ports q) (hpo : Msg.portOpened q p ∈ w' ↔ Msg.portOpened q p ∈ w) :
    Live y' w' p q ↔ Live y w p q := by
  simp only [Live, hl, hpo]

/-- a sender-side port view only looks at the partner entry and at what the wire holds for it -/
theorem TxOk.congr {y y' : Ep} {w w' : List Msg} {p : Nat} {c : Connected}
    (hl : lookup y'.ports c.remote = lookup y.ports c.remote)
    (hsf : cntSF w' c.remote = cntSF w c.remote) (hrc : cntRC w' c.remote = cntRC w c.remote)
    (hrf : cntRF w' c.remote = cntRF w c.remote)
    (hpo : Msg.portOpened c.remote p ∈ w' ↔ Msg.portOpened c.remote p ∈ w)
    (h : TxOk y w p c) : TxOk y' w' p c := by
  have hL := Live.congr (p := p) hl hpo
  exact ⟨by rw [hL, hsf, hl]; exact h.sd0, by rw [hL, hsf, hl]; exact h.sd1,
         by rw [hL, hrf, hl]; exact h.rd0, by rw [hL, hrf, hl]; exact h.rd1,
         by rw [hrc, hl]; exact h.rc0⟩

/-- the same with only the local flags and the remote port of the entry mattering -/
theorem TxOk.flags {y : Ep} {w : List Msg} {p : Nat} {c c' : Connected}
    (h1 : c'.remote = c.remote) (h2 : c'.senderDropped = c.senderDropped)
    (h3 : c'.receiverDropped = c.receiverDropped) (h4 : c'.receiverClosed = c.receiverClosed)
    (h : TxOk y w p c) : TxOk y w p c' :=
  ⟨by rw [h1, h2]; exact h.sd0, by rw [h1, h2]; exact h.sd1, by rw [h1, h3]; exact h.rd0,
   by rw [h1, h3]; exact h.rd1, by rw [h1, h3, h4]; exact h.rc0⟩

theorem opened_false_of_not_resp (w : List Msg) (q : Nat) (h : q ∉ respPorts w) : opened w q = false := by
  cases ho : opened w q with
  | false => rfl
  | true =>
    obtain ⟨sp, hm⟩ := (opened_iff w q).mp ho
    exfalso; apply h
    clear h ho
    induction w with
    | nil => simp at hm
    | cons m w ih =>
      rcases List.mem_cons.mp hm with hm | hm
      · subst hm; simp [respPorts]
      · rw [respPorts_cons]; exact List.mem_append.mpr (Or.inr (ih hm))

/-- two answers for the same client port cannot both be in the wire -/
theorem portOpened_unique (w : List Msg) (q p p' : Nat) (hnd : (respPorts w).Nodup)
    (h1 : Msg.portOpened q p ∈ w) (h2 : Msg.portOpened q p' ∈ w) : p = p' := by
  induction w with
  | nil => simp at h1
  | cons m w ih =>
    rw [respPorts_cons] at hnd
    have hnd' := (List.nodup_append.mp hnd).2.1
    have hdis := (List.nodup_append.mp hnd).2.2
    have hmem : ∀ p0, Msg.portOpened q p0 ∈ w → q ∈ respPorts w := by
      intro p0 h
      have := (opened_iff w q).mpr ⟨p0, h⟩
      by_cases hq : q ∈ respPorts w
      · exact hq
      · rw [opened_false_of_not_resp w q hq] at this; simp at this
    rcases List.mem_cons.mp h1 with a1 | a1 <;> rcases List.mem_cons.mp h2 with a2 | a2
    · rw [← a2] at a1; injection a1
    · subst a1; exact absurd rfl (hdis q (by simp [respPorts]) q (hmem _ a2))
    · subst a2; exact absurd rfl (hdis q (by simp [respPorts]) q (hmem _ a1))
    · exact ih hnd' a1 a2

/-- **no third port**: at most one port of `x` has `y[q]` as its live partner -/
theorem Live.unique {y : Ep} {w : List Msg} {p p' q : Nat} (hnd : (respPorts w).Nodup)
    (h1 : Live y w p q) (h2 : Live y w p' q) : p = p' := by
  rcases h1 with ⟨d, hd, rfl⟩ | ⟨hc, hp⟩ <;> rcases h2 with ⟨d', hd', rfl⟩ | ⟨hc', hp'⟩
  · rw [hd] at hd'; injection hd' with h; injection h with h; rw [h]
  · rw [hd] at hc'; simp at hc'
  · rw [hd'] at hc; simp at hc
  · exact portOpened_unique w q p p' hnd hp hp'

end Remoc.Table.Sys
