import RemocModel.Table.ConnTerm
set_option linter.unusedSimpArgs false
set_option linter.unusedVariables false
/-
Ghost log of connect requests and their resolutions, recorded along a run of the two-endpoint system
(the state is not changed: the log is computed from the steps), and the invariant that ties it to the
state: per side and port number, resolutions + (1 if a request for it is pending) = requests started.
-/
namespace Remoc.Table.Sys
open Remoc.Wire Remoc.Table

/-- how a connect request ended -/
inductive Res where
  /-- `PortOpened` delivered: connected to the peer's port `sp` -/
  | accepted (sp : Nat)
  /-- `Rejected` delivered -/
  | rejected (noPorts : Bool)
  /-- answered locally: the remote listener is known to be dropped (`handle_event`, `ConnectReq`) -/
  | refusedLocally
deriving Repr, DecidableEq

inductive LogEvt where
  | started (x : Who) (p : Nat)
  | resolved (x : Who) (p : Nat) (r : Res)
deriving Repr, DecidableEq

/-- what the step `(x, l)` taken in state `s` adds to the log (only called for enabled steps) -/
def logSide (x : Who) (sd : Side) (inW : List Msg) (l : Lab) : List LogEvt :=
  match l with
  | .startConnect p _ => [.started x p]
  | .dispConn =>
    match sd.connQ with
    | .connectReq p _ _ :: _ => if sd.ep.remoteListenerDropped then [.resolved x p .refusedLocally] else []
    | _ => []
  | .deliver =>
    match inW with
    | .portOpened cp sp :: _ => [.resolved x cp (.accepted sp)]
    | .rejected cp np :: _ => [.resolved x cp (.rejected np)]
    | _ => []
  | _ => []

def logOf (s : St) (x : Who) (l : Lab) : List LogEvt := logSide x (side s x) (wireTo s x) l

/-- run with the ghost log -/
def runL : St × List LogEvt → List (Who × Lab) → St × List LogEvt
  | sl, [] => sl
  | (s, lg), (x, l) :: ls =>
    match step s x l with
    | some s' => runL (s', lg ++ logOf s x l) ls
    | none => runL (s, lg) ls

theorem runL_fst (s : St) (lg : List LogEvt) (ls : List (Who × Lab)) : (runL (s, lg) ls).1 = run s ls := by
  induction ls generalizing s lg with
  | nil => rfl
  | cons xl ls ih =>
    obtain ⟨x, l⟩ := xl
    simp only [runL, run]
    cases hst : step s x l with
    | some s' => simp only []; exact ih _ _
    | none => simp only []; exact ih _ _

def nStarted (lg : List LogEvt) (x : Who) (p : Nat) : Nat := lg.countP (fun e => e == .started x p)
def nResolved (lg : List LogEvt) (x : Who) (p : Nat) : Nat :=
  lg.countP (fun e => match e with | .resolved y q _ => y == x && q == p | _ => false)

/-- a request of this side for port `p` is pending: queued, or sent and not answered -/
def pending (s : Side) (p : Nat) : Bool :=
  (connPorts s.connQ).contains p || isConnecting s.ep p

def pend (s : Side) (p : Nat) : Nat := if pending s p then 1 else 0

/-- the ghost-log invariant -/
def LogInv (s : St) (lg : List LogEvt) : Prop :=
  ∀ x p, nResolved lg x p + pend (side s x) p = nStarted lg x p

theorem nStarted_append (a b : List LogEvt) (x : Who) (p : Nat) : nStarted (a ++ b) x p = nStarted a x p + nStarted b x p := by
  simp [nStarted, List.countP_append]
theorem nResolved_append (a b : List LogEvt) (x : Who) (p : Nat) : nResolved (a ++ b) x p = nResolved a x p + nResolved b x p := by
  simp [nResolved, List.countP_append]

/-- the log entries of a step of `x` do not concern the other side -/
theorem logSide_other (x y : Who) (hxy : x ≠ y) (sd : Side) (inW : List Msg) (l : Lab) (p : Nat) :
    nStarted (logSide x sd inW l) y p = 0 ∧ nResolved (logSide x sd inW l) y p = 0 := by
  have hne : (x == y) = false := by cases x <;> cases y <;> simp at hxy ⊢
  cases l <;> simp [logSide, nStarted, nResolved]
  case startConnect q w => intro h; exact absurd h hxy
  case dispConn =>
    split
    · split <;> simp [List.countP_cons, hne]
    · simp
  case deliver =>
    split <;> simp [List.countP_cons, hne]

theorem pending_congr (s s' : Side) (p : Nat) (h1 : connPorts s'.connQ = connPorts s.connQ)
    (h2 : lookup s'.ep.ports p = some .connecting ↔ lookup s.ep.ports p = some .connecting) : pend s' p = pend s p := by
  have hb : isConnecting s'.ep p = isConnecting s.ep p := by
    simp only [isConnecting]
    cases ha : (lookup s'.ep.ports p == some PortSt.connecting) <;> cases hb : (lookup s.ep.ports p == some PortSt.connecting) <;>
      simp_all
  unfold pend pending
  rw [h1, hb]

theorem pend_of (s : Side) (p : Nat) (b : Bool) (h : pending s p = b) : pend s p = if b then 1 else 0 := by
  simp [pend, h]

theorem not_pending_of_free (s : Side) (ha : AllocInv s) (p : Nat) (h : p ∉ s.ep.allocated) : pending s p = false := by
  simp only [pending, Bool.or_eq_false_iff, isConnecting]
  constructor
  · cases hc : (connPorts s.connQ).contains p with
    | false => rfl
    | true =>
      exfalso; apply h
      exact (ha.core.mem p).mpr (Or.inr (by simp [heldNums]; left; simpa using hc))
  · cases hl : lookup s.ep.ports p with
    | none => simp
    | some st =>
      have := (ha.core.mem p).mpr (Or.inl (by simp [hl]))
      exact absurd this h

theorem pending_iff (t : Side) (p : Nat) :
    pending t p = true ↔ (p ∈ connPorts t.connQ ∨ lookup t.ep.ports p = some .connecting) := by
  simp [pending, isConnecting]

theorem pend_congr' (s s' : Side) (p : Nat)
    (h : (p ∈ connPorts s'.connQ ∨ lookup s'.ep.ports p = some .connecting) ↔
         (p ∈ connPorts s.connQ ∨ lookup s.ep.ports p = some .connecting)) : pend s' p = pend s p := by
  have : pending s' p = pending s p := by
    cases h1 : pending s' p <;> cases h2 : pending s p <;> try rfl
    · exact absurd (h.mpr ((pending_iff s p).mp h2)) (by rw [← pending_iff, h1]; simp)
    · exact absurd (h.mp ((pending_iff s' p).mp h1)) (by rw [← pending_iff, h2]; simp)
  simp [pend, this]

theorem pend_one (t : Side) (p : Nat) (h : p ∈ connPorts t.connQ ∨ lookup t.ep.ports p = some .connecting) : pend t p = 1 := by
  simp [pend, (pending_iff t p).mpr h]
theorem pend_zero (t : Side) (p : Nat) (h1 : p ∉ connPorts t.connQ) (h2 : lookup t.ep.ports p ≠ some .connecting) : pend t p = 0 := by
  have : pending t p = false := by
    cases h : pending t p with
    | false => rfl
    | true =>
      rcases (pending_iff t p).mp h with h' | h'
      · exact absurd h' h1
      · exact absurd h' h2
  simp [pend, this]

theorem log_counts_nil (x : Who) (p : Nat) : nResolved [] x p = 0 ∧ nStarted [] x p = 0 := by simp [nResolved, nStarted]
theorem log_counts_started (x : Who) (q p : Nat) :
    nResolved [LogEvt.started x q] x p = 0 ∧ nStarted [LogEvt.started x q] x p = if q = p then 1 else 0 := by
  have hxx : (x == x) = true := by cases x <;> rfl
  by_cases h : q = p <;> simp [nResolved, nStarted, List.countP_cons, h]
theorem log_counts_resolved (x : Who) (q p : Nat) (r : Res) :
    nResolved [LogEvt.resolved x q r] x p = (if q = p then 1 else 0) ∧ nStarted [LogEvt.resolved x q r] x p = 0 := by
  have hxx : (x == x) = true := by cases x <;> rfl
  by_cases h : q = p <;> simp [nResolved, nStarted, List.countP_cons, h, hxx]

/-- a step that neither starts nor resolves a request of this side and keeps `connect_rx` -/
theorem pend_step_plain (s s' : Side) (p : Nat) (h1 : connPorts s'.connQ = connPorts s.connQ)
    (h2 : lookup s'.ep.ports p = some .connecting ↔ lookup s.ep.ports p = some .connecting) : pend s' p = pend s p :=
  pend_congr' s s' p (by rw [h1, h2])

theorem mem_connPorts_head (q : Nat) (w : Bool) (i : Nat) (rest : List Evt) (p : Nat) :
    p ∈ connPorts (Evt.connectReq q w i :: rest) ↔ (p = q ∨ p ∈ connPorts rest) := by simp [connPorts]

/-- the bookkeeping of one step of side `x` for port `p` -/
theorem pend_step (x : Who) (s s' : Side) (inW inW' out : List Msg) (l : Lab)
    (hs : stepSide s inW l = some (s', inW', out)) (ha : AllocInv s) (hq : QType s)
    (hw : ∀ m ∈ inW, isCtl m = true) (p : Nat) :
    nResolved (logSide x s inW l) x p + pend s' p = pend s p + nStarted (logSide x s inW l) x p := by
  cases l <;> simp only [stepSide] at hs
  case startConnect q w =>
    split at hs
    · rename_i hg
      simp only [Option.some.injEq, Prod.mk.injEq] at hs; obtain ⟨rfl, _, _⟩ := hs
      simp only [Bool.and_eq_true, canAlloc, Bool.not_eq_true', decide_eq_true_eq] at hg
      have hnin : q ∉ s.ep.allocated := by
        intro hin; have : s.ep.allocated.contains q = true := by simpa using hin
        rw [hg.1.2.1] at this; simp at this
      have h0 : pending s q = false := not_pending_of_free s ha q hnin
      simp only [logSide]
      rw [(log_counts_started x q p).1, (log_counts_started x q p).2]
      by_cases hpq : q = p
      · subst hpq
        rw [pend_one _ q (Or.inl (by simp [connPorts_append, connPorts]))]
        simp [pend, h0]
      · have hpq' : ¬ p = q := fun h => hpq h.symm
        rw [pend_congr' s _ p (by simp [connPorts_append, connPorts, hpq'])]
        simp [hpq]
    · simp at hs
  case dispConn =>
    (repeat' split at hs) <;> first
      | (simp at hs; done)
      | (rename_i ev rest hq' _ e' m he
         simp only [Option.some.injEq, Prod.mk.injEq] at hs; obtain ⟨rfl, _, _⟩ := hs
         have hce := hq.conn ev (by rw [hq']; simp)
         cases ev with
         | connectReq q w i =>
           have hheld : heldNums s = q :: (connPorts rest ++ accPorts s.portQ) := by simp [heldNums, hq', connPorts]
           have hnd := ha.hnd; rw [hheld, List.nodup_cons] at hnd
           have hnr : q ∉ connPorts rest := fun hc => hnd.1 (List.mem_append.mpr (Or.inl hc))
           have hnone := ha.core.disj q (by rw [hheld]; simp)
           cases hrl : s.ep.remoteListenerDropped with
           | true =>
             simp only [handleEvt, hnone, Option.isSome_none, Bool.false_eq_true, if_false, hrl, if_true,
               Option.some.injEq, Prod.mk.injEq] at he
             obtain ⟨rfl, _⟩ := he
             simp only [logSide, hq', hrl, if_true]
             rw [(log_counts_resolved x q p _).1, (log_counts_resolved x q p _).2]
             by_cases hpq : q = p
             · subst hpq
               rw [pend_zero _ q hnr (by simp [hnone]), pend_one s q (Or.inl (by rw [hq']; simp [connPorts]))]
               simp
             · have hpq' : ¬ p = q := fun h => hpq h.symm
               rw [pend_congr' s _ p (by rw [hq', mem_connPorts_head]; simp [hpq'])]
               simp [hpq]
           | false =>
             simp only [handleEvt, hnone, Option.isSome_none, Bool.false_eq_true, if_false, hrl,
               Option.some.injEq, Prod.mk.injEq] at he
             obtain ⟨rfl, _⟩ := he
             simp only [logSide, hq', hrl, Bool.false_eq_true, if_false]
             rw [(log_counts_nil x p).1, (log_counts_nil x p).2]
             by_cases hpq : q = p
             · subst hpq
               rw [pend_one _ q (Or.inr (by simp [lookup_setPort])), pend_one s q (Or.inl (by rw [hq']; simp [connPorts]))]
             · have hpq' : ¬ p = q := fun h => hpq h.symm
               rw [pend_congr' s _ p (by rw [hq', mem_connPorts_head]; simp [hpq', lookup_setPort])]
               omega
         | allClientsDropped =>
           obtain ⟨h1, _, _⟩ := handleEvt_client _ _ _ _ he rfl
           simp only [logSide, hq']
           rw [(log_counts_nil x p).1, (log_counts_nil x p).2, pend_step_plain s _ p (by simp [hq', connPorts]) (h1 p)]
           omega
         | _ => simp [isConnEvt] at hce)
  case deliver =>
    (repeat' split at hs) <;> first
      | (simp at hs; done)
      | (rename_i m rest _ e' em he
         simp only [Option.some.injEq, Prod.mk.injEq] at hs; obtain ⟨rfl, _, _⟩ := hs
         have hctl := hw m (by simp)
         rcases isCtl_cases m hctl with ⟨cp, w, id, rfl⟩ | ⟨cp, hr, _⟩ | ⟨ho, hr, _⟩
         · obtain ⟨_, h1, _⟩ := handleRx_openPort _ _ _ _ _ _ he
           simp only [logSide]
           rw [(log_counts_nil x p).1, (log_counts_nil x p).2,
             pend_step_plain s _ p (by simp) (by simp only [rxHandles_ep, requeue_ports]; rw [h1]; rfl)]
           omega
         · obtain ⟨hcn, h1, _⟩ := handleRx_response _ _ _ _ _ hr he
           have hcn' : lookup s.ep.ports cp = some .connecting := hcn
           have hnc : cp ∉ connPorts s.connQ := by
             intro hin
             have := ha.core.disj cp (by simp [heldNums, hin])
             rw [hcn'] at this; simp at this
           have hL : nResolved (logSide x s (m :: rest) Lab.deliver) x p = (if cp = p then 1 else 0) ∧
               nStarted (logSide x s (m :: rest) Lab.deliver) x p = 0 := by
             cases m <;> simp [respPorts] at hr <;> subst hr <;> simp only [logSide] <;> exact log_counts_resolved x _ p _
           rw [hL.1, hL.2]
           by_cases hpq : cp = p
           · subst hpq
             rw [pend_zero _ cp (by simpa using hnc) (by simp only [rxHandles_ep, requeue_ports]; intro hc; rw [h1] at hc; exact hc.1 rfl),
               pend_one s cp (Or.inr hcn')]
             simp
           · have hpq' : ¬ p = cp := fun h => hpq h.symm
             rw [pend_step_plain s _ p (by simp) (by simp only [rxHandles_ep, requeue_ports]; rw [h1]; simp [hpq', Side.rxView])]
             simp [hpq]
         · obtain ⟨h1, _⟩ := handleRx_other _ _ _ _ ho he
           have hL : logSide x s (m :: rest) Lab.deliver = [] := by
             cases m <;> simp [isOther] at ho <;> rfl
           rw [hL, (log_counts_nil x p).1, (log_counts_nil x p).2,
             pend_step_plain s _ p (by simp) (by simp only [rxHandles_ep, requeue_ports]; rw [h1]; rfl)]
           omega)
  case dispPort =>
    (repeat' split at hs) <;> first
      | (simp at hs; done)
      | (rename_i ev rest hq' _ e' m he
         simp only [Option.some.injEq, Prod.mk.injEq] at hs; obtain ⟨rfl, _, _⟩ := hs
         obtain ⟨h1, _, _⟩ := handleEvt_client _ _ _ _ he (isPortEvt_noReq ev (hq.port ev (by rw [hq']; simp)))
         simp only [logSide]
         rw [(log_counts_nil x p).1, (log_counts_nil x p).2, pend_step_plain s _ p (by simp) (by simpa using h1 p)]
         omega)
  case dispListener =>
    (repeat' split at hs) <;> first
      | (simp at hs; done)
      | (rename_i _ e' m he
         simp only [Option.some.injEq, Prod.mk.injEq] at hs; obtain ⟨rfl, _, _⟩ := hs
         obtain ⟨h1, _, _⟩ := handleEvt_client _ _ _ _ he rfl
         simp only [logSide]
         rw [(log_counts_nil x p).1, (log_counts_nil x p).2, pend_step_plain s { s with ep := e' } p rfl (h1 p)]
         omega)
  case goodbye =>
    (repeat' split at hs) <;> first
      | (simp at hs; done)
      | (rename_i _ e' m he
         simp only [Option.some.injEq, Prod.mk.injEq] at hs; obtain ⟨rfl, _, _⟩ := hs
         obtain ⟨h1, _, _⟩ := handleEvt_client _ _ _ _ he rfl
         simp only [logSide]
         rw [(log_counts_nil x p).1, (log_counts_nil x p).2, pend_step_plain s { s with ep := e' } p rfl (h1 p)]
         omega)
  all_goals
    (repeat' split at hs) <;> first
      | (simp at hs; done)
      | (simp only [Option.some.injEq, Prod.mk.injEq] at hs; obtain ⟨rfl, _, _⟩ := hs
         simp only [logSide]
         rw [(log_counts_nil x p).1, (log_counts_nil x p).2, pend_step_plain s]
         all_goals first | omega | exact Iff.rfl | (simp [connPorts_append, connPorts]; done))

/-- a request refused locally is only ever logged while the remote listener is known to be dropped -/
def LogInv2 (s : St) (lg : List LogEvt) : Prop :=
  ∀ x p, LogEvt.resolved x p .refusedLocally ∈ lg → (side s x).ep.remoteListenerDropped = true

theorem stepSide_rld_mono (s s' : Side) (inW inW' out : List Msg) (l : Lab)
    (hs : stepSide s inW l = some (s', inW', out)) (hq : QType s) (hc : ClientInv s)
    (hw : ∀ m ∈ inW, isCtl m = true) (h : s.ep.remoteListenerDropped = true) : s'.ep.remoteListenerDropped = true := by
  rcases stepSide_flags s s' inW inW' out l hs hq hc with ⟨_, sf, _⟩ | ⟨ev, m, he, _⟩ | ⟨m, e', em, rfl, _, he, hep⟩
  · rw [sf.rld]; exact h
  · rcases handleEvt_flags _ _ _ _ he with ⟨sf, _, _⟩ | ⟨_, _, h', _⟩ | ⟨_, _, h', _⟩ | ⟨_, _, h', _⟩
    · rw [sf.rld]; exact h
    · rw [h']; exact h
    · rw [h']; exact h
    · rw [h']; exact h
  · obtain ⟨_, _, _, _, f5, _⟩ := handleRx_flags _ _ _ _ he (hw m (by simp))
    rw [hep]; show e'.remoteListenerDropped = true
    rw [f5]; simp [Side.rxView, h]

theorem logSide_refused (x : Who) (sd : Side) (inW : List Msg) (l : Lab) (y : Who) (p : Nat)
    (h : LogEvt.resolved y p .refusedLocally ∈ logSide x sd inW l) : y = x ∧ sd.ep.remoteListenerDropped = true := by
  cases l <;> simp only [logSide] at h <;> try (simp at h; done)
  case dispConn =>
    split at h
    · split at h
      · rename_i hr; simp at h; exact ⟨h.1, hr⟩
      · simp at h
    · simp at h
  case deliver =>
    split at h <;> simp at h

/-- the ghost-log invariants hold along every run -/
theorem logInv_runL (s : St) (lg : List LogEvt) (ls : List (Who × Lab)) (hi : Inv5 s)
    (h1 : LogInv s lg) (h2 : LogInv2 s lg) :
    Inv5 (runL (s, lg) ls).1 ∧ LogInv (runL (s, lg) ls).1 (runL (s, lg) ls).2 ∧
    LogInv2 (runL (s, lg) ls).1 (runL (s, lg) ls).2 := by
  induction ls generalizing s lg with
  | nil => exact ⟨hi, h1, h2⟩
  | cons xl ls ih =>
    obtain ⟨x, l⟩ := xl
    simp only [runL]
    cases hst : step s x l with
    | none => exact ih s lg hi h1 h2
    | some s' =>
      simp only []
      have hi' := inv5_step s s' x l hi hst
      have i3 := hi.i4.i3
      refine ih s' _ hi' ?_ ?_
      · -- LogInv
        intro y p
        rw [nResolved_append, nStarted_append]
        cases x with
        | A =>
          simp only [step, Option.map_eq_some_iff] at hst
          obtain ⟨⟨a', inW, out⟩, hs, rfl⟩ := hst
          cases y with
          | A =>
            have := pend_step .A s.a a' s.toA inW out l hs hi.i4.aa i3.i2.r.qa i3.i2.r.wa p
            have h0 := h1 .A p
            simp only [side, logOf, wireTo] at this h0 ⊢; omega
          | B =>
            obtain ⟨e1, e2⟩ := logSide_other .A .B (by simp) s.a s.toA l p
            have h0 := h1 .B p
            simp only [side, logOf, wireTo] at e1 e2 h0 ⊢; omega
        | B =>
          simp only [step, Option.map_eq_some_iff] at hst
          obtain ⟨⟨b', inW, out⟩, hs, rfl⟩ := hst
          cases y with
          | B =>
            have := pend_step .B s.b b' s.toB inW out l hs hi.i4.ab i3.i2.r.qb i3.i2.r.wb p
            have h0 := h1 .B p
            simp only [side, logOf, wireTo] at this h0 ⊢; omega
          | A =>
            obtain ⟨e1, e2⟩ := logSide_other .B .A (by simp) s.b s.toB l p
            have h0 := h1 .A p
            simp only [side, logOf, wireTo] at e1 e2 h0 ⊢; omega
      · -- LogInv2
        intro y p hin
        have hold : (side s y).ep.remoteListenerDropped = true := by
          rcases List.mem_append.mp hin with h' | h'
          · exact h2 y p h'
          · obtain ⟨rfl, hr⟩ := logSide_refused x (side s x) (wireTo s x) l y p h'
            exact hr
        cases x with
        | A =>
          simp only [step, Option.map_eq_some_iff] at hst
          obtain ⟨⟨a', inW, out⟩, hs, rfl⟩ := hst
          cases y with
          | A => exact stepSide_rld_mono s.a a' s.toA inW out l hs i3.i2.r.qa i3.ca i3.i2.r.wa hold
          | B => exact hold
        | B =>
          simp only [step, Option.map_eq_some_iff] at hst
          obtain ⟨⟨b', inW, out⟩, hs, rfl⟩ := hst
          cases y with
          | B => exact stepSide_rld_mono s.b b' s.toB inW out l hs i3.i2.r.qb i3.cb i3.i2.r.wb hold
          | A => exact hold

end Remoc.Table.Sys
