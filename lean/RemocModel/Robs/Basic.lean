/-
M_robs, shared part: the vocabulary of `remoc::robs` (observable collections) that is the same
for all five collection types, as coded in `robs/{vec,vec_deque,hash_map,hash_set,list,mod}.rs`.

* `Err`            = `robs::RecvError` (payloads of the remote errors abstracted away)
* `Event Ev`       = a `*Event<T>` enum: its change variants `Ev` plus the two variants every one
                     of the five enums has, `Done` and `InitialComplete`
* `Inner C`        = `Mirrored*Inner` (contents, `complete`, `done`, `error`, `max_size`)
* `Recv E`         = one result of `*Subscription::recv`: `Ok(Some e)`, `Err x`, `Ok(None)`
* `Sys`            = what differs between the collections: contents type, API operations,
                     change events, `apply` (which events a call emits), `applyEv` (what
                     `handle_event` does with a change event), the admissible element orders of an
                     incremental subscription
* `Sys.step/run`   = the observable collection with its `done` flag (`assert_not_done`, `done()`)
* `Sub`, `Sub.stream`  = a subscription and the sequence of `recv` results it yields
* `taskStep/taskRun`   = the task spawned by `*Subscription::mirror`
No Mathlib imports: the driver links as an executable.
-/

namespace Remoc.Robs

/-- `robs::RecvError`. -/
inductive Err where
  | closed
  | lagged
  | maxSizeExceeded (n : Nat)
  | remoteReceive
  | remoteConnect
  | remoteListen
  | invalidIndex (i : Nat)
deriving Repr, DecidableEq

/-- Subscription mode: `subscribe` (snapshot of the contents travels with the subscription) or
`subscribe_incremental` (contents streamed element-wise, then `InitialComplete`). -/
inductive Mode where
  | snapshot
  | incremental
deriving Repr, DecidableEq

/-- Who consumes the `recv` results, i.e. which rule ends the consumption loop.
`pinned`: the mirror task as coded (`if inner.done { break }` after every handled event);
`fixed`: the mirror task with the repair proposed for finding F13 (`if inner.done && inner.complete`);
`hand`: a caller folding `recv()` results by hand until `Ok(None)` (never stops early). -/
inductive Variant where
  | pinned
  | fixed
  | hand
deriving Repr, DecidableEq

/-- A `*Event<T>` enum: change variants plus `Done` and `InitialComplete`. -/
inductive Event (Ev : Type) where
  | change (e : Ev)
  | done
  | initialComplete
deriving Repr, DecidableEq

/-- One result of `*Subscription::recv`. -/
inductive Recv (E : Type) where
  | ev (e : E)        -- `Ok(Some(e))`
  | err (x : Err)     -- `Err(x)`
  | eof               -- `Ok(None)`
deriving Repr, DecidableEq

/-- `Mirrored*Inner`. -/
structure Inner (C : Type) where
  v : C
  complete : Bool
  done : Bool
  error : Option Err
  maxSize : Nat
deriving Repr, DecidableEq

/-- The observable collection itself: contents and the `done` flag. -/
structure Obs (C : Type) where
  v : C
  done : Bool
deriving Repr, DecidableEq

/-- A call of the mutating API: one of the collection's own operations, or `done()`. -/
inductive Call (Op : Type) where
  | op (o : Op)
  | done
deriving Repr, DecidableEq

/-- What differs between the five collections. -/
structure Sys where
  /-- contents -/
  C : Type
  /-- mutating API calls (without `done`) -/
  Op : Type
  /-- change variants of the event enum -/
  Ev : Type
  empty : C
  size : C → Nat
  /-- representation invariant of the contents (sorted association list for the hash containers) -/
  wf : C → Prop
  /-- one API call on a collection that is not done: new contents and the events sent, in order -/
  apply : C → Op → C × List Ev
  /-- the call panics (index out of bounds); `apply` then changes and emits nothing -/
  panics : C → Op → Bool
  /-- `handle_event` on a change event with `max_size = M`: contents afterwards and the error, if any
  (the contents are returned in the error case too: `Push` pushes before it checks the size) -/
  applyEv : Nat → C → Ev → C × Option Err
  /-- the element events an incremental subscription to contents `c` may deliver (vector: the elements in
  order; hash containers: in any order) -/
  incr : C → List Ev → Prop
  /-- the mirror starts with `done: self.is_done()` (the four broadcast based collections) or with
  `done: false` (list) -/
  inheritDone : Bool
  /-- calls for which the emitted events reproduce the effect (everything except finding F4) -/
  good : Op → Prop
  /-- the call does not reach any mutating method (`extend` with an empty iterator), so it does not even
  panic after `done()` -/
  idle : Op → Bool

variable {S : Sys}

/-- Apply events in order with a `handle_event` function `f`, stopping at the first error. -/
def feedWith {C Ev : Type} (f : C → Ev → C × Option Err) : C → List Ev → C × Option Err
  | c, [] => (c, none)
  | c, e :: es =>
    match f c e with
    | (c', none) => feedWith f c' es
    | (c', some x) => (c', some x)

/-- Apply change events in order with `handle_event` (`max_size = M`), stopping at the first error. -/
def Sys.feed (S : Sys) (M : Nat) : S.C → List S.Ev → S.C × Option Err := feedWith (S.applyEv M)

theorem feedWith_nil {C Ev : Type} (f : C → Ev → C × Option Err) (c : C) : feedWith f c [] = (c, none) := rfl

theorem feedWith_cons_ok {C Ev : Type} (f : C → Ev → C × Option Err) (c c' : C) (e : Ev) (es : List Ev)
    (h : f c e = (c', none)) : feedWith f c (e :: es) = feedWith f c' es := by
  simp [feedWith, h]

theorem feedWith_append {C Ev : Type} (f : C → Ev → C × Option Err) (a b : List Ev) (c c' : C)
    (h : feedWith f c a = (c', none)) : feedWith f c (a ++ b) = feedWith f c' b := by
  induction a generalizing c with
  | nil => simp [feedWith] at h; subst h; rfl
  | cons e es ih =>
    rw [List.cons_append]
    cases hfe : f c e with
    | mk c1 r =>
      cases r with
      | none =>
        rw [feedWith_cons_ok f c c1 e _ hfe]
        rw [feedWith_cons_ok f c c1 e _ hfe] at h
        exact ih _ h
      | some x => simp [feedWith, hfe] at h

/-- One API call on the observable.  After `done()` every mutating call panics
(`assert_not_done`) and `done()` itself does nothing. -/
def Sys.step (S : Sys) (o : Obs S.C) : Call S.Op → Obs S.C × List (Event S.Ev)
  | .op c =>
    if o.done then (o, [])
    else ({ o with v := (S.apply o.v c).1 }, (S.apply o.v c).2.map .change)
  | .done =>
    if o.done then (o, []) else ({ o with done := true }, [.done])

/-- A sequence of calls: final state and all events sent, in order. -/
def Sys.run (S : Sys) : Obs S.C → List (Call S.Op) → Obs S.C × List (Event S.Ev)
  | o, [] => (o, [])
  | o, c :: cs => ((S.run (S.step o c).1 cs).1, (S.step o c).2 ++ (S.run (S.step o c).1 cs).2)

/-- Does the call panic (done, or out of bounds)? -/
def Sys.stepPanics (S : Sys) (o : Obs S.C) : Call S.Op → Bool
  | .op c => (o.done && !S.idle c) || S.panics o.v c
  | .done => false

/-- Every state reached while executing `cs` from `o` has at most `M` elements. -/
def Sys.Bounded (S : Sys) (M : Nat) : Obs S.C → List (Call S.Op) → Prop
  | o, [] => S.size o.v ≤ M
  | o, c :: cs => S.size o.v ≤ M ∧ S.Bounded M (S.step o c).1 cs

/-- All own operations among the calls are `good`. -/
def Sys.AllGood (S : Sys) (cs : List (Call S.Op)) : Prop :=
  ∀ o, Call.op o ∈ cs → S.good o

/-- `handle_event`. -/
def Sys.handle (S : Sys) (m : Inner S.C) : Event S.Ev → Inner S.C × Option Err
  | .initialComplete => ({ m with complete := true }, none)
  | .done => ({ m with done := true }, none)
  | .change e => ({ m with v := (S.applyEv m.maxSize m.v e).1 }, (S.applyEv m.maxSize m.v e).2)

/-- `mirrorStep`: `handle_event` as a partial function. -/
def Sys.mirrorStep (S : Sys) (m : Inner S.C) (e : Event S.Ev) : Except Err (Inner S.C) :=
  match S.handle m e with
  | (m', none) => .ok m'
  | (_, some x) => .error x

/-- A subscription as obtained from `subscribe`/`subscribe_incremental` on a collection with contents
`snap` and done flag `doneAtSub` (`events = None`). -/
structure Sub (S : Sys) where
  mode : Mode
  snap : S.C
  /-- element stream of the incremental mode -/
  initEvents : List S.Ev
  doneAtSub : Bool

/-- `take_initial()`. -/
def Sub.initial (s : Sub S) : S.C :=
  match s.mode with
  | .snapshot => s.snap
  | .incremental => S.empty

/-- The `recv` results of a subscription while `later` is what the collection sends after the
subscription was taken: incremental mode first yields the elements and `InitialComplete`; then the
events; `Done` is passed on once (or made up when the collection was already done on subscribing). -/
def Sub.stream (s : Sub S) (later : List (Event S.Ev)) : List (Recv (Event S.Ev)) :=
  (match s.mode with
   | .snapshot => []
   | .incremental => s.initEvents.map (fun e => .ev (.change e)) ++ [.ev .initialComplete])
  ++ (if s.doneAtSub then [.ev .done] else later.map .ev)

/-- The state of the task spawned by `mirror` (or of a caller's own loop): the shared `Inner` and
whether the loop is still running. -/
structure Task (C : Type) where
  m : Inner C
  running : Bool
deriving Repr, DecidableEq

/-- Initial state built by `mirror(max_size)`. -/
def Sub.mirrorInit (s : Sub S) (M : Nat) : Task S.C :=
  { m := { v := s.initial
           complete := match s.mode with | .snapshot => true | .incremental => false
           done := S.inheritDone && s.doneAtSub
           error := none
           maxSize := M }
    running := true }

/-- Loop exit test after a handled event. -/
def breakNow {C : Type} (var : Variant) (m : Inner C) : Bool :=
  match var with
  | .pinned => m.done
  | .fixed => m.done && m.complete
  | .hand => false

/-- One iteration of the loop in `mirror`: an error is stored and ends the task, `Ok(None)` ends it,
an event is handled (a failing `handle_event` stores its error and ends the task). -/
def Sys.taskStep (S : Sys) (var : Variant) (t : Task S.C) (r : Recv (Event S.Ev)) : Task S.C :=
  if t.running then
    match r with
    | .ev e =>
      match S.handle t.m e with
      | (m', none) => { m := m', running := !breakNow var m' }
      | (m', some x) => { m := { m' with error := some x }, running := false }
    | .err x => { m := { t.m with error := some x }, running := false }
    | .eof => { t with running := false }
  else t

def Sys.taskRun (S : Sys) (var : Variant) (t : Task S.C) (rs : List (Recv (Event S.Ev))) : Task S.C :=
  rs.foldl (S.taskStep var) t

/-- The laws a collection has to satisfy for the generic mirror theorem. -/
structure Sys.Lawful (S : Sys) : Prop where
  apply_wf : ∀ c op, S.wf c → S.wf (S.apply c op).1
  /-- the events of a good call, applied with `handle_event`, reproduce the call's effect -/
  apply_ok : ∀ M c op, S.good op → S.wf c → S.size c ≤ M → S.size (S.apply c op).1 ≤ M →
    S.feed M c (S.apply c op).2 = ((S.apply c op).1, none)
  /-- the element stream of an incremental subscription rebuilds the contents from empty -/
  incr_ok : ∀ M c es, S.wf c → S.incr c es → S.size c ≤ M → S.feed M S.empty es = (c, none)

end Remoc.Robs
