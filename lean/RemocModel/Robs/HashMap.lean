import RemocModel.Robs.Generic
import RemocModel.Robs.Assoc
set_option linter.unusedSimpArgs false

/-!
M_robs / hash map: `robs/hash_map.rs` (`ObservableHashMap`, `Entry`/`OccupiedEntry`/`VacantEntry`,
`RefMut`, `IterMut`, `HashMapEvent`, `MirroredHashMapInner::handle_event`).
Keys and values are `Nat`; contents are canonical association lists (`Assoc.lean`).
-/

namespace Remoc.Robs.HashMap

abbrev Map := List (Nat × Nat)

/-- The mutating API of `ObservableHashMap` (without `done`).
* `retain visits`: `retain(f)`; `visits` lists, in the order in which `f` is called, the key visited, the
  value `f` writes through its `&mut V` (`none`: it does not write) and `f`'s answer (`true` = keep).
* `entryInsert k v`: `entry(k)` then `OccupiedEntry::insert(v)` resp. `VacantEntry::insert(v)` (the
  returned `RefMut` is dropped untouched).
* `entryRemove k`: `entry(k)` then `OccupiedEntry::remove()`/`remove_entry()`; a vacant entry is dropped.
* `entryOrInsert k d w`: `entry(k).or_insert(d)` (also `or_insert_with`, `or_insert_with_key`,
  `or_default`, which all end in `VacantEntry::insert`); `w = some x`: `x` is written through the
  returned `RefMut`.
* `entryAndModify k v orIns`: `entry(k).and_modify(|x| *x = v)`, followed by `.or_insert(d)` if
  `orIns = some d`.
* `entryGetMut k w`: `entry(k)`, and if occupied `get_mut()`/`into_mut()`, writing `x` if `w = some x`.
* `getMut k w`: `get_mut(&k)`; `iterMut ws`: `iter_mut()` with the `(key, final value)` of the `RefMut`s
  that were dereferenced mutably, in drop order; `extend kvs`: `Extend::extend`. -/
inductive Op where
  | insert (k v : Nat)
  | remove (k : Nat)
  | clear
  | retain (visits : List (Nat × Option Nat × Bool))
  | entryInsert (k v : Nat)
  | entryRemove (k : Nat)
  | entryOrInsert (k d : Nat) (w : Option Nat)
  | entryAndModify (k v : Nat) (orIns : Option Nat)
  | entryGetMut (k : Nat) (w : Option Nat)
  | getMut (k : Nat) (w : Option Nat)
  | iterMut (ws : List (Nat × Nat))
  | shrinkToFit
  | extend (kvs : List (Nat × Nat))
deriving Repr, DecidableEq

/-- Change variants of `HashMapEvent`. -/
inductive Ev where
  | set (k v : Nat)
  | remove (k : Nat)
  | clear
  | shrinkToFit
deriving Repr, DecidableEq

/-- One invocation of the `retain` predicate.  A kept entry whose value the predicate overwrote is
changed **without any event** (finding F4); a removed entry produces `Remove`. -/
def retainStep (acc : Map × List Ev) (vis : Nat × Option Nat × Bool) : Map × List Ev :=
  if ahas vis.1 acc.1 then
    if vis.2.2 then
      match vis.2.1 with
      | some x => (ains vis.1 x acc.1, acc.2)
      | none => acc
    else (adel vis.1 acc.1, acc.2 ++ [Ev.remove vis.1])
  else acc

/-- A `RefMut` that was dereferenced mutably is dropped. -/
def setStep (acc : Map × List Ev) (w : Nat × Nat) : Map × List Ev :=
  if ahas w.1 acc.1 then (ains w.1 w.2 acc.1, acc.2 ++ [Ev.set w.1 w.2]) else acc

def insStep (acc : Map × List Ev) (kv : Nat × Nat) : Map × List Ev :=
  (ains kv.1 kv.2 acc.1, acc.2 ++ [Ev.set kv.1 kv.2])

/-- `get_mut`-like access to key `k`. -/
def refMut (m : Map) (k : Nat) (w : Option Nat) : Map × List Ev :=
  match w with
  | none => (m, [])
  | some x => if ahas k m then (ains k x m, [.set k x]) else (m, [])

/-- One call on a map that is not done: new contents and the events sent. -/
def apply (m : Map) : Op → Map × List Ev
  | .insert k v => (ains k v m, [.set k v])
  | .remove k => if ahas k m then (adel k m, [.remove k]) else (m, [])
  | .clear => if m = [] then (m, []) else ([], [.clear])
  | .retain visits => visits.foldl retainStep (m, [])
  | .entryInsert k v => (ains k v m, [.set k v])
  | .entryRemove k => if ahas k m then (adel k m, [.remove k]) else (m, [])
  | .entryOrInsert k d w =>
    if ahas k m then refMut m k w
    else
      match w with
      | none => (ains k d m, [.set k d])
      | some x => (ains k x (ains k d m), [.set k d, .set k x])
  | .entryAndModify k v orIns =>
    if ahas k m then (ains k v m, [.set k v])
    else
      match orIns with
      | none => (m, [])
      | some d => (ains k d m, [.set k d])
  | .entryGetMut k w => refMut m k w
  | .getMut k w => refMut m k w
  | .iterMut ws => ws.foldl setStep (m, [])
  | .shrinkToFit => (m, [.shrinkToFit])
  | .extend kvs => kvs.foldl insStep (m, [])

/-- No call of the hash map API panics on its arguments. -/
def panics (_ : Map) (_ : Op) : Bool := false

/-- `MirroredHashMapInner::handle_event` on a change event. -/
def applyEv (M : Nat) (m : Map) : Ev → Map × Option Err
  | .set k v => (ains k v m, if M < (ains k v m).length then some (.maxSizeExceeded M) else none)
  | .remove k => (adel k m, none)
  | .clear => ([], none)
  | .shrinkToFit => (m, none)

/-- Calls whose events reproduce their effect: everything except a `retain` whose predicate
overwrites the value of an entry it keeps. -/
def good : Op → Prop
  | .retain visits => ∀ vis ∈ visits, vis.2.2 = true → vis.2.1 = none
  | _ => True

instance : DecidablePred good := fun op => by
  cases op <;> simp only [good] <;> infer_instance

@[reducible] def sys : Sys where
  C := Map
  Op := Op
  Ev := Ev
  empty := []
  size := List.length
  wf := ASorted
  apply := apply
  panics := panics
  applyEv := applyEv
  incr := fun c es => ∃ p : List (Nat × Nat), p.Perm c ∧ es = p.map (fun kv => Ev.set kv.1 kv.2)
  inheritDone := true
  good := good
  idle := fun | .extend [] => true | _ => false

/-! ### representation invariant -/

theorem refMut_sorted (m : Map) (k : Nat) (w : Option Nat) (h : ASorted m) : ASorted (refMut m k w).1 := by
  unfold refMut
  cases w with
  | none => exact h
  | some x => simp only []; split; exact ains_sorted _ _ _ h; exact h

theorem foldl_sorted {α : Type} (step : Map × List Ev → α → Map × List Ev)
    (hstep : ∀ acc x, ASorted acc.1 → ASorted (step acc x).1) (xs : List α) :
    ∀ acc, ASorted acc.1 → ASorted (xs.foldl step acc).1 := by
  induction xs with
  | nil => intro acc h; exact h
  | cons x xs ih => intro acc h; exact ih _ (hstep acc x h)

theorem apply_wf' (m : Map) (op : Op) (h : ASorted m) : ASorted (apply m op).1 := by
  cases op with
  | insert k v => exact ains_sorted _ _ _ h
  | remove k => simp only [apply]; split; exact adel_sorted _ _ h; exact h
  | clear => simp only [apply]; split; exact h; exact List.Pairwise.nil
  | retain visits =>
    apply foldl_sorted retainStep _ visits (m, []) h
    intro acc vis ha
    unfold retainStep
    split
    · split
      · split
        · exact ains_sorted _ _ _ ha
        · exact ha
      · exact adel_sorted _ _ ha
    · exact ha
  | entryInsert k v => exact ains_sorted _ _ _ h
  | entryRemove k => simp only [apply]; split; exact adel_sorted _ _ h; exact h
  | entryOrInsert k d w =>
    simp only [apply]; split
    · exact refMut_sorted _ _ _ h
    · cases w with
      | none => exact ains_sorted _ _ _ h
      | some x => exact ains_sorted _ _ _ (ains_sorted _ _ _ h)
  | entryAndModify k v orIns =>
    simp only [apply]; split
    · exact ains_sorted _ _ _ h
    · cases orIns with
      | none => exact h
      | some d => exact ains_sorted _ _ _ h
  | entryGetMut k w => exact refMut_sorted _ _ _ h
  | getMut k w => exact refMut_sorted _ _ _ h
  | iterMut ws =>
    apply foldl_sorted setStep _ ws (m, []) h
    intro acc w ha
    unfold setStep; split
    · exact ains_sorted _ _ _ ha
    · exact ha
  | shrinkToFit => exact h
  | extend kvs =>
    apply foldl_sorted insStep _ kvs (m, []) h
    intro acc kv ha
    exact ains_sorted _ _ _ ha

/-! ### laws -/

/-- Overwriting the value of a present key does not change the size. -/
theorem ains_length_has (k v : Nat) (m : Map) (h : ahas k m = true) (hs : ASorted m) :
    (ains k v m).length = m.length := by
  induction m with
  | nil => simp [ahas] at h
  | cons a t ih =>
    obtain ⟨k', v'⟩ := a
    have ht : ASorted t := (List.pairwise_cons.1 hs).2
    have ha : ∀ b ∈ t, k' < b.1 := (List.pairwise_cons.1 hs).1
    simp only [ains]
    split
    · rename_i hlt
      -- k < k' and k occurs in the list: impossible
      exfalso
      simp [ahas] at h
      rcases h with h | ⟨b, hb⟩
      · omega
      · have := ha (k, b) hb; simp at this; omega
    · split
      · simp
      · rename_i hnlt hne
        have : ahas k t = true := by
          simp [ahas] at h ⊢
          rcases h with h | h
          · omega
          · exact h
        simp [ih this ht]

theorem ains_length_ge (k v : Nat) (m : Map) : m.length ≤ (ains k v m).length := by
  induction m with
  | nil => simp [ains]
  | cons a t ih =>
    obtain ⟨k', v'⟩ := a
    simp only [ains]
    split
    · simp
    · split
      · simp
      · simp; omega

theorem feed_set (M : Nat) (m : Map) (k v : Nat) (h : (ains k v m).length ≤ M) :
    applyEv M m (Ev.set k v) = (ains k v m, none) := by
  have : ¬ M < (ains k v m).length := by omega
  simp [applyEv, this]

theorem foldl_insStep_length_ge (kvs : List (Nat × Nat)) : ∀ acc : Map × List Ev,
    acc.1.length ≤ (kvs.foldl insStep acc).1.length := by
  induction kvs with
  | nil => intro acc; exact Nat.le_refl _
  | cons kv kvs ih =>
    intro acc
    rw [List.foldl_cons]
    exact Nat.le_trans (ains_length_ge _ _ _) (ih (insStep acc kv))

theorem feed_extend (M : Nat) (kvs : List (Nat × Nat)) : ∀ (m : Map) (pre : List Ev) (m0 : Map),
    feedWith (applyEv M) m0 pre = (m, none) → (kvs.foldl insStep (m, pre)).1.length ≤ M →
    feedWith (applyEv M) m0 (kvs.foldl insStep (m, pre)).2 = ((kvs.foldl insStep (m, pre)).1, none) := by
  induction kvs with
  | nil => intro m pre m0 h _; simpa using h
  | cons kv kvs ih =>
    intro m pre m0 h hlen
    rw [List.foldl_cons] at hlen ⊢
    apply ih _ _ _ _ hlen
    simp only [insStep]
    rw [feedWith_append (applyEv M) pre _ m0 m h, feedWith_cons_ok (applyEv M) m (ains kv.1 kv.2 m)]
    · rfl
    · apply feed_set
      have := foldl_insStep_length_ge kvs (insStep (m, pre) kv)
      simp only [insStep] at this
      exact Nat.le_trans this hlen

theorem feed_iterMut (M : Nat) (ws : List (Nat × Nat)) : ∀ (m : Map) (pre : List Ev) (m0 : Map),
    feedWith (applyEv M) m0 pre = (m, none) → ASorted m → m.length ≤ M →
    feedWith (applyEv M) m0 (ws.foldl setStep (m, pre)).2 = ((ws.foldl setStep (m, pre)).1, none) := by
  induction ws with
  | nil => intro m pre m0 h _ _; simpa using h
  | cons w ws ih =>
    intro m pre m0 h hs hlen
    rw [List.foldl_cons]
    unfold setStep
    split
    · rename_i hhas
      have hl : (ains w.1 w.2 m).length = m.length := ains_length_has _ _ _ hhas hs
      apply ih _ _ _ _ (ains_sorted _ _ _ hs) (by omega)
      rw [feedWith_append (applyEv M) pre _ m0 m h, feedWith_cons_ok (applyEv M) m (ains w.1 w.2 m)]
      · rfl
      · exact feed_set M m _ _ (by omega)
    · exact ih m pre m0 h hs hlen

theorem feed_retain (M : Nat) (visits : List (Nat × Option Nat × Bool))
    (hg : ∀ vis ∈ visits, vis.2.2 = true → vis.2.1 = none) :
    ∀ (m : Map) (pre : List Ev) (m0 : Map), feedWith (applyEv M) m0 pre = (m, none) →
    feedWith (applyEv M) m0 (visits.foldl retainStep (m, pre)).2 = ((visits.foldl retainStep (m, pre)).1, none) := by
  induction visits with
  | nil => intro m pre m0 h; simpa using h
  | cons vis visits ih =>
    intro m pre m0 h
    have ih := ih (fun v hv => hg v (by simp [hv]))
    have hvis := hg vis (by simp)
    rw [List.foldl_cons]
    unfold retainStep
    split
    · split
      · rename_i hk
        rw [hvis hk]
        exact ih m pre m0 h
      · apply ih
        rw [feedWith_append (applyEv M) pre _ m0 m h, feedWith_cons_ok (applyEv M) m (adel vis.1 m)]
        · rfl
        · simp [applyEv]
    · exact ih m pre m0 h

theorem refMut_ok (M : Nat) (m : Map) (k : Nat) (w : Option Nat) (hs : ASorted m) (hlen : m.length ≤ M) :
    feedWith (applyEv M) m (refMut m k w).2 = ((refMut m k w).1, none) := by
  unfold refMut
  cases w with
  | none => rfl
  | some x =>
    simp only []
    split
    · rename_i hhas
      have hl := ains_length_has k x m hhas hs
      rw [feedWith_cons_ok (applyEv M) m (ains k x m) _ _ (feed_set M m k x (by omega))]; rfl
    · rfl

theorem ahas_ains_self (k v : Nat) (m : Map) : ahas k (ains k v m) = true := by
  induction m with
  | nil => simp [ains, ahas]
  | cons a t ih =>
    obtain ⟨k', v'⟩ := a
    simp only [ains]
    split
    · simp [ahas]
    · split
      · simp [ahas]
      · simp [ahas] at ih ⊢; exact Or.inr ih

theorem apply_ok' (M : Nat) (m : Map) (op : Op) (hg : good op) (hs : ASorted m) (hlen : m.length ≤ M)
    (hlen' : (apply m op).1.length ≤ M) :
    feedWith (applyEv M) m (apply m op).2 = ((apply m op).1, none) := by
  cases op with
  | insert k v =>
    simp only [apply] at hlen' ⊢
    rw [feedWith_cons_ok (applyEv M) m (ains k v m) _ _ (feed_set M m k v hlen')]; rfl
  | remove k =>
    simp only [apply]; split <;> simp [feedWith, applyEv]
  | clear =>
    simp only [apply]; split <;> simp [feedWith, applyEv]
  | retain visits =>
    exact feed_retain M visits hg m [] m rfl
  | entryInsert k v =>
    simp only [apply] at hlen' ⊢
    rw [feedWith_cons_ok (applyEv M) m (ains k v m) _ _ (feed_set M m k v hlen')]; rfl
  | entryRemove k =>
    simp only [apply]; split <;> simp [feedWith, applyEv]
  | entryOrInsert k d w =>
    simp only [apply] at hlen' ⊢
    split
    · exact refMut_ok M m k w hs hlen
    · cases w with
      | none =>
        rename_i hno
        simp [hno] at hlen'
        rw [feedWith_cons_ok (applyEv M) m (ains k d m) _ _ (feed_set M m k d hlen')]; rfl
      | some x =>
        rename_i hno
        simp [hno] at hlen'
        have h1 : (ains k x (ains k d m)).length = (ains k d m).length :=
          ains_length_has k x _ (ahas_ains_self k d m) (ains_sorted _ _ _ hs)
        rw [feedWith_cons_ok (applyEv M) m (ains k d m) _ _ (feed_set M m k d (by omega)),
            feedWith_cons_ok (applyEv M) (ains k d m) (ains k x (ains k d m)) _ _ (feed_set M _ k x hlen')]
        rfl
  | entryAndModify k v orIns =>
    simp only [apply] at hlen' ⊢
    split
    · rename_i hhas
      simp [hhas] at hlen'
      rw [feedWith_cons_ok (applyEv M) m (ains k v m) _ _ (feed_set M m k v hlen')]; rfl
    · rename_i hno
      cases orIns with
      | none => rfl
      | some d =>
        simp [hno] at hlen'
        rw [feedWith_cons_ok (applyEv M) m (ains k d m) _ _ (feed_set M m k d hlen')]; rfl
  | entryGetMut k w => exact refMut_ok M m k w hs hlen
  | getMut k w => exact refMut_ok M m k w hs hlen
  | iterMut ws => exact feed_iterMut M ws m [] m rfl hs hlen
  | shrinkToFit => simp [apply, feedWith, applyEv]
  | extend kvs => exact feed_extend M kvs m [] m rfl hlen'

theorem feed_incr (M : Nat) (p : List (Nat × Nat)) : ∀ (acc : Map), acc.length + p.length ≤ M →
    feedWith (applyEv M) acc (p.map (fun kv => Ev.set kv.1 kv.2))
      = (p.foldl (fun acc e => ains e.1 e.2 acc) acc, none) := by
  induction p with
  | nil => intro acc _; rfl
  | cons e p ih =>
    intro acc h
    have h1 := ains_length_le e.1 e.2 acc
    simp at h
    rw [List.map_cons, feedWith_cons_ok (applyEv M) acc (ains e.1 e.2 acc) _ _ (feed_set M acc _ _ (by omega))]
    rw [List.foldl_cons]
    exact ih _ (by omega)

theorem incr_ok' (M : Nat) (c : Map) (p : List (Nat × Nat)) (hs : ASorted c) (hp : p.Perm c) (hlen : c.length ≤ M) :
    feedWith (applyEv M) [] (p.map (fun kv => Ev.set kv.1 kv.2)) = (c, none) := by
  rw [feed_incr M p [] (by simp [hp.length_eq]; exact hlen), foldl_ains_perm c p hs hp]

theorem lawful : sys.Lawful where
  apply_wf := fun c op h => apply_wf' c op h
  incr_ok := fun M c es hs hi hlen => by
    obtain ⟨p, hp, he⟩ := hi
    subst he
    exact incr_ok' M c p hs hp hlen
  apply_ok := fun M c op hg hs hlen hlen' => apply_ok' M c op hg hs hlen hlen'

end Remoc.Robs.HashMap
